(** Property C14 — annotations mean the same however written and reach the graphs unchanged.
    Only statements, each closed by [exact]; the proofs live in Dialect/DialectProofs.v.
    [parse_dialect] is the Impl model of dialects._parse_dialect_string (tied to /repo by the per-run
    correspondence), [graph_base_dialect]/[fragment_node_dialect] are the tables GENERATED from
    dialects.py, [doc_coarse]/[doc_atomic] the documented tables; every theorem is for every float()
    oracle [fo].  The propagation clauses are theorems over the OTHER components' models (reader, strip,
    resolver, hydrogens), stated in the second half of this file; the run-time evaluation on the
    implementation's graphs (Dialect/DialectCheck.v) stays as it was. *)
From Coq Require Import String.
From Coq Require Import List Ascii ZArith Bool Permutation.
From CGV Require Import Base.PyBase Base.PyVal Base.NxGraph Gen.DialectGen Dialect.DialectImpl Dialect.DialectDefs
     Dialect.DialectProofs Dialect.DialectCheck Dialect.CoarsePartial.
Import ListNotations.
Close Scope Z_scope.

(** the tables in the source say what the documentation says, and have the shape assumed below *)
Theorem C14_generated_tables_documented :
  dialect_agrees graph_base_dialect doc_coarse = true /\ dialect_agrees fragment_node_dialect doc_atomic = true.
Proof. exact generated_tables_documented. Qed.
Theorem C14_generated_tables_wf : wf_dialect graph_base_dialect = true /\ wf_dialect fragment_node_dialect = true.
Proof. exact wf_generated. Qed.
Theorem C14_generated_tables_nodup :
  NoDup (pnames graph_base_dialect) /\ NoDup (long_names graph_base_dialect) /\
  NoDup (pnames fragment_node_dialect) /\ NoDup (long_names fragment_node_dialect).
Proof. exact nodup_generated. Qed.
Theorem C14_generated_names_clean :
  forallb clean (pnames graph_base_dialect) = true /\ forallb clean (pnames fragment_node_dialect) = true.
Proof. exact names_clean_generated. Qed.

(** the text of a writing is split into exactly its positional values and keyword pairs *)
Theorem C14_parse_render : forall fo dl es,
  Forall (fun v => clean v = true) (pos_of es) -> Forall (fun kv => clean_entry kv = true) (kws_of es) ->
  NoDup (keys (kws_of es)) -> es <> [EPos []] ->
  parse_dialect fo dl (render_ents es) = bind_cast fo dl (pos_of es) (kws_of es).
Proof. exact parse_render_ents. Qed.

(** positional form = keyword form *)
Theorem C14_bind_pos_kw : forall fo dl vals kws,
  NoDup (pnames dl) -> forallb clean (pnames dl) = true ->
  Forall (fun v => clean v = true) vals -> Forall (fun kv => clean_entry kv = true) kws ->
  length vals <= length (params dl) ->
  NoDup (keys (combine (pnames dl) vals ++ kws)) ->
  vals <> [[]] \/ kws <> [] ->
  parse_dialect fo dl (render vals kws) = parse_dialect fo dl (render [] (combine (pnames dl) vals ++ kws)).
Proof. exact bind_pos_kw. Qed.

(** keyword order is irrelevant *)
Theorem C14_bind_perm : forall fo dl pos kws kws',
  Forall (fun v => clean v = true) pos -> Forall (fun kv => clean_entry kv = true) kws ->
  NoDup (keys kws) -> Permutation kws kws' -> pos <> [[]] \/ kws <> [] ->
  res_equiv (parse_dialect fo dl (render pos kws)) (parse_dialect fo dl (render pos kws')).
Proof. exact bind_perm. Qed.
Theorem C14_bind_cast_perm : forall fo dl args kws kws', Permutation kws kws' -> NoDup (keys kws) ->
  res_equiv (bind_cast fo dl args kws) (bind_cast fo dl args kws').
Proof. exact bind_cast_perm. Qed.

(** omitted reserved keys take the defaults; the generated tables give charge 0.0, weight 1.0 and
    leave fragname / chiral absent *)
Theorem C14_bind_defaults : forall fo dl args kws a p,
  NoDup (pnames dl) -> NoDup (long_names dl) -> bind_cast fo dl args kws = Ok a ->
  In p (skipn (length args) (params dl)) -> kw_get (pname p) kws = None ->
  (pdefault p = None -> ~ In (long_name dl (pname p)) (keys kws)) ->
  aget (long_name dl (pname p)) a = pdefault p.
Proof. exact bind_defaults. Qed.
Theorem C14_defaults_generated : forall fo name,
  bind_cast fo graph_base_dialect [name] [] =
    Ok [(S "fragname", VStr name); (S "charge", VFlt (S "0.0")); (S "weight", VFlt (S "1.0"))] /\
  bind_cast fo fragment_node_dialect [] [] = Ok [(S "weight", VFlt (S "1.0"))].
Proof. exact defaults_generated. Qed.

(** reserved numeric keys are floats (of the oracle's value), reserved text keys and free keys verbatim *)
Theorem C14_bind_numeric : forall fo dl args kws a p v,
  NoDup (pnames dl) -> NoDup (long_names dl) -> bind_cast fo dl args kws = Ok a ->
  (exists i, nth_error (params dl) i = Some p /\ nth_error args i = Some v) \/
  (In p (skipn (length args) (params dl)) /\ kw_get (pname p) kws = Some v) ->
  match ptype p with
  | TFloat => exists r, fo v = Some r /\ aget (long_name dl (pname p)) a = Some (VFlt r)
  | TStr => aget (long_name dl (pname p)) a = Some (VStr v)
  end.
Proof. exact bind_numeric. Qed.
Theorem C14_bind_free : forall fo dl args kws a k v,
  NoDup (long_names dl) -> bind_cast fo dl args kws = Ok a -> NoDup (keys kws) -> In (k, v) kws ->
  ~ In k (pnames dl) -> ~ In k (long_names dl) -> aget k a = Some (VStr v).
Proof. exact bind_free. Qed.

(** known finding (class coarse_fragment_atom_dialect): a coarse node inside a fragment definition is
    annotated through the atom dialect; witness [#X;q=1]: the documentation promises charge 1.0, the code
    (model [coarse_fragment_node], validated against the implementation on every run) keeps q as text *)
Theorem C14_coarse_fragment_refuted :
  let fo := fo_of_table [(S "1", Some (S "1.0"))] in
  exists a e, coarse_fragment_node fo (S "X;q=1") = Ok a /\
              expected fo doc_coarse [(S "fragname", S "X"); (S "q", S "1")] [] = Some e /\
              coarse_fragment_dialect_class {| a_assign := [(S "fragname", S "X"); (S "q", S "1")]; a_free := [];
                                               a_ents := [EPos (S "X"); EKw (S "q") (S "1")] |} = true /\
              aget (S "charge") e = Some (VFlt (S "1.0")) /\
              aget (S "charge") a = Some (VFlt (S "0.0")) /\ aget (S "q") a = Some (VStr (S "1")).
Proof. eexists. eexists. repeat split; vm_compute; reflexivity. Qed.

(** C14_partial for the class: a coarse node inside a fragment definition written OUTSIDE the class (only the
    name positional, keys other than q / x) gets what the documented coarse dialect promises: charge 0.0,
    weight = the written number or 1.0, free keys verbatim *)
Theorem C14_partial_coarse_fragment : forall fo name kws xw,
  clean name = true -> name <> [] ->
  Forall (fun kv => clean_entry kv = true) kws -> NoDup (keys kws) ->
  (forall k, In k (keys kws) -> ~ In k outside_names) ->
  w_value fo kws = Some xw ->
  exists a, coarse_fragment_node fo (render [name] kws) = Ok a /\
    aget (S "charge") a = Some (VFlt (S "0.0")) /\
    aget (S "weight") a = Some xw /\
    forall k v, In (k, v) kws -> k <> S "w" -> aget k a = Some (VStr v).
Proof. exact coarse_fragment_partial. Qed.
Theorem C14_partial_is_outside_class : forall name kws assign free,
  (forall k, In k (keys kws) -> ~ In k outside_names) ->
  coarse_fragment_dialect_class {| a_assign := assign; a_free := free;
                                   a_ents := EPos name :: map (fun kv => EKw (fst kv) (snd kv)) kws |} = false.
Proof. exact outside_class. Qed.

(** non-vacuity of the implications above *)
Example C14_nonvacuous :
  parse_dialect fo_demo graph_base_dialect (S "A;+1;1e-1;mass=72") =
    Ok [(S "mass", VStr (S "72")); (S "fragname", VStr (S "A")); (S "charge", VFlt (S "1.0")); (S "weight", VFlt (S "0.1"))] /\
  parse_dialect fo_demo graph_base_dialect (S "fragname=A;q=+1;w=1e-1;mass=72") =
    parse_dialect fo_demo graph_base_dialect (S "A;+1;1e-1;mass=72") /\
  render [S "A"; S "+1"; S "1e-1"] [(S "mass", S "72")] = S "A;+1;1e-1;mass=72".
Proof. exact pos_kw_example. Qed.

Print Assumptions C14_generated_tables_documented.
Print Assumptions C14_parse_render.
Print Assumptions C14_bind_pos_kw.
Print Assumptions C14_bind_perm.
Print Assumptions C14_bind_defaults.
Print Assumptions C14_defaults_generated.
Print Assumptions C14_bind_numeric.
Print Assumptions C14_bind_free.
Print Assumptions C14_coarse_fragment_refuted.
Print Assumptions C14_partial_coarse_fragment.

(** ======================= propagation, over the other components' models ======================= *)
From CGV Require Import Reader.ReaderImpl Reader.Grammar Reader.Lin Reader.ReaderCheck
     Resolve.GraphOps Resolve.Pipeline Resolve.CopyProofs
     Frag.NDict Frag.StripImpl Frag.FragText Hydro.Hydrogens Hydro.Fragments
     Hydro.SquashDefs Hydro.HydroDefs Resolve.PipelineFull Compose.CutModel Compose.CutHydrogens Reader.ReaderUnit Frag.SmilesParse Frag.SmilesSpec Frag.Template Frag.TemplateProofs Dialect.ReturnedAnnot Dialect.ReturnedCar Dialect.ReturnedExample Dialect.ReturnedCoarse Dialect.TextAnnot Dialect.CoarseTextAnnot Dialect.CoarseChainAnnot Dialect.CoarsePartial Write.FragRead Dialect.BaseAnnotUnits Dialect.MachineAnnot Dialect.BaseAnnot Dialect.FragAnnot Dialect.CopyAnnot Dialect.TemplateAnnot.
Open Scope Z_scope.

(** ---- base graph ---- *)
(** the reader model ([ReaderImpl.read_cgsmiles], compared with the implementation on every run) on every
    string of the documented grammar outside the reader's own defect classes: node i carries EXACTLY
    parse_graph_base_node of the i-th node text in order of appearance (one per copy of a multiplied node) -
    at every node position, inside branches, after ring bonds *)
Theorem C14_base_annotation_stays : forall fo braces a g,
  Grammar.wf fo a = true -> has_branch_mult a = false -> class_C04 braces a = 0%nat ->
  read_cgsmiles fo (print braces a) = Ok g -> annotated_as fo g (node_texts (toks (expand_branches a))).
Proof. exact base_annotation_stays. Qed.
Theorem C14_base_annotation_flat : forall fo l g, lins_ok fo l = true ->
  read_cgsmiles fo ("{"%char :: lins_str l ++ ["}"%char]) = Ok g -> annotated_as fo g (node_texts (lins_toks l)).
Proof. exact base_annotation_flat. Qed.
(** strings with branch multipliers (reader component's reader_sim_segs): [segs_toks] is the LONGHAND token list,
    so every node of every copy of a multiplied unit carries the parse of its text *)
Theorem C14_base_annotation_units : forall fo l g, segs_ok fo l = true ->
  read_cgsmiles fo ("{"%char :: segs_str l ++ ["}"%char]) = Ok g -> annotated_as fo g (node_texts (segs_toks l)).
Proof. exact base_annotation_units. Qed.
(** what "per copy" means, on {[#A;q=1;foo=bar]([#B;w=2]|2)|3}: copies 2..n of the annotated anchor (nodes 3, 6)
    carry its charge and free keys *)
Example C14_base_annotation_units_nonvacuous :
  let fo := fo_of_table [(S "1", Some (S "1.0")); (S "2", Some (S "2.0"))] in
  let u := {| u_name := S "A;q=1;foo=bar"; u_mult := None; u_bond := None;
              u_body := [{| bn_name := S "B;w=2"; bn_mult := Some [2%nat]; bn_bond := None |}];
              u_ms := None; u_count := [3%nat]; u_after := None |} in
  segs_ok fo [SUnit u] = true /\
  segs_str [SUnit u] = S "[#A;q=1;foo=bar]([#B;w=2]|2)|3" /\
  node_texts (segs_toks [SUnit u]) =
    [S "A;q=1;foo=bar"; S "B;w=2"; S "B;w=2"; S "A;q=1;foo=bar"; S "B;w=2"; S "B;w=2"; S "A;q=1;foo=bar"; S "B;w=2"; S "B;w=2"] /\
  exists g, read_cgsmiles fo ("{"%char :: segs_str [SUnit u] ++ ["}"%char]) = Ok g /\
            node_get g 3 (S "charge") = Some (VFlt (S "1.0")) /\ node_get g 6 (S "foo") = Some (VStr (S "bar")).
Proof. exact base_annotation_units_example. Qed.
(** the underlying fact on the token machine (any token list, hence also the longhand of branch multipliers) *)
Theorem C14_machine_annotations : forall fo ts x, m_run fo ts m_init = Ok x ->
  node_keys (m_g x) = zseq (length (node_texts ts)) /\
  forall i nm, nth_error (node_texts ts) i = Some nm ->
    exists a, parse_graph_base_node fo nm = Ok a /\ node_attrs (m_g x) (Z.of_nat i) = Ok a.
Proof. exact machine_annotations. Qed.
(** ... and on the coarse graph resolve() returns (model [Pipeline.resolve_step]): same key, same dictionary *)
Theorem C14_base_annotation_on_coarse_graph : forall fo braces a g legacy aa fd tr so i nm,
  Grammar.wf fo a = true -> has_branch_mult a = false -> class_C04 braces a = 0%nat ->
  read_cgsmiles fo (print braces a) = Ok g ->
  resolve_step legacy aa fd g tr = Ok so ->
  nth_error (node_texts (toks (expand_branches a))) i = Some nm ->
  exists at_, parse_graph_base_node fo nm = Ok at_ /\
              (aget (S "atomname") at_ = None -> node_attrs (so_meta so) (Z.of_nat i) = Ok at_).
Proof. exact base_annotation_on_coarse_graph. Qed.
Theorem C14_coarse_graph_keeps_annotation : forall legacy aa fd prev tr so k a,
  resolve_step legacy aa fd prev tr = Ok so -> NoDup (node_keys prev) ->
  node_attrs prev k = Ok a -> aget (S "atomname") a = None -> node_attrs (so_meta so) k = Ok a.
Proof. exact coarse_graph_keeps_annotation. Qed.

(** ---- fragment atoms ---- *)
(** strip_bonding_descriptors (model StripImpl, through the strip component's [strip_correct]): the
    annotation of the bracket atom at ANY position is found under that atom's index, as the dictionary
    fragment_node_parser returns for its text *)
Theorem C14_strip_annotation_reaches_attributes : forall fo toks dc pre body annot post clean desc ez ann a,
  FragText.wf toks dc = true -> excluded toks dc = false ->
  decorate toks dc = pre ++ ITok (TBracket body annot) :: post ->
  strip_bonding_descriptors fo (FragText.render (decorate toks dc)) = Ok (clean, desc, ez, ann) ->
  fragment_node_parser fo (annot_text annot) = Ok a ->
  exists a', nd_get (atoms_of pre) ann = Some a' /\ attrs_equiv a' a.
Proof. exact strip_annotation_reaches_attributes. Qed.
(** `nx.set_node_attributes(mol_graph, attributes)` (model Hydro/Fragments.set_attr_dicts): every parsed
    (key, value) is on template atom i afterwards *)
Theorem C14_template_carries_annotation : forall d g i a n key v,
  NoDup (map fst d) -> In (i, a) d -> gfind i g = Some n -> NoDup (map fst a) -> In (key, v) a ->
  exists n', gfind i (set_attr_dicts g d) = Some n' /\ aget key (na n') = Some v.
Proof. exact template_carries_annotation. Qed.
(** ... and through the WHOLE post-processing of read_fragment_smiles (model Hydro/Fragments.read_fragment_post:
    defaults, set_node_attributes, atom names, the `z` trick, pysmiles.remove_explicit_hydrogens, E/Z classes):
    the annotated atom is never removed and keeps the parsed value under every key those steps do not write *)
Theorem C14_template_annotation : forall g0 fragname bonding ez attributes g i a key v n0,
  read_fragment_post g0 fragname bonding ez attributes = Ok g ->
  NoDup (node_keys g0) -> NoDup (map fst attributes) -> In (i, a) attributes -> NoDup (map fst a) ->
  gfind i g0 = Some n0 -> In (key, v) a -> ~ In key written_keys ->
  node_get g i key = Some v.
Proof. exact template_annotation_post. Qed.
(** resolve_disconnected_molecule (model GraphOps.resolve_disconnected): the coarse node [mn] stands at ANY
    position of the coarse graph - so this is every coarse node that uses the fragment, every reuse count -
    and at the end of the loop each template atom has its copy for that coarse node, recording the coarse key
    and carrying the template's value under every key but fragid / mapping / ez_isomer_atoms *)
Theorem C14_fragment_annotation_on_every_copy : forall fd pre mn post fv name frag mol fgs,
  wf_dict fd -> aget (S "fragname") (na mn) = Some fv -> lookup_fragment fd fv = Some (name, frag) ->
  resolve_disconnected fd (pre ++ mn :: post) = Ok (mol, fgs) ->
  exists off, forall n, In n frag -> exists a2, node_attrs mol (copy_key off frag (nk n)) = Ok a2 /\
    aget (S "fragid") a2 = Some (VList [VInt (nk mn)]) /\
    forall key, kept_key key -> aget key a2 = aget key (na n).
Proof. exact every_copy_carries_template. Qed.
(** the later steps of resolve(): edges_from_bonding_descrpt (model GraphOps.bonding_step) keeps every key but
    hcount on every node; sort_nodes_by_attr (the resolver component's sort_graph) carries every dictionary
    along the sorting permutation *)
Theorem C14_bonding_keeps_annotation : forall legacy all_atom meta mol fgs mol' fgs',
  bonding_step legacy all_atom meta mol fgs = Ok (mol', fgs') ->
  forall k, has_node mol k = true -> has_node mol' k = true /\
    forall key, key <> S "hcount" -> node_get mol' k key = node_get mol k key.
Proof. exact bonding_keeps_annotation. Qed.
Theorem C14_sort_keeps_annotation : forall g h, wf_graph g -> map fst (get_node_attributes g (S "fragid")) = node_keys g ->
  sort_nodes_by_attr g = Ok h ->
  exists m, sort_mapping g = Ok m /\
    forall k key, In k (node_keys g) -> key <> S "ez_isomer_atoms" -> node_get h (map_get m k) key = node_get g k key.
Proof. exact sort_keeps_annotation. Qed.
(** rebuild_h_atoms' inheritance loop (model Hydrogens.inherit_step): no key an atom carries is overwritten *)
Theorem C14_hydrogens_do_not_overwrite : forall copy_attrs g k n anchor rest m,
  gfind k g = Some n -> wants_inherit (na n) = true ->
  neighbors g k = anchor :: rest -> anchor <> k -> gfind anchor g = Some m ->
  exists g', inherit_step copy_attrs g k = Ok g' /\
    (forall j, j <> k -> gfind j g' = gfind j g) /\
    exists n', gfind k g' = Some n' /\ forall attr v, aget attr (na n) = Some v -> aget attr (na n') = Some v.
Proof. exact inheritance_does_not_overwrite. Qed.

(** ---- END TO END to the RETURNED all-atom graph (over the Compose component's cut model, imported) ----
    A cut C of a molecule into named parts with its templates [fd] and base graph [B] (Compose/CutModel.v); the template
    atom i of fragment `name` is node i of [T].  For EVERY part (p, name, xs) - every coarse node that uses the fragment -
    and every atom x = xs[i], the node of the returned graph that stems from x (key: sorting permutation of phi C x)
    has, under every key the steps do not write, EXACTLY the template atom's value: every copy carries the annotation
    unchanged, and an atom whose template atom lacks a key does not gain it.  Stages: resolve_disconnected, bonding_step,
    squash (identity: a cut has no `!` bond), rebuild_h_atoms with the identity aromaticity transcript (Hydro's contract
    Hydrogens.transcript_contract itself demands that every attribute but `aromatic` is left alone and the model raises
    otherwise), sort_nodes_by_attr; then annotate_ez_isomers_cgsmiles, annotate_fragments, set_atom_names (fo_mol) *)
Theorem C14_annotation_reaches_returned_graph : forall C, wf_cut C -> forall fd, templates_ok C fd -> wf_dict fd ->
  forall B, is_base C B ->
  (forall x, In x (flat C) ->
     (exists e, aget (S "element") (payload C x) = Some e) /\ (exists q, aget (S "charge") (payload C x) = Some q) /\
     (exists h, aget (S "hcount") (payload C x) = Some (VInt h)) /\ Hydrogens.is_H (payload C x) = false) ->
  (forall b, In b (c_bonds C) -> numeric (cb_ord b)) ->
  exists m1 fg1 m2 fg2,
    resolve_disconnected fd B = Ok (m1, fg1) /\ bonding_step true true B m1 fg1 = Ok (m2, fg2) /\
    Squash.squash_atoms m2 = Ok m2 /\
    forall g4 g5, Hydrogens.rebuild_h_atoms_default m2 (Some m2) = Ok g4 -> sort_nodes_by_attr g4 = Ok g5 ->
    exists m, sort_mapping g4 = Ok m /\ SortGraphProofs.inj_on (map_get m) (node_keys g4) /\
      forall p name xs T i x n key,
        nth_error (c_parts C) p = Some (name, xs) -> fd_get name fd = Some T ->
        nth_error xs i = Some x -> gfind (Z.of_nat i) T = Some n -> carried_key key ->
        In (phi C x) (node_keys g4) /\ node_get g5 (map_get m (phi C x)) key = aget key (na n).
Proof. exact annotation_reaches_returned_graph. Qed.
Theorem C14_annotation_reaches_returned_graph_full : forall C, wf_cut C -> forall fd, templates_ok C fd -> wf_dict fd ->
  forall B, is_base C B ->
  (forall x, In x (flat C) ->
     (exists e, aget (S "element") (payload C x) = Some e) /\ (exists q, aget (S "charge") (payload C x) = Some q) /\
     (exists h, aget (S "hcount") (payload C x) = Some (VInt h)) /\ Hydrogens.is_H (payload C x) = false) ->
  (forall b, In b (c_bonds C) -> numeric (cb_ord b)) ->
  forall prev car fo, meta_of prev = B -> resolve_step_full true true fd prev car = Ok fo -> car = Some (fo_m3 fo) ->
  exists m, sort_mapping (fo_m4 fo) = Ok m /\ SortGraphProofs.inj_on (map_get m) (node_keys (fo_m4 fo)) /\
    forall p name xs T i x n key,
      nth_error (c_parts C) p = Some (name, xs) -> fd_get name fd = Some T ->
      nth_error xs i = Some x -> gfind (Z.of_nat i) T = Some n -> returned_key key ->
      node_get (fo_mol fo) (map_get m (phi C x)) key = aget key (na n).
Proof. exact annotation_reaches_returned_graph_full. Qed.
(** ... and for ANY recorded transcript of pysmiles' correct_aromatic_rings: the model (Hydrogens.rebuild_h_atoms)
    accepts a transcript only under Hydro's contract, and that contract says that the correction leaves every node
    attribute except `aromatic` alone ([C14_transcript_contract_leaves_alone]); so one all-atom resolve(), end to end,
    returns a graph in which every copy of template atom i has exactly the template's value under every key that is
    not written by a step (fragid, mapping, ez_isomer_atoms, hcount, atomname, ez_isomer, ez_isomer_class, aromatic).
    The only extra hypothesis: the attribute lists of the molecule handed to rebuild_h_atoms are dicts (distinct keys) *)
Theorem C14_transcript_contract_leaves_alone : forall m2 g1, Hydrogens.transcript_contract m2 g1 = true -> dicts m2 ->
  node_keys g1 = node_keys m2 /\ (forall y x, NxGraph.has_edge g1 y x = NxGraph.has_edge m2 y x) /\
  (forall k key, key <> S "aromatic" -> node_get g1 k key = node_get m2 k key).
Proof. intros m2 g1 H D. destruct (contract_car_ok m2 g1 H D) as [A B0 C0]. auto. Qed.
Theorem C14_annotation_reaches_returned_graph_any_transcript : forall C, wf_cut C -> forall fd, templates_ok C fd -> wf_dict fd ->
  forall B, is_base C B ->
  (forall x, In x (flat C) ->
     (exists e, aget (S "element") (payload C x) = Some e) /\ (exists q, aget (S "charge") (payload C x) = Some q) /\
     (exists h, aget (S "hcount") (payload C x) = Some (VInt h)) /\ Hydrogens.is_H (payload C x) = false) ->
  forall prev g1 fo, meta_of prev = B -> resolve_step_full true true fd prev (Some g1) = Ok fo -> dicts (fo_m3 fo) ->
  exists m, sort_mapping (fo_m4 fo) = Ok m /\ SortGraphProofs.inj_on (map_get m) (node_keys (fo_m4 fo)) /\
    forall p name xs T i x n key,
      nth_error (c_parts C) p = Some (name, xs) -> fd_get name fd = Some T ->
      nth_error xs i = Some x -> gfind (Z.of_nat i) T = Some n -> returned_key key -> key <> S "aromatic" ->
      node_get (fo_mol fo) (map_get m (phi C x)) key = aget key (na n).
Proof. exact annotation_reaches_returned_graph_any_car. Qed.
(** non-vacuity: {[#A][#A]}.{#A=C[C;0.5;x=R;k=v][$]} as a cut; the hypotheses hold, the step returns, the two copies
    of atom 1 (returned keys 1, 8) carry weight 0.5 / chiral R / k = v, the two copies of atom 0 (keys 0, 7) do not *)
Example C14_returned_annotation_nonvacuous :
  wf_cut exA /\ templates_ok exA exA_fd /\ is_base exA (base_of exA) /\ wf_dict exA_fd /\
  (forall x, In x (flat exA) ->
     (exists e, aget (S "element") (payload exA x) = Some e) /\ (exists q, aget (S "charge") (payload exA x) = Some q) /\
     (exists h, aget (S "hcount") (payload exA x) = Some (VInt h)) /\ Hydrogens.is_H (payload exA x) = false) /\
  meta_of (base_of exA) = base_of exA /\
  match exA_m3 with
  | Some m3 =>
      dictsb m3 = true /\
      match resolve_step_full true true exA_fd (base_of exA) (Some m3) with
      | Ok fo => fo_m3 fo = m3 /\
          map (fun k => (node_get (fo_mol fo) k (S "weight"), node_get (fo_mol fo) k (S "chiral"), node_get (fo_mol fo) k (S "k"))) [0; 1; 7; 8]
          = [(Some (VInt 1), None, None); (Some (VFlt (S "0.5")), Some (VStr (S "R")), Some (VStr (S "v")));
             (Some (VInt 1), None, None); (Some (VFlt (S "0.5")), Some (VStr (S "R")), Some (VStr (S "v")))]
      | Err _ => False
      end
  | None => False
  end.
Proof. exact returned_annotation_example. Qed.
(** ---- FROM THE TEXT of the fragment definition to the returned graph ----
    [toks]/[dc]: the fragment text as tokens with its descriptors (strip component's domain: wf, not excluded);
    [g0]: pysmiles.read_smiles(clean text) as a transcript (third party; used only through "atom i is node i of g0");
    [T] = what read_fragment_smiles' post-processing (Hydro/Fragments.read_fragment_post) makes of it with the attribute
    dict strip_bonding_descriptors returned; the molecule a well-formed cut whose fragment `name` is [T]; one all-atom
    resolve() (PipelineFull.resolve_step_full) under any aromaticity transcript [g1] Hydro's contract admits.
    An annotation `key = v` parsed from the i-th atom token (i = atoms_of pre) is attribute `key` = v of the copy of
    that atom in EVERY part named `name` (every coarse node using the fragment); keys written by a step are excluded *)
Theorem C14_text_annotation_reaches_returned_graph : forall fo name toks dc,
  FragText.wf toks dc = true -> excluded toks dc = false ->
  forall clean desc ez ann, strip_bonding_descriptors fo (FragText.render (decorate toks dc)) = Ok (clean, desc, ez, ann) ->
  forall g0 bonding ezl T, NoDup (node_keys g0) -> read_fragment_post g0 name bonding ezl (ann_list ann) = Ok T ->
  forall C, wf_cut C -> forall fd, templates_ok C fd -> wf_dict fd -> fd_get name fd = Some T ->
  forall B, is_base C B ->
  (forall x, In x (flat C) ->
     (exists e, aget (S "element") (payload C x) = Some e) /\ (exists q, aget (S "charge") (payload C x) = Some q) /\
     (exists h, aget (S "hcount") (payload C x) = Some (VInt h)) /\ Hydrogens.is_H (payload C x) = false) ->
  forall prev g1 fo_, meta_of prev = B -> resolve_step_full true true fd prev (Some g1) = Ok fo_ -> dicts (fo_m3 fo_) ->
  exists m, sort_mapping (fo_m4 fo_) = Ok m /\ SortGraphProofs.inj_on (map_get m) (node_keys (fo_m4 fo_)) /\
    forall pre body annot post a key v n0,
      decorate toks dc = pre ++ ITok (TBracket body annot) :: post ->
      fragment_node_parser fo (annot_text annot) = Ok a -> In (key, v) a ->
      gfind (Z.of_nat (atoms_of pre)) g0 = Some n0 ->
      ~ In key written_keys -> returned_key key -> key <> S "aromatic" ->
      forall p xs x, nth_error (c_parts C) p = Some (name, xs) -> nth_error xs (atoms_of pre) = Some x ->
        node_get (fo_mol fo_) (map_get m (phi C x)) key = Some v.
Proof. exact text_annotation_reaches_returned_graph. Qed.
(** ... and an atom j of the fragment whose own token does not set `key` (nor `element`), for which pysmiles sets no
    such key, has no `key` on any of its copies: no other heavy atom gains the annotation *)
Theorem C14_text_annotation_not_gained : forall fo name toks dc,
  FragText.wf toks dc = true -> excluded toks dc = false ->
  forall clean desc ez ann, strip_bonding_descriptors fo (FragText.render (decorate toks dc)) = Ok (clean, desc, ez, ann) ->
  forall g0 bonding ezl T, NoDup (node_keys g0) -> read_fragment_post g0 name bonding ezl (ann_list ann) = Ok T ->
  forall C, wf_cut C -> forall fd, templates_ok C fd -> wf_dict fd -> fd_get name fd = Some T ->
  forall B, is_base C B ->
  (forall x, In x (flat C) ->
     (exists e, aget (S "element") (payload C x) = Some e) /\ (exists q, aget (S "charge") (payload C x) = Some q) /\
     (exists h, aget (S "hcount") (payload C x) = Some (VInt h)) /\ Hydrogens.is_H (payload C x) = false) ->
  forall prev g1 fo_, meta_of prev = B -> resolve_step_full true true fd prev (Some g1) = Ok fo_ -> dicts (fo_m3 fo_) ->
  exists m, sort_mapping (fo_m4 fo_) = Ok m /\
    forall j key n,
      gfind (Z.of_nat j) T = Some n ->
      has_node g0 (Z.of_nat j) = true -> node_get g0 (Z.of_nat j) key = None ->
      (forall a, nd_get j ann = Some a -> aget key a = None /\ aget (S "element") a = None) ->
      (nd_get j ann <> None \/ node_get g0 (Z.of_nat j) (S "element") <> Some (VStr (S "H"))) ->
      ~ In key written_keys -> ~ In key default_keys -> returned_key key -> key <> S "aromatic" ->
      forall p xs y, nth_error (c_parts C) p = Some (name, xs) -> nth_error xs j = Some y ->
        node_get (fo_mol fo_) (map_get m (phi C y)) key = None.
Proof. exact text_annotation_not_gained. Qed.
(** the exact value of every other key of a template atom: the annotation's, else pysmiles' *)
Theorem C14_template_exact : forall g0 fragname bonding ez attributes g j key,
  read_fragment_post g0 fragname bonding ez attributes = Ok g ->
  NoDup (node_keys g0) -> NoDup (map fst attributes) -> (forall i a, In (i, a) attributes -> NoDup (map fst a)) ->
  has_node g0 j = true ->
  (In j (map fst attributes) \/ node_get g0 j (S "element") <> Some (VStr (S "H"))) ->
  (forall a, zassoc j attributes = Some a -> aget (S "element") a = None) ->
  ~ In key written_keys -> ~ In key default_keys ->
  node_get g j key = annotated_value key (zassoc j attributes) (node_get g0 j key).
Proof. exact template_exact_post. Qed.
(** the strip component's text-only template model (C13_template_of_render: fragment_template = template_spec;
    C13_template_nodes) carries the same dictionary on node i: the two models of read_fragment_smiles agree there *)
Theorem C14_frag_template_node_annotation : forall fo name toks dc T clean d e a G pre body annot post an key v base,
  FragText.wf toks dc = true -> excluded toks dc = false ->
  template_spec fo name toks dc = Ok T -> strip_spec fo toks dc = Ok (clean, d, e, a) -> graph_of false toks = Ok G ->
  decorate toks dc = pre ++ ITok (TBracket body annot) :: post ->
  fragment_node_parser fo (annot_text annot) = Ok an -> In (key, v) an ->
  nth_error (g_nodes G) (atoms_of pre) = Some base ->
  exists nd, nth_error (t_nodes T) (atoms_of pre) = Some nd /\ aget key nd = Some v.
Proof. exact frag_template_node_annotation. Qed.

(** the same at the end of the instantiation loop, for coarse and all-atom levels alike *)
Theorem C14_disconnected_copy_exact : forall C, wf_cut C -> forall fd, templates_ok C fd -> wf_dict fd ->
  forall B, is_base C B -> forall m1 fg1 p name xs T i x n key,
  resolve_disconnected fd B = Ok (m1, fg1) ->
  nth_error (c_parts C) p = Some (name, xs) -> fd_get name fd = Some T ->
  nth_error xs i = Some x -> gfind (Z.of_nat i) T = Some n -> kept_key key ->
  has_node m1 (phi C x) = true /\ node_get m1 (phi C x) key = aget key (na n).
Proof. exact disconnected_copy_exact. Qed.

(** a COARSE resolution step (last_all_atom = False, or any level but the last): the fragment "atoms" are coarse nodes, the
    step has no hydrogen completion, E/Z annotation or atom names; squashing is the identity on the bonded graph (Compose's
    [squash_identity_any]) and sorting renumbers (Resolve's [sort_graph]).  Every copy of template node i in the RETURNED graph
    has exactly the template node's value under every carried key (all but fragid / mapping / ez_isomer_atoms / hcount):
    present with that value when the node has it, absent when it does not *)
Theorem C14_annotation_reaches_returned_coarse_graph : forall C, wf_cut C -> forall fd, templates_ok C fd -> wf_dict fd ->
  forall B, is_base C B -> forall prev car fo,
  meta_of prev = B -> resolve_step_full true false fd prev car = Ok fo ->
  exists m, sort_mapping (fo_m3 fo) = Ok m /\ SortGraphProofs.inj_on (map_get m) (node_keys (fo_m3 fo)) /\
    forall p name xs T i x n key,
      nth_error (c_parts C) p = Some (name, xs) -> fd_get name fd = Some T ->
      nth_error xs i = Some x -> gfind (Z.of_nat i) T = Some n -> carried_key key ->
      node_get (fo_mol fo) (map_get m (phi C x)) key = aget key (na n).
Proof. exact annotation_reaches_returned_graph_coarse. Qed.

Example C14_returned_coarse_nonvacuous :
  match resolve_step_full true false exA_fd (base_of exA) None with
  | Ok fo => node_keys (fo_mol fo) = [0; 1; 2; 3] /\
      map (fun k => (node_get (fo_mol fo) k (S "weight"), node_get (fo_mol fo) k (S "chiral"), node_get (fo_mol fo) k (S "k"))) [0; 1; 2; 3]
      = [(Some (VInt 1), None, None); (Some (VFlt (S "0.5")), Some (VStr (S "R")), Some (VStr (S "v")));
         (Some (VInt 1), None, None); (Some (VFlt (S "0.5")), Some (VStr (S "R")), Some (VStr (S "v")))]
  | Err _ => False
  end.
Proof. exact returned_coarse_example. Qed.

(** ... and from the TEXT of a COARSE fragment definition ({#F=[$][#X;w=2;k=v][#Y][$]}), over the writer component's model
    of read_fragment_cgsmiles / the coarse branch of fragment_iter (Write/FragRead.v): the annotation written on the i-th node
    token is on template node i under EVERY key it writes (the annotation dicts are applied last), every other key outside
    atomname/bonding/fragname/fragid/w is what read_cgsmiles gave for the clean text, and every copy of the node in the graph
    a coarse resolve() returns has the written value *)
Theorem C14_coarse_text_annotation_on_template : forall fo name toks dc,
  FragText.wf toks dc = true -> excluded toks dc = false ->
  forall clean desc ez ann, strip_bonding_descriptors fo (FragText.render (decorate toks dc)) = Ok (clean, desc, ez, ann) ->
  forall T, read_coarse_fragment fo name (FragText.render (decorate toks dc)) = Ok T ->
  forall pre body annot post a key v,
  decorate toks dc = pre ++ ITok (TBracket body annot) :: post ->
  fragment_node_parser fo (annot_text annot) = Ok a -> In (key, v) a ->
  has_node T (Z.of_nat (atoms_of pre)) = true ->
  node_get T (Z.of_nat (atoms_of pre)) key = Some v.
Proof. exact coarse_text_annotation_on_template. Qed.

Theorem C14_coarse_template_exact : forall fo name toks dc,
  FragText.wf toks dc = true -> excluded toks dc = false ->
  forall clean desc ez ann, strip_bonding_descriptors fo (FragText.render (decorate toks dc)) = Ok (clean, desc, ez, ann) ->
  forall T, read_coarse_fragment fo name (FragText.render (decorate toks dc)) = Ok T ->
  exists g, ReaderImpl.read_cgsmiles fo clean = Ok g /\ node_keys T = node_keys g /\
    forall j key, ~ In key coarse_written ->
      node_get T (Z.of_nat j) key = if has_node g (Z.of_nat j) then annotated_value key (nd_get j ann) (node_get g (Z.of_nat j) key) else None.
Proof. exact coarse_template_exact. Qed.

Theorem C14_coarse_text_annotation_reaches_returned_graph : forall fo name toks dc,
  FragText.wf toks dc = true -> excluded toks dc = false ->
  forall T, read_coarse_fragment fo name (FragText.render (decorate toks dc)) = Ok T ->
  forall C, wf_cut C -> forall fd, templates_ok C fd -> wf_dict fd -> fd_get name fd = Some T ->
  forall B, is_base C B -> forall prev car fo_,
  meta_of prev = B -> resolve_step_full true false fd prev car = Ok fo_ ->
  exists m, sort_mapping (fo_m3 fo_) = Ok m /\ SortGraphProofs.inj_on (map_get m) (node_keys (fo_m3 fo_)) /\
    forall pre body annot post a key v,
      decorate toks dc = pre ++ ITok (TBracket body annot) :: post ->
      fragment_node_parser fo (annot_text annot) = Ok a -> In (key, v) a -> carried_key key ->
      forall p xs x, nth_error (c_parts C) p = Some (name, xs) -> nth_error xs (atoms_of pre) = Some x ->
        node_get (fo_mol fo_) (map_get m (phi C x)) key = Some v.
Proof. exact coarse_text_annotation_reaches_returned_graph. Qed.

Example C14_coarse_text_nonvacuous :
  FragText.render (decorate exc_toks exc_dc) = S "[$][#X;w=2;k=v][#Y][$]" /\ FragText.wf exc_toks exc_dc = true /\ excluded exc_toks exc_dc = false /\
  match read_coarse_fragment exc_fo (S "F") (FragText.render (decorate exc_toks exc_dc)) with
  | Ok T => node_keys T = [0; 1] /\
      map (fun k => (node_get T k (S "weight"), node_get T k (S "k"))) [0; 1]
      = [(Some (VFlt (S "2.0")), Some (VStr (S "v"))); (Some (VFlt (S "1.0")), None)]
  | Err _ => False
  end.
Proof. exact coarse_text_example. Qed.

(** the node-level model of a coarse node inside a fragment definition ([coarse_fragment_node], compared with the
    implementation per node on every run) IS what the graph-level model puts on the template node, for fragment
    definitions that are chains of annotated coarse nodes joined by bond symbols, with any descriptors anywhere (clean
    text through strip_correct, read_cgsmiles on it through the reader component's reader_sim_lin_nobrace) ... *)
Theorem C14_base_annotation_flat_nobrace : forall fo l g, lins_ok fo l = true ->
  read_cgsmiles fo (lins_str l) = Ok g -> annotated_as fo g (node_texts (lins_toks l)).
Proof. exact base_annotation_flat_nobrace. Qed.
Theorem C14_coarse_chain_template_node : forall fo F l dc T,
  FragText.wf (ctoks l) dc = true -> excluded (ctoks l) dc = false ->
  lins_ok fo (clins l) = true ->
  Forall (fun xo => ~ In ";"%char (fst (fst xo))) l ->
  read_coarse_fragment fo F (FragText.render (decorate (ctoks l) dc)) = Ok T ->
  forall j x o key, nth_error l j = Some (x, o) -> ~ In key coarse_written ->
    exists a, coarse_fragment_node fo (cn_text x) = Ok a /\ node_get T (Z.of_nat j) key = aget key a.
Proof. exact coarse_chain_template_node. Qed.
(** ... so C14_partial holds on the TEMPLATE node: outside the defect class it carries charge 0.0, the written weight or
    1.0 and its free keys *)
Theorem C14_partial_on_template : forall fo F l dc T,
  FragText.wf (ctoks l) dc = true -> excluded (ctoks l) dc = false ->
  lins_ok fo (clins l) = true ->
  Forall (fun xo => ~ In ";"%char (fst (fst xo))) l ->
  read_coarse_fragment fo F (FragText.render (decorate (ctoks l) dc)) = Ok T ->
  forall j x o name kws xw, nth_error l j = Some (x, o) -> cn_text x = DialectDefs.render [name] kws ->
    clean name = true -> name <> [] ->
    Forall (fun kv => clean_entry kv = true) kws -> NoDup (keys kws) ->
    (forall k, In k (keys kws) -> ~ In k outside_names) ->
    w_value fo kws = Some xw ->
    node_get T (Z.of_nat j) (S "charge") = Some (VFlt (S "0.0")) /\
    node_get T (Z.of_nat j) (S "weight") = Some xw /\
    forall k v, In (k, v) kws -> k <> S "w" -> ~ In k coarse_written -> node_get T (Z.of_nat j) k = Some (VStr v).
Proof. exact coarse_chain_partial. Qed.
(** ... and so does every copy of the node in the graph a coarse resolve() returns *)
Theorem C14_partial_on_returned_coarse_graph : forall fo F l dc T,
  FragText.wf (ctoks l) dc = true -> excluded (ctoks l) dc = false ->
  lins_ok fo (clins l) = true ->
  Forall (fun xo => ~ In ";"%char (fst (fst xo))) l ->
  read_coarse_fragment fo F (FragText.render (decorate (ctoks l) dc)) = Ok T ->
  forall C, wf_cut C -> forall fd, templates_ok C fd -> wf_dict fd -> fd_get F fd = Some T ->
  forall B, is_base C B -> forall prev car fo_,
  meta_of prev = B -> resolve_step_full true false fd prev car = Ok fo_ ->
  exists m, sort_mapping (fo_m3 fo_) = Ok m /\
    forall j x o name kws xw, nth_error l j = Some (x, o) -> cn_text x = DialectDefs.render [name] kws ->
      clean name = true -> name <> [] ->
      Forall (fun kv => clean_entry kv = true) kws -> NoDup (keys kws) ->
      (forall k, In k (keys kws) -> ~ In k outside_names) ->
      w_value fo kws = Some xw ->
      forall p xs y, nth_error (c_parts C) p = Some (F, xs) -> nth_error xs j = Some y ->
        node_get (fo_mol fo_) (map_get m (phi C y)) (S "charge") = Some (VFlt (S "0.0")) /\
        node_get (fo_mol fo_) (map_get m (phi C y)) (S "weight") = Some xw /\
        forall k v, In (k, v) kws -> k <> S "w" -> ~ In k coarse_written -> carried_key k ->
          node_get (fo_mol fo_) (map_get m (phi C y)) k = Some (VStr v).
Proof. exact coarse_chain_partial_returned. Qed.
Example C14_coarse_chain_nonvacuous :
  FragText.render (decorate (ctoks exch) exch_dc) = S "[$][#X;w=2;k=v]=[#Y][$]" /\
  FragText.wf (ctoks exch) exch_dc = true /\ excluded (ctoks exch) exch_dc = false /\ lins_ok exc_fo (clins exch) = true /\
  cn_text (S "X", Some (S "w=2;k=v")) = DialectDefs.render [S "X"] [(S "w", S "2"); (S "k", S "v")] /\
  match read_coarse_fragment exc_fo (S "F") (FragText.render (decorate (ctoks exch) exch_dc)) with
  | Ok T => (node_get T 0 (S "charge"), node_get T 0 (S "weight"), node_get T 0 (S "k"))
            = (Some (VFlt (S "0.0")), Some (VFlt (S "2.0")), Some (VStr (S "v")))
  | Err _ => False
  end.
Proof. exact coarse_chain_example. Qed.

(** non-vacuity *)
Example C14_base_annotation_nonvacuous :
  let fo := fo_of_table [(S "1", Some (S "1.0")); (S "2", Some (S "2.0"))] in
  let a := [Item (S "A;q=1") [] None None [Branch [Item (S "B;w=2") [] (Some [2%nat]) None []] None None]; Item (S "C") [] None None []] in
  Grammar.wf fo a = true /\ has_branch_mult a = false /\ class_C04 true a = 0%nat /\
  node_texts (toks (expand_branches a)) = [S "A;q=1"; S "B;w=2"; S "B;w=2"; S "C"] /\
  exists g, read_cgsmiles fo (print true a) = Ok g.
Proof. exact base_annotation_example. Qed.

Print Assumptions C14_base_annotation_stays.
Print Assumptions C14_base_annotation_on_coarse_graph.
Print Assumptions C14_base_annotation_units.
Print Assumptions C14_strip_annotation_reaches_attributes.
Print Assumptions C14_template_carries_annotation.
Print Assumptions C14_template_annotation.
Print Assumptions C14_bonding_keeps_annotation.
Print Assumptions C14_sort_keeps_annotation.
Print Assumptions C14_fragment_annotation_on_every_copy.
Print Assumptions C14_hydrogens_do_not_overwrite.
Print Assumptions C14_annotation_reaches_returned_graph.
Print Assumptions C14_annotation_reaches_returned_graph_full.
Print Assumptions C14_disconnected_copy_exact.
Print Assumptions C14_annotation_reaches_returned_coarse_graph.
Print Assumptions C14_returned_coarse_nonvacuous.
Print Assumptions C14_coarse_text_annotation_on_template.
Print Assumptions C14_coarse_template_exact.
Print Assumptions C14_coarse_text_annotation_reaches_returned_graph.
Print Assumptions C14_coarse_text_nonvacuous.
Print Assumptions C14_base_annotation_flat_nobrace.
Print Assumptions C14_coarse_chain_template_node.
Print Assumptions C14_partial_on_template.
Print Assumptions C14_partial_on_returned_coarse_graph.
Print Assumptions C14_coarse_chain_nonvacuous.
Print Assumptions C14_text_annotation_reaches_returned_graph.
Print Assumptions C14_text_annotation_not_gained.
Print Assumptions C14_template_exact.
Print Assumptions C14_frag_template_node_annotation.
Print Assumptions C14_transcript_contract_leaves_alone.
Print Assumptions C14_annotation_reaches_returned_graph_any_transcript.

(** ------------------------------------------------------------------------------------------
    The transcript hypothesis of C14_text_annotation_reaches_returned_graph DISCHARGED (Dialect/TextParsed.v, imports only):
    for an atomistic token list (wf_smiles: the fragment texts C13_render_parse / C13_index_agrees_with_parser cover) the
    graph pysmiles builds from the clean text is the strip component's parser model [smiles_parse] on the clean text
    strip_bonding_descriptors RETURNED, as a networkx graph [nx_of G] (keys 0..n-1 in order, attributes = the parsed atom
    dicts, adjacency = the parsed bonds).  Distinct keys and "atom i is node i" are now proved: the clean text is
    render_smiles of the tokens, the parser on it is the token graph, which has one node per atom token.  No hypothesis
    about pysmiles' graph is left; smiles_parse itself is tied to pysmiles per run by C13. *)
From CGV Require Import Dialect.TextParsed Frag.TemplateGraph.
Theorem C14_parsed_text_graph_is_transcript : forall G,
  NoDup (node_keys (nx_of G)) /\ node_keys (nx_of G) = map Z.of_nat (seq 0 (length (g_nodes G))) /\
  forall i base, nth_error (g_nodes G) i = Some base -> exists n, gfind (Z.of_nat i) (nx_of G) = Some n /\ na n = base.
Proof. intros G. split; [apply nx_of_nodup|]. split; [apply nx_of_keys|]. apply nx_of_gfind_node. Qed.
Theorem C14_atom_token_is_parsed_node : forall toks dc pre body annot post G ks,
  wf_smiles toks = true -> graph_of ks toks = Ok G ->
  decorate toks dc = pre ++ ITok (TBracket body annot) :: post -> (atoms_of pre < length (g_nodes G))%nat.
Proof. exact atom_token_index. Qed.
Theorem C14_parse_of_returned_clean_text : forall fo toks dc clean d e a,
  FragText.wf toks dc = true -> excluded toks dc = false -> wf_smiles toks = true ->
  strip_bonding_descriptors fo (FragText.render (decorate toks dc)) = Ok (clean, d, e, a) ->
  smiles_parse clean = graph_of false toks.
Proof. exact parse_of_clean. Qed.
Theorem C14_parsed_text_annotation_reaches_returned_graph : forall fo name toks dc,
  FragText.wf toks dc = true -> excluded toks dc = false -> wf_smiles toks = true ->
  forall clean desc ez ann, strip_bonding_descriptors fo (FragText.render (decorate toks dc)) = Ok (clean, desc, ez, ann) ->
  forall G, smiles_parse clean = Ok G ->
  forall bonding ezl T, read_fragment_post (nx_of G) name bonding ezl (ann_list ann) = Ok T ->
  forall C, wf_cut C -> forall fd, templates_ok C fd -> wf_dict fd -> fd_get name fd = Some T ->
  forall B, is_base C B ->
  (forall x, In x (flat C) ->
     (exists e, aget (S "element") (payload C x) = Some e) /\ (exists q, aget (S "charge") (payload C x) = Some q) /\
     (exists h, aget (S "hcount") (payload C x) = Some (VInt h)) /\ Hydrogens.is_H (payload C x) = false) ->
  forall prev g1 fo_, meta_of prev = B -> resolve_step_full true true fd prev (Some g1) = Ok fo_ -> dicts (fo_m3 fo_) ->
  exists m, sort_mapping (fo_m4 fo_) = Ok m /\ SortGraphProofs.inj_on (map_get m) (node_keys (fo_m4 fo_)) /\
    forall pre body annot post a key v,
      decorate toks dc = pre ++ ITok (TBracket body annot) :: post ->
      fragment_node_parser fo (annot_text annot) = Ok a -> In (key, v) a ->
      ~ In key written_keys -> returned_key key -> key <> S "aromatic" ->
      forall p xs x, nth_error (c_parts C) p = Some (name, xs) -> nth_error xs (atoms_of pre) = Some x ->
        node_get (fo_mol fo_) (map_get m (phi C x)) key = Some v.
Proof. exact parsed_annotation_reaches_returned_graph. Qed.
(** ... and no other heavy atom gains the key: atom j's own token does not set it and the parser's dict of atom j has none
    (for ANY parsed graph G the template was built from: this half does not need the index agreement) *)
Theorem C14_parsed_text_annotation_not_gained : forall fo name toks dc,
  FragText.wf toks dc = true -> excluded toks dc = false ->
  forall clean desc ez ann, strip_bonding_descriptors fo (FragText.render (decorate toks dc)) = Ok (clean, desc, ez, ann) ->
  forall G bonding ezl T, read_fragment_post (nx_of G) name bonding ezl (ann_list ann) = Ok T ->
  forall C, wf_cut C -> forall fd, templates_ok C fd -> wf_dict fd -> fd_get name fd = Some T ->
  forall B, is_base C B ->
  (forall x, In x (flat C) ->
     (exists e, aget (S "element") (payload C x) = Some e) /\ (exists q, aget (S "charge") (payload C x) = Some q) /\
     (exists h, aget (S "hcount") (payload C x) = Some (VInt h)) /\ Hydrogens.is_H (payload C x) = false) ->
  forall prev g1 fo_, meta_of prev = B -> resolve_step_full true true fd prev (Some g1) = Ok fo_ -> dicts (fo_m3 fo_) ->
  exists m, sort_mapping (fo_m4 fo_) = Ok m /\
    forall j key n base,
      gfind (Z.of_nat j) T = Some n ->
      nth_error (g_nodes G) j = Some base -> aget key base = None ->
      (forall a, nd_get j ann = Some a -> aget key a = None /\ aget (S "element") a = None) ->
      (nd_get j ann <> None \/ aget (S "element") base <> Some (VStr (S "H"))) ->
      ~ In key written_keys -> ~ In key default_keys -> returned_key key -> key <> S "aromatic" ->
      forall p xs y, nth_error (c_parts C) p = Some (name, xs) -> nth_error xs j = Some y ->
        node_get (fo_mol fo_) (map_get m (phi C y)) key = None.
Proof. exact parsed_annotation_not_gained. Qed.
(** non-vacuity: {[#A][#A]}.{#A=C[C;0.5;x=R;k=v][$]} - every hypothesis holds for the fragment TEXT (strip returns, the parser
    model returns, read_fragment_post on its graph returns the template, the cut / dict / base hypotheses hold for it, the step
    returns) and both copies of atom 1 (returned keys 1 and 8) carry weight 0.5, chiral R, k = v; the copies of atom 0 do not *)
Example C14_parsed_text_nonvacuous :
  FragText.wf tp_toks tp_dc = true /\ excluded tp_toks tp_dc = false /\ wf_smiles tp_toks = true /\
  to_string (FragText.render (decorate tp_toks tp_dc)) = "C[C;0.5;x=R;k=v][$]"%string /\
  strip_bonding_descriptors tp_fo (FragText.render (decorate tp_toks tp_dc)) = Ok (S "C[C]", [(1%nat, [S "$1"])], [], tp_ann) /\
  (exists G, smiles_parse (S "C[C]") = Ok G /\ read_fragment_post (nx_of G) (S "A") [(1, VList [VStr (S "$1")])] [] (ann_list tp_ann) = Ok tp_T) /\
  wf_cut tpC /\ templates_ok tpC tp_fd /\ is_base tpC (base_of tpC) /\ wf_dict tp_fd /\ fd_get (S "A") tp_fd = Some tp_T /\
  (forall x, In x (flat tpC) ->
     (exists e, aget (S "element") (payload tpC x) = Some e) /\ (exists q, aget (S "charge") (payload tpC x) = Some q) /\
     (exists h, aget (S "hcount") (payload tpC x) = Some (VInt h)) /\ Hydrogens.is_H (payload tpC x) = false) /\
  meta_of (base_of tpC) = base_of tpC /\
  match tp_m3 with
  | Some m3 =>
      dictsb m3 = true /\
      match resolve_step_full true true tp_fd (base_of tpC) (Some m3) with
      | Ok fo => fo_m3 fo = m3 /\
          map (fun k => (node_get (fo_mol fo) k (S "weight"), node_get (fo_mol fo) k (S "chiral"), node_get (fo_mol fo) k (S "k"))) [0; 1; 7; 8]
          = [(Some (VInt 1), None, None); (Some (VFlt (S "0.5")), Some (VStr (S "R")), Some (VStr (S "v")));
             (Some (VInt 1), None, None); (Some (VFlt (S "0.5")), Some (VStr (S "R")), Some (VStr (S "v")))]
      | Err _ => False
      end
  | None => False
  end.
Proof. exact parsed_annotation_example. Qed.
Print Assumptions C14_parsed_text_graph_is_transcript.
Print Assumptions C14_atom_token_is_parsed_node.
Print Assumptions C14_parse_of_returned_clean_text.
Print Assumptions C14_parsed_text_annotation_reaches_returned_graph.
Print Assumptions C14_parsed_text_annotation_not_gained.
Print Assumptions C14_parsed_text_nonvacuous.

(** ------------------------------------------------------------------------------------------
    Cuts WITH `!` bonds (shared atoms; steps in which squash_atoms removes atoms): Dialect/SquashedAnnot.v over the resolver
    component's step_squashed_returned (C02_step_squashed_returned; it rests on Hydro's QuotientAttrs.squash_keeps_attrs =
    C10_squash_keeps_attrs) - imports only, no Compose cut model: ANY dictionary of well-formed templates, ANY coarse graph
    whose base edges join different nodes, coarse and all-atom steps, any aromaticity transcript the contract accepts.
    Every template atom n of every coarse node mn has ONE image in the returned graph, sg (rho (cf0 n)), which lists mn under
    fragid; when the copy survives squashing (rho fixes it: always in a step without `!` bonds, and for the first member of
    every `!` class) every template attribute the step does not write itself is on the image. *)
From CGV Require Import Dialect.SquashedAnnot Resolve.SquashedReturned Resolve.EdgeCopyGen Resolve.FragidProofs Resolve.BondingDefs.
From CGV Require Hydro.NumTotal Compose.RebuildWf Hydro.QuotientDefs.
Theorem C14_annotation_reaches_squashed_returned : forall legacy aa fd prev car fo,
  tmpl_dict fd -> wf_attrs fd -> NumTotal.hnum_dict fd -> resolve_step_full legacy aa fd prev car = Ok fo ->
  (forall es, base_edges (fo_meta fo) = Ok es -> wf_edges es) ->
  (aa = true -> forall g1, car = Some g1 -> RebuildWf.all_no_rs g1) ->
  exists sg : Z -> Z,
    (forall x y, In x (node_keys (fo_m3 fo)) -> In y (node_keys (fo_m3 fo)) -> sg x = sg y -> x = y) /\
    forall pre mn post fv name frag, fo_meta fo = (pre ++ mn :: post)%list ->
    aget (S "fragname") (na mn) = Some fv -> lookup_fragment fd fv = Some (name, frag) ->
    exists cf0 : Z -> Z,
      (forall a b, In a (node_keys frag) -> In b (node_keys frag) -> cf0 a = cf0 b -> a = b) /\
      forall n, In n frag ->
        In (cf0 (nk n)) (node_keys (fo_m2 fo)) /\ In (QuotientDefs.rho (fo_m2 fo) (cf0 (nk n))) (node_keys (fo_m3 fo)) /\
        (exists l, node_get (fo_mol fo) (sg (QuotientDefs.rho (fo_m2 fo) (cf0 (nk n)))) (S "fragid") = Some (VList l) /\ In (VInt (nk mn)) l) /\
        (QuotientDefs.rho (fo_m2 fo) (cf0 (nk n)) = cf0 (nk n) -> forall key v, ~ In key written_keys_sq -> aget key (na n) = Some v ->
           node_get (fo_mol fo) (sg (cf0 (nk n))) key = Some v).
Proof. exact annotation_reaches_squashed_returned. Qed.
(** ... from the TEXT of an all-atom fragment definition (strip -> parser model -> read_fragment_post -> the step): the value
    written on the i-th atom token is on the image of the copy of atom i for every coarse node named `name`, when that copy
    survives; keys written by read_fragment_smiles (TemplateAnnot.written_keys) or by the step (written_keys_sq) excluded *)
Theorem C14_parsed_text_annotation_reaches_squashed_returned : forall fo name toks dc,
  FragText.wf toks dc = true -> excluded toks dc = false -> wf_smiles toks = true ->
  forall clean desc ez ann, strip_bonding_descriptors fo (FragText.render (decorate toks dc)) = Ok (clean, desc, ez, ann) ->
  forall G, smiles_parse clean = Ok G ->
  forall bonding ezl T, read_fragment_post (nx_of G) name bonding ezl (ann_list ann) = Ok T ->
  forall legacy aa fd prev car fo_, tmpl_dict fd -> wf_attrs fd -> NumTotal.hnum_dict fd -> fd_get name fd = Some T ->
  resolve_step_full legacy aa fd prev car = Ok fo_ ->
  (forall es, base_edges (fo_meta fo_) = Ok es -> wf_edges es) ->
  (aa = true -> forall g1, car = Some g1 -> RebuildWf.all_no_rs g1) ->
  exists sg : Z -> Z,
    (forall x y, In x (node_keys (fo_m3 fo_)) -> In y (node_keys (fo_m3 fo_)) -> sg x = sg y -> x = y) /\
    forall pre mn post, fo_meta fo_ = (pre ++ mn :: post)%list -> aget (S "fragname") (na mn) = Some (VStr name) ->
    exists cf0 : Z -> Z,
      (forall a b, In a (node_keys T) -> In b (node_keys T) -> cf0 a = cf0 b -> a = b) /\
      forall pre' body annot post' a key v,
        decorate toks dc = pre' ++ ITok (TBracket body annot) :: post' ->
        fragment_node_parser fo (annot_text annot) = Ok a -> In (key, v) a ->
        ~ In key TemplateAnnot.written_keys -> ~ In key written_keys_sq ->
        let i := Z.of_nat (atoms_of pre') in
        In (cf0 i) (node_keys (fo_m2 fo_)) /\
        (exists l, node_get (fo_mol fo_) (sg (QuotientDefs.rho (fo_m2 fo_) (cf0 i))) (S "fragid") = Some (VList l) /\ In (VInt (nk mn)) l) /\
        (QuotientDefs.rho (fo_m2 fo_) (cf0 i) = cf0 i -> node_get (fo_mol fo_) (sg (cf0 i)) key = Some v).
Proof. exact parsed_annotation_reaches_squashed_returned. Qed.
(** non-vacuity: {[#A][#A]}.{#A=C[C;0.5;x=R;k=v][!]} - the annotated atom is shared by the two residues: four heavy atoms in the
    bonded graph, atom 3 merged into atom 1, the returned atom 4 lists both coarse nodes and carries the annotation *)
Example C14_squashed_annotation_nonvacuous :
  FragText.wf tp_toks sq_dc = true /\ excluded tp_toks sq_dc = false /\ wf_smiles tp_toks = true /\
  to_string (FragText.render (decorate tp_toks sq_dc)) = "C[C;0.5;x=R;k=v][!]"%string /\
  strip_bonding_descriptors tp_fo (FragText.render (decorate tp_toks sq_dc)) = Ok (S "C[C]", [(1%nat, [S "!1"])], [], tp_ann) /\
  (exists G, smiles_parse (S "C[C]") = Ok G /\ read_fragment_post (nx_of G) (S "A") [(1, VList [VStr (S "!1")])] [] (ann_list tp_ann) = Ok sq_T) /\
  tmpl_dict sq_fd /\ wf_attrs sq_fd /\ NumTotal.hnum_dict sq_fd /\ fd_get (S "A") sq_fd = Some sq_T /\
  match sq_m3 with
  | Some m3 =>
      RebuildWf.all_no_rs m3 /\
      match resolve_step_full true true sq_fd sq_base (Some m3) with
      | Ok fo =>
          (forall es, base_edges (fo_meta fo) = Ok es -> wf_edges es) /\
          node_keys (fo_m2 fo) = [0; 1; 2; 3] /\ node_keys (fo_m3 fo) = [0; 1; 2] /\
          map (QuotientDefs.rho (fo_m2 fo)) [0; 1; 2; 3] = [0; 1; 2; 1] /\
          (node_get (fo_mol fo) 4 (S "fragid"), node_get (fo_mol fo) 4 (S "weight"), node_get (fo_mol fo) 4 (S "chiral"), node_get (fo_mol fo) 4 (S "k"))
          = (Some (VList [VInt 0; VInt 1]), Some (VFlt (S "0.5")), Some (VStr (S "R")), Some (VStr (S "v")))
      | Err _ => False
      end
  | None => False
  end.
Proof. exact squashed_annotation_example. Qed.
Print Assumptions C14_annotation_reaches_squashed_returned.
Print Assumptions C14_parsed_text_annotation_reaches_squashed_returned.
Print Assumptions C14_squashed_annotation_nonvacuous.

(** ------------------------------------------------------------------------------------------
    SECOND DEFECT CLASS (coarse_fragment_multiplier): an annotated coarse node WITH A MULTIPLIER inside a fragment definition
    gives its annotation to the first of its n copies only, while the same token in the base graph annotates all n.
    Refuted on the graph-level model of read_fragment_cgsmiles (Write/FragRead over Frag/StripImpl and Reader/ReaderImpl,
    imports only; bounded: one witness, vm_compute); the executable clause of the check (DialectCheck.mult_fail) classifies
    that observation as the class.  The partial theorems above do not reach into the class: C14_partial_coarse_fragment is
    per node text, C14_partial_on_template / _on_returned_coarse_graph are for chains without multipliers, and strip_correct
    excludes multipliers (C13's class coarse_multiplier: same root, strip_bonding_descriptors does not understand `|n`). *)
From CGV Require Import Dialect.CoarseMultiplier.
Theorem C14_coarse_fragment_multiplier_refuted :
  DialectCheck.annot_ok doc_coarse cm_annot (S "X;w=2;k=v") = true /\ DialectCheck.coarse_fragment_dialect_class cm_annot = false /\
  DialectCheck.coarse_fragment_multiplier_class 3 = true /\
  (exists e, expected exc_fo doc_coarse (a_assign cm_annot) (a_free cm_annot) = Some e /\
             aget (S "weight") e = Some (VFlt (S "2.0")) /\ aget (S "k") e = Some (VStr (S "v"))) /\
  (match Reader.ReaderImpl.read_cgsmiles exc_fo (S "{[#X;w=2;k=v]|3}") with
   | Ok g => map (fun k => (node_get g k (S "weight"), node_get g k (S "k"))) (node_keys g)
             = [(Some (VFlt (S "2.0")), Some (VStr (S "v"))); (Some (VFlt (S "2.0")), Some (VStr (S "v")));
                (Some (VFlt (S "2.0")), Some (VStr (S "v")))]
   | Err _ => False end) /\
  (match read_coarse_fragment exc_fo (S "A") (S "[$][#X;w=2;k=v]|3[#Y][$]") with
   | Ok T => map (fun k => (node_get T k (S "atomname"), node_get T k (S "weight"), node_get T k (S "k"))) (node_keys T)
             = [(Some (VStr (S "X")), Some (VFlt (S "2.0")), Some (VStr (S "v")));
                (Some (VStr (S "X")), Some (VFlt (S "1.0")), None); (Some (VStr (S "X")), Some (VFlt (S "1.0")), None);
                (Some (VStr (S "Y")), Some (VFlt (S "1.0")), None)]
   | Err _ => False end) /\
  DialectCheck.mult_fail [(S "2", Some (S "2.0"))] [({| a_assign := [(S "fragname", S "A")]; a_free := []; a_ents := [EPos (S "A")] |}, S "A", [])]
            (S "A") cm_annot (S "X;w=2;k=v") 3
            [[ [(S "weight", VFlt (S "2.0")); (S "charge", VFlt (S "0.0")); (S "k", VStr (S "v"))];
               [(S "weight", VFlt (S "1.0")); (S "charge", VFlt (S "0.0"))]; [(S "weight", VFlt (S "1.0")); (S "charge", VFlt (S "0.0"))] ]] = 111%nat.
Proof. exact coarse_multiplier_refuted. Qed.
Print Assumptions C14_coarse_fragment_multiplier_refuted.

(** the REMOVED copy of a `!` class (bounded, one witness): {[#A][#B]}.{#A=C[C;k=v][!],#B=[!][C;k=w;0.5]C} - the two definitions
    annotate the shared atom differently; the merged atom (returned key 4) lists both coarse nodes and keeps the SURVIVOR's
    values, B's k = w and weight 0.5 are not transferred (the implementation does the same).  Which value a shared atom
    should carry is not fixed by the property text: outside the statement, recorded as fact *)
Example C14_squashed_removed_copy_small :
  (fd <- rc_fd ;;
   '(m1, fg1) <- resolve_disconnected fd rc_base ;; '(m2, _) <- bonding_step true true rc_base m1 fg1 ;; m3 <- Squash.squash_atoms m2 ;;
   fo <- resolve_step_full true true fd rc_base (Some m3) ;;
   Ok (map (fun n => (nk n, aget (S "fragid") (na n), aget (S "k") (na n), aget (S "weight") (na n)))
           (filter (fun n => match aget (S "element") (na n) with Some (VStr e) => negb (str_eqb e (S "H")) | _ => true end) (fo_mol fo))))
  = Ok [(0, Some (VList [VInt 0]), None, Some (VInt 1));
        (4, Some (VList [VInt 0; VInt 1]), Some (VStr (S "v")), Some (VFlt (S "1.0")));
        (7, Some (VList [VInt 1]), None, Some (VInt 1))].
Proof. exact squashed_removed_copy_small. Qed.
Print Assumptions C14_squashed_removed_copy_small.
