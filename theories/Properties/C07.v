(** Property C07 — writing a graph and reading it back.  (statements are added below as they are proved) *)
From Coq Require Import String.
From Coq Require Import List Ascii ZArith Bool.
From CGV Require Import Base.PyBase Base.PyVal Base.NxGraph Write.WriteImpl Write.WriteDefs Write.WriteCheck.
Import ListNotations.
Open Scope Z_scope.

Example C07_model_runs :
  write_cgsmiles_graph [{| nk := 0; na := [(S "fragname", VStr (S "A"))]; nadj := [(1, [(S "order", VInt 2)])] |};
                        {| nk := 1; na := [(S "fragname", VStr (S "B"))]; nadj := [(0, [(S "order", VInt 2)])] |}] []
  = Ok (S "{[#A]=[#B]}").
Proof. vm_compute. reflexivity. Qed.
Print Assumptions C07_model_runs.
