(** Property C07 — writing a graph and reading it back is the identity.
    Only statements, each closed by [exact]; proofs live in Write/WriteProofs.v (writer model alone,
    unbounded) and Write/WriteRound.v (writer model composed with the reader model Reader/ReaderImpl.v;
    bounded / former witnesses).  All three defect classes found for C07 were repaired in /repo and are excluded
    nowhere: branch_edge_order (be4ff6e), ring_edge_order (dd9a0c2), pct_marker_then_digit (b681517).  No class
    of C07 is open.  What is proved:
      - THE FULL STATEMENT, unbounded: [C07_full] (at the end of this file)
            forall g tr, wf_C07 g = true -> ring_contract g (dfs_tree g) tr = true -> roundtrip_code g tr = 0
        on the writer model composed with the reader component's model; [C07_roundtrip_wf] is the same with the
        isomorphism stated semantically ([graph_iso]);
      - unbounded: [C07_roundtrip] (wave 4, below) for every plain connected graph, rings included, no pattern
        excluded; the complete round trip for path graphs of any length ([C07_path_roundtrip]); the writer
        half for path graphs ([C07_write_path]) and for every chain-shaped
        DFS transcript ([C07_write_chain_transcript]); the DFS on a path graph ([C07_dfs_path]);
      - bounded: [C07_small], the complete round trip in the check's own form
            forall g tr, wf_C07 g = true -> ring_contract ... -> roundtrip_code g tr = 0
        for every graph of a stated finite family and every iteration order of the ring-edge set (vm_compute);
      - fixed: the former witnesses of the three repaired classes round-trip.
    Wave 2 (below): the complete round trip for ALL TREES ([C07_tree_roundtrip]), the writer on ALL graphs
    ([C07_write_graph_is_print]), DFS spanning on ALL connected graphs ([C07_dfs_spanning]), the ring-marker
    allocator and its contract ([C07_get_ring_marker_spec], [C07_marks_invariant], [C07_no_open_ring]).
    Wave 4: [C07_roundtrip] -- the complete round trip for ALL plain connected graphs WITH ring edges, unbounded;
    [C07_small] remains as an independent computational cross-check (it no longer carries the ring case).
    Hypotheses that stay: the ring transcript's contract (the set order is a recorded transcript), and
    for the older statements "plain" (string names, integer orders on every adjacency entry, no bonding attribute)
    and the names' hypotheses; [C07_roundtrip_wf] has none of them: it is stated on wf_C07. *)
From Coq Require Import String.
From Coq Require Import List Ascii ZArith Bool.
From CGV Require Import Base.PyBase Base.PyVal Base.NxGraph Write.WriteImpl Write.WriteDefs Write.WriteCheck
     Write.WriteProofs Write.WriteRound Write.WriteDfsSmall Write.PathRound.
From CGV Require Import Dialect.DialectImpl Reader.ReaderImpl Reader.Grammar.
From CGV Require Import Write.TreeDefs Write.TreeWrite Write.TreeTables Write.DfsProofs Write.WfFacts Write.ConnFacts Write.TreeRead
     Write.TreeRound Write.RingDefs Write.RingWrite Write.RingTables Write.RingMarkers Write.RingClose Write.RingRead Write.RingRound.
From CGV Require Import Reader.Lin.
From CGV Require Import Write.GraphOps Write.FlatMachine Write.FullMachine Write.FullRound Write.ContractBridge Write.FullDomain Write.GraphStruct Write.FullCode.
Import ListNotations.
Open Scope Z_scope.

(** the serialisation loop on any DFS transcript that is a chain without ring edges, any length, any node
    and edge formatter *)
Theorem C07_write_chain_transcript : forall sf fmt sym rsym k0 rest n,
  NoDup (k0 :: rest) -> (length (k0 :: rest) <= n)%nat ->
  let env := mk_env sf fmt sym rsym (chain_edges (k0 :: rest)) [] in
  run_writer n env k0
  = (t <- chain_text env None (k0 :: rest) ;; Ok {| r_text := t; r_visit := k0 :: rest; r_mtrace := [] |}).
Proof. exact write_chain_transcript. Qed.

(** networkx' dfs_successors (the Gallina DFS in adjacency order) on a path graph: the chain *)
Theorem C07_dfs_path : forall k0 a0 rest, NoDup (k0 :: rest_keys rest) ->
  dfs_edges (path_graph k0 a0 rest) k0 = Ok (chain_edges (k0 :: rest_keys rest))
  /\ dfs_visited (path_graph k0 a0 rest) k0 = Ok (k0 :: rest_keys rest).
Proof. exact dfs_path. Qed.

(** an unbranched path with arbitrary names and orders 0..4, of ANY length, whose smallest key is its first
    node, is written "[#n0]s1[#n1]...sm[#nm]" and its nodes are numbered along the path *)
Theorem C07_write_path : forall k0 nm0 (l : list (Z * Z * pystr)),
  NoDup (k0 :: rest_keys (mk_rest l)) -> (forall x, In x (rest_keys (mk_rest l)) -> k0 <= x) ->
  Forall (fun x => 0 <= fst (fst x) <= 4) l ->
  write_graph_full false (fun _ => true) (path_graph k0 (name_attrs nm0) (mk_rest l)) []
  = Ok {| r_text := path_text [] nm0 l; r_visit := k0 :: rest_keys (mk_rest l); r_mtrace := [] |}.
Proof. exact write_path. Qed.
Example C07_write_path_nonvacuous :
  write_cgsmiles_graph (path_graph 2 (name_attrs (S "A")) (mk_rest [(2, 5, S "B"); (1, 3, S "C"); (0, 9, S "D")])) []
  = Ok (S "{[#A]=[#B][#C].[#D]}").
Proof. exact write_path_example. Qed.

(** UNBOUNDED round trip for paths: what the writer model writes for a path graph of ANY length is read by
    the reader model (through the reader component's simulation theorem reader_sim_lin and an induction over its
    token machine) as the same path numbered 0..n along the path, with the attributes the node parser gives
    for each name and the same orders.  Hypotheses on the names: accepted by the grammar ([name_ok]) and parsed
    to [A name] (plain names: fragname, charge 0.0, weight 1.0 -- see PathRound.path_roundtrip_example). *)
Theorem C07_path_roundtrip : forall fo A k0 nm0 (l : list (Z * Z * pystr)),
  NoDup (k0 :: rest_keys (mk_rest l)) -> (forall x, In x (rest_keys (mk_rest l)) -> k0 <= x) ->
  Forall (fun x => 0 <= fst (fst x) <= 4) l ->
  Forall (fun n => name_ok fo n = true) (path_names nm0 l) ->
  Forall (fun n => parse_graph_base_node fo n = Ok (A n)) (path_names nm0 l) ->
  exists s, write_cgsmiles_graph (path_graph k0 (name_attrs nm0) (mk_rest l)) [] = Ok s
            /\ read_cgsmiles fo s = Ok (nx_build A nm0 l).
Proof. exact path_roundtrip. Qed.

(** the two classes REPAIRED in /repo (fix commits be4ff6e, dd9a0c2): their former witnesses round-trip *)
Theorem C07_fixed_branch_edge_order :
  wf_C07 w_branch = true /\ roundtrip_code w_branch [] = 0%nat /\ write_cgsmiles_graph w_branch [] = Ok (S "{[#A]=([#C])[#B]}").
Proof. exact WriteRound.C07_fixed_branch_edge_order. Qed.
Theorem C07_fixed_ring_edge_order :
  wf_C07 w_ring = true /\ roundtrip_code w_ring [(0, 2)] = 0%nat /\ write_cgsmiles_graph w_ring [(0, 2)] = Ok (S "{[#A]=1[#B][#C]1}").
Proof. exact WriteRound.C07_fixed_ring_edge_order. Qed.

(** REPAIRED (fix b681517): once a `%nn` marker was written on a node every further marker of that node is written
    `%0n`; the former witness of class pct_marker_then_digit (7 nodes, 16 edges; `[#A]%1027` was read as the one
    marker 1027) round-trips: in the domain, contract holds, class 0, round-trip code 0 *)
Theorem C07_fixed_pct_marker :
  refutes w_pct w_pct_tr 0 0 /\
  write_cgsmiles_graph w_pct w_pct_tr = Ok (S "{[#A]123[#A]4567[#A]89[#A]%10%02%07[#A]196([#A]538)[#A]%10%04}").
Proof. exact WriteRound.C07_fixed_pct_marker. Qed.

(** BOUNDED: the complete round trip (writer model, then reader model, isomorphism under the numbering
    "order of writing") for every graph of [small_all] in the domain (all labelled graphs on <= 3 nodes with
    orders 0..4 and three insertion orders, on 4 nodes with orders 0..2 and two insertion orders, on 5 nodes
    with single bonds) and EVERY iteration order of the ring-edge set; no class excluded *)
Theorem C07_small : forall g, In g small_all -> wf_C07 g = true ->
  forall tr, In tr (perms (nontree_edges g (dfs_tree g))) -> roundtrip_code g tr = 0%nat.
Proof. exact WriteRound.C07_small. Qed.
Example C07_small_nonvacuous :
  Z.of_nat (length (filter wf_C07 small_all)) = 9007
  /\ Z.of_nat (length (filter (fun g => wf_C07 g && (cls_branch_order g || cls_ring_order g)) small_all)) = 6600.
Proof. exact WriteRound.C07_small_nonvacuous. Qed.

(** BOUNDED: on every connected graph of the family the DFS (model of networkx dfs_successors) from the
    smallest key visits every node exactly once, tree edges are graph edges, one predecessor per non-root node *)
Theorem C07_dfs_spanning_small : forall g, In g small_all -> wf_C07 g = true -> dfs_spans g = true.
Proof. exact dfs_spanning_small. Qed.


(** ================================================================ wave 2: trees, DFS, rings (all unbounded) *)

(** UNBOUNDED round trip for TREES: every plain graph (string names, integer orders 0..4 on every adjacency entry,
    no bonding attribute) without non-tree edges -- any branching, any depth -- is written by
    write_cgsmiles_graph and read back by the reader model (via the reader component's reader_sim_lin) as [gtree]
    of its own DFS tree T: the same tree, numbered in the order of writing, with the attributes the node parser
    gives for the same names and the same orders.  No class excluded. *)
Theorem C07_tree_roundtrip : forall fo A g start,
  plain_graph g = true -> min_node g = Ok start ->
  nontree_edges g (dfs_tree g) = [] ->
  (forall k, In k (node_keys g) -> name_ok fo (name_of g k) = true) ->
  (forall k, parse_graph_base_node fo (name_of g k) = Ok (A k)) ->
  exists s T, write_cgsmiles_graph g [] = Ok s
              /\ rkey T = start /\ dfs_edges g start = Ok (redges T) /\ NoDup (rkeys T)
              /\ (forall x, reachable g start x -> In x (rkeys T))
              /\ read_cgsmiles fo s = Ok (gtree (esym_of g) A gempty 0 None 1 T).
Proof. exact tree_graph_roundtrip. Qed.
Example C07_tree_roundtrip_nonvacuous :
  let fo : float_oracle := fun _ => None in
  plain_graph ex_tree = true /\ min_node ex_tree = Ok 2 /\ nontree_edges ex_tree (dfs_tree ex_tree) = []
  /\ forallb (fun k => name_ok fo (name_of ex_tree k)) (node_keys ex_tree) = true
  /\ write_cgsmiles_graph ex_tree [] = Ok (S "{[#C]([#D]$([#PEO])#[#E]).([#B])=[#A]}")
  /\ WriteRound.roundtrip_code ex_tree [] = 0%nat.
Proof. exact tree_roundtrip_example. Qed.

(** the writer on ANY graph: write_graph is the recursive printer [wtextR] of the graph's own DFS tree, with the
    ring-marker table threaded through the traversal in the order of writing (both modes, any ring transcript) *)
Theorem C07_write_graph_is_print : forall sf dh g tr start,
  graph_wf g = true -> min_node g = Ok start ->
  (forall k, In k (node_keys g) -> exists s, node_text sf dh g k = Ok s) ->
  (forall p k, In k (neighbors g p) -> exists s, edge_text g p k = Ok s) ->
  (forall bond, In bond tr -> exists s, edge_text g (fst bond) (snd bond) = Ok s) ->
  exists T, rkey T = start /\ dfs_edges g start = Ok (redges T) /\ NoDup (rkeys T) /\
    let ntext := fun k => match node_text sf dh g k with Ok s => s | Err _ => [] end in
    let stext := fun p k => match edge_text g p k with Ok s => s | Err _ => [] end in
    write_graph_full sf dh g tr
    = Ok (let '(tx, mk', trc) := wtextR sf ntext stext (rlist_of tr) (rsymt_of (edge_text g) tr) None false 0 [] T in
          {| r_text := tx; r_visit := worder T; r_mtrace := trc |}).
Proof. exact write_graph_is_print. Qed.

(** the model of networkx dfs_successors on EVERY well-formed connected graph: it returns (the depth fuel
    suffices), visits every node exactly once, uses only graph edges, one predecessor per non-start node *)
Theorem C07_dfs_spanning : forall g start, graph_wf g = true -> connected g = true -> min_node g = Ok start ->
  exists T, rkey T = start /\ dfs_edges g start = Ok (redges T) /\ dfs_visited g start = Ok (rkeys T)
            /\ NoDup (rkeys T)
            /\ (forall x, In x (rkeys T) <-> In x (node_keys g))
            /\ length (rkeys T) = length (node_keys g)
            /\ (forall e, In e (redges T) -> In (snd e) (neighbors g (fst e)))
            /\ map snd (redges T) = tl (rkeys T)
            /\ (forall x, In x (node_keys g) -> x <> start -> exists! p, In (p, x) (redges T)).
Proof. exact dfs_spanning_wf. Qed.

(** ring markers: _get_ring_marker returns the lowest positive integer not in use *)
Theorem C07_get_ring_marker_spec : forall used,
  let r := get_ring_marker used in
  (1 <= r)%nat /\ ~ In r used /\ (forall j, (1 <= j < r)%nat -> In j used).
Proof. exact get_ring_marker_spec. Qed.
(** the allocator contract (open rings have pairwise different indices and pairwise different positive markers)
    is an invariant of the whole loop of write_graph *)
Theorem C07_marks_invariant : forall env fuel st st',
  marks_ok (w_marks st) -> wloop fuel env st = Ok st' -> marks_ok (w_marks st').
Proof. exact wloop_marks_ok. Qed.
(** every ring edge whose two ends are written is met exactly twice in the order of writing (opened at the end
    written first, closed at the other), and no marker is left open at the end *)
Theorem C07_ring_met_twice : forall tr ws ri a b, NoDup ws -> (forall e, In e tr -> In (fst e) ws /\ In (snd e) ws) ->
  In (ri, (a, b)) (combine (seq 1 (length tr)) tr) -> occ ri (flat_map (rlist_of tr) ws) = 2%nat.
Proof. exact ring_seq_twice. Qed.
Theorem C07_no_open_ring : forall sf ntext stext rsymt tr T p isb d,
  NoDup (worder T) -> (forall e, In e tr -> In (fst e) (worder T) /\ In (snd e) (worder T)) ->
  snd (fst (wtextR sf ntext stext (rlist_of tr) rsymt p isb d [] T)) = [].
Proof. exact no_open_ring. Qed.

(** rings, reader half: for every plain graph with ring edges the reader model reads the written text as the token
    machine's denotation of the writer's own item list (DFS tree + ring items in the order of writing).  No pattern
    is excluded (the `%nn`-then-digit pattern is not written any more, [RingRead.tlinsR_rings_plain]).  That this
    denotation is isomorphic to the input is [C07_roundtrip] below. *)
Theorem C07_rings_reader_sim : forall fo g tr start,
  plain_graph g = true -> min_node g = Ok start ->
  (forall bond, In bond tr -> In (snd bond) (neighbors g (fst bond))) ->
  (forall k, In k (node_keys g) -> name_ok fo (name_of g k) = true) ->
  exists T, rkey T = start /\ dfs_edges g start = Ok (redges T) /\ NoDup (rkeys T) /\
    let items := fst (tlinsR (name_of g) (esym_of g) (rlist_of tr) (rsym_of g tr) false 0 None [] T) in
    exists s, write_cgsmiles_graph g tr = Ok s /\ read_cgsmiles fo s = denote_lin fo items.
Proof. exact graph_text_is_read. Qed.
(** the writer's items of a node never have a one-digit marker directly behind a % form *)
Theorem C07_no_pct_then_digit : forall name esym rlist rsym_o t isb d ns mk,
  rings_plain (fst (tlinsR name esym rlist rsym_o isb d ns mk t)) = true.
Proof. exact tlinsR_rings_plain. Qed.
Example C07_rings_nonvacuous :
  plain_graph ex_rings = true /\ ring_contract ex_rings (dfs_tree ex_rings) ex_rings_tr = true
  /\ write_cgsmiles_graph ex_rings ex_rings_tr = Ok (S "{[#A]#1[#B]$2=[#C]11[#D][#E]2.[#F]1}")
  /\ WriteRound.roundtrip_code ex_rings ex_rings_tr = 0%nat.
Proof. exact (conj ring_example_plain (conj ring_example_contract (conj ring_example_text ring_example_roundtrip))). Qed.

(** ================================================================ wave 4: ring edges, unbounded *)
(** C07 for EVERY plain, well-formed, connected graph, ring-closing edges included: under the contract on the ring
    transcript (tr = the non-tree edges, each once: the four hypotheses on tr; the set ORDER is arbitrary), with
    no pattern excluded, the reader model reads what the writer model writes as a graph
    ISOMORPHIC to the input ([graph_iso]: a bijection on the nodes carrying the parsed attributes of every name
    and the order of EVERY pair of nodes).  Composition: write_graph_is_print, the reader component's
    reader_sim_lin, machine_flat (token machine = flat fold), run_inv (writer/reader ring tables in step, the
    double-edge test never fires), iso_orders. *)
Theorem C07_roundtrip : forall fo A g tr start,
  plain_graph g = true -> connected g = true -> min_node g = Ok start ->
  (forall e, In e tr -> fst e <> snd e /\ In (snd e) (neighbors g (fst e))) ->
  nodup_edges tr = true ->
  (forall e te, In e tr -> In te (dfs_tree g) -> same_edge e te = false) ->
  (forall u v, has_edge g u v = true ->
     (exists te, In te (dfs_tree g) /\ same_edge (u, v) te = true) \/ (exists e, In e tr /\ same_edge (u, v) e = true)) ->
  (forall k, In k (node_keys g) -> name_ok fo (name_of g k) = true) ->
  (forall k, parse_graph_base_node fo (name_of g k) = Ok (A k)) ->
  exists s h, write_cgsmiles_graph g tr = Ok s /\ read_cgsmiles fo s = Ok h /\ graph_iso A g h.
Proof. exact FullRound.C07_roundtrip. Qed.

(** the same with the contract in the boolean form the check evaluates on every case ([ring_contract]) *)
Theorem C07_roundtrip_contract : forall fo A g tr start,
  plain_graph g = true -> connected g = true -> min_node g = Ok start ->
  ring_contract g (dfs_tree g) tr = true ->
  (forall k, In k (node_keys g) -> name_ok fo (name_of g k) = true) ->
  (forall k, parse_graph_base_node fo (name_of g k) = Ok (A k)) ->
  exists s h, write_cgsmiles_graph g tr = Ok s /\ read_cgsmiles fo s = Ok h /\ graph_iso A g h.
Proof. exact ContractBridge.C07_roundtrip_contract. Qed.

(** C07 on the check's OWN domain [wf_C07] (non-empty, well-formed, connected, every node a valid name -- letters,
    digits, '_' -- and no `bonding`, every edge an integer order 0..4; an `aromatic` attribute is allowed) with the
    boolean contract the check evaluates on every case, and NO further hypothesis: valid names are accepted by the
    reader's grammar and parsed without the float oracle ([valid_name_ok], [valid_name_parse]); the node read back for
    k carries what the node parser returns for k's name ([base_attrs]: fragname, charge 0.0, weight 1.0) *)
Theorem C07_roundtrip_wf : forall g tr, wf_C07 g = true -> ring_contract g (dfs_tree g) tr = true ->
  exists s h, write_cgsmiles_graph g tr = Ok s /\ read_cgsmiles no_float s = Ok h
              /\ graph_iso (fun k => base_attrs (name_of g k)) g h.
Proof. exact FullDomain.C07_roundtrip_wf. Qed.
Theorem C07_base_attrs : forall s, base_attrs s = [(S "fragname", VStr s); (S "charge", VFlt (S "0.0")); (S "weight", VFlt (S "1.0"))].
Proof. reflexivity. Qed.

(** THE FULL STATEMENT of C07 in the check's own terms: for EVERY graph of the domain [wf_C07] and every ring
    transcript honouring [ring_contract], the executable clause the check evaluates per case holds --
    [roundtrip_code g tr = 0]: the writer model returns, the reader model accepts its text, and the graph read back is
    isomorphic to the input under the numbering "order of writing" ([iso_by] on the observed node-name and
    edge-order lists: equal numbers of nodes and of edges, injective, names and orders preserved).  From
    [C07_roundtrip_explicit] (the reader's graph is the replay of a well-formed log of node/edge additions), the
    structure of such a replay ([replay_struct]: a well-formed graph whose node list is the log's) and a count of
    unordered pairs ([nodup_edges_le]).  No hypothesis besides the domain and the contract. *)
Theorem C07_full : forall g tr, wf_C07 g = true -> ring_contract g (dfs_tree g) tr = true -> roundtrip_code g tr = 0%nat.
Proof. exact FullCode.C07_full. Qed.
(** the graph a well-formed log of additions builds: well formed, nodes in the order of the log *)
Theorem C07_replay_struct : forall L G seen, GWo G -> (forall z, has_node G z = memz z seen) -> log_wf seen L ->
  GWo (replay L G) /\ node_keys (replay L G) = node_keys G ++ log_nodes L.
Proof. exact replay_struct. Qed.
(** G.edges lists no unordered pair twice, on every well-formed graph *)
Theorem C07_edges_list_nodup : forall G, graph_wf G = true -> nodup_edges (edges_list G) = true.
Proof. exact edges_list_nodup. Qed.

Print Assumptions C07_full.
Print Assumptions C07_replay_struct.
Print Assumptions C07_edges_list_nodup.
Print Assumptions C07_roundtrip_wf.
Print Assumptions C07_roundtrip_contract.
Print Assumptions C07_roundtrip.
Print Assumptions C07_tree_roundtrip.
Print Assumptions C07_rings_reader_sim.
Print Assumptions C07_no_pct_then_digit.
Print Assumptions C07_write_graph_is_print.
Print Assumptions C07_dfs_spanning.
Print Assumptions C07_get_ring_marker_spec.
Print Assumptions C07_marks_invariant.
Print Assumptions C07_ring_met_twice.
Print Assumptions C07_no_open_ring.
Print Assumptions C07_dfs_spanning_small.
Print Assumptions C07_write_chain_transcript.
Print Assumptions C07_dfs_path.
Print Assumptions C07_write_path.
Print Assumptions C07_path_roundtrip.
Print Assumptions C07_fixed_branch_edge_order.
Print Assumptions C07_fixed_ring_edge_order.
Print Assumptions C07_fixed_pct_marker.
Print Assumptions C07_small.
