(** Property C07 — writing a graph and reading it back is the identity.
    Only statements, each closed by [exact]; proofs live in Write/WriteProofs.v (writer model alone,
    unbounded) and Write/WriteRound.v (writer model composed with the reader model Reader/ReaderImpl.v;
    bounded / refutations).  The FULL statement
        forall g tr, wf_C07 g = true -> ring_contract g (dfs_tree g) tr = true -> roundtrip_code g tr = 0
    is NOT provable for the current code: [C07_refuted] below (one class is still open: a two-digit ring marker
    directly followed by a one-digit marker; the classes branch_edge_order and ring_edge_order were repaired in
    /repo by the fix commits be4ff6e and dd9a0c2 and are no longer excluded anywhere).  What is proved instead:
      - unbounded: the complete round trip for path graphs of any length ([C07_path_roundtrip]); the writer
        half for path graphs ([C07_write_path]) and for every chain-shaped
        DFS transcript ([C07_write_chain_transcript]); the DFS on a path graph ([C07_dfs_path]);
      - bounded: [C07_small], the complete round trip (no class excluded) for every graph of a
        stated finite family and every iteration order of the ring-edge set (vm_compute);
      - refuted: the witness of the open class; fixed: the former witnesses of the two repaired classes.
    Not proved: the round trip for arbitrary trees/rings (C07_partial over all graphs) and that the Gallina DFS
    spans every connected graph (checked per case by [ring_contract]/[wf_C07] at run time instead). *)
From Coq Require Import String.
From Coq Require Import List Ascii ZArith Bool.
From CGV Require Import Base.PyBase Base.PyVal Base.NxGraph Write.WriteImpl Write.WriteDefs Write.WriteCheck
     Write.WriteProofs Write.WriteRound Write.WriteDfsSmall Write.PathRound.
From CGV Require Import Dialect.DialectImpl Reader.ReaderImpl Reader.Grammar.
Import ListNotations.
Open Scope Z_scope.

(** the serialisation loop on any DFS transcript that is a chain without ring edges, any length, any node
    and edge formatter *)
Theorem C07_write_chain_transcript : forall sf fmt sym rsym k0 rest n,
  NoDup (k0 :: rest) -> (length (k0 :: rest) <= n)%nat ->
  let env := mk_env sf fmt sym rsym (chain_edges (k0 :: rest)) [] in
  run_writer n env k0
  = (t <- chain_text env None (k0 :: rest) ;; Ok {| r_text := t; r_visit := k0 :: rest; r_mtrace := [] |}).
Proof. exact write_chain_transcript. Qed.

(** networkx' dfs_successors (the Gallina DFS in adjacency order) on a path graph: the chain *)
Theorem C07_dfs_path : forall k0 a0 rest, NoDup (k0 :: rest_keys rest) ->
  dfs_edges (path_graph k0 a0 rest) k0 = Ok (chain_edges (k0 :: rest_keys rest))
  /\ dfs_visited (path_graph k0 a0 rest) k0 = Ok (k0 :: rest_keys rest).
Proof. exact dfs_path. Qed.

(** an unbranched path with arbitrary names and orders 0..4, of ANY length, whose smallest key is its first
    node, is written "[#n0]s1[#n1]...sm[#nm]" and its nodes are numbered along the path *)
Theorem C07_write_path : forall k0 nm0 (l : list (Z * Z * pystr)),
  NoDup (k0 :: rest_keys (mk_rest l)) -> (forall x, In x (rest_keys (mk_rest l)) -> k0 <= x) ->
  Forall (fun x => 0 <= fst (fst x) <= 4) l ->
  write_graph_full false (fun _ => true) (path_graph k0 (name_attrs nm0) (mk_rest l)) []
  = Ok {| r_text := path_text [] nm0 l; r_visit := k0 :: rest_keys (mk_rest l); r_mtrace := [] |}.
Proof. exact write_path. Qed.
Example C07_write_path_nonvacuous :
  write_cgsmiles_graph (path_graph 2 (name_attrs (S "A")) (mk_rest [(2, 5, S "B"); (1, 3, S "C"); (0, 9, S "D")])) []
  = Ok (S "{[#A]=[#B][#C].[#D]}").
Proof. exact write_path_example. Qed.

(** UNBOUNDED round trip for paths: what the writer model writes for a path graph of ANY length is read by
    the reader model (through the reader component's simulation theorem reader_sim_lin and an induction over its
    token machine) as the same path numbered 0..n along the path, with the attributes the node parser gives
    for each name and the same orders.  Hypotheses on the names: accepted by the grammar ([name_ok]) and parsed
    to [A name] (plain names: fragname, charge 0.0, weight 1.0 -- see PathRound.path_roundtrip_example). *)
Theorem C07_path_roundtrip : forall fo A k0 nm0 (l : list (Z * Z * pystr)),
  NoDup (k0 :: rest_keys (mk_rest l)) -> (forall x, In x (rest_keys (mk_rest l)) -> k0 <= x) ->
  Forall (fun x => 0 <= fst (fst x) <= 4) l ->
  Forall (fun n => name_ok fo n = true) (path_names nm0 l) ->
  Forall (fun n => parse_graph_base_node fo n = Ok (A n)) (path_names nm0 l) ->
  exists s, write_cgsmiles_graph (path_graph k0 (name_attrs nm0) (mk_rest l)) [] = Ok s
            /\ read_cgsmiles fo s = Ok (nx_build A nm0 l).
Proof. exact path_roundtrip. Qed.

(** the two classes REPAIRED in /repo (fix commits be4ff6e, dd9a0c2): their former witnesses round-trip *)
Theorem C07_fixed_branch_edge_order :
  wf_C07 w_branch = true /\ roundtrip_code w_branch [] = 0%nat /\ write_cgsmiles_graph w_branch [] = Ok (S "{[#A]=([#C])[#B]}").
Proof. exact WriteRound.C07_fixed_branch_edge_order. Qed.
Theorem C07_fixed_ring_edge_order :
  wf_C07 w_ring = true /\ roundtrip_code w_ring [(0, 2)] = 0%nat /\ write_cgsmiles_graph w_ring [(0, 2)] = Ok (S "{[#A]=1[#B][#C]1}").
Proof. exact WriteRound.C07_fixed_ring_edge_order. Qed.

(** the full statement is still refuted by the one class that stays open (pct_marker_then_digit) *)
Theorem C07_refuted : exists g tr, wf_C07 g = true /\ ring_contract g (dfs_tree g) tr = true /\ roundtrip_code g tr <> 0%nat.
Proof. exact WriteRound.C07_refuted. Qed.
Theorem C07_refuted_pct_marker :
  refutes w_pct w_pct_tr 3 2 /\
  write_cgsmiles_graph w_pct w_pct_tr = Ok (S "{[#A]123[#A]4567[#A]89[#A]%1027[#A]196([#A]538)[#A]%104}").
Proof. exact WriteRound.C07_refuted_pct_marker. Qed.

(** BOUNDED: the complete round trip (writer model, then reader model, isomorphism under the numbering
    "order of writing") for every graph of [small_all] in the domain (all labelled graphs on <= 3 nodes with
    orders 0..4 and three insertion orders, on 4 nodes with orders 0..2 and two insertion orders, on 5 nodes
    with single bonds) and EVERY iteration order of the ring-edge set; no class excluded *)
Theorem C07_small : forall g, In g small_all -> wf_C07 g = true ->
  forall tr, In tr (perms (nontree_edges g (dfs_tree g))) -> roundtrip_code g tr = 0%nat.
Proof. exact WriteRound.C07_small. Qed.
(** the PARTIAL form (outside the open class) -- proved only on the bounded family *)
Theorem C07_partial_small : forall g, In g small_all -> wf_C07 g = true ->
  forall tr, In tr (perms (nontree_edges g (dfs_tree g))) -> class_C07 g tr = 0%nat -> roundtrip_code g tr = 0%nat.
Proof. exact WriteRound.C07_partial_small. Qed.
Example C07_small_nonvacuous :
  Z.of_nat (length (filter wf_C07 small_all)) = 9007
  /\ Z.of_nat (length (filter (fun g => wf_C07 g && (cls_branch_order g || cls_ring_order g)) small_all)) = 6600.
Proof. exact WriteRound.C07_small_nonvacuous. Qed.

(** BOUNDED: on every connected graph of the family the DFS (model of networkx dfs_successors) from the
    smallest key visits every node exactly once, tree edges are graph edges, one predecessor per non-root node *)
Theorem C07_dfs_spanning_small : forall g, In g small_all -> wf_C07 g = true -> dfs_spans g = true.
Proof. exact dfs_spanning_small. Qed.

Print Assumptions C07_dfs_spanning_small.
Print Assumptions C07_write_chain_transcript.
Print Assumptions C07_dfs_path.
Print Assumptions C07_write_path.
Print Assumptions C07_path_roundtrip.
Print Assumptions C07_refuted.
Print Assumptions C07_fixed_branch_edge_order.
Print Assumptions C07_fixed_ring_edge_order.
Print Assumptions C07_partial_small.
Print Assumptions C07_refuted_pct_marker.
Print Assumptions C07_small.
