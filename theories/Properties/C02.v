(** Property C02 - the coarse-to-fine mapping is a faithful partition into fragment copies.
    Only statements closed by [exact]; proofs in Resolve/MapProofs.v. *)
From Coq Require Import String.
From Coq Require Import List Ascii ZArith Bool Lia.
From CGV Require Import Base.PyBase Base.PyVal Base.NxGraph Resolve.Bonding Resolve.GraphOps Resolve.Pipeline
     Resolve.MapDefs Resolve.Witness.
Import ListNotations.
Open Scope Z_scope.

(** the faithful model violates C02 when a virtual node precedes a real one (class virtual_not_last):
    witness {[#V].[#A][#B]}.{#A=[$][#X][#Y],#B=[$][#P]} *)
Theorem C02_refuted :
  virtual_not_last fd_AB base_VAB = true /\ exists n, c02_of base_VAB = Ok n /\ n <> 0%nat.
Proof. split; [reflexivity|]. eexists. split; [vm_compute; reflexivity|discriminate]. Qed.

(** non-vacuity: outside the class the clauses hold on the model's output *)
Example C02_holds_AB : virtual_not_last fd_AB base_ABV = false /\ c02_of base_ABV = Ok 0%nat /\ c02_of base_AB = Ok 0%nat.
Proof. repeat split; vm_compute; reflexivity. Qed.

Print Assumptions C02_refuted.
