(** Property C02 - the coarse-to-fine mapping is a faithful partition into fragment copies.
    Only statements closed by [exact]; proofs in Resolve/MapProofs.v. *)
From Coq Require Import String.
From Coq Require Import List Ascii ZArith Bool Lia.
From CGV Require Import Base.PyBase Base.PyVal Base.NxGraph Resolve.Bonding Resolve.GraphOps Resolve.Pipeline
     Resolve.MapDefs Resolve.Witness Resolve.MapProofs Resolve.CopyProofs Resolve.PipelineFull Resolve.FragidProofs Resolve.EdgeCopy Resolve.EdgeCopyGen Resolve.BondedCopy Resolve.BondingDefs Resolve.WfMerged Resolve.CoarseCopy Resolve.AllAtomCopy Resolve.SquashedCopy Resolve.SquashedReturned Resolve.CopyOnto.
From CGV Require Hydro.NumTotal Dialect.ReturnedCar Hydro.ShareCutTotal.
From CGV Require Hydro.QuotientDefs.
From CGV Require Compose.RebuildWf Hydro.Hydrogens.
From CGV Require Hydro.Squash Gen.HydroGen.
From CGV Require Hydro.SquashDefs Hydro.SquashProofs Compose.GraphAdj Compose.GraphFacts.
From CGV Require Import Compose.CutModel Compose.ComposeFlat Compose.CutSpecCheck Compose.LevelsExamples.
Import ListNotations.
Open Scope Z_scope.

(** the former witness of defect class virtual_not_last (a virtual node BEFORE real nodes,
    {[#V].[#A][#B]}.{#A=[$][#X][#Y],#B=[$][#P]}; repaired in /repo fa307dd: fragid := the coarse key):
    every clause of C02 holds on the model's output, wherever the virtual node stands *)
Example C02_holds_virtual_first : c02_of base_VAB = Ok 0%nat.
Proof. vm_compute. reflexivity. Qed.
Example C02_holds_AB : c02_of base_ABV = Ok 0%nat /\ c02_of base_AB = Ok 0%nat.
Proof. split; vm_compute; reflexivity. Qed.

(** ---- annotate_fragments: the coarse 'graph' attributes, for every coarse graph and fine graph *)
(** frag_exact: coarse node k carries exactly the fine nodes whose fragid lists k *)
Theorem C02_frag_exact : forall meta mol fgs, annotate_fragments meta mol = Ok fgs ->
  forall k g, In (k, g) fgs -> forall n, In n (node_keys g) <-> records mol n k.
Proof. exact frag_exact. Qed.
(** every coarse node gets a graph, in coarse order *)
Theorem C02_frag_keys : forall meta mol fgs, annotate_fragments meta mol = Ok fgs -> map fst fgs = node_keys meta.
Proof. exact frag_keys. Qed.
(** frag_cover: a fine node whose fragid names a coarse key is in that coarse node's graph *)
Theorem C02_frag_cover : forall meta mol fgs, annotate_fragments meta mol = Ok fgs ->
  forall n k, records mol n k -> In k (node_keys meta) -> exists g, In (k, g) fgs /\ In n (node_keys g).
Proof. exact frag_cover. Qed.

(** ---- merge_graphs: instantiated nodes *)
(** one membership per instantiated node: [template fragid + running offset] - a COUNTER, not the coarse
    key: this is why C02 needs "no virtual node precedes a real node" (C02_refuted) *)
Theorem C02_fragid_singleton : forall off1 fo a a', merge_node off1 fo a = Ok a' ->
  exists f, aget (S "fragid") a' = Some (VList [VInt (f + fo)]) /\
            match aget (S "fragid") a with Some v => as_int v = Ok f | None => f = 0 end.
Proof. exact merge_fragid_singleton. Qed.
(** frag_copy, attributes: everything but fragid / ez_isomer_atoms is the template's *)
Theorem C02_frag_copy_attrs : forall off1 fo a a' key, merge_node off1 fo a = Ok a' ->
  key <> S "fragid" -> key <> S "ez_isomer_atoms" -> aget key a' = aget key a.
Proof. exact frag_copy_attrs. Qed.
(** frag_copy, the explicit bijection: consecutive fresh keys, injective *)
Theorem C02_correspondence_fresh : forall off tgt t x, In (t, x) (correspondence off tgt) -> off < x <= off + Z.of_nat (length tgt).
Proof. exact correspondence_fresh. Qed.
Theorem C02_correspondence_injective : forall off tgt, NoDup (map snd (correspondence off tgt)).
Proof. exact correspondence_injective. Qed.
(** frag_copy on the graph: after merge_graphs every template atom has its copy at the fresh key
    [correspondence t] carrying merge_node's attributes; old nodes keep key and attributes; for every
    template with distinct node keys whose edges join its nodes *)
Theorem C02_frag_copy : forall src tgt g corr, merge_graphs src tgt = Ok (g, corr) -> wf_template tgt ->
  exists off fo, merge_offsets src = Ok (off, fo) /\ corr = correspondence off tgt /\
    forall n, In n tgt -> exists a', merge_node (off + 1) fo (na n) = Ok a' /\ node_attrs g (map_get corr (nk n)) = Ok a'.
Proof. exact frag_copy. Qed.
Theorem C02_merge_keeps_old : forall src tgt g corr, merge_graphs src tgt = Ok (g, corr) -> wf_template tgt ->
  node_keys g = (node_keys src ++ map snd corr)%list /\
  (forall k, In k (node_keys src) -> node_attrs g k = node_attrs src k).
Proof. exact merge_graphs_keys. Qed.
(** the instantiation step of the repaired resolve_disconnected_molecule: the copy of template atom t under
    coarse node mn records exactly [key of mn] and the mapping [(fragname, t)], everything else is the template's *)
Theorem C02_disc_step_copy : forall fd mol fgs mn fv name frag mol2 fgs2,
  aget (S "fragname") (na mn) = Some fv -> lookup_fragment fd fv = Some (name, frag) -> wf_template frag ->
  disc_step fd (mol, fgs) mn = Ok (mol2, fgs2) ->
  exists off fo, merge_offsets mol = Ok (off, fo) /\
    forall n, In n frag -> exists a', merge_node (off + 1) fo (na n) = Ok a' /\
      node_attrs mol2 (map_get (correspondence off frag) (nk n)) = Ok (stamped (nk mn) name (nk n) a').
Proof. exact disc_step_copy. Qed.
Theorem C02_stamped_fragid : forall ck name t a, aget (S "fragid") (stamped ck name t a) = Some (VList [VInt ck]).
Proof. exact stamped_fragid. Qed.
Theorem C02_stamped_mapping : forall ck name t a, aget (S "mapping") (stamped ck name t a) = Some (mapping_val name t).
Proof. exact stamped_mapping. Qed.
Theorem C02_stamped_other : forall ck name t a key, key <> S "fragid" -> key <> S "mapping" -> aget key (stamped ck name t a) = aget key a.
Proof. exact stamped_other. Qed.
(** every fine node of the disconnected molecule records exactly one key, the key of a coarse node WITH a
    fragment - for virtual nodes at any position and arbitrary (distinct or not) coarse keys *)
Theorem C02_fragid_is_coarse_key : forall fd meta mol fgs, wf_dict fd -> resolve_disconnected fd meta = Ok (mol, fgs) ->
  fine_inv (flat_map (real_of fd) meta) mol.
Proof. exact resolve_disconnected_inv. Qed.
(** frag_exact / frag_cover for the RETURNED coarse graphs of a whole (end-to-end) step: a node of coarse node k's
    graph is a fine node recording k, and k is the key of a coarse node with a fragment *)
Theorem C02_step_frag_exact : forall legacy aa fd prev car fo k g, wf_dict fd -> wf_attrs fd ->
  resolve_step_full legacy aa fd prev car = Ok fo -> In (k, g) (fo_fgs fo) ->
  forall n, In n (node_keys g) -> records (fo_m6 fo) n k /\ In k (flat_map (real_of fd) (fo_meta fo)).
Proof. exact step_frag_exact. Qed.
(** exactness and one graph per coarse node, for the returned graphs *)
Theorem C02_step_frag_exact_iff : forall legacy aa fd prev car fo k g, wf_dict fd -> wf_attrs fd ->
  resolve_step_full legacy aa fd prev car = Ok fo -> In (k, g) (fo_fgs fo) ->
  exists g0 fgs0, annotate_fragments (fo_meta fo) (fo_m6 fo) = Ok fgs0 /\ In (k, g0) fgs0 /\ node_keys g = node_keys g0 /\
    forall n, In n (node_keys g0) <-> records (fo_m6 fo) n k.
Proof. exact step_frag_exact_iff. Qed.
Theorem C02_step_frag_keys : forall legacy aa fd prev car fo, wf_dict fd -> wf_attrs fd ->
  resolve_step_full legacy aa fd prev car = Ok fo -> map fst (fo_fgs fo) = node_keys (fo_meta fo).
Proof. exact step_frag_keys. Qed.
(** every fragid value of the returned fine graph is a list of keys of coarse nodes with a fragment *)
Theorem C02_step_fragid_real : forall legacy aa fd prev car fo, wf_dict fd -> wf_attrs fd ->
  resolve_step_full legacy aa fd prev car = Ok fo -> fid_inv (flat_map (real_of fd) (fo_meta fo)) (fo_mol fo).
Proof. exact step_fid_inv. Qed.

(** "same internal bonds and bond orders" for the graphs a COARSE step RETURNS, in the domain of well-formed cuts of a molecule
    (Compose/CutModel: every coarse node has a fragment, descriptor labels unique, legacy convention) - a corollary of the
    Compose component's skeleton theorem: the step returns, and every template edge has its copy between the copies of its two
    atoms with the template's order; both atoms record the coarse key of their part *)
Theorem C02_step_edges_copy : forall E fd prev car, wf_cut E -> templates_ok E fd -> is_base E (next_meta prev) ->
  exists fo, resolve_step_full true false fd prev car = Ok fo /\ fo_meta fo = next_meta prev /\
    forall p name xs T, nth_error (c_parts E) p = Some (name, xs) -> fd_get name fd = Some T ->
    forall i j d, In (i, j, d) (edges_data T) ->
      exists x y, nth_error xs (Z.to_nat i) = Some x /\ nth_error xs (Z.to_nat j) = Some y /\
        has_edge (fo_mol fo) (phi E x) (phi E y) = true /\
        edge_get (fo_mol fo) (phi E x) (phi E y) (S "order") = aget (S "order") d /\
        node_get (fo_mol fo) (phi E x) (S "fragid") = Some (VList [VInt (Z.of_nat p)]) /\
        node_get (fo_mol fo) (phi E y) (S "fragid") = Some (VList [VInt (Z.of_nat p)]).
Proof. exact step_edges_copy. Qed.
(** non-vacuity: Compose's two-part example cut satisfies the hypotheses *)
Example C02_step_edges_copy_nonvacuous :
  wf_cut exC'' /\ templates_ok exC'' (fragdict_of exC'') /\ is_base exC'' (next_meta (base_of exC'')).
Proof.
  destruct exC''_hypotheses as (A & B & C). split; [now apply wf_cutb_sound|]. split; [now apply templates_okb_sound|now apply is_baseb_sound].
Qed.

(** "same internal bonds and bond orders" for ARBITRARY dictionaries and coarse graphs, at the instantiation stage
    (Resolve/EdgeCopyGen.v).  [wf_tmpl T]: hydro's wf_graph (distinct keys, symmetric closed adjacency, no loop), no duplicate
    adjacency entry, both directions of an edge carry the same dict; [tmpl_edge T a b] = the template's edge dict between a and
    b as networkx copies it, or KeyError where the template has no edge *)
Theorem C02_merge_edges_copy : forall src tgt g corr, merge_graphs src tgt = Ok (g, corr) -> wf_tmpl tgt ->
  (forall a b, In a (node_keys tgt) -> In b (node_keys tgt) -> edge_attrs g (map_get corr a) (map_get corr b) = tmpl_edge tgt a b) /\
  (forall x y, In x (node_keys src) -> edge_attrs g x y = edge_attrs src x y).
Proof. exact merge_edges_copy. Qed.
Theorem C02_disc_step_edges : forall fd mol fgs mn fv name frag mol2 fgs2,
  aget (S "fragname") (na mn) = Some fv -> lookup_fragment fd fv = Some (name, frag) -> wf_tmpl frag ->
  disc_step fd (mol, fgs) mn = Ok (mol2, fgs2) ->
  exists off fo, merge_offsets mol = Ok (off, fo) /\
    (forall a b, In a (node_keys frag) -> In b (node_keys frag) ->
       edge_attrs mol2 (map_get (correspondence off frag) a) (map_get (correspondence off frag) b) = tmpl_edge frag a b) /\
    (forall x y, In x (node_keys mol) -> edge_attrs mol2 x y = edge_attrs mol x y).
Proof. exact disc_step_edges. Qed.
(** the whole loop: for every coarse node with a fragment, at any position, there is an injective map cf from template atoms to
    fine nodes: the copy of atom t records exactly [coarse key] and [(fragname, t)], and between the copies of a and b there is
    exactly the template's edge between a and b with its attribute dict - later instantiations leave it alone *)
Theorem C02_disconnected_edges_copy : forall fd meta mol fgs, tmpl_dict fd -> resolve_disconnected fd meta = Ok (mol, fgs) ->
  forall pre mn post fv name frag, meta = (pre ++ mn :: post)%list ->
  aget (S "fragname") (na mn) = Some fv -> lookup_fragment fd fv = Some (name, frag) ->
  exists cf : Z -> Z,
    (forall a b, In a (node_keys frag) -> In b (node_keys frag) -> cf a = cf b -> a = b) /\
    (forall n, In n frag -> node_get mol (cf (nk n)) (S "fragid") = Some (VList [VInt (nk mn)]) /\
                            node_get mol (cf (nk n)) (S "mapping") = Some (mapping_val name (nk n)) /\
                            forall key, key <> S "fragid" -> key <> S "mapping" -> key <> S "ez_isomer_atoms" ->
                                        node_get mol (cf (nk n)) key = aget key (na n)) /\
    (forall a b, In a (node_keys frag) -> In b (node_keys frag) -> edge_attrs mol (cf a) (cf b) = tmpl_edge frag a b).
Proof. exact disconnected_edges_copy. Qed.
(** the bonding stage touches only the pairs it bonds: every other edge (in particular a template edge whose two atoms are not
    bonded to each other again) comes out of edges_from_bonding_descrpt with the attribute dict it went in with *)
Theorem C02_bonding_keeps_edges : forall legacy aa meta mol fgs mol' fgs', bonding_step legacy aa meta mol fgs = Ok (mol', fgs') ->
  exists s1 bonds, bonds_of legacy meta mol fgs = Ok (s1, bonds) /\
    forall x y, (forall b, In b bonds -> GraphFacts.upair x y (b_u b) (b_v b) = false) -> edge_attrs mol' x y = edge_attrs mol x y.
Proof. exact bonding_keeps_edges. Qed.
(** ... and survives it (Resolve/BondedCopy.v).  A bond joins an atom of the fragment graph of its source coarse node with an atom
    of the fragment graph of its target coarse node (from C03's balance invariant), and those atoms record the key of their coarse
    node ([fg_inv]) *)
Theorem C02_bond_atoms_in_tables : forall legacy arom edges s0 s' bonds, wf_edges edges -> wf_state s0 ->
  edges_from_bonding legacy arom edges s0 [] = Ok (s', bonds) ->
  forall b, In b bonds -> b_src b <> b_tgt b /\ In (b_u b) (map fst (slookup (b_src b) s0)) /\ In (b_v b) (map fst (slookup (b_tgt b) s0)).
Proof. exact bond_in_tables. Qed.
Theorem C02_fragment_graphs_record_key : forall fd meta mol fgs, tmpl_dict fd -> resolve_disconnected fd meta = Ok (mol, fgs) -> fg_inv mol fgs.
Proof. exact disconnected_fg_inv. Qed.
(** hence, for an arbitrary dictionary of well-formed templates and an arbitrary coarse graph whose base edges join different coarse
    nodes: after the bonding stage - in the graph [fo_m2] of every end-to-end step, whatever the flags - every coarse node with a
    fragment still has its copy: an injective map cf from template atoms to fine nodes recording exactly [coarse key] and
    [(fragname, atom)], with exactly the template's edge dicts between them and no edge where the template has none *)
Theorem C02_bonded_edges_copy : forall fd meta m1 fg1 legacy aa m2 fg2, tmpl_dict fd -> resolve_disconnected fd meta = Ok (m1, fg1) ->
  bonding_step legacy aa meta m1 fg1 = Ok (m2, fg2) -> (forall es, base_edges meta = Ok es -> wf_edges es) ->
  forall pre mn post fv name frag, meta = (pre ++ mn :: post)%list ->
  aget (S "fragname") (na mn) = Some fv -> lookup_fragment fd fv = Some (name, frag) ->
  exists cf : Z -> Z,
    (forall a b, In a (node_keys frag) -> In b (node_keys frag) -> cf a = cf b -> a = b) /\
    (forall n, In n frag -> node_get m2 (cf (nk n)) (S "fragid") = Some (VList [VInt (nk mn)]) /\
                            node_get m2 (cf (nk n)) (S "mapping") = Some (mapping_val name (nk n)) /\
                            forall key, key <> S "fragid" -> key <> S "mapping" -> key <> S "ez_isomer_atoms" -> key <> S "hcount" ->
                                        node_get m2 (cf (nk n)) key = aget key (na n)) /\
    (forall a b, In a (node_keys frag) -> In b (node_keys frag) -> edge_attrs m2 (cf a) (cf b) = tmpl_edge frag a b).
Proof. exact bonded_edges_copy. Qed.
Theorem C02_step_bonded_edges_copy : forall legacy aa fd prev car fo, tmpl_dict fd -> resolve_step_full legacy aa fd prev car = Ok fo ->
  (forall es, base_edges (fo_meta fo) = Ok es -> wf_edges es) ->
  forall pre mn post fv name frag, fo_meta fo = (pre ++ mn :: post)%list ->
  aget (S "fragname") (na mn) = Some fv -> lookup_fragment fd fv = Some (name, frag) ->
  exists cf : Z -> Z,
    (forall a b, In a (node_keys frag) -> In b (node_keys frag) -> cf a = cf b -> a = b) /\
    (forall n, In n frag -> node_get (fo_m2 fo) (cf (nk n)) (S "fragid") = Some (VList [VInt (nk mn)]) /\
                            node_get (fo_m2 fo) (cf (nk n)) (S "mapping") = Some (mapping_val name (nk n)) /\
                            forall key, key <> S "fragid" -> key <> S "mapping" -> key <> S "ez_isomer_atoms" -> key <> S "hcount" ->
                                        node_get (fo_m2 fo) (cf (nk n)) key = aget key (na n)) /\
    (forall a b, In a (node_keys frag) -> In b (node_keys frag) -> edge_attrs (fo_m2 fo) (cf a) (cf b) = tmpl_edge frag a b).
Proof. exact step_bonded_edges_copy. Qed.
(** non-vacuity (with C02_disconnected_edges_copy_nonvacuous: tmpl_dict fd_AB): the base edges of {[#V].[#A][#B]} join different
    coarse nodes and the step returns *)
Example C02_step_bonded_edges_copy_nonvacuous :
  match base_edges base_VAB with Ok es => forallb (fun e => negb (Z.eqb (fst (fst e)) (snd (fst e)))) es | Err _ => false end = true /\
  match resolve_step_full true false fd_AB base_VAB None with Ok fo => Nat.eqb (length (fo_m2 fo)) 3 | Err _ => false end = true.
Proof. split; vm_compute; reflexivity. Qed.
(** ---- down to the RETURNED graph of a coarse step (Resolve/WfMerged.v, Resolve/CoarseCopy.v) *)
(** the disconnected molecule is a well-formed networkx graph (hydro's wf_graph: distinct keys, closed symmetric adjacency, no
    self-loop) with one attribute dict per edge - for ANY dictionary and coarse graph; so is the bonded graph when the base edges
    join different coarse nodes (then no bond joins an atom with itself) *)
Theorem C02_disconnected_graph_wf : forall fd meta mol fgs, resolve_disconnected fd meta = Ok (mol, fgs) -> gok mol.
Proof. exact gok_disconnected. Qed.
Theorem C02_bonded_graph_wf : forall fd meta m1 fg1 legacy aa m2 fg2, tmpl_dict fd -> resolve_disconnected fd meta = Ok (m1, fg1) ->
  bonding_step legacy aa meta m1 fg1 = Ok (m2, fg2) -> (forall es, base_edges meta = Ok es -> wf_edges es) -> gok m2.
Proof. exact bonded_gok. Qed.
(** nothing is squashed when no bonding pair starts with '!' *)
Theorem C02_squash_identity : forall g,
  (forall e, In e (Squash.edge_attr_items g HydroGen.squash_edge_attr) -> Squash.starts_squash (snd e) = Ok false) -> Squash.squash_atoms g = Ok g.
Proof. exact squash_identity. Qed.
(** "same atoms, same internal bonds and bond orders" in the graph a COARSE step RETURNS, arbitrary dictionary of well-formed
    templates, arbitrary coarse graph whose base edges join different coarse nodes, no atoms squashed (fo_m3 = fo_m2): every coarse
    node with a fragment has its copy in the returned, sorted fine graph - an injective map cf from template atoms to returned
    atoms recording exactly [coarse key] and [(fragname, atom)], with an edge exactly where the template has one, carrying the
    template's edge attributes ([tmpl_get frag a b key] = the template's value of `key` on the edge a-b) *)
Theorem C02_step_coarse_copy : forall legacy fd prev car fo, tmpl_dict fd -> resolve_step_full legacy false fd prev car = Ok fo ->
  fo_m3 fo = fo_m2 fo -> (forall es, base_edges (fo_meta fo) = Ok es -> wf_edges es) ->
  forall pre mn post fv name frag, fo_meta fo = (pre ++ mn :: post)%list ->
  aget (S "fragname") (na mn) = Some fv -> lookup_fragment fd fv = Some (name, frag) ->
  exists cf : Z -> Z,
    (forall a b, In a (node_keys frag) -> In b (node_keys frag) -> cf a = cf b -> a = b) /\
    (forall n, In n frag -> node_get (fo_mol fo) (cf (nk n)) (S "fragid") = Some (VList [VInt (nk mn)]) /\
                            node_get (fo_mol fo) (cf (nk n)) (S "mapping") = Some (mapping_val name (nk n)) /\
                            forall key, key <> S "fragid" -> key <> S "mapping" -> key <> S "ez_isomer_atoms" -> key <> S "hcount" ->
                                        node_get (fo_mol fo) (cf (nk n)) key = aget key (na n)) /\
    (forall a b, In a (node_keys frag) -> In b (node_keys frag) ->
       has_edge (fo_mol fo) (cf a) (cf b) = has_edge frag a b /\
       forall key, edge_get (fo_mol fo) (cf a) (cf b) key = tmpl_get frag a b key).
Proof. exact step_coarse_copy. Qed.
(** non-vacuity: on {[#V].[#A][#B]} with the witness dictionary nothing is squashed and the step returns (the other hypotheses:
    C02_disconnected_edges_copy_nonvacuous, C02_step_bonded_edges_copy_nonvacuous) *)
Example C02_step_coarse_copy_nonvacuous :
  match resolve_step_full true false fd_AB base_VAB None with Ok fo => graph_eqb (fo_m3 fo) (fo_m2 fo) | Err _ => false end = true.
Proof. vm_compute. reflexivity. Qed.
(** ---- steps that DO squash atoms (Resolve/SquashedCopy.v).  The graph handed to squash_atoms is well formed (above), so hydro's
    quotient theorem applies to EVERY step without a hypothesis on intermediate graphs: the squashed graph fo_m3 is the quotient of
    the bonded graph fo_m2 by the `!` classes ([rho] = class representative, [qedge] = adjacency of the quotient) *)
Theorem C02_step_squash_quotient : forall legacy aa fd prev car fo, tmpl_dict fd -> resolve_step_full legacy aa fd prev car = Ok fo ->
  (forall es, base_edges (fo_meta fo) = Ok es -> wf_edges es) ->
  SquashDefs.wf_graph (fo_m2 fo) /\ SquashDefs.wf_graph (fo_m3 fo) /\
  node_keys (fo_m3 fo) = filter (fun k => Z.eqb (QuotientDefs.rho (fo_m2 fo) k) k) (node_keys (fo_m2 fo)) /\
  (forall y x, has_edge (fo_m3 fo) y x = QuotientDefs.qedge (QuotientDefs.rho (fo_m2 fo)) (QuotientDefs.dir_edges (fo_m2 fo)) y x) /\
  (forall k, In k (node_keys (fo_m2 fo)) -> In (QuotientDefs.rho (fo_m2 fo) k) (node_keys (fo_m3 fo))).
Proof. exact step_squash_quotient. Qed.
(** hence the two atoms of a template bond are, after squashing, merged into one atom or adjacent *)
Theorem C02_step_squashed_bonds : forall legacy aa fd prev car fo, tmpl_dict fd -> resolve_step_full legacy aa fd prev car = Ok fo ->
  (forall es, base_edges (fo_meta fo) = Ok es -> wf_edges es) ->
  forall pre mn post fv name frag, fo_meta fo = (pre ++ mn :: post)%list ->
  aget (S "fragname") (na mn) = Some fv -> lookup_fragment fd fv = Some (name, frag) ->
  exists cf : Z -> Z,
    (forall n, In n frag -> node_get (fo_m2 fo) (cf (nk n)) (S "fragid") = Some (VList [VInt (nk mn)])) /\
    (forall a, In a (node_keys frag) -> In (QuotientDefs.rho (fo_m2 fo) (cf a)) (node_keys (fo_m3 fo))) /\
    (forall a b, In a (node_keys frag) -> In b (node_keys frag) -> has_edge frag a b = true ->
       QuotientDefs.rho (fo_m2 fo) (cf a) = QuotientDefs.rho (fo_m2 fo) (cf b) \/
       has_edge (fo_m3 fo) (QuotientDefs.rho (fo_m2 fo) (cf a)) (QuotientDefs.rho (fo_m2 fo) (cf b)) = true).
Proof. exact step_squashed_bonds. Qed.
(** ---- the RETURNED graphs of steps that DO squash atoms (Resolve/SquashedReturned.v): coarse and all-atom steps, arbitrary
    dictionary of well-formed templates with dict-like attribute lists and numeric hydrogen counts (NumTotal.hnum_dict), arbitrary
    coarse graph whose base edges join different coarse nodes, ANY aromaticity transcript the contract accepts (without
    'rs_isomer').  There is an embedding sg of the squashed graph fo_m3 into the returned graph (injective, adjacency preserved:
    the tail of the step - transcript, hydrogen completion, sort, E/Z, names - only renumbers and adds hydrogens), and for every
    coarse node with a fragment a map cf0 of its template atoms into the bonded graph such that, with r = the class representative
    of the `!` classes: EVERY template atom n has ONE image sg (r (cf0 n)) in the returned graph; the image's fragid list contains
    the coarse key and its mapping list the pair (fragname, n); every entry of the image's fragid list is the (single) coarse key
    of a member of the same class - a merged atom lists every coarse key of its class and nothing else, in MERGE ORDER (the lists are
    hydro's [merged_lists]: the survivor's own entry, then the entries of the atoms merged into it); a template atom whose copy
    is the survivor of its class keeps every attribute the step does not write ([written_keys_sq] = 'contraction' + written_keys);
    images of bonded template atoms are equal or adjacent, and two images are adjacent only if members of their classes were
    bonded in the bonded graph; when the coarse keys are distinct, every atom x of the squashed graph (= every returned atom sg x
    that hydrogen completion did not add) whose fragid lists the coarse key is the image of a template atom of that coarse node:
    the returned coarse-node graphs are exactly the classes plus the completed hydrogens. *)
Theorem C02_tail_embeds_squashed : forall aa car meta m3 m4 m5 m6 f6 m7 f7,
  SquashDefs.wf_graph m3 -> ReturnedCar.dicts m3 -> (forall n, In n m3 -> aget (S "fragid") (na n) <> None) ->
  (aa = true -> forall g1, car = Some g1 -> RebuildWf.all_no_rs g1) ->
  (if aa then Hydrogens.rebuild_h_atoms_default m3 car else Ok m3) = Ok m4 ->
  sort_nodes_by_attr m4 = Ok m5 ->
  (if aa then Stereo.EzImpl.annotate_ez_isomers_cgsmiles m5 else Ok m5) = Ok m6 ->
  (if aa then set_atom_names m6 meta f6 else Ok (m6, f6)) = Ok (m7, f7) ->
  exists sg : Z -> Z,
    (forall x y, In x (node_keys m3) -> In y (node_keys m3) -> sg x = sg y -> x = y) /\
    (forall x key v, In x (node_keys m3) -> ~ In key tail_keys -> node_get m3 x key = Some v -> node_get m7 (sg x) key = Some v) /\
    (forall x y, In x (node_keys m3) -> In y (node_keys m3) -> has_edge m7 (sg x) (sg y) = has_edge m3 x y).
Proof. exact tail_embed. Qed.
Theorem C02_squash_keeps_dicts : forall g g', ReturnedCar.dicts g -> Squash.squash_atoms g = Ok g' -> ReturnedCar.dicts g'.
Proof. exact dicts_squash. Qed.
(** an entry in the membership list of a class survivor stems from a member of its class (converse of hydro's merged_lists_incl) *)
Theorem C02_merged_lists_from : forall plan, NoDup (map snd plan) -> forall (F : Z -> list pyval) y v, ~ In y (map snd plan) ->
  In v (QuotientDefs.merged_lists F plan y) -> exists k, In v (F k) /\ SquashDefs.sq_pass (QuotientDefs.plan_sq plan) k = y.
Proof. exact merged_lists_from. Qed.
Theorem C02_step_squashed_returned : forall legacy aa fd prev car fo, tmpl_dict fd -> wf_attrs fd -> NumTotal.hnum_dict fd ->
  resolve_step_full legacy aa fd prev car = Ok fo ->
  (forall es, base_edges (fo_meta fo) = Ok es -> wf_edges es) ->
  (aa = true -> forall g1, car = Some g1 -> RebuildWf.all_no_rs g1) ->
  exists sg : Z -> Z,
    (forall x y, In x (node_keys (fo_m3 fo)) -> In y (node_keys (fo_m3 fo)) -> sg x = sg y -> x = y) /\
    (forall x y, In x (node_keys (fo_m3 fo)) -> In y (node_keys (fo_m3 fo)) -> has_edge (fo_mol fo) (sg x) (sg y) = has_edge (fo_m3 fo) x y) /\
    forall pre mn post fv name frag, fo_meta fo = (pre ++ mn :: post)%list ->
    aget (S "fragname") (na mn) = Some fv -> lookup_fragment fd fv = Some (name, frag) ->
    exists cf0 : Z -> Z,
      (forall a b, In a (node_keys frag) -> In b (node_keys frag) -> cf0 a = cf0 b -> a = b) /\
      (forall n, In n frag ->
         In (cf0 (nk n)) (node_keys (fo_m2 fo)) /\ In (QuotientDefs.rho (fo_m2 fo) (cf0 (nk n))) (node_keys (fo_m3 fo)) /\
         exists l lm,
           node_get (fo_mol fo) (sg (QuotientDefs.rho (fo_m2 fo) (cf0 (nk n)))) (S "fragid") = Some (VList l) /\ In (VInt (nk mn)) l /\
           node_get (fo_mol fo) (sg (QuotientDefs.rho (fo_m2 fo) (cf0 (nk n)))) (S "mapping") = Some (VList lm) /\ In (mapping_entry name (nk n)) lm /\
           l = QuotientDefs.merged_lists (ShareCutTotal.lists_fn (fo_m2 fo) (S "fragid")) (SquashDefs.squash_plan [] (SquashDefs.bang_items (fo_m2 fo)))
                                         (QuotientDefs.rho (fo_m2 fo) (cf0 (nk n))) /\
           lm = QuotientDefs.merged_lists (ShareCutTotal.lists_fn (fo_m2 fo) (S "mapping")) (SquashDefs.squash_plan [] (SquashDefs.bang_items (fo_m2 fo)))
                                          (QuotientDefs.rho (fo_m2 fo) (cf0 (nk n))) /\
           (forall v, In v l -> exists p, In p (node_keys (fo_m2 fo)) /\ QuotientDefs.rho (fo_m2 fo) p = QuotientDefs.rho (fo_m2 fo) (cf0 (nk n)) /\
                                         node_get (fo_m2 fo) p (S "fragid") = Some (VList [v])) /\
           (QuotientDefs.rho (fo_m2 fo) (cf0 (nk n)) = cf0 (nk n) -> forall key v, ~ In key written_keys_sq -> aget key (na n) = Some v ->
              node_get (fo_mol fo) (sg (cf0 (nk n))) key = Some v)) /\
      (forall a b, In a (node_keys frag) -> In b (node_keys frag) -> has_edge frag a b = true ->
         QuotientDefs.rho (fo_m2 fo) (cf0 a) = QuotientDefs.rho (fo_m2 fo) (cf0 b) \/
         has_edge (fo_mol fo) (sg (QuotientDefs.rho (fo_m2 fo) (cf0 a))) (sg (QuotientDefs.rho (fo_m2 fo) (cf0 b))) = true) /\
      (forall a b, In a (node_keys frag) -> In b (node_keys frag) ->
         has_edge (fo_mol fo) (sg (QuotientDefs.rho (fo_m2 fo) (cf0 a))) (sg (QuotientDefs.rho (fo_m2 fo) (cf0 b))) = true ->
         exists p q, QuotientDefs.rho (fo_m2 fo) p = QuotientDefs.rho (fo_m2 fo) (cf0 a) /\
                     QuotientDefs.rho (fo_m2 fo) q = QuotientDefs.rho (fo_m2 fo) (cf0 b) /\ has_edge (fo_m2 fo) p q = true) /\
      (NoDup (node_keys (fo_meta fo)) -> forall x l, In x (node_keys (fo_m3 fo)) ->
         node_get (fo_mol fo) (sg x) (S "fragid") = Some (VList l) -> In (VInt (nk mn)) l ->
         exists a, In a (node_keys frag) /\ QuotientDefs.rho (fo_m2 fo) (cf0 a) = x).
Proof. exact step_squashed_returned. Qed.
(** in terms of the returned coarse-node graphs: the 'graph' attribute the step returns for coarse node mn contains, for EVERY
    template atom of mn's fragment, an atom whose fragid lists mn's key and whose mapping lists (fragname, template atom) - also
    when atoms were squashed (with C02_step_frag_exact: that graph holds exactly the fine nodes recording mn's key) *)
Theorem C02_step_squashed_graphs : forall legacy aa fd prev car fo, tmpl_dict fd -> wf_attrs fd -> NumTotal.hnum_dict fd ->
  resolve_step_full legacy aa fd prev car = Ok fo ->
  (forall es, base_edges (fo_meta fo) = Ok es -> wf_edges es) ->
  (aa = true -> forall g1, car = Some g1 -> RebuildWf.all_no_rs g1) ->
  forall pre mn post fv name frag g, fo_meta fo = (pre ++ mn :: post)%list ->
  aget (S "fragname") (na mn) = Some fv -> lookup_fragment fd fv = Some (name, frag) -> In (nk mn, g) (fo_fgs fo) ->
  forall n, In n frag -> exists y l lm, In y (node_keys g) /\
    node_get (fo_mol fo) y (S "fragid") = Some (VList l) /\ In (VInt (nk mn)) l /\
    node_get (fo_mol fo) y (S "mapping") = Some (VList lm) /\ In (mapping_entry name (nk n)) lm.
Proof. exact step_squashed_graphs. Qed.
(** the converse used there (Resolve/CopyOnto.v): for distinct coarse keys every atom of the disconnected / bonded molecule that
    records exactly [key of mn] is the copy of a template atom of mn's fragment (last clause; the other clauses are those of
    C02_disconnected_edges_copy / C02_bonded_edges_copy for the same map cf) *)
Theorem C02_bonded_copy_onto : forall fd meta m1 fg1 legacy aa m2 fg2, tmpl_dict fd -> resolve_disconnected fd meta = Ok (m1, fg1) ->
  bonding_step legacy aa meta m1 fg1 = Ok (m2, fg2) -> (forall es, base_edges meta = Ok es -> wf_edges es) ->
  forall pre mn post fv name frag, meta = (pre ++ mn :: post)%list ->
  aget (S "fragname") (na mn) = Some fv -> lookup_fragment fd fv = Some (name, frag) ->
  exists cf : Z -> Z,
    (forall a b, In a (node_keys frag) -> In b (node_keys frag) -> cf a = cf b -> a = b) /\
    (forall n, In n frag -> node_get m2 (cf (nk n)) (S "fragid") = Some (VList [VInt (nk mn)]) /\
                            node_get m2 (cf (nk n)) (S "mapping") = Some (mapping_val name (nk n)) /\
                            forall key, key <> S "fragid" -> key <> S "mapping" -> key <> S "ez_isomer_atoms" -> key <> S "hcount" ->
                                        node_get m2 (cf (nk n)) key = aget key (na n)) /\
    (forall a b, In a (node_keys frag) -> In b (node_keys frag) -> edge_attrs m2 (cf a) (cf b) = tmpl_edge frag a b) /\
    (NoDup (node_keys meta) -> forall x, node_get m2 x (S "fragid") = Some (VList [VInt (nk mn)]) -> exists a, In a (node_keys frag) /\ x = cf a).
Proof. exact bonded_copy_onto. Qed.
(** non-vacuity: {[#A][#B]}.{#A=[#X][#Y][!],#B=[!][#Y][#Z]} (coarse): the dictionary satisfies the three hypotheses on it, the
    base edge joins different coarse nodes, the step returns, squashes (4 atoms before, 3 after) and the shared atom comes back
    listing both coarse keys *)
Definition fd_SQ02 : fragdict :=
  [(S "A", [tnode 0 "A" "X" [] [(1, 1)]; tnode 1 "A" "Y" ["!1"%string] [(0, 1)]]);
   (S "B", [tnode 0 "B" "Y" ["!1"%string] [(1, 1)]; tnode 1 "B" "Z" [] [(0, 1)]])].
Example C02_step_squashed_returned_nonvacuous :
  tmpl_dict fd_SQ02 /\ wf_attrs fd_SQ02 /\ NumTotal.hnum_dict fd_SQ02 /\ NoDup (node_keys base_AB) /\
  match base_edges base_AB with Ok es => forallb (fun e => negb (Z.eqb (fst (fst e)) (snd (fst e)))) es | Err _ => false end = true /\
  match resolve_step_full true false fd_SQ02 base_AB None with
  | Ok fo => Nat.eqb (length (fo_m2 fo)) 4 && Nat.eqb (length (fo_m3 fo)) 3 && Nat.eqb (length (fo_mol fo)) 3 &&
             existsb (fun n => match aget (S "fragid") (na n) with Some (VList [VInt 0; VInt 1]) => true | _ => false end) (fo_mol fo)
  | Err _ => false end = true.
Proof.
  split; [|split; [|split; [|split; [vm_compute; repeat constructor; cbn; intuition discriminate|split; vm_compute; reflexivity]]]].
  - intros name g H. cbn [fd_get fd_SQ02] in H.
    destruct (str_eqb name (S "A")).
    { inversion H; subst; clear H. split.
      - apply SquashProofs.wf_graphb_sound. vm_compute. reflexivity.
      - intros n [<-|[<-|[]]]; cbn; repeat constructor; intuition.
      - intros a b. unfold edge_attrs. cbn [gfind tnode nk nadj map fst snd].
        repeat match goal with |- context [Z.eqb ?x ?y] => destruct (Z.eqb_spec x y); subst; try congruence; cbn [adj_get gfind nk nadj tnode map fst snd] end; reflexivity. }
    destruct (str_eqb name (S "B")); [|discriminate].
    inversion H; subst; clear H. split.
    + apply SquashProofs.wf_graphb_sound. vm_compute. reflexivity.
    + intros n [<-|[<-|[]]]; cbn; repeat constructor; intuition.
    + intros a b. unfold edge_attrs. cbn [gfind tnode nk nadj map fst snd].
      repeat match goal with |- context [Z.eqb ?x ?y] => destruct (Z.eqb_spec x y); subst; try congruence; cbn [adj_get gfind nk nadj tnode map fst snd] end; reflexivity.
  - intros name g H n Hn. cbn [fd_get fd_SQ02] in H.
    destruct (str_eqb name (S "A")); [inversion H; subst; cbn in Hn; destruct Hn as [<-|[<-|[]]]; repeat constructor; cbn; intuition discriminate|].
    destruct (str_eqb name (S "B")); [inversion H; subst; cbn in Hn; destruct Hn as [<-|[<-|[]]]; repeat constructor; cbn; intuition discriminate|discriminate].
  - intros name g H n Hn. cbn [fd_get fd_SQ02] in H.
    destruct (str_eqb name (S "A")); [inversion H; subst; cbn in Hn; destruct Hn as [<-|[<-|[]]]; vm_compute; exact I|].
    destruct (str_eqb name (S "B")); [inversion H; subst; cbn in Hn; destruct Hn as [<-|[<-|[]]]; vm_compute; exact I|discriminate].
Qed.
(** ---- the RETURNED graph of an ALL-ATOM step (Resolve/AllAtomCopy.v): arbitrary dictionary of well-formed templates with dict-like
    attribute lists (wf_attrs), arbitrary coarse graph whose base edges join different coarse nodes, ANY aromaticity transcript g1
    that Hydro's contract accepts and that carries no 'rs_isomer' attribute, no atoms squashed: every coarse node with a fragment
    has its copy in the returned graph - hydrogens completed, sorted, E/Z-annotated, named -: an injective map cf from template
    atoms to returned atoms recording exactly [coarse key] and [(fragname, atom)] and carrying every template attribute the step does
    not write itself ([written_keys]: fragid, mapping, ez_isomer_atoms, hcount, aromatic, ez_isomer, ez_isomer_class, atomname), with
    an edge exactly where the template has one.  (Edge orders are outside the statement: the transcript may change them.) *)
Theorem C02_step_allatom_copy : forall legacy fd prev g1 fo, tmpl_dict fd -> wf_attrs fd ->
  resolve_step_full legacy true fd prev (Some g1) = Ok fo -> fo_m3 fo = fo_m2 fo ->
  (forall es, base_edges (fo_meta fo) = Ok es -> wf_edges es) -> RebuildWf.all_no_rs g1 ->
  forall pre mn post fv name frag, fo_meta fo = (pre ++ mn :: post)%list ->
  aget (S "fragname") (na mn) = Some fv -> lookup_fragment fd fv = Some (name, frag) ->
  exists cf : Z -> Z,
    (forall a b, In a (node_keys frag) -> In b (node_keys frag) -> cf a = cf b -> a = b) /\
    (forall n, In n frag -> node_get (fo_mol fo) (cf (nk n)) (S "fragid") = Some (VList [VInt (nk mn)]) /\
                            node_get (fo_mol fo) (cf (nk n)) (S "mapping") = Some (mapping_val name (nk n)) /\
                            forall key v, ~ In key written_keys -> aget key (na n) = Some v -> node_get (fo_mol fo) (cf (nk n)) key = Some v) /\
    (forall a b, In a (node_keys frag) -> In b (node_keys frag) -> has_edge (fo_mol fo) (cf a) (cf b) = has_edge frag a b).
Proof. exact step_allatom_copy. Qed.
(** non-vacuity: {[#A][#A]}.{#A=CC[$]} all-atom with the model's own bonded graph as transcript: the step returns, nothing is
    squashed, the transcript has no 'rs_isomer', the base edge joins different coarse nodes *)
Definition catom02 (h : Z) (extra : attrs) : attrs :=
  ([(S "element", VStr (S "C")); (S "charge", VInt 0); (S "aromatic", VBool false); (S "hcount", VInt h)] ++ extra)%list.
Definition fd_CC02 : fragdict :=
  [(S "A", add_edge (add_node (add_node gempty 0 (catom02 3 [(S "fragname", VStr (S "A")); (S "fragid", VInt 0)]))
                     1 (catom02 2 [(S "fragname", VStr (S "A")); (S "fragid", VInt 0); (S "bonding", VList [VStr (S "$1")])]))
           0 1 [(S "order", VInt 1)])].
Definition base_AA02 : graph := [cnode 0 "A" [(1, 1)]; cnode 1 "A" [(0, 1)]].
Example C02_step_allatom_copy_nonvacuous :
  match resolve_disconnected fd_CC02 base_AA02 with
  | Ok (m1, fg1) =>
      match bonding_step true true base_AA02 m1 fg1 with
      | Ok (m2, _) =>
          match resolve_step_full true true fd_CC02 base_AA02 (Some m2) with
          | Ok fo => graph_eqb (fo_m3 fo) (fo_m2 fo)
                     && forallb (fun n => match aget (S "rs_isomer") (na n) with None => true | Some _ => false end) m2
                     && match base_edges base_AA02 with Ok es => forallb (fun e => negb (Z.eqb (fst (fst e)) (snd (fst e)))) es | Err _ => false end
                     && Nat.eqb (length (fo_mol fo)) 14
          | Err _ => false end
      | Err _ => false end
  | Err _ => false end = true.
Proof. vm_compute. reflexivity. Qed.
(** non-vacuity: the witness dictionary satisfies tmpl_dict and the loop returns on {[#V].[#A][#B]} *)
Example C02_disconnected_edges_copy_nonvacuous :
  tmpl_dict fd_AB /\ match resolve_disconnected fd_AB base_VAB with Ok (mol, _) => Nat.eqb (length mol) 3 | Err _ => false end = true.
Proof.
  split; [|vm_compute; reflexivity].
  intros name g H. cbn [fd_get fd_AB] in H.
  destruct (str_eqb name (S "A")).
  { inversion H; subst; clear H. split.
    - apply SquashProofs.wf_graphb_sound. vm_compute. reflexivity.
    - intros n [<-|[<-|[]]]; cbn; repeat constructor; intuition.
    - intros a b. unfold edge_attrs. cbn [gfind tnode nk nadj map fst snd].
      repeat match goal with |- context [Z.eqb ?x ?y] => destruct (Z.eqb_spec x y); subst; try congruence; cbn [adj_get gfind nk nadj tnode map fst snd] end; reflexivity. }
  destruct (str_eqb name (S "B")); [|discriminate].
  inversion H; subst; clear H. split.
  - apply SquashProofs.wf_graphb_sound. vm_compute. reflexivity.
  - intros n [<-|[]]; cbn; constructor.
  - intros a b. unfold edge_attrs. cbn [gfind tnode nk nadj map fst snd].
    repeat match goal with |- context [Z.eqb ?x ?y] => destruct (Z.eqb_spec x y); subst; try congruence; cbn [adj_get gfind nk nadj tnode map fst snd] end; reflexivity.
Qed.

(** non-vacuity: the templates of the witness dictionary are well formed *)
Example C02_wf_nonvacuous : exists tA tB, fd_get (S "A") fd_AB = Some tA /\ fd_get (S "B") fd_AB = Some tB /\ wf_template tA /\ wf_template tB.
Proof.
  do 2 eexists. split; [reflexivity|]. split; [reflexivity|]. split; split.
  - repeat constructor; cbn; intuition discriminate.
  - intros u v d H. cbn in H. destruct H as [H|[]]. inversion H; subst. cbn. auto.
  - repeat constructor; cbn; intuition discriminate.
  - intros u v d H. cbn in H. contradiction.
Qed.

Print Assumptions C02_frag_copy.
Print Assumptions C02_disc_step_copy.
Print Assumptions C02_fragid_is_coarse_key.
Print Assumptions C02_step_frag_exact.
Print Assumptions C02_step_fragid_real.
Print Assumptions C02_step_edges_copy.
Print Assumptions C02_merge_edges_copy.
Print Assumptions C02_disc_step_edges.
Print Assumptions C02_disconnected_edges_copy.
Print Assumptions C02_bonding_keeps_edges.
Print Assumptions C02_bond_atoms_in_tables.
Print Assumptions C02_fragment_graphs_record_key.
Print Assumptions C02_bonded_edges_copy.
Print Assumptions C02_step_bonded_edges_copy.
Print Assumptions C02_disconnected_graph_wf.
Print Assumptions C02_bonded_graph_wf.
Print Assumptions C02_squash_identity.
Print Assumptions C02_step_coarse_copy.
Print Assumptions C02_step_allatom_copy.
Print Assumptions C02_step_squash_quotient.
Print Assumptions C02_step_squashed_bonds.
Print Assumptions C02_tail_embeds_squashed.
Print Assumptions C02_squash_keeps_dicts.
Print Assumptions C02_merged_lists_from.
Print Assumptions C02_step_squashed_returned.
Print Assumptions C02_bonded_copy_onto.
Print Assumptions C02_step_squashed_graphs.
Print Assumptions C02_frag_exact.
Print Assumptions C02_frag_cover.
Print Assumptions C02_fragid_singleton.
Print Assumptions C02_frag_copy_attrs.
Print Assumptions C02_correspondence_injective.

(** ---- source tie: the model of merge_graphs IS the function regenerated from /repo's text on this run
    (theories/Gen/GraphUtilsGen.v by tools/gen_graphutils.py, translated at max_node=None; primitives in
    Resolve/SourcePrims.v).  Hypotheses: the template graph is a dict of nodes with dicts of neighbours that are nodes
    (SourceTie.adj_ok), and its 'ez_isomer_atoms' values are such that the model raises what the source raises
    (SourceTie.ez_modelled: not a one-element list of a non-number, not an empty str, not a dict). *)
From CGV Require Resolve.SourcePrims Gen.GraphUtilsGen Resolve.SourceTie.
Theorem C02_merge_model_is_source : forall src tgt, SourceTie.adj_ok tgt -> SourceTie.ez_values_modelled tgt ->
  GraphUtilsGen.gen_merge_graphs src tgt = GraphOps.merge_graphs src tgt.
Proof. exact SourceTie.merge_is_source. Qed.
Example C02_merge_model_is_source_nonvacuous :
  let tgt := add_edge (add_node (add_node gempty 0 [(S "element", VStr (S "C")); (S "ez_isomer_atoms", VTup [VInt 0; VInt 1])])
                                1 [(S "element", VStr (S "O"))]) 0 1 [(S "order", VInt 2)] in
  let src := add_node gempty 0 [(S "fragid", VList [VInt 0])] in
  SourceTie.adj_ok tgt /\ SourceTie.ez_values_modelled tgt /\
  match GraphOps.merge_graphs src tgt with
  | Ok (g, corr) => corr = [(0, 1); (1, 2)] /\ node_keys g = [0; 1; 2] /\ edges_list g = [(1, 2)]
                    /\ node_get g 1 (S "ez_isomer_atoms") = Some (VTup [VInt 1; VInt 2])
  | Err _ => False
  end.
Proof.
  cbv zeta. split; [|split; [|vm_compute; repeat split; reflexivity]].
  - split; [repeat constructor; cbn; intuition discriminate|]. split.
    + intros n [<-|[<-|[]]]; cbn; repeat constructor; cbn; intuition discriminate.
    + intros n w [<-|[<-|[]]]; cbn; intuition.
  - repeat constructor; cbn; exact I.
Qed.
Print Assumptions C02_merge_model_is_source.

(** ---- source tie: annotate_fragments.  The source ASSIGNS the new fragment graph to the 'graph' attribute of every
    coarse node; the coarse graph's store of fragment graphs (kept beside it, as in the models) is updated key by key
    with the list the model returns, and IS that list when the store was empty or had one entry per coarse node in
    node order (what resolve_disconnected leaves).  Hypothesis: the 'fragid' values are lists/tuples of ints, str or None,
    or not iterable at all (SourceTie.fragid_ok; a str/dict value, a bool/float or unhashable entry are treated
    differently by the hand-written model). *)
Theorem C02_annotate_model_is_source : forall meta fgs0 mol, SourceTie.fragids_modelled mol ->
  GraphUtilsGen.gen_annotate_fragments meta fgs0 mol
  = (new <- GraphOps.annotate_fragments meta mol ;; Ok (fold_left (fun s kg => fg_set (fst kg) (snd kg) s) new fgs0, meta)).
Proof. exact SourceTie.annotate_is_source. Qed.
Theorem C02_annotate_model_is_source_inplace : forall meta fgs0 mol, NoDup (node_keys meta) -> map fst fgs0 = node_keys meta ->
  SourceTie.fragids_modelled mol ->
  GraphUtilsGen.gen_annotate_fragments meta fgs0 mol = (new <- GraphOps.annotate_fragments meta mol ;; Ok (new, meta)).
Proof. exact SourceTie.annotate_is_source_inplace. Qed.
Theorem C02_annotate_model_is_source_fresh : forall meta mol, NoDup (node_keys meta) -> SourceTie.fragids_modelled mol ->
  GraphUtilsGen.gen_annotate_fragments meta [] mol = (new <- GraphOps.annotate_fragments meta mol ;; Ok (new, meta)).
Proof. exact SourceTie.annotate_is_source_fresh. Qed.
Example C02_annotate_model_is_source_nonvacuous :
  let mol := add_edge (add_node (add_node (add_node gempty 0 [(S "fragid", VList [VInt 0])]) 1 [(S "fragid", VList [VInt 0; VInt 1])])
                                2 [(S "fragid", VList [VInt 1])]) 0 1 [(S "order", VInt 1)] in
  let meta := add_node (add_node gempty 0 []) 1 [] in
  SourceTie.fragids_modelled mol /\ NoDup (node_keys meta) /\
  match GraphOps.annotate_fragments meta mol with
  | Ok new => map (fun kg => (fst kg, node_keys (snd kg), edges_list (snd kg))) new = [(0, [0; 1], [(0, 1)]); (1, [1; 2], [])]
  | Err _ => False
  end.
Proof.
  cbv zeta. split; [|split; [repeat constructor; cbn; intuition discriminate|vm_compute; reflexivity]].
  repeat constructor; cbn; repeat constructor.
Qed.
Print Assumptions C02_annotate_model_is_source.
Print Assumptions C02_annotate_model_is_source_inplace.
Print Assumptions C02_annotate_model_is_source_fresh.
