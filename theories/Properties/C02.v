(** Property C02 - the coarse-to-fine mapping is a faithful partition into fragment copies.
    Only statements closed by [exact]; proofs in Resolve/MapProofs.v. *)
From Coq Require Import String.
From Coq Require Import List Ascii ZArith Bool Lia.
From CGV Require Import Base.PyBase Base.PyVal Base.NxGraph Resolve.Bonding Resolve.GraphOps Resolve.Pipeline
     Resolve.MapDefs Resolve.Witness Resolve.MapProofs.
Import ListNotations.
Open Scope Z_scope.

(** the former witness of defect class virtual_not_last (a virtual node BEFORE real nodes,
    {[#V].[#A][#B]}.{#A=[$][#X][#Y],#B=[$][#P]}; repaired in /repo fa307dd: fragid := the coarse key):
    every clause of C02 holds on the model's output, wherever the virtual node stands *)
Example C02_holds_virtual_first : c02_of base_VAB = Ok 0%nat.
Proof. vm_compute. reflexivity. Qed.
Example C02_holds_AB : c02_of base_ABV = Ok 0%nat /\ c02_of base_AB = Ok 0%nat.
Proof. split; vm_compute; reflexivity. Qed.

(** ---- annotate_fragments: the coarse 'graph' attributes, for every coarse graph and fine graph *)
(** frag_exact: coarse node k carries exactly the fine nodes whose fragid lists k *)
Theorem C02_frag_exact : forall meta mol fgs, annotate_fragments meta mol = Ok fgs ->
  forall k g, In (k, g) fgs -> forall n, In n (node_keys g) <-> records mol n k.
Proof. exact frag_exact. Qed.
(** every coarse node gets a graph, in coarse order *)
Theorem C02_frag_keys : forall meta mol fgs, annotate_fragments meta mol = Ok fgs -> map fst fgs = node_keys meta.
Proof. exact frag_keys. Qed.
(** frag_cover: a fine node whose fragid names a coarse key is in that coarse node's graph *)
Theorem C02_frag_cover : forall meta mol fgs, annotate_fragments meta mol = Ok fgs ->
  forall n k, records mol n k -> In k (node_keys meta) -> exists g, In (k, g) fgs /\ In n (node_keys g).
Proof. exact frag_cover. Qed.

(** ---- merge_graphs: instantiated nodes *)
(** one membership per instantiated node: [template fragid + running offset] - a COUNTER, not the coarse
    key: this is why C02 needs "no virtual node precedes a real node" (C02_refuted) *)
Theorem C02_fragid_singleton : forall off1 fo a a', merge_node off1 fo a = Ok a' ->
  exists f, aget (S "fragid") a' = Some (VList [VInt (f + fo)]) /\
            match aget (S "fragid") a with Some v => as_int v = Ok f | None => f = 0 end.
Proof. exact merge_fragid_singleton. Qed.
(** frag_copy, attributes: everything but fragid / ez_isomer_atoms is the template's *)
Theorem C02_frag_copy_attrs : forall off1 fo a a' key, merge_node off1 fo a = Ok a' ->
  key <> S "fragid" -> key <> S "ez_isomer_atoms" -> aget key a' = aget key a.
Proof. exact frag_copy_attrs. Qed.
(** frag_copy, the explicit bijection: consecutive fresh keys, injective *)
Theorem C02_correspondence_fresh : forall off tgt t x, In (t, x) (correspondence off tgt) -> off < x <= off + Z.of_nat (length tgt).
Proof. exact correspondence_fresh. Qed.
Theorem C02_correspondence_injective : forall off tgt, NoDup (map snd (correspondence off tgt)).
Proof. exact correspondence_injective. Qed.
(** frag_copy on the graph (partial: freshness/distinctness of the handed-out keys are hypotheses, see MapProofs) *)
Theorem C02_frag_copy_partial : forall src tgt g corr, merge_graphs src tgt = Ok (g, corr) ->
  NoDup (map (fun n => map_get corr (nk n)) tgt) ->
  (forall n, In n tgt -> has_node src (map_get corr (nk n)) = false) ->
  (forall u v d, In (u, v, d) (edges_data tgt) -> In u (node_keys tgt) /\ In v (node_keys tgt)) ->
  exists off fo, merge_offsets src = Ok (off, fo) /\ corr = correspondence off tgt /\
    forall n, In n tgt -> exists a', merge_node (off + 1) fo (na n) = Ok a' /\ node_attrs g (map_get corr (nk n)) = Ok a'.
Proof. exact frag_copy_partial. Qed.
(** non-vacuity of the hypotheses of C02_frag_copy_partial: instantiating #B after #A *)
Example C02_frag_copy_nonvacuous :
  exists g1 c1 g2 c2 tA tB, fd_get (S "A") fd_AB = Some tA /\ fd_get (S "B") fd_AB = Some tB /\
    merge_graphs gempty tA = Ok (g1, c1) /\ merge_graphs g1 tB = Ok (g2, c2) /\
    NoDup (map (fun n => map_get c2 (nk n)) tB) /\ forallb (fun n => negb (has_node g1 (map_get c2 (nk n)))) tB = true.
Proof.
  do 6 eexists. split; [reflexivity|]. split; [reflexivity|]. split; [vm_compute; reflexivity|]. split; [vm_compute; reflexivity|].
  split; [repeat constructor; cbn; tauto|reflexivity].
Qed.

Print Assumptions C02_frag_exact.
Print Assumptions C02_frag_cover.
Print Assumptions C02_fragid_singleton.
Print Assumptions C02_frag_copy_attrs.
Print Assumptions C02_correspondence_injective.
Print Assumptions C02_frag_copy_partial.
