(** Property C06 — layered resolutions compose.
    PROVED (for every resolution step, i.e. whatever one level does to graphs): the driver part —
    manual stepping gives a prefix of iterating, asking for the last level directly gives the
    last result of iterating with the same final state, each step receives the previous step's
    fine graph as its coarse graph, dictionary i is used at step i with the all-atom flag raised
    only at the last level, stepping past the end raises IndexError.  The per-step mapping and
    bonding guarantees are C02/C03 (stated for one arbitrary step, hence for every level).
    COMPOSITION, at the level of the bonding step and for two levels (theories/Compose/ComposeFlat.v,
    cited below as [C06_compose_flat_bonding_level]): for a molecule cut into parts and the parts grouped,
    the layered resolution (base over groups, coarse fragments over part-nodes with uniquely labelled
    descriptors whose order is the number of atom-level cut bonds, then atomistic templates) and the flat
    resolution (base over parts) both return and give the same fine skeleton — same edges, orders and
    atom attributes through the explicit renumbering offset-in-base-order+index |-> offset-in-group-
    order+index; after the coarse step the fine graph read as a base graph IS a base graph of the
    re-ordered cut ([C06_layered_base_is_flat_base]).  Legacy matching, no `!`, no E/Z marks.
    Not threaded through (decided per run by the generated search, tools/props/c06.py): sort / annotate /
    naming between the layers, three and more intermediate levels, hydrogens of the layered result,
    shared nodes; hence C06 stays claimed as partial. *)
From Coq Require Import String.
From Coq Require Import List Ascii ZArith Bool.
From CGV Require Import Base.PyBase Resolve.Drivers Resolve.DriversProofs Resolve.DriversCheck.
From CGV Require Compose.Statements.
Import ListNotations.

Section C06.
  Variables (level mol : Type) (step : level -> bool -> mol -> res (mol * mol)).

  Theorem C06_manual_is_prefix_of_iter : forall m ds laa k st outs, k <= length ds ->
    resolve_iter level mol step (fresh level mol m ds laa) = Ok (st, outs) ->
    exists stk, resolve_n level mol step k (fresh level mol m ds laa) = Ok (stk, firstn k outs).
  Proof. exact (manual_is_prefix_of_iter level mol step). Qed.

  Theorem C06_all_is_last_of_iter : forall m ds laa st outs,
    resolve_iter level mol step (fresh level mol m ds laa) = Ok (st, outs) -> ds <> [] ->
    exists last, resolve_all level mol step (fresh level mol m ds laa) = Ok (st, last)
                 /\ nth_error outs (length ds - 1) = Some last.
  Proof. exact (all_is_last_of_iter level mol step). Qed.

  Theorem C06_chain : forall n st st' outs, resolve_n level mol step n st = Ok (st', outs) ->
    forall i out, nth_error outs i = Some out ->
    exists d, nth_error (dicts st) (counter st + i) = Some d /\
      step d (Nat.eqb (Datatypes.S (counter st + i)) (length (dicts st)) && last_all_atom st)
           (match i with 0 => molecule st | Datatypes.S j => match nth_error outs j with Some o => snd o | None => molecule st end end)
      = Ok out.
  Proof. exact (chain level mol step). Qed.

  Theorem C06_past_end : forall st, length (dicts st) <= counter st -> resolve level mol step st = Err EIndex.
  Proof. exact (past_end level mol step). Qed.

  Theorem C06_use_sequence : forall n st st' outs, resolve_n level mol step n st = Ok (st', outs) ->
    uses_n n (counter st) (length (dicts st)) (last_all_atom st)
    = map (fun i => Some (counter st + i, Nat.eqb (Datatypes.S (counter st + i)) (length (dicts st)) && last_all_atom st)) (seq 0 n).
  Proof. exact (uses_n_spec level mol step). Qed.
End C06.

(** non-vacuity: a three-level run with a logging step *)
Example C06_nonvacuous :
  let step := fun (d : nat) (f : bool) (log : list (nat * bool)) => Ok (log, log ++ [(d, f)]) in
  exists st outs, resolve_iter nat _ step (fresh nat _ [] [0; 1; 2] true) = Ok (st, outs)
    /\ molecule st = [(0, false); (1, false); (2, true)].
Proof. eexists. eexists. split; [vm_compute; reflexivity|reflexivity]. Qed.

(** composition clause (statements in theories/Compose/ComposeFlat.v: [compose_flat], [layered_base]) *)
Definition C06_compose_flat_bonding_level := CGV.Compose.Statements.C06_compose_flat.
Definition C06_layered_base_is_flat_base := CGV.Compose.Statements.C06_layered_base.
Definition C06_regrouped_cut_wf := CGV.Compose.Statements.C06_perm_cut_wf.
(** the same for the graphs resolve() RETURNS at the first layer: a whole coarse resolve step (disconnected,
    bonding, squash = identity, sort = identity relabelling of an in-order graph, annotate, names) returns, its fine
    graph is still the skeleton of the coarse cut and, read with fragname := atomname, a base graph of the regrouped
    cut; the composition theorem then starts from that returned graph *)
Definition C06_coarse_step_returned := CGV.Compose.Statements.C06_coarse_step_returned.
Definition C06_compose_flat_returned := CGV.Compose.Statements.C06_compose_flat_returned.
Definition C12_sort_in_order := CGV.Compose.Statements.C12_sort_in_order.
(** ANY number of levels: a hierarchy is a top cut plus the cuts below it, each the coarse cut of the one above
    ([raw_chain]); by induction over the list of levels on the driver machine instantiated with the concrete
    resolve step, resolve_n returns at every level, after level k the returned fine graph is the skeleton of the
    level-k cut and (fragname := atomname) a base graph of the next, and the last graph equals the flat resolution's
    skeleton through the explicit renumbering; with an all-atom last level the RETURNED molecules of the layered and
    the flat description are isomorphic by the explicit map (atoms through the renumbering, i-th fresh hydrogen to
    i-th fresh hydrogen), adjacency, orders and atom attributes preserved.  Hypothesis kept for the all-atom call:
    both calls return with the identity aromaticity transcript.  Legacy matching, no `!`, no E/Z marks. *)
Definition C06_compose_levels := CGV.Compose.Statements.C06_compose_levels.
Definition C06_compose_levels_all_atom := CGV.Compose.Statements.C06_compose_levels_all_atom.
Definition C06_compose_levels_resolve_iso := CGV.Compose.Statements.C06_compose_levels_resolve_iso.
Definition C06_layered_flat_resolve_iso := CGV.Compose.Statements.C06_layered_flat_resolve_iso.
Definition C06_coarse_step_any := CGV.Compose.Statements.C06_coarse_step_any.
(** the isomorphism theorems for any aromaticity transcript admitted by Hydro's contract, the two runs' transcripts
    agreeing on the orders through phi ([corr_orders]) *)
Definition C06_layered_flat_resolve_iso_car := CGV.Compose.Statements.C06_layered_flat_resolve_iso_car.
Definition C06_compose_levels_resolve_iso_car := CGV.Compose.Statements.C06_compose_levels_resolve_iso_car.
(** per-run tie (clauses 131-134 of the check): when the executable tests pass on a generated hierarchy and on the
    IMPLEMENTATION's per-level dictionaries, base graph and returned graphs, the hypotheses of [compose_levels] hold of
    them, the model run returns, and the implementation's returned graphs are the skeletons of the same cuts *)
Definition C06_run_check_sound := CGV.Compose.Statements.C06_run_check_sound.
Definition C06_coarse_of_test_sound := CGV.Compose.Statements.C06_coarse_of_test_sound.
Definition C06_raw_chain_test_sound := CGV.Compose.Statements.C06_raw_chain_test_sound.

Print Assumptions C06_manual_is_prefix_of_iter.
Print Assumptions C06_compose_flat_bonding_level.
Print Assumptions C06_layered_base_is_flat_base.
Print Assumptions C06_coarse_step_returned.
Print Assumptions C06_compose_flat_returned.
Print Assumptions C12_sort_in_order.
Print Assumptions C06_compose_levels.
Print Assumptions C06_compose_levels_all_atom.
Print Assumptions C06_compose_levels_resolve_iso.
Print Assumptions C06_layered_flat_resolve_iso.
Print Assumptions C06_coarse_step_any.
Print Assumptions C06_layered_flat_resolve_iso_car.
Print Assumptions C06_compose_levels_resolve_iso_car.
Print Assumptions C06_run_check_sound.
Print Assumptions C06_coarse_of_test_sound.
Print Assumptions C06_raw_chain_test_sound.
Print Assumptions C06_all_is_last_of_iter.
Print Assumptions C06_chain.
Print Assumptions C06_past_end.
Print Assumptions C06_use_sequence.
