(** Property C05 — the multiplication operator is shorthand for writing the unit out.
    Statements only; proofs live in Reader/ReaderProofs*.v. *)
From Coq Require Import String.
From Coq Require Import List Ascii ZArith Bool.
From CGV Require Import Base.PyBase Base.PyVal Base.NxGraph Dialect.DialectImpl Reader.ReaderImpl Reader.Grammar
     Reader.ReaderCheck Reader.Lin Reader.ReaderSim Reader.ReaderMult Reader.ReaderUnit Reader.ReaderUnitLong Reader.ReaderEnd
     Gen.ReaderEnumGen Reader.ReaderSmall
     Reader.ReaderTrack Reader.ReaderGSegs Reader.ReaderGLong Reader.ReaderX Reader.ReaderG2 Reader.ReaderG2Ast Reader.ReaderG2Wf.
Import ListNotations.
Open Scope Z_scope.

Definition fo0 : float_oracle := fun _ => None.
Definition nd (n : string) : item := Item (S n) [] None None [].
Definition two := Some (@None sym, [2%nat]).
Definition three := Some (@None sym, [3%nat]).

(** FULL STATEMENT (not provable for the current code, see the _refuted theorems):
      forall fo braces a, wf fo a = true ->
        read_cgsmiles fo (print braces a) ~ read_cgsmiles fo (print braces (expand a))
    (same graph up to renumbering; the identical graph when only nodes are multiplied). *)

(** repaired (fix 0460546): {[#A]([#B]([#C]))|2} is read (it raised KeyError ')' before); the shorthand with a
    unit that does not contain a nested branch, {[#X]([#A]([#B])|2)[#D]} (two closings behind the multiplier's
    branch and its enclosing branch), is read as its longhand with the identity numbering *)
Example C05_fixed_double_close :
  (exists g, read_cgsmiles fo0 (print true [Item (S "A") [] None None [Branch [Item (S "B") [] None None [Branch [nd "C"] None None]] two None]]) = Ok g)
  /\ model_C05 fo0 true [Item (S "X") [] None None [Branch [Item (S "A") [] None None [Branch [nd "B"] two None]] None None]; nd "D"] None = 0%nat.
Proof. vm_compute. split; [eexists; reflexivity|reflexivity]. Qed.
(** REPAIRED classes: their former refutation witnesses are now read as the same graph as the longhand, with
    the identity numbering (model_C05 … None = 0) *)
(** {[#A]|3=[#B]} (fix f80d9d3) *)
Example C05_fixed_nodemult_sym : model_C05 fo0 true [Item (S "A") [] (Some [3%nat]) (Some SDouble) []; nd "B"] None = 0%nat.
Proof. vm_compute. reflexivity. Qed.
(** {[#A]([#B])|1} (fix cdbe172) *)
Example C05_fixed_bmult_one : model_C05 fo0 true [Item (S "A") [] None None [Branch [nd "B"] (Some (None, [1%nat])) None]] None = 0%nat.
Proof. vm_compute. reflexivity. Qed.
(** {[#X][#A]([#B])([#D])|2[#C]} (fix 16f1604) *)
Example C05_fixed_sibling_before_mult :
  model_C05 fo0 true [nd "X"; Item (S "A") [] None None [Branch [nd "B"] None None; Branch [nd "D"] two None]; nd "C"] None = 0%nat.
Proof. vm_compute. reflexivity. Qed.
(** [#A]([#B])|2 without braces (fix a4965aa) *)
Example C05_fixed_mult_at_end : model_C05 fo0 false [Item (S "A") [] None None [Branch [nd "B"] two None]] None = 0%nat.
Proof. vm_compute. reflexivity. Qed.
(** {[#A]#([#B]|2)|2} (fix 9dbeb83) *)
Example C05_fixed_nodemult_order_in_unit :
  model_C05 fo0 true [Item (S "A") [] None (Some STriple) [Branch [Item (S "B") [] (Some [2%nat]) None []] two None]] None = 0%nat.
Proof. vm_compute. reflexivity. Qed.

(** {[#A]([#B]1[#C][#D]1)|2}: the ring bond of the second copy is missing.  The oracle is asked
    with EVERY renumbering that could matter here replaced by the identity, which is the only
    candidate because the edge counts differ (7 against 8). *)
Theorem C05_refuted_ring_in_unit : exists a,
  wf fo0 a = true /\ class_C05 true a = 4%nat /\
  (forall g g', read_cgsmiles fo0 (print true a) = Ok g -> read_cgsmiles fo0 (print true (expand a)) = Ok g' ->
                length (edges_data g) <> length (edges_data g')).
Proof.
  exists [Item (S "A") [] None None
           [Branch [Item (S "B") [(None, MDigit 1)] None None []; nd "C"; Item (S "D") [(None, MDigit 1)] None None []] two None]].
  split; [vm_compute; reflexivity|]. split; [vm_compute; reflexivity|].
  intros g g'. vm_compute. intros H H'. injection H as <-. injection H' as <-. vm_compute. discriminate.
Qed.

(** UNBOUNDED, partial (node multipliers).  For every flat string of the grammar (see C04.v) reading the
    shorthand and reading the string with every node multiplier written out give the SAME result: the same
    graph with the same numbering and iteration orders (or the same error).  [expand_lin l] contains no
    multiplier.  Texts without braces: C05_nodes_partial_nobrace. *)
Theorem C05_nodes_partial : forall fo l, lins_ok fo l = true ->
  read_cgsmiles fo (base_text l) = read_cgsmiles fo (base_text (expand_lin l)).
Proof. exact reader_nodes_shorthand. Qed.
Theorem C05_nodes_partial_nobrace : forall fo l, lins_ok fo l = true ->
  read_cgsmiles fo (lins_str l) = read_cgsmiles fo (lins_str (expand_lin l)).
Proof. exact reader_nodes_shorthand_nobrace. Qed.
Theorem C05_longhand_has_no_multiplier : forall l, forallb (fun i => negb (is_some (l_mult i))) (expand_lin l) = true.
Proof. exact expand_lin_no_mult. Qed.
(** the specification-level fact behind it: the denotation is invariant under writing multipliers out *)
Theorem C05_denote_expand : forall fo l, forallb (lin_ok fo) l = true -> denote_lin fo (expand_lin l) = denote_lin fo l.
Proof. exact denote_expand_lin. Qed.
(** non-vacuity: {[#A]|3([#B]|12)[#C]} *)
Example C05_nodes_nonvacuous :
  let l := [{| l_open := false; l_name := S "A"; l_mult := Some [3%nat]; l_rings := []; l_bond := None; l_close := None |};
            {| l_open := true; l_name := S "B"; l_mult := Some [1%nat; 2%nat]; l_rings := []; l_bond := None; l_close := Some None |};
            {| l_open := false; l_name := S "C"; l_mult := None; l_rings := []; l_bond := None; l_close := None |}] in
  lins_ok fo0 l = true /\ length (expand_lin l) = 16%nat
  /\ exists g, read_cgsmiles fo0 (base_text l) = Ok g /\ length (nodes_data g) = 16%nat.
Proof. vm_compute. repeat split. eexists. split; reflexivity. Qed.

(** UNBOUNDED, partial (BRANCH multipliers).  A text is a sequence of flat items and UNITS
    "anchor ( simple chain ) sym? |n sym?" standing on the top-level chain: the multiplied branch is the first
    branch of its anchor, n >= 1, no ring marker and no nested branch inside the unit; node multipliers inside
    the unit, with or without a symbol behind the count, are allowed (Reader/ReaderUnit.v: [segs_ok]).  For every such text the
    reader model reads the shorthand and the longhand ([segs_long]: every unit written out n times, consecutive
    anchors joined by the symbol before '|', the symbol after |n leaving the last anchor) as the SAME graph
    with the SAME numbering; likewise with the node multipliers written out too.  This is the shape of the
    documented polymer examples, e.g. {[#PMA]([#PEO][#PEO])|3}.
    The general form - units inside other branches and behind sibling branches - is C05_branch_partial_gen below.
    Missing from the full statement: nested branches / rings inside units (refuted below: nested_in_unit,
    ring_in_unit), texts without braces. *)
Theorem C05_branch_partial : forall fo l, segs_ok fo l = true ->
  read_cgsmiles fo (segs_text l) = read_cgsmiles fo (base_text (segs_long l)).
Proof. exact reader_units_shorthand. Qed.
Theorem C05_branch_partial_expanded : forall fo l, segs_ok fo l = true ->
  read_cgsmiles fo (segs_text l) = read_cgsmiles fo (base_text (expand_lin (segs_long l))).
Proof. exact reader_units_fully_expanded. Qed.
(** non-vacuity, and the link to the AST-level functions on an instance:
    {[#X][#A]|2=([#B]-[#C]|2)=|3$[#D]}  vs  {[#X][#A]|2=([#B]-[#C]|2)=[#A]=([#B]-[#C]|2)=[#A]=([#B]-[#C]|2)$[#D]} *)
Example C05_branch_nonvacuous :
  let u := {| u_name := S "A"; u_mult := Some [2%nat]; u_bond := None;
              u_body := [{| bn_name := S "B"; bn_mult := None; bn_bond := Some SSingle |};
                         {| bn_name := S "C"; bn_mult := Some [2%nat]; bn_bond := None |}];
              u_ms := Some SDouble; u_count := [3%nat]; u_after := Some SQuad |} in
  let l := [SPlain {| l_open := false; l_name := S "X"; l_mult := None; l_rings := []; l_bond := None; l_close := None |};
            SUnit u;
            SPlain {| l_open := false; l_name := S "D"; l_mult := None; l_rings := []; l_bond := None; l_close := None |}] in
  let a := [nd "X"; Item (S "A") [] (Some [2%nat]) None
                      [Branch [Item (S "B") [] None (Some SSingle) []; Item (S "C") [] (Some [2%nat]) None []]
                              (Some (Some SDouble, [3%nat])) (Some SQuad)]; nd "D"] in
  segs_ok fo0 l = true /\ wf fo0 a = true /\ class_C05 true a = 0%nat
  /\ segs_text l = print true a
  /\ base_text (segs_long l) = print true (expand_branches a)
  /\ base_text (expand_lin (segs_long l)) = print true (expand a)
  /\ exists g, read_cgsmiles fo0 (segs_text l) = Ok g /\ length (nodes_data g) = 15%nat.
Proof. vm_compute. repeat split. eexists. split; reflexivity. Qed.

(** UNBOUNDED, multiplied branches AT ANY DEPTH and BEHIND SIBLING BRANCHES of their anchor.  A text is a list of
    flat items and multiplied branches "(" simple chain ")" sym? "|" n sym? (Reader/ReaderGSegs.v); the anchor of a
    multiplied branch is the node in front of it, possibly with sibling branches in between; the branch may stand
    inside any number of open branches.  Side condition [gsegs_ok]: the items are items of the grammar, parentheses
    balance, a multiplied branch names its anchor and the order of the bond that reaches its first node, and the
    recipe table is in order where it stands ([gtrack]: since the outermost open branch was opened, nothing was
    closed except sibling branches ... was the former table condition: since fix ee9caf1 [gtrack], like [g2track]
    below, places no condition on what was closed before the multiplied branch) and it
    contains neither ring markers nor nested branches (ring_in_unit, nested_in_unit).  Then the reader model reads the shorthand and the longhand (branch and anchor written out n
    times) as the SAME graph with the SAME numbering. *)
Theorem C05_branch_partial_gen : forall fo l, gsegs_ok fo l = true ->
  read_cgsmiles fo (gsegs_text l) = read_cgsmiles fo (base_text (gsegs_long l)).
Proof. exact reader_gunits_shorthand. Qed.
Theorem C05_branch_partial_gen_expanded : forall fo l, gsegs_ok fo l = true ->
  read_cgsmiles fo (gsegs_text l) = read_cgsmiles fo (base_text (expand_lin (gsegs_long l))).
Proof. exact reader_gunits_fully_expanded. Qed.
(** non-vacuity: a multiplied branch inside a branch and behind a sibling branch, and one at top level behind a
    sibling branch *)
Definition gpl (o : bool) (n : string) (c : option (option sym)) : gseg :=
  GPlain {| l_open := o; l_name := S n; l_mult := None; l_rings := []; l_bond := None; l_close := c |}.
Example C05_branch_gen_nonvacuous :
  let u1 := {| u_name := S "A"; u_mult := None; u_bond := None;
               u_body := [{| bn_name := S "C"; bn_mult := None; bn_bond := None |};
                          {| bn_name := S "D"; bn_mult := Some [2%nat]; bn_bond := None |}];
               u_ms := Some SDouble; u_count := [2%nat]; u_after := Some SQuad |} in
  let u2 := {| u_name := S "F"; u_mult := None; u_bond := None;
               u_body := [{| bn_name := S "H"; bn_mult := None; bn_bond := None |}];
               u_ms := None; u_count := [3%nat]; u_after := None |} in
  let l := [gpl false "X" None; gpl true "A" None; gpl true "B" (Some None); GUnit u1; gpl false "E" (Some None);
            gpl false "F" None; gpl true "G" (Some None); GUnit u2] in
  gsegs_ok fo0 l = true
  /\ gsegs_text l = S "{[#X]([#A]([#B])([#C][#D]|2)=|2$[#E])[#F]([#G])([#H])|3}"
  /\ base_text (gsegs_long l) = S "{[#X]([#A]([#B])([#C][#D]|2)=[#A]([#C][#D]|2)$[#E])[#F]([#G])([#H])[#F]([#H])[#F]([#H])}"
  /\ exists g, read_cgsmiles fo0 (gsegs_text l) = Ok g /\ length (nodes_data g) = 18%nat.
Proof. vm_compute. repeat split. eexists. split; reflexivity. Qed.

(** UNBOUNDED, ON ASTs - the property's own sentence for BRANCH multipliers.  [units_ok] (decidable,
    Reader/ReaderG2Ast.v) asks: every branch chain is non-empty; a branch that carries a multiplier is a simple chain
    (no ring marker, no nested branch); the anchor of a branch multiplied by n >= 2 that is its first branch carries no
    ring marker (ring_in_unit otherwise); and the flat form of the AST passes [g2segs_ok] - items and names are those of the
    grammar, parentheses balance, and a multiplied branch names its anchor and the pending bond order ([g2track]; NO condition
    on what was closed before it any more: since fix ee9caf1 the expansion starts at the closing anchor's own entry of the
    recipe table, and the proof only needs that the table's keys are pairwise different, [ReaderG2.ninv] - the former
    class stale_recipe lies inside [units_ok], Example C05_units_ok_former_stale).  The multiplied branch may stand at any
    depth, behind sibling branches and behind closed branches, and may be followed by closing parentheses.  Then the reader model on the SHORTHAND returns exactly the
    denotation of the LONGHAND ([denote] runs the token machine on [expand_branches a], the branch multipliers written
    out); and for well-formed ASTs reading the shorthand = reading the longhand, same graph, same numbering.
    Missing from the full statement (named): (a) branches with a multiplier that are not simple chains - the three open
    classes nested_in_unit / ring_in_unit, and the two harmless shapes "multiplier 1 on a branch with nested branches or
    rings" and "the one nested shape the code expands correctly" (bounded only: C05_small); (c) NODE
    multipliers: C05_ast_expand_partial below writes them out too ([expand]).
    Texts with braces (base graphs) and without (coarse fragment texts) are both covered. *)
Theorem C05_branch_ast_partial : forall fo braces a, units_ok fo a = true -> read_cgsmiles fo (print braces a) = denote fo a.
Proof. exact reader_sim_units_gen. Qed.
Theorem C05_branch_ast_longhand_partial : forall fo braces a, units_ok fo a = true -> wf fo a = true ->
  read_cgsmiles fo (print braces a) = read_cgsmiles fo (print braces (expand_branches a)).
Proof. exact reader_units_longhand_wf. Qed.
(** ... and with EVERY multiplier written out ([Grammar.expand]: branch and node multipliers) - C05's own sentence.
    No hypothesis about the longhand is left: that [expand_branches a] and [expand a] are again strings of the grammar
    follows from [wf a] (Reader/ReaderG2Wf.v: expand_branches_rg, expand_nodes_rg) *)
Theorem C05_ast_expand_partial : forall fo braces a, units_ok fo a = true -> wf fo a = true ->
  read_cgsmiles fo (print braces a) = read_cgsmiles fo (print braces (expand a)).
Proof. exact reader_units_expand_wf. Qed.
(** in the check's own terms: [ReaderCheck.class_C05] puts an AST into no class when [units_test] holds (the side
    condition evaluated with the oracle "no float"); for every oracle under which the AST is well formed this is the
    hypothesis of the theorem above ([units_ok_oracle]: the side condition depends on the oracle only through the names) *)
Theorem C05_check_class_sound : forall fo braces a, wf fo a = true -> units_test a = true ->
  read_cgsmiles fo (print braces a) = read_cgsmiles fo (print braces (expand a)).
Proof. exact reader_units_test_sound. Qed.
(** the flat level behind it: multiplied branches followed by closings, items that close several branches *)
Theorem C05_branch_flat_closings : forall fo l, g2segs_ok fo l = true ->
  read_cgsmiles fo ("{"%char :: g2segs_str l ++ ["}"%char]) = denote_g2 fo l.
Proof. exact reader_sim_g2. Qed.
Theorem C05_branch_flat_closings_nobrace : forall fo l, g2segs_ok fo l = true -> l <> [] ->
  read_cgsmiles fo (g2segs_str l) = denote_g2 fo l.
Proof. exact reader_sim_g2_nobrace. Qed.
(** BOUNDED coverage of the side condition: on the complete enumerated list, every well-formed AST outside the three
    open classes whose multiplied branches are simple chains satisfies [units_ok] (so the unbounded theorem applies to
    it); this includes every enumerated AST of the repaired class stale_recipe (cls_stale_recipe) *)
Theorem C05_units_cover_small :
  forallb (fun a => negb (wf fo_none a && Nat.eqb (class_C05 true a) 0 && negb (nonsimple_mult a)) || units_ok fo_none a) small_c05 = true.
Proof. exact C05_units_cover_small_list. Qed.
Theorem C05_units_cover_small_not_vacuous :
  (2000 <=? length (filter (fun a => wf fo_none a && units_ok fo_none a && has_branch_mult a) small_c05))%nat = true.
Proof. exact C05_units_cover_small_nonvacuous. Qed.
(** the defect classes as the check numbers them ([ReaderCheck.class_C05]) are cut down to the complement of [units_ok]:
    an AST that satisfies it is in no class.  BOUNDED exactness: every enumerated well-formed AST that is in a class is
    NOT read as its longhand with the identical numbering (843 in nested_in_unit; the list has no ring in a unit), so on the
    list no class hides an input on which the reader is right *)
Theorem C05_classes_exact_small :
  forallb (fun a => negb (wf fo_none a) || Nat.eqb (class_C05 true a) 0 || negb (Nat.eqb (model_C05 fo_none true a None) 0)) small_c05 = true.
Proof. exact C05_classes_exact_small_list. Qed.
Theorem C05_classes_exact_small_not_vacuous :
  (length (filter (fun a => wf fo_none a && Nat.eqb (class_C05 true a) 4) small_c05),
   length (filter (fun a => wf fo_none a && Nat.eqb (class_C05 true a) 5) small_c05)) = (0%nat, 843%nat).
Proof. exact C05_classes_exact_small_counts. Qed.
(** non-vacuity: a multiplied branch inside a branch, behind a sibling branch, directly followed by ")", and a second
    one at top level behind a sibling branch *)
Example C05_branch_ast_nonvacuous :
  let a := [Item (S "X") [] None None
              [Branch [Item (S "A") [] None None
                         [Branch [nd "B"] None None;
                          Branch [nd "C"; Item (S "D") [] (Some [2%nat]) None []] (Some (Some SDouble, [2%nat])) None]] None None];
            Item (S "F") [] None (Some SQuad) [Branch [nd "G"] None None; Branch [nd "H"] (Some (None, [3%nat])) None]] in
  wf fo0 a = true /\ units_ok fo0 a = true
  /\ wf fo0 (expand_branches a) = true /\ has_branch_mult (expand_branches a) = false
  /\ print true a = S "{[#X]([#A]([#B])([#C][#D]|2)=|2)[#F]$([#G])([#H])|3}"
  /\ print true (expand_branches a) = S "{[#X]([#A]([#B])([#C][#D]|2)=[#A]([#C][#D]|2))[#F]$([#G])([#H])[#F]([#H])[#F]([#H])}"
  /\ forallb mpos_item (expand_branches a) = true /\ wf fo0 (expand a) = true /\ has_branch_mult (expand a) = false
  /\ print true (expand a) = S "{[#X]([#A]([#B])([#C][#D][#D])=[#A]([#C][#D][#D]))[#F]$([#G])([#H])[#F]([#H])[#F]([#H])}"
  /\ (exists g, read_cgsmiles fo0 (print true a) = Ok g /\ length (nodes_data g) = 17%nat)
  /\ (exists g, read_cgsmiles fo0 (print false a) = Ok g /\ length (nodes_data g) = 17%nat).
Proof. vm_compute. repeat split; eexists; split; reflexivity. Qed.

(** BOUNDED: on the complete enumerated list [small_c05] (ASTs with <= 3 nodes and up to two multipliers
    from {2,3} on nodes / {1,2,3} on branches, symbols {none,#}; and <= 4 nodes, multipliers 2 on nodes /
    {2,3} on branches, at most one '='), outside the defect classes, and when no multiplied unit contains a nested
    branch, the model reads shorthand and longhand as the SAME graph with the SAME numbering *)
Theorem C05_small : forallb (fun a => wf fo_none a && c05_ok a) small_c05 = true.
Proof. exact C05_small_list. Qed.
Theorem C05_small_not_vacuous : (500 <=? length (filter (fun a => Nat.eqb (class_C05 true a) 0 && negb (nested_any a)) small_c05))%nat = true.
Proof. exact C05_small_nonvacuous. Qed.

Print Assumptions C05_branch_partial.
Print Assumptions C05_branch_partial_expanded.
Print Assumptions C05_branch_partial_gen.
Print Assumptions C05_branch_ast_partial.
Print Assumptions C05_branch_ast_longhand_partial.
Print Assumptions C05_ast_expand_partial.
Print Assumptions C05_check_class_sound.
Print Assumptions C05_branch_flat_closings.
Print Assumptions C05_branch_partial_gen_expanded.
Print Assumptions C05_nodes_partial.
Print Assumptions C05_nodes_partial_nobrace.
Print Assumptions C05_denote_expand.
Print Assumptions C05_small.
(** the remaining classes: an ISOMORPHISM INVARIANT of the two graphs differs, so no renumbering exists *)
(** {[#X][#A]([#B][#G]([#D])[#E])|3[#C]}: numbers of nodes of degree 1, 2, 3 are 7,5,5 against 8,3,6 *)
Theorem C05_refuted_nested_in_unit : exists a,
  wf fo0 a = true /\ class_C05 true a = 5%nat /\ count_nodes (short_of fo0 true a) = count_nodes (long_of fo0 true a)
  /\ degree_profile (short_of fo0 true a) <> degree_profile (long_of fo0 true a).
Proof.
  exists [nd "X"; Item (S "A") [] None None [Branch [nd "B"; Item (S "G") [] None None [Branch [nd "D"] None None]; nd "E"] three None]; nd "C"].
  vm_compute. repeat split; discriminate.
Qed.
(** {[#Q]([#A]([#X])[#D]([#B])|2[#E])} and {[#X]([#A]([#B]([#Q]))([#C])|2)} (stale_recipe, repaired: the slice of the
    recipe table starts at the entry of the closing anchor): read as the longhand, identity numbering *)
Example C05_units_ok_former_stale :
  units_ok fo0 [Item (S "Q") [] None None [Branch [Item (S "A") [] None None [Branch [nd "X"] None None];
                                                   Item (S "D") [] None None [Branch [nd "B"] two None]; nd "E"] None None]] = true
  /\ units_ok fo0 [Item (S "X") [] None None [Branch [Item (S "A") [] None None
                      [Branch [Item (S "B") [] None None [Branch [nd "Q"] None None]] None None; Branch [nd "C"] two None]] None None]] = true.
Proof. vm_compute. split; reflexivity. Qed.
Example C05_fixed_stale_recipe :
  model_C05 fo0 true [Item (S "Q") [] None None [Branch [Item (S "A") [] None None [Branch [nd "X"] None None];
                                                          Item (S "D") [] None None [Branch [nd "B"] two None]; nd "E"] None None]] None = 0%nat
  /\ model_C05 fo0 true [Item (S "X") [] None None [Branch [Item (S "A") [] None None
                            [Branch [Item (S "B") [] None None [Branch [nd "Q"] None None]] None None; Branch [nd "C"] two None]] None None]] None = 0%nat.
Proof. vm_compute. split; reflexivity. Qed.

Print Assumptions C05_refuted_ring_in_unit.
