(** Property C12 - output numbering is canonical and results depend on the input alone.
    Only statements closed by [exact]; proofs in Resolve/SortProofs.v and Resolve/VirtualProofs.v. *)
From Coq Require Import String.
From Coq Require Import List Ascii ZArith Bool Lia Sorting.Sorted Sorting.Permutation.
From CGV Require Hydro.Squash Compose.GraphAdj Compose.RelabelEdges.
From CGV Require Import Base.PyBase Base.PyVal Base.NxGraph Resolve.Bonding Resolve.GraphOps Resolve.Pipeline
     Resolve.MapDefs Resolve.Witness Resolve.SortProofs Resolve.VirtualProofs Resolve.SortGraphProofs Resolve.DriversInst Resolve.NameProofs Resolve.NameShared Resolve.NameStep Resolve.NameClosed Resolve.SingleFragid Resolve.CopyProofs Resolve.FragidProofs Resolve.PipelineFull.
From CGV Require Import Hydro.SquashDefs.
From CGV Require Hydro.SquashProofs.
Import ListNotations.
Open Scope Z_scope.

(** ---- sort_nodes_by_attr: mapping old key -> new key *)
(** sort_keys: the new keys are 0..n-1, given to a permutation of the old keys carrying 'fragid' *)
Theorem C12_sort_keys : forall (g : graph) (m : list (Z * Z)), sort_mapping g = Ok m ->
  map snd m = map Z.of_nat (seq 0 (length m)) /\
  Permutation (map fst m) (map fst (get_node_attributes g (S "fragid"))).
Proof. exact sort_keys. Qed.
(** sort_perm / sort_sorted: [isort] returns a permutation, strictly ascending in (fragid, old key) when the
    old keys are distinct, and it is the ONLY such list - so Python's `sorted` returns it too *)
Theorem C12_sort_perm : forall l, Permutation (isort l) l.
Proof. exact isort_perm. Qed.
Theorem C12_sort_sorted : forall g ks, sort_items g = Ok ks -> NoDup (map snd ks) ->
  StronglySorted key_lt (isort ks) /\ Permutation (isort ks) ks /\
  (forall l', Permutation l' ks -> StronglySorted key_lt l' -> l' = isort ks).
Proof. exact sort_sorted. Qed.
(** the comparison is Python's: lists lexicographically, then the old key; a strict total order *)
Theorem C12_key_total : forall a b, a <> b -> key_lt a b \/ key_lt b a.
Proof. exact key_total. Qed.
Theorem C12_key_trans : forall a b c, key_lt a b -> key_lt b c -> key_lt a c.
Proof. exact key_lt_trans. Qed.
(** block_contiguous: nodes with the same membership list occupy one interval of new keys ... *)
Theorem C12_block_contiguous : forall l, StronglySorted key_lt l ->
  forall i j k d c, (i <= j)%nat -> (j <= k)%nat -> (k < length l)%nat ->
    fst (nth i l d) = c -> fst (nth k l d) = c -> fst (nth j l d) = c.
Proof. exact block_contiguous. Qed.
(** ... and without shared atoms the intervals come in coarse-key order *)
Theorem C12_block_order : forall l, StronglySorted key_lt l ->
  forall i j d c c', (i <= j)%nat -> (j < length l)%nat -> fst (nth i l d) = [c] -> fst (nth j l d) = [c'] -> c <= c'.
Proof. exact block_order. Qed.
Example C12_sort_example : isort [([1], 5); ([0; 1], 7); ([0], 9); ([0], 2)] = [([0], 2); ([0], 9); ([0; 1], 7); ([1], 5)].
Proof. reflexivity. Qed.

(** ---- sort_nodes_by_attr on the GRAPH (well-formed graph: distinct keys, symmetric closed adjacency, no self loop) *)
(** nx.relabel_nodes(copy=True) along a map that is injective on the node keys: the relabelled keys in the OLD node
    order, every node keeps its attribute dict, adjacency is carried *)
Theorem C12_relabel_keys : forall m g, wf_graph g -> inj_on (map_get m) (node_keys g) ->
  node_keys (relabel_copy g m) = map (map_get m) (node_keys g).
Proof. exact relabel_keys. Qed.
Theorem C12_relabel_attrs : forall m g, wf_graph g -> inj_on (map_get m) (node_keys g) ->
  forall k, In k (node_keys g) -> node_attrs (relabel_copy g m) (map_get m k) = node_attrs g k.
Proof. exact relabel_attrs. Qed.
Theorem C12_relabel_adjacent : forall m g, wf_graph g -> inj_on (map_get m) (node_keys g) ->
  forall a b, In a (node_keys g) -> In b (node_keys g) -> has_edge (relabel_copy g m) (map_get m a) (map_get m b) = has_edge g a b.
Proof. exact relabel_adjacent. Qed.
(** G.edges reports every adjacency, in exactly one direction *)
Theorem C12_edges_enumeration : forall g, wf_graph g -> forall y x,
  existsb (fun e => SquashProofs.eqpair y x (fst (fst e)) (snd (fst e))) (edges_data g) = has_edge g y x.
Proof. exact edges_data_spec. Qed.
(** sort_keys at graph level, sort_perm for attributes and edges: the result lives on a permutation image 0..n-1 of the old keys
    (old node order kept), adjacency and every attribute but the rewritten 'ez_isomer_atoms' are carried along *)
Theorem C12_sort_graph : forall g h, wf_graph g -> map fst (get_node_attributes g (S "fragid")) = node_keys g ->
  sort_nodes_by_attr g = Ok h ->
  exists m, sort_mapping g = Ok m /\
    inj_on (map_get m) (node_keys g) /\
    Permutation (map (map_get m) (node_keys g)) (map Z.of_nat (seq 0 (length g))) /\
    node_keys h = map (map_get m) (node_keys g) /\
    (forall a b, In a (node_keys g) -> In b (node_keys g) -> has_edge h (map_get m a) (map_get m b) = has_edge g a b) /\
    (forall k key, In k (node_keys g) -> key <> S "ez_isomer_atoms" -> node_get h (map_get m k) key = node_get g k key).
Proof. exact sort_graph. Qed.
(** ref_remap: a pair of node references in 'ez_isomer_atoms' is rewritten by the same permutation (and becomes a list) *)
Theorem C12_ref_remap : forall g h k a b, wf_graph g -> map fst (get_node_attributes g (S "fragid")) = node_keys g ->
  sort_nodes_by_attr g = Ok h -> In k (node_keys g) -> In a (node_keys g) -> In b (node_keys g) ->
  node_get g k (S "ez_isomer_atoms") = Some (VTup [VInt a; VInt b]) ->
  exists m, sort_mapping g = Ok m /\
    node_get h (map_get m k) (S "ez_isomer_atoms") = Some (VList [VInt (map_get m a); VInt (map_get m b)]).
Proof. exact ref_remap. Qed.
(** non-vacuity: keys 7,3,5 with fragids [1],[0],[0] and a reference pair; sorted keys 3->0, 5->1, 7->2 *)
Definition sort_witness : graph :=
  [ {| nk := 7; na := [(S "fragid", VList [VInt 1]); (S "ez_isomer_atoms", VTup [VInt 3; VInt 5])]; nadj := [(3, [])] |};
    {| nk := 3; na := [(S "fragid", VList [VInt 0])]; nadj := [(7, []); (5, [])] |};
    {| nk := 5; na := [(S "fragid", VList [VInt 0])]; nadj := [(3, [])] |} ].
Example C12_sort_graph_nonvacuous :
  wf_graph sort_witness /\ map fst (get_node_attributes sort_witness (S "fragid")) = node_keys sort_witness /\
  exists h, sort_nodes_by_attr sort_witness = Ok h /\ node_keys h = [2; 0; 1] /\
            node_get h 2 (S "ez_isomer_atoms") = Some (VList [VInt 0; VInt 1]).
Proof.
  split; [apply SquashProofs.wf_graphb_sound; reflexivity|]. split; [reflexivity|].
  eexists. split; [vm_compute; reflexivity|]. split; reflexivity.
Qed.

(** ---- atom names (set_atom_names_atomistic as repaired in /repo 8dbd471 + e15e5bd: an atom shared through the squash operator
    is named once, later indices step over taken names, names of shared atoms are kept apart over the whole molecule) *)
(** names_unique_per_coarse_node (UNCONDITIONAL for the repaired function): the names of each coarse node's atoms, read from the
    returned fine graph, are pairwise distinct - for every fine graph and coarse node lists in which a coarse node lists its
    atoms once, the element strings contain no digit, and an atom that occurs in two coarse nodes has more than one fragid entry
    ([shared_ok]; this is how annotate_fragments builds the coarse graphs: an atom is in the graph of every coarse node its
    fragid lists) *)
Theorem C12_names_unique_per_coarse_node : forall (E : list pystr), Forall digit_free E ->
  forall mol meta fgs mol' fgs', set_atom_names mol meta fgs = Ok (mol', fgs') ->
  (forall g, In g (fraglist_of meta fgs) -> NoDup (snd g)) -> elemsE E mol ->
  shared_ok (fun k => node_get mol k (S "fragid")) [] (fraglist_of meta fgs) ->
  forall g, In g (fraglist_of meta fgs) -> NoDup (map (name_in mol') (snd g)).
Proof. intros E HE. exact (names_unique_per_coarse_node E (label_inj_list E HE)). Qed.
(** the hypotheses about the coarse node lists are facts about annotate_fragments: for a fine graph with distinct keys and
    fragid lists without repeated entries, and distinct coarse keys, every coarse node lists its atoms once and an atom met in
    two coarse nodes has more than one fragid entry *)
Theorem C12_annotate_groups : forall meta mol fgs, annotate_fragments meta mol = Ok fgs ->
  NoDup (node_keys mol) -> NoDup (node_keys meta) -> fragid_nodup mol ->
  (forall g, In g (fraglist_of meta fgs) -> NoDup (snd g)) /\
  shared_ok (fun k => node_get mol k (S "fragid")) [] (fraglist_of meta fgs).
Proof. exact annotate_groups. Qed.
(** hence, for the graphs a whole all-atom step (end-to-end model) RETURNS: within every coarse node the atom names read from
    the returned fine graph are pairwise distinct *)
Theorem C12_step_names_unique : forall (E : list pystr) legacy fd prev car fo, Forall digit_free E ->
  resolve_step_full legacy true fd prev car = Ok fo ->
  NoDup (node_keys (fo_m6 fo)) -> NoDup (node_keys (fo_meta fo)) -> fragid_nodup (fo_m6 fo) -> elemsE E (fo_m6 fo) ->
  forall k g, In (k, g) (fo_fgs fo) -> NoDup (map (name_in (fo_mol fo)) (node_keys g)).
Proof. exact step_names_unique. Qed.
(** the same without any hypothesis on intermediate graphs: the coarse graphs have distinct keys whatever the fragid lists
    look like, the sorted graph has distinct keys because relabel_copy only uses add_node / add_edge; what is left is about
    the INPUT (distinct coarse keys) and the alphabet (no digit inside an element symbol) *)
Theorem C12_annotate_groups_any : forall meta mol fgs, annotate_fragments meta mol = Ok fgs ->
  NoDup (node_keys mol) -> NoDup (node_keys meta) ->
  (forall g, In g (fraglist_of meta fgs) -> NoDup (snd g)) /\
  shared_ok (fun k => node_get mol k (S "fragid")) [] (fraglist_of meta fgs).
Proof. exact annotate_groups_any. Qed.
(** edge attribute VALUES (proved by the Compose component, Compose/RelabelEdges.v, for arbitrary well-formed graphs): without
    duplicate adjacency entries / edge-dict keys and for an attribute that reads the same in both directions, the edge between
    the new keys of a and b carries what the edge between a and b carried *)
Theorem C12_sort_edge_get : forall g h key, wf_graph g -> GraphAdj.adj_nodup g -> GraphAdj.edge_nodup g ->
  map fst (get_node_attributes g (S "fragid")) = node_keys g -> sort_nodes_by_attr g = Ok h ->
  (forall a b, edge_get g a b key = edge_get g b a key) ->
  forall m, sort_mapping g = Ok m -> forall a b, In a (node_keys g) -> In b (node_keys g) ->
    edge_get h (map_get m a) (map_get m b) key = edge_get g a b key.
Proof. exact RelabelEdges.sort_edge_get. Qed.
Theorem C12_sorted_keys_distinct : forall g h, sort_nodes_by_attr g = Ok h -> NoDup (node_keys h).
Proof. exact sort_nodup. Qed.
Theorem C12_step_names_unique_any : forall legacy fd prev car fo,
  resolve_step_full legacy true fd prev car = Ok fo -> NoDup (node_keys prev) ->
  (forall k el, node_get (fo_m6 fo) k (S "element") = Some (VStr el) -> digit_free el) ->
  forall k g, In (k, g) (fo_fgs fo) -> NoDup (map (name_in (fo_mol fo)) (node_keys g)).
Proof. exact step_names_unique_any. Qed.
(** non-vacuity: {[#A][#A]}.{#A=CC[$]} resolved all-atom (the transcript is the model's own graph after squash): the step
    returns, the coarse keys are distinct, no element has a digit, and each coarse node gets C0 C1 H2..H6 *)
Definition catomw (h : Z) (extra : attrs) : attrs :=
  ([(S "element", VStr (S "C")); (S "charge", VInt 0); (S "aromatic", VBool false); (S "hcount", VInt h)] ++ extra)%list.
Definition fd_CC : fragdict :=
  [(S "A", add_edge (add_node (add_node gempty 0 (catomw 3 [(S "fragname", VStr (S "A")); (S "fragid", VInt 0)]))
                     1 (catomw 2 [(S "fragname", VStr (S "A")); (S "fragid", VInt 0); (S "bonding", VList [VStr (S "$1")])]))
           0 1 [(S "order", VInt 1)])].
Definition base_AA : graph := [cnode 0 "A" [(1, 1)]; cnode 1 "A" [(0, 1)]].
Definition m3_AA : option graph :=
  match resolve_disconnected fd_CC base_AA with
  | Ok (m1, fg1) => match bonding_step true true base_AA m1 fg1 with
                    | Ok (m2, _) => match Hydro.Squash.squash_atoms m2 with Ok m3 => Some m3 | _ => None end | _ => None end
  | _ => None end.
Definition names_AA : res (list (Z * list (option pyval)) * bool) :=
  match m3_AA with
  | Some m3 =>
      match resolve_step_full true true fd_CC base_AA (Some m3) with
      | Ok fo => Ok (map (fun kg => (fst kg, map (name_in (fo_mol fo)) (node_keys (snd kg)))) (fo_fgs fo),
                     forallb (fun n => match aget (S "element") (na n) with
                                       | Some (VStr el) => forallb (fun c => negb (is_digit c)) el | _ => true end) (fo_m6 fo))
      | Err e => Err e
      end
  | None => Err EKey
  end.
Example C12_step_names_unique_any_nonvacuous :
  NoDup (node_keys base_AA) /\
  names_AA = Ok (let l := map (fun s => Some (VStr s)) [S "C0"; S "C1"; S "H2"; S "H3"; S "H4"; S "H5"; S "H6"] in [(0, l); (1, l)], true).
Proof. split; [vm_compute; repeat constructor; cbn; intuition discriminate|vm_compute; reflexivity]. Qed.
(** the CLOSED FORM when no atom belongs to several fragments ([unshared]: every fragid list has at most one entry, i.e. no squash
    operator joined two fragments): the atoms of a coarse node are named element ++ str(position), positions counted in the order
    of the coarse node's graph ([labels 0 es] = e0 ++ "0", e1 ++ "1", ...; [elem mol n e]: the element of n is e) *)
Theorem C12_names_closed_form : forall mol meta fgs mol' fgs', set_atom_names mol meta fgs = Ok (mol', fgs') ->
  NoDup (concat (map snd (fraglist_of meta fgs))) -> (forall n, unshared mol n) ->
  forall g, In g (fraglist_of meta fgs) -> exists es, Forall2 (elem mol) (snd g) es /\ map (name_in mol') (snd g) = map Some (labels 0 es).
Proof. exact names_closed_form. Qed.
Theorem C12_step_names_closed_form : forall legacy fd prev car fo,
  resolve_step_full legacy true fd prev car = Ok fo -> NoDup (node_keys prev) -> (forall n, unshared (fo_m6 fo) n) ->
  forall k g, In (k, g) (fo_fgs fo) ->
  exists es, Forall2 (elem (fo_m6 fo)) (node_keys g) es /\ map (name_in (fo_mol fo)) (node_keys g) = map Some (labels 0 es).
Proof. exact step_names_closed_form. Qed.
Theorem C12_step_name_at : forall legacy fd prev car fo,
  resolve_step_full legacy true fd prev car = Ok fo -> NoDup (node_keys prev) -> (forall n, unshared (fo_m6 fo) n) ->
  forall k g i n, In (k, g) (fo_fgs fo) -> nth_error (node_keys g) i = Some n ->
  exists e, elem (fo_m6 fo) n e /\ name_in (fo_mol fo) n = Some (VStr (atom_label e (Z.of_nat i))).
Proof. exact step_name_at. Qed.
(** non-vacuity: in the all-atom witness step (C12_step_names_unique_any_nonvacuous: names C0 C1 H2..H6 per coarse node) every
    atom of the sorted fine graph has a one-entry fragid *)
Example C12_step_names_closed_form_nonvacuous :
  match m3_AA with
  | Some m3 => match resolve_step_full true true fd_CC base_AA (Some m3) with
               | Ok fo => forallb (fun n => match fragid_shared (na n) with Ok false => true | _ => false end) (fo_m6 fo)
               | Err _ => false end
  | None => false end = true.
Proof. vm_compute. reflexivity. Qed.
(** steps that squash nothing (fo_m3 = fo_m2; squash_atoms is the only stage that concatenates fragid lists): every stage keeps
    "each fragid is a one-element list" (Resolve/SingleFragid.v), so no atom of the sorted graph reads as shared and the closed
    form needs no hypothesis about intermediate graphs *)
Theorem C12_step_not_shared : forall legacy aa fd prev car fo, wf_dict fd -> wf_attrs fd ->
  resolve_step_full legacy aa fd prev car = Ok fo -> fo_m3 fo = fo_m2 fo ->
  forall n a, node_attrs (fo_m6 fo) n = Ok a -> fragid_shared a <> Ok true.
Proof. exact step_not_shared. Qed.
Theorem C12_step_name_at_nosquash : forall legacy fd prev car fo, wf_dict fd -> wf_attrs fd ->
  resolve_step_full legacy true fd prev car = Ok fo -> fo_m3 fo = fo_m2 fo -> NoDup (node_keys prev) ->
  forall k g i n, In (k, g) (fo_fgs fo) -> nth_error (node_keys g) i = Some n ->
  exists e, elem (fo_m6 fo) n e /\ name_in (fo_mol fo) n = Some (VStr (atom_label e (Z.of_nat i))).
Proof. exact step_name_at_nosquash. Qed.
(** non-vacuity: the witness step squashes nothing *)
Example C12_step_name_at_nosquash_nonvacuous :
  match m3_AA with
  | Some m3 => match resolve_step_full true true fd_CC base_AA (Some m3) with
               | Ok fo => graph_eqb (fo_m3 fo) (fo_m2 fo) | Err _ => false end
  | None => false end = true.
Proof. vm_compute. reflexivity. Qed.
(** element ++ str(index) determines element and index when the element has no digit *)
Theorem C12_label_injective : forall e e' i j, digit_free e -> digit_free e' -> 0 <= i -> 0 <= j ->
  atom_label e i = atom_label e' j -> e = e' /\ i = j.
Proof. exact label_inj. Qed.
(** the pure form of one pass over a coarse node: values are pairwise distinct; an already-named atom keeps its name; a new name
    is element ++ str(i) with i not below the running index, not among the names taken in this coarse node and - for an atom
    of several fragments - not among the names of such atoms anywhere; the new names of such atoms join that set *)
Theorem C12_assign_unique : forall (E : list pystr),
  (forall e e' i j, In e E -> In e' E -> 0 <= i -> 0 <= j -> atom_label e i = atom_label e' j -> i = j) ->
  forall used ds shn idx vs shn', 0 <= idx -> incl (news ds) E -> incl (olds ds) used -> NoDup (olds ds) ->
  assign used shn idx ds = Ok (vs, shn') ->
  NoDup vs /\ Forall2 (good E used shn idx) ds vs /\ (forall x, In x shn' <-> In x shn \/ In x (shared_news ds vs)).
Proof. exact assign_spec. Qed.

(** witnesses: atoms as (key, element, fragid list); coarse graphs as node lists *)
Definition atom (k : Z) (el : string) (fid : list Z) : nrec :=
  {| nk := k; na := [(S "element", VStr (S el)); (S "fragid", VList (map VInt fid))]; nadj := [] |}.
Definition cgraph (ks : list Z) : graph := map (fun k => {| nk := k; na := []; nadj := [] |}) ks.
Definition cmeta (ks : list Z) : graph := map (fun k => {| nk := k; na := []; nadj := [] |}) ks.
Definition names_after (mol meta : graph) (fgs : fgraphs) : res (list (option pyval) * bool) :=
  r <- set_atom_names mol meta fgs ;; Ok (map (name_in (fst r)) (node_keys (fst r)), names_unique (fst r) (snd r)).
(** the former witness of class shared_atom_names ({[#A][#B]}.{#A=CC[!],#B=[!]CC}, heavy atoms): atom 1 is shared by coarse
    nodes 0 and 1; it keeps C1 and coarse node 1 continues with C2 - unique in both (fixed in /repo 8dbd471) *)
Example C12_shared_atom_named_once :
  names_after [atom 0 "C" [0]; atom 1 "C" [0; 1]; atom 2 "C" [1]] (cmeta [0; 1]) [(0, cgraph [0; 1]); (1, cgraph [1; 2])]
  = Ok ([Some (VStr (S "C0")); Some (VStr (S "C1")); Some (VStr (S "C2"))], true).
Proof. vm_compute. reflexivity. Qed.
(** the former witness of class shared_from_two_owners ({[#A]1.[#B][#K]1}.{#A=CC[!],#B=CC[!],#K=[!]CC[!]}, heavy atoms): K holds
    atom 1 (first named in A) and atom 3 (first named in B); since /repo e15e5bd the names of shared atoms are kept apart over
    the whole molecule, so atom 3 becomes C2 and K is unique *)
Example C12_two_owners_named_apart :
  names_after [atom 0 "C" [0]; atom 1 "C" [0; 2]; atom 2 "C" [1]; atom 3 "C" [1; 2]] (cmeta [0; 1; 2])
              [(0, cgraph [0; 1]); (1, cgraph [2; 3]); (2, cgraph [1; 3])]
  = Ok ([Some (VStr (S "C0")); Some (VStr (S "C1")); Some (VStr (S "C0")); Some (VStr (S "C2"))], true).
Proof. vm_compute. reflexivity. Qed.

(** non-vacuity: the hypotheses of C12_names_unique_per_coarse_node hold on the two-owner witness *)
Example C12_names_unique_nonvacuous :
  let mol := [atom 0 "C" [0]; atom 1 "C" [0; 2]; atom 2 "C" [1]; atom 3 "C" [1; 2]] in
  let fgs := [(0, cgraph [0; 1]); (1, cgraph [2; 3]); (2, cgraph [1; 3])] in
  Forall digit_free [S "C"] /\ elemsE [S "C"] mol /\
  (forall g, In g (fraglist_of (cmeta [0; 1; 2]) fgs) -> NoDup (snd g)) /\
  shared_ok (fun k => node_get mol k (S "fragid")) [] (fraglist_of (cmeta [0; 1; 2]) fgs).
Proof.
  cbv zeta. split; [repeat constructor|]. split.
  - apply elems_in_sound. reflexivity.
  - split.
    + intros g Hg. cbn in Hg. repeat (destruct Hg as [<-|Hg]; [cbn; repeat constructor; cbn; intuition discriminate|]). contradiction.
    + cbn. repeat split; intros n Hin Hseen; cbn in Hin, Hseen; intuition (subst; try discriminate; try reflexivity).
Qed.

(** ---- WHICH index an atom gets when atoms are shared (Resolve/NameShared.v), on GraphOps.set_atom_names = the repaired
    set_atom_names_atomistic (/repo 8dbd471 + e15e5bd).  The atoms of a coarse node are visited in the order of its graph with
    a counter that starts at 0.  [desc_of molA namedA n] describes atom n when the loop reaches the coarse node: [Old v] - it was
    named v by an EARLIER coarse node (its first owner) - or [New e sh] - element e, sh = it belongs to several coarse nodes.
    [exact used shn idx ds vs shn']: an Old atom keeps its name and the counter advances by one; a New atom gets
    element ++ str(i) with i the LEAST index >= counter ([lfree]) whose label is not in [used] (the names already carried by
    atoms of this coarse node) nor - for a shared atom - in [shn] (the names of the shared atoms named so far in the whole
    molecule); the counter continues at i + 1. *)
Theorem C12_bump_least : forall fuel taken e idx i, bump_idx fuel taken e idx = Ok i -> lfree taken e idx i.
Proof. exact bump_least. Qed.
(** the `while` loop of the naming always ends within the fuel of the model when labels of one element differ pairwise *)
Theorem C12_bump_total : forall e, (forall i j, 0 <= i -> 0 <= j -> atom_label e i = atom_label e j -> i = j) ->
  forall fuel taken idx, 0 <= idx -> (length taken < fuel)%nat -> exists i, bump_idx fuel taken e idx = Ok i.
Proof. exact bump_total. Qed.
Theorem C12_assign_exact : forall used ds shn idx vs shn', assign used shn idx ds = Ok (vs, shn') -> exact used shn idx ds vs shn'.
Proof. exact assign_exact. Qed.
(** the specification determines the names: it IS the closed form *)
Theorem C12_exact_unique : forall used ds shn idx vs1 s1 vs2 s2,
  exact used shn idx ds vs1 s1 -> exact used shn idx ds vs2 s2 -> vs1 = vs2 /\ s1 = s2.
Proof. exact exact_unique. Qed.
Theorem C12_assign_total : forall E, (forall e i j, In e E -> 0 <= i -> 0 <= j -> atom_label e i = atom_label e j -> i = j) ->
  forall used ds shn idx, 0 <= idx -> incl (news ds) E -> exists vs shn', assign used shn idx ds = Ok (vs, shn').
Proof. exact assign_total. Qed.
(** first owner, first coarse node with atoms (nothing named before): every atom - shared or not - is named
    element ++ str(position) *)
Theorem C12_exact_first_group : forall E,
  (forall e e' i j, In e E -> In e' E -> 0 <= i -> 0 <= j -> atom_label e i = atom_label e' j -> i = j) ->
  forall ds shn idx vs shn', 0 <= idx -> incl (news ds) E -> olds ds = [] ->
  (forall v, In v shn -> exists e j, In e E /\ 0 <= j < idx /\ v = VStr (atom_label e j)) ->
  exact [] shn idx ds vs shn' -> vs = pos_names idx ds.
Proof. exact exact_first_group. Qed.
(** the index never falls behind the position: the new atom at position p of a coarse node gets an index >= counter + p *)
Theorem C12_exact_index_ge : forall used ds shn idx vs shn', exact used shn idx ds vs shn' ->
  forall p e sh, nth_error ds p = Some (New e sh) -> exists i, nth_error vs p = Some (VStr (atom_label e i)) /\ idx + Z.of_nat p <= i.
Proof. exact exact_index_ge. Qed.
(** one coarse node of set_atom_names: its names afterwards are the ones [exact] describes, atoms named before keep their names
    (later owners), nothing else changes *)
Theorem C12_group_exact : forall mol fgs named shn mn nodes mol1 fgs1 named1 shn1,
  name_group2 (mol, fgs, named, shn) (mn, nodes) = Ok (mol1, fgs1, named1, shn1) -> NoDup nodes ->
  exists ds vs, GraphOps.map_res (desc_of mol named) nodes = Ok ds /\
    exact (olds ds) shn 0 ds vs shn1 /\
    map (name_in mol1) nodes = map Some vs /\
    (forall k, ~ In k nodes -> node_attrs mol1 k = node_attrs mol k) /\
    (forall k, In k named1 <-> In k named \/ In k nodes) /\
    (forall k, In k named -> name_in mol1 k = name_in mol k).
Proof. exact group_exact. Qed.
(** the whole naming, on the RETURNED fine graph mol': for every coarse node (mn, nodes) of the fragment list there is the state
    the loop has reached before it - molA differs from the input only in 'atomname', namedA = the atoms of the earlier coarse
    nodes, whose names are final, shnA = the (final) names of those of them that belong to several coarse nodes ([sh_of]: the
    fragid has more than one entry) - such that the names of the atoms of mn in mol' are exactly what [exact] describes *)
Theorem C12_set_atom_names_closed_form : forall mol meta fgs mol' fgs', set_atom_names mol meta fgs = Ok (mol', fgs') ->
  (forall g, In g (fraglist_of meta fgs) -> NoDup (snd g)) ->
  forall pre mn nodes post, fraglist_of meta fgs = (pre ++ (mn, nodes) :: post)%list ->
  exists (molA : graph) (namedA : list Z) (shnA : list pyval) ds vs shnB,
    (forall k, In k namedA <-> exists g, In g pre /\ In k (snd g)) /\
    (forall k, In k namedA -> name_in molA k = name_in mol' k) /\
    (forall k key, key <> S "atomname" -> node_get molA k key = node_get mol k key) /\
    (forall v, In v shnA <-> exists n, In n namedA /\ sh_of mol n /\ name_in mol' n = Some v) /\
    GraphOps.map_res (desc_of molA namedA) nodes = Ok ds /\
    exact (olds ds) shnA 0 ds vs shnB /\
    map (name_in mol') nodes = map Some vs.
Proof. exact set_atom_names_closed_form. Qed.
(** the same read off the RETURNED graph alone: the description of the atoms is taken from mol' ([desc_of mol' namedA]) and the
    shared atoms are those of mol' *)
Theorem C12_set_atom_names_closed_form_returned : forall mol meta fgs mol' fgs', set_atom_names mol meta fgs = Ok (mol', fgs') ->
  (forall g, In g (fraglist_of meta fgs) -> NoDup (snd g)) ->
  forall pre mn nodes post, fraglist_of meta fgs = (pre ++ (mn, nodes) :: post)%list ->
  exists (namedA : list Z) (shnA : list pyval) ds vs shnB,
    (forall k, In k namedA <-> exists g, In g pre /\ In k (snd g)) /\
    (forall v, In v shnA <-> exists n, In n namedA /\ sh_of mol' n /\ name_in mol' n = Some v) /\
    GraphOps.map_res (desc_of mol' namedA) nodes = Ok ds /\
    exact (olds ds) shnA 0 ds vs shnB /\
    map (name_in mol') nodes = map Some vs.
Proof. exact set_atom_names_closed_form_returned. Qed.
(** hence for every RETURNED all-atom end-to-end step on a coarse graph with distinct keys, in terms of the returned fine graph
    and the returned coarse 'graph' attributes alone (no hypothesis on intermediate graphs): the atoms of the coarse node mn, in
    the order of its returned graph, carry exactly the names [exact] describes *)
Theorem C12_step_shared_names_closed_form : forall legacy fd prev car fo,
  resolve_step_full legacy true fd prev car = Ok fo -> NoDup (node_keys prev) ->
  forall pre mn nodes post, fraglist_of (fo_meta fo) (fo_fgs fo) = (pre ++ (mn, nodes) :: post)%list ->
  exists (namedA : list Z) (shnA : list pyval) ds vs shnB,
    (forall k, In k namedA <-> exists g, In g pre /\ In k (snd g)) /\
    (forall v, In v shnA <-> exists n, In n namedA /\ sh_of (fo_mol fo) n /\ name_in (fo_mol fo) n = Some v) /\
    GraphOps.map_res (desc_of (fo_mol fo) namedA) nodes = Ok ds /\
    exact (olds ds) shnA 0 ds vs shnB /\
    map (name_in (fo_mol fo)) nodes = map Some vs.
Proof. exact step_shared_names_closed_form. Qed.
(** non-vacuity of the step form: {[#A][#B]}.{#A=CC[!],#B=[!]CC} all-atom with the model's own squashed graph as transcript:
    distinct coarse keys, the step returns; coarse node 1 meets the shared carbon (C1) and its two hydrogens (H5, H6) again, its
    own carbon steps over C1 to C2 and its hydrogens over H5, H6 to H7, H8, H9 *)
Definition fd_SQ12 : fragdict :=
  [(S "A", add_edge (add_node (add_node gempty 0 (catomw 3 [(S "fragname", VStr (S "A")); (S "fragid", VInt 0)]))
                     1 (catomw 2 [(S "fragname", VStr (S "A")); (S "fragid", VInt 0); (S "bonding", VList [VStr (S "!1")])]))
           0 1 [(S "order", VInt 1)]);
   (S "B", add_edge (add_node (add_node gempty 0 (catomw 2 [(S "fragname", VStr (S "B")); (S "fragid", VInt 0); (S "bonding", VList [VStr (S "!1")])]))
                     1 (catomw 3 [(S "fragname", VStr (S "B")); (S "fragid", VInt 0)]))
           0 1 [(S "order", VInt 1)])].
Definition m3_SQ12 : option graph :=
  match resolve_disconnected fd_SQ12 base_AB with
  | Ok (m1, fg1) => match bonding_step true true base_AB m1 fg1 with
                    | Ok (m2, _) => match Hydro.Squash.squash_atoms m2 with Ok m3 => Some m3 | _ => None end | _ => None end
  | _ => None end.
Example C12_step_shared_names_closed_form_nonvacuous :
  NoDup (node_keys base_AB) /\
  match m3_SQ12 with
  | Some m3 =>
      match resolve_step_full true true fd_SQ12 base_AB (Some m3) with
      | Ok fo => Ok (fraglist_of (fo_meta fo) (fo_fgs fo), map (name_in (fo_mol fo)) [4; 7; 5; 6; 8; 9; 10])
      | Err e => Err e
      end
  | None => Err EKey
  end = Ok ([(0, [0; 4; 1; 2; 3; 5; 6]); (1, [4; 7; 5; 6; 8; 9; 10])],
            map (fun s => Some (VStr s)) [S "C1"; S "C2"; S "H5"; S "H6"; S "H7"; S "H8"; S "H9"]).
Proof. split; [vm_compute; repeat constructor; cbn; intuition discriminate|vm_compute; reflexivity]. Qed.
(** non-vacuity on the two-owner witness (C12_two_owners_named_apart): the fragment list has three coarse nodes with duplicate-free
    atom lists and the naming returns; coarse node 1 = [2; 3] meets two new atoms, the second one shared, when the shared name C1
    is taken: the specification gives C0 and C2 (the least free index from the counter 1 on is 2); 'C' labels differ pairwise *)
Example C12_set_atom_names_closed_form_nonvacuous :
  let mol := [atom 0 "C" [0]; atom 1 "C" [0; 2]; atom 2 "C" [1]; atom 3 "C" [1; 2]] in
  let fgs := [(0, cgraph [0; 1]); (1, cgraph [2; 3]); (2, cgraph [1; 3])] in
  fraglist_of (cmeta [0; 1; 2]) fgs = [(0, [0; 1]); (1, [2; 3]); (2, [1; 3])] /\
  (forall g, In g (fraglist_of (cmeta [0; 1; 2]) fgs) -> NoDup (snd g)) /\
  (exists r, set_atom_names mol (cmeta [0; 1; 2]) fgs = Ok r) /\
  exact [] [VStr (S "C1")] 0 [New (S "C") false; New (S "C") true] [VStr (S "C0"); VStr (S "C2")] [VStr (S "C2"); VStr (S "C1")] /\
  (forall i j, 0 <= i -> 0 <= j -> atom_label (S "C") i = atom_label (S "C") j -> i = j).
Proof.
  cbv zeta. split; [vm_compute; reflexivity|]. split.
  { intros g Hg. cbn in Hg. repeat (destruct Hg as [<-|Hg]; [cbn; repeat constructor; cbn; intuition discriminate|]). contradiction. }
  split; [eexists; vm_compute; reflexivity|]. split.
  - cbn [exact]. exists 0. split; [apply lfree_here; vm_compute; reflexivity|]. split; [reflexivity|].
    exists 2. split; [|split; reflexivity].
    split; [lia|]. split; [vm_compute; reflexivity|]. intros j Hj. assert (j = 1) as -> by lia. vm_compute. reflexivity.
  - intros i j Hi Hj Hl. apply (label_inj (S "C") (S "C") i j); auto; reflexivity.
Qed.

(** ---- input-only dependence *)
(** frag_order_irrelevant: the order of the definitions in a fragment block with unique names is immaterial
    for every lookup, hence for the whole resolution step *)
Theorem C12_frag_order_irrelevant : forall d d', Permutation d d' -> NoDup (map fst d) -> forall name, fd_get name d = fd_get name d'.
Proof. exact frag_order_irrelevant. Qed.
Theorem C12_step_frag_order : forall legacy aa d d' prev tr,
  Permutation d d' -> NoDup (map fst d) -> resolve_step legacy aa d prev tr = resolve_step legacy aa d' prev tr.
Proof. exact resolve_step_frag_order. Qed.
(** ctor_agree: the three constructors build the same state from corresponding inputs *)
Theorem C12_ctor_agree : forall read_cgsmiles read_fragments s e0 rest mol ds laa legacy frs bs,
  find_blocks s = e0 :: rest -> read_cgsmiles e0 = Ok mol ->
  read_fragment_strings read_fragments rest laa = Ok ds ->
  find_blocks frs = rest -> forallb (fun n => ahas (S "fragname") (na n)) mol = true ->
  find_blocks bs = [e0] ->
  from_string read_cgsmiles read_fragments s laa legacy = Ok (init mol ds laa legacy) /\
  from_graph read_fragments frs mol laa legacy = Ok (init mol ds laa legacy) /\
  from_fragment_dicts read_cgsmiles bs ds laa legacy = Ok (init mol ds laa legacy).
Proof. exact ctor_agree. Qed.
Example C12_find_blocks_example :
  find_blocks (S "{[#A][#B]}.{#A=[$]CC,#B=[$]O}") = [S "{[#A][#B]}"; S "{#A=[$]CC,#B=[$]O}"].
Proof. vm_compute. reflexivity. Qed.
(** the resolver object is one-shot: a second resolve_all on it runs out of dictionaries (IndexError) *)
Theorem C12_resolve_exhausted : forall st tr, st_counter st = length (st_dicts st) -> resolve st tr = Err EIndex.
Proof. exact resolve_exhausted. Qed.

(** ---- the drivers: Pipeline.resolve / resolve_iter / resolve_all are instances of the abstract driver machine of C06
    (Resolve/Drivers.v) with step := Pipeline.resolve_step, so the C06 theorems apply verbatim *)
Theorem C12_resolve_is_driver_instance : forall trs st, inv trs st ->
  match Pipeline.resolve st (nth (st_counter st) trs no_transcript),
        Drivers.resolve tlevel PipelineFull.amol (tstep (st_legacy st)) (abs trs st) with
  | Ok (st', o), Ok (dst', o') =>
      dst' = abs trs st' /\ o' = out_abs o /\ inv trs st' /\ st_legacy st' = st_legacy st
      /\ st_counter st' = Datatypes.S (st_counter st)
  | Err e, Err e' => e = e'
  | _, _ => False
  end.
Proof. exact resolve_is_instance. Qed.
Theorem C12_resolve_all_is_driver_instance : forall trs st, inv trs st -> st_counter st = 0%nat ->
  match Pipeline.resolve_all st trs, Drivers.resolve_all tlevel PipelineFull.amol (tstep (st_legacy st)) (abs trs st) with
  | Ok (st', o), Ok (dst', o') => dst' = abs trs st' /\ o' = out_abs o
  | Err e, Err e' => e = e'
  | _, _ => False
  end.
Proof. exact resolve_all_is_instance. Qed.

Print Assumptions C12_names_unique_per_coarse_node.
Print Assumptions C12_label_injective.
Print Assumptions C12_annotate_groups.
Print Assumptions C12_step_names_unique.
Print Assumptions C12_annotate_groups_any.
Print Assumptions C12_sorted_keys_distinct.
Print Assumptions C12_sort_edge_get.
Print Assumptions C12_step_names_unique_any.
Print Assumptions C12_names_closed_form.
Print Assumptions C12_step_names_closed_form.
Print Assumptions C12_step_name_at.
Print Assumptions C12_step_not_shared.
Print Assumptions C12_step_name_at_nosquash.
Print Assumptions C12_sort_keys.
Print Assumptions C12_sort_sorted.
Print Assumptions C12_block_contiguous.
Print Assumptions C12_block_order.
Print Assumptions C12_step_frag_order.
Print Assumptions C12_ctor_agree.
Print Assumptions C12_sort_graph.
Print Assumptions C12_ref_remap.
Print Assumptions C12_relabel_adjacent.
Print Assumptions C12_resolve_all_is_driver_instance.
Print Assumptions C12_bump_least.
Print Assumptions C12_bump_total.
Print Assumptions C12_assign_exact.
Print Assumptions C12_exact_unique.
Print Assumptions C12_assign_total.
Print Assumptions C12_exact_first_group.
Print Assumptions C12_exact_index_ge.
Print Assumptions C12_group_exact.
Print Assumptions C12_set_atom_names_closed_form.
Print Assumptions C12_set_atom_names_closed_form_returned.
Print Assumptions C12_step_shared_names_closed_form.

(** ---- source tie: the model of sort_nodes_by_attr IS the function regenerated from /repo's text on this run
    (theories/Gen/GraphUtilsGen.v by tools/gen_graphutils.py, primitives in Resolve/SourcePrims.v).  Hypotheses: the
    node keys are distinct (a networkx graph is a dict of nodes) and no 'ez_isomer_atoms' value is a dict or uses a bool
    as node key - on those two the hand-written model differs from the source (SourceTie.ref_ok). *)
From CGV Require Resolve.SourcePrims Gen.GraphUtilsGen Resolve.SourceTie.
Theorem C12_sort_model_is_source : forall g, NoDup (node_keys g) -> SourceTie.refs_modelled g ->
  GraphUtilsGen.gen_sort_nodes_by_attr g GraphUtilsGen.sort_attr_default GraphUtilsGen.relative_attr_default
  = GraphOps.sort_nodes_by_attr g.
Proof. exact SourceTie.sort_is_source. Qed.
Example C12_sort_model_is_source_nonvacuous :
  let g := add_edge (add_node (add_node gempty 4 [(S "fragid", VList [VInt 1]); (S "ez_isomer_atoms", VTup [VInt 4; VInt 9])])
                              9 [(S "fragid", VList [VInt 0])]) 4 9 [(S "order", VInt 1)] in
  NoDup (node_keys g) /\ SourceTie.refs_modelled g /\
  option_map observe (match GraphOps.sort_nodes_by_attr g with Ok h => Some h | Err _ => None end)
  = Some ([(1, [(S "fragid", VList [VInt 1]); (S "ez_isomer_atoms", VList [VInt 1; VInt 0])]); (0, [(S "fragid", VList [VInt 0])])],
          [(1, 0, [(S "order", VInt 1)])]).
Proof.
  cbv zeta. split; [repeat constructor; cbn; intuition discriminate|]. split; [|vm_compute; reflexivity].
  repeat constructor; cbn; repeat constructor.
Qed.
Print Assumptions C12_sort_model_is_source.

(** ---- source tie: set_atom_names_atomistic called with a coarse graph (the resolver's call).  The 'graph' attributes of
    the coarse nodes are the store [fgs] kept beside the coarse graph.  Hypotheses: the coarse graph is not empty (an empty
    graph is falsy in Python: the source then groups by 'fragid' as if no coarse graph were given, the model names nothing)
    and its keys are distinct.  The `while` of the source is translated with a fuel (1 + the sizes of the two name sets it
    tests); SourceTie.bump_total shows it never runs out. *)
Theorem C12_names_model_is_source : forall mol meta fgs, meta <> [] -> NoDup (node_keys meta) ->
  GraphUtilsGen.gen_set_atom_names_atomistic mol meta fgs = GraphOps.set_atom_names mol meta fgs.
Proof. exact SourceTie.names_is_source. Qed.
Example C12_names_model_is_source_nonvacuous :
  let mol := add_node (add_node (add_node gempty 0 [(S "element", VStr (S "C")); (S "fragid", VList [VInt 0])])
                                1 [(S "element", VStr (S "C")); (S "fragid", VList [VInt 0; VInt 1])])
                      2 [(S "element", VStr (S "C")); (S "fragid", VList [VInt 1])] in
  let meta := add_node (add_node gempty 0 []) 1 [] in
  let fgs := [(0, add_node (add_node gempty 0 []) 1 []); (1, add_node (add_node gempty 1 []) 2 [])] in
  meta <> [] /\ NoDup (node_keys meta) /\
  match GraphOps.set_atom_names mol meta fgs with
  | Ok (m, f) => map (fun k => node_get m k (S "atomname")) [0; 1; 2] = [Some (VStr (S "C0")); Some (VStr (S "C1")); Some (VStr (S "C2"))]
                 /\ option_map (fun g => node_get g 1 (S "atomname")) (fg_get 1 f) = Some (Some (VStr (S "C1")))
  | Err _ => False
  end.
Proof. cbv zeta. split; [discriminate|]. split; [repeat constructor; cbn; intuition discriminate|vm_compute; split; reflexivity]. Qed.
Print Assumptions C12_names_model_is_source.

(** ---- source tie: set_atom_names_atomistic(molecule) WITHOUT a coarse graph (the sampler's call; the generated
    function is the source translated at meta_graph=None).  The model names element ++ str(position in the group); the
    source runs the same named/used/shared bookkeeping as with a coarse graph, which is inert here because every atom has
    ONE fragid entry and lies in one group.  Hypotheses: distinct node keys; a 'fragid' value is not a str or dict and a
    one-element value holds an int or something unhashable (SourceTie.nometa_fragid_ok: 'a', ['x'], [None], {0: 1} are
    named by the source, the model answers TypeError). *)
Theorem C12_names_nometa_model_is_source : forall mol, NoDup (node_keys mol) -> SourceTie.nometa_modelled mol ->
  GraphUtilsGen.gen_set_atom_names_atomistic_nometa mol = GraphOps.set_atom_names_nometa mol.
Proof. exact SourceTie.names_nometa_is_source. Qed.
Example C12_names_nometa_model_is_source_nonvacuous :
  let mol := add_node (add_node (add_node gempty 0 [(S "element", VStr (S "C")); (S "fragid", VList [VInt 0])])
                                1 [(S "element", VStr (S "O")); (S "fragid", VList [VInt 1])])
                      2 [(S "element", VStr (S "C")); (S "fragid", VList [VInt 0])] in
  NoDup (node_keys mol) /\ SourceTie.nometa_modelled mol /\
  match GraphOps.set_atom_names_nometa mol with
  | Ok m => map (fun k => node_get m k (S "atomname")) [0; 1; 2] = [Some (VStr (S "C0")); Some (VStr (S "O0")); Some (VStr (S "C1"))]
  | Err _ => False
  end.
Proof.
  cbv zeta. split; [repeat constructor; cbn; intuition discriminate|]. split; [|vm_compute; reflexivity].
  unfold SourceTie.nometa_modelled, SourceTie.all_na. repeat (constructor; [cbn; left; eexists; reflexivity|]). constructor.
Qed.
Print Assumptions C12_names_nometa_model_is_source.
