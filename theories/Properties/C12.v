(** Property C12 - output numbering is canonical and results depend on the input alone.
    Only statements closed by [exact]; proofs in Resolve/SortProofs.v and Resolve/VirtualProofs.v. *)
From Coq Require Import String.
From Coq Require Import List Ascii ZArith Bool Lia Sorting.Sorted Sorting.Permutation.
From CGV Require Import Base.PyBase Base.PyVal Base.NxGraph Resolve.Bonding Resolve.GraphOps Resolve.Pipeline
     Resolve.MapDefs Resolve.Witness Resolve.SortProofs Resolve.VirtualProofs.
Import ListNotations.
Open Scope Z_scope.

(** ---- sort_nodes_by_attr: mapping old key -> new key *)
(** sort_keys: the new keys are 0..n-1, given to a permutation of the old keys carrying 'fragid' *)
Theorem C12_sort_keys : forall (g : graph) (m : list (Z * Z)), sort_mapping g = Ok m ->
  map snd m = map Z.of_nat (seq 0 (length m)) /\
  Permutation (map fst m) (map fst (get_node_attributes g (S "fragid"))).
Proof. exact sort_keys. Qed.
(** sort_perm / sort_sorted: [isort] returns a permutation, strictly ascending in (fragid, old key) when the
    old keys are distinct, and it is the ONLY such list - so Python's `sorted` returns it too *)
Theorem C12_sort_perm : forall l, Permutation (isort l) l.
Proof. exact isort_perm. Qed.
Theorem C12_sort_sorted : forall g ks, sort_items g = Ok ks -> NoDup (map snd ks) ->
  StronglySorted key_lt (isort ks) /\ Permutation (isort ks) ks /\
  (forall l', Permutation l' ks -> StronglySorted key_lt l' -> l' = isort ks).
Proof. exact sort_sorted. Qed.
(** the comparison is Python's: lists lexicographically, then the old key; a strict total order *)
Theorem C12_key_total : forall a b, a <> b -> key_lt a b \/ key_lt b a.
Proof. exact key_total. Qed.
Theorem C12_key_trans : forall a b c, key_lt a b -> key_lt b c -> key_lt a c.
Proof. exact key_lt_trans. Qed.
(** block_contiguous: nodes with the same membership list occupy one interval of new keys ... *)
Theorem C12_block_contiguous : forall l, StronglySorted key_lt l ->
  forall i j k d c, (i <= j)%nat -> (j <= k)%nat -> (k < length l)%nat ->
    fst (nth i l d) = c -> fst (nth k l d) = c -> fst (nth j l d) = c.
Proof. exact block_contiguous. Qed.
(** ... and without shared atoms the intervals come in coarse-key order *)
Theorem C12_block_order : forall l, StronglySorted key_lt l ->
  forall i j d c c', (i <= j)%nat -> (j < length l)%nat -> fst (nth i l d) = [c] -> fst (nth j l d) = [c'] -> c <= c'.
Proof. exact block_order. Qed.
Example C12_sort_example : isort [([1], 5); ([0; 1], 7); ([0], 9); ([0], 2)] = [([0], 2); ([0], 9); ([0; 1], 7); ([1], 5)].
Proof. reflexivity. Qed.

(** ---- input-only dependence *)
(** frag_order_irrelevant: the order of the definitions in a fragment block with unique names is immaterial
    for every lookup, hence for the whole resolution step *)
Theorem C12_frag_order_irrelevant : forall d d', Permutation d d' -> NoDup (map fst d) -> forall name, fd_get name d = fd_get name d'.
Proof. exact frag_order_irrelevant. Qed.
Theorem C12_step_frag_order : forall legacy aa d d' prev tr,
  Permutation d d' -> NoDup (map fst d) -> resolve_step legacy aa d prev tr = resolve_step legacy aa d' prev tr.
Proof. exact resolve_step_frag_order. Qed.
(** ctor_agree: the three constructors build the same state from corresponding inputs *)
Theorem C12_ctor_agree : forall read_cgsmiles read_fragments s e0 rest mol ds laa legacy frs bs,
  find_blocks s = e0 :: rest -> read_cgsmiles e0 = Ok mol ->
  read_fragment_strings read_fragments rest laa = Ok ds ->
  find_blocks frs = rest -> forallb (fun n => ahas (S "fragname") (na n)) mol = true ->
  find_blocks bs = [e0] ->
  from_string read_cgsmiles read_fragments s laa legacy = Ok (init mol ds laa legacy) /\
  from_graph read_fragments frs mol laa legacy = Ok (init mol ds laa legacy) /\
  from_fragment_dicts read_cgsmiles bs ds laa legacy = Ok (init mol ds laa legacy).
Proof. exact ctor_agree. Qed.
Example C12_find_blocks_example :
  find_blocks (S "{[#A][#B]}.{#A=[$]CC,#B=[$]O}") = [S "{[#A][#B]}"; S "{#A=[$]CC,#B=[$]O}"].
Proof. vm_compute. reflexivity. Qed.
(** the resolver object is one-shot: a second resolve_all on it runs out of dictionaries (IndexError) *)
Theorem C12_resolve_exhausted : forall st tr, st_counter st = length (st_dicts st) -> resolve st tr = Err EIndex.
Proof. exact resolve_exhausted. Qed.

Print Assumptions C12_sort_keys.
Print Assumptions C12_sort_sorted.
Print Assumptions C12_block_contiguous.
Print Assumptions C12_block_order.
Print Assumptions C12_step_frag_order.
Print Assumptions C12_ctor_agree.
