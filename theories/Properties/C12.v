(** Property C12 - output numbering is canonical and results depend on the input alone.
    Only statements closed by [exact]; proofs in Resolve/SortProofs.v. *)
From Coq Require Import String.
From Coq Require Import List Ascii ZArith Bool Lia.
From CGV Require Import Base.PyBase Base.PyVal Base.NxGraph Resolve.Bonding Resolve.GraphOps Resolve.Pipeline
     Resolve.MapDefs Resolve.Witness.
Import ListNotations.
Open Scope Z_scope.

Example C12_sort_example : isort [([1], 5); ([0; 1], 7); ([0], 9); ([0], 2)] = [([0], 2); ([0], 9); ([0; 1], 7); ([1], 5)].
Proof. reflexivity. Qed.
Print Assumptions C12_sort_example.
