(** Property C13 — bonding descriptors are separated from fragment text exactly.
    Only statements, each closed by [exact]; proofs live in theories/Frag/.
    [strip_bonding_descriptors] is the character machine of Frag/StripImpl.v (compared with the
    implementation on every run; its constant tables are regenerated from read_fragments.py into
    Gen/FragGen.v), [strip_spec] the specification of Frag/FragText.v (DESIGN Appendix A).
    [fo] is the oracle for Python's float() on annotation values: the theorems hold for every oracle. *)
From Coq Require Import String.
From Coq Require Import List Ascii ZArith Bool.
From CGV Require Import Base.PyBase Base.PyVal Gen.FragGen Dialect.DialectImpl Frag.NDict Frag.StripImpl Frag.FragText
     Frag.StripFacts Frag.FragProofs Frag.FragTextX Frag.FragProofsX Frag.FragStages Frag.FragSmall Frag.RingProofs
     Gen.SmilesGen Frag.SmilesParse Frag.SmilesSpec Frag.SmilesProofs Frag.SmilesIndex Frag.SmilesRelabel Frag.SmilesPerm
     Frag.Template Frag.TemplateProofs Frag.TemplateFinal Frag.TemplateGraph Frag.TemplateCompose Frag.SmilesReverse Frag.SmilesPermR
     Frag.FragTextW Frag.FragProofsW Frag.SmilesReroot Frag.SmilesRewrite Frag.SmilesPermX Frag.SmilesPermG Frag.SmilesWf Frag.SmilesDescend Frag.SmilesTree Frag.SmilesTreeText Frag.SmilesDecor Frag.TemplateChiral Frag.TemplateChiralProofs.
From CGV Require Import Base.NxGraph Compose.CutModel Compose.CutSpecDefs.
Local Open Scope nat_scope.
Import ListNotations.

(** The full statement
      forall fo toks dc, wf toks dc = true ->
        strip_bonding_descriptors fo (render (decorate toks dc)) = strip_spec fo toks dc
    is NOT provable for the current code: one defect class lies inside the domain
    ([class_of] = 3 coarse_multiplier: a multiplier `|n` in a coarse fragment), refuted by a
    concrete witness below.  [excluded toks dc = false] says exactly "no multiplier token".
    (Classes 1 desc_after_symbol_ring and 2 zero_order_symbol were repaired in /repo by the
    commits f3554b8 and 0d0f450; their witnesses are positive examples now.) *)
Theorem C13_partial : forall fo toks dc, wf toks dc = true -> excluded toks dc = false ->
  strip_bonding_descriptors fo (render (decorate toks dc)) = strip_spec fo toks dc.
Proof. exact strip_correct. Qed.

(** the same on the domain extended by a bond symbol directly in front of "(" — the documented
    placement of the order of a branch edge in a coarse fragment, `[#A]=([#B])[#C]`: [wfx] is [wf] with
    "(" allowed after a bond symbol; every text of [wf] is in [wfx]; the symbol stays in the clean text *)
Theorem C13_partial_branch_symbol : forall fo toks dc, wfx toks dc = true -> excluded toks dc = false ->
  strip_bonding_descriptors fo (render (decorate toks dc)) = strip_spec fo toks dc.
Proof. exact strip_correct_x. Qed.
Theorem C13_wf_in_wfx : forall toks dc, wf toks dc = true -> wfx toks dc = true.
Proof. exact wf_wfx. Qed.
(** and on the domain extended once more by the SMILES wildcard atom `*` written without brackets ([wfw] =
    [wfx] with [tok_okx]: pysmiles' organic subset contains `*`; in the code it is one more character of the
    catch-all atom branch, counted as an atom; `[*]` is a bracket atom in every domain).  The per-run oracle
    judges on [wfw]; [FragTextX.wfx_items] is unchanged (the writer component computes with it) *)
Theorem C13_partial_wildcard : forall fo toks dc, wfw toks dc = true -> excluded toks dc = false ->
  strip_bonding_descriptors fo (render (decorate toks dc)) = strip_spec fo toks dc.
Proof. exact strip_correct_w. Qed.
Theorem C13_wfx_in_wfw : forall toks dc, wfx toks dc = true -> wfw toks dc = true.
Proof. exact wfx_wfw. Qed.
Example C13_wildcard_nonvacuous :
  wfx st_toks1 st_dc1 = false /\ wfw st_toks1 st_dc1 = true /\ excluded st_toks1 st_dc1 = false /\
  to_string (render (decorate st_toks1 st_dc1)) = "[$]C*C[$]"%string /\
  (exists a, strip_spec (fo_of_table []) st_toks1 st_dc1 = Ok (S "C*C", [(0, [S "$1"]); (2, [S "$1"])], [], a)) /\
  wfw st_toks2 st_dc2 = true /\ to_string (render (decorate st_toks2 st_dc2)) = "*[$a]C(*=[>])Cl[<x]"%string /\
  (exists a, strip_spec (fo_of_table []) st_toks2 st_dc2 = Ok (S "*C(*)Cl", [(0, [S "$a1"]); (2, [S ">2"]); (3, [S "<x1"])], [], a)).
Proof. exact wildcard_example. Qed.
Example C13_branch_symbol_nonvacuous :
  wf bx_toks bx_dc = false /\ wfx bx_toks bx_dc = true /\ excluded bx_toks bx_dc = false /\
  to_string (render (decorate bx_toks bx_dc)) = "[$][#A]=([#B]#[>])-([#C])[#D]"%string /\
  exists a, strip_spec (fo_of_table []) bx_toks bx_dc = Ok (S "[#A]=([#B])-([#C])[#D]", [(0, [S "$1"]); (1, [S ">3"])], [], a).
Proof. exact branch_symbol_example. Qed.

(** non-vacuity: [>]=C(/Cl)=1-[$a]C[NH3+]#[<]C1=[!2][$] is in the domain, outside the class, and its
    specification value is the expected one *)
Example C13_nonvacuous : wf nv_toks nv_dc = true /\ excluded nv_toks nv_dc = false /\
  strip_spec fo0 nv_toks nv_dc =
    Ok (S "C(Cl)=1C[NH3+]C1", [(0, [S ">2"; S "$a1"]); (3, [S "<3"]); (4, [S "!22"; S "$1"])],
        [(1, "/"%char); (0, "/"%char)], [(3, [(S "weight", VFlt (S "1.0"))])]).
Proof. exact nonvacuous. Qed.

(** the witnesses of the two repaired classes: C=1[$]CC1 keeps its ring digit and the descriptor
    has order 1; C.[$] gives order 0 and the clean text C *)
Example C13_fixed_desc_after_symbol_ring : wf w1_toks w1_dc = true /\ excluded w1_toks w1_dc = false /\
  strip_bonding_descriptors fo0 (render (decorate w1_toks w1_dc)) = Ok (S "C=1CC1", [(0, [S "$1"])], [], []).
Proof. exact fixed_ring. Qed.
Example C13_fixed_zero_order_symbol : wf w2_toks w2_dc = true /\ excluded w2_toks w2_dc = false /\
  strip_bonding_descriptors fo0 (render (decorate w2_toks w2_dc)) = Ok (S "C", [(0, [S "$0"])], [], []).
Proof. exact fixed_zero. Qed.

(** ':' written as the order symbol of a descriptor is order 1.5 (text "1.5") and is removed from the
    clean text, after an atom and for a leading descriptor; all six bond symbols are in the domain *)
Example C13_arom_order_symbol :
  wf w4_toks w4_dc = true /\ excluded w4_toks w4_dc = false /\ to_string (render (decorate w4_toks w4_dc)) = "C:[$a]c"%string /\
  strip_bonding_descriptors fo0 (render (decorate w4_toks w4_dc)) = Ok (S "Cc", [(0, [S "$a1.5"])], [], []) /\
  wf w5_toks w5_dc = true /\ to_string (render (decorate w5_toks w5_dc)) = "[$]:c"%string /\
  strip_bonding_descriptors fo0 (render (decorate w5_toks w5_dc)) = Ok (S "c", [(0, [S "$1.5"])], [], []).
Proof. exact arom_order. Qed.

(** refutation of the full statement *)
Theorem C13_refuted_coarse_multiplier :          (* [<][#PEO]|4[>] *)
  wf w3_toks w3_dc = true /\ class_of (decorate w3_toks w3_dc) = 3 /\
  strip_bonding_descriptors fo0 (render (decorate w3_toks w3_dc)) <> strip_spec fo0 w3_toks w3_dc.
Proof. exact refuted_mult. Qed.

(** stages: the theorem on sub-grammars (none contains a multiplier, so nothing is excluded) *)
Theorem C13_chains : forall fo toks dc, forallb stage_a toks = true -> wf toks dc = true ->
  strip_bonding_descriptors fo (render (decorate toks dc)) = strip_spec fo toks dc.
Proof. exact strip_chains. Qed.
Theorem C13_branches : forall fo toks dc, forallb stage_b toks = true -> wf toks dc = true ->
  strip_bonding_descriptors fo (render (decorate toks dc)) = strip_spec fo toks dc.
Proof. exact strip_branches. Qed.
Theorem C13_rings : forall fo toks dc, forallb stage_c toks = true -> wf toks dc = true ->
  strip_bonding_descriptors fo (render (decorate toks dc)) = strip_spec fo toks dc.
Proof. exact strip_rings. Qed.
Theorem C13_atomistic : forall fo toks dc, forallb stage_d toks = true -> wf toks dc = true ->
  strip_bonding_descriptors fo (render (decorate toks dc)) = strip_spec fo toks dc.
Proof. exact strip_atomistic. Qed.
Theorem C13_coarse : forall fo toks dc, forallb stage_e toks = true -> wf toks dc = true ->
  strip_bonding_descriptors fo (render (decorate toks dc)) = strip_spec fo toks dc.
Proof. exact strip_coarse. Qed.
Example C13_stages_nonvacuous :
  in_stage stage_a ex_a_toks ex_a_dc = true /\ in_stage stage_b ex_b_toks ex_b_dc = true /\
  in_stage stage_c ex_c_toks ex_c_dc = true /\ in_stage stage_d ex_d_toks ex_d_dc = true /\
  in_stage stage_e ex_e_toks ex_e_dc = true.
Proof. exact stages_nonvacuous. Qed.

(** bounded exhaustive (vm_compute), independent of the induction: all 813616 item lists of length
    <= 5 over a 15-item alphabet (with the order symbols = # . and :), of which 48420 are in the domain (no multiplier in the alphabet) *)
Theorem C13_small : forall items, length items <= small_bound -> (forall i, In i items -> In i small_alphabet) ->
  wf_items ZStart 0 items = true -> excluded_items items = false ->
  strip_bonding_descriptors fo0 (render items) = spec_items fo0 items.
Proof. exact strip_small. Qed.

(** the model's PeekIter is a one-character look-ahead over the rest of the text *)
Theorem C13_peekiter_next : forall it c it', pi_next it = Ok (c, it') -> pi_rest it = c :: pi_rest it'.
Proof. exact peekiter_abs_next_rest. Qed.
Theorem C13_peekiter_stop : forall it e, pi_next it = Err e -> pi_rest it = [] /\ e = EStopIter.
Proof. exact peekiter_abs_next_stop. Qed.
Theorem C13_peekiter_peek : forall it, fst (pi_peek it) = hd_error (pi_rest it) /\ pi_rest (snd (pi_peek it)) = pi_rest it.
Proof. exact peekiter_abs_peek. Qed.

(** the literal model of collect_ring_number consumes exactly the run of digits and '%' after its
    first token, returns it as partial_str and leaves the iterator at the next character (what
    mode MRing of the machine does); the rings dictionary is local and never returned *)
Theorem C13_collect_ring_number : forall it token nc rings, exists it' rings',
  collect_ring_number it token nc rings
    = Ok (it', hd_error (drop_ring (pi_rest it)), token :: take_ring (pi_rest it), rings')
  /\ pi_rest it' = drop_ring (pi_rest it).
Proof. exact collect_ring_number_spec. Qed.

(** ties to the tables generated from read_fragments.py: the documented orders, the descriptor
    kinds, and the fact about the two-letter list the proof uses *)
Theorem C13_table_orders : forall b, order_lookup (bchar b) = Some (border b).
Proof. exact order_lookup_bchar. Qed.
Theorem C13_table_kinds : forall c, is_kind c = char_in c kind_chars.
Proof. exact is_kind_kind_chars. Qed.

(** ------------------------------------------------------------------------------------------
    The clean text goes to pysmiles.  [smiles_parse] (Frag/SmilesParse.v) models the installed
    pysmiles' _tokenize + base_smiles_parser(strict=False) + parse_atom + the bond-order loop of
    read_smiles (compared with the library on every run); [graph_of ks toks] (Frag/SmilesSpec.v) is the
    token-level graph: atom i = i-th atom token, an atom bonds to the current atom (previous atom or
    the atom its branch hangs on), ring bonds from marker pairs; [ks] = slash marks kept in the text
    (false for the clean text of strip_bonding_descriptors). *)
Theorem C13_render_parse : forall ks toks, wf_smiles toks = true ->
  smiles_parse (render_smiles ks toks) = graph_of ks toks.
Proof. exact render_parse. Qed.
Theorem C13_render_parse_base : forall ks toks, wf_smiles toks = true ->
  base_smiles_parser (render_smiles ks toks) = graph_base ks toks.
Proof. exact base_parse. Qed.
(** node i of the graph is the i-th atom token (its text), and the node counter is their number *)
Theorem C13_graph_nodes : forall ks toks g g', grun ks g toks = Ok g' ->
  q_atoms g' = q_atoms g ++ flat_map (fun t => match t with TAtom _ | TBracket _ _ => [clean_tok t] | _ => [] end) toks
  /\ (q_n g = length (q_atoms g) -> q_n g' = length (q_atoms g')).
Proof. exact grun_atoms. Qed.
(** the indices strip reports are the parser's: with every key taken from the parser's state on the
    clean text ([parser_view]: descriptor -> current atom [q_cur], annotation -> node counter [q_n]),
    the dictionaries are the ones the strip machine returns, and pysmiles builds, from the clean text
    the machine returns, the graph of that same parser run *)
Theorem C13_index_agrees_with_parser : forall fo toks dc clean d e a g d' a',
  wf toks dc = true -> excluded toks dc = false -> wf_smiles toks = true ->
  strip_bonding_descriptors fo (render (decorate toks dc)) = Ok (clean, d, e, a) ->
  parser_view fo toks dc = Ok (g, d', a') ->
  d = d' /\ a = a' /\ clean = render_smiles false toks /\
  smiles_parse clean = interpret (q_atoms g, q_edges g, q_ez g).
Proof. exact index_agrees. Qed.
Example C13_index_nonvacuous :
  wf nv_toks nv_dc = true /\ excluded nv_toks nv_dc = false /\ wf_smiles nv_toks = true /\
  (exists clean d e a, strip_bonding_descriptors fo0 (render (decorate nv_toks nv_dc)) = Ok (clean, d, e, a)) /\
  (exists g d' a', parser_view fo0 nv_toks nv_dc = Ok (g, d', a') /\ q_n g = 5 /\
     d' = [(0, [S ">2"; S "$a1"]); (3, [S "<3"]); (4, [S "!22"; S "$1"])]) /\
  (exists gr, graph_of false nv_toks = Ok gr /\ length (g_nodes gr) = 5 /\ length (g_edges gr) = 5).
Proof. exact index_example. Qed.
(** ------------------------------------------------------------------------------------------
    The template fragment_iter builds (glue to Compose's [is_template]).  [fragment_template]
    (Frag/Template.v) = strip machine, then the pysmiles model on the clean text, then the attribute
    setting of read_fragment_smiles (fragname, fragid, weight; `bonding`; annotations); compared with
    the final templates of the implementation on every run (attributes except hcount / rs_isomer,
    bonds between the written atoms).  For a fragment rendered from tokens with descriptors after
    their atoms it is [template_spec]: [strip_spec]'s descriptor / annotation dictionaries placed on
    [graph_of false toks].  Not modelled: pysmiles' hydrogen completion / removal and stereo
    post-processing (they add and remove hydrogen nodes and rewrite hcount; the per-run check of
    Compose's is_templateb covers the final graph). *)
Theorem C13_template_of_render : forall fo name toks dc,
  wf toks dc = true -> excluded toks dc = false -> wf_smiles toks = true ->
  fragment_template fo name (render (decorate toks dc)) = template_spec fo name toks dc.
Proof. exact template_of_render. Qed.
(** node i of the template is node i of the token graph (= the i-th atom token, C13_graph_nodes) with
    the descriptors strip_spec reports for index i as `bonding` and its annotation; the edges are the
    token graph's *)
Theorem C13_template_nodes : forall fo name toks dc T clean d e a G,
  template_spec fo name toks dc = Ok T -> strip_spec fo toks dc = Ok (clean, d, e, a) -> graph_of false toks = Ok G ->
  length (t_nodes T) = length (g_nodes G) /\ t_edges T = g_edges G /\
  forall i base, nth_error (g_nodes G) i = Some base ->
    nth_error (t_nodes T) i = Some (template_node name base (nd_get i d) (nd_get i a)).
Proof. exact template_spec_nodes. Qed.
(** the attributes Compose's tattrs_ok reads, on a node whose annotation does not set the key *)
Theorem C13_template_node_bonding : forall name base ds ann,
  ann_lacks (S "bonding") ann -> aget (S "bonding") base = None ->
  aget (S "bonding") (template_node name base ds ann) = option_map (fun l => VList (map VStr l)) ds.
Proof. exact template_node_bonding. Qed.
Theorem C13_template_node_fragname : forall name base ds ann, ann_lacks (S "fragname") ann ->
  aget (S "fragname") (template_node name base ds ann) = Some (VStr name).
Proof. exact template_node_fragname. Qed.
Theorem C13_template_node_fragid : forall name base ds ann, ann_lacks (S "fragid") ann ->
  aget (S "fragid") (template_node name base ds ann) = Some (VInt 0).
Proof. exact template_node_fragid. Qed.
Theorem C13_template_node_base : forall name base ds ann k, ann_lacks k ann ->
  k <> S "fragname" -> k <> S "fragid" -> k <> S "weight" -> k <> S "bonding" ->
  aget k (template_node name base ds ann) = aget k base.
Proof. exact template_node_base. Qed.
Example C13_template_nonvacuous :
  wf nv_toks nv_dc = true /\ excluded nv_toks nv_dc = false /\ wf_smiles nv_toks = true /\
  exists T, fragment_template fo0 (S "X") (render (decorate nv_toks nv_dc)) = Ok T /\
    length (t_nodes T) = 5 /\
    map (aget (S "bonding")) (t_nodes T) =
      [Some (VList [VStr (S ">2"); VStr (S "$a1")]); None; None; Some (VList [VStr (S "<3")]);
       Some (VList [VStr (S "!22"); VStr (S "$1")])] /\
    map (aget (S "element")) (t_nodes T) = [Some (VStr (S "C")); Some (VStr (S "Cl")); Some (VStr (S "C")); Some (VStr (S "N")); Some (VStr (S "C"))] /\
    map (aget (S "fragname")) (t_nodes T) = repeat (Some (VStr (S "X"))) 5 /\
    t_edges T = [(0, 1, VInt 1); (0, 2, VInt 1); (2, 3, VInt 1); (3, 4, VInt 1); (4, 0, VInt 2)].
Proof. exact template_example. Qed.

(** ------------------------------------------------------------------------------------------
    The FINAL template and Compose's [is_template].  [fragment_template_final] (Frag/TemplateFinal.v)
    adds to the above what the code does afterwards, as far as is_template reads it: hcount of
    pysmiles' fill_valence (bond orders summed in half units, so aromatic atoms need no ring
    perception: cgsmiles calls read_smiles with reinterpret_aromatic=False), the hydrogens added and
    removed again, atomname, slash marks, the lone-atom path; compared with the implementation's
    final templates on every run (every attribute; rs_isomer through the extension below).  Included atom classes: all
    organic-subset atoms (aliphatic and aromatic lower case) and bracket atoms; excluded by the
    hypothesis [plain]: chirality marks (Compose's is_template demands rs_isomer = None: see the C13_template_rs theorems)
    and annotation keys that collide with fragid / fragname / bonding / ez_isomer_atoms / rs_isomer;
    excluded by the domain: `|n` and the wildcard.  [cut_agrees] ties the cut to the token-level
    reading of the part (as many atoms; written descriptors of atom i = the cut's descriptors of the
    i-th atom; the cut's payload found on the node; bonds of the token graph = the cut's bonds inside
    the part with the same orders); [part_okb] checks all hypotheses by computation. *)
Theorem C13_template_final_of_render : forall fo name toks dc,
  wf toks dc = true -> excluded toks dc = false -> wf_smiles toks = true ->
  fragment_template_final fo name (render (decorate toks dc)) = template_final_spec fo name toks dc.
Proof. exact template_final_of_render. Qed.
Theorem C13_template_is_template_partial : forall fo C name xs toks dc clean d ez ann G T0,
  wf toks dc = true -> excluded toks dc = false -> wf_smiles toks = true ->
  strip_spec fo toks dc = Ok (clean, d, ez, ann) -> graph_of false toks = Ok G -> final_assemble name G d ez ann = Ok T0 ->
  plain G ann -> cut_agrees C xs T0 d ->
  fragment_template_final fo name (render (decorate toks dc)) = Ok T0 /\ is_template C name xs (tmpl_graph T0).
Proof. exact template_is_template. Qed.
Theorem C13_template_is_template_checked : forall fo C name xs toks dc, part_okb fo C name xs toks dc = true ->
  exists T0, fragment_template_final fo name (render (decorate toks dc)) = Ok T0 /\ is_template C name xs (tmpl_graph T0).
Proof. exact template_is_template_b. Qed.
(** CHIRALITY MARKS in templates.  [fragment_template_final_rs] (Frag/TemplateChiral.v) = the model above
    followed by pysmiles' stereo post-processing as it ends up in the template: a bracket atom with a mark
    (@, @@, @TH1, ...) gets rs_isomer = the tuple of its neighbours: ring-bond partners first, in the order the
    ring bonds were closed (found in the edge list: every bond that is not the chain bond of its second atom),
    then the other bonded atoms by increasing index, its own index at position 1 when it has hydrogens, exactly
    four entries (else ValueError), the last two exchanged for @@; an annotation rs_isomer overwrites it.
    This is the model compared with fragment_iter's final templates on every run (all attributes).
    On a rendered part it is the token-level template; without a mark it is the model above (so
    is_template holds as before); with a mark the node carries [chiral_tuple], every other attribute
    and the bonds are unchanged, and the tuple consists of the bonded atoms (all of them) and, only for an
    atom with hydrogens, the atom itself.  Partial: is_template itself cannot hold for a part with a mark
    (Compose's [tattrs_ok] demands rs_isomer = None); what the resolver does with the tuple is C15's subject *)
Theorem C13_template_final_rs_of_render : forall fo name toks dc,
  wf toks dc = true -> excluded toks dc = false -> wf_smiles toks = true ->
  fragment_template_final_rs fo name (render (decorate toks dc)) = template_final_spec_rs fo name toks dc.
Proof. exact template_final_rs_of_render. Qed.
Theorem C13_template_rs_plain : forall name G d ez ann,
  (forall base, In base (g_nodes G) -> aget (S "rs_isomer") base = None) ->
  final_assemble_rs name G d ez ann = final_assemble name G d ez ann.
Proof. exact final_assemble_rs_plain. Qed.
Theorem C13_template_is_template_rs_partial : forall fo C name xs toks dc clean d ez ann G T0,
  wf toks dc = true -> excluded toks dc = false -> wf_smiles toks = true ->
  strip_spec fo toks dc = Ok (clean, d, ez, ann) -> graph_of false toks = Ok G -> final_assemble name G d ez ann = Ok T0 ->
  plain G ann -> cut_agrees C xs T0 d ->
  fragment_template_final_rs fo name (render (decorate toks dc)) = Ok T0 /\ is_template C name xs (tmpl_graph T0).
Proof. exact template_is_template_rs. Qed.
Theorem C13_template_rs_node : forall name G d ez ann T0 T i base a0,
  final_assemble name G d ez ann = Ok T0 -> final_assemble_rs name G d ez ann = Ok T ->
  nth_error (g_nodes G) i = Some base -> nth_error (t_nodes T0) i = Some a0 ->
  t_edges T = t_edges T0 /\ length (t_nodes T) = length (t_nodes T0) /\
  exists a, nth_error (t_nodes T) i = Some a /\
    (forall k, k <> S "rs_isomer" -> aget k a = aget k a0) /\
    match aget (S "rs_isomer") base with
    | None => a = a0
    | Some (VStr dir) =>
        exists h l, final_hcount (g_edges G) i base = Ok h /\ chiral_tuple (length (g_nodes G)) (g_edges G) i dir h = Ok l /\
          ((match nd_get i ann with Some an => aget (S "rs_isomer") an | None => None end) = None ->
           aget (S "rs_isomer") a = Some (tuple_val l))
    | Some _ => False
    end.
Proof. exact template_rs_node. Qed.
Theorem C13_chiral_tuple_spec : forall n E i dir h l, chiral_tuple n E i dir h = Ok l ->
  length l = 4 /\ Permutation.Permutation l (chiral_neighbours n E i h) /\
  (forall j, In j l -> (j = i /\ h <> 0%Z) \/ adjacent E i j = true) /\
  (forall j, adjacent E i j = true -> (j < n)%nat -> In j l).
Proof. exact chiral_tuple_spec. Qed.
Example C13_template_chiral_nonvacuous :
  (exists T, fragment_template_final_rs (fo_of_table []) (S "A") (S "C1C[C@@]12CC2Cl[$]") = Ok T /\
     map (aget (S "rs_isomer")) (t_nodes T) = [None; None; Some (tuple_val [0; 4; 3; 1]); None; None; None] /\
     map (aget (S "bonding")) (t_nodes T) = [None; None; None; None; None; Some (VList [VStr (S "$1")])]) /\
  (exists T, fragment_template_final_rs (fo_of_table []) (S "A") (S "F[C@H](Cl)Br") = Ok T /\
     map (aget (S "rs_isomer")) (t_nodes T) = [None; Some (tuple_val [0; 1; 2; 3]); None; None]) /\
  fragment_template_final_rs (fo_of_table []) (S "A") (S "[C@H2](F)Br") = Err EValue /\
  chiral_tuple 6 [(0, 1, VInt 1); (1, 2, VInt 1); (2, 0, VInt 1); (2, 3, VInt 1); (3, 4, VInt 1); (4, 2, VInt 1); (4, 5, VInt 1)] 2 (S "@@") 0
    = Ok [0; 4; 3; 1].
Proof. exact chiral_example. Qed.
(** the bonds of a token graph are simple (no self bond, no two bonds between the same atoms) and
    inside the node range; G.edges on the template graph lists each bond once, from its smaller end *)
Theorem C13_graph_of_simple : forall ks toks G, graph_of ks toks = Ok G ->
  simple (g_edges G) /\ (forall u v o, In (u, v, o) (g_edges G) -> (u < length (g_nodes G) /\ v < length (g_nodes G))%nat).
Proof. exact graph_of_simple. Qed.
Theorem C13_edges_data_tmpl : forall T, irrefl (t_edges T) ->
  edges_data (tmpl_graph T) = map toZ3 (elist (length (t_nodes T)) (t_edges T)).
Proof. exact edges_data_tmpl. Qed.
Example C13_template_cut_nonvacuous :
  wf_cutb ex_cut = true /\
  to_string (render (decorate ex_toks_a ex_dc_a)) = "CC(=O)[$]"%string /\ to_string (render (decorate ex_toks_b ex_dc_b)) = "[$]O"%string /\
  part_okb (fo_of_table []) ex_cut (S "A") [10; 11; 12]%Z ex_toks_a ex_dc_a = true /\
  part_okb (fo_of_table []) ex_cut (S "B") [13]%Z ex_toks_b ex_dc_b = true /\
  (exists T0, fragment_template_final (fo_of_table []) (S "A") (S "CC(=O)[$]") = Ok T0 /\
     is_templateb ex_cut (S "A") [10; 11; 12]%Z (tmpl_graph T0) = true /\
     map (aget (S "hcount")) (t_nodes T0) = [Some (VInt 3); Some (VInt 1); Some (VInt 0)]).
Proof. exact template_example_cut. Qed.

(** text level of C01, ring-digit choice: re-labelling the ring-bond markers by any map that is
    injective on the numbers (another digit, %nn for a digit) does not change the graph; partial:
    start atom and branch order are not covered here *)
Theorem C01_rendering_independent_partial : forall (f : pystr -> pystr) (rho : Z -> Z),
  (forall m, marker_val (f m) = rho (marker_val m)) -> (forall x y, rho x = rho y -> x = y) ->
  forall ks toks, graph_of ks (relabel f toks) = graph_of ks toks.
Proof. exact graph_relabel. Qed.
Theorem C01_rendering_independent_text_partial : forall (f : pystr -> pystr) (rho : Z -> Z),
  (forall m, marker_val (f m) = rho (marker_val m)) -> (forall x y, rho x = rho y -> x = y) ->
  forall ks toks, wf_smiles toks = true -> wf_smiles (relabel f toks) = true ->
  smiles_parse (render_smiles ks (relabel f toks)) = smiles_parse (render_smiles ks toks).
Proof. exact parse_relabel. Qed.
Example C01_relabel_nonvacuous :
  wf_smiles rl_toks = true /\ wf_smiles (relabel rl_f rl_toks) = true /\
  to_string (render_smiles true (relabel rl_f rl_toks)) = "C%15CC=7CC%15C7"%string /\
  (exists g, graph_of true rl_toks = Ok g /\ length (g_edges g) = 7) /\
  graph_of true (relabel rl_f rl_toks) = graph_of true rl_toks /\
  graph_of true (relabel pct_of rl_toks) = graph_of true rl_toks.
Proof. exact relabel_example. Qed.
(** text level of C01, branch order: two adjacent branches without ring-bond markers on the same atom,
    written in either order, give graphs that are equal up to the permutation [swap_sigma] that
    exchanges the two blocks of atoms ([graph_perm]: node attributes at permuted positions, the edge
    lists with orders are permutations of each other after renaming; both error or both succeed).
    [x] and [y] (what is written before and after, ring bonds included) are arbitrary; partial: the
    branches themselves contain no ring-bond marker, and the start atom is not varied *)
Theorem C01_branch_order_partial : forall x pa pb y g c,
  grun false ginit x = Ok g -> q_cur g = Some c -> q_pend g = None -> is_block pa = true -> is_block pb = true ->
  let s := swap_sigma (q_n g) (count_atoms pa) (count_atoms pb) in
  match graph_of false (x ++ pa ++ pb ++ y), graph_of false (x ++ pb ++ pa ++ y) with
  | Ok G, Ok H => exists n, graph_perm s n G H
  | Err e, Err e' => e = e'
  | _, _ => False
  end.
Proof. exact swap_branches. Qed.
Theorem C01_branch_order_text_partial : forall x pa pb y g c,
  wf_smiles (x ++ pa ++ pb ++ y) = true -> wf_smiles (x ++ pb ++ pa ++ y) = true ->
  grun false ginit x = Ok g -> q_cur g = Some c -> q_pend g = None -> is_block pa = true -> is_block pb = true ->
  let s := swap_sigma (q_n g) (count_atoms pa) (count_atoms pb) in
  match smiles_parse (render_smiles false (x ++ pa ++ pb ++ y)), smiles_parse (render_smiles false (x ++ pb ++ pa ++ y)) with
  | Ok G, Ok H => exists n, graph_perm s n G H
  | Err e, Err e' => e = e'
  | _, _ => False
  end.
Proof. exact swap_branches_text. Qed.
(** the same with ring-bond markers INSIDE the swapped branches: every ring bond a branch opens is closed
    inside it ([rings_local]) and its ring numbers are not open in the text before it ([fresh], trivial
    when no ring bond is open there); the two branches may use the same numbers *)
Theorem C01_branch_order_rings_partial : forall x pa pb y g c,
  grun false ginit x = Ok g -> q_cur g = Some c -> q_pend g = None ->
  is_rblock pa = true -> is_rblock pb = true -> rings_local pa = true -> rings_local pb = true -> fresh g pa -> fresh g pb ->
  let s := swap_sigma (q_n g) (count_atoms pa) (count_atoms pb) in
  match graph_of false (x ++ pa ++ pb ++ y), graph_of false (x ++ pb ++ pa ++ y) with
  | Ok G, Ok H => exists n, graph_perm s n G H
  | Err e, Err e' => e = e'
  | _, _ => False
  end.
Proof. exact swap_rbranches. Qed.
Theorem C01_branch_order_rings_text_partial : forall x pa pb y g c,
  wf_smiles (x ++ pa ++ pb ++ y) = true -> wf_smiles (x ++ pb ++ pa ++ y) = true ->
  grun false ginit x = Ok g -> q_cur g = Some c -> q_pend g = None ->
  is_rblock pa = true -> is_rblock pb = true -> rings_local pa = true -> rings_local pb = true -> fresh g pa -> fresh g pb ->
  let s := swap_sigma (q_n g) (count_atoms pa) (count_atoms pb) in
  match smiles_parse (render_smiles false (x ++ pa ++ pb ++ y)), smiles_parse (render_smiles false (x ++ pb ++ pa ++ y)) with
  | Ok G, Ok H => exists n, graph_perm s n G H
  | Err e, Err e' => e = e'
  | _, _ => False
  end.
Proof. exact swap_rbranches_text. Qed.
Example C01_branch_order_rings_nonvacuous :
  to_string (render_smiles false (rs_x ++ rs_pa ++ rs_pb ++ rs_y)) = "CC(c1ccccc1)(C1CC1)N"%string /\
  to_string (render_smiles false (rs_x ++ rs_pb ++ rs_pa ++ rs_y)) = "CC(C1CC1)(c1ccccc1)N"%string /\
  wf_smiles (rs_x ++ rs_pa ++ rs_pb ++ rs_y) = true /\ wf_smiles (rs_x ++ rs_pb ++ rs_pa ++ rs_y) = true /\
  is_rblock rs_pa = true /\ is_rblock rs_pb = true /\ rings_local rs_pa = true /\ rings_local rs_pb = true /\
  (exists g, grun false ginit rs_x = Ok g /\ q_cur g = Some 1 /\ q_pend g = None /\ q_open g = []) /\
  (exists G H, graph_of false (rs_x ++ rs_pa ++ rs_pb ++ rs_y) = Ok G /\ graph_of false (rs_x ++ rs_pb ++ rs_pa ++ rs_y) = Ok H /\
     length (g_nodes G) = 12 /\ length (g_edges G) = 13 /\ G <> H).
Proof. exact rswap_example. Qed.
(** a ring bond CROSSING an exchanged branch: the first branch may leave ring bonds open that are closed
    later in the text, after both branches (no [rings_local] for it); the other branch closes every ring bond
    it opens and does not use a number the first one leaves open ([avoids]).  Partial: only one of the two
    branches may leave ring bonds open, and it is the first one of the left text (the other orientation is the
    same pair of texts read from right to left: the inverse permutation, [C01_sigma_inverse]); a ring bond
    opened BEFORE the branches and closed inside one of them is not covered *)
Theorem C01_branch_order_crossing_partial : forall x pa pb y g c,
  grun false ginit x = Ok g -> q_cur g = Some c -> q_pend g = None ->
  is_rblock pa = true -> is_rblock pb = true -> rings_local pb = true -> fresh g pa -> fresh g pb -> avoids pa pb ->
  let s := swap_sigma (q_n g) (count_atoms pa) (count_atoms pb) in
  match graph_of false (x ++ pa ++ pb ++ y), graph_of false (x ++ pb ++ pa ++ y) with
  | Ok G, Ok H => exists n, graph_perm s n G H /\ sigma_ok s n
  | Err e, Err e' => e = e'
  | _, _ => False
  end.
Proof. exact xswap_branches. Qed.
Theorem C01_branch_order_crossing_text_partial : forall x pa pb y g c,
  wf_smiles (x ++ pa ++ pb ++ y) = true -> wf_smiles (x ++ pb ++ pa ++ y) = true ->
  grun false ginit x = Ok g -> q_cur g = Some c -> q_pend g = None ->
  is_rblock pa = true -> is_rblock pb = true -> rings_local pb = true -> fresh g pa -> fresh g pb -> avoids pa pb ->
  let s := swap_sigma (q_n g) (count_atoms pa) (count_atoms pb) in
  match smiles_parse (render_smiles false (x ++ pa ++ pb ++ y)), smiles_parse (render_smiles false (x ++ pb ++ pa ++ y)) with
  | Ok G, Ok H => exists n, graph_perm s n G H /\ sigma_ok s n
  | Err e, Err e' => e = e'
  | _, _ => False
  end.
Proof. exact xswap_branches_text. Qed.
Example C01_branch_order_crossing_nonvacuous :
  to_string (render_smiles false (xs_x ++ xs_pa ++ xs_pb ++ xs_y)) = "CC(C1CC)(C2CC2)N1"%string /\
  to_string (render_smiles false (xs_x ++ xs_pb ++ xs_pa ++ xs_y)) = "CC(C2CC2)(C1CC)N1"%string /\
  wf_smiles (xs_x ++ xs_pa ++ xs_pb ++ xs_y) = true /\ wf_smiles (xs_x ++ xs_pb ++ xs_pa ++ xs_y) = true /\
  is_rblock xs_pa = true /\ is_rblock xs_pb = true /\ rings_local xs_pa = false /\ rings_local xs_pb = true /\ avoids xs_pa xs_pb /\
  (exists g, grun false ginit xs_x = Ok g /\ q_cur g = Some 1 /\ q_pend g = None /\ q_open g = []) /\
  (exists G H, graph_of false (xs_x ++ xs_pa ++ xs_pb ++ xs_y) = Ok G /\ graph_of false (xs_x ++ xs_pb ++ xs_pa ++ xs_y) = Ok H /\
     length (g_nodes G) = 9 /\ length (g_edges G) = 10 /\ In (8, 2, VInt 1) (g_edges G) /\ In (8, 5, VInt 1) (g_edges H) /\ G <> H).
Proof. exact xswap_example. Qed.
(** ANY ring bonds through two exchanged branches whose ring NUMBERS are disjoint ([disj], decidable: [disjb]):
    each branch may close ring bonds opened before it, open ring bonds closed after both, or keep them inside; no
    [rings_local], [fresh] or [avoids].  (Frag/SmilesPermG.v: the ring table belongs to the local run and is compared
    by look-up, [PSimE]; a run depends on the table only at the numbers it uses, [frame_run].)  Partial: a ring bond
    FROM one of the two branches TO the other (the same number in both) is not covered *)
Theorem C01_branch_order_anyrings_partial : forall x pa pb y g c,
  grun false ginit x = Ok g -> q_cur g = Some c -> q_pend g = None ->
  is_rblock pa = true -> is_rblock pb = true -> disj pa pb ->
  let s := swap_sigma (q_n g) (count_atoms pa) (count_atoms pb) in
  match graph_of false (x ++ pa ++ pb ++ y), graph_of false (x ++ pb ++ pa ++ y) with
  | Ok G, Ok H => exists n, graph_perm s n G H /\ sigma_ok s n
  | Err e, Err e' => e = e'
  | _, _ => False
  end.
Proof. exact gswap_branches. Qed.
Theorem C01_branch_order_anyrings_text_partial : forall x pa pb y g c,
  wf_smiles (x ++ pa ++ pb ++ y) = true -> wf_smiles (x ++ pb ++ pa ++ y) = true ->
  grun false ginit x = Ok g -> q_cur g = Some c -> q_pend g = None ->
  is_rblock pa = true -> is_rblock pb = true -> disj pa pb ->
  let s := swap_sigma (q_n g) (count_atoms pa) (count_atoms pb) in
  match smiles_parse (render_smiles false (x ++ pa ++ pb ++ y)), smiles_parse (render_smiles false (x ++ pb ++ pa ++ y)) with
  | Ok G, Ok H => exists n, graph_perm s n G H /\ sigma_ok s n
  | Err e, Err e' => e = e'
  | _, _ => False
  end.
Proof. exact gswap_branches_text. Qed.
Theorem C01_disjb_sound : forall pa pb, disjb pa pb = true -> disj pa pb.
Proof. exact disjb_sound. Qed.
Example C01_branch_order_anyrings_nonvacuous :
  to_string (render_smiles false (gs_x ++ gs_pa ++ gs_pb ++ gs_y)) = "C1CCC(CC1)(C2CC)N2"%string /\
  to_string (render_smiles false (gs_x ++ gs_pb ++ gs_pa ++ gs_y)) = "C1CCC(C2CC)(CC1)N2"%string /\
  wf_smiles (gs_x ++ gs_pa ++ gs_pb ++ gs_y) = true /\ wf_smiles (gs_x ++ gs_pb ++ gs_pa ++ gs_y) = true /\
  is_rblock gs_pa = true /\ is_rblock gs_pb = true /\ rings_local gs_pa = false /\ rings_local gs_pb = false /\
  disjb gs_pa gs_pb = true /\
  (exists g, grun false ginit gs_x = Ok g /\ q_cur g = Some 3 /\ q_pend g = None /\ length (q_open g) = 1) /\
  (exists G H, graph_of false (gs_x ++ gs_pa ++ gs_pb ++ gs_y) = Ok G /\ graph_of false (gs_x ++ gs_pb ++ gs_pa ++ gs_y) = Ok H /\
     length (g_nodes G) = 10 /\ length (g_edges G) = 11 /\ In (5, 0, VInt 1) (g_edges G) /\ In (8, 0, VInt 1) (g_edges H) /\ G <> H).
Proof. exact gswap_example. Qed.
(** the general tool behind it: a state simulation under any index permutation that is the identity
    above the node counter holds along every continuation of the token list *)
Theorem C01_permutation_simulation : forall s toks g h, sigma_ok s (q_n g) -> PSim s g h ->
  match grun false g toks, grun false h toks with
  | Ok g1, Ok h1 => PSim s g1 h1 /\ sigma_ok s (q_n g1)
  | Err e, Err e' => e = e'
  | _, _ => False
  end.
Proof. exact grun_psim. Qed.
Example C01_branch_order_nonvacuous :
  to_string (render_smiles false (sw_x ++ sw_pa ++ sw_pb ++ sw_y)) = "CC(F)(C=O)N"%string /\
  to_string (render_smiles false (sw_x ++ sw_pb ++ sw_pa ++ sw_y)) = "CC(C=O)(F)N"%string /\
  wf_smiles (sw_x ++ sw_pa ++ sw_pb ++ sw_y) = true /\ wf_smiles (sw_x ++ sw_pb ++ sw_pa ++ sw_y) = true /\
  is_block sw_pa = true /\ is_block sw_pb = true /\
  (exists g, grun false ginit sw_x = Ok g /\ q_cur g = Some 1 /\ q_pend g = None /\ q_n g = 2) /\
  (exists G H, graph_of false (sw_x ++ sw_pa ++ sw_pb ++ sw_y) = Ok G /\ graph_of false (sw_x ++ sw_pb ++ sw_pa ++ sw_y) = Ok H /\
     length (g_nodes G) = 6 /\ length (g_edges G) = 5 /\ G <> H /\
     map (swap_sigma 2 1 2) [0; 1; 2; 3; 4; 5] = [0; 1; 4; 2; 3; 5]).
Proof. exact swap_example. Qed.
(** text level of C01, start atom: an unbranched fragment a0 b1 a1 … bn an (organic or bracket atoms,
    optional bond symbols; no branch, no ring marker) written from its other end denotes the same
    graph up to the reversal i -> n - i: the node list is reversed, every bond (u,v) with order o is
    the bond (n-v, n-u) with order o of the other graph, both fail alike; partial: chains only *)
Theorem C01_start_atom_chain_partial : forall c, chain_ok c = true ->
  let n := length (chain_bonds c) in
  match graph_of false (chain_toks c), graph_of false (chain_toks (rev_chain c)) with
  | Ok G, Ok H =>
      g_nodes H = rev (g_nodes G) /\ length (g_nodes G) = Datatypes.S n /\
      (forall u v o, In (u, v, o) (g_edges G) -> In (n - v, n - u, o) (g_edges H)) /\
      (forall u v o, In (u, v, o) (g_edges H) -> In (n - v, n - u, o) (g_edges G)) /\
      g_ez G = [] /\ g_ez H = []
  | Err e, Err e' => e = e'
  | _, _ => False
  end.
Proof. exact chain_reverse. Qed.
Theorem C01_start_atom_chain_text_partial : forall c, chain_ok c = true ->
  wf_smiles (chain_toks c) = true -> wf_smiles (chain_toks (rev_chain c)) = true ->
  let n := length (chain_bonds c) in
  match smiles_parse (render_smiles false (chain_toks c)), smiles_parse (render_smiles false (chain_toks (rev_chain c))) with
  | Ok G, Ok H =>
      g_nodes H = rev (g_nodes G) /\ length (g_nodes G) = Datatypes.S n /\
      (forall u v o, In (u, v, o) (g_edges G) -> In (n - v, n - u, o) (g_edges H)) /\
      (forall u v o, In (u, v, o) (g_edges H) -> In (n - v, n - u, o) (g_edges G)) /\
      g_ez G = [] /\ g_ez H = []
  | Err e, Err e' => e = e'
  | _, _ => False
  end.
Proof. exact chain_reverse_text. Qed.
Example C01_start_atom_nonvacuous :
  chain_ok rv_chain = true /\
  to_string (render_smiles false (chain_toks rv_chain)) = "C=CO[NH3+]"%string /\
  to_string (render_smiles false (chain_toks (rev_chain rv_chain))) = "[NH3+]OC=C"%string /\
  wf_smiles (chain_toks rv_chain) = true /\ wf_smiles (chain_toks (rev_chain rv_chain)) = true /\
  exists G H, graph_of false (chain_toks rv_chain) = Ok G /\ graph_of false (chain_toks (rev_chain rv_chain)) = Ok H /\
    g_edges G = [(0, 1, VInt 2); (1, 2, VInt 1); (2, 3, VInt 1)] /\ g_edges H = [(0, 1, VInt 1); (1, 2, VInt 1); (2, 3, VInt 2)].
Proof. exact reverse_example. Qed.
(** text level of C01, start atom of BRANCHED fragments: the re-rooting step along one bond.  The text
    a P [b] x R  (first atom a, its branches P = any sequence of parenthesised groups [blocksb], the optional
    bond symbol b, the next atom x, the rest R) and the text  x ( [b] a P ) R  written from the neighbour x
    denote the same graph up to the rotation [rot m] (a: 0 -> 1, the m-1 atoms of P: i -> i+1, x: m -> 0,
    atoms of R fixed), bonds taken as undirected ([graph_uperm]: node attributes at permuted positions, the
    bond lists with orders equal as multisets after renaming and ordering the two ends); both fail alike.
    P and R may contain ring-bond markers, also ring bonds from P into R.  Partial: the neighbour is the
    first atom of the tail (a neighbour inside a branch needs [C01_branch_order_partial] first) *)
Theorem C01_start_atom_reroot_partial : forall a P b x R,
  is_atomtok a = true -> is_atomtok x = true -> blocksb false 0 P = true ->
  let s := rot (Datatypes.S (count_atoms P)) in
  match graph_of false (rr_src a P b x R), graph_of false (rr_dst a P b x R) with
  | Ok G, Ok H => exists n, graph_uperm s n G H /\ sigma_ok s n
  | Err e, Err e' => e = e'
  | _, _ => False
  end.
Proof. exact reroot_step. Qed.
Theorem C01_start_atom_reroot_text_partial : forall a P b x R,
  wf_smiles (rr_src a P b x R) = true -> wf_smiles (rr_dst a P b x R) = true ->
  is_atomtok a = true -> is_atomtok x = true -> blocksb false 0 P = true ->
  let s := rot (Datatypes.S (count_atoms P)) in
  match smiles_parse (render_smiles false (rr_src a P b x R)), smiles_parse (render_smiles false (rr_dst a P b x R)) with
  | Ok G, Ok H => exists n, graph_uperm s n G H /\ sigma_ok s n
  | Err e, Err e' => e = e'
  | _, _ => False
  end.
Proof. exact reroot_step_text. Qed.
(** iterated along the main chain: [reroot_n k] performs k such steps on the token list (each step finds
    the leading groups by [take_blocks]) and returns the composed permutation; the (k+1)-th atom of the
    main chain becomes the first atom *)
Theorem C01_start_atom_path_partial : forall k w w' s, reroot_n k w = Some (w', s) ->
  graphs_rel s (graph_of false w) (graph_of false w').
Proof. exact reroot_n_sound. Qed.
(** the tools behind it: the permutation simulation for undirected bonds, along every continuation;
    related graphs compose *)
Theorem C01_permutation_simulation_undirected : forall s toks g h, sigma_ok s (q_n g) -> PSimU s g h ->
  match grun false g toks, grun false h toks with
  | Ok g1, Ok h1 => PSimU s g1 h1 /\ sigma_ok s (q_n g1)
  | Err e, Err e' => e = e'
  | _, _ => False
  end.
Proof. exact grun_psimu. Qed.
Theorem C01_graphs_rel_trans : forall s s' r1 r2 r3,
  graphs_rel s r1 r2 -> graphs_rel s' r2 r3 -> graphs_rel (sigma_comp s' s) r1 r3.
Proof. exact graphs_rel_trans. Qed.
Example C01_start_atom_reroot_nonvacuous :
  to_string (render_smiles false rr_w) = "CC(F)(C=O)N[NH3+]"%string /\ wf_smiles rr_w = true /\
  match reroot1 rr_w with
  | Some (w1, m) => m = 1 /\ to_string (render_smiles false w1) = "C(C)(F)(C=O)N[NH3+]"%string /\ wf_smiles w1 = true
  | None => False
  end /\
  match reroot_n 3 rr_w with
  | Some (w3, s) =>
      to_string (render_smiles false w3) = "[NH3+](N(C(C)(F)(C=O)))"%string /\ wf_smiles w3 = true /\
      map s [0; 1; 2; 3; 4; 5; 6] = [3; 2; 4; 5; 6; 1; 0] /\
      exists G H, graph_of false rr_w = Ok G /\ graph_of false w3 = Ok H /\ length (g_nodes G) = 7 /\
        g_edges G = [(0, 1, VInt 1); (1, 2, VInt 1); (1, 3, VInt 1); (3, 4, VInt 2); (1, 5, VInt 1); (5, 6, VInt 1)] /\
        g_edges H = [(0, 1, VInt 1); (1, 2, VInt 1); (2, 3, VInt 1); (2, 4, VInt 1); (2, 5, VInt 1); (5, 6, VInt 2)]
  | None => False
  end /\ reroot_n 4 rr_w = None.
Proof. exact reroot_example. Qed.
(** any start atom: sequences [rws] of elementary rewritings [rw1] of the token list, each at any place
    where its side conditions hold: the re-rooting step; the exchange of two adjacent branches on one atom
    (without ring-bond markers, with ring bonds closed inside, one of them leaving ring bonds open, or any ring bonds with disjoint numbers); the tail of the text written as a last
    branch `x0 T` -> `x0 (T)` and back (T never closes more than it opens).  A neighbour inside a branch is
    reached by: tail as branch, exchanges that bring the branch to the end, branch as tail, re-rooting (the
    Example).  Every sequence relates the two graphs by the composed permutation.  Partial: that every
    writing of a ring-free fragment is reachable from every other one is NOT proved (no formal notion of
    "all writings of a tree" here); a ring bond between the two exchanged branches is not covered *)
Theorem C01_start_atom_rewrite_partial : forall w w' s, rws w w' s ->
  graphs_rel s (graph_of false w) (graph_of false w').
Proof. exact rws_sound. Qed.
Theorem C01_start_atom_rewrite_text_partial : forall w w' s, wf_smiles w = true -> wf_smiles w' = true -> rws w w' s ->
  graphs_rel s (smiles_parse (render_smiles false w)) (smiles_parse (render_smiles false w')).
Proof. exact rws_sound_text. Qed.
Theorem C01_tail_as_branch : forall x0 T g c, grun false ginit x0 = Ok g -> q_cur g = Some c -> nonnegb 0 T = true ->
  graph_of false (x0 ++ TOpen :: T ++ [TClose]) = graph_of false (x0 ++ T).
Proof. exact tail_paren. Qed.
(** every permutation below n ([sigma_ok]) has an inverse below n *)
Theorem C01_sigma_inverse : forall s n, sigma_ok s n -> sigma_inv s (inv_of s n) n.
Proof. exact sigma_ok_inv. Qed.
Example C01_start_atom_rewrite_nonvacuous :
  to_string (render_smiles false rw_w0) = "C(C)(F)(C=O)N"%string /\
  to_string (render_smiles false rw_w5) = "F(C(C)(C=O)(N))"%string /\
  wf_smiles rw_w0 = true /\ wf_smiles rw_w5 = true /\
  (exists s, rws rw_w0 rw_w5 s /\ map s [0; 1; 2; 3; 4; 5] = [1; 2; 0; 3; 4; 5]) /\
  (exists G H, graph_of false rw_w0 = Ok G /\ graph_of false rw_w5 = Ok H /\
     g_edges G = [(0, 1, VInt 1); (0, 2, VInt 1); (0, 3, VInt 1); (3, 4, VInt 2); (0, 5, VInt 1)] /\
     g_edges H = [(0, 1, VInt 1); (1, 2, VInt 1); (1, 3, VInt 1); (3, 4, VInt 2); (1, 5, VInt 1)]).
Proof. exact rewrite_example. Qed.
(** well-formedness carries over: the re-rooted text and the text with two groups exchanged are in [wf_smiles] when
    the original is, so the text-level theorems need ONE well-formed writing ([wf_end] = the automaton of [wf_toks]) *)
Theorem C01_reroot_wf : forall a P b x R, is_atomtok a = true -> is_atomtok x = true -> blocksb false 0 P = true ->
  wf_smiles (rr_src a P b x R) = true -> wf_smiles (rr_dst a P b x R) = true.
Proof. exact reroot_wf. Qed.
Theorem C01_swap_wf : forall x pa pb y, groupb pa = true -> groupb pb = true ->
  wf_smiles (x ++ pa ++ pb ++ y) = true -> wf_smiles (x ++ pb ++ pa ++ y) = true.
Proof. exact swap_wf. Qed.
Theorem C01_start_atom_reroot_text : forall a P b x R,
  wf_smiles (rr_src a P b x R) = true ->
  is_atomtok a = true -> is_atomtok x = true -> blocksb false 0 P = true ->
  let s := rot (Datatypes.S (count_atoms P)) in
  wf_smiles (rr_dst a P b x R) = true /\
  match smiles_parse (render_smiles false (rr_src a P b x R)), smiles_parse (render_smiles false (rr_dst a P b x R)) with
  | Ok G, Ok H => exists n, graph_uperm s n G H /\ sigma_ok s n
  | Err e, Err e' => e = e'
  | _, _ => False
  end.
Proof. exact reroot_step_text1. Qed.
Theorem C01_branch_order_anyrings_text : forall x pa pb y g c,
  wf_smiles (x ++ pa ++ pb ++ y) = true ->
  grun false ginit x = Ok g -> q_cur g = Some c -> q_pend g = None ->
  is_rblock pa = true -> is_rblock pb = true -> disj pa pb ->
  let s := swap_sigma (q_n g) (count_atoms pa) (count_atoms pb) in
  wf_smiles (x ++ pb ++ pa ++ y) = true /\
  match smiles_parse (render_smiles false (x ++ pa ++ pb ++ y)), smiles_parse (render_smiles false (x ++ pb ++ pa ++ y)) with
  | Ok G, Ok H => exists n, graph_perm s n G H /\ sigma_ok s n
  | Err e, Err e' => e = e'
  | _, _ => False
  end.
Proof. exact gswap_branches_text1. Qed.
(** ANY start atom, computed: [descend_path path w] walks from the first atom along a path of choices ([None] = the next
    atom of the tail, [Some i] = the first atom of the i-th branch of the current first atom); for [Some i] it writes the tail
    as a last branch, exchanges branch i with its right neighbours until it is last (the general exchange: any ring bonds,
    disjoint numbers), writes it as the tail and re-roots.  Every side condition is decided by computation; whenever a text
    and a permutation are returned, the two graphs are related by that permutation (both fail alike).  Partial: that
    [descend_path] succeeds on every ring-free fragment is C01_start_atom_any_tree below; with ring bonds it returns
    [None] where a ring number is shared by two branches that would have to be exchanged *)
Theorem C01_start_atom_any_partial : forall path w w' s, descend_path path w = Some (w', s) ->
  graphs_rel s (graph_of false w) (graph_of false w').
Proof. exact descend_path_sound. Qed.
Theorem C01_start_atom_any_is_rewriting : forall path w w' s, descend_path path w = Some (w', s) ->
  exists s', rws w w' s' /\ forall k, s' k = s k.
Proof. exact descend_path_rws. Qed.
Example C01_start_atom_any_nonvacuous :
  to_string (render_smiles false ds_w) = "CC(F)(C(Cl)=O)N[NH3+]"%string /\ wf_smiles ds_w = true /\
  match descend_path [None; Some 2; Some 1] ds_w with
  | Some (w3, s) =>
      to_string (render_smiles false w3) = "Cl(C(C(C)(F)(N[NH3+]))(=O))"%string /\ wf_smiles w3 = true /\
      map s [0; 1; 2; 3; 4; 5; 6; 7] = [3; 2; 4; 1; 0; 7; 5; 6] /\
      exists G H, graph_of false ds_w = Ok G /\ graph_of false w3 = Ok H /\
        g_edges G = [(0, 1, VInt 1); (1, 2, VInt 1); (1, 3, VInt 1); (3, 4, VInt 1); (3, 5, VInt 2); (1, 6, VInt 1); (6, 7, VInt 1)] /\
        g_edges H = [(0, 1, VInt 1); (1, 2, VInt 1); (2, 3, VInt 1); (2, 4, VInt 1); (2, 5, VInt 1); (5, 6, VInt 1); (1, 7, VInt 2)]
  | None => False
  end /\ descend 3 ds_w = None.
Proof. exact descend_example. Qed.
(** TOTALITY on ring-free fragments.  The writings of a ring-free fragment ("tree texts", Frag/SmilesTree.v): a tail is
    empty or  [b] x G1 ... Gk T  (optional bond symbol, an atom, its branches, the rest), a branch is "(" U ")" with U a
    non-empty tail, a tree text is  a G1 ... Gk T.  On a tree text every choice that exists can be taken — the next atom of a
    non-empty tail ([None]), the first atom of branch i < k ([Some i]): these are exactly the neighbours of the first atom —
    and the result is a tree text again; so every path of such choices ([in_range]) succeeds, ends in a tree text, and the
    two graphs are related by the returned permutation: from the first atom every atom of the fragment is reached by walking
    the tree, one bond per step (induction over the path).  Partial: that the ATOM INDEX reached by a path is the expected
    one is not stated separately (it is the image of 0 under the inverse of the returned permutation) *)
Theorem C01_start_atom_step_total : forall st w, tree_text w -> choice_ok st w = true ->
  exists w1 s1, step_of st w = Some (w1, s1) /\ tree_text w1.
Proof. exact step_total. Qed.
Theorem C01_start_atom_any_tree : forall path w, tree_text w -> in_range path w ->
  exists w' s, descend_path path w = Some (w', s) /\ tree_text w' /\ graphs_rel s (graph_of false w) (graph_of false w').
Proof. exact descend_path_total. Qed.
Theorem C01_descend_total : forall a gs T i, is_atomtok a = true -> groups gs -> tt T -> (i < length gs)%nat ->
  exists w' s, descend i (a :: concat gs ++ T) = Some (w', s) /\ tree_text w'.
Proof. exact descend_total. Qed.
Theorem C01_reroot1_total : forall a gs T, is_atomtok a = true -> groups gs -> tt T -> T <> [] ->
  exists w' m, reroot1 (a :: concat gs ++ T) = Some (w', m) /\ tree_text w'.
Proof. exact reroot1_total. Qed.
Example C01_start_atom_tree_nonvacuous : tree_text ds_w /\ in_range [None; Some 2; Some 1] ds_w.
Proof. exact tree_example. Qed.
(** the same for the TEXTS: a tree text over admissible tokens ([all_ok]: organic-subset / bracket atoms) is in
    [wf_smiles], the rewritings keep the tokens admissible, so what pysmiles builds from the original text and from the
    text written from ANY atom of a ring-free fragment are related by the returned permutation *)
Theorem C01_tree_text_wf : forall w, tree_text w -> all_ok w = true -> wf_smiles w = true.
Proof. exact tree_text_wf. Qed.
Theorem C01_start_atom_any_tree_text : forall path w, tree_text w -> all_ok w = true -> in_range path w ->
  exists w' s, descend_path path w = Some (w', s) /\ wf_smiles w = true /\ wf_smiles w' = true /\
    graphs_rel s (smiles_parse (render_smiles false w)) (smiles_parse (render_smiles false w')).
Proof. exact descend_path_total_text. Qed.
Example C01_start_atom_tree_text_nonvacuous : tree_text ds_w /\ all_ok ds_w = true /\ in_range [None; Some 2; Some 1] ds_w.
Proof. exact tree_text_example. Qed.
(** DESCRIPTORS AND ANNOTATIONS are carried along by the re-rooting step (Frag/SmilesDecor.v).  [parser_view] is what
    strip_bonding_descriptors returns for a decorated fragment (C13_index_agrees_with_parser): descriptors keyed by the
    parser's current atom, annotations by the node counter.  Write the same descriptors after the same tokens in both
    writings (the LEADING descriptors of  a P [b] x R  are written after a in  x ( [b] a P ) R , where they are the first
    descriptors of a again): the two descriptor dictionaries and the two annotation dictionaries are related by the
    rotation — atom [rot m i] of the second writing carries exactly the descriptor list (same order) and the annotation
    dict of atom i of the first; both fail together (a bad annotation, a ring-bond error).  Along any permutation
    simulation the dictionaries follow the permutation ([xrun_psimu]); while the groups P are read one atom ahead they
    follow i -> i+1 ([xrun_rsim]) *)
Theorem C01_reroot_carries_decor : forall fo a P b x R lead aa aP ax aR,
  is_atomtok a = true -> is_atomtok x = true -> blocksb false 0 P = true -> length aP = length P ->
  let m := Datatypes.S (count_atoms P) in
  both_fail_or (fun v1 v2 => let '(g, d, an) := v1 in let '(h, d', an') := v2 in
                  drel (rot m) d d' /\ drel (rot m) an an' /\ PSimU (rot m) g h)
    (parser_view fo (rr_src a P b x R) {| d_lead := lead; d_after := src_after aa aP b ax aR |})
    (parser_view fo (rr_dst a P b x R) {| d_lead := []; d_after := dst_after lead aa aP b ax aR |}).
Proof. exact reroot_decor. Qed.
Theorem C01_reroot_carries_decor_strip : forall fo a P b x R lead aa aP ax aR c1 d1 e1 a1 c2 d2 e2 a2 g pd pa h pd' pa',
  is_atomtok a = true -> is_atomtok x = true -> blocksb false 0 P = true -> length aP = length P ->
  let src := rr_src a P b x R in let dst := rr_dst a P b x R in
  let sdc := {| d_lead := lead; d_after := src_after aa aP b ax aR |} in
  let ddc := {| d_lead := []; d_after := dst_after lead aa aP b ax aR |} in
  wf src sdc = true -> excluded src sdc = false -> wf_smiles src = true ->
  wf dst ddc = true -> excluded dst ddc = false -> wf_smiles dst = true ->
  strip_bonding_descriptors fo (render (decorate src sdc)) = Ok (c1, d1, e1, a1) ->
  strip_bonding_descriptors fo (render (decorate dst ddc)) = Ok (c2, d2, e2, a2) ->
  parser_view fo src sdc = Ok (g, pd, pa) -> parser_view fo dst ddc = Ok (h, pd', pa') ->
  drel (rot (Datatypes.S (count_atoms P))) d1 d2 /\ drel (rot (Datatypes.S (count_atoms P))) a1 a2.
Proof. exact reroot_decor_strip. Qed.
Theorem C01_permutation_carries_decor : forall s fo toks after g h d d' a a', sigma_ok s (q_n g) -> XS s g h d d' a a' ->
  xrel s (xrun fo g d a toks after) (xrun fo h d' a' toks after).
Proof. exact xrun_psimu. Qed.
Example C01_reroot_carries_decor_nonvacuous :
  to_string (render (decorate (rr_src dx_a dx_P None dx_x dx_R) dx_src)) = "[$]C(F[>])[!1][CH;x=S][<]O[$a]"%string /\
  to_string (render (decorate (rr_dst dx_a dx_P None dx_x dx_R) dx_dst)) = "[CH;x=S][<](C[$](F[>])[!1])O[$a]"%string /\
  wf (rr_src dx_a dx_P None dx_x dx_R) dx_src = true /\ wf (rr_dst dx_a dx_P None dx_x dx_R) dx_dst = true /\
  (exists g d an, parser_view (fo_of_table []) (rr_src dx_a dx_P None dx_x dx_R) dx_src = Ok (g, d, an) /\
     d = [(0, [S "$1"; S "!11"]); (1, [S ">1"]); (2, [S "<1"]); (3, [S "$a1"])] /\ map fst an = [2]) /\
  (exists h d' an', parser_view (fo_of_table []) (rr_dst dx_a dx_P None dx_x dx_R) dx_dst = Ok (h, d', an') /\
     d' = [(0, [S "<1"]); (1, [S "$1"; S "!11"]); (2, [S ">1"]); (3, [S "$a1"])] /\ map fst an' = [0]) /\
  map (rot 2) [0; 1; 2; 3] = [1; 2; 0; 3].
Proof. exact decor_example. Qed.
(** the documented bond orders are the ones of the installed pysmiles *)
Theorem C13_smiles_orders : forall b, smiles_bond_to_order_lookup [bchar b] = Ok (border b).
Proof. exact smiles_order_bchar. Qed.

Print Assumptions C13_partial.
Print Assumptions C13_partial_branch_symbol.
Print Assumptions C13_refuted_coarse_multiplier.
Print Assumptions C13_chains.
Print Assumptions C13_branches.
Print Assumptions C13_rings.
Print Assumptions C13_atomistic.
Print Assumptions C13_coarse.
Print Assumptions C13_small.
Print Assumptions C13_peekiter_peek.
Print Assumptions C13_collect_ring_number.
Print Assumptions C13_render_parse.
Print Assumptions C13_index_agrees_with_parser.
Print Assumptions C01_rendering_independent_partial.
Print Assumptions C01_rendering_independent_text_partial.
Print Assumptions C01_branch_order_partial.
Print Assumptions C01_branch_order_text_partial.
Print Assumptions C13_template_of_render.
Print Assumptions C13_template_nodes.
Print Assumptions C13_template_final_of_render.
Print Assumptions C13_template_is_template_partial.
Print Assumptions C13_template_is_template_checked.
Print Assumptions C01_start_atom_chain_partial.
Print Assumptions C01_branch_order_rings_partial.
Print Assumptions C01_start_atom_reroot_partial.
Print Assumptions C01_start_atom_reroot_text_partial.
Print Assumptions C01_start_atom_path_partial.
Print Assumptions C01_start_atom_rewrite_partial.
Print Assumptions C01_start_atom_rewrite_text_partial.
Print Assumptions C01_branch_order_crossing_partial.
Print Assumptions C01_branch_order_crossing_text_partial.
Print Assumptions C13_template_final_rs_of_render.
Print Assumptions C13_template_is_template_rs_partial.
Print Assumptions C13_template_rs_node.
Print Assumptions C13_chiral_tuple_spec.
Print Assumptions C13_partial_wildcard.
Print Assumptions C01_branch_order_anyrings_partial.
Print Assumptions C01_branch_order_anyrings_text_partial.
Print Assumptions C01_start_atom_reroot_text.
Print Assumptions C01_branch_order_anyrings_text.
Print Assumptions C01_start_atom_any_partial.
Print Assumptions C01_start_atom_any_tree.
Print Assumptions C01_start_atom_any_tree_text.
Print Assumptions C01_reroot_carries_decor.
Print Assumptions C01_reroot_carries_decor_strip.
