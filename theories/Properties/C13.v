(** Property C13 — bonding descriptors are separated from fragment text exactly.
    Only statements, each closed by [exact]; proofs live in theories/Frag/.
    [strip_bonding_descriptors] is the character machine of Frag/StripImpl.v (compared with the
    implementation on every run), [strip_spec] the specification of Frag/FragText.v. *)
From Coq Require Import String.
From Coq Require Import List Ascii ZArith Bool.
From CGV Require Import Base.PyBase Base.PyVal Dialect.DialectImpl Frag.NDict Frag.StripImpl Frag.FragText Frag.StripFacts.
Import ListNotations.

(** The full statement
      forall fo toks dc, wf toks dc = true ->
        strip_bonding_descriptors fo (render (decorate toks dc)) = strip_spec fo toks dc
    is NOT provable for the current code: three defect classes inside the domain. *)
Theorem C13_refuted_desc_after_symbol_ring :
  wf w1_toks w1_dc = true /\ class_of (decorate w1_toks w1_dc) = 1 /\
  strip_bonding_descriptors fo0 (render (decorate w1_toks w1_dc)) <> strip_spec fo0 w1_toks w1_dc.
Proof. exact refuted_ring. Qed.
Theorem C13_refuted_zero_order_symbol :
  wf w2_toks w2_dc = true /\ class_of (decorate w2_toks w2_dc) = 2 /\
  strip_bonding_descriptors fo0 (render (decorate w2_toks w2_dc)) <> strip_spec fo0 w2_toks w2_dc.
Proof. exact refuted_zero. Qed.
Theorem C13_refuted_coarse_multiplier :
  wf w3_toks w3_dc = true /\ class_of (decorate w3_toks w3_dc) = 3 /\
  strip_bonding_descriptors fo0 (render (decorate w3_toks w3_dc)) <> strip_spec fo0 w3_toks w3_dc.
Proof. exact refuted_mult. Qed.

Print Assumptions C13_refuted_desc_after_symbol_ring.
Print Assumptions C13_refuted_zero_order_symbol.
Print Assumptions C13_refuted_coarse_multiplier.
