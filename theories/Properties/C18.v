(** Property C18 — the RDKit bridge keeps chemistry and puts coordinates on the right atoms.
    ONLY statements, each closed by [exact]; proofs in Geom/IndexMapProofs.v, ForwardMapProofs.v, CoordProofs.v.

    The code PROVED ABOUT is the repaired one (/repo commits 1640fc8 rdkit_to_networkx, ad63fe5 embed write-back by
    node, 7b0d95e forward_map /sum(weights)); the shapes are re-read from the source on every run (Gen/GeomGen.v:
    [embed_write_mode] = WriteByNodeKey, [fm_avg_mode] = DivBySum, [r2n_pos_arg_bound] = true) and the headline
    theorems [C18_embed], [C18_forward_map], [C18_conformer] are stated for exactly those shapes, UNCONDITIONALLY:
      (a) for every duplicate-free node list (any numbering, any iteration order) every node receives the position of
          its own RDKit atom;
      (b) every bead is translation-equivariant (weights not summing to zero) and depends only on its own atoms;
      (c) rdkit_to_networkx with a conformer puts the position of atom i on node i and raises nothing.
    The status theorems ([C18_embed_status] ...) are proved for EVERY value of the generated facts, so if the source
    returns to a former shape the matching (partial + refuted) statement is selected and the headline theorems stop
    compiling (broken obligation).  Kept as theorems about the former shapes: enumeration-index write-back correct IFF
    the node list is [0..n-1] in order; /len equivariant IFF the weights sum to their number.

    Claimed as PARTIAL only because RDKit is third party:
    NOT proved  (validated by execution only, tools/props/c18.py): element / charge / bond order / hydrogen
                count through RDKit's C++, bonding distances after RDKit's embedding, numpy's float64 arithmetic. *)
From Coq Require Import String.
From Coq Require Import List Ascii ZArith Bool QArith PrimFloat.
From CGV Require Import Base.PyBase Geom.Num Gen.GeomGen Geom.IndexMap Geom.ForwardMap Geom.CoordDefs
     Geom.IndexMapProofs Geom.ForwardMapProofs Geom.CoordProofs.
From CGV Require Import Base.PyVal Base.NxGraph Resolve.GraphOps Resolve.MapProofs Resolve.CopyProofs Resolve.PipelineFull
     Resolve.FragidProofs Gen.HydroGen Hydro.Hydrogens Hydro.HydroDefs Hydro.RebuildProofs Geom.BeadTie.
From CGV Require Import Geom.PySum Geom.PySumProofs.
Import ListNotations.

(** ---------- HEADLINE: the repaired code (the generated facts must have the repaired values for these to compile) *)
Theorem C18_embed : forall nodes nrd, NoDup nodes -> (length nodes <= nrd)%nat ->
  exists m, embed_model embed_write_mode nodes nrd = Ok m /\ on_own_atoms nodes m.
Proof. exact coords_on_own_atom_nodekey. Qed.
Theorem C18_forward_map : forall ws, ~ sum_weights numQ ws == 0 -> equivariant fm_avg_mode ws.
Proof. exact forward_map_translation_sum. Qed.
Theorem C18_conformer : forall has_conf natoms,
  r2n_positions r2n_pos_arg_bound has_conf natoms
  = Ok (if has_conf then map (fun i => (Z.of_nat i, i)) (seq 0 natoms) else []).
Proof. exact r2n_bound_positions. Qed.

(** node_to_idx is the enumeration of the node list: RDKit atom i <-> i-th node *)
Theorem C18_node_to_idx_enumerates : forall nodes k i, NoDup nodes ->
  (own_atom nodes k = Some i <-> nth_error nodes i = Some k).
Proof. exact own_atom_spec. Qed.

(** enumeration-index write-back: every key receives the position of its own atom IFF the node list is
    [0..n-1] in that order (and AddHs added no atom) *)
Theorem C18_coords_on_own_atom_enum : forall nodes nrd, NoDup nodes ->
  ((exists m, embed_model WriteByEnumIndex nodes nrd = Ok m /\ on_own_atoms nodes m)
   <-> (nodes = iota (length nodes) /\ nrd = length nodes)).
Proof. exact coords_on_own_atom_enum. Qed.

(** node-key write-back: unconditional *)
Theorem C18_coords_on_own_atom_nodekey : forall nodes nrd, NoDup nodes -> (length nodes <= nrd)%nat ->
  exists m, embed_model WriteByNodeKey nodes nrd = Ok m /\ on_own_atoms nodes m.
Proof. exact coords_on_own_atom_nodekey. Qed.

(** the embedding clause for the code as generated NOW (partial + refuted, or full after the repair) *)
Theorem C18_embed_status : embed_status embed_write_mode.
Proof. exact (embed_status_all embed_write_mode). Qed.

(** the denominator `sum(weights.values())` as CPython >= 3.12 computes it (Geom/PySum.v: ints exactly, floats with Neumaier's
    compensation; the float64 instance of this model is what the per-run comparison executes, bit for bit): over the
    rationals it IS the sum of the weights, whatever the comparisons of the compensated step decide, so the bead computed
    with it is the bead of the model above and translates with the atoms *)
Theorem C18_python_sum_is_sum : forall (c : cmpops Q) mode (ws : list (Z * (Q * bool))),
  (denom_py numQ c mode ws == denom numQ mode (strip ws))%Q.
Proof. exact denom_py_Q. Qed.
Theorem C18_forward_map_python_sum : forall (c : cmpops Q) (ws : list (Z * (Q * bool))),
  ~ (sum_weights numQ (strip ws) == 0)%Q ->
  forall pos t, veq (beadT_py c DivBySum (shift t pos) ws) (v3add numQ (beadT_py c DivBySum pos ws) t).
Proof. exact forward_map_py_translation. Qed.
Example C18_nonvacuous_python_sum :
  ~ (sum_weights numQ (strip [(0%Z, (1#2, false)); (1%Z, (2, true))]) == 0)%Q /\
  py_sum numF cmpF [(0x1.999999999999ap-4, false); (0x1.999999999999ap-3, false); (0x1.3333333333333p-2, false)]%float
  = 0x1.3333333333333p-1%float /\
  sum_weights numF [(0%Z, 0x1.999999999999ap-4); (1%Z, 0x1.999999999999ap-3); (2%Z, 0x1.3333333333333p-2)]%float
  = 0x1.3333333333334p-1%float.
Proof. exact py_sum_nonvacuous. Qed.

(** forward_map_molecule, /len(weights): translation-equivariant IFF the weights sum to their number *)
Theorem C18_forward_map_translation_len : forall ws, ws <> [] ->
  (equivariant DivByLen ws <-> sum_weights numQ ws == inject_Z (Z.of_nat (length ws))).
Proof. exact forward_map_translation_len. Qed.
(** /sum(weights): unconditional *)
Theorem C18_forward_map_translation_sum : forall ws, ~ sum_weights numQ ws == 0 -> equivariant DivBySum ws.
Proof. exact forward_map_translation_sum. Qed.
Theorem C18_forward_map_status : fwd_status fm_avg_mode.
Proof. exact (fwd_status_all fm_avg_mode). Qed.

(** each bead depends only on the positions of its own atoms (any carrier, either denominator) *)
Theorem C18_bead_uses_own_atoms : forall {M} (o : numops M) mode (pos pos' : Z -> res (@vec3 M)) ws,
  (forall a, In a (map fst ws) -> pos a = pos' a) -> bead o mode pos ws = bead o mode pos' ws.
Proof. exact @bead_uses_own_atoms. Qed.

(** ---------- the beads of the graphs the RESOLVER returns (over the C02 / C09 models, imported unchanged).
    forward_map_molecule's weights dict for coarse node k is [graph_weights wq g], g = the `graph` attribute of k;
    [wq] is any numeric reading of a weight value. *)
(** every atom entering bead k records k in its fragid (any coarse / fine graph pair) *)
Theorem C18_bead_atoms_record_bead : forall {M} (wq : pyval -> M) meta mol fgs k g,
  annotate_fragments meta mol = Ok fgs -> In (k, g) fgs ->
  forall a, In a (map fst (graph_weights wq g)) -> records mol a k.
Proof. exact @bead_atoms_record_bead. Qed.
(** for the coarse graphs returned by a whole resolve step: the bead of k depends only on the positions of the
    atoms that record k (hypotheses kept: well-formed fragment dictionary, C02's wf_dict / wf_attrs) *)
Theorem C18_bead_of_resolved_own_atoms : forall {M} (o : numops M) (wq : pyval -> M) legacy aa fd prev car fo k g mode
    (pos pos' : Z -> res (@vec3 M)),
  wf_dict fd -> wf_attrs fd -> resolve_step_full legacy aa fd prev car = Ok fo -> In (k, g) (fo_fgs fo) ->
  (forall a, records (fo_m6 fo) a k -> pos a = pos' a) ->
  bead o mode pos (graph_weights wq g) = bead o mode pos' (graph_weights wq g).
Proof. exact @bead_of_resolved_own_atoms. Qed.
(** ... and is translation-equivariant (over Q; weights not summing to zero) *)
Theorem C18_bead_of_resolved_translation : forall (wq : pyval -> Q) legacy aa fd prev car fo k g,
  wf_dict fd -> wf_attrs fd -> resolve_step_full legacy aa fd prev car = Ok fo -> In (k, g) (fo_fgs fo) ->
  ~ sum_weights numQ (graph_weights wq g) == 0 -> equivariant DivBySum (graph_weights wq g).
Proof. exact bead_of_resolved_translation. Qed.
(** the weight a fragment graph shows for an atom is the molecule's (attribute dicts without duplicate keys) *)
Theorem C18_fragment_weight_is_molecule_weight : forall meta mol fgs k g, attrs_nodup mol ->
  annotate_fragments meta mol = Ok fgs -> In (k, g) fgs ->
  forall a, In a (node_keys g) -> node_get g a (S "weight") = node_get mol a (S "weight").
Proof. exact fragment_weight_is_molecule_weight. Qed.
(** C09: the hydrogens rebuild_h_atoms adds to a non-hydrogen atom carry that atom's weight *)
Theorem C18_added_hydrogens_inherit_weight : forall ca g1 g',
  NoDup (node_keys g1) -> closed_g g1 -> noself_g g1 -> (forall i n, gfind i g1 = Some n -> no_rs n) ->
  rebuild_after_car false ca g1 = Ok g' -> str_in (S "weight") ca = true ->
  forall k n, gfind k g1 = Some n -> is_H (na n) = false ->
    exists idxs n', gfind k g' = Some n' /\ nadj n' = nadj n ++ map (fun j => (j, h_edge_attrs)) idxs /\
      aget (S "weight") (na n') = aget (S "weight") (na n) /\
      forall j, In j idxs -> exists h, gfind j g' = Some h /\ nadj h = [(k, h_edge_attrs)] /\ is_H (na h) = true /\
                                       aget (S "weight") (na h) = Some (getd (S "weight") (na n') VNone).
Proof. exact added_hydrogens_inherit_weight. Qed.
Example C18_weight_is_copied : str_in (S "weight") rebuild_copy_attrs_default = true.
Proof. exact weight_in_default_copy_attrs. Qed.
(* non-vacuity: a two-bead molecule with a shared atom; bead 1 sees atoms 1,2 with the molecule's weights *)
Example C18_nonvacuous_tie :
  let mk f w := [(S "fragid", VList f); (S "weight", w)] in
  let mol := [ {| nk := 0; na := mk [VInt 0] (VInt 1); nadj := [(1, [])] |};
               {| nk := 1; na := mk [VInt 0; VInt 1] (VFlt (S "0.5")); nadj := [(0, []); (2, [])] |};
               {| nk := 2; na := mk [VInt 1] (VInt 2); nadj := [(1, [])] |} ]%Z in
  let meta := [ {| nk := 0; na := []; nadj := [] |}; {| nk := 1; na := []; nadj := [] |} ]%Z in
  attrs_nodup mol /\
  exists g0 g1, annotate_fragments meta mol = Ok [(0, g0); (1, g1)]%Z /\
    map fst (graph_weights (fun v => v) g1) = [1; 2]%Z /\ node_get g1 1%Z (S "weight") = Some (VFlt (S "0.5")).
Proof.
  cbn zeta. split.
  - intros n [<-|[<-|[<-|[]]]]; cbn; repeat (constructor; [cbn; intuition discriminate|]); constructor.
  - eexists. eexists. split; [vm_compute; reflexivity|]. split; vm_compute; reflexivity.
Qed.

(** rdkit_to_networkx and conformers *)
Theorem C18_conformer_status : r2n_status r2n_pos_arg_bound.
Proof. exact (r2n_status_all r2n_pos_arg_bound). Qed.

(** ---------- non-vacuity *)
(* a node list outside the defect class, one inside it (the resolved molecule {[#A][#B]}.{#A=[$]CO,#B=[$]CC}) *)
Example C18_nonvacuous_nodes :
  NoDup [0; 1; 2]%Z /\ cls_index_not_key [0; 1; 2]%Z = false /\
  NoDup witness_nodes /\ cls_index_not_key witness_nodes = true /\
  embed_model WriteByEnumIndex witness_nodes 12 = Ok (map (fun k => (k, Z.to_nat k)) witness_nodes) /\
  own_atom witness_nodes 5%Z = Some 2%nat /\
  (exists m, embed_model WriteByNodeKey witness_nodes 12 = Ok m /\ on_own_atoms_b witness_nodes m = true).
Proof.
  split; [repeat (constructor; [cbn; intuition discriminate|]); constructor|]. split; [reflexivity|].
  split; [unfold witness_nodes; repeat (constructor; [cbn; intuition discriminate|]); constructor|].
  split; [reflexivity|]. split; [reflexivity|]. split; [reflexivity|]. eexists. split; vm_compute; reflexivity.
Qed.
(* non-unit weights whose sum equals their number: equivariant although the class "some weight <> 1" contains them *)
Example C18_nonvacuous_weights :
  let ws := [(0%Z, 1 # 2); (1%Z, 3 # 2)] in ws <> [] /\ equivariant DivByLen ws /\
  veq (beadT DivByLen (fun k => (inject_Z k, 1%Q, 0%Q)) ws) (3 # 4, 1%Q, 0%Q).
Proof.
  cbn zeta. split; [discriminate|]. split.
  - apply forward_map_translation_len; [discriminate|]. vm_compute. reflexivity.
  - vm_compute. repeat split.
Qed.

Print Assumptions C18_embed.
Print Assumptions C18_forward_map.
Print Assumptions C18_conformer.
Print Assumptions C18_node_to_idx_enumerates.
Print Assumptions C18_coords_on_own_atom_enum.
Print Assumptions C18_coords_on_own_atom_nodekey.
Print Assumptions C18_embed_status.
Print Assumptions C18_forward_map_translation_len.
Print Assumptions C18_python_sum_is_sum.
Print Assumptions C18_forward_map_python_sum.
Print Assumptions C18_forward_map_translation_sum.
Print Assumptions C18_forward_map_status.
Print Assumptions C18_bead_uses_own_atoms.
Print Assumptions C18_conformer_status.
Print Assumptions C18_bead_atoms_record_bead.
Print Assumptions C18_bead_of_resolved_own_atoms.
Print Assumptions C18_bead_of_resolved_translation.
Print Assumptions C18_fragment_weight_is_molecule_weight.
Print Assumptions C18_added_hydrogens_inherit_weight.
