(** Property C18 — the RDKit bridge keeps chemistry and puts coordinates on the right atoms.
    ONLY statements, each closed by [exact]; proofs in Geom/IndexMapProofs.v, ForwardMapProofs.v, CoordProofs.v.

    The code PROVED ABOUT is the repaired one (/repo commits 1640fc8 rdkit_to_networkx, ad63fe5 embed write-back by
    node, 7b0d95e forward_map /sum(weights)); the shapes are re-read from the source on every run (Gen/GeomGen.v:
    [embed_write_mode] = WriteByNodeKey, [fm_avg_mode] = DivBySum, [r2n_pos_arg_bound] = true) and the headline
    theorems [C18_embed], [C18_forward_map], [C18_conformer] are stated for exactly those shapes, UNCONDITIONALLY:
      (a) for every duplicate-free node list (any numbering, any iteration order) every node receives the position of
          its own RDKit atom;
      (b) every bead is translation-equivariant (weights not summing to zero) and depends only on its own atoms;
      (c) rdkit_to_networkx with a conformer puts the position of atom i on node i and raises nothing.
    The status theorems ([C18_embed_status] ...) are proved for EVERY value of the generated facts, so if the source
    returns to a former shape the matching (partial + refuted) statement is selected and the headline theorems stop
    compiling (broken obligation).  Kept as theorems about the former shapes: enumeration-index write-back correct IFF
    the node list is [0..n-1] in order; /len equivariant IFF the weights sum to their number.

    Claimed as PARTIAL only because RDKit is third party:
    NOT proved  (validated by execution only, tools/props/c18.py): element / charge / bond order / hydrogen
                count through RDKit's C++, bonding distances after RDKit's embedding, numpy's float64 arithmetic. *)
From Coq Require Import List ZArith Bool QArith.
From CGV Require Import Base.PyBase Geom.Num Gen.GeomGen Geom.IndexMap Geom.ForwardMap Geom.CoordDefs
     Geom.IndexMapProofs Geom.ForwardMapProofs Geom.CoordProofs.
Import ListNotations.

(** ---------- HEADLINE: the repaired code (the generated facts must have the repaired values for these to compile) *)
Theorem C18_embed : forall nodes nrd, NoDup nodes -> (length nodes <= nrd)%nat ->
  exists m, embed_model embed_write_mode nodes nrd = Ok m /\ on_own_atoms nodes m.
Proof. exact coords_on_own_atom_nodekey. Qed.
Theorem C18_forward_map : forall ws, ~ sum_weights numQ ws == 0 -> equivariant fm_avg_mode ws.
Proof. exact forward_map_translation_sum. Qed.
Theorem C18_conformer : forall has_conf natoms,
  r2n_positions r2n_pos_arg_bound has_conf natoms
  = Ok (if has_conf then map (fun i => (Z.of_nat i, i)) (seq 0 natoms) else []).
Proof. exact r2n_bound_positions. Qed.

(** node_to_idx is the enumeration of the node list: RDKit atom i <-> i-th node *)
Theorem C18_node_to_idx_enumerates : forall nodes k i, NoDup nodes ->
  (own_atom nodes k = Some i <-> nth_error nodes i = Some k).
Proof. exact own_atom_spec. Qed.

(** enumeration-index write-back: every key receives the position of its own atom IFF the node list is
    [0..n-1] in that order (and AddHs added no atom) *)
Theorem C18_coords_on_own_atom_enum : forall nodes nrd, NoDup nodes ->
  ((exists m, embed_model WriteByEnumIndex nodes nrd = Ok m /\ on_own_atoms nodes m)
   <-> (nodes = iota (length nodes) /\ nrd = length nodes)).
Proof. exact coords_on_own_atom_enum. Qed.

(** node-key write-back: unconditional *)
Theorem C18_coords_on_own_atom_nodekey : forall nodes nrd, NoDup nodes -> (length nodes <= nrd)%nat ->
  exists m, embed_model WriteByNodeKey nodes nrd = Ok m /\ on_own_atoms nodes m.
Proof. exact coords_on_own_atom_nodekey. Qed.

(** the embedding clause for the code as generated NOW (partial + refuted, or full after the repair) *)
Theorem C18_embed_status : embed_status embed_write_mode.
Proof. exact (embed_status_all embed_write_mode). Qed.

(** forward_map_molecule, /len(weights): translation-equivariant IFF the weights sum to their number *)
Theorem C18_forward_map_translation_len : forall ws, ws <> [] ->
  (equivariant DivByLen ws <-> sum_weights numQ ws == inject_Z (Z.of_nat (length ws))).
Proof. exact forward_map_translation_len. Qed.
(** /sum(weights): unconditional *)
Theorem C18_forward_map_translation_sum : forall ws, ~ sum_weights numQ ws == 0 -> equivariant DivBySum ws.
Proof. exact forward_map_translation_sum. Qed.
Theorem C18_forward_map_status : fwd_status fm_avg_mode.
Proof. exact (fwd_status_all fm_avg_mode). Qed.

(** each bead depends only on the positions of its own atoms (any carrier, either denominator) *)
Theorem C18_bead_uses_own_atoms : forall {M} (o : numops M) mode (pos pos' : Z -> res (@vec3 M)) ws,
  (forall a, In a (map fst ws) -> pos a = pos' a) -> bead o mode pos ws = bead o mode pos' ws.
Proof. exact @bead_uses_own_atoms. Qed.

(** rdkit_to_networkx and conformers *)
Theorem C18_conformer_status : r2n_status r2n_pos_arg_bound.
Proof. exact (r2n_status_all r2n_pos_arg_bound). Qed.

(** ---------- non-vacuity *)
(* a node list outside the defect class, one inside it (the resolved molecule {[#A][#B]}.{#A=[$]CO,#B=[$]CC}) *)
Example C18_nonvacuous_nodes :
  NoDup [0; 1; 2]%Z /\ cls_index_not_key [0; 1; 2]%Z = false /\
  NoDup witness_nodes /\ cls_index_not_key witness_nodes = true /\
  embed_model WriteByEnumIndex witness_nodes 12 = Ok (map (fun k => (k, Z.to_nat k)) witness_nodes) /\
  own_atom witness_nodes 5%Z = Some 2%nat /\
  (exists m, embed_model WriteByNodeKey witness_nodes 12 = Ok m /\ on_own_atoms_b witness_nodes m = true).
Proof.
  split; [repeat (constructor; [cbn; intuition discriminate|]); constructor|]. split; [reflexivity|].
  split; [unfold witness_nodes; repeat (constructor; [cbn; intuition discriminate|]); constructor|].
  split; [reflexivity|]. split; [reflexivity|]. split; [reflexivity|]. eexists. split; vm_compute; reflexivity.
Qed.
(* non-unit weights whose sum equals their number: equivariant although the class "some weight <> 1" contains them *)
Example C18_nonvacuous_weights :
  let ws := [(0%Z, 1 # 2); (1%Z, 3 # 2)] in ws <> [] /\ equivariant DivByLen ws /\
  veq (beadT DivByLen (fun k => (inject_Z k, 1, 0)) ws) (3 # 4, 1, 0).
Proof.
  cbn zeta. split; [discriminate|]. split.
  - apply forward_map_translation_len; [discriminate|]. vm_compute. reflexivity.
  - vm_compute. repeat split.
Qed.

Print Assumptions C18_embed.
Print Assumptions C18_forward_map.
Print Assumptions C18_conformer.
Print Assumptions C18_node_to_idx_enumerates.
Print Assumptions C18_coords_on_own_atom_enum.
Print Assumptions C18_coords_on_own_atom_nodekey.
Print Assumptions C18_embed_status.
Print Assumptions C18_forward_map_translation_len.
Print Assumptions C18_forward_map_translation_sum.
Print Assumptions C18_forward_map_status.
Print Assumptions C18_bead_uses_own_atoms.
Print Assumptions C18_conformer_status.
