(** Property C18 (statements only; proofs in Geom/*Proofs.v) -- placeholder while the proofs are written. *)
From Coq Require Import List ZArith Bool.
From CGV Require Import Base.PyBase Geom.IndexMap Geom.CoordDefs.
Import ListNotations.

Theorem C18_node_to_idx_length : forall nodes, length (node_to_idx nodes) = length nodes.
Proof. intros. unfold node_to_idx. rewrite combine_length, seq_length. apply Nat.min_id. Qed.
Print Assumptions C18_node_to_idx_length.
