(** Property C18 — the RDKit bridge keeps chemistry and puts coordinates on the right atoms.
    ONLY statements, each closed by [exact]; proofs in Geom/IndexMapProofs.v, ForwardMapProofs.v, CoordProofs.v.

    Claimed as PARTIAL:
    proved      (a) index plumbing of networkx_to_rdkit / embed_3d_via_rdkit (which node receives which RDKit
                    atom's position), for BOTH write-back shapes, the current one selected by the GENERATED
                    [embed_write_mode];
                (b) the bead average of forward_map_molecule over Q, for BOTH denominators, the current one
                    selected by the GENERATED [fm_avg_mode]; own-atoms dependence over any carrier;
                (c) control flow of rdkit_to_networkx's conformer branch given the GENERATED [r2n_pos_arg_bound].
    NOT proved  (validated by execution only, tools/props/c18.py): element / charge / bond order / hydrogen
                count through RDKit's C++, bonding distances after RDKit's embedding, numpy's float64
                arithmetic (the float instance of ForwardMap is compared bit for bit on every run).
    The full statement "for all orderings / all molecules with a conformer / all weights" is NOT provable for
    the current code: [C18_embed_status], [C18_conformer_status], [C18_forward_map_status] contain the
    refutations (known findings embed_index_not_key, r2n_conformer_unbound_name, fwd_weights_not_normalised). *)
From Coq Require Import List ZArith Bool QArith.
From CGV Require Import Base.PyBase Geom.Num Gen.GeomGen Geom.IndexMap Geom.ForwardMap Geom.CoordDefs
     Geom.IndexMapProofs Geom.ForwardMapProofs Geom.CoordProofs.
Import ListNotations.

(** node_to_idx is the enumeration of the node list: RDKit atom i <-> i-th node *)
Theorem C18_node_to_idx_enumerates : forall nodes k i, NoDup nodes ->
  (own_atom nodes k = Some i <-> nth_error nodes i = Some k).
Proof. exact own_atom_spec. Qed.

(** enumeration-index write-back: every key receives the position of its own atom IFF the node list is
    [0..n-1] in that order (and AddHs added no atom) *)
Theorem C18_coords_on_own_atom_enum : forall nodes nrd, NoDup nodes ->
  ((exists m, embed_model WriteByEnumIndex nodes nrd = Ok m /\ on_own_atoms nodes m)
   <-> (nodes = iota (length nodes) /\ nrd = length nodes)).
Proof. exact coords_on_own_atom_enum. Qed.

(** node-key write-back: unconditional *)
Theorem C18_coords_on_own_atom_nodekey : forall nodes nrd, NoDup nodes -> (length nodes <= nrd)%nat ->
  exists m, embed_model WriteByNodeKey nodes nrd = Ok m /\ on_own_atoms nodes m.
Proof. exact coords_on_own_atom_nodekey. Qed.

(** the embedding clause for the code as generated NOW (partial + refuted, or full after the repair) *)
Theorem C18_embed_status : embed_status embed_write_mode.
Proof. exact (embed_status_all embed_write_mode). Qed.

(** forward_map_molecule, /len(weights): translation-equivariant IFF the weights sum to their number *)
Theorem C18_forward_map_translation_len : forall ws, ws <> [] ->
  (equivariant DivByLen ws <-> sum_weights numQ ws == inject_Z (Z.of_nat (length ws))).
Proof. exact forward_map_translation_len. Qed.
(** /sum(weights): unconditional *)
Theorem C18_forward_map_translation_sum : forall ws, ~ sum_weights numQ ws == 0 -> equivariant DivBySum ws.
Proof. exact forward_map_translation_sum. Qed.
Theorem C18_forward_map_status : fwd_status fm_avg_mode.
Proof. exact (fwd_status_all fm_avg_mode). Qed.

(** each bead depends only on the positions of its own atoms (any carrier, either denominator) *)
Theorem C18_bead_uses_own_atoms : forall {M} (o : numops M) mode (pos pos' : Z -> res (@vec3 M)) ws,
  (forall a, In a (map fst ws) -> pos a = pos' a) -> bead o mode pos ws = bead o mode pos' ws.
Proof. exact @bead_uses_own_atoms. Qed.

(** rdkit_to_networkx and conformers *)
Theorem C18_conformer_status : r2n_status r2n_pos_arg_bound.
Proof. exact (r2n_status_all r2n_pos_arg_bound). Qed.

(** ---------- non-vacuity *)
(* a node list outside the defect class, one inside it (the resolved molecule {[#A][#B]}.{#A=[$]CO,#B=[$]CC}) *)
Example C18_nonvacuous_nodes :
  NoDup [0; 1; 2]%Z /\ cls_index_not_key [0; 1; 2]%Z = false /\
  NoDup witness_nodes /\ cls_index_not_key witness_nodes = true /\
  embed_model WriteByEnumIndex witness_nodes 12 = Ok (map (fun k => (k, Z.to_nat k)) witness_nodes) /\
  own_atom witness_nodes 5%Z = Some 2%nat /\
  (exists m, embed_model WriteByNodeKey witness_nodes 12 = Ok m /\ on_own_atoms_b witness_nodes m = true).
Proof.
  split; [repeat (constructor; [cbn; intuition discriminate|]); constructor|]. split; [reflexivity|].
  split; [unfold witness_nodes; repeat (constructor; [cbn; intuition discriminate|]); constructor|].
  split; [reflexivity|]. split; [reflexivity|]. split; [reflexivity|]. eexists. split; vm_compute; reflexivity.
Qed.
(* non-unit weights whose sum equals their number: equivariant although the class "some weight <> 1" contains them *)
Example C18_nonvacuous_weights :
  let ws := [(0%Z, 1 # 2); (1%Z, 3 # 2)] in ws <> [] /\ equivariant DivByLen ws /\
  veq (beadT DivByLen (fun k => (inject_Z k, 1, 0)) ws) (3 # 4, 1, 0).
Proof.
  cbn zeta. split; [discriminate|]. split.
  - apply forward_map_translation_len; [discriminate|]. vm_compute. reflexivity.
  - vm_compute. repeat split.
Qed.

Print Assumptions C18_node_to_idx_enumerates.
Print Assumptions C18_coords_on_own_atom_enum.
Print Assumptions C18_coords_on_own_atom_nodekey.
Print Assumptions C18_embed_status.
Print Assumptions C18_forward_map_translation_len.
Print Assumptions C18_forward_map_translation_sum.
Print Assumptions C18_forward_map_status.
Print Assumptions C18_bead_uses_own_atoms.
Print Assumptions C18_conformer_status.
