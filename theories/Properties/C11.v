(** Property C11 - virtual nodes and zero-order edges are inert.
    Only statements closed by [exact]; proofs in Resolve/VirtualProofs.v. *)
From Coq Require Import String.
From Coq Require Import List Ascii ZArith Bool Lia.
From CGV Require Import Base.PyBase Base.PyVal Base.NxGraph Resolve.Bonding Resolve.GraphOps Resolve.Pipeline
     Resolve.MapDefs Resolve.Witness.
Import ListNotations.
Open Scope Z_scope.

Definition nodes_of_coarse (k : Z) (so : step_out) : list Z :=
  match fg_get k (so_fgs so) with Some g => node_keys g | None => [] end.

(** the pair (base, base with a virtual node inserted; A has key [ka] resp. [ka'], V has key [kv]):
    fine molecule literally unchanged / A keeps its atoms / V carries nothing *)
Definition pair_check (b b' : graph) (ka ka' kv : Z) : res (bool * bool * bool) :=
  so <- run_coarse b ;; so' <- run_coarse b' ;;
  Ok (graph_eqb (so_mol so) (so_mol so'),
      same_set (nodes_of_coarse ka so) (nodes_of_coarse ka' so'),
      match nodes_of_coarse kv so' with [] => true | _ => false end).

(** "every other coarse node stays mapped to exactly its own atoms" is violated by the faithful model
    when the virtual node is not last: {[#A][#B]} vs {[#V].[#A][#B]} *)
Theorem C11_map_refuted :
  virtual_not_last fd_AB base_VAB = true /\ pair_check base_AB base_VAB 0 1 0 = Ok (true, false, false).
Proof. split; vm_compute; reflexivity. Qed.

(** with the virtual node last the mapping is untouched: {[#A][#B]} vs {[#A][#B].[#V]} *)
Example C11_map_last :
  virtual_not_last fd_AB base_ABV = false /\ pair_check base_AB base_ABV 0 0 2 = Ok (true, true, true).
Proof. split; vm_compute; reflexivity. Qed.

Print Assumptions C11_map_refuted.
