(** Property C11 - virtual nodes and zero-order edges are inert.
    Only statements closed by [exact]; proofs in Resolve/VirtualProofs.v and Resolve/VirtualStep.v. *)
From Coq Require Import String.
From Coq Require Import List Ascii ZArith Bool Lia.
From CGV Require Import Base.PyBase Base.PyVal Base.NxGraph Resolve.Bonding Resolve.GraphOps Resolve.Pipeline
     Resolve.StepCheck Resolve.MapDefs Resolve.Witness Resolve.VirtualProofs Resolve.MapProofs Resolve.CopyProofs Resolve.PipelineFull Resolve.FragidProofs Resolve.VirtualStep Resolve.ZeroEdgeStep Resolve.ZeroEdgeAny Resolve.C11Check.
From CGV Require Hydro.Hydrogens.
Import ListNotations.
Open Scope Z_scope.

Definition nodes_of_coarse (k : Z) (so : step_out) : list Z :=
  match fg_get k (so_fgs so) with Some g => node_keys g | None => [] end.

(** the pair (base, base with a virtual node inserted; A has key [ka] resp. [ka'], V has key [kv]):
    fine molecule unchanged up to fragid / A keeps its atoms / V carries nothing *)
Definition pair_check (b b' : graph) (ka ka' kv : Z) : res (bool * bool * bool) :=
  so <- run_coarse b ;; so' <- run_coarse b' ;;
  Ok (graph_eqb (strip_fragid (so_mol so)) (strip_fragid (so_mol so')),
      same_set (nodes_of_coarse ka so) (nodes_of_coarse ka' so'),
      match nodes_of_coarse kv so' with [] => true | _ => false end).

(** the former witness of class virtual_not_last ({[#A][#B]} vs {[#V].[#A][#B]}; repaired in /repo
    fa307dd) and the virtual-node-last pair: the mapping is untouched in both *)
Example C11_map_first : pair_check base_AB base_VAB 0 1 0 = Ok (true, true, true).
Proof. vm_compute. reflexivity. Qed.
Example C11_map_last : pair_check base_AB base_ABV 0 0 2 = Ok (true, true, true).
Proof. vm_compute. reflexivity. Qed.

(** ---- the instantiation loop *)
(** skip_virtual: a fragment-less node whose edges all have order 0 adds nothing ... *)
Theorem C11_skip_virtual : forall fd st mn fv,
  aget (S "fragname") (na mn) = Some fv -> lookup_fragment fd fv = None -> Forall zero_order (nadj mn) ->
  disc_step fd st mn = Ok st.
Proof. exact skip_virtual. Qed.
(** ... wherever it stands in the coarse graph: the disconnected fine graph and the fragment graphs are those
    of the coarse node list without it (the running fragid is unchanged) *)
Theorem C11_skip_virtual_anywhere : forall fd pre mn post fv,
  aget (S "fragname") (na mn) = Some fv -> lookup_fragment fd fv = None -> Forall zero_order (nadj mn) ->
  resolve_disconnected fd ((pre ++ mn :: post)%list) = resolve_disconnected fd ((pre ++ post)%list).
Proof. exact skip_virtual_run. Qed.
(** C11_reject: a fragment-less node with an edge of order >= 1 raises SyntaxError *)
Theorem C11_reject : forall fd pre mn post st fv,
  fold_res (disc_step fd) pre (gempty, []) = Ok st ->
  aget (S "fragname") (na mn) = Some fv -> lookup_fragment fd fv = None ->
  Forall has_order (nadj mn) -> Exists nonzero_order (nadj mn) ->
  resolve_disconnected fd ((pre ++ mn :: post)%list) = Err (ESyntax (S "nofrag")).
Proof. exact C11_reject_run. Qed.
Example C11_reject_nonvacuous : run_coarse base_V1AB = Err (ESyntax (S "nofrag")).
Proof. vm_compute. reflexivity. Qed.

(** ---- the mapping, for a virtual node at ANY position *)
(** every membership recorded in the fine graph is the key of a coarse node with a fragment ... *)
Theorem C11_records_real : forall fd meta mol fgs n k, wf_dict fd -> resolve_disconnected fd meta = Ok (mol, fgs) ->
  records mol n k -> In k (flat_map (real_of fd) meta).
Proof. intros fd meta mol fgs n k Hw H. exact (records_real _ mol n k (resolve_disconnected_inv fd meta mol fgs Hw H)). Qed.
(** ... never that of a fragment-less node *)
Theorem C11_virtual_not_recorded : forall fd meta mv, NoDup (node_keys meta) -> In mv meta -> real_of fd mv = [] ->
  ~ In (nk mv) (flat_map (real_of fd) meta).
Proof. exact virtual_not_recorded. Qed.
(** so the coarse graph of a virtual node is empty ... *)
Theorem C11_virtual_empty : forall R meta mol fgs kv g, annotate_fragments meta mol = Ok fgs -> fine_inv R mol -> ~ In kv R ->
  In (kv, g) fgs -> node_keys g = [].
Proof. exact C11_virtual_empty. Qed.
(** ... and C11_map: every coarse key carries the same fine nodes whether or not virtual nodes are in the coarse node list *)
Theorem C11_map : forall meta meta' mol fgs fgs' k g g', annotate_fragments meta mol = Ok fgs -> annotate_fragments meta' mol = Ok fgs' ->
  In (k, g) fgs -> In (k, g') fgs' -> forall n, In n (node_keys g) <-> In n (node_keys g').
Proof. exact C11_map. Qed.

(** ---- the same for the RETURNED graphs of a whole resolution step (end-to-end model PipelineFull.resolve_step_full:
    instantiation, bonding, squash, hydrogen completion behind the aromaticity transcript, sort, E/Z annotation,
    annotate_fragments, atom naming): every stage keeps "each fragid value is the key of a coarse node with a
    fragment" (Resolve/FragidProofs.v) *)
Theorem C11_step_records_real : forall legacy aa fd prev car fo n k, wf_dict fd -> wf_attrs fd ->
  resolve_step_full legacy aa fd prev car = Ok fo -> records (fo_mol fo) n k -> In k (flat_map (real_of fd) (fo_meta fo)).
Proof. exact step_records_real. Qed.
(** a virtual node, wherever it stands in the coarse graph, comes back with an empty coarse graph *)
Theorem C11_step_virtual_empty : forall legacy aa fd prev car fo mv g, wf_dict fd -> wf_attrs fd ->
  resolve_step_full legacy aa fd prev car = Ok fo ->
  NoDup (node_keys (fo_meta fo)) -> In mv (fo_meta fo) -> real_of fd mv = [] ->
  In (nk mv, g) (fo_fgs fo) -> node_keys g = [].
Proof. exact step_virtual_empty. Qed.
(** the recorded result of pysmiles' correct_aromatic_rings, under the contract checked on every transcript,
    cannot disturb the memberships *)
Theorem C11_transcript_keeps_fragid : forall R before after, Hydrogens.transcript_contract before after = true ->
  fid_inv R before -> fid_inv R after.
Proof. exact inv_transcript. Qed.
(** non-vacuity: the witness dictionary satisfies the hypotheses and the step returns for a virtual node first *)
Example C11_step_nonvacuous :
  wf_attrs fd_AB /\
  match resolve_step_full true false fd_AB base_VAB None with
  | Ok fo => nodupb (node_keys (fo_meta fo)) && match fg_get 0 (fo_fgs fo) with Some [] => true | _ => false end
  | Err _ => false
  end = true.
Proof.
  split; [|vm_compute; reflexivity].
  intros name g H n Hn. cbn [fd_get fd_AB] in H.
  destruct (str_eqb name (S "A")); [inversion H; subst; cbn in Hn; destruct Hn as [<-|[<-|[]]]; repeat constructor; cbn; intuition discriminate|].
  destruct (str_eqb name (S "B")); [inversion H; subst; cbn in Hn; destruct Hn as [<-|[]]; repeat constructor; cbn; intuition discriminate|discriminate].
Qed.

(** ---- the whole step, with and without the virtual node (Resolve/VirtualStep.v) *)
(** networkx remove_node on the edge list: exactly the edges touching the node disappear, order kept *)
Theorem C11_edges_after_remove_node : forall g kv,
  edges_data (remove_node g kv) = filter (fun e => negb (touches kv e)) (edges_data g).
Proof. exact edges_data_remove. Qed.
(** [vnode fd kv g]: node kv names no fragment of fd and every edge at kv carries the integer order 0 (both adjacency views).
    The instantiation loop and the bonding stage cannot tell g from g without kv *)
Theorem C11_disconnected_remove : forall fd kv g, vnode fd kv g ->
  resolve_disconnected fd (remove_node g kv) = resolve_disconnected fd g.
Proof. exact disconnected_remove. Qed.
Theorem C11_bonding_remove : forall legacy aa fd kv g mol fgs, NoDup (node_keys g) -> vnode fd kv g ->
  bonding_step legacy aa (remove_node g kv) mol fgs = bonding_step legacy aa g mol fgs.
Proof. exact bonding_remove. Qed.
(** the end-to-end step (all stages, any aromaticity transcript) of a level-0 coarse graph containing the virtual node kv
    returns only if the step of the graph without kv returns, and then with the same fine graph (also before hydrogen
    completion and before sorting), the same atoms for every other coarse node, and no atom for kv *)
Theorem C11_step_remove_virtual : forall legacy aa fd prev car fo' kv, wf_dict fd -> wf_attrs fd -> NoDup (node_keys prev) ->
  get_node_attributes prev (S "atomname") = [] -> vnode fd kv prev ->
  resolve_step_full legacy aa fd prev car = Ok fo' ->
  exists fo, resolve_step_full legacy aa fd (remove_node prev kv) car = Ok fo /\
    fo_mol fo = fo_mol fo' /\ fo_m2 fo = fo_m2 fo' /\ fo_m5 fo = fo_m5 fo' /\
    fg_keys (fo_fgs fo) = filter (notkv kv) (fg_keys (fo_fgs fo')) /\
    (forall g, In (kv, g) (fo_fgs fo') -> node_keys g = []).
Proof. exact step_remove_virtual. Qed.
(** the converse, hence both directions: under the same hypotheses the step with the virtual node returns iff the step without
    it returns (then with the results related as in C11_step_remove_virtual) *)
Theorem C11_step_insert_virtual : forall legacy aa fd prev car fo kv, wf_dict fd -> wf_attrs fd -> NoDup (node_keys prev) ->
  get_node_attributes prev (S "atomname") = [] -> vnode fd kv prev ->
  resolve_step_full legacy aa fd (remove_node prev kv) car = Ok fo ->
  exists fo', resolve_step_full legacy aa fd prev car = Ok fo'.
Proof. exact step_insert_virtual. Qed.
Theorem C11_step_virtual_iff : forall legacy aa fd prev car kv, wf_dict fd -> wf_attrs fd -> NoDup (node_keys prev) ->
  get_node_attributes prev (S "atomname") = [] -> vnode fd kv prev ->
  ((exists fo', resolve_step_full legacy aa fd prev car = Ok fo') <->
   (exists fo, resolve_step_full legacy aa fd (remove_node prev kv) car = Ok fo)).
Proof. exact step_virtual_iff. Qed.
(** non-vacuity: {[#V].[#A][#B]} with V = node 0 satisfies every hypothesis (the step returns: C11_step_nonvacuous) *)
Example C11_step_remove_virtual_nonvacuous :
  wf_dict fd_AB /\ NoDup (node_keys base_VAB) /\ get_node_attributes base_VAB (S "atomname") = [] /\ vnode fd_AB 0 base_VAB /\
  graph_eqb (remove_node base_VAB 0) [cnode 1 "A" [(2, 1)]; cnode 2 "B" [(1, 1)]] = true.
Proof.
  split; [|split; [|split; [|split]]].
  - intros name g H. cbn [fd_get fd_AB] in H.
    destruct (str_eqb name (S "A")).
    { inversion H; subst; clear H. split; [vm_compute; repeat constructor; cbn; intuition discriminate|].
      intros u v d Hin. vm_compute in Hin. destruct Hin as [Hin|[]]. inversion Hin; subst. vm_compute. tauto. }
    destruct (str_eqb name (S "B")); [|discriminate].
    inversion H; subst; clear H. split; [vm_compute; repeat constructor; cbn; intuition discriminate|].
    intros u v d Hin. vm_compute in Hin. destruct Hin.
  - vm_compute. repeat constructor; cbn; intuition discriminate.
  - vm_compute. reflexivity.
  - split.
    + intros n [<-|[<-|[<-|[]]]] Hk; try discriminate Hk. split.
      * exists (VStr (S "V")). split; vm_compute; reflexivity.
      * repeat constructor.
    + intros n d [<-|[<-|[<-|[]]]] Hin; vm_compute in Hin.
      * destruct Hin as [Hin|[]]. discriminate Hin.
      * destruct Hin as [Hin|[Hin|[]]]; [|discriminate Hin]. inversion Hin; subst. reflexivity.
      * destruct Hin as [Hin|[]]. discriminate Hin.
  - vm_compute. reflexivity.
Qed.
(** the same at ANY level: the stages of a step work on [meta_in prev] ('fragname' := 'atomname' where a node of the previous
    resolution has one); the hypothesis on the virtual node is stated for that graph *)
Theorem C11_meta_remove : forall prev kv, NoDup (node_keys prev) -> meta_in (remove_node prev kv) = remove_node (meta_in prev) kv.
Proof. exact meta_remove. Qed.
Theorem C11_step_remove_virtual_any : forall legacy aa fd prev car fo' kv, wf_dict fd -> wf_attrs fd -> NoDup (node_keys prev) ->
  vnode fd kv (meta_in prev) ->
  resolve_step_full legacy aa fd prev car = Ok fo' ->
  exists fo, resolve_step_full legacy aa fd (remove_node prev kv) car = Ok fo /\
    fo_mol fo = fo_mol fo' /\ fo_m2 fo = fo_m2 fo' /\ fo_m5 fo = fo_m5 fo' /\
    fg_keys (fo_fgs fo) = filter (notkv kv) (fg_keys (fo_fgs fo')) /\
    (forall g, In (kv, g) (fo_fgs fo') -> node_keys g = []).
Proof. exact step_remove_virtual_any. Qed.
Theorem C11_step_insert_virtual_any : forall legacy aa fd prev car fo kv, wf_dict fd -> wf_attrs fd -> NoDup (node_keys prev) ->
  vnode fd kv (meta_in prev) ->
  resolve_step_full legacy aa fd (remove_node prev kv) car = Ok fo ->
  exists fo', resolve_step_full legacy aa fd prev car = Ok fo'.
Proof. exact step_insert_virtual_any. Qed.
Theorem C11_step_virtual_iff_any : forall legacy aa fd prev car kv, wf_dict fd -> wf_attrs fd -> NoDup (node_keys prev) ->
  vnode fd kv (meta_in prev) ->
  ((exists fo', resolve_step_full legacy aa fd prev car = Ok fo') <->
   (exists fo, resolve_step_full legacy aa fd (remove_node prev kv) car = Ok fo)).
Proof. exact step_virtual_iff_any. Qed.
(** non-vacuity at level 1: nodes of a previous resolution (fragname P) named V, A, B; V = node 0 is virtual for fd_AB *)
Definition lnode (k : Z) (name : string) (adj : list (Z * Z)) : nrec :=
  {| nk := k; na := [(S "fragname", VStr (S "P")); (S "atomname", VStr (S name))];
     nadj := map (fun wo => (fst wo, [(S "order", VInt (snd wo))])) adj |}.
Definition lvl1_VAB : graph := [lnode 0 "V" [(1, 0)]; lnode 1 "A" [(0, 0); (2, 1)]; lnode 2 "B" [(1, 1)]].
Example C11_step_remove_virtual_any_nonvacuous :
  NoDup (node_keys lvl1_VAB) /\ vnode fd_AB 0 (meta_in lvl1_VAB) /\
  match resolve_step_full true false fd_AB lvl1_VAB None with
  | Ok fo => match fg_get 0 (fo_fgs fo) with Some [] => true | _ => false end | Err _ => false end = true.
Proof.
  split; [vm_compute; repeat constructor; cbn; intuition discriminate|]. split; [|vm_compute; reflexivity].
  assert (meta_in lvl1_VAB = [ {| nk := 0; na := [(S "fragname", VStr (S "V")); (S "atomname", VStr (S "V"))]; nadj := nadj (lnode 0 "V" [(1, 0)]) |};
                               {| nk := 1; na := [(S "fragname", VStr (S "A")); (S "atomname", VStr (S "A"))]; nadj := nadj (lnode 1 "A" [(0, 0); (2, 1)]) |};
                               {| nk := 2; na := [(S "fragname", VStr (S "B")); (S "atomname", VStr (S "B"))]; nadj := nadj (lnode 2 "B" [(1, 1)]) |} ]) as ->
    by (vm_compute; reflexivity).
  split.
  + intros n [<-|[<-|[<-|[]]]] Hk; try discriminate Hk. split.
    * exists (VStr (S "V")). split; vm_compute; reflexivity.
    * repeat constructor.
  + intros n d [<-|[<-|[<-|[]]]] Hin; vm_compute in Hin.
    * destruct Hin as [Hin|[]]. discriminate Hin.
    * destruct Hin as [Hin|[Hin|[]]]; [|discriminate Hin]. inversion Hin; subst. reflexivity.
    * destruct Hin as [Hin|[]]. discriminate Hin.
Qed.

(** ---- an extra order-0 EDGE (e.g. a zero-order ring bond between two coarse nodes), Resolve/ZeroEdgeStep.v *)
(** networkx remove_edge on the edge list: exactly the edge a-b (either direction) disappears, order kept *)
Theorem C11_edges_after_remove_edge : forall g a b, NoDup (node_keys g) ->
  edges_data (remove_edge g a b) = filter (fun e => negb (is_ab a b e)) (edges_data g).
Proof. exact edges_data_remove_edge. Qed.
(** [zedge a b g]: the edge a-b carries the integer order 0 in both adjacency views.  At any level, for any flags, dictionary and
    transcript the step on the coarse graph without the edge returns - or raises - exactly what the step with it returns
    (raises); only the coarse graph handed back differs.  No hypothesis on the dictionary *)
Theorem C11_step_remove_zero_edge : forall legacy aa fd prev car a b, NoDup (node_keys prev) -> zedge a b (meta_in prev) ->
  resolve_step_full legacy aa fd (remove_edge prev a b) car =
  match resolve_step_full legacy aa fd prev car with
  | Ok fo => Ok (with_meta fo (remove_edge (meta_in prev) a b))
  | Err e => Err e
  end.
Proof. exact step_remove_zero_edge. Qed.
(** non-vacuity: {[#A]1[#B].[#B]1} with the ring bond of order 0 (nodes 0 and 2); the step returns *)
Definition base_AB_B0 : graph := [cnode 0 "A" [(1, 1); (2, 0)]; cnode 1 "B" [(0, 1)]; cnode 2 "B" [(0, 0)]].
Example C11_step_remove_zero_edge_nonvacuous :
  NoDup (node_keys base_AB_B0) /\ zedge 0 2 (meta_in base_AB_B0) /\
  graph_eqb (remove_edge base_AB_B0 0 2) [cnode 0 "A" [(1, 1)]; cnode 1 "B" [(0, 1)]; cnode 2 "B" []] = true /\
  match resolve_step_full true false fd_AB base_AB_B0 None with Ok fo => Nat.eqb (length (fo_mol fo)) 4 | Err _ => false end = true.
Proof.
  split; [vm_compute; repeat constructor; cbn; intuition discriminate|]. split; [|split; vm_compute; reflexivity].
  change (meta_in base_AB_B0) with base_AB_B0.
  intros n [<-|[<-|[<-|[]]]]; split; intros Hk d Hin; try discriminate Hk; vm_compute in Hin.
  - destruct Hin as [Hin|[Hin|[]]]; [discriminate Hin|]. inversion Hin; subst. reflexivity.
  - destruct Hin as [Hin|[]]. inversion Hin; subst. reflexivity.
Qed.

(** the same on the RETURNED graphs, in the style of C11_step_remove_virtual_any (Resolve/ZeroEdgeAny.v): an extra order-0 edge
    between two REAL coarse nodes (at any level, any flags, any dictionary, any transcript).  [same_results fo fo']: the returned
    fine graph, the coarse mapping (the 'graph' attribute of every coarse key) and every intermediate fine graph are equal *)
Theorem C11_step_remove_zero_edge_any : forall legacy aa fd prev car fo' a b, NoDup (node_keys prev) -> zedge a b (meta_in prev) ->
  resolve_step_full legacy aa fd prev car = Ok fo' ->
  exists fo, resolve_step_full legacy aa fd (remove_edge prev a b) car = Ok fo /\
    (fo_mol fo = fo_mol fo' /\ fo_fgs fo = fo_fgs fo' /\
     fo_m2 fo = fo_m2 fo' /\ fo_m3 fo = fo_m3 fo' /\ fo_m4 fo = fo_m4 fo' /\ fo_m5 fo = fo_m5 fo' /\ fo_m6 fo = fo_m6 fo') /\
    fo_meta fo = remove_edge (fo_meta fo') a b /\ nodes_data (fo_meta fo) = nodes_data (fo_meta fo').
Proof. exact step_remove_zero_edge_any. Qed.
Theorem C11_step_insert_zero_edge_any : forall legacy aa fd prev car fo a b, NoDup (node_keys prev) -> zedge a b (meta_in prev) ->
  resolve_step_full legacy aa fd (remove_edge prev a b) car = Ok fo ->
  exists fo', resolve_step_full legacy aa fd prev car = Ok fo' /\
    (fo_mol fo = fo_mol fo' /\ fo_fgs fo = fo_fgs fo' /\
     fo_m2 fo = fo_m2 fo' /\ fo_m3 fo = fo_m3 fo' /\ fo_m4 fo = fo_m4 fo' /\ fo_m5 fo = fo_m5 fo' /\ fo_m6 fo = fo_m6 fo') /\
    fo_meta fo = remove_edge (fo_meta fo') a b /\ nodes_data (fo_meta fo) = nodes_data (fo_meta fo').
Proof. exact step_insert_zero_edge_any. Qed.
Theorem C11_step_zero_edge_iff_any : forall legacy aa fd prev car a b, NoDup (node_keys prev) -> zedge a b (meta_in prev) ->
  ((exists fo', resolve_step_full legacy aa fd prev car = Ok fo') <->
   (exists fo, resolve_step_full legacy aa fd (remove_edge prev a b) car = Ok fo)).
Proof. exact step_zero_edge_iff_any. Qed.
Theorem C11_step_zero_edge_err : forall legacy aa fd prev car a b e, NoDup (node_keys prev) -> zedge a b (meta_in prev) ->
  (resolve_step_full legacy aa fd prev car = Err e <-> resolve_step_full legacy aa fd (remove_edge prev a b) car = Err e).
Proof. exact step_zero_edge_err. Qed.
(** INSERTING the edge: networkx add_edge(a, b, order=0) between two nodes of the coarse graph that were not joined
    ([noedge a b prev]: neither adjacency view has the other node) is undone by remove_edge, and the step cannot tell *)
Theorem C11_remove_add_edge : forall g a b d, NoDup (node_keys g) -> In a (node_keys g) -> In b (node_keys g) -> a <> b ->
  noedge a b g -> remove_edge (add_edge g a b d) a b = g.
Proof. exact remove_add_edge. Qed.
Theorem C11_step_add_zero_edge : forall legacy aa fd prev car a b,
  NoDup (node_keys prev) -> In a (node_keys prev) -> In b (node_keys prev) -> a <> b -> noedge a b prev ->
  resolve_step_full legacy aa fd prev car =
  match resolve_step_full legacy aa fd (add_edge prev a b [(S "order", VInt 0)]) car with
  | Ok fo => Ok (with_meta fo (meta_in prev))
  | Err e => Err e
  end.
Proof. exact step_add_zero_edge. Qed.
Theorem C11_step_add_zero_edge_any : forall legacy aa fd prev car fo a b,
  NoDup (node_keys prev) -> In a (node_keys prev) -> In b (node_keys prev) -> a <> b -> noedge a b prev ->
  resolve_step_full legacy aa fd prev car = Ok fo ->
  exists fo', resolve_step_full legacy aa fd (add_edge prev a b [(S "order", VInt 0)]) car = Ok fo' /\
    (fo_mol fo = fo_mol fo' /\ fo_fgs fo = fo_fgs fo' /\
     fo_m2 fo = fo_m2 fo' /\ fo_m3 fo = fo_m3 fo' /\ fo_m4 fo = fo_m4 fo' /\ fo_m5 fo = fo_m5 fo' /\ fo_m6 fo = fo_m6 fo') /\
    nodes_data (fo_meta fo') = nodes_data (fo_meta fo).
Proof. exact step_add_zero_edge_any. Qed.
(** non-vacuity: {[#A][#B].[#B]} (three real nodes, 0 and 2 not joined) satisfies the hypotheses of the insertion form, add_edge
    gives the graph of C11_step_remove_zero_edge_nonvacuous (which satisfies those of the removal forms), both steps return
    the same four atoms and the same mapping *)
Definition base_AB_B : graph := [cnode 0 "A" [(1, 1)]; cnode 1 "B" [(0, 1)]; cnode 2 "B" []].
Example C11_step_zero_edge_any_nonvacuous :
  NoDup (node_keys base_AB_B) /\ In 0 (node_keys base_AB_B) /\ In 2 (node_keys base_AB_B) /\ noedge 0 2 base_AB_B /\
  add_edge base_AB_B 0 2 [(S "order", VInt 0)] = base_AB_B0 /\
  match resolve_step_full true false fd_AB base_AB_B None, resolve_step_full true false fd_AB base_AB_B0 None with
  | Ok fo, Ok fo' => graph_eqb (fo_mol fo) (fo_mol fo') && Nat.eqb (length (fo_mol fo)) 4 &&
                     Nat.eqb (length (fo_fgs fo)) 3 && Nat.eqb (length (fo_fgs fo')) 3
  | _, _ => false end = true.
Proof.
  split; [vm_compute; repeat constructor; cbn; intuition discriminate|]. split; [vm_compute; tauto|]. split; [vm_compute; tauto|].
  split; [|split; vm_compute; reflexivity].
  intros n [<-|[<-|[<-|[]]]]; split; intros Hk; try discriminate Hk; reflexivity.
Qed.

(** ---- order-0 edges make no bond (corollaries of the proved bond fold of C03) *)
Theorem C11_no_bond_for_order0 : forall legacy arom a b s acc, edge_loop legacy arom (Z.to_nat 0) a b s acc = Ok (s, acc).
Proof. exact no_bond_for_order0. Qed.
Theorem C11_zero_edge_inert : forall legacy arom pre a b post s acc,
  edges_from_bonding legacy arom ((pre ++ (a, b, 0) :: post)%list) s acc = edges_from_bonding legacy arom ((pre ++ post)%list) s acc.
Proof. exact zero_edge_inert. Qed.
Theorem C11_only_zero_edges_no_bonds : forall legacy arom edges, Forall (fun e : Z * Z * Z => snd e <= 0) edges ->
  forall s acc, edges_from_bonding legacy arom edges s acc = Ok (s, acc).
Proof. exact no_bond_for_nonpositive. Qed.

Print Assumptions C11_skip_virtual.
Print Assumptions C11_skip_virtual_anywhere.
Print Assumptions C11_reject.
Print Assumptions C11_zero_edge_inert.
Print Assumptions C11_records_real.
Print Assumptions C11_virtual_empty.
Print Assumptions C11_map.
Print Assumptions C11_step_records_real.
Print Assumptions C11_step_virtual_empty.
Print Assumptions C11_transcript_keeps_fragid.
Print Assumptions C11_edges_after_remove_node.
Print Assumptions C11_disconnected_remove.
Print Assumptions C11_bonding_remove.
Print Assumptions C11_step_remove_virtual.
Print Assumptions C11_step_insert_virtual.
Print Assumptions C11_step_virtual_iff.
Print Assumptions C11_meta_remove.
Print Assumptions C11_step_remove_virtual_any.
Print Assumptions C11_step_insert_virtual_any.
Print Assumptions C11_step_virtual_iff_any.
Print Assumptions C11_edges_after_remove_edge.
Print Assumptions C11_step_remove_zero_edge.
Print Assumptions C11_step_remove_zero_edge_any.
Print Assumptions C11_step_insert_zero_edge_any.
Print Assumptions C11_step_zero_edge_iff_any.
Print Assumptions C11_step_zero_edge_err.
Print Assumptions C11_remove_add_edge.
Print Assumptions C11_step_add_zero_edge.
Print Assumptions C11_step_add_zero_edge_any.
