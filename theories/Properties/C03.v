(** Property C03 — inter-fragment bonds follow the base graph and the bonding-descriptor rules.
    Only statements, each closed by [exact]; the proofs live in Resolve/BondingSpec.v and
    Resolve/BondingProofs.v.  [compatible] is the definition GENERATED from resolve.py. *)
From Coq Require Import String.
From Coq Require Import List Ascii ZArith Bool.
From CGV Require Import Base.PyBase Base.PyVal Gen.ResolveGen Resolve.Bonding Resolve.BondingDefs Resolve.BondingSpec
     Resolve.BondingSym Resolve.BondingProofs Resolve.BondingCheck.
Import ListNotations.
Open Scope Z_scope.

(** the generated compatibility test computes the specification relation *)
Theorem C03_compatible_is_spec : forall legacy lk lt rk rt,
  compatible (lk :: lt) (rk :: rt) legacy = Ok (Compat legacy lk lt rk rt).
Proof. exact compatible_spec. Qed.

(** the specification relation says what the property says *)
Theorem C03_compat_legacy_meaning : forall lk lt rk rt, Compat true lk lt rk rt = true ->
  lt = rt /\ ((lk = rk /\ lk <> ">"%char /\ lk <> "<"%char) \/ (lk = "<"%char /\ rk = ">"%char) \/ (lk = ">"%char /\ rk = "<"%char)).
Proof. exact Compat_legacy_sound. Qed.
Theorem C03_compat_new_meaning : forall lk lt rk rt, Compat false lk lt rk rt = true ->
  (lk = rk /\ (lk = "$"%char \/ lk = "!"%char)) \/ (lk = "<"%char /\ rk = ">"%char) \/ (lk = ">"%char /\ rk = "<"%char).
Proof. exact Compat_new_sound. Qed.

(** the generated test is symmetric: whether two descriptors may pair does not depend on which
    of the two fragments is scanned as the source *)
Theorem C03_compatible_symmetric : forall legacy l r b b',
  compatible l r legacy = Ok b -> compatible r l legacy = Ok b' -> b = b'.
Proof. exact compatible_sym. Qed.

(** a directional descriptor never pairs with one of its own direction, under both conventions *)
Theorem C03_same_direction_never_pairs : forall legacy k t t', k = ">"%char \/ k = "<"%char ->
  compatible (k :: t) (k :: t') legacy = Ok false.
Proof. exact compatible_same_direction. Qed.

(** under the label-insensitive convention only the symbol kinds count *)
Theorem C03_new_convention_ignores_labels : forall lk lt lt' rk rt rt',
  compatible (lk :: lt) (rk :: rt) false = compatible (lk :: lt') (rk :: rt') false.
Proof. exact compatible_new_ignores_labels. Qed.

Section C03.
  Variables (legacy : bool) (arom : Z -> bool) (edges : list (Z * Z * Z)) (s0 s1 : cstate) (bonds : list bond).
  (** base graph without self loops; per coarse node the atoms carrying descriptors are distinct *)
  Hypothesis We : wf_edges edges.
  Hypothesis Ws : wf_state s0.
  Hypothesis Run : edges_from_bonding legacy arom edges s0 [] = Ok (s1, bonds).

  Theorem C03_only_across_base_edges : forall bd, In bd bonds -> In (b_src bd, b_tgt bd) (map fst edges).
  Proof. exact (bond_only_across_base_edge legacy arom edges s0 s1 bonds We Ws Run). Qed.
  Theorem C03_at_most_order : forall a b, (bonds_between a b bonds <= order_sum a b edges)%nat.
  Proof. exact (bond_count_le_order legacy arom edges s0 s1 bonds We Ws Run). Qed.
  Theorem C03_pair_compatible : forall bd, In bd bonds -> compat_str legacy (b_d1 bd) (b_d2 bd) = true.
  Proof. exact (bond_pair_compatible legacy arom edges s0 s1 bonds We Ws Run). Qed.
  Theorem C03_order_annotated : forall bd, In bd bonds ->
    bond_order arom (b_u bd) (b_v bd) (b_d1 bd) = Ok (b_order bd).
  Proof. exact (bond_order_annotated legacy arom edges s0 s1 bonds We Ws Run). Qed.
  Theorem C03_descriptor_used_once : forall a u d,
    (cnt d (tlookup u (slookup a s1)) + uses a u d bonds = cnt d (tlookup u (slookup a s0)))%nat.
  Proof. exact (descriptor_used_once legacy arom edges s0 s1 bonds We Ws Run). Qed.
End C03.

(** exactly `order` bonds unless no compatible pair is left (one base edge) *)
Theorem C03_exact_unless_exhausted : forall legacy arom n a b s acc s' acc',
  edge_loop legacy arom n a b s acc = Ok (s', acc') -> (length acc' < length acc + n)%nat ->
  forall u ds v ts d t, In (u, ds) (slookup a s') -> In (v, ts) (slookup b s') -> In d ds -> In t ts ->
    compat_str legacy d t = false.
Proof. exact edge_loop_exact. Qed.

(** non-vacuity: a homopolymer-like input with ambiguous '$' descriptors and an order-2 edge *)
Example C03_nonvacuous :
  let s0 := [(0, [(0, [S "$1"; S "$2"]); (1, [S ">A1"])]); (1, [(2, [S "$2"; S "<A1"; S "$1"])])] in
  let edges := [(0, 1, 3)] in
  wf_edges edges /\ wf_state s0 /\
  exists s1 bonds, edges_from_bonding true (fun _ => false) edges s0 [] = Ok (s1, bonds) /\ length bonds = 3%nat.
Proof.
  split; [repeat constructor; cbn; discriminate|]. split.
  - intros a. cbn. destruct (Z.eqb a 0); [repeat constructor; cbn; intuition discriminate|].
    destruct (Z.eqb a 1); repeat constructor; cbn; intuition discriminate.
  - eexists. eexists. split; [vm_compute; reflexivity|reflexivity].
Qed.

Print Assumptions C03_compatible_is_spec.
Print Assumptions C03_compatible_symmetric.
Print Assumptions C03_same_direction_never_pairs.
Print Assumptions C03_new_convention_ignores_labels.
Print Assumptions C03_only_across_base_edges.
Print Assumptions C03_at_most_order.
Print Assumptions C03_pair_compatible.
Print Assumptions C03_order_annotated.
Print Assumptions C03_descriptor_used_once.
Print Assumptions C03_exact_unless_exhausted.
