(** Property C08 — fragments and complete strings round-trip through the writer.
    Only statements, each closed by [exact]; proofs in Write/FormatBondingSpec.v.  All theorems are about
    [format_bonding] as GENERATED from write_cgsmiles.py (Gen/WriterGen.v) on every run.
    The full statement "format_bonding writes every descriptor of a list with its own order symbol" is NOT
    provable for the current code ([C08_format_bonding_refuted]); proved instead: the exact function the code
    computes ([C08_format_bonding_spec]), its agreement with the expected writing when only the first
    descriptor is non-single ([C08_format_bonding_first_only_partial]), the universal form of the defect
    ([C08_format_bonding_drops_prefix]).  The fragment-set and whole-string round trips are NOT proved:
    they are decided per run on the implementation's outputs (Write/FragCheck.v) with the writer model
    (Write/WriteImpl.v) tied to the code by the correspondence check. *)
From Coq Require Import String.
From Coq Require Import List Ascii ZArith Bool.
From CGV Require Import Base.PyBase Base.PyVal Base.NxGraph Gen.WriterGen Write.WriteImpl Write.FragDefs Write.FragCheck
     Write.FormatBondingSpec.
Import ListNotations.
Open Scope Z_scope.

(** what the generated function computes on every descriptor list with orders 0..4 *)
Theorem C08_format_bonding_spec : forall L : list (pystr * nat),
  Forall (fun klo => (snd klo <= 4)%nat) L ->
  format_bonding (map (fun klo => mk_descr (fst klo) (snd klo)) L) = Ok (fb_spec L).
Proof. exact format_bonding_spec. Qed.
(** exact output for lists of order-1 descriptors *)
Theorem C08_format_bonding_order1 : forall kls : list pystr,
  format_bonding (map (fun kl => mk_descr kl 1) kls) = Ok (concat (map wrap kls)).
Proof. exact format_bonding_order1. Qed.
(** one descriptor of any order 0..4 is written sym[kind label] *)
Theorem C08_format_bonding_single : forall kl o, (o <= 4)%nat ->
  format_bonding [mk_descr kl o] = Ok (symtext o ++ wrap kl).
Proof. exact format_bonding_single. Qed.
(** PARTIAL: correct (= the expected writing of Appendix A) when only the first descriptor is non-single;
    missing for the full statement: lists with a non-single descriptor after the first (refuted below) *)
Theorem C08_format_bonding_first_only_partial : forall kl o rest, (o <= 4)%nat ->
  Forall (fun klo => snd klo = 1%nat) rest ->
  format_bonding (map (fun klo => mk_descr (fst klo) (snd klo)) ((kl, o) :: rest)) = Ok (fb_expected ((kl, o) :: rest)).
Proof. exact format_bonding_first_only_partial. Qed.
(** the defect, universally: everything before a non-single descriptor is dropped *)
Theorem C08_format_bonding_drops_prefix : forall L1 kl o L2, o <> 1%nat ->
  fb_spec (L1 ++ (kl, o) :: L2) = fb_spec ((kl, o) :: L2).
Proof. exact format_bonding_drops_prefix. Qed.
Theorem C08_format_bonding_refuted : exists L : list (pystr * nat),
  Forall (fun klo => (1 <= snd klo <= 3)%nat) L /\
  exists out, format_bonding (map (fun klo => mk_descr (fst klo) (snd klo)) L) = Ok out /\ out <> fb_expected L
              /\ out = S "=[$b]".
Proof. exact format_bonding_refuted. Qed.
Example C08_nonvacuous :
  format_bonding [S "$a1"; S "$b2"] = Ok (S "=[$b]") /\ format_bonding [S "$2"; S ">x1"] = Ok (S "=[$][>x]")
  /\ format_bonding [S "$0"] = Ok (S ".[$]") /\ format_bonding [S "$"] = Err EValue /\ format_bonding [S "$7"] = Err EKey.
Proof. exact format_bonding_examples. Qed.

Print Assumptions C08_format_bonding_spec.
Print Assumptions C08_format_bonding_order1.
Print Assumptions C08_format_bonding_single.
Print Assumptions C08_format_bonding_first_only_partial.
Print Assumptions C08_format_bonding_drops_prefix.
Print Assumptions C08_format_bonding_refuted.
