(** Property C08 — fragments and complete strings round-trip through the writer.
    Only statements, each closed by [exact]; proofs in Write/FormatBondingSpec.v and Write/FormatStripRound.v.
    All theorems are about [format_bonding] as GENERATED from write_cgsmiles.py (Gen/WriterGen.v) on every run.
    Since the fix 1a5deb0 in /repo (`bond_str += order_symb`) the FULL statement about format_bonding holds
    ([C08_format_bonding_spec]; before, it was refuted by ["$a1";"$b2"] -> "=[$b]"), and composed with the
    strip component's theorem [strip_correct] it gives the descriptor round trip for orders 0..4
    ([C08_format_strip_roundtrip]; order 0 included since the reader fix 0d0f450).
    The fragment-set and whole-string round trips are NOT proved: they are decided per run on the
    implementation's outputs (Write/FragCheck.v) with the writer model (Write/WriteImpl.v) tied to the code by
    the correspondence check. *)
From Coq Require Import String.
From Coq Require Import List Ascii ZArith Bool.
From CGV Require Import Base.PyBase Base.PyVal Base.NxGraph Gen.WriterGen Dialect.DialectImpl Write.WriteImpl Write.FragDefs
     Write.FragCheck Write.FormatBondingSpec.
From CGV Require Import Frag.NDict Frag.StripImpl Frag.FragText Write.FormatStripRound.
From CGV Require Import Write.WriteProofs Write.PathRound Write.FragRead Write.CoarseChain Write.CoarseFrags Write.CoarseGraph Write.CoarseTrack Write.CoarseGraphX Write.CoarseFragsX Write.AtomTree Write.AtomFrags Write.AtomIso Reader.Grammar Reader.ReaderImpl.
From CGV Require Import Write.WriteDefs Write.TreeDefs Write.TreeRound Write.RingRound Write.FullMachine Write.FullRound Write.FullDomain Reader.Lin.
From Coq Require Import Permutation.
From CGV Require Import Frag.SmilesParse Frag.SmilesSpec Frag.Template Write.TreeDefs Write.DfsProofs Write.ConnFacts.
Import ListNotations.
Open Scope Z_scope.

(** FULL: ANY descriptor list with orders 0..4 is written as the concatenation of sym ++ "[" ++ kind label ++ "]"
    (sym empty for order 1) *)
Theorem C08_format_bonding_spec : forall L : list (pystr * nat),
  Forall (fun klo => (snd klo <= 4)%nat) L ->
  format_bonding (map (fun klo => mk_descr (fst klo) (snd klo)) L) = Ok (fb_expected L).
Proof. exact format_bonding_spec. Qed.
(** exact output for lists of order-1 descriptors *)
Theorem C08_format_bonding_order1 : forall kls : list pystr,
  format_bonding (map (fun kl => mk_descr kl 1) kls) = Ok (concat (map wrap kls)).
Proof. exact format_bonding_order1. Qed.
(** one descriptor of any order 0..4 is written sym[kind label] *)
Theorem C08_format_bonding_single : forall kl o, (o <= 4)%nat ->
  format_bonding [mk_descr kl o] = Ok (symtext o ++ wrap kl).
Proof. exact format_bonding_single. Qed.

(** descriptor ROUND TRIP, unbounded: for every organic-subset atom [e] and every list L of descriptors
    (kind in $ > < !, alphanumeric label, order 0..4, any length, any mixture of orders) the text
    e ++ format_bonding(L) is read by the strip model as clean text [e] with exactly L on atom 0.
    Writer half: this component (generated code); reader half: Frag.FragProofs.strip_correct (the model
    StripImpl is tied to read_fragments.py by the strip component's own correspondence check). *)
Theorem C08_format_strip_roundtrip : forall fo e (L : list dspec),
  str_in e organic_atoms = true -> forallb d_ok L = true ->
  exists fb, format_bonding (map d_stored L) = Ok fb /\
             strip_bonding_descriptors fo (e ++ fb)
             = Ok (e, fold_left (fun d x => nd_append 0 (d_stored x) d) L [], [], []).
Proof. exact format_strip_roundtrip. Qed.
(** the same round trip behind a COARSE node [#name] (names without ']' and ';', no annotation): clean text
    "[#name]", the list L on node 0, the node's parsed (empty) annotation *)
Theorem C08_format_strip_roundtrip_coarse : forall fo nm (L : list dspec) a0,
  body_ok ("#"%char :: nm) = true -> fragment_node_parser fo [] = Ok a0 -> forallb d_ok L = true ->
  exists fb, format_bonding (map d_stored L) = Ok fb /\
             strip_bonding_descriptors fo (coarse_text nm ++ fb)
             = Ok (coarse_text nm, fold_left (fun d x => nd_append 0 (d_stored x) d) L [], [], nd_update 0 a0 []).
Proof. exact format_strip_roundtrip_coarse. Qed.
(** coarse fragment CHAINS, unbounded: for a chain of coarse nodes (names, descriptor lists with orders 0..4, bonds
    of order 0..4, any length) write_graph(smiles_format=False) writes a text that the model of the coarse branch
    of fragment_iter (strip_bonding_descriptors through the strip component's strip_correct, then
    read_fragment_cgsmiles: the reader component's reader_sim_lin_nobrace + its post-processing) reads as the chain
    numbered 0..n with the same names' attributes and bond orders, post-processed with exactly the descriptor dict
    the chain carried.  The graph written is the one read_fragment_cgsmiles builds (`fragname` = the fragment's
    name on every node, own name in `atomname`, descriptors in `bonding`), written as write_cgsmiles_fragments does
    since fix 6d8cc68 (name_attr='atomname'): the read-back nodes carry the same atomname, bonding and fragname.
    Trees with a symbol on a branch edge are outside (the strip grammar has no symbol before "("). *)
Theorem C08_coarse_chain_roundtrip : forall fo A a0 fragname k0 x0 (l : list (Z * Z * nodex)),
  fragment_node_parser fo [] = Ok a0 ->
  NoDup (k0 :: rest_keys (mk_restx fragname l)) -> (forall k, In k (rest_keys (mk_restx fragname l)) -> k0 <= k) ->
  okn x0 -> Forall (fun y => 0 <= fst (fst y) <= 4 /\ okn (snd y)) l ->
  Forall (fun n => name_ok fo n = true) (path_names (fst x0) (plainl l)) ->
  Forall (fun n => parse_graph_base_node fo n = Ok (A n)) (path_names (fst x0) (plainl l)) ->
  exists txt, write_graph_by (S "atomname") false (fun _ => true) (path_graph k0 (fattrs fragname x0) (mk_restx fragname l)) [] = Ok txt
    /\ read_coarse_fragment fo fragname txt
       = (let sp := cspec a0 sinit x0 l in
          let g := nx_build A (fst x0) (plainl l) in
          let g1 := set_nodes_from g (S "atomname") (get_node_attributes g (S "fragname")) in
          let g2 := set_nodes_from g1 (S "bonding") (bonding_values (s_desc sp)) in
          let g3 := set_all_nodes g2 (S "fragname") (VStr fragname) in
          let g4 := set_all_nodes g3 (S "fragid") (VInt 0) in
          let g5 := set_all_nodes g4 (S "w") (VInt 1) in
          Ok (update_nodes_from g5 (node_updates (s_ann sp)))).
Proof. exact coarse_chain_roundtrip. Qed.
Example C08_coarse_chain_nonvacuous :
  write_graph_by (S "atomname") false (fun _ => true) (path_graph 3 (fattrs (S "X") ex_x0) (mk_restx (S "X") ex_l)) []
  = Ok (S "[#A][$a]=[>]=[#B].[!x].[#PEO][#A]#[<]")
  /\ match read_coarse_fragment (fun _ => None) (S "X") (S "[#A][$a]=[>]=[#B].[!x].[#PEO][#A]#[<]") with
     | Ok g => map (fun n => (nk n, aget (S "atomname") (na n), aget (S "bonding") (na n), aget (S "fragname") (na n))) g
               = [(0, Some (VStr (S "A")), Some (VList [VStr (S "$a1"); VStr (S ">2")]), Some (VStr (S "X")));
                  (1, Some (VStr (S "B")), Some (VList [VStr (S "!x0")]), Some (VStr (S "X")));
                  (2, Some (VStr (S "PEO")), None, Some (VStr (S "X")));
                  (3, Some (VStr (S "A")), Some (VList [VStr (S "<3")]), Some (VStr (S "X")))]
     | Err _ => False
     end.
Proof. exact coarse_chain_example. Qed.

(** a LIST of coarse chain fragments, any number, unbounded: write_cgsmiles_fragments(smiles_format=False) writes
    "{#name1=text1,#name2=text2,...}" (dict order, `,` between the definitions, none after the last) *)
Theorem C08_write_coarse_fragments : forall fs, Forall cf_wok fs ->
  write_cgsmiles_fragments false (map cf_entry fs) = Ok (S "{" ++ join (S ",") (map cf_def fs) ++ S "}").
Proof. exact write_coarse_fragments. Qed.
(** ... the splitting of fragment_iter (the strip component's model [fragment_split]) gives the pairs (name, text)
    back in order: fragment names without ',' and '=', node names without ',' *)
Theorem C08_split_coarse_fragments : forall fs, fs <> [] -> Forall cf_sok fs ->
  fragment_split (S "{" ++ join (S ",") (map cf_def fs) ++ S "}") = map (fun f => (cf_name f, cf_text f)) fs.
Proof. exact split_coarse_fragments. Qed.
(** ... and fragment_iter(all_atom=False) on the written text ([read_coarse_fragments] = fragment_split, then per
    definition strip_bonding_descriptors and read_fragment_cgsmiles) yields, in the same order and under the same
    names, every chain numbered 0..n with its names' attributes, bond orders and exactly its descriptor dict
    ([cf_read]); descriptors of the four kinds, orders 0..4, bonds 0..4.  Hypotheses kept per fragment ([cf_ok]):
    distinct keys with the smallest at one end, names accepted by the strip and reader grammars and free of ',' (and
    of '=' for the fragment name). *)
Theorem C08_coarse_fragments_roundtrip : forall fo A a0 (fs : list cfrag),
  fragment_node_parser fo [] = Ok a0 -> fs <> [] -> Forall (cf_ok fo A) fs ->
  exists txt, write_cgsmiles_fragments false (map cf_entry fs) = Ok txt
              /\ txt = S "{" ++ join (S ",") (map cf_def fs) ++ S "}"
              /\ read_coarse_fragments fo txt = map (fun f => (cf_name f, cf_read A a0 f)) fs.
Proof. exact coarse_fragments_roundtrip. Qed.
Example C08_coarse_fragments_nonvacuous :
  write_cgsmiles_fragments false (map cf_entry ex_fs) = Ok (S "{#X=[#A][$a]=[>]=[#B].[!x].[#PEO][#A]#[<],#PEO=[#PEO][<][#PEO][>]}")
  /\ map fst (read_coarse_fragments (fun _ => None) (S "{#X=[#A][$a]=[>]=[#B].[!x].[#PEO][#A]#[<],#PEO=[#PEO][<][#PEO][>]}")) = [S "X"; S "PEO"]
  /\ forallb (fun nr => match snd nr with Ok _ => true | Err _ => false end)
             (read_coarse_fragments (fun _ => None) (S "{#X=[#A][$a]=[>]=[#B].[!x].[#PEO][#A]#[<],#PEO=[#PEO][<][#PEO][>]}")) = true.
Proof. exact coarse_fragments_example. Qed.

(** coarse fragment graphs of ANY shape (branches, rings, ANY bond order 0..4 on ANY edge), unbounded, no side condition.
    The fragment graph is a graph g of C07's domain (names) without aromatic flags, decorated with a descriptor list per
    node ([decorate_graph F D g]: the attributes read_fragment_cgsmiles builds).  For the DFS tree T the writer uses, with
    [items] the writer's item list and [dl] = items paired with the descriptors in the order of writing: the decorated
    item list is a text of the strip grammar extended by a bond symbol directly in front of "(" ([dl_wfx]; the strip
    component's [wfx] / C13_partial_branch_symbol: the writer puts the order of a branch edge there, `[#A]=([#B])[#C]`),
    write_graph(name_attr='atomname') returns the rendering of that list, the strip model splits it into the clean text
    and the descriptor dict {i: descriptors of the i-th written node}, the reader model reads the clean text as a graph
    isomorphic to g ([graph_iso], C07's machinery), and the model of the coarse branch of fragment_iter returns that
    graph post-processed with exactly this dict.  (The former hypotheses [dl_wf] / [nosymb] -- single bonds on branch
    edges -- are gone: CoarseGraphX.ltrackx_tree holds for every tree.) *)
Theorem C08_coarse_graph_roundtrip : forall fo a0 dh F (D : Z -> list dspec) g tr,
  fragment_node_parser fo [] = Ok a0 ->
  wf_C07 g = true -> (forall n, In n g -> aget (S "aromatic") (na n) = None) ->
  ring_contract g (dfs_tree g) tr = true ->
  (forall k, forallb d_ok (D k) = true) ->
  exists T, NoDup (rkeys T) /\ (forall x, In x (rkeys T) <-> In x (node_keys g)) /\
    let items := the_items (name_of g) (esym_of g) (rsym_of g tr) T tr in
    let dl := combine items (map D (worder T)) in
    dl_wfx ZStart 0 dl = true /\
    exists txt h, txt = render (ditems dl)
       /\ write_graph_by (S "atomname") false dh (decorate_graph F D g) tr = Ok txt
       /\ strip_bonding_descriptors fo txt = Ok (lins_str items, ddict 0 dl [], [], adict a0 0 dl [])
       /\ read_cgsmiles fo (lins_str items) = Ok h
       /\ graph_iso (fun k => base_attrs (name_of g k)) g h
       /\ read_coarse_fragment fo F txt = Ok (post_fragment F h (ddict 0 dl []) (adict a0 0 dl [])).
Proof. exact coarse_graph_roundtrip_any. Qed.
(** non-vacuity of the new part: double bonds on BOTH branch edges of one node (written "=(" twice), a ring closed by a
    triple bond; the item list is outside the old [dl_wf] and inside [dl_wfx]; the text and what is read back *)
Example C08_coarse_graph_symbol_nonvacuous :
  wf_C07 ex_xg = true /\ ring_contract ex_xg (dfs_tree ex_xg) ex_xtr = true /\ dfs_edges ex_xg 0 = Ok (redges ex_xT)
  /\ (let dl := combine (the_items (name_of ex_xg) (esym_of ex_xg) (rsym_of ex_xg ex_xtr) ex_xT ex_xtr) (map ex_xD (worder ex_xT)) in
      dl_wf ZStart 0 dl = false /\ dl_wfx ZStart 0 dl = true)
  /\ ex_xtext = Ok (S "[#A][$a]#1[#B]=([#D])=([#PEO]=[>].[!x])[#C]1")
  /\ match read_coarse_fragment (fun _ => None) (S "X") (S "[#A][$a]#1[#B]=([#D])=([#PEO]=[>].[!x])[#C]1") with
     | Ok h => map (fun n => (nk n, aget (S "atomname") (na n), aget (S "bonding") (na n), map (fun e => (fst e, aget (S "order") (snd e))) (nadj n))) h
               = [(0, Some (VStr (S "A")), Some (VList [VStr (S "$a1")]), [(1, Some (VInt 1)); (4, Some (VInt 3))]);
                  (1, Some (VStr (S "B")), None, [(0, Some (VInt 1)); (2, Some (VInt 2)); (3, Some (VInt 2)); (4, Some (VInt 1))]);
                  (2, Some (VStr (S "D")), None, [(1, Some (VInt 2))]);
                  (3, Some (VStr (S "PEO")), Some (VList [VStr (S ">2"); VStr (S "!x0")]), [(1, Some (VInt 2))]);
                  (4, Some (VStr (S "C")), None, [(1, Some (VInt 1)); (0, Some (VInt 3))])]
     | Err _ => False
     end.
Proof. exact coarse_graph_any_example. Qed.
(** non-vacuity: a fragment with a branch, a ring closed by a double bond, a double bond on the chain, descriptors of
    three kinds and of orders 1, 2, 0: hypotheses hold, the text, and what is read back *)
Example C08_coarse_graph_nonvacuous :
  wf_C07 ex_cg = true /\ ring_contract ex_cg (dfs_tree ex_cg) ex_ctr = true /\ dfs_edges ex_cg 0 = Ok (redges ex_cT)
  /\ dl_wf ZStart 0 (combine (the_items (name_of ex_cg) (esym_of ex_cg) (rsym_of ex_cg ex_ctr) ex_cT ex_ctr) (map ex_cD (worder ex_cT))) = true
  /\ write_graph_by (S "atomname") false (fun _ => true) (decorate_graph (S "X") ex_cD ex_cg) ex_ctr
     = Ok (S "[#A][$a]=1=[#B]([#PEO]=[>].[!x])[#C]1")
  /\ match read_coarse_fragment (fun _ => None) (S "X") (S "[#A][$a]=1=[#B]([#PEO]=[>].[!x])[#C]1") with
     | Ok h => map (fun n => (nk n, aget (S "atomname") (na n), aget (S "bonding") (na n), aget (S "fragname") (na n), map fst (nadj n))) h
               = [(0, Some (VStr (S "A")), Some (VList [VStr (S "$a1")]), Some (VStr (S "X")), [1; 3]);
                  (1, Some (VStr (S "B")), None, Some (VStr (S "X")), [0; 2; 3]);
                  (2, Some (VStr (S "PEO")), Some (VList [VStr (S ">2"); VStr (S "!x0")]), Some (VStr (S "X")), [1]);
                  (3, Some (VStr (S "C")), None, Some (VStr (S "X")), [1; 0])]
     | Err _ => False
     end.
Proof. exact coarse_graph_example. Qed.

(** a LIST of coarse fragments of ANY shape, any number, unbounded ([gfrag] = name, plain graph, descriptors per node,
    transcript of the ring-edge set, default-H nodes; [gf_ok]: fragment name free of ',' and '=', the graph in C07's domain
    without aromatic flags, the transcript contract, descriptors of the four kinds with orders 0..4): there are texts
    t_1..t_n, one per fragment, with [gf_back] = everything C08_coarse_graph_roundtrip says of fragment i and t_i (t_i is
    what write_graph writes; the strip model splits it; the clean text is read as a graph isomorphic to the fragment;
    the coarse branch of fragment_iter returns it post-processed with exactly the fragment's descriptor dict), such that
    write_cgsmiles_fragments(smiles_format=False) writes "{#name1=t_1,...,#namen=t_n}", the splitting of fragment_iter
    ([fragment_split], the strip component's model) returns the pairs (name_i, t_i) in order -- no t_i contains ','
    (CoarseFragsX.nocomma_ditems) --, and fragment_iter(all_atom=False) yields, in order, under each name, the result of
    the coarse branch on t_i (whose value [gf_back] gives). *)
Theorem C08_coarse_fragments_roundtrip_any : forall fo a0 (fs : list gfrag),
  fragment_node_parser fo [] = Ok a0 -> fs <> [] -> Forall gf_ok fs ->
  exists ts, Forall2 (gf_back fo a0) fs ts /\
    let txt := S "{" ++ join (S ",") (map gf_def (combine fs ts)) ++ S "}" in
    write_cgsmiles_fragments false (map gf_entry fs) = Ok txt
    /\ fragment_split txt = combine (map gf_name fs) ts
    /\ read_coarse_fragments fo txt
       = map (fun ft => (gf_name (fst ft), read_coarse_fragment fo (gf_name (fst ft)) (snd ft))) (combine fs ts).
Proof. exact coarse_fragments_roundtrip_any. Qed.
(** [gf_back] spelled out (definitional) *)
Theorem C08_gf_back_spelled : forall fo a0 F g D tr dhl t, gf_back fo a0 (F, g, D, tr, dhl) t <->
  exists T h, NoDup (rkeys T) /\ (forall x, In x (rkeys T) <-> In x (node_keys g)) /\
    let items := the_items (name_of g) (esym_of g) (rsym_of g tr) T tr in
    let dl := combine items (map D (worder T)) in
    t = render (ditems dl)
    /\ write_graph_by (S "atomname") false (fun k => memz k dhl) (decorate_graph F D g) tr = Ok t
    /\ strip_bonding_descriptors fo t = Ok (lins_str items, ddict 0 dl [], [], adict a0 0 dl [])
    /\ read_cgsmiles fo (lins_str items) = Ok h
    /\ graph_iso (fun k => base_attrs (name_of g k)) g h
    /\ read_coarse_fragment fo F t = Ok (post_fragment F h (ddict 0 dl []) (adict a0 0 dl [])).
Proof. exact (fun fo a0 F g D tr dhl t => conj (fun H => H) (fun H => H)). Qed.
(** non-vacuity: two fragments with rings and branches, the first with "=(" twice *)
Example C08_coarse_fragments_any_nonvacuous :
  Forall gf_ok ex_gfs
  /\ write_cgsmiles_fragments false (map gf_entry ex_gfs) = Ok ex_gtxt
  /\ map fst (read_coarse_fragments (fun _ => None) ex_gtxt) = [S "X"; S "Y"]
  /\ map (fun nr => match snd nr with Ok h => map (fun n => (nk n, aget (S "atomname") (na n), aget (S "bonding") (na n))) h | Err _ => [] end)
         (read_coarse_fragments (fun _ => None) ex_gtxt)
     = [[(0, Some (VStr (S "A")), Some (VList [VStr (S "$a1")])); (1, Some (VStr (S "B")), None); (2, Some (VStr (S "D")), None);
         (3, Some (VStr (S "PEO")), Some (VList [VStr (S ">2"); VStr (S "!x0")])); (4, Some (VStr (S "C")), None)];
        [(0, Some (VStr (S "A")), Some (VList [VStr (S "$a1")])); (1, Some (VStr (S "B")), None);
         (2, Some (VStr (S "PEO")), Some (VList [VStr (S ">2"); VStr (S "!x0")])); (3, Some (VStr (S "C")), None)]].
Proof. exact coarse_fragments_any_example. Qed.
Example C08_ex_gtxt : to_string ex_gtxt = "{#X=[#A][$a]#1[#B]=([#D])=([#PEO]=[>].[!x])[#C]1,#Y=[#A][$a]=1=[#B]([#PEO]=[>].[!x])[#C]1}"%string.
Proof. reflexivity. Qed.

(** ALL-ATOM fragments, ring-free, unbounded (Write/AtomTree.v).  ASSUMED, exactly:
    the fragment graph g is a well-formed networkx graph (distinct keys, symmetric adjacency, no self loops); [sp k] gives
    for every node its element, hydrogen count, charge and whether it is written bare, inside the finite domain
    [aspec_ok]: element one of B C N O P S F Cl Br I ([upper_organic]), 0 <= hcount <= 9, -3 <= charge <= 3, bare only
    with charge 0; every node satisfies [atom_ok dh sp D]: `element`, `charge` (absent = 0), `hcount` (absent = 0) are
    those of sp k; `aromatic` absent or False; no rs_isomer / isotope / class; it is written bare exactly when its charge
    is 0 and the transcript has_default_h_count says True (dh k) -- that is pysmiles' format_atom --, else as the bracket
    atom [E Hn charge]; `bonding` is absent when D k = [] and else the list of D k's descriptors as stored ("$a1": four
    kinds, alphanumeric label, order 0..4); every edge carries an integer `order` 0..4 ([orders_ok]); the ring-edge
    transcript is [] (ring-free; rings are NOT covered); the annotation parser accepts the empty annotation
    (fragment_node_parser fo [] = Ok a0).  THEN, for the DFS tree T the writer uses (a rose tree on the nodes reachable
    from min(g), its edges are edges of g): write_graph(smiles_format=True, name_attr='atomname') returns [tree_text]:
    the rendering of the writer's visit list (branch edges written "(" symbol atom ... ")"), in the order [worder T]; the
    strip model (strip component's main lemma, through CoarseGraph.strip_items) splits it into the SMILES text
    [tree_clean], the dict {i: descriptors of the i-th written atom} ([ddl], closed form
    [C08_atom_tree_descriptor_dict]), no E/Z marks, and the annotation dict with one (empty-annotation) entry per bracket
    atom ([annl], closed form [C08_atom_tree_annotation_dict]); Frag's model of pysmiles (tokenizer + base_smiles_parser +
    parse_atom + bond orders: SmilesProofs.render_parse, SmilesSpec.graph_of) reads [tree_clean] as [tree_sgraph]: atom i =
    the i-th written atom with [aattrs] (bare: element / charge 0 / aromatic False; bracket: charge / hcount / aromatic
    False / element -- parse_atom's regex engine on the 1400 atom texts of the domain is decided by computation,
    [C08_atom_domain_table]), one bond per tree edge between the positions of its ends with the order of its symbol ('.' 0,
    none 1, '=' 2, '#' 3, '$' 4); and the model of fragment_iter(all_atom=True) up to pysmiles' hydrogen completion
    ([Template.fragment_template]) returns [assemble F tree_sgraph dict annotations]: fragname F, fragid 0, weight 1 and
    `bonding` on every atom.  NOT covered here: hcount after fill_valence (Frag/TemplateFinal.v), atomname, the
    explicit-hydrogen round of read_fragment_smiles. *)
Theorem C08_atom_tree_roundtrip : forall dh sp D g,
  (forall k, aspec_ok (sp k) = true) -> (forall k, forallb d_ok (D k) = true) ->
  (forall n, In n g -> atom_ok dh sp D n) -> orders_ok g ->
  forall fo a0 F start, fragment_node_parser fo [] = Ok a0 -> graph_wf g = true -> min_node g = Ok start ->
  exists T, rkey T = start /\ dfs_edges g start = Ok (redges T) /\ NoDup (rkeys T)
    /\ (forall x, reachable g start x -> In x (rkeys T))
    /\ (forall e, In e (redges T) -> In (snd e) (neighbors g (fst e)))
    /\ let eo := eo_of g in
       let dd := ddl 0 (map D (worder T)) [] in
       let ann := annl a0 0 (map (fun k => negb (a_bare (sp k))) (worder T)) [] in
       write_graph_full_by (S "atomname") true dh g [] = Ok {| r_text := tree_text (stok sp) D eo T; r_visit := worder T; r_mtrace := [] |}
       /\ strip_bonding_descriptors fo (tree_text (stok sp) D eo T) = Ok (tree_clean (stok sp) eo T, dd, [], ann)
       /\ smiles_parse (tree_clean (stok sp) eo T) = Ok (tree_sgraph (sattrs sp) eo T)
       /\ fragment_template fo F (tree_text (stok sp) D eo T) = Ok (assemble F (tree_sgraph (sattrs sp) eo T) dd ann).
Proof. exact atom_tree_graph. Qed.
(** the same at the level of the writer's loop: ANY rose tree with distinct keys as DFS transcript, any formatting
    functions that return the atom text followed by the descriptors / the symbol of the edge *)
Theorem C08_atom_tree_transcript : forall fo a0 F sp D eo T n fmt sym rsym,
  fragment_node_parser fo [] = Ok a0 ->
  NoDup (rkeys T) -> (rsize T <= n)%nat ->
  (forall k, aspec_ok (sp k) = true) -> (forall k, forallb d_ok (D k) = true) ->
  (forall k, In k (rkeys T) -> fmt k = Ok (render_tok (stok sp k) ++ fbt (D k))) ->
  (forall e, In e (redges T) -> sym (fst e) (snd e) = Ok (optb (eo (fst e) (snd e)))) ->
  let dd := ddl 0 (map D (worder T)) [] in
  let ann := annl a0 0 (map (fun k => negb (a_bare (sp k))) (worder T)) [] in
  run_writer n (mk_env true fmt sym rsym (redges T) []) (rkey T)
    = Ok {| r_text := tree_text (stok sp) D eo T; r_visit := worder T; r_mtrace := [] |}
  /\ strip_bonding_descriptors fo (tree_text (stok sp) D eo T) = Ok (tree_clean (stok sp) eo T, dd, [], ann)
  /\ smiles_parse (tree_clean (stok sp) eo T) = Ok (tree_sgraph (sattrs sp) eo T)
  /\ fragment_template fo F (tree_text (stok sp) D eo T) = Ok (assemble F (tree_sgraph (sattrs sp) eo T) dd ann).
Proof. exact atom_tree_transcript. Qed.
(** ... and for ANY atom tokens (bare organic-subset atom or bracket atom without annotation) that pysmiles' model parses
    as non-aromatic atoms: the finite domain above is only used to discharge these two hypotheses *)
Theorem C08_atom_tree_transcript_gen : forall fo a0 F at_ aat D eo T n fmt sym rsym,
  fragment_node_parser fo [] = Ok a0 ->
  NoDup (rkeys T) -> (rsize T <= n)%nat ->
  (forall k, atom_tok (at_ k) = true) -> (forall k, parse_atom (clean_tok (at_ k)) = Ok (aat k)) ->
  (forall k, aget (S "aromatic") (aat k) = Some (VBool false)) -> (forall k, forallb d_ok (D k) = true) ->
  (forall k, In k (rkeys T) -> fmt k = Ok (render_tok (at_ k) ++ fbt (D k))) ->
  (forall e, In e (redges T) -> sym (fst e) (snd e) = Ok (optb (eo (fst e) (snd e)))) ->
  let dd := ddl 0 (map D (worder T)) [] in
  let ann := annl a0 0 (map (fun k => is_bracket (at_ k)) (worder T)) [] in
  run_writer n (mk_env true fmt sym rsym (redges T) []) (rkey T)
    = Ok {| r_text := tree_text at_ D eo T; r_visit := worder T; r_mtrace := [] |}
  /\ strip_bonding_descriptors fo (tree_text at_ D eo T) = Ok (tree_clean at_ eo T, dd, [], ann)
  /\ smiles_parse (tree_clean at_ eo T) = Ok (tree_sgraph aat eo T)
  /\ fragment_template fo F (tree_text at_ D eo T) = Ok (assemble F (tree_sgraph aat eo T) dd ann).
Proof. exact atom_tree_transcript_gen. Qed.
(** the finite atom domain: the token is an atom token of the strip / SMILES grammars, pysmiles' parse_atom (model)
    returns [aattrs], the text has no ',' *)
Theorem C08_atom_domain_table : forall s, aspec_ok s = true ->
  atom_tok (atok_of s) = true /\ parse_atom (clean_tok (atok_of s)) = Ok (aattrs s)
  /\ forallb (fun c => negb (Ascii.eqb c ","%char)) (render_tok (atok_of s)) = true.
Proof. exact aspec_table. Qed.
(** what was read back IS the fragment, renumbered by k |-> position of k in the order of writing: the positions are a
    bijection between the tree's nodes and 0..n-1 (no duplicates, a permutation of the nodes); atom [pos k] of the
    template carries k's parsed attributes (element, charge, hcount of a bracket atom, not aromatic), the fragment's
    name, exactly k's descriptors as `bonding` (none when k has none) and, for a bracket atom, the parse of the empty
    annotation; the template's bonds are exactly the tree edges, ends mapped by [pos], with their orders *)
Theorem C08_atom_tree_template_iso : forall a0 F (aat : Z -> attrs) (br : Z -> bool) D eo T, NoDup (rkeys T) ->
  let W := worder T in
  let Tm := assemble F (tree_sgraph aat eo T) (ddl 0 (map D W) []) (annl a0 0 (map br W) []) in
  NoDup W /\ Permutation W (rkeys T) /\ length (t_nodes Tm) = length W
  /\ (forall k, In k (rkeys T) ->
        nth_error W (pos W k) = Some k
        /\ nth_error (t_nodes Tm) (pos W k)
           = Some (template_node F (aat k) (match D k with [] => None | Ds => Some (map d_stored Ds) end)
                                 (if br k then Some (aupdate [] a0) else None)))
  /\ Permutation (t_edges Tm) (map (fun e => (pos W (fst e), pos W (snd e), ordv (eo (fst e) (snd e)))) (redges T)).
Proof. exact atom_tree_template_iso. Qed.
(** ring-free = the ring-edge transcript is []: under the writer's contract for that transcript EVERY bond of g is an
    edge of the DFS tree, so the bonds read back (the tree edges, C08_atom_tree_template_iso) are all the bonds of g *)
Theorem C08_atom_tree_all_bonds : forall g T start, graph_wf g = true -> min_node g = Ok start -> dfs_edges g start = Ok (redges T) ->
  ring_contract g (dfs_tree g) [] = true ->
  forall u v, NxGraph.has_edge g u v = true -> In (u, v) (redges T) \/ In (v, u) (redges T).
Proof. exact ring_free_all_tree. Qed.
(** the descriptor dict in closed form: one entry per atom that has descriptors, keyed by its position *)
Theorem C08_atom_tree_descriptor_dict : forall Dl, ddl 0 Dl [] = dentries 0 Dl.
Proof. exact (fun Dl => ddl_entries Dl 0%nat [] (fun kv (H : In kv []) => match H with end)). Qed.
(** the annotation dict in closed form: one entry per bracket atom *)
Theorem C08_atom_tree_annotation_dict : forall a0 fl, annl a0 0 fl [] = aentries a0 0 fl.
Proof. exact (fun a0 fl => annl_entries a0 fl 0%nat [] (fun kv (H : In kv []) => match H with end)). Qed.
(** non-vacuity: a fragment with nested branches, a double bond on a branch edge, a triple bond on a chain edge, a charged
    atom written [N+], an atom without default hydrogen count written [CH2], the two-letter Cl, descriptors of the four
    kinds with orders 0, 1, 2: the hypotheses hold ([atom_ok_b] / [orders_ok_b] decide them: C08_atom_ok_decided,
    C08_orders_ok_decided), the text, the SMILES text, and what the model of fragment_iter reads back *)
Example C08_atom_tree_nonvacuous :
  let fo : float_oracle := fun _ => None in
  graph_wf ex_ag = true /\ min_node ex_ag = Ok 0 /\ ring_contract ex_ag (dfs_tree ex_ag) [] = true
  /\ forallb (atom_ok_b ex_dh ex_asp ex_aD) ex_ag = true /\ orders_ok_b ex_ag = true
  /\ forallb (fun k => aspec_ok (ex_asp k)) [0; 1; 2; 3; 4; 5; 6; 7] = true
  /\ dfs_edges ex_ag 0 = Ok (redges ex_aT)
  /\ write_graph_by (S "atomname") true ex_dh ex_ag [] = Ok (S "C[$a]([N+]([CH2]F)C#Cl=[<x].[!])=O[>]")
  /\ tree_text (stok ex_asp) ex_aD (eo_of ex_ag) ex_aT = S "C[$a]([N+]([CH2]F)C#Cl=[<x].[!])=O[>]"
  /\ tree_clean (stok ex_asp) (eo_of ex_ag) ex_aT = S "C([N+]([CH2]F)C#Cl)=O"
  /\ match fragment_template fo (S "X") (S "C[$a]([N+]([CH2]F)C#Cl=[<x].[!])=O[>]") with
     | Ok Tm => map (fun a => (aget (S "element") a, aget (S "charge") a, aget (S "hcount") a, aget (S "bonding") a)) (t_nodes Tm)
                = [(Some (VStr (S "C")), Some (VInt 0), None, Some (VList [VStr (S "$a1")])); (Some (VStr (S "N")), Some (VInt 1), Some (VInt 0), None);
                   (Some (VStr (S "C")), Some (VInt 0), Some (VInt 2), None); (Some (VStr (S "F")), Some (VInt 0), None, None);
                   (Some (VStr (S "C")), Some (VInt 0), None, None); (Some (VStr (S "Cl")), Some (VInt 0), None, Some (VList [VStr (S "<x2"); VStr (S "!0")]));
                   (Some (VStr (S "O")), Some (VInt 0), None, Some (VList [VStr (S ">1")]))]
                /\ t_edges Tm = [(0, 1, VInt 1); (1, 2, VInt 1); (2, 3, VInt 1); (1, 4, VInt 1); (4, 5, VInt 3); (0, 6, VInt 2)]%nat
     | Err _ => False
     end.
Proof. exact atom_tree_example. Qed.

(** THE PROPERTY'S STATEMENT for ring-free all-atom fragments of the finite atom domain, in one piece (Write/AtomIso.v):
    for a connected fragment graph g as in C08_atom_tree_roundtrip whose ring-edge transcript [] satisfies the writer's
    contract (ring-free), the text write_graph(smiles_format=True) writes is read by the model of
    fragment_iter(all_atom=True) (up to pysmiles' hydrogen completion) as a template ISOMORPHIC to g by k |-> position of k
    in the order of writing W: W lists exactly the nodes of g without repetition and the template has as many atoms; atom
    [pos W k] carries k's element, charge, hydrogen count (bracket atoms), aromatic False, the fragment's name and exactly
    k's bonding descriptors (kind, label, order) -- [template_node]; every bond u-v of g is a bond of the template between
    the positions of u and v with g's order ([gorder] = molecule.edges[u, v].get('order', 1)), and every bond of the
    template is such a bond of g. *)
Theorem C08_atom_fragment_iso : forall dh sp D g,
  (forall k, aspec_ok (sp k) = true) -> (forall k, forallb d_ok (D k) = true) ->
  (forall n, In n g -> atom_ok dh sp D n) -> orders_ok g ->
  forall fo a0 F start, fragment_node_parser fo [] = Ok a0 -> graph_wf g = true -> min_node g = Ok start ->
  connected g = true -> ring_contract g (dfs_tree g) [] = true ->
  exists txt Tm W,
    write_graph_by (S "atomname") true dh g [] = Ok txt /\ fragment_template fo F txt = Ok Tm
    /\ NoDup W /\ (forall k, In k W <-> In k (node_keys g)) /\ length (t_nodes Tm) = length W
    /\ (forall k, In k (node_keys g) ->
          nth_error W (pos W k) = Some k
          /\ nth_error (t_nodes Tm) (pos W k)
             = Some (template_node F (aattrs (sp k)) (match D k with [] => None | Ds => Some (map d_stored Ds) end)
                                   (if a_bare (sp k) then None else Some (aupdate [] a0))))
    /\ (forall u v, NxGraph.has_edge g u v = true ->
          In (pos W u, pos W v, gorder g u v) (t_edges Tm) \/ In (pos W v, pos W u, gorder g v u) (t_edges Tm))
    /\ (forall a b o, In (a, b, o) (t_edges Tm) ->
          exists u v, a = pos W u /\ b = pos W v /\ NxGraph.has_edge g u v = true /\ o = gorder g u v).
Proof. exact atom_fragment_iso_connected. Qed.
Example C08_atom_fragment_iso_nonvacuous : connected ex_ag = true /\ ring_contract ex_ag (dfs_tree ex_ag) [] = true /\ graph_wf ex_ag = true.
Proof. exact atom_fragment_iso_example. Qed.

(** a LIST of ring-free all-atom fragments, any number, unbounded ([afrag] = name, graph, atom attributes, descriptors,
    default-H nodes; [af_ok]: name free of ',' and '=', the hypotheses of C08_atom_tree_roundtrip with the transcript "has
    default H count" = membership in the list, a non-empty graph): there are texts t_1..t_n with [af_back] = everything
    C08_atom_tree_roundtrip says of fragment i and t_i, such that write_cgsmiles_fragments(smiles_format=True) writes
    "{#name1=t_1,...,#namen=t_n}", no t_i contains ',' so [fragment_split] returns the pairs (name_i, t_i) in order, and
    the model of fragment_iter(all_atom=True) up to the hydrogen completion yields, in order and under each name,
    [fragment_template] of t_i (whose value [af_back] gives: the fragment renumbered in the order of writing).
    The two list-level facts are generic ([C08_split_definitions], [C08_write_definitions]: ANY entries / texts). *)
Theorem C08_atom_fragments_roundtrip : forall fo a0 (fs : list afrag), fragment_node_parser fo [] = Ok a0 -> fs <> [] -> Forall af_ok fs ->
  exists ts, Forall2 (af_back fo a0) fs ts /\
    let txt := S "{" ++ join (S ",") (map nt_def (combine (map af_name fs) ts)) ++ S "}" in
    write_cgsmiles_fragments true (map af_entry fs) = Ok txt
    /\ fragment_split txt = combine (map af_name fs) ts
    /\ read_atom_fragments fo txt = map (fun nt => (fst nt, fragment_template fo (fst nt) (snd nt))) (combine (map af_name fs) ts).
Proof. exact atom_fragments_roundtrip. Qed.
Theorem C08_af_back_spelled : forall fo a0 F g sp D dhl t, af_back fo a0 (F, g, sp, D, dhl) t <->
  exists T, min_node g = Ok (rkey T) /\ dfs_edges g (rkey T) = Ok (redges T) /\ NoDup (rkeys T)
    /\ t = tree_text (stok sp) D (eo_of g) T
    /\ write_graph_by (S "atomname") true (fun k => memz k dhl) g [] = Ok t
    /\ strip_bonding_descriptors fo t
       = Ok (tree_clean (stok sp) (eo_of g) T, ddl 0 (map D (worder T)) [], [], annl a0 0 (map (fun k => negb (a_bare (sp k))) (worder T)) [])
    /\ smiles_parse (tree_clean (stok sp) (eo_of g) T) = Ok (tree_sgraph (sattrs sp) (eo_of g) T)
    /\ fragment_template fo F t = Ok (assemble F (tree_sgraph (sattrs sp) (eo_of g) T) (ddl 0 (map D (worder T)) [])
                                              (annl a0 0 (map (fun k => negb (a_bare (sp k))) (worder T)) [])).
Proof. exact (fun fo a0 F g sp D dhl t => conj (fun H => H) (fun H => H)). Qed.
(** generic: ANY non-empty list of (name, text) with names free of ',' '=' and texts free of ',' is split back *)
Theorem C08_split_definitions : forall nts : list (pystr * pystr), nts <> [] -> Forall nt_ok nts ->
  fragment_split (S "{" ++ join (S ",") (map nt_def nts) ++ S "}") = nts.
Proof. exact split_definitions. Qed.
(** generic: write_cgsmiles_fragments in either mode = "{" the definitions joined by "," "}" whenever every write_graph returns *)
Theorem C08_write_definitions : forall sf (es : list frag_entry) (ts : list pystr),
  Forall2 (fun (e : frag_entry) t => let '(nm, g, tr, dhl) := e in write_graph_by (S "atomname") sf (fun k => memz k dhl) g tr = Ok t) es ts ->
  write_cgsmiles_fragments sf es
  = Ok (S "{" ++ join (S ",") (map nt_def (combine (map (fun e : frag_entry => fst (fst (fst e))) es) ts)) ++ S "}").
Proof. exact write_definitions. Qed.
(** [atom_ok_b] / [orders_ok_b] decide the node and edge hypotheses *)
Theorem C08_atom_ok_decided : forall dh sp D n, atom_ok_b dh sp D n = true -> atom_ok dh sp D n.
Proof. exact atom_ok_dec. Qed.
Theorem C08_orders_ok_decided : forall g, orders_ok_b g = true -> orders_ok g.
Proof. exact orders_ok_dec. Qed.
Example C08_atom_fragments_nonvacuous :
  Forall af_ok ex_afs
  /\ write_cgsmiles_fragments true (map af_entry ex_afs) = Ok ex_atxt
  /\ map fst (read_atom_fragments (fun _ => None) ex_atxt) = [S "X"; S "Y"]
  /\ map (fun nr => match snd nr with Ok Tm => (map (fun a => (aget (S "element") a, aget (S "charge") a, aget (S "bonding") a)) (t_nodes Tm), t_edges Tm) | Err _ => ([], []) end)
         (read_atom_fragments (fun _ => None) ex_atxt)
     = [([(Some (VStr (S "C")), Some (VInt 0), Some (VList [VStr (S "$a1")])); (Some (VStr (S "N")), Some (VInt 1), None); (Some (VStr (S "C")), Some (VInt 0), None);
          (Some (VStr (S "F")), Some (VInt 0), None); (Some (VStr (S "C")), Some (VInt 0), None);
          (Some (VStr (S "Cl")), Some (VInt 0), Some (VList [VStr (S "<x2"); VStr (S "!0")])); (Some (VStr (S "O")), Some (VInt 0), Some (VList [VStr (S ">1")]))],
         [(0, 1, VInt 1); (1, 2, VInt 1); (2, 3, VInt 1); (1, 4, VInt 1); (4, 5, VInt 3); (0, 6, VInt 2)]%nat);
        ([(Some (VStr (S "C")), Some (VInt 0), None); (Some (VStr (S "S")), Some (VInt 0), Some (VList [VStr (S "$1")])); (Some (VStr (S "Br")), Some (VInt 0), None)],
         [(0, 1, VInt 1); (1, 2, VInt 1)]%nat)].
Proof. exact atom_fragments_example. Qed.
Example C08_ex_atxt : to_string ex_atxt = "{#X=C[$a]([N+]([CH2]F)C#Cl=[<x].[!])=O[>],#Y=CS[$]Br}"%string.
Proof. reflexivity. Qed.

Theorem C08_descriptors_on_atom0 : forall L : list dspec, L <> [] ->
  fold_left (fun d x => nd_append 0 (d_stored x) d) L [] = [(0%nat, map d_stored L)].
Proof. exact descs_on_atom0. Qed.

Example C08_nonvacuous :
  format_bonding [S "$a1"; S "$b2"] = Ok (S "[$a]=[$b]") /\ format_bonding [S "$2"; S ">x1"] = Ok (S "=[$][>x]")
  /\ format_bonding [S "$0"] = Ok (S ".[$]") /\ format_bonding [S "$"] = Err EValue /\ format_bonding [S "$7"] = Err EKey
  /\ format_bonding [S "$3"; S "<1"; S "!A2"] = Ok (S "#[$][<]=[!A]").
Proof. exact format_bonding_examples. Qed.
Example C08_roundtrip_nonvacuous :
  strip_bonding_descriptors (fun _ => None) (S "C[$a]=[$b]#[<].[!]") = Ok (S "C", [(0%nat, [S "$a1"; S "$b2"; S "<3"; S "!0"])], [], []).
Proof. exact format_strip_example. Qed.

Print Assumptions C08_format_bonding_spec.
Print Assumptions C08_format_bonding_order1.
Print Assumptions C08_format_bonding_single.
Print Assumptions C08_format_strip_roundtrip.
Print Assumptions C08_format_strip_roundtrip_coarse.
Print Assumptions C08_coarse_chain_roundtrip.
Print Assumptions C08_write_coarse_fragments.
Print Assumptions C08_split_coarse_fragments.
Print Assumptions C08_coarse_fragments_roundtrip.
Print Assumptions C08_coarse_graph_roundtrip.
Print Assumptions C08_coarse_fragments_roundtrip_any.
Print Assumptions C08_atom_tree_roundtrip.
Print Assumptions C08_atom_tree_transcript.
Print Assumptions C08_atom_tree_template_iso.
Print Assumptions C08_atom_tree_all_bonds.
Print Assumptions C08_atom_fragment_iso.
Print Assumptions C08_atom_tree_descriptor_dict.
Print Assumptions C08_atom_tree_annotation_dict.
Print Assumptions C08_atom_tree_transcript_gen.
Print Assumptions C08_atom_domain_table.
Print Assumptions C08_atom_fragments_roundtrip.
Print Assumptions C08_split_definitions.
Print Assumptions C08_write_definitions.
Print Assumptions C08_atom_ok_decided.
Print Assumptions C08_orders_ok_decided.
Print Assumptions C08_descriptors_on_atom0.
