(** Property C08 — fragments and complete strings round-trip through the writer.
    (statements are added below as they are proved) *)
From Coq Require Import String.
From Coq Require Import List Ascii ZArith Bool.
From CGV Require Import Base.PyBase Base.PyVal Base.NxGraph Gen.WriterGen Write.WriteImpl Write.FragDefs Write.FragCheck.
Import ListNotations.
Open Scope Z_scope.

Example C08_model_runs : format_bonding [S "$a1"; S "$b2"] = Ok (S "=[$b]").
Proof. vm_compute. reflexivity. Qed.
Print Assumptions C08_model_runs.
