(** Property C10 — the squash operator merges exactly the two marked atoms.
    Only statements, each closed by [exact]; proofs live in Hydro/SquashProofs.v. *)
From Coq Require Import String.
From Coq Require Import List Ascii ZArith Bool.
From CGV Require Import Base.PyBase Base.PyVal Base.NxGraph Gen.HydroGen Hydro.Hydrogens Hydro.Squash Hydro.SquashProofs.
Import ListNotations.
Open Scope Z_scope.

Theorem C10_constants : squash_self_loops = false /\ squash_concat_attrs = [S "fragid"; S "mapping"].
Proof. exact squash_constants. Qed.

Print Assumptions C10_constants.
