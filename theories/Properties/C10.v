(** Property C10 — shared atoms: the squash operator merges exactly the two marked atoms.
    Only statements, each closed by [exact]; the proofs live in Hydro/SquashProofs.v.
    [squash_self_loops], [squash_concat_attrs], [squash_prefix], [squash_edge_attr] are GENERATED from
    resolve.py on every run (Gen/HydroGen.v).

    After /repo commits 03eb080 (squash_atoms follows `squashed` to the atom that still exists and skips
    pairs that are already merged) and e7bad38 (the merged atom gets the smaller hydrogen count of its two
    copies) no defect class is open: the bookkeeping theorems hold for EVERY well-formed molecule graph
    (root-following lookups proved total, [C10_sq_root_total]; squash_atoms proved total on typed graphs,
    [C10_squash_total]); the former refutations (classes redundant-squash-cycle, stale-squashed-entry,
    stale-hcount-aromatic) are positive Examples on the same witnesses. *)
From Coq Require Import String.
From Coq Require Import List Ascii ZArith Bool.
From CGV Require Import Base.PyBase Base.PyVal Base.NxGraph Gen.HydroGen Hydro.Hydrogens Hydro.Squash
     Hydro.SquashDefs Hydro.SquashProofs Hydro.SquashTotal Hydro.ShareProofs Hydro.QuotientDefs Hydro.QuotientProofs Hydro.BangBonds Hydro.BangGraph.
From CGV Require Compose.Statements Compose.CutModel Compose.CutSkeleton Compose.GraphAdj Hydro.ShareCut Hydro.ShareCutTotal Hydro.SquashTotalAny Hydro.QuotientAttrs Hydro.NumTotal Hydro.ShareCutFull Hydro.ShareCutExamples Hydro.ShareCutImpl.
From CGV Require Hydro.HydroCheck Hydro.SquashCheck.
From CGV Require Resolve.GraphOps Resolve.CopyProofs Resolve.Bonding.
Import ListNotations.
Open Scope Z_scope.

(** networkx.contracted_nodes(G, u, v, self_loops=False) on a well-formed simple graph *)
Theorem C10_contracted_spec : forall g u v au av, wf_graph g -> u <> v ->
  nattrs g u = Some au -> nattrs g v = Some av ->
  exists h, contracted false g u v = Ok h /\
    node_keys h = filter (fun k => negb (Z.eqb k v)) (node_keys g) /\
    (forall y x, has_edge h y x = contracted_edge g u v y x) /\
    nattrs h u = Some (aset (S "contraction") (store_contraction au (VInt v) (attrs_to_pyval av)) au) /\
    nattrs h v = None /\
    (forall y, y <> u -> y <> v -> nattrs h y = nattrs g y).
Proof. exact contracted_spec. Qed.

(** the kept atom keeps the bonds of both; nothing else changes *)
Theorem C10_squash_neighbours : forall g u v au av h, wf_graph g -> u <> v ->
  nattrs g u = Some au -> nattrs g v = Some av -> contracted squash_self_loops g u v = Ok h ->
  wf_graph h /\ has_node h v = false /\
  (forall x, x <> u -> x <> v -> has_edge h u x = has_edge g u x || has_edge g v x) /\
  has_edge h u u = false /\
  (forall y x, y <> u -> y <> v -> x <> u -> x <> v -> has_edge h y x = has_edge g y x) /\
  (forall y x, has_edge h y x = contracted_edge g u v y x).
Proof. exact squash_neighbours. Qed.

(** the merged atom belongs to both coarse nodes; every other atom keeps its attributes *)
Theorem C10_squash_membership : forall g u v au av fu fv mu mv, wf_graph g -> u <> v ->
  nattrs g u = Some au -> nattrs g v = Some av ->
  aget (S "fragid") au = Some (VList fu) -> aget (S "fragid") av = Some (VList fv) ->
  aget (S "mapping") au = Some (VList mu) -> aget (S "mapping") av = Some (VList mv) ->
  hnum au -> hnum av ->
  forall sq a b bond, starts_squash bond = Ok true ->
  sq_root (sq_fuel sq) sq a = Ok u -> sq_root (sq_fuel sq) sq b = Ok v ->
  exists g2, squash_step (g, sq) (a, b, bond) = Ok (g2, sq_set v u sq) /\
    node_keys g2 = filter (fun k => negb (Z.eqb k v)) (node_keys g) /\
    (forall y x, has_edge g2 y x = contracted_edge g u v y x) /\
    (exists A, nattrs g2 u = Some A /\ aget (S "fragid") A = Some (VList (fu ++ fv))
               /\ aget (S "mapping") A = Some (VList (mu ++ mv))
               /\ (forall k, k <> S "fragid" -> k <> S "mapping" -> k <> S "contraction" -> k <> squash_min_attr ->
                           aget k A = aget k au)
               /\ aget squash_min_attr A = hcount_merged au av /\ hnum A) /\
    (forall y, y <> u -> y <> v -> nattrs g2 y = nattrs g y).
Proof. exact squash_membership. Qed.

(** the lookups `while node in squashed: node = squashed[node]` terminate and compute the one-pass root
    on every dict the loop can build ([fwd]: chains only run forward) *)
Theorem C10_sq_root_total : forall sq, fwd sq -> forall f x, (length sq < f)%nat ->
  sq_root f sq x = Ok (sq_pass sq x).
Proof. exact sq_root_pass. Qed.

(** node count, for every well-formed graph: one node fewer per merge; a pair whose ends already are one
    atom is skipped ([squash_plan] lists the merges) *)
Theorem C10_squash_count : forall g g', wf_graph g -> squash_atoms g = Ok g' ->
  wf_graph g' /\ (length g' + length (squash_plan [] (bang_items g)) = length g)%nat.
Proof. exact squash_count. Qed.
(** exactly one node fewer per `!` pair when no pair is redundant *)
Theorem C10_squash_count_per_pair : forall g g', wf_graph g -> squash_atoms g = Ok g' ->
  length (squash_plan [] (bang_items g)) = length (bang_items g) ->
  (length g' + length (bang_items g) = length g)%nat.
Proof. exact squash_count_per_pair. Qed.

(** TOTALITY: on a well-formed graph whose nodes carry list-valued fragid and mapping and whose `bonding`
    edge attributes are descriptor pairs, squash_atoms always returns (so the count theorem is unconditional) *)
Theorem C10_squash_total : forall g, wf_graph g -> typed_g g -> hnum_g g -> bondings_ok (edge_attr_items g squash_edge_attr) ->
  exists g', squash_atoms g = Ok g' /\ typed_g g' /\ wf_graph g' /\
             (length g' + length (squash_plan [] (bang_items g)) = length g)%nat.
Proof. exact squash_total. Qed.
(** the decidable forms of these hypotheses, evaluated by ./check C10 on every recorded input of squash_atoms *)
Theorem C10_hypotheses_decidable : forall g,
  (wf_graphb g = true -> wf_graph g) /\ (typed_gb g = true -> typed_g g) /\ (hnum_gb g = true -> hnum_g g) /\
  (bondings_okb g = true -> bondings_ok (edge_attr_items g squash_edge_attr)).
Proof. intros g. split; [apply wf_graphb_sound|]. split; [apply typed_gb_sound|]. split; [apply hnum_gb_sound|apply bondings_okb_sound]. Qed.
(** for resolver-produced graphs the typedness is not a hypothesis: it follows from what
    resolve_disconnected_molecule / merge_graphs establish (resolver component, Resolve/CopyProofs.v) and is
    kept by the all-atom bond-creation step *)
Theorem C10_squash_total_resolver : forall fd legacy meta m1 fg1 m2 fg2, CopyProofs.wf_dict fd ->
  GraphOps.resolve_disconnected fd meta = Ok (m1, fg1) -> GraphOps.bonding_step legacy true meta m1 fg1 = Ok (m2, fg2) ->
  wf_graph m2 -> hnum_g m2 -> bondings_ok (edge_attr_items m2 squash_edge_attr) ->
  exists g', squash_atoms m2 = Ok g' /\ typed_g g' /\ wf_graph g' /\
             (length g' + length (squash_plan [] (bang_items m2)) = length m2)%nat.
Proof. exact squash_total_resolver. Qed.

(** THE METAMORPHIC CLAUSE on the model, for one shared pair (any other atoms, `$` bonds and
    fragment-internal bonds around it): if the bonded graph [gs] of the overlapping description relates to
    the bonded graph [gd] of the disjoint one by [shares] (one extra node v', the copy of v next to u,
    instead of the cut bond u-v; a `!` bond v'~v; everything else identical), then squash_atoms gs is gd
    through the explicit atom map [phi v v'] — a bijection on nodes preserving adjacency — whichever
    of the two copies is kept; all other atoms keep their attributes; the kept copy belongs to both coarse
    nodes and its hydrogen count is the MINIMUM of the two copies' counts ([hcount_merged]). *)
Theorem C10_share_vs_cut_one : forall gd gs u v v' a b g', wf_graph gd -> wf_graph gs -> shares gd gs u v v' ->
  bang_items gs = [(a, b)] -> (a = v' /\ b = v) \/ (a = v /\ b = v') -> squash_atoms gs = Ok g' ->
  (forall y, has_node g' y = true -> has_node gd (phi v v' y) = true) /\
  (forall k, has_node gd k = true -> exists y, has_node g' y = true /\ phi v v' y = k) /\
  (forall y x, has_node g' y = true -> has_node g' x = true -> phi v v' y = phi v v' x -> y = x) /\
  (forall y x, has_node g' y = true -> has_node g' x = true ->
     has_edge g' y x = has_edge gd (phi v v' y) (phi v v' x)) /\
  (forall y, y <> v -> y <> v' -> nattrs g' y = nattrs gs y) /\
  (forall au av fu fv mu mv, nattrs gs a = Some au -> nattrs gs b = Some av ->
     aget (S "fragid") au = Some (VList fu) -> aget (S "fragid") av = Some (VList fv) ->
     aget (S "mapping") au = Some (VList mu) -> aget (S "mapping") av = Some (VList mv) -> hnum au -> hnum av ->
     exists A, nattrs g' a = Some A /\ aget (S "fragid") A = Some (VList (fu ++ fv)) /\
               aget (S "mapping") A = Some (VList (mu ++ mv)) /\ aget squash_min_attr A = hcount_merged au av).
Proof. exact share_vs_cut_one. Qed.
Example C10_share_vs_cut_one_nonvacuous :
  wf_graph gd_ex /\ wf_graph gs_ex /\ shares gd_ex gs_ex 0 1 2 /\ bang_items gs_ex = [(2, 1)] /\
  exists g', squash_atoms gs_ex = Ok g' /\ node_keys g' = [0; 2; 3] /\ neighbors g' 2 = [0; 3] /\
             node_get g' 2 (S "fragid") = Some (VList [VInt 0; VInt 1]).
Proof. exact share_vs_cut_one_nonvacuous. Qed.
(** ------------------------------------------------------------------ ANY number of shared atoms
    squash_atoms computes the QUOTIENT of the bonded graph by the merge classes of its `!` pairs: for every
    well-formed graph on which it returns (any number of pairs, classes of any size, redundant pairs, any order)
    exactly the class representatives survive, in their old order; two of them are adjacent iff some members
    of their classes are bonded (the provisional `!` bonds inside a class disappear, nothing else is lost or
    added); the result is a well-formed simple graph. *)
Theorem C10_squash_quotient : forall g g', wf_graph g -> squash_atoms g = Ok g' ->
  wf_graph g' /\
  node_keys g' = filter (fun k => Z.eqb (rho g k) k) (node_keys g) /\
  (forall y x, has_edge g' y x = qedge (rho g) (dir_edges g) y x) /\
  (forall k, In k (node_keys g) -> In (rho g k) (node_keys g')).
Proof. exact squash_quotient. Qed.
(** the classes are the connected components of the `!` PAIRS (the equivalence they generate) — not of the
    bonded shared atoms: two different shared atoms that are bonded to each other stay two atoms *)
Theorem C10_rho_classes : forall g p q, rho g p = rho g q <-> bconn (bang_items g) p q.
Proof. exact rho_classes. Qed.
(** n_fine = n_total - sum over the classes of (|class| - 1) *)
Theorem C10_squash_count_classes : forall g g', wf_graph g -> squash_atoms g = Ok g' ->
  sum_nat (map (fun s => length (class_of g s)) (node_keys g')) = length g /\
  (forall s, In s (node_keys g') -> In s (class_of g s)) /\
  (length g' + sum_nat (map (fun s => (length (class_of g s) - 1)%nat) (node_keys g')) = length g)%nat.
Proof. exact squash_count_classes. Qed.
(** the survivor of a class records the memberships of ALL its members, concatenated in merge order *)
Theorem C10_squash_memberships : forall g g' Fl Ml, wf_graph g -> lists_of g Fl Ml -> hnum_g g -> squash_atoms g = Ok g' ->
  lists_of g' (merged_lists Fl (squash_plan [] (bang_items g))) (merged_lists Ml (squash_plan [] (bang_items g))).
Proof. exact squash_memberships. Qed.

(** THE METAMORPHIC CLAUSE for any subset of cut bonds replaced by sharing: [pi] maps every atom of the
    overlapping bonded graph [gs] to the atom of the disjoint bonded graph [gd] it is a copy of; if copies of
    one atom are exactly the atoms connected through `!` pairs, and gd is gs with the copies identified, then
    squash_atoms gs is gd through pi (a bijection from the surviving atoms that preserves adjacency). *)
Theorem C10_share_vs_cut_many : forall gd gs (pi : Z -> Z) g', wf_graph gs -> squash_atoms gs = Ok g' ->
  (forall p q, In p (node_keys gs) -> In q (node_keys gs) -> (bconn (bang_items gs) p q <-> pi p = pi q)) ->
  (forall a b, has_edge gd a b = qedge pi (dir_edges gs) a b) ->
  (forall a, has_node gd a = true <-> exists p, In p (node_keys gs) /\ pi p = a) ->
  (forall y, In y (node_keys g') -> has_node gd (pi y) = true) /\
  (forall a, has_node gd a = true -> exists y, In y (node_keys g') /\ pi y = a) /\
  (forall y x, In y (node_keys g') -> In x (node_keys g') -> pi y = pi x -> y = x) /\
  (forall y x, In y (node_keys g') -> In x (node_keys g') -> has_edge g' y x = has_edge gd (pi y) (pi x)).
Proof. exact share_vs_cut_many. Qed.
(** … with the hypotheses in decidable form (what the Examples below evaluate) *)
Theorem C10_share_vs_cut_many_decidable : forall gd gs pi, wf_graph gd -> wf_graph gs -> shares_manyb gd gs pi = true ->
  (forall p q, In p (node_keys gs) -> In q (node_keys gs) -> (bconn (bang_items gs) p q <-> pi p = pi q)) /\
  (forall a b, has_edge gd a b = qedge pi (dir_edges gs) a b) /\
  (forall a, has_node gd a = true <-> exists p, In p (node_keys gs) /\ pi p = a).
Proof. exact shares_manyb_sound. Qed.
(** … and for pairwise disjoint pairs (every shared atom has exactly two copies): copies = the two ends of a
    pair, and the fine graph has exactly one atom fewer per pair *)
Theorem C10_share_vs_cut_pairs : forall gd gs (pi : Z -> Z) g', wf_graph gs -> squash_atoms gs = Ok g' ->
  disjoint_pairs (bang_items gs) ->
  (forall p q, In p (node_keys gs) -> In q (node_keys gs) -> (paired (bang_items gs) p q <-> pi p = pi q)) ->
  (forall a b, has_edge gd a b = qedge pi (dir_edges gs) a b) ->
  (forall a, has_node gd a = true <-> exists p, In p (node_keys gs) /\ pi p = a) ->
  (forall y, In y (node_keys g') -> has_node gd (pi y) = true) /\
  (forall a, has_node gd a = true -> exists y, In y (node_keys g') /\ pi y = a) /\
  (forall y x, In y (node_keys g') -> In x (node_keys g') -> pi y = pi x -> y = x) /\
  (forall y x, In y (node_keys g') -> In x (node_keys g') -> has_edge g' y x = has_edge gd (pi y) (pi x)) /\
  (length g' + length (bang_items gs) = length gs)%nat.
Proof. exact share_vs_cut_pairs. Qed.

(** non-vacuity, one Example per shape named in the property's quantifier *)
Example C10_shape_several_per_fragment_and_bonded_shared_atoms :
  wf_graph gd_chain2 /\ wf_graph gs_chain2 /\ shares_manyb gd_chain2 gs_chain2 pi_chain2 = true /\
  exists g', squash_atoms gs_chain2 = Ok g' /\ node_keys g' = [0; 1; 3; 5] /\ neighbors g' 1 = [0; 3] /\ neighbors g' 3 = [1; 5] /\
             squash_plan [] (bang_items gs_chain2) = [(1, 2); (3, 4)].
Proof. exact shape_several_per_fragment_bonded_shared_atoms. Qed.
Example C10_shape_atom_in_three_fragments_star :
  wf_graph gd_three /\ wf_graph gs_star /\ shares_manyb gd_three gs_star pi_three = true /\
  exists g', squash_atoms gs_star = Ok g' /\ node_keys g' = [0; 1; 4] /\ neighbors g' 1 = [0; 4] /\
             node_get g' 1 (S "fragid") = Some (VList [VInt 0; VInt 1; VInt 2]) /\ class_of gs_star 1 = [1; 2; 3].
Proof. exact shape_atom_in_three_fragments_star. Qed.
Example C10_shape_atom_in_three_fragments_redundant :
  wf_graph gd_three /\ wf_graph gs_tri /\ shares_manyb gd_three gs_tri pi_three = true /\
  length (bang_items gs_tri) = 3%nat /\ length (squash_plan [] (bang_items gs_tri)) = 2%nat /\
  exists g', squash_atoms gs_tri = Ok g' /\ node_keys g' = [0; 1; 4] /\ neighbors g' 1 = [0; 4].
Proof. exact shape_atom_in_three_fragments_redundant. Qed.
Example C10_shape_shared_atom_with_dollar_bond :
  wf_graph gd_dollar /\ wf_graph gs_dollar /\ shares_manyb gd_dollar gs_dollar pi_dollar = true /\
  exists g', squash_atoms gs_dollar = Ok g' /\ node_keys g' = [0; 1; 3] /\ neighbors g' 1 = [0; 3] /\
             edge_get g' 1 3 (S "bonding") = Some (VTup [VStr (S "$a1"); VStr (S "$a1")]).
Proof. exact shape_shared_atom_with_dollar_bond. Qed.

(** ------------------------------------------------------------------ `!` pairs in bond creation
    The bond-creation fold of the resolver component (Resolve/Bonding.v over the GENERATED `compatible`)
    depends on descriptor texts only through compatibility, equality and the order digit: any renaming that
    preserves these three renames the created bonds and the left-over tables and changes nothing else. *)
Theorem C10_bond_creation_renaming : forall legacy (r : pystr -> pystr) (P : pystr -> Prop),
  (forall d, P d -> d <> []) -> (forall d, P d -> r d <> []) ->
  (forall a b, P a -> P b -> BondingDefs.compat_str legacy (r a) (r b) = BondingDefs.compat_str legacy a b) ->
  (forall a b, P a -> P b -> str_eqb (r a) (r b) = str_eqb a b) ->
  (forall a, P a -> py_last (r a) = py_last a) ->
  forall arom edges s acc, Ps P s ->
    Bonding.edges_from_bonding legacy arom edges (ren_state r s) (map (ren_bond r) acc)
    = res_map (ren_out r) (Bonding.edges_from_bonding legacy arom edges s acc).
Proof. exact edges_from_bonding_ren. Qed.
(** Instance (BigSmiles convention): writing the `$lab` descriptors with lab in a label set L as `!lab` - the
    tables containing no empty descriptor and no descriptor already written `!` with a label of L - gives the
    same bonds between the same atoms with the same orders and the same left-over descriptors; only the text
    on those bonds changes.  Hence the `!` bonds of an overlapping description are exactly the cut bonds of
    the same description read as an ordinary cut of the molecule with the shared atoms duplicated. *)
Theorem C10_bang_bonds_like_dollar : forall L arom edges s, Ps (bang_free L) s ->
  Bonding.edges_from_bonding true arom edges (ren_state (bangify L) s) []
  = res_map (ren_out (bangify L)) (Bonding.edges_from_bonding true arom edges s []).
Proof. exact bang_bonds_like_dollar. Qed.

(** the same one level up, on the graphs (Resolve/GraphOps.v): instantiating the fragments and creating the bonds
    is parametric in the descriptor texts.  [gmap r] rewrites every `bonding` attribute value (node lists and
    edge pairs) by [r]; [fdmap]/[fgmap] do so in a fragment dictionary / the fragment graphs. *)
Theorem C10_resolve_disconnected_parametric : forall r fd meta,
  GraphOps.resolve_disconnected (fdmap r fd) meta = res_map (smap r) (GraphOps.resolve_disconnected fd meta).
Proof. exact resolve_disconnected_gmap. Qed.
Theorem C10_bonding_step_parametric : forall (r : pystr -> pystr) legacy (P : pystr -> Prop),
  (forall d, P d -> d <> []) -> (forall d, P d -> r d <> []) ->
  (forall a b, P a -> P b -> BondingDefs.compat_str legacy (r a) (r b) = BondingDefs.compat_str legacy a b) ->
  (forall a b, P a -> P b -> str_eqb (r a) (r b) = str_eqb a b) ->
  (forall a, P a -> py_last (r a) = py_last a) ->
  forall aa meta mol fgs, (forall s0, GraphOps.tables_of fgs = Ok s0 -> Ps P s0) ->
  GraphOps.bonding_step legacy aa meta (gmap r mol) (fgmap r fgs)
  = res_map (smap r) (GraphOps.bonding_step legacy aa meta mol fgs).
Proof. exact bonding_step_gmap. Qed.
(** instance: the fragments written with `!lab` (lab in L) resolve to the graph of the fragments written with
    `$lab`, up to those texts -- the edges squash_atoms contracts are the cut bonds of the `$` description *)
Theorem C10_resolve_bang_like_dollar : forall L aa fd meta mol fgs,
  GraphOps.resolve_disconnected fd meta = Ok (mol, fgs) ->
  (forall s0, GraphOps.tables_of fgs = Ok s0 -> Ps (bang_free L) s0) ->
  (st <- GraphOps.resolve_disconnected (fdmap (bangify L) fd) meta ;;
   GraphOps.bonding_step true aa meta (fst st) (snd st))
  = res_map (smap (bangify L)) (GraphOps.bonding_step true aa meta mol fgs).
Proof. exact resolve_bang_like_dollar. Qed.

(** the relation [pi] of C10_share_vs_cut_many DERIVED (Hydro/ShareCut.v, with the cut model of the compose
    component, Compose/CutModel.v).  C: a cut of the molecule with every shared atom duplicated, one copy per
    fragment, the copies joined by cut bonds `$lab`, lab in L; D: a cut of the molecule itself; [expands]: orig
    maps the atoms of C onto those of D, two atoms have the same image iff they are connected through the
    L-labelled cut bonds, and the bonds of D are the images of the bonds of C between different images.
    gs' / gd: graphs described by the compose component's [skeleton] for C / D (C01_cut_bonding_skeleton).
    Then squash_atoms of gs' with the L-descriptors written `!` is gd through pi_cut = phi D o orig o phi C^-1. *)
Theorem C10_share_vs_cut_skeletons : forall C D, CutModel.wf_cut C -> CutModel.wf_cut D -> forall L aa gs' gd,
  CutSkeleton.skeleton C aa gs' -> CutSkeleton.skeleton D aa gd -> GraphAdj.adj_nodup gs' ->
  forall orig, ShareCut.expands C D L orig -> forall g', squash_atoms (gmap (bangify L) gs') = Ok g' ->
  (forall y, In y (node_keys g') -> has_node gd (ShareCut.pi_cut C D orig y) = true) /\
  (forall a, has_node gd a = true -> exists y, In y (node_keys g') /\ ShareCut.pi_cut C D orig y = a) /\
  (forall y x, In y (node_keys g') -> In x (node_keys g') ->
     ShareCut.pi_cut C D orig y = ShareCut.pi_cut C D orig x -> y = x) /\
  (forall y x, In y (node_keys g') -> In x (node_keys g') ->
     has_edge g' y x = has_edge gd (ShareCut.pi_cut C D orig y) (ShareCut.pi_cut C D orig x)).
Proof. exact ShareCut.share_vs_cut_skeletons. Qed.
(** from the fragments: templates/base graph of C run with the L-descriptors written `!`, templates/base graph
    of D run as they are; both runs return, and squash_atoms of the first result is the second through pi_cut *)
Theorem C10_share_vs_cut_resolver : forall C D L aa orig fdC BC fdD BD,
  CutModel.wf_cut C -> CutModel.templates_ok C fdC -> CutModel.is_base C BC ->
  CutModel.wf_cut D -> CutModel.templates_ok D fdD -> CutModel.is_base D BD ->
  (aa = true -> forall x, In x (CutModel.flat C) ->
     (exists e, aget (S "element") (CutModel.payload C x) = Some e) /\
     exists h, aget (S "hcount") (CutModel.payload C x) = Some (VInt h)) ->
  (aa = true -> forall x, In x (CutModel.flat D) ->
     (exists e, aget (S "element") (CutModel.payload D x) = Some e) /\
     exists h, aget (S "hcount") (CutModel.payload D x) = Some (VInt h)) ->
  ShareCut.expands C D L orig ->
  exists gs fgs gd fgd,
    (st <- GraphOps.resolve_disconnected (fdmap (bangify L) fdC) BC ;;
     GraphOps.bonding_step true aa BC (fst st) (snd st)) = Ok (gs, fgs) /\
    (st <- GraphOps.resolve_disconnected fdD BD ;; GraphOps.bonding_step true aa BD (fst st) (snd st)) = Ok (gd, fgd) /\
    wf_graph gs /\
    forall g', squash_atoms gs = Ok g' ->
      (forall y, In y (node_keys g') -> has_node gd (ShareCut.pi_cut C D orig y) = true) /\
      (forall a, has_node gd a = true -> exists y, In y (node_keys g') /\ ShareCut.pi_cut C D orig y = a) /\
      (forall y x, In y (node_keys g') -> In x (node_keys g') ->
         ShareCut.pi_cut C D orig y = ShareCut.pi_cut C D orig x -> y = x) /\
      (forall y x, In y (node_keys g') -> In x (node_keys g') ->
         has_edge g' y x = has_edge gd (ShareCut.pi_cut C D orig y) (ShareCut.pi_cut C D orig x)).
Proof. exact ShareCut.share_vs_cut_resolver. Qed.
Theorem C10_expands_decidable : forall C D L orig, ShareCut.expandsb C D L orig = true -> ShareCut.expands C D L orig.
Proof. exact ShareCut.expandsb_sound. Qed.
(** non-vacuity: 1-2, 2-3, 2-4, 4-5 with atom 2 shared by three fragments (copies chained by the pairs s, t)
    and one ordinary cut bond; every hypothesis decided by the sound tests, the conclusion instantiated *)
Theorem C10_share_vs_cut_resolver_nonvacuous : forall aa : bool,
  exists gs fgs gd fgd g',
    (st <- GraphOps.resolve_disconnected (fdmap (bangify ShareCutExamples.exL) (CutModel.fragdict_of ShareCutExamples.exC))
             (CutModel.base_of ShareCutExamples.exC) ;;
     GraphOps.bonding_step true aa (CutModel.base_of ShareCutExamples.exC) (fst st) (snd st)) = Ok (gs, fgs) /\
    (st <- GraphOps.resolve_disconnected (CutModel.fragdict_of ShareCutExamples.exD) (CutModel.base_of ShareCutExamples.exD) ;;
     GraphOps.bonding_step true aa (CutModel.base_of ShareCutExamples.exD) (fst st) (snd st)) = Ok (gd, fgd) /\
    squash_atoms gs = Ok g' /\
    node_keys gs = [0; 1; 2; 3; 4; 5; 6] /\ bang_items gs = [(1, 2); (2, 4)] /\
    node_keys g' = [0; 1; 3; 5; 6] /\
    map (ShareCut.pi_cut ShareCutExamples.exC ShareCutExamples.exD ShareCutExamples.ex_orig) (node_keys g') = node_keys gd /\
    has_edge g' 1 3 = true /\ has_edge g' 1 5 = true /\ has_edge g' 5 6 = true /\ has_edge g' 3 5 = false /\
    (forall y x, In y (node_keys g') -> In x (node_keys g') ->
       has_edge g' y x = has_edge gd (ShareCut.pi_cut ShareCutExamples.exC ShareCutExamples.exD ShareCutExamples.ex_orig y)
                                     (ShareCut.pi_cut ShareCutExamples.exC ShareCutExamples.exD ShareCutExamples.ex_orig x)).
Proof. exact ShareCutExamples.share_vs_cut_resolver_nonvacuous. Qed.

(** totality at ANY level: at the coarse level the bond-creation step does not read the bonded atoms, so the
    typedness is kept when it created no node (as many nodes after as before) *)
Theorem C10_squash_total_resolver_any : forall fd legacy aa meta m1 fg1 m2 fg2, CopyProofs.wf_dict fd ->
  GraphOps.resolve_disconnected fd meta = Ok (m1, fg1) -> GraphOps.bonding_step legacy aa meta m1 fg1 = Ok (m2, fg2) ->
  length m2 = length m1 ->
  wf_graph m2 -> hnum_g m2 -> bondings_ok (edge_attr_items m2 squash_edge_attr) ->
  exists g', squash_atoms m2 = Ok g' /\ typed_g g' /\ wf_graph g' /\
             (length g' + length (squash_plan [] (bang_items m2)) = length m2)%nat.
Proof. exact SquashTotalAny.squash_total_resolver_any. Qed.
(** and in the setting of C10_share_vs_cut_resolver squash_atoms RETURNS, at any level, once the hydrogen counts
    of the bonded graph are numbers (wf, typedness and the descriptor-pair edge attributes are derived), with
    one node fewer per merge *)
Theorem C10_share_vs_cut_resolver_total : forall C D L aa orig fdC BC fdD BD,
  CutModel.wf_cut C -> CutModel.templates_ok C fdC -> CutModel.is_base C BC -> CopyProofs.wf_dict fdC ->
  CutModel.wf_cut D -> CutModel.templates_ok D fdD -> CutModel.is_base D BD ->
  (aa = true -> forall x, In x (CutModel.flat C) ->
     (exists e, aget (S "element") (CutModel.payload C x) = Some e) /\
     exists h, aget (S "hcount") (CutModel.payload C x) = Some (VInt h)) ->
  (aa = true -> forall x, In x (CutModel.flat D) ->
     (exists e, aget (S "element") (CutModel.payload D x) = Some e) /\
     exists h, aget (S "hcount") (CutModel.payload D x) = Some (VInt h)) ->
  ShareCut.expands C D L orig ->
  exists gs fgs gd fgd,
    (st <- GraphOps.resolve_disconnected (fdmap (bangify L) fdC) BC ;;
     GraphOps.bonding_step true aa BC (fst st) (snd st)) = Ok (gs, fgs) /\
    (st <- GraphOps.resolve_disconnected fdD BD ;; GraphOps.bonding_step true aa BD (fst st) (snd st)) = Ok (gd, fgd) /\
    (hnum_g gs -> exists g', squash_atoms gs = Ok g' /\
      (length g' + length (squash_plan [] (bang_items gs)) = length gs)%nat /\
      (forall y, In y (node_keys g') -> has_node gd (ShareCut.pi_cut C D orig y) = true) /\
      (forall a, has_node gd a = true -> exists y, In y (node_keys g') /\ ShareCut.pi_cut C D orig y = a) /\
      (forall y x, In y (node_keys g') -> In x (node_keys g') ->
         ShareCut.pi_cut C D orig y = ShareCut.pi_cut C D orig x -> y = x) /\
      (forall y x, In y (node_keys g') -> In x (node_keys g') ->
         has_edge g' y x = has_edge gd (ShareCut.pi_cut C D orig y) (ShareCut.pi_cut C D orig x))).
Proof. exact ShareCutTotal.share_vs_cut_resolver_total. Qed.
(** the other attributes: for every well-formed graph with list-valued fragid / mapping and numeric hcount, a
    surviving atom has, under every key besides fragid / mapping / contraction / hcount, the value it had before *)
Theorem C10_squash_keeps_attrs : forall g g' Fl Ml, wf_graph g -> lists_of g Fl Ml -> hnum_g g -> squash_atoms g = Ok g' ->
  QuotientAttrs.keeps g' g.
Proof. exact QuotientAttrs.squash_keeps_attrs. Qed.
(** so the atoms of the two descriptions are the same atoms: when the two cuts carry the same payload
    ([same_payload]: what C records for a copy, D records for its original), a surviving atom of the squashed
    graph and its image in the graph of the molecule's own cut carry that value under every payload key that is
    not one of the resolver's own, hcount or contraction (element, charge, aromatic, ...) *)
Theorem C10_share_vs_cut_resolver_atoms : forall C D L aa orig fdC BC fdD BD,
  CutModel.wf_cut C -> CutModel.templates_ok C fdC -> CutModel.is_base C BC -> CopyProofs.wf_dict fdC ->
  CutModel.wf_cut D -> CutModel.templates_ok D fdD -> CutModel.is_base D BD ->
  (aa = true -> forall x, In x (CutModel.flat C) ->
     (exists e, aget (S "element") (CutModel.payload C x) = Some e) /\
     exists h, aget (S "hcount") (CutModel.payload C x) = Some (VInt h)) ->
  (aa = true -> forall x, In x (CutModel.flat D) ->
     (exists e, aget (S "element") (CutModel.payload D x) = Some e) /\
     exists h, aget (S "hcount") (CutModel.payload D x) = Some (VInt h)) ->
  ShareCut.expands C D L orig -> ShareCutTotal.same_payload C D orig ->
  exists gs fgs gd fgd,
    (st <- GraphOps.resolve_disconnected (fdmap (bangify L) fdC) BC ;;
     GraphOps.bonding_step true aa BC (fst st) (snd st)) = Ok (gs, fgs) /\
    (st <- GraphOps.resolve_disconnected fdD BD ;; GraphOps.bonding_step true aa BD (fst st) (snd st)) = Ok (gd, fgd) /\
    (hnum_g gs -> forall g', squash_atoms gs = Ok g' ->
       forall y key v, In y (node_keys g') -> aget key (CutModel.payload C (ShareCut.atom_of C y)) = Some v ->
         ~ In key CutModel.reserved -> key <> S "hcount" -> key <> S "contraction" ->
         node_get g' y key = Some v /\ node_get gd (ShareCut.pi_cut C D orig y) key = Some v).
Proof. exact ShareCutTotal.share_vs_cut_resolver_atoms. Qed.
(** membership: the atom of the squashed graph that stands for an atom of the molecule lists the coarse node of
    EVERY copy of it (the shared atom belongs to all the fragments that share it) *)
Theorem C10_share_vs_cut_resolver_membership : forall C D L aa orig fdC BC fdD BD,
  CutModel.wf_cut C -> CutModel.templates_ok C fdC -> CutModel.is_base C BC -> CopyProofs.wf_dict fdC ->
  CutModel.wf_cut D -> CutModel.templates_ok D fdD -> CutModel.is_base D BD ->
  (aa = true -> forall x, In x (CutModel.flat C) ->
     (exists e, aget (S "element") (CutModel.payload C x) = Some e) /\
     exists h, aget (S "hcount") (CutModel.payload C x) = Some (VInt h)) ->
  (aa = true -> forall x, In x (CutModel.flat D) ->
     (exists e, aget (S "element") (CutModel.payload D x) = Some e) /\
     exists h, aget (S "hcount") (CutModel.payload D x) = Some (VInt h)) ->
  ShareCut.expands C D L orig ->
  exists gs fgs gd fgd,
    (st <- GraphOps.resolve_disconnected (fdmap (bangify L) fdC) BC ;;
     GraphOps.bonding_step true aa BC (fst st) (snd st)) = Ok (gs, fgs) /\
    (st <- GraphOps.resolve_disconnected fdD BD ;; GraphOps.bonding_step true aa BD (fst st) (snd st)) = Ok (gd, fgd) /\
    (hnum_g gs -> forall g', squash_atoms gs = Ok g' ->
       forall x, In x (CutModel.flat C) -> exists y l, In y (node_keys g') /\
         ShareCut.pi_cut C D orig y = CutModel.phi D (orig x) /\
         node_get g' y (S "fragid") = Some (VList l) /\ In (VInt (Z.of_nat (CutModel.owner C x))) l).
Proof. exact ShareCutTotal.share_vs_cut_resolver_membership. Qed.
(** the count: the squashed graph has as many atoms as the molecule, the bonded graph as many as the fragments
    contain together -- |flat C| - |flat D| atoms fewer, one per shared pair when no pair is redundant *)
Theorem C10_share_vs_cut_count : forall C D L aa gs' gd orig g', CutModel.wf_cut C -> CutModel.wf_cut D ->
  CutSkeleton.skeleton C aa gs' -> CutSkeleton.skeleton D aa gd -> GraphAdj.adj_nodup gs' -> ShareCut.expands C D L orig ->
  squash_atoms (gmap (bangify L) gs') = Ok g' ->
  length g' = length (CutModel.flat D) /\ length (gmap (bangify L) gs') = length (CutModel.flat C).
Proof. exact ShareCutTotal.share_vs_cut_count. Qed.
Theorem C10_same_payload_example : ShareCutTotal.same_payload ShareCutExamples.exC ShareCutExamples.exD ShareCutExamples.ex_orig.
Proof. exact ShareCutExamples.ex_same_payload. Qed.
(** the extra hypotheses hold on the example of C10_share_vs_cut_resolver_nonvacuous, at both levels *)
Theorem C10_share_vs_cut_resolver_total_hypotheses :
  ShareCutTotal.wf_dictb (CutModel.fragdict_of ShareCutExamples.exC) = true /\
  forall aa : bool,
    match (st <- GraphOps.resolve_disconnected (fdmap (bangify ShareCutExamples.exL) (CutModel.fragdict_of ShareCutExamples.exC))
                   (CutModel.base_of ShareCutExamples.exC) ;;
           GraphOps.bonding_step true aa (CutModel.base_of ShareCutExamples.exC) (fst st) (snd st)) with
    | Ok (gs, _) => hnum_gb gs = true
    | Err _ => False
    end.
Proof. exact ShareCutExamples.share_vs_cut_resolver_total_hypotheses. Qed.
Theorem C10_wf_dict_decidable : forall fd, ShareCutTotal.wf_dictb fd = true -> CopyProofs.wf_dict fd.
Proof. exact ShareCutTotal.wf_dictb_sound. Qed.

(** totality from hypotheses on the INPUTS: the hydrogen counts of the bonded graph are numbers when those of the
    templates are (kept by the copy and the stamps, by add_edge, by the all-atom bookkeeping: dec_hcount returns
    an int or a float literal both parsers accept) *)
Theorem C10_squash_total_inputs : forall fd legacy aa meta m1 fg1 m2 fg2, CopyProofs.wf_dict fd -> NumTotal.hnum_dict fd ->
  GraphOps.resolve_disconnected fd meta = Ok (m1, fg1) -> GraphOps.bonding_step legacy aa meta m1 fg1 = Ok (m2, fg2) ->
  length m2 = length m1 -> wf_graph m2 -> bondings_ok (edge_attr_items m2 squash_edge_attr) ->
  exists g', squash_atoms m2 = Ok g' /\ typed_g g' /\ wf_graph g' /\
             (length g' + length (squash_plan [] (bang_items m2)) = length m2)%nat.
Proof. exact NumTotal.squash_total_inputs. Qed.
Theorem C10_hnum_dict_decidable : forall fd, ShareCutFull.hnum_dictb fd = true -> NumTotal.hnum_dict fd.
Proof. exact ShareCutFull.hnum_dictb_sound. Qed.
(** THE METAMORPHIC CLAUSE IN ONE STATEMENT, hypotheses on the inputs only (all decidable: wf_cutb, templates_okb,
    is_baseb, wf_dictb, hnum_dictb, expandsb): the fragments of C with the L-descriptors written `!` and the
    fragments of D both resolve; squash_atoms returns; the squashed graph has as many atoms as the molecule; pi_cut
    is a bijection onto the atoms of the D result that preserves adjacency and the payload attributes; the atom
    standing for an atom of the molecule lists the coarse node of every copy *)
Theorem C10_share_vs_cut_resolver_full : forall C D L aa orig fdC BC fdD BD,
  CutModel.wf_cut C -> CutModel.templates_ok C fdC -> CutModel.is_base C BC -> CopyProofs.wf_dict fdC -> NumTotal.hnum_dict fdC ->
  CutModel.wf_cut D -> CutModel.templates_ok D fdD -> CutModel.is_base D BD ->
  (aa = true -> forall x, In x (CutModel.flat C) ->
     (exists e, aget (S "element") (CutModel.payload C x) = Some e) /\
     exists h, aget (S "hcount") (CutModel.payload C x) = Some (VInt h)) ->
  (aa = true -> forall x, In x (CutModel.flat D) ->
     (exists e, aget (S "element") (CutModel.payload D x) = Some e) /\
     exists h, aget (S "hcount") (CutModel.payload D x) = Some (VInt h)) ->
  ShareCut.expands C D L orig -> ShareCutTotal.same_payload C D orig ->
  exists gs fgs gd fgd g',
    (st <- GraphOps.resolve_disconnected (fdmap (bangify L) fdC) BC ;;
     GraphOps.bonding_step true aa BC (fst st) (snd st)) = Ok (gs, fgs) /\
    (st <- GraphOps.resolve_disconnected fdD BD ;; GraphOps.bonding_step true aa BD (fst st) (snd st)) = Ok (gd, fgd) /\
    squash_atoms gs = Ok g' /\
    length gs = length (CutModel.flat C) /\ length g' = length (CutModel.flat D) /\
    (forall y, In y (node_keys g') -> has_node gd (ShareCut.pi_cut C D orig y) = true) /\
    (forall a, has_node gd a = true -> exists y, In y (node_keys g') /\ ShareCut.pi_cut C D orig y = a) /\
    (forall y x, In y (node_keys g') -> In x (node_keys g') ->
       ShareCut.pi_cut C D orig y = ShareCut.pi_cut C D orig x -> y = x) /\
    (forall y x, In y (node_keys g') -> In x (node_keys g') ->
       has_edge g' y x = has_edge gd (ShareCut.pi_cut C D orig y) (ShareCut.pi_cut C D orig x)) /\
    (forall y key v, In y (node_keys g') -> aget key (CutModel.payload C (ShareCut.atom_of C y)) = Some v ->
       ~ In key CutModel.reserved -> key <> S "hcount" -> key <> S "contraction" ->
       node_get g' y key = Some v /\ node_get gd (ShareCut.pi_cut C D orig y) key = Some v) /\
    (forall x, In x (CutModel.flat C) -> exists y l, In y (node_keys g') /\
       ShareCut.pi_cut C D orig y = CutModel.phi D (orig x) /\
       node_get g' y (S "fragid") = Some (VList l) /\ In (VInt (Z.of_nat (CutModel.owner C x))) l).
Proof. exact ShareCutFull.share_vs_cut_resolver_full. Qed.
Definition C10_share_vs_cut_resolver_full_instance := CGV.Hydro.ShareCutExamples.share_vs_cut_resolver_full_instance.

(** ... and ON THE IMPLEMENTATION'S DATA (Hydro/ShareCutImpl.v over Gen/HydroCutGen.v, recorded on every run by
    running /repo on one description with a three-fold shared atom, written with `!`, with `$`, and as the
    molecule's own cut): every hypothesis of C10_share_vs_cut_resolver_full is decided on the dictionaries and
    base graphs the reader produces; the `!` input is read as the `$` input with the texts of s and t rewritten;
    the model's bonded and squashed graphs ARE the graphs the implementation builds (literal equality), so the
    theorem's conclusion is a statement about them *)
Definition C10_impl_hypotheses := CGV.Hydro.ShareCutImpl.impl_hypotheses.
Definition C10_impl_bang_is_renamed_dollar := CGV.Hydro.ShareCutImpl.impl_bang_is_renamed_dollar.
Definition C10_impl_share_vs_cut := CGV.Hydro.ShareCutImpl.impl_share_vs_cut.

(** the compose component's half (Compose/SharedCut.v, cited from Compose/Statements.v; built on BangGraph and
    C10_squash_quotient): the `!`-written templates of a well-formed cut resolve to the written molecule's skeleton
    with those texts rewritten; squash_atoms contracts exactly the cut bonds that are `$` pairs with a label in L;
    whatever it returns is the quotient of the written molecule by the `!`-connected classes *)
Definition C10_shared_bonding_skeleton := CGV.Compose.Statements.C01_shared_bonding_skeleton.
Definition C10_bang_items_sound := CGV.Compose.Statements.C01_bang_items_sound.
Definition C10_bang_items_complete := CGV.Compose.Statements.C01_bang_items_complete.
Definition C10_shared_cut_quotient := CGV.Compose.Statements.C01_shared_cut_quotient.
Definition C10_shared_resolve_squash := CGV.Compose.Statements.C01_shared_resolve_squash.

(** one level up (bond creation, Resolve/Bonding.v with the generated [compatible]): a single descriptor pair
    between two coarse nodes makes exactly one bond — u-v for the `$` pair, v'-v for the `!` pair *)
Theorem C10_single_pair_bond : forall legacy arom A B x y c t o, A <> B -> (c = "$"%char \/ c = "!"%char) ->
  Bonding.bond_order arom x y (c :: t) = Ok o ->
  Bonding.edges_from_bonding legacy arom [(A, B, 1)] [(A, [(x, [c :: t])]); (B, [(y, [c :: t])])] []
  = Ok ([(A, [(x, [])]); (B, [(y, [])])],
        [{| Bonding.b_src := A; Bonding.b_tgt := B; Bonding.b_u := x; Bonding.b_v := y; Bonding.b_d1 := c :: t;
            Bonding.b_d2 := c :: t; Bonding.b_order := o |}]).
Proof. exact single_pair_bond. Qed.

(** non-vacuity: a chain of three fragments sharing one atom, next to an ordinary `$` bond *)
Example C10_nonvacuous :
  wf_graph g_chain /\ length (bang_items g_chain) = 2%nat /\ length (squash_plan [] (bang_items g_chain)) = 2%nat /\
  exists g', squash_atoms g_chain = Ok g' /\ length g' = 4%nat /\
             node_get g' 1 (S "fragid") = Some (VList [VInt 0; VInt 1; VInt 2]) /\
             neighbors g' 1 = [0; 4].
Proof. exact squash_count_nonvacuous. Qed.

(** the witnesses of the two repaired classes now resolve *)
Example C10_fixed_redundant_squash_cycle :
  wf_graph g_triangle /\ length (bang_items g_triangle) = 3%nat /\ squash_plan [] (bang_items g_triangle) = [(0, 1); (0, 2)] /\
  exists g', squash_atoms g_triangle = Ok g' /\ length g' = 1%nat /\
             node_get g' 0 (S "fragid") = Some (VList [VInt 0; VInt 1; VInt 2]) /\ neighbors g' 0 = [].
Proof. exact triangle_resolves. Qed.
Example C10_fixed_stale_squashed_entry :
  wf_graph g_stale /\ squash_plan [] (bang_items g_stale) = [(0, 2); (1, 0); (1, 3)] /\
  exists g', squash_atoms g_stale = Ok g' /\ length g' = 2%nat /\
             node_get g' 1 (S "fragid") = Some (VList [VInt 1; VInt 0; VInt 2; VInt 3]) /\ neighbors g' 1 = [4].
Proof. exact stale_entry_resolves. Qed.

(** formerly refuted (class stale-hcount-aromatic): toluene, ring atom shared, methyl fragment first *)
Example C10_fixed_stale_hcount_aromatic :
  wf_graph g_toluene /\
  exists g', squash_atoms g_toluene = Ok g' /\
             SquashCheck.stale_hcount_aromatic (observe g') = false /\
             node_get g' 0 (S "hcount") = Some (VInt 0) /\ bonds_half g' 0 = Ok 8 /\
             node_get g' 0 (S "fragid") = Some (VList [VInt 0; VInt 1]).
Proof. exact toluene_resolves. Qed.

Print Assumptions C10_contracted_spec.
Print Assumptions C10_squash_neighbours.
Print Assumptions C10_squash_membership.
Print Assumptions C10_sq_root_total.
Print Assumptions C10_squash_count.
Print Assumptions C10_squash_count_per_pair.
Print Assumptions C10_squash_total.
Print Assumptions C10_hypotheses_decidable.
Print Assumptions C10_squash_total_resolver.
Print Assumptions C10_share_vs_cut_one.
Print Assumptions C10_single_pair_bond.
Print Assumptions C10_squash_quotient.
Print Assumptions C10_rho_classes.
Print Assumptions C10_squash_count_classes.
Print Assumptions C10_squash_memberships.
Print Assumptions C10_share_vs_cut_many.
Print Assumptions C10_share_vs_cut_many_decidable.
Print Assumptions C10_share_vs_cut_pairs.
Print Assumptions C10_bond_creation_renaming.
Print Assumptions C10_bang_bonds_like_dollar.
Print Assumptions C10_resolve_disconnected_parametric.
Print Assumptions C10_bonding_step_parametric.
Print Assumptions C10_resolve_bang_like_dollar.
Print Assumptions C10_share_vs_cut_skeletons.
Print Assumptions C10_share_vs_cut_resolver.
Print Assumptions C10_expands_decidable.
Print Assumptions C10_share_vs_cut_resolver_nonvacuous.
Print Assumptions C10_squash_total_resolver_any.
Print Assumptions C10_share_vs_cut_resolver_total.
Print Assumptions C10_wf_dict_decidable.
Print Assumptions C10_squash_keeps_attrs.
Print Assumptions C10_share_vs_cut_resolver_atoms.
Print Assumptions C10_same_payload_example.
Print Assumptions C10_share_vs_cut_count.
Print Assumptions C10_squash_total_inputs.
Print Assumptions C10_hnum_dict_decidable.
Print Assumptions C10_share_vs_cut_resolver_full.
Print Assumptions C10_share_vs_cut_resolver_full_instance.
Print Assumptions C10_impl_hypotheses.
Print Assumptions C10_impl_bang_is_renamed_dollar.
Print Assumptions C10_impl_share_vs_cut.
Print Assumptions C10_shared_bonding_skeleton.
Print Assumptions C10_bang_items_sound.
Print Assumptions C10_bang_items_complete.
Print Assumptions C10_shared_cut_quotient.
Print Assumptions C10_shared_resolve_squash.
Print Assumptions C10_share_vs_cut_resolver_membership.
Print Assumptions C10_share_vs_cut_resolver_total_hypotheses.
