(** Property C16 — sampled polymers are well-formed molecules built from the given fragments.
    Only statements, each closed by [exact]; proofs in Sample/SampleSpec.v (generated functions),
    Sample/SampleProofs.v and Sample/SampleTree.v (the growth loop).  Every theorem holds for EVERY
    sequence of random picks the model accepts (index in range; under random.choices a non-zero
    weight), hence for every seed and every generator: a run that returns [Ok] is exactly a run
    whose picks were valid ([EOutOfFuel] marks an invalid pick).
    copy_iso_template, numbering_canonical and valence completeness are theorems too (below); the
    only recorded third-party step is pysmiles' correct_aromatic_rings (transcript with a checked
    contract, as in C09). *)
From Coq Require Import String.
From Coq Require Import List Ascii ZArith Bool.
From CGV Require Import Base.PyBase Base.PyVal Base.PyGen Sample.GenSupport Gen.SamplerGen Sample.SampleImpl
     Sample.SampleDefs Sample.SampleSpec Sample.SampleProofs Sample.SampleTree Sample.SampleFragid Sample.SampleCopy Sample.SampleAccount
     Sample.SampleValid Sample.SampleExample.
From CGV Require Base.NxGraph Resolve.GraphOps Resolve.SortProofs Resolve.SortGraphProofs Sample.SampleFinal Sample.SampleNumbering.
From CGV Require Hydro.Hydrogens Hydro.HydroDefs Hydro.SquashDefs Hydro.RebuildProofs Sample.SampleValence Sample.SampleSorted.
From CGV Require Gen.HydroGen Sample.SampleMassDefs Sample.SampleMassHydro Sample.SampleTemplateNx Sample.SampleHydrogenOrder.
Import ListNotations.
Open Scope Z_scope.

(** the GENERATED complement look-up only returns eligible descriptors that are complementary
    ('$' with '$' of the same order, labels free; '>L' with '<L' of identical label and order) *)
Theorem C16_complement_lookup_sound : forall d elig cs,
  find_complementary_bonding_descriptor d elig = Ok cs ->
  forall c, In c cs -> In c elig /\ (kind_in_domain d = true -> compl_spec d c = true).
Proof. exact find_compl_sound. Qed.

Section C16.
  Variable M : Type.
  Variables (c0 : Z -> M) (madd : M -> M -> M) (mltb : M -> M -> bool) (misz : M -> bool).
  Variable R : Type.
  Variable pick : R -> nat -> option (list M) -> res (nat * R).
  Variable cfg : config M.
  (** fragments as returned by read_fragments (distinct node keys, fragid 0, edges between own
      nodes), each of them connected *)
  Hypothesis Wf : wf_frags (c_frags cfg).
  Hypothesis Tc : Forall (fun ft => tpl_connected (snd ft)) (c_frags cfg).

  (** bond_complementary: the four random decisions pick an open descriptor of the molecule, a
      node carrying it, and a complementary partner descriptor present in the fragments *)
  Theorem C16_bond_complementary : forall rng ob s rng',
    step_select M c0 misz R pick cfg rng ob = Ok (s, rng') ->
    In (s_bonding s) (map fst ob) /\
    (exists srcs, dict_get ob (s_bonding s) = Some srcs /\ In (s_source s) srcs) /\
    In (s_compl s) (map fst (c_byb cfg)) /\
    (kind_in_domain (s_bonding s) = true -> compl_spec (s_bonding s) (s_compl s) = true) /\
    In (s_fragname s, s_tnode s) (dict_get_default (c_byb cfg) (s_compl s) []).
  Proof. exact (select_complementary M c0 misz R pick cfg). Qed.

  (** step_adds_one_fragment_one_bond: the nodes of one template copy are appended, its edges
      (without 'bonding') and exactly one bond old-node -- new-node with complementary
      descriptors; connectedness is preserved *)
  Theorem C16_step_adds_one_fragment_one_bond : forall rng m m' r rng',
    step M c0 misz R pick cfg rng m = Ok (m', r, rng') ->
    exists tpl off fo es bond,
      dict_get (c_frags cfg) (r_fragname r) = Some tpl /\
      map n_key (m_nodes m') = map n_key (m_nodes m) ++ map n_key (mk_nodes fo off 0 (f_nodes tpl)) /\
      m_edges m' = (m_edges m ++ es) ++ [bond] /\ Forall (fun e => e_bonding e = None) es /\
      e_bonding bond = Some (r_bonding r, r_compl r) /\ e_u bond = r_source r /\ e_v bond = r_target r /\
      In (r_source r) (map n_key (m_nodes m)) /\ In (r_target r) (map n_key (mk_nodes fo off 0 (f_nodes tpl))) /\
      (kind_in_domain (r_bonding r) = true -> compl_spec (r_bonding r) (r_compl r) = true) /\
      bond_edges m' = bond_edges m ++ [bond] /\
      (Connected m -> Connected m').
  Proof. exact (step_adds_one_fragment_one_bond M c0 misz R pick cfg Wf Tc). Qed.

  (** tree_of_fragments: sample() from scratch returns a connected molecule whose number of
      inter-fragment bonds (edges carrying 'bonding'; template edges never do) is the number of
      fragment copies (start fragment + one per step) minus one, every bond complementary *)
  Theorem C16_tree_of_fragments : forall target fuel rng start nm i0 m cw log rng',
    sample_growth M c0 madd mltb misz R pick cfg target fuel rng start = Ok (nm, i0, m, cw, log, rng') ->
    Connected m /\ (length (bond_edges m) + 1 = Datatypes.S (length log))%nat /\
    Forall (fun e => match e_bonding e with
                     | Some (d1, d2) => kind_in_domain d1 = true -> compl_spec d1 d2 = true
                     | None => True end) (bond_edges m).
  Proof. exact (tree_of_fragments M c0 madd mltb misz R pick cfg Wf Tc). Qed.

  (** tree_of_fragments, with the inter-fragment bonds and the copies DEFINED BY MEMBERSHIP
      ('fragid'): the number of distinct fragids is 1 + the number of steps, the edges whose end
      points have different fragid are exactly the edges created by add_fragment, their number is
      the number of copies minus one; node keys are 0..n-1 in insertion order (so that
      sort_nodes_by_attr has nothing to move before the hydrogens are added) *)
  Theorem C16_tree_of_fragments_membership : forall target fuel rng start nm i0 m cw log rng',
    sample_growth M c0 madd mltb misz R pick cfg target fuel rng start = Ok (nm, i0, m, cw, log, rng') ->
    frag_count m = Datatypes.S (length log) /\ inter_bonds m = bond_edges m /\
    (length (inter_bonds m) + 1 = frag_count m)%nat /\
    map n_key (m_nodes m) = zseq 0 (length (m_nodes m)).
  Proof. exact (tree_of_fragments_membership M c0 madd mltb misz R pick cfg Wf). Qed.

  (** valid_draw: a successful random choice consumed an index in range whose weight (under
      random.choices) is not zero, and returned the element at that index; conversely a valid draw
      never fails *)
  Theorem C16_choice_valid_draw : forall (A : Type) rng (l : list A) w x i rng',
    choose M misz R pick rng l w = Ok (x, i, rng') -> valid_draw M misz l w i = true /\ nth_error l i = Some x.
  Proof. intros A. exact (choose_ok_valid M misz R pick). Qed.
  Theorem C16_valid_draw_accepted : forall (A : Type) rng (l : list A) w i rng',
    pick rng (length l) w = Ok (i, rng') -> valid_draw M misz l w i = true -> l <> [] ->
    (forall ws, w = Some ws -> forallb misz ws = false) ->
    exists x, choose M misz R pick rng l w = Ok (x, i, rng').
  Proof. intros A. exact (valid_draw_choose M misz R pick). Qed.

  (** copy_iso_template: the molecule is, block by block, the copies of the templates named by the
      trajectory (start fragment, then one per step); the copy number j has fragment offset j, i.e.
      its nodes are the nodes with fragid j; node i of a copy has key offset+1+i and ALL attributes
      of template node i except 'fragid' and the descriptors consumed or withdrawn; the edges
      without 'bonding' are, block by block, the templates' edges through the merge correspondence
      with unchanged attributes (orders) *)
  Theorem C16_copy_iso_template : forall target fuel rng start nm i0 m cw log rng',
    sample_growth M c0 madd mltb misz R pick cfg target fuel rng start = Ok (nm, i0, m, cw, log, rng') ->
    exists bs, copies_of m bs /\
      Forall2 (fun name b => dict_get (c_frags cfg) name = Some (b_tpl b)) (nm :: map r_fragname log) bs /\
      map b_fo bs = zseq 0 (length bs) /\
      Forall (fun b => exists es, mk_edges (mk_corr (b_off b) 0 (f_nodes (b_tpl b))) (f_edges (b_tpl b)) = Ok es) bs.
  Proof. exact (copy_iso_template M c0 madd mltb misz R pick cfg Wf). Qed.
  Theorem C16_copy_selected_by_fragid : forall sp n b, wf_template (b_tpl b) -> copy_of sp n -> In sp (block_spec b) ->
    n_fragid n = b_fo b.
  Proof. exact copy_selected_by_fragid. Qed.

  (** all-atom samples: the graph handed to rebuild_h_atoms (the replay of the grown molecule into
      networkx) is well formed for EVERY run, so the hydrogen component's end-to-end theorem (C09,
      Hydro/RebuildProofs.v) applies: valence completeness of samples is its corollary *)
  Theorem C16_sample_graph_wf : forall target fuel rng start nm i0 m cw log rng',
    sample_growth M c0 madd mltb misz R pick cfg target fuel rng start = Ok (nm, i0, m, cw, log, rng') ->
    SquashDefs.wf_graph (SampleFinal.to_nx m) /\
    NoDup (NxGraph.node_keys (SampleFinal.to_nx m)) /\ RebuildProofs.closed_g (SampleFinal.to_nx m) /\
    RebuildProofs.noself_g (SampleFinal.to_nx m).
  Proof. exact (SampleValence.sample_graph_wf M c0 madd mltb misz R pick cfg Wf). Qed.
  Theorem C16_sample_valence_complete : forall target fuel rng start nm i0 m cw log rng' ca car g',
    sample_growth M c0 madd mltb misz R pick cfg target fuel rng start = Ok (nm, i0, m, cw, log, rng') ->
    Hydrogens.rebuild_h_atoms false ca (SampleFinal.to_nx m) car = Ok g' ->
    exists g1, car = Some g1 /\
      ((forall i n, NxGraph.gfind i g1 = Some n -> RebuildProofs.no_rs n) ->
       forall k n, NxGraph.gfind k g1 = Some n -> Hydrogens.is_H (NxGraph.na n) = false ->
         exists val b idxs n', Hydrogens.valence_of (NxGraph.na n) = Ok val /\ Hydrogens.sum_orders (NxGraph.nadj n) = Ok b /\
           NxGraph.gfind k g' = Some n' /\
           NxGraph.nadj n' = NxGraph.nadj n ++ map (fun j => (j, Hydrogens.h_edge_attrs)) idxs /\
           (forall j, In j idxs -> exists h, NxGraph.gfind j g' = Some h /\ NxGraph.nadj h = [(k, Hydrogens.h_edge_attrs)] /\
                                             Hydrogens.is_H (NxGraph.na h) = true) /\
           (HydroDefs.fits val b -> exists v, HydroDefs.least_fitting val b v /\
              (Z.even b = true -> 2 * Z.of_nat (length idxs) = 2 * v - b /\ Hydrogens.sum_orders (NxGraph.nadj n') = Ok (2 * v)) /\
              (Z.even b = false -> 2 * Z.of_nat (length idxs) = 2 * v - b - 1 /\
                                   Hydrogens.sum_orders (NxGraph.nadj n') = Ok (2 * v - 1)))).
  Proof. exact (SampleValence.sample_valence_complete M c0 madd mltb misz R pick cfg Wf). Qed.

  (** template attribute lists as read_fragments returns them: dicts without 'fragid' / 'bonding'
      (own fields of the template nodes) and without 'rs_isomer'; checked on every case of the run *)
  Hypothesis Ha : frags_attrs_ok (c_frags cfg).

  (** numbering_canonical WITHOUT side conditions, coarse and all-atom, for every run and every
      aromaticity transcript: the graph the sampler sorts is well formed and every node carries
      'fragid' (all-atom: Dialect/ReturnedCar.contract_car_ok transfers the replay's structure and
      attributes to the transcript, Compose/RebuildWf.rebuild_wf keeps the completed graph well
      formed, every added hydrogen inherits its anchor's fragid) *)
  Theorem C16_sample_numbering_total : forall target fuel rng start nm i0 m cw log rng' aa car gf,
    sample_growth M c0 madd mltb misz R pick cfg target fuel rng start = Ok (nm, i0, m, cw, log, rng') ->
    SampleFinal.finalise_nx aa (SampleFinal.to_nx m) car = Ok gf ->
    exists g1 ks, (if aa then Hydrogens.rebuild_h_atoms_default (SampleFinal.to_nx m) car else Ok (SampleFinal.to_nx m)) = Ok g1 /\
      GraphOps.sort_items g1 = Ok ks /\ map snd ks = NxGraph.node_keys g1 /\
      Sorted.StronglySorted SortProofs.key_lt (GraphOps.isort ks) /\ Permutation.Permutation (GraphOps.isort ks) ks /\
      map (NxGraph.map_get (GraphOps.mapping_of (GraphOps.isort ks))) (map snd (GraphOps.isort ks)) = map Z.of_nat (seq 0 (length g1)) /\
      NxGraph.node_keys gf = map (NxGraph.map_get (GraphOps.mapping_of (GraphOps.isort ks))) (NxGraph.node_keys g1) /\
      Permutation.Permutation (NxGraph.node_keys gf) (map Z.of_nat (seq 0 (length g1))).
  Proof. exact (SampleSorted.sample_numbering_total M c0 madd mltb misz R pick cfg Wf Ha). Qed.
  (** the sorted graph as a whole (instantiating Resolve/SortGraphProofs.sort_graph): the relabelling is
      injective on the nodes, onto 0..n-1, and carries adjacency and every attribute except
      'ez_isomer_atoms' along; the returned graph has the keys of the sorted one (and is it, coarse) *)
  Theorem C16_sample_sorted_graph : forall target fuel rng start nm i0 m cw log rng' aa car gf,
    sample_growth M c0 madd mltb misz R pick cfg target fuel rng start = Ok (nm, i0, m, cw, log, rng') ->
    SampleFinal.finalise_nx aa (SampleFinal.to_nx m) car = Ok gf ->
    exists g1 g2 mp, (if aa then Hydrogens.rebuild_h_atoms_default (SampleFinal.to_nx m) car else Ok (SampleFinal.to_nx m)) = Ok g1 /\
      GraphOps.sort_nodes_by_attr g1 = Ok g2 /\ GraphOps.sort_mapping g1 = Ok mp /\
      SortGraphProofs.inj_on (NxGraph.map_get mp) (NxGraph.node_keys g1) /\
      Permutation.Permutation (map (NxGraph.map_get mp) (NxGraph.node_keys g1)) (map Z.of_nat (seq 0 (length g1))) /\
      NxGraph.node_keys g2 = map (NxGraph.map_get mp) (NxGraph.node_keys g1) /\
      (forall a b, In a (NxGraph.node_keys g1) -> In b (NxGraph.node_keys g1) ->
         NxGraph.has_edge g2 (NxGraph.map_get mp a) (NxGraph.map_get mp b) = NxGraph.has_edge g1 a b) /\
      (forall k key, In k (NxGraph.node_keys g1) -> key <> S "ez_isomer_atoms" ->
         NxGraph.node_get g2 (NxGraph.map_get mp k) key = NxGraph.node_get g1 k key) /\
      NxGraph.node_keys gf = NxGraph.node_keys g2 /\ (aa = false -> gf = g2).
  Proof. exact (SampleSorted.sample_sorted_graph M c0 madd mltb misz R pick cfg Wf Ha). Qed.
  (** ... and valence completeness of all-atom samples without a hypothesis on the transcript *)
  Theorem C16_sample_valence_total : forall target fuel rng start nm i0 m cw log rng' car g',
    sample_growth M c0 madd mltb misz R pick cfg target fuel rng start = Ok (nm, i0, m, cw, log, rng') ->
    Hydrogens.rebuild_h_atoms_default (SampleFinal.to_nx m) car = Ok g' ->
    exists g1, car = Some g1 /\
      forall k n, NxGraph.gfind k g1 = Some n -> Hydrogens.is_H (NxGraph.na n) = false ->
        exists val b idxs n', Hydrogens.valence_of (NxGraph.na n) = Ok val /\ Hydrogens.sum_orders (NxGraph.nadj n) = Ok b /\
          NxGraph.gfind k g' = Some n' /\
          NxGraph.nadj n' = NxGraph.nadj n ++ map (fun j => (j, Hydrogens.h_edge_attrs)) idxs /\
          (forall j, In j idxs -> exists h, NxGraph.gfind j g' = Some h /\ NxGraph.nadj h = [(k, Hydrogens.h_edge_attrs)] /\
                                            Hydrogens.is_H (NxGraph.na h) = true) /\
          (HydroDefs.fits val b -> exists v, HydroDefs.least_fitting val b v /\
             (Z.even b = true -> 2 * Z.of_nat (length idxs) = 2 * v - b /\ Hydrogens.sum_orders (NxGraph.nadj n') = Ok (2 * v)) /\
             (Z.even b = false -> 2 * Z.of_nat (length idxs) = 2 * v - b - 1 /\
                                  Hydrogens.sum_orders (NxGraph.nadj n') = Ok (2 * v - 1))).
  Proof. exact (SampleSorted.sample_valence_total M c0 madd mltb misz R pick cfg Wf Ha). Qed.

  (** explicit hydrogens / single-hydrogen fragments: the hydrogens ADDED by rebuild_h_atoms get keys above every key
      of the grown molecule (which holds the template atoms of every copy, explicit hydrogens included), each bonded
      to exactly one grown atom: inside a copy the later sort by (fragid, key) puts the template atoms first, the
      completing hydrogens after them (what the oracle reads positionally) *)
  Theorem C16_added_hydrogens_after_atoms : forall target fuel rng start nm i0 m cw log rng' car g',
    sample_growth M c0 madd mltb misz R pick cfg target fuel rng start = Ok (nm, i0, m, cw, log, rng') ->
    Hydrogens.rebuild_h_atoms_default (SampleFinal.to_nx m) car = Ok g' ->
    exists hs, NxGraph.node_keys g' = map n_key (m_nodes m) ++ hs /\
      forall j, In j hs ->
        (forall k, In k (map n_key (m_nodes m)) -> k < j) /\
        exists h k, NxGraph.gfind j g' = Some h /\ In k (map n_key (m_nodes m)) /\
                    NxGraph.nadj h = [(k, Hydrogens.h_edge_attrs)] /\ Hydrogens.is_H (NxGraph.na h) = true.
  Proof. exact (SampleHydrogenOrder.sample_hydrogens_after_atoms M c0 madd mltb misz R pick cfg Wf Ha). Qed.

  (** descriptor_once: per node and descriptor, occurrences still on the node plus occurrences
      consumed by bonds never increase along a step for old nodes, and start at what the template
      wrote for the nodes of the new copy: no written descriptor is used twice *)
  Theorem C16_descriptor_once : forall m s m' tgt, step_apply M cfg m s = Ok (m', tgt) ->
    forall k d, (left_at m' k d + used_at k d (m_edges m') <= budget_before M cfg m s k d)%nat.
  Proof. exact (descriptor_once_step M cfg). Qed.
End C16.

(** numbering_canonical (instantiating the resolver component's SortProofs on the graph the sampler
    sorts): after sort_nodes_by_attr(molecule, "fragid") the (fragid, old key) pairs in strictly
    ascending order receive the new keys 0, 1, ..., n-1; the node iteration order is the old one,
    re-keyed; the keys of the result are a permutation of 0..n-1 *)
Theorem C16_numbering_canonical : forall g g2, SampleNumbering.wf_graph g ->
  (forall n, In n g -> PyVal.aget (S "fragid") (NxGraph.na n) <> None) ->
  GraphOps.sort_nodes_by_attr g = Ok g2 ->
  exists ks, GraphOps.sort_items g = Ok ks /\ map snd ks = NxGraph.node_keys g /\
    let sorted := GraphOps.isort ks in let m := GraphOps.mapping_of sorted in
    Sorted.StronglySorted SortProofs.key_lt sorted /\ Permutation.Permutation sorted ks /\
    map (NxGraph.map_get m) (map snd sorted) = map Z.of_nat (seq 0 (length g)) /\
    NxGraph.node_keys g2 = map (NxGraph.map_get m) (NxGraph.node_keys g) /\
    Permutation.Permutation (NxGraph.node_keys g2) (map Z.of_nat (seq 0 (length g))).
Proof. exact SampleNumbering.numbering_canonical. Qed.
(** ... and the sampler's finalisation (hydrogens, sort, names) returns exactly these keys *)
Theorem C16_sample_numbering_canonical : forall aa g car gf, SampleFinal.finalise_nx aa g car = Ok gf ->
  exists g1, (if aa then Hydro.Hydrogens.rebuild_h_atoms_default g car else Ok g) = Ok g1 /\
    (SampleNumbering.wf_graph g1 -> (forall n, In n g1 -> PyVal.aget (S "fragid") (NxGraph.na n) <> None) ->
     exists ks, GraphOps.sort_items g1 = Ok ks /\ map snd ks = NxGraph.node_keys g1 /\
       Sorted.StronglySorted SortProofs.key_lt (GraphOps.isort ks) /\ Permutation.Permutation (GraphOps.isort ks) ks /\
       map (NxGraph.map_get (GraphOps.mapping_of (GraphOps.isort ks))) (map snd (GraphOps.isort ks)) = map Z.of_nat (seq 0 (length g1)) /\
       NxGraph.node_keys gf = map (NxGraph.map_get (GraphOps.mapping_of (GraphOps.isort ks))) (NxGraph.node_keys g1) /\
       Permutation.Permutation (NxGraph.node_keys gf) (map Z.of_nat (seq 0 (length g1)))).
Proof. exact SampleNumbering.sample_numbering_canonical. Qed.

(** the same about the hydrogen component's model, for ANY graph with distinct keys / closed adjacency / no loops:
    keys of the completed graph = the original keys in order, then the added hydrogens, each above every original key *)
Theorem C16_rebuild_keys_order : forall ca g1 g',
  NoDup (NxGraph.node_keys g1) -> RebuildProofs.closed_g g1 -> RebuildProofs.noself_g g1 ->
  (forall i n, NxGraph.gfind i g1 = Some n -> RebuildProofs.no_rs n) ->
  Hydrogens.rebuild_after_car false ca g1 = Ok g' ->
  exists hs, NxGraph.node_keys g' = NxGraph.node_keys g1 ++ hs /\
    (forall j, In j hs -> (forall k, In k (NxGraph.node_keys g1) -> k < j) /\
       exists m k, NxGraph.gfind j g' = Some m /\ In k (NxGraph.node_keys g1) /\
                   NxGraph.nadj m = [(k, Hydrogens.h_edge_attrs)] /\ Hydrogens.is_H (NxGraph.na m) = true).
Proof. exact SampleMassHydro.rebuild_keys_order. Qed.
(** non-vacuity: the fragment C([H])C[O-] (explicit hydrogen at key 1): completed keys 0 1 2 3 | 4 5 6 7 *)
Example C16_rebuild_keys_order_nonvacuous :
  SampleTemplateNx.mass_wf SampleTemplateNx.ex_mass_tpl /\
  exists g', Hydrogens.rebuild_after_car false HydroGen.rebuild_copy_attrs_default (SampleMassDefs.template_nx SampleTemplateNx.ex_mass_tpl) = Ok g' /\
    NxGraph.node_keys g' = [0; 1; 2; 3; 4; 5; 6; 7] /\
    map SampleMassDefs.elt g' = map (fun e => Some (PyVal.VStr (S e))) ["C"; "H"; "C"; "O"; "H"; "H"; "H"; "H"]%string.
Proof.
  split; [apply SampleTemplateNx.mass_wfb_sound; vm_compute; reflexivity|]. eexists. split; [vm_compute; reflexivity|].
  split; vm_compute; reflexivity.
Qed.

(** non-vacuity of [C16_added_hydrogens_after_atoms]: the example run completed as an all-atom molecule (aromaticity
    transcript = the grown graph with 'aromatic' set): 11 grown atoms keep the keys 0..10, 24 hydrogens get 11..34 *)
Example C16_added_hydrogens_nonvacuous :
  exists nm i0 m cw log r g', ex_run = Ok (nm, i0, m, cw, log, r) /\
    Hydrogens.rebuild_h_atoms_default (SampleFinal.to_nx m)
      (Some (NxGraph.set_all_nodes (SampleFinal.to_nx m) (S "aromatic") (PyVal.VBool false))) = Ok g' /\
    map n_key (m_nodes m) = map Z.of_nat (seq 0 11) /\ NxGraph.node_keys g' = map Z.of_nat (seq 0 35).
Proof. do 7 eexists. split; [vm_compute; reflexivity|]. split; [vm_compute; reflexivity|]. split; vm_compute; reflexivity. Qed.

(** non-vacuity: a valid run of six growth steps (two fragments, '>'/'<' and labelled '$'
    descriptors, a zero conditional reactivity, a terminal descriptor) *)
Example C16_nonvacuous :
  frags_attrs_okb ex_frags = true /\ wf_frags ex_frags /\ Forall (fun ft => tpl_connected (snd ft)) ex_frags /\
  exists cfg nm i0 m cw log r, ex_cfg = Ok cfg /\ ex_run = Ok (nm, i0, m, cw, log, r) /\ length log = 6%nat /\
    length (m_nodes m) = 11%nat /\ frag_count m = 7%nat /\ length (inter_bonds m) = 6%nat.
Proof.
  split; [reflexivity|]. split; [|split].
  - repeat constructor; cbn; try (intros [H|H]; try discriminate; try contradiction); try tauto; try discriminate;
      intuition discriminate.
  - repeat constructor; intros a b Ha Hb; cbn in Ha, Hb.
    + destruct Ha as [<-|[<-|[]]], Hb as [<-|[<-|[]]]; try constructor;
        (eapply path_step; [|constructor]); cbn; tauto.
    + destruct Ha as [<-|[]], Hb as [<-|[]]. constructor.
  - do 7 eexists. split; [vm_compute; reflexivity|]. split; [vm_compute; reflexivity|]. split; [reflexivity|]. split; [reflexivity|]. split; vm_compute; reflexivity.
Qed.

(** non-vacuity of the finalisation theorems: the example run, replayed into networkx, sorted *)
Example C16_numbering_nonvacuous :
  exists nm i0 m cw log r gf, ex_run = Ok (nm, i0, m, cw, log, r) /\
    SampleFinal.finalise_nx false (SampleFinal.to_nx m) None = Ok gf /\
    NxGraph.node_keys gf = map Z.of_nat (seq 0 11) /\ NxGraph.connected gf = true.
Proof. do 7 eexists. split; [vm_compute; reflexivity|]. split; [vm_compute; reflexivity|]. split; vm_compute; reflexivity. Qed.

(** every generated definition used above is the translation of the CURRENT source (when a function
    leaves the translatable shapes the generator emits a fall-back text for the executable check only
    and sets this flag to false: this obligation then breaks) *)
Example C16_translation_current : samplergen_current = true.
Proof. reflexivity. Qed.

Print Assumptions C16_complement_lookup_sound.
Print Assumptions C16_bond_complementary.
Print Assumptions C16_step_adds_one_fragment_one_bond.
Print Assumptions C16_tree_of_fragments.
Print Assumptions C16_tree_of_fragments_membership.
Print Assumptions C16_choice_valid_draw.
Print Assumptions C16_valid_draw_accepted.
Print Assumptions C16_descriptor_once.
Print Assumptions C16_sample_numbering_total.
Print Assumptions C16_sample_valence_total.
Print Assumptions C16_sample_sorted_graph.
Print Assumptions C16_sample_graph_wf.
Print Assumptions C16_sample_valence_complete.
Print Assumptions C16_copy_iso_template.
Print Assumptions C16_copy_selected_by_fragid.
Print Assumptions C16_numbering_canonical.
Print Assumptions C16_sample_numbering_canonical.
Print Assumptions C16_nonvacuous.
Print Assumptions C16_numbering_nonvacuous.
Print Assumptions C16_added_hydrogens_after_atoms.
Print Assumptions C16_rebuild_keys_order.
Print Assumptions C16_rebuild_keys_order_nonvacuous.
Print Assumptions C16_added_hydrogens_nonvacuous.
