(** Property C16 — sampled polymers are well-formed molecules built from the given fragments.
    Only statements, each closed by [exact]; proofs in Sample/SampleSpec.v (generated functions)
    and Sample/SampleProofs.v (the growth loop, for every sequence of random picks). *)
From Coq Require Import String.
From Coq Require Import List Ascii ZArith Bool.
From CGV Require Import Base.PyBase Base.PyVal Base.PyGen Sample.GenSupport Gen.SamplerGen Sample.SampleImpl
     Sample.SampleDefs Sample.SampleSpec Sample.SampleProofs.
Import ListNotations.
Open Scope Z_scope.

(** the GENERATED complement look-up only returns eligible descriptors that are complementary
    ('$' with '$' of the same order; '>L' with '<L') *)
Theorem C16_complement_lookup_sound : forall d elig cs,
  find_complementary_bonding_descriptor d elig = Ok cs ->
  forall c, In c cs -> In c elig /\ (kind_in_domain d = true -> compl_spec d c = true).
Proof. exact find_compl_sound. Qed.

Print Assumptions C16_complement_lookup_sound.
