(** Property C17 — the sampler honours target weight, reactivities, terminals and seed.
    Only statements, each closed by [exact]; proofs in Sample/SampleSpec.v and Sample/SampleProofs.v. *)
From Coq Require Import String.
From Coq Require Import List Ascii ZArith Bool.
From CGV Require Import Base.PyBase Base.PyVal Base.PyGen Sample.GenSupport Gen.SamplerGen Sample.SampleImpl
     Sample.SampleDefs Sample.SampleSpec Sample.SampleProofs.
Import ListNotations.
Open Scope Z_scope.

(** the GENERATED order-suffix defaults *)
Theorem C17_defaults_list : forall l, Forall (fun s => s <> []) l -> set_bond_order_defaults_list l = Ok (map dflt l).
Proof. exact set_defaults_list_spec. Qed.
Theorem C17_defaults_dict : forall (V : Type) (d : list (pystr * V)), Forall (fun kv => fst kv <> []) d ->
  set_bond_order_defaults_dict d = Ok (dflt_dict d).
Proof. exact @set_defaults_dict_spec. Qed.

(** random.choices' selection rule (third-party; modelled over integer weights): an entry of
    weight 0 is never returned for a draw in [0, total) *)
Theorem C17_zero_weight_never_selected : forall ws x, Forall (fun w => 0 <= w) ws -> 0 <= x < zsum ws ->
  nth_error ws (choices_index ws x) <> Some 0.
Proof. exact zero_weight_never_selected. Qed.

Print Assumptions C17_defaults_list.
Print Assumptions C17_defaults_dict.
Print Assumptions C17_zero_weight_never_selected.
