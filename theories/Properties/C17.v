(** Property C17 — the sampler honours target weight, reactivities, terminals and seed.
    Only statements, each closed by [exact]; proofs in Sample/SampleSpec.v (generated functions),
    Sample/SampleProofs.v (loop, selection rule, terminals), Sample/SampleHistory.v (histories).
    Every theorem holds for EVERY sequence of random picks the model accepts, hence for every seed
    and generator.  NOTE: the code does not count the mass of the starting fragment; the property
    speaks of "the fragments added during growth", which is what [stop_rule] states.
    Element-derived masses: theorems about the model's compute_mass (fold of table masses; hydrogen
    count = C09's), the float sums themselves are compared bit-exactly per run. *)
From Coq Require Import String.
From Coq Require Import List Ascii ZArith Bool.
From CGV Require Import Base.PyBase Base.PyVal Base.PyGen Sample.GenSupport Gen.SamplerGen Sample.SampleImpl
     Sample.SampleDefs Sample.SampleSpec Sample.SampleProofs Sample.SampleOrder Sample.SampleHistory Sample.SampleMass
     Sample.SampleExample Sample.SampleMassDefs Sample.SampleMassHydro Sample.SampleTemplateNx Sample.SampleHistoryFail
     Sample.SampleHistoryExample.
From CGV Require Import Base.NxGraph.
From CGV Require Gen.HydroGen Hydro.Hydrogens Hydro.HydroDefs Hydro.RebuildProofs.
Import ListNotations.
Open Scope Z_scope.

(** the GENERATED order-suffix defaults of all tables *)
Theorem C17_defaults_list : forall l, Forall (fun s => s <> []) l -> set_bond_order_defaults_list l = Ok (map dflt l).
Proof. exact set_defaults_list_spec. Qed.
Theorem C17_defaults_dict : forall (V : Type) (d : list (pystr * V)), Forall (fun kv => fst kv <> []) d ->
  set_bond_order_defaults_dict d = Ok (dflt_dict d).
Proof. exact @set_defaults_dict_spec. Qed.
Theorem C17_defaults_key : forall s, s <> [] -> patch_key s = Ok (dflt s).
Proof. exact patch_key_spec. Qed.

(** random.choices' selection rule (THIRD-PARTY code, modelled over integer weights: cumulative
    sums + bisect_right as its specification): an entry of weight 0 is never returned for a draw
    in [0, total), and the index is in range *)
Theorem C17_zero_weight_never_selected : forall ws x, Forall (fun w => 0 <= w) ws -> 0 <= x < zsum ws ->
  nth_error ws (choices_index ws x) <> Some 0.
Proof. exact zero_weight_never_selected. Qed.
Theorem C17_choices_index_in_range : forall ws x, Forall (fun w => 0 <= w) ws -> 0 <= x < zsum ws ->
  (choices_index ws x < length ws)%nat.
Proof. exact choices_index_in_range. Qed.

Section C17.
  Variable M : Type.
  Variables (c0 : Z -> M) (madd : M -> M -> M) (mltb : M -> M -> bool) (misz : M -> bool).
  Variable R : Type.
  Variable pick : R -> nat -> option (list M) -> res (nat * R).
  Variable cfg : config M.

  (** stop_rule, generic carrier, from the GENERATED loop guard only: at exit the guard fails for
      the left fold of the masses of the fragments added in the loop, and it held before the last
      addition *)
  Theorem C17_stop_rule : forall target fuel rng m cw log m' cw' log' rng',
    grow M c0 madd mltb misz R pick cfg target fuel rng m cw log = Ok (m', cw', log', rng') ->
    exists new ms, log' = log ++ new /\ masses_of M cfg new = Some ms /\ cw' = fold_left madd ms cw /\
      loop_guard mltb cw' target = false /\
      (forall front last, ms = front ++ [last] -> loop_guard mltb (fold_left madd front cw) target = true).
  Proof. exact (stop_rule M c0 madd mltb misz R pick cfg). Qed.

  (** zero reactivities: the site has non-zero polymer reactivity (missing keys count as 0) when a
      table is given; the partner has non-zero conditional reactivity when a table is given *)
  Theorem C17_zero_reactivity_never_chosen : forall rng ob s rng',
    step_select M c0 misz R pick cfg rng ob = Ok (s, rng') ->
    (match c_poly cfg with kv :: p => misz (dict_get_default (kv :: p) (s_bonding s) (c0 0)) = false | [] => True end) /\
    (match dict_get (c_fragreact cfg) (s_bonding s) with
     | Some (kv :: p) => misz (dict_get_default (kv :: p) (s_compl s) (c0 0)) = false
     | _ => True end).
  Proof. exact (select_nonzero M c0 misz R pick cfg). Qed.

  (** terminals *)
  Theorem C17_terminal_closes_atom : forall m s m' tgt, step_apply M cfg m s = Ok (m', tgt) ->
    str_in (s_compl s) (c_term cfg) = true ->
    exists n, find_node (s_source s) (m_nodes m') = Some n /\ n_bonding n = None.
  Proof. exact (terminal_closes_atom M cfg). Qed.
  Theorem C17_closed_stays_closed : forall m s m' tgt k n, step_apply M cfg m s = Ok (m', tgt) ->
    find_node k (m_nodes m) = Some n -> n_bonding n = None ->
    exists n', find_node k (m_nodes m') = Some n' /\ n_bonding n' = None.
  Proof. exact (closed_stays_closed M cfg). Qed.
  Theorem C17_terminal_withdrawn : forall m s m' tgt, step_apply M cfg m s = Ok (m', tgt) ->
    str_in (s_compl s) (c_term cfg) = false ->
    exists n ds, find_node (s_source s) (m_nodes m') = Some n /\ n_bonding n = Some ds /\
                 Forall (fun d => str_in d (c_term cfg) = false) ds.
  Proof. exact (terminal_withdrawn M cfg). Qed.
End C17.

(** the stop rule at Z in the words of the property *)
Theorem C17_stop_rule_Z : forall (R : Type) pick cfg target fuel rng m log m' cw' log' rng',
  grow Z (fun z => z) Z.add Z.ltb (Z.eqb 0) R pick cfg target fuel rng m 0 log = Ok (m', cw', log', rng') ->
  exists new ms, log' = log ++ new /\ masses_of Z cfg new = Some ms /\
    target <= zsum ms /\ (forall front last, ms = front ++ [last] -> zsum front < target).
Proof. exact stop_rule_Z. Qed.

(** seed_determines, on the history machine (abstract generator: any state type, any seeding
    function, any pick function): after ANY history, construct(seed); sample(w) returns what a
    fresh interpreter returns *)
Theorem C17_seed_determines : forall (M : Type) c0 madd mltb misz (R : Type) rseed pick st id a seed target start fuel,
  match init M (a_frags M a) (a_poly M a) (a_fragreact M a) (a_term M a) (a_masses M a) with
  | Ok _ => snd (hrun M c0 madd mltb misz R rseed pick st [Construct M id a seed; Sample M id target start fuel])
            = fresh_run M c0 madd mltb misz R rseed pick a seed target start fuel
  | Err _ => True
  end.
Proof. exact seed_determines. Qed.

(** seed determinism ACROSS PROCESSES (hash seeds): every candidate list handed to random.choice /
    random.choices is an explicit order-preserving function of the insertion orders of the inputs
    (fragment dict order, node order, descriptor order, node insertion order of the molecule):
    grouping by first appearance and filtering in order; no set / hash iteration order enters.
    With [C17_seed_determines] (the generator is re-seeded by the constructor) the picked indices,
    hence the molecule, are the same in every interpreter process.  [C17_complement_candidates_exact]
    is about the GENERATED look-up: iterating a set there (seeded change C17-1) leaves the translatable
    shapes ([C17_translation_current] breaks) and contradicts this statement. *)
Theorem C17_open_bonds_insertion_order : forall m,
  map fst (find_open_bonds m) = dedup (map fst (open_pairs m)) /\
  forall d, dict_get_default (find_open_bonds m) d [] = map snd (filter (fun p => str_eqb d (fst p)) (open_pairs m)).
Proof. intros m. split; [exact (open_bonds_keys_order m)|exact (open_bonds_nodes_order m)]. Qed.
Theorem C17_fragments_by_bonding_insertion_order : forall fd,
  map fst (fragments_by_bonding fd) = dedup (map fst (frag_pairs fd)) /\
  forall d, dict_get_default (fragments_by_bonding fd) d [] = map snd (filter (fun p => str_eqb d (fst p)) (frag_pairs fd)).
Proof. intros fd. split; [exact (byb_keys_order fd)|exact (byb_fragments_order fd)]. Qed.
Theorem C17_complement_candidates_exact : forall d elig, d <> [] -> Forall (fun c => c <> []) elig ->
  find_complementary_bonding_descriptor d elig =
    match d with
    | k :: _ =>
        if Ascii.eqb k "$" && match elig with [] => false | _ => true end
        then Ok (filter (dollar_partner d) elig)
        else if str_in (flipped d) elig then Ok [flipped d] else Err EIO
    | [] => Err EIndex
    end.
Proof. exact find_compl_exact. Qed.
Theorem C17_step_select_determined : forall (M : Type) c0 misz (R : Type) pick (cfg : config M) rng ob s rng',
  step_select M c0 misz R pick cfg rng ob = Ok (s, rng') ->
  exists i1 i2 i3 i4 cb, s_picks s = [i1; i2; i3; i4] /\
    nth_error (map fst ob) i1 = Some (s_bonding s) /\
    nth_error (dict_get_default ob (s_bonding s) []) i2 = Some (s_source s) /\
    find_complementary_bonding_descriptor (s_bonding s) (map fst (c_byb cfg)) = Ok cb /\
    nth_error cb i3 = Some (s_compl s) /\
    nth_error (dict_get_default (c_byb cfg) (s_compl s) []) i4 = Some (s_fragname s, s_tnode s).
Proof. exact step_select_determined. Qed.
Example C17_order_nonvacuous :
  find_complementary_bonding_descriptor (S "$B1") [S "$A1"; S ">1"; S "$C2"; S "$B1"; S "$D1"] = Ok [S "$A1"; S "$B1"; S "$D1"] /\
  dedup [S "b"; S "a"; S "b"; S "c"; S "a"] = [S "b"; S "a"; S "c"].
Proof. split; reflexivity. Qed.

(** element-derived fragment masses: the model of compute_mass (compared bit-exactly with
    `sampler.fragment_masses` on every run) is the left fold, over any carrier, of the table masses of the
    template's atoms in node order followed by the completed hydrogens; each non-hydrogen atom
    contributes the hydrogen component's count (missing_of on the GENERATED valence table, clipped at 0)
    for its summed integer bond orders, which by C09 is the least fitting valence minus the bonds
    whenever the bonds fit.  (Statements about the MODEL's hydrogen rule; aromatic orders are outside it.) *)
Theorem C17_hydrogen_count_is_C09 : forall vals b, h_missing vals b = Z.max (Hydrogens.missing_of vals (2 * b)) 0.
Proof. exact h_missing_is_hydro. Qed.
Theorem C17_template_hcount_spec : forall ns es nh, template_hcount ns es = Ok nh ->
  exists hs, Forall2 (node_hcount es) ns hs /\ nh = zsum hs /\ Forall (fun h => 0 <= h) hs.
Proof. exact template_hcount_spec. Qed.
Theorem C17_mass_is_sum : forall (M : Type) c0 madd (pte : list (pystr * M)) t x, compute_mass M c0 madd pte t = Ok x ->
  exists ms mh hs, Forall2 (atom_mass M pte) (f_nodes t) ms /\ dict_get pte (S "H") = Some mh /\
    Forall2 (node_hcount (f_edges t)) (f_nodes t) hs /\ Forall (fun h => 0 <= h) hs /\
    x = fold_left madd (ms ++ repeat mh (Z.to_nat (zsum hs))) (c0 0).
Proof. exact mass_is_sum. Qed.
Theorem C17_mass_is_sum_Z : forall pte t x, compute_mass Z (fun z => z) Z.add pte t = Ok x ->
  exists ms mh hs, Forall2 (atom_mass Z pte) (f_nodes t) ms /\ dict_get pte (S "H") = Some mh /\
    Forall2 (node_hcount (f_edges t)) (f_nodes t) hs /\ x = zsum ms + zsum hs * mh.
Proof. exact mass_is_sum_Z. Qed.
(** ethanol-like CCO with integer masses: 2*12 + 16 + 6*1 *)
Example C17_mass_nonvacuous :
  let nd k e := {| t_key := k; t_fragid := 0; t_bonding := None; t_attrs := [(S "element", VStr e); (S "charge", VInt 0)] |} in
  compute_mass Z (fun z => z) Z.add [(S "H", 1); (S "C", 12); (S "O", 16)]
    {| f_nodes := [nd 0 (S "C"); nd 1 (S "C"); nd 2 (S "O")]; f_edges := [(0, 1, [(S "order", VInt 1)]); (1, 2, [(S "order", VInt 1)])] |} = Ok 46.
Proof. vm_compute. reflexivity. Qed.

(** ** the mass model DERIVED from the hydrogen component's node-by-node model of rebuild_h_atoms
    (Hydro/Hydrogens.v; its end-to-end theorem C09) *)
(** node order of the completed graph: the original atoms in their order with their elements, then one "H"
    per added hydrogen; their number is the sum of the per-atom counts max(bonds_missing, 0) *)
Theorem C17_rebuild_node_order : forall ca g1 g',
  NoDup (node_keys g1) -> RebuildProofs.closed_g g1 -> RebuildProofs.noself_g g1 ->
  (forall i n, gfind i g1 = Some n -> RebuildProofs.no_rs n) ->
  Hydrogens.rebuild_after_car false ca g1 = Ok g' ->
  exists hcs, Forall2 (fun n hc => hcount_of n = Ok hc /\ 0 <= hc) g1 hcs /\
    map elt g' = map elt g1 ++ repeat (Some (VStr (S "H"))) (sum_nat (map Z.to_nat hcs)).
Proof. exact rebuild_node_order. Qed.
(** for ANY graph that represents the template (elements, charges, bond sums) and any carrier (binary64
    included: same additions in the same order): the sampler's compute_mass = the loop
    `for node in molecule.nodes: mass += PTE[element]` over the graph Hydro's rebuild model returns *)
Theorem C17_mass_from_hydro : forall (M : Type) (c0 : Z -> M) (madd : M -> M -> M) pte t ca g1 g' x,
  represents t g1 ->
  NoDup (node_keys g1) -> RebuildProofs.closed_g g1 -> RebuildProofs.noself_g g1 ->
  (forall i n, gfind i g1 = Some n -> RebuildProofs.no_rs n) ->
  Hydrogens.rebuild_after_car false ca g1 = Ok g' ->
  compute_mass M c0 madd pte t = Ok x ->
  nx_mass M c0 madd pte g' = Ok x.
Proof. exact mass_from_hydro. Qed.
(** rebuild_h_atoms as a whole (aromaticity transcript [car] under the Hydro contract) *)
Theorem C17_mass_from_hydro_rebuild : forall (M : Type) (c0 : Z -> M) (madd : M -> M -> M) pte t ca g car g' x,
  NoDup (node_keys g) -> RebuildProofs.closed_g g -> RebuildProofs.noself_g g ->
  Hydrogens.rebuild_h_atoms false ca g car = Ok g' ->
  (forall g1, car = Some g1 -> represents t g1 /\ forall i n, gfind i g1 = Some n -> RebuildProofs.no_rs n) ->
  compute_mass M c0 madd pte t = Ok x ->
  nx_mass M c0 madd pte g' = Ok x.
Proof. exact mass_from_hydro_rebuild. Qed.
(** the fragment graph itself (add_node / add_edge replay of the template) represents the template and
    satisfies the structural hypotheses, for every fragment with distinct keys, own edges, no pair twice
    and dict attributes ([mass_wfb], evaluated on every case) *)
Theorem C17_template_nx_represents : forall t, mass_wf t ->
  represents t (template_nx t) /\
  NoDup (node_keys (template_nx t)) /\ RebuildProofs.closed_g (template_nx t) /\ RebuildProofs.noself_g (template_nx t) /\
  (forall i n, gfind i (template_nx t) = Some n -> RebuildProofs.no_rs n).
Proof. exact template_nx_represents. Qed.
Theorem C17_mass_wfb_sound : forall t, mass_wfb t = true -> mass_wf t.
Proof. exact mass_wfb_sound. Qed.
(** hence: fragment_masses computed by compute_mass = the table masses of the atoms of the COMPLETED
    fragment, as the hydrogen component's model describes it, added up in its node order *)
Theorem C17_mass_is_hydro_mass : forall (M : Type) (c0 : Z -> M) (madd : M -> M -> M) pte t ca g' x, mass_wf t ->
  Hydrogens.rebuild_after_car false ca (template_nx t) = Ok g' ->
  compute_mass M c0 madd pte t = Ok x ->
  nx_mass M c0 madd pte g' = Ok x.
Proof. exact mass_is_hydro_mass. Qed.
Example C17_mass_is_hydro_mass_nonvacuous :
  let pte := [(S "H", 1); (S "C", 12); (S "O", 16)] in
  mass_wf ex_mass_tpl /\
  exists g', Hydrogens.rebuild_after_car false HydroGen.rebuild_copy_attrs_default (template_nx ex_mass_tpl) = Ok g' /\
    map elt g' = map (fun e => Some (VStr (S e))) ["C"; "H"; "C"; "O"; "H"; "H"; "H"; "H"]%string /\
    compute_mass Z (fun z => z) Z.add pte ex_mass_tpl = Ok 45 /\
    nx_mass Z (fun z => z) Z.add pte g' = Ok 45.
Proof. exact mass_is_hydro_mass_nonvacuous. Qed.

(** non-vacuity: the example run (six steps; masses 28/15, target 120): 129 >= 120 and 114 < 120;
    the zero conditional weight ('$A' -> '$A') is never chosen, the terminal '$B' closes its atom *)
Example C17_nonvacuous :
  exists cfg nm i0 m cw log r, ex_cfg = Ok cfg /\ ex_run = Ok (nm, i0, m, cw, log, r) /\
    cw = 129 /\ masses_of Z cfg log = Some [28; 28; 15; 15; 28; 15] /\
    existsb (fun s => str_in (r_compl s) (c_term cfg)) log = true /\
    (exists n, find_node 1 (m_nodes m) = Some n /\ n_bonding n = None).
Proof.
  do 7 eexists. split; [vm_compute; reflexivity|]. split; [vm_compute; reflexivity|].
  split; [reflexivity|]. split; [vm_compute; reflexivity|]. split; [vm_compute; reflexivity|].
  eexists. split; vm_compute; reflexivity.
Qed.

(** ** histories with ONE generator cell shared by all samplers, kept across failed samples
    (Sample/SampleHistoryFail.v): [sample_growth_s] = sample_growth with the generator state threaded through failures *)
Section C17_histories.
  Variable M : Type.
  Variables (c0 : Z -> M) (madd : M -> M -> M) (mltb : M -> M -> bool) (misz : M -> bool).
  Variable R : Type.
  Variable rseed : Z -> R.
  Variable pick : R -> nat -> option (list M) -> res (nat * R).
  Let growth_s := sample_growth_s M c0 madd mltb misz R pick.
  Let run2 := hrun2 M c0 madd mltb misz R rseed pick.
  Let result := result_of M c0 madd mltb misz R pick.

  Theorem C17_growth_state_refines : forall cfg target fuel rng start,
    sample_growth M c0 madd mltb misz R pick cfg target fuel rng start =
    match growth_s cfg target fuel rng start with
    | (r, Ok (nm, i0, m, cw, log)) => Ok (nm, i0, m, cw, log, r)
    | (_, Err e) => Err e
    end.
  Proof. exact (growth_refines M c0 madd mltb misz R pick). Qed.
  (** whatever came before (also samples that failed half-way): construct(seed); sample = the fresh run *)
  Theorem C17_seed_determines_after_failures : forall st id a seed target start fuel cfg,
    init M (a_frags M a) (a_poly M a) (a_fragreact M a) (a_term M a) (a_masses M a) = Ok cfg ->
    snd (run2 st [Construct M id a seed; Sample M id target start fuel]) =
    [None; Some (result cfg target fuel (rseed seed) start)] /\
    snd (run2 st [Construct M id a seed; Sample M id target start fuel]) = fresh_run M c0 madd mltb misz R rseed pick a seed target start fuel.
  Proof. exact (seed_determines2 M c0 madd mltb misz R rseed pick). Qed.
  (** construct A(seed_A); construct B(seed_B); sample A = A's tables run from seed_B (what a fresh
      construct A(seed_B); sample returns), also when B's constructor raises *)
  Theorem C17_interleaved_sample : forall st ida idb a b seed_a seed_b target start fuel cfga,
    ida <> idb ->
    init M (a_frags M a) (a_poly M a) (a_fragreact M a) (a_term M a) (a_masses M a) = Ok cfga ->
    exists ob, snd (run2 st [Construct M ida a seed_a; Construct M idb b seed_b; Sample M ida target start fuel]) =
               [None; ob; Some (result cfga target fuel (rseed seed_b) start)] /\
      nth 1 (fresh_run M c0 madd mltb misz R rseed pick a seed_b target start fuel) None
        = Some (result cfga target fuel (rseed seed_b) start).
  Proof. exact (interleaved_sample M c0 madd mltb misz R rseed pick). Qed.
  (** after ANY history a constructor call leaves the shared generator in the state of its seed; a sample call
      touches nothing but the generator *)
  Theorem C17_construct_resets_generator : forall st pre id a seed,
    h_rng M R (fst (run2 st (pre ++ [Construct M id a seed]))) = rseed seed.
  Proof. exact (construct_resets_generator M c0 madd mltb misz R rseed pick). Qed.
  Theorem C17_sample_keeps_samplers : forall st id target start fuel,
    h_samplers M R (fst (hstep2 M c0 madd mltb misz R rseed pick st (Sample M id target start fuel))) = h_samplers M R st.
  Proof. exact (sample_keeps_samplers M c0 madd mltb misz R rseed pick). Qed.
  (** a sample after a FAILED sample runs from the state the failed call reached *)
  Theorem C17_sample_after_failed : forall st id a seed t1 s1 f1 t2 s2 f2 cfg,
    init M (a_frags M a) (a_poly M a) (a_fragreact M a) (a_term M a) (a_masses M a) = Ok cfg ->
    snd (run2 st [Construct M id a seed; Sample M id t1 s1 f1; Sample M id t2 s2 f2]) =
    [None; Some (result cfg t1 f1 (rseed seed) s1);
     Some (result cfg t2 f2 (fst (growth_s cfg t1 f1 (rseed seed) s1)) s2)].
  Proof. exact (sample_after_failed M c0 madd mltb misz R rseed pick). Qed.
  (** a call that failed before its first draw (unknown start fragment) is invisible *)
  Theorem C17_sample_after_early_failure : forall st id a seed t1 f1 c s t2 s2 f2 cfg,
    init M (a_frags M a) (a_poly M a) (a_fragreact M a) (a_term M a) (a_masses M a) = Ok cfg ->
    dict_get (c_frags cfg) (c :: s) = None ->
    snd (run2 st [Construct M id a seed; Sample M id t1 (Some (c :: s)) f1; Sample M id t2 s2 f2]) =
    [None; Some (Err EKey); Some (result cfg t2 f2 (rseed seed) s2)].
  Proof. exact (sample_after_early_failure M c0 madd mltb misz R rseed pick). Qed.
End C17_histories.
(** non-vacuity: a sampler whose growth dead-ends (IndexError) after five of ten available draws: the failed call
    leaves five, the next sample succeeds on them, the one after finds the generator exhausted *)
Example C17_failed_sample_consumes :
  exists cfg, init Z (a_frags Z ex_dead_args) [] [] [] (a_masses Z ex_dead_args) = Ok cfg /\
    ex_growth_s cfg 100 20%nat (ex_rseed 0) None = (repeat 0%nat 5, Err EIndex) /\
    map start_name (snd (ex_hrun2 ex_st0 [Construct Z 0 ex_dead_args 0; Sample Z 0 100 None 20; Sample Z 0 5 None 20; Sample Z 0 5 None 20]))
      = [None; None; Some (S "A"); None] /\
    nth 3 (snd (ex_hrun2 ex_st0 [Construct Z 0 ex_dead_args 0; Sample Z 0 100 None 20; Sample Z 0 5 None 20; Sample Z 0 5 None 20])) None
      = Some (Err EStopIter).
Proof. exact failed_sample_consumes. Qed.
Example C17_interleaving_uses_last_seed :
  map start_name (snd (ex_hrun2 ex_st0 [Construct Z 0 ex_args 1; Construct Z 1 ex_dead_args 2; Sample Z 0 50 None 40])) = [None; None; Some (S "B")] /\
  map start_name (snd (ex_hrun2 ex_st0 [Construct Z 0 ex_args 2; Sample Z 0 50 None 40])) = [None; Some (S "B")] /\
  map start_name (snd (ex_hrun2 ex_st0 [Construct Z 0 ex_args 1; Sample Z 0 50 None 40])) = [None; Some (S "A")].
Proof. exact interleaving_uses_last_seed. Qed.

(** every generated definition used above is the translation of the CURRENT source (when a function
    leaves the translatable shapes the generator emits a fall-back text for the executable check only
    and sets this flag to false: this obligation then breaks) *)
Example C17_translation_current : samplergen_current = true.
Proof. reflexivity. Qed.

Print Assumptions C17_defaults_list.
Print Assumptions C17_defaults_dict.
Print Assumptions C17_defaults_key.
Print Assumptions C17_zero_weight_never_selected.
Print Assumptions C17_choices_index_in_range.
Print Assumptions C17_stop_rule.
Print Assumptions C17_stop_rule_Z.
Print Assumptions C17_zero_reactivity_never_chosen.
Print Assumptions C17_terminal_closes_atom.
Print Assumptions C17_closed_stays_closed.
Print Assumptions C17_terminal_withdrawn.
Print Assumptions C17_seed_determines.
Print Assumptions C17_open_bonds_insertion_order.
Print Assumptions C17_fragments_by_bonding_insertion_order.
Print Assumptions C17_complement_candidates_exact.
Print Assumptions C17_step_select_determined.
Print Assumptions C17_hydrogen_count_is_C09.
Print Assumptions C17_template_hcount_spec.
Print Assumptions C17_mass_is_sum.
Print Assumptions C17_mass_is_sum_Z.
Print Assumptions C17_nonvacuous.
Print Assumptions C17_rebuild_node_order.
Print Assumptions C17_mass_from_hydro.
Print Assumptions C17_mass_from_hydro_rebuild.
Print Assumptions C17_template_nx_represents.
Print Assumptions C17_mass_wfb_sound.
Print Assumptions C17_mass_is_hydro_mass.
Print Assumptions C17_mass_is_hydro_mass_nonvacuous.
Print Assumptions C17_growth_state_refines.
Print Assumptions C17_seed_determines_after_failures.
Print Assumptions C17_interleaved_sample.
Print Assumptions C17_sample_after_failed.
Print Assumptions C17_sample_after_early_failure.
Print Assumptions C17_failed_sample_consumes.
Print Assumptions C17_interleaving_uses_last_seed.
Print Assumptions C17_construct_resets_generator.
Print Assumptions C17_sample_keeps_samplers.
