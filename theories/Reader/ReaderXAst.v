(** ReaderXAst: from ASTs to flat items with closings (Reader/ReaderX.v), for EVERY well-formed AST
    without branch multiplier - also when a node closes several branches.  [linearize_x] is total;
    under the grammar's own side conditions ([wf], via the recursive reformulation [rg_chain true] of
    Reader/ReaderWf.v) the flat form prints as the AST prints, has the AST's tokens and satisfies the
    side conditions of [reader_sim_x]: [reader_sim_grammar]. *)
From Coq Require Import String.
From Coq Require Import List Ascii ZArith Bool Lia.
From CGV Require Import Base.PyBase Base.PyVal Base.NxGraph Dialect.DialectImpl
     Reader.ReaderImpl Reader.Grammar Reader.ReaderLemmas Reader.Lin Reader.ReaderSim Reader.ReaderMult Reader.ReaderAst
     Reader.ReaderWf Reader.ReaderLast Reader.UnitsDefs Reader.ReaderX.
Import ListNotations.

(** ** the flat form *)
(** "(" in front of the first item, ")a" behind the last *)
Definition xwrap (a : option sym) (l : list xlin) : list xlin :=
  match l with
  | [] => []
  | x :: t => match rev (xset_open x :: t) with [] => [] | z :: r => rev (xadd_close a z :: r) end
  end.
Fixpoint xlin_item (it : item) : list xlin :=
  match it with Item n r m b brs => node_x n r m b :: flat_map xlin_branch brs end
with xlin_branch (br : branch) : list xlin :=
  match br with Branch c _ a => xwrap a (flat_map xlin_item c) end.
Definition linearize_x (c : chain) : list xlin := flat_map xlin_item c.

Lemma xlins_str_app a b : xlins_str (a ++ b) = xlins_str a ++ xlins_str b.
Proof. unfold xlins_str. apply flat_map_app. Qed.
Lemma xlins_toks_app a b : xlins_toks (a ++ b) = xlins_toks a ++ xlins_toks b.
Proof. unfold xlins_toks. apply flat_map_app. Qed.
Lemma closes_str_app a b : closes_str (a ++ b) = closes_str a ++ closes_str b.
Proof. unfold closes_str. apply flat_map_app. Qed.
Lemma closes_toks_app a b : closes_toks (a ++ b) = closes_toks a ++ closes_toks b.
Proof. unfold closes_toks. apply flat_map_app. Qed.

(** ** what [xwrap] does: text, tokens, side conditions, depth *)
Definition xhead_closed (l : list xlin) : Prop := match l with x :: _ => x_open x = false | [] => False end.
Lemma xset_open_str x : x_open x = false -> xlin_str (xset_open x) = "("%char :: xlin_str x.
Proof. intros H. unfold xlin_str, lin_str, xset_open. cbn [xbase l_open l_name x_open x_name x_closes]. rewrite H. reflexivity. Qed.
Lemma xset_open_toks x : x_open x = false -> xlin_toks (xset_open x) = TOpen :: xlin_toks x.
Proof. intros H. unfold xlin_toks, lin_toks, xset_open. cbn [xbase l_open l_name x_open x_name x_closes]. rewrite H. reflexivity. Qed.
Lemma xadd_close_str a z : xlin_str (xadd_close a z) = xlin_str z ++ ")"%char :: osym_str a.
Proof.
  unfold xlin_str, xadd_close. cbn [x_closes]. rewrite closes_str_app. cbn [closes_str flat_map]. rewrite app_nil_r.
  now rewrite app_assoc.
Qed.
Lemma xadd_close_toks a z : xlin_toks (xadd_close a z) = xlin_toks z ++ TClose :: osym_tok a.
Proof.
  unfold xlin_toks, xadd_close. cbn [x_closes]. rewrite closes_toks_app. cbn [closes_toks flat_map]. rewrite app_nil_r.
  now rewrite app_assoc.
Qed.
(** the shape of a wrapped list *)
Lemma xwrap_shape a x t : exists pre z, xset_open x :: t = pre ++ [z] /\ xwrap a (x :: t) = pre ++ [xadd_close a z].
Proof.
  unfold xwrap. destruct (rev (xset_open x :: t)) as [|z r] eqn:Er.
  - apply (f_equal (@length _)) in Er. rewrite rev_length in Er. discriminate.
  - exists (rev r), z. split; [|reflexivity]. rewrite <- (rev_involutive (xset_open x :: t)), Er. reflexivity.
Qed.
Lemma xwrap_spec a l : xhead_closed l ->
  xlins_str (xwrap a l) = "("%char :: xlins_str l ++ ")"%char :: osym_str a
  /\ xlins_toks (xwrap a l) = TOpen :: xlins_toks l ++ TClose :: osym_tok a.
Proof.
  intros Hh. destruct l as [|x t]; [contradiction|]. cbn in Hh.
  destruct (xwrap_shape a x t) as (pre & z & E & ->).
  rewrite xlins_str_app, xlins_toks_app. cbn [xlins_str xlins_toks flat_map]. rewrite !app_nil_r.
  rewrite xadd_close_str, xadd_close_toks.
  assert (E3 : xlins_str pre ++ xlin_str z = "("%char :: xlins_str (x :: t)).
  { change ("("%char :: xlins_str (x :: t)) with (("("%char :: xlin_str x) ++ xlins_str t).
    rewrite <- (xset_open_str x Hh). change (xlin_str (xset_open x) ++ xlins_str t) with (xlins_str (xset_open x :: t)).
    rewrite E, xlins_str_app. cbn [xlins_str flat_map]. now rewrite app_nil_r. }
  assert (E4 : xlins_toks pre ++ xlin_toks z = TOpen :: xlins_toks (x :: t)).
  { change (TOpen :: xlins_toks (x :: t)) with ((TOpen :: xlin_toks x) ++ xlins_toks t).
    rewrite <- (xset_open_toks x Hh). change (xlin_toks (xset_open x) ++ xlins_toks t) with (xlins_toks (xset_open x :: t)).
    rewrite E, xlins_toks_app. cbn [xlins_toks flat_map]. now rewrite app_nil_r. }
  split.
  - rewrite app_assoc, E3. reflexivity.
  - rewrite app_assoc, E4. reflexivity.
Qed.

(** depth bookkeeping for items with closings *)
Fixpoint xdrun (d : nat) (l : list xlin) : option nat :=
  match l with
  | [] => Some d
  | x :: t =>
      let d1 := if x_open x then Datatypes.S d else d in
      if (length (x_closes x) <=? d1)%nat then xdrun (d1 - length (x_closes x)) t else None
  end.
Lemma xdrun_app l : forall d r, xdrun d (l ++ r) = match xdrun d l with Some d' => xdrun d' r | None => None end.
Proof.
  induction l as [|x t IH]; intros d r; [reflexivity|]. cbn [app xdrun].
  destruct (length (x_closes x) <=? _)%nat; [apply IH|reflexivity].
Qed.
Lemma xdepth_xdrun l : forall d, xdepth d l = match xdrun d l with Some _ => true | None => false end.
Proof.
  induction l as [|x t IH]; intros d; [reflexivity|]. cbn [xdepth xdrun].
  destruct (length (x_closes x) <=? _)%nat; [apply IH|reflexivity].
Qed.
Definition xbalanced (l : list xlin) : Prop := forall d, xdrun d l = Some d.
Lemma xbalanced_app a b : xbalanced a -> xbalanced b -> xbalanced (a ++ b).
Proof. intros Ha Hb d. now rewrite xdrun_app, Ha, Hb. Qed.

(** the last item of a chain whose last node ends the enclosing structure: no bond symbol, and no
    symbol behind any of its closings *)
Definition plainx (z : xlin) : Prop := x_bond z = None /\ forallb (fun a => negb (is_some a)) (x_closes z) = true.
Definition last_plainx (l : list xlin) : Prop := match rev l with z :: _ => plainx z | [] => True end.
Lemma last_plainx_app a b : b <> [] -> last_plainx (a ++ b) <-> last_plainx b.
Proof.
  intros Hb. unfold last_plainx. rewrite rev_app_distr. destruct (rev b) as [|z r] eqn:E; [|reflexivity].
  apply (f_equal (@length _)) in E. rewrite rev_length in E. destruct b; [contradiction|discriminate].
Qed.
Lemma closes_ok_plain cs a : forallb (fun a => negb (is_some a)) cs = true -> closes_ok (cs ++ [a]) = true.
Proof.
  induction cs as [|c r IH]; intros H; [reflexivity|]. cbn [forallb] in H. apply andb_prop in H as [H1 H2].
  specialize (IH H2). cbn [app closes_ok]. destruct (r ++ [a]) as [|y t] eqn:E; [destruct r; discriminate|]. now rewrite H1, IH.
Qed.

Lemma xwrap_ok fo a l : l <> [] -> xhead_closed l -> forallb (xlin_ok fo) l = true -> xbalanced l -> last_plainx l ->
  forallb (xlin_ok fo) (xwrap a l) = true /\ xbalanced (xwrap a l) /\ xwrap a l <> []
  /\ (a = None -> last_plainx (xwrap a l)).
Proof.
  intros Hne Hh Hok Hbal Hlp. destruct l as [|x t]; [contradiction|]. cbn in Hh.
  destruct (xwrap_shape a x t) as (pre & z & E & Ew). rewrite Ew.
  (* the list with "(" in front *)
  assert (Hok1 : forallb (xlin_ok fo) (xset_open x :: t) = true).
  { cbn [forallb] in *. exact Hok. }
  assert (Hrun1 : forall d, xdrun d (xset_open x :: t) = Some (Datatypes.S d)).
  { intros d. pose proof (Hbal (Datatypes.S d)) as H. cbn [xdrun] in H |- *. rewrite Hh in H. cbn [xset_open x_open x_closes]. exact H. }
  assert (Hlp1 : plainx z).
  { unfold last_plainx in Hlp.
    assert (Ez : exists r, rev (x :: t) = (if is_nil t then x else z) :: r /\ (t <> [] -> True)).
    { destruct t as [|y t'].
      - exists []. split; [reflexivity|trivial].
      - assert (E' : x :: y :: t' = (match pre with [] => [] | _ :: p => x :: p end) ++ [z]).
        { destruct pre as [|p0 p]; [cbn in E; discriminate|]. cbn [app] in E. injection E as E0 E1. cbn [app]. now rewrite <- E1. }
        rewrite E', rev_unit. eexists. split; [reflexivity|trivial]. }
    destruct Ez as (r & Er & _). rewrite Er in Hlp. destruct t as [|y t']; cbn [is_nil] in Hlp; [|exact Hlp].
    destruct pre as [|p0 p]; cbn [app] in E.
    + injection E as <-. exact Hlp.
    + injection E as _ E1. destruct p; discriminate. }
  rewrite E in Hok1, Hrun1. rewrite forallb_app in Hok1. apply andb_prop in Hok1 as [Hokp Hokz].
  cbn [forallb] in Hokz. apply andb_prop in Hokz as [Hokz _].
  destruct Hlp1 as [Hzb Hzc].
  assert (Hokz' : xlin_ok fo (xadd_close a z) = true).
  { unfold xlin_ok in *. apply andb_prop in Hokz as [H12 H3]. apply andb_prop in H12 as [H1 H2].
    cbn [xadd_close xbase x_open x_name x_mult x_rings x_bond x_closes] in *.
    change (xbase (xadd_close a z)) with (xbase z). rewrite H1, Hzb. cbn [is_some negb andb]. rewrite orb_true_r. cbn [andb].
    now apply closes_ok_plain. }
  split; [now rewrite forallb_app, Hokp; cbn [forallb]; rewrite Hokz'|]. split; [|split].
  - intros d. specialize (Hrun1 d). rewrite xdrun_app in Hrun1 |- *.
    destruct (xdrun d pre) as [dp|]; [|discriminate]. cbn [xdrun] in Hrun1 |- *.
    cbn [xadd_close x_open x_closes]. rewrite app_length. cbn [length].
    destruct (length (x_closes z) <=? (if x_open z then Datatypes.S dp else dp))%nat eqn:El; [|discriminate].
    injection Hrun1 as Hr. apply Nat.leb_le in El.
    assert (El2 : (length (x_closes z) + 1 <=? (if x_open z then Datatypes.S dp else dp))%nat = true) by (apply Nat.leb_le; lia).
    rewrite El2. f_equal. lia.
  - destruct pre; discriminate.
  - intros ->. unfold last_plainx. rewrite rev_unit. split; [exact Hzb|].
    cbn [xadd_close x_closes]. rewrite forallb_app, Hzc. reflexivity.
Qed.

(** ** the flat form of a well-formed AST *)
Definition item_x (fo : float_oracle) (it : item) : Prop := forall is_last, rg_item true false fo is_last it = true ->
  let l := xlin_item it in
  print_item it = xlins_str l /\ toks_item it = xlins_toks l /\ xb_item it = [it]
  /\ forallb (xlin_ok fo) l = true /\ xbalanced l /\ (is_last = true -> last_plainx l).
Definition branch_x (fo : float_oracle) (br : branch) : Prop := b_chain br <> [] -> forall tail_ok, rg_branch true false fo tail_ok br = true ->
  let w := xlin_branch br in
  print_branch br = xlins_str w /\ toks_branch br = xlins_toks w /\ plain_branch br
  /\ forallb (xlin_ok fo) w = true /\ xbalanced w /\ w <> [] /\ (tail_ok = false -> last_plainx w).

Lemma node_x_ok fo n r m b brs : item_ok fo (Item n r m b brs) = true -> xlin_ok fo (node_x n r m b) = true.
Proof.
  intros H. unfold xlin_ok. cbn [node_x x_closes is_nil closes_ok orb andb]. rewrite !andb_true_r.
  exact (node_lin_ok fo n r m b brs H).
Qed.

(** the chain of a branch (its last node ends the branch) and the top-level chain *)
Lemma chain_x fo (bch : bool) c : Forall (item_x fo) c -> c <> [] ->
  (if bch then rg_bchain true false fo c else rg_chain true false fo c) = true ->
  let l := flat_map xlin_item c in
  flat_map print_item c = xlins_str l /\ flat_map toks_item c = xlins_toks l /\ flat_map xb_item c = c
  /\ forallb (xlin_ok fo) l = true /\ xbalanced l /\ xhead_closed l /\ last_plainx l.
Proof.
  induction 1 as [|x c Hx _ IH]; intros Hne Hrg; [contradiction|]. cbv zeta.
  assert (Hhead : forall it, xhead_closed (xlin_item it)) by (intros [n r m b brs]; reflexivity).
  assert (Hnn : forall it, xlin_item it <> []) by (intros [n r m b brs]; discriminate).
  destruct c as [|y c'].
  - assert (Hrx : rg_item true false fo true x = true) by (destruct bch; cbn in Hrg; [now apply andb_prop in Hrg as [? _]|exact Hrg]).
    destruct (Hx true Hrx) as (P1 & P2 & P3 & P4 & P5 & P6).
    cbn [flat_map]. rewrite !app_nil_r. repeat split; try assumption; [apply Hhead|now apply P6].
  - assert (Hr2 : rg_item true false fo false x = true /\ (if bch then rg_bchain true false fo (y :: c') else rg_chain true false fo (y :: c')) = true).
    { destruct bch.
      - change (rg_bchain true false fo (x :: y :: c')) with (rg_item true false fo false x && rg_bchain true false fo (y :: c')) in Hrg. now apply andb_prop in Hrg.
      - change (rg_chain true false fo (x :: y :: c')) with (rg_item true false fo false x && rg_chain true false fo (y :: c')) in Hrg. now apply andb_prop in Hrg. }
    destruct Hr2 as [Hrx Hrc].
    destruct (Hx false Hrx) as (P1 & P2 & P3 & P4 & P5 & _).
    destruct (IH ltac:(discriminate) Hrc) as (Q1 & Q2 & Q3 & Q4 & Q5 & Q6 & Q7).
    change (flat_map xlin_item (x :: y :: c')) with (xlin_item x ++ flat_map xlin_item (y :: c')).
    change (flat_map print_item (x :: y :: c')) with (print_item x ++ flat_map print_item (y :: c')).
    change (flat_map toks_item (x :: y :: c')) with (toks_item x ++ flat_map toks_item (y :: c')).
    change (flat_map xb_item (x :: y :: c')) with (xb_item x ++ flat_map xb_item (y :: c')).
    rewrite xlins_str_app, xlins_toks_app, P1, P2, P3, Q1, Q2, Q3, forallb_app, P4, Q4.
    repeat split; try reflexivity.
    + now apply xbalanced_app.
    + specialize (Hhead x). destruct (xlin_item x); [contradiction|exact Hhead].
    + apply last_plainx_app; [|exact Q7]. cbn [flat_map]. specialize (Hnn y). destruct (xlin_item y); [contradiction|discriminate].
Qed.

Lemma branches_x fo is_last brs : Forall (branch_x fo) brs ->
  forallb (fun br => negb (is_nil (b_chain br))) brs = true -> rg_branches true false fo is_last brs = true ->
  let l := flat_map xlin_branch brs in
  flat_map print_branch brs = xlins_str l /\ flat_map toks_branch brs = xlins_toks l /\ Forall plain_branch brs
  /\ forallb (xlin_ok fo) l = true /\ xbalanced l /\ (brs <> [] -> l <> []) /\ (is_last = true -> brs <> [] -> last_plainx l).
Proof.
  induction 1 as [|br tl Hbr _ IH]; intros Hne Hrg; cbv zeta.
  - repeat split; try reflexivity; try constructor; try (intros C; now elim C); try (intros _ C; now elim C).
  - cbn [forallb] in Hne. apply andb_prop in Hne as [Hne1 Hne2]. cbn [rg_branches] in Hrg. apply andb_prop in Hrg as [Hr1 Hr2].
    assert (Hc : b_chain br <> []) by (destruct (b_chain br); [discriminate|discriminate]).
    destruct (Hbr Hc _ Hr1) as (P1 & P2 & P3 & P4 & P5 & P6 & P7).
    destruct (IH Hne2 Hr2) as (Q1 & Q2 & Q3 & Q4 & Q5 & Q6 & Q7).
    cbn [flat_map]. rewrite xlins_str_app, xlins_toks_app, P1, P2, Q1, Q2, forallb_app, P4, Q4.
    repeat split; try reflexivity.
    + now constructor.
    + now apply xbalanced_app.
    + intros _ C. apply app_eq_nil in C as [C _]. now apply P6.
    + intros Hl _. destruct tl as [|b2 tl'].
      * cbn [flat_map]. rewrite app_nil_r. apply P7. rewrite Hl. reflexivity.
      * apply last_plainx_app; [apply Q6; discriminate|]. apply Q7; [exact Hl|discriminate].
Qed.

Lemma ast_x fo : forall it, item_x fo it.
Proof.
  apply (item_ind2 (item_x fo) (branch_x fo)).
  - intros n r m b brs Hbrs is_last Hrg. rewrite rg_item_eq in Hrg.
    apply andb_prop in Hrg as [Hrg Hrb]. apply andb_prop in Hrg as [Hio Hcons].
    assert (Hne : forallb (fun br => negb (is_nil (b_chain br))) brs = true).
    { unfold item_ok in Hio. cbn [i_branches] in Hio. apply andb_prop in Hio as [_ Hio].
      rewrite forallb_forall in *. intros br Hin. specialize (Hio br Hin). now apply andb_prop in Hio as [Hio _]. }
    destruct (branches_x fo is_last brs Hbrs Hne Hrb) as (Q1 & Q2 & Q3 & Q4 & Q5 & Q6 & Q7).
    cbv zeta. cbn [xlin_item]. repeat split.
    + cbn [print_item xlins_str flat_map]. fold (xlins_str (flat_map xlin_branch brs)). rewrite Q1.
      unfold xlin_str, lin_str, lin_tail_str. cbn [node_x xbase x_open x_name x_mult x_rings x_bond x_closes l_open l_name l_mult l_rings l_bond l_close close_str closes_str flat_map app].
      repeat (rewrite <- app_assoc; cbn [app]). rewrite ?app_nil_r. reflexivity.
    + cbn [toks_item xlins_toks flat_map]. fold (xlins_toks (flat_map xlin_branch brs)). rewrite Q2.
      unfold xlin_toks, lin_toks. cbn [node_x xbase x_open x_name x_mult x_rings x_bond x_closes l_open l_name l_mult l_rings l_bond l_close closes_toks flat_map app].
      repeat (rewrite <- app_assoc; cbn [app]). rewrite ?app_nil_r. reflexivity.
    + rewrite xb_item_eq. now rewrite xb_go_plain.
    + cbn [forallb]. rewrite Q4, andb_true_r. now apply (node_x_ok fo n r m b brs).
    + intros d. cbn [xdrun node_x x_open x_closes length Nat.leb Nat.sub]. rewrite Nat.sub_0_r. apply Q5.
    + intros Hl. destruct brs as [|b0 tl].
      * cbn [flat_map]. unfold last_plainx. cbn [rev app]. split; [|reflexivity].
        cbn [node_x x_bond]. rewrite Hl in Hcons. cbn [is_nil negb orb] in Hcons. rewrite orb_false_r in Hcons. now destruct b.
      * change (node_x n r m b :: flat_map xlin_branch (b0 :: tl)) with ([node_x n r m b] ++ flat_map xlin_branch (b0 :: tl)).
        apply last_plainx_app; [apply Q6; discriminate|]. apply Q7; [exact Hl|discriminate].
  - intros c bm a Hc Hne tail_ok Hrg. cbn [b_chain] in Hne. cbn [rg_branch] in Hrg.
    apply andb_prop in Hrg as [Hrg Hrc]. apply andb_prop in Hrg as [Hbm Ha].
    destruct bm; [discriminate|].
    destruct (chain_x fo true c Hc Hne Hrc) as (P1 & P2 & P3 & P4 & P5 & P6 & P7).
    assert (Hln : flat_map xlin_item c <> []) by (intros C; rewrite C in P6; exact P6).
    destruct (xwrap_spec a _ P6) as (W1 & W2).
    destruct (xwrap_ok fo a _ Hln P6 P4 P5 P7) as (K1 & K2 & K3 & K4).
    cbv zeta. cbn [xlin_branch]. repeat split; try assumption.
    + cbn [print_branch bmult_str app]. rewrite P1, W1. reflexivity.
    + cbn [toks_branch]. rewrite P2, W2. reflexivity.
    + intros Ht. apply K4. rewrite Ht in Ha. rewrite orb_false_r in Ha. now destruct a.
Qed.

Theorem linearize_x_spec fo a : rg_chain true false fo a = true -> a <> [] ->
  print_chain a = xlins_str (linearize_x a) /\ toks a = xlins_toks (linearize_x a) /\ expand_branches a = a
  /\ xlins_ok fo (linearize_x a) = true /\ linearize_x a <> [].
Proof.
  intros Hrg Hne.
  assert (Hall : Forall (item_x fo) a) by (apply Forall_forall; intros; apply ast_x).
  destruct (chain_x fo false a Hall Hne Hrg) as (P1 & P2 & P3 & P4 & P5 & P6 & _).
  unfold linearize_x, print_chain, toks, expand_branches. repeat split; try assumption.
  - unfold xlins_ok. rewrite P4, xdepth_xdrun, (P5 O). cbn [andb].
    destruct (flat_map xlin_item a) as [|x t]; [contradiction|]. cbn in P6. now rewrite P6.
  - intros C. rewrite C in P6. exact P6.
Qed.

(** the same from the recursive side conditions alone *)
Theorem reader_sim_rg fo braces a : rg_chain true false fo a = true -> a <> [] ->
  read_cgsmiles fo (print braces a) = denote fo a.
Proof.
  intros Hrg Hne. destruct (linearize_x_spec fo a Hrg Hne) as (P1 & P2 & P3 & P4 & P5).
  unfold print, denote. rewrite P3, P2, P1. destruct braces.
  - now apply reader_sim_x.
  - now apply reader_sim_x_nobrace.
Qed.
(** ** C04 for the whole grammar without branch multipliers *)
Theorem reader_sim_grammar fo braces a : wf fo a = true -> has_branch_mult a = false ->
  read_cgsmiles fo (print braces a) = denote fo a.
Proof.
  intros Hwf Hb.
  assert (Hrg : rg_chain true false fo a = true) by (apply rg_of_wf_gen; [assumption|intros _; assumption|discriminate]).
  assert (Hne : a <> []) by (unfold wf in Hwf; destruct a; [discriminate|discriminate]).
  destruct (linearize_x_spec fo a Hrg Hne) as (P1 & P2 & P3 & P4 & P5).
  unfold print, denote. rewrite P3, P2, P1. destruct braces.
  - now apply reader_sim_x.
  - now apply reader_sim_x_nobrace.
Qed.
Print Assumptions reader_sim_grammar.
