(** ReaderSmall: bounded-exhaustive theorems.  [small_c04]/[small_c05] (Gen/ReaderEnumGen.v) are the
    COMPLETE lists produced by tools/grammar.py's enumerator `enum_asts` for the parameters recorded in
    that file: every AST with <= 4 nodes (names A, B, ..., every assignment of {none, =, .} to the
    symbol positions, <= 1 ring bond with marker 1 or %10 and ring symbol none or =, nesting depth <= 3,
    <= 2 branches per node), every AST with <= 5 nodes and at most one symbol '#' and one ring '2', and
    the ASTs with <= 3 (4) nodes and up to two multipliers from {2,3} on nodes / {1,2,3} on branches.
    These are bounded statements: the bound is the list. *)
From Coq Require Import String.
From Coq Require Import List Ascii ZArith Bool.
From CGV Require Import Base.PyBase Base.PyVal Base.NxGraph Dialect.DialectImpl Reader.ReaderImpl Reader.Grammar
     Reader.ReaderCheck Reader.Lin Reader.UnitsDefs Reader.ReaderAst Reader.ReaderX Reader.ReaderXAst Reader.ReaderG2 Reader.ReaderG2Ast Gen.ReaderEnumGen.
Import ListNotations.

Definition fo_none : float_oracle := fun _ => None.
(** same outcome: the same graph with the same iteration orders, or the same error *)
Definition res_same (a b : res graph) : bool :=
  match a, b with
  | Ok g, Ok g' => obs_eqb (observe g) (observe g')
  | Err x, Err y => err_eqb x y
  | _, _ => false
  end.
Definition c04_ok (a : chain) : bool :=
  negb (Nat.eqb (class_C04 true a) 0) || res_same (read_cgsmiles fo_none (print true a)) (denote fo_none a).
(** identity numbering: claimed when no multiplied unit contains a nested branch (with a nested branch
    the implementation numbers the copies differently from the longhand; the graphs are then only
    isomorphic, which the per-run check verifies with a renumbering witness) *)
Definition c05_ok (a : chain) : bool :=
  negb (Nat.eqb (class_C05 true a) 0) || nested_any a || Nat.eqb (model_C05 fo_none true a None) 0.

Lemma C04_small_list : forallb (fun a => wf fo_none a && c04_ok a) small_c04 = true.
Proof. vm_compute. reflexivity. Qed.
(** outside the defect classes shorthand and longhand are read as the SAME graph (identity numbering) *)
Lemma C05_small_list : forallb (fun a => wf fo_none a && c05_ok a) small_c05 = true.
Proof. vm_compute. reflexivity. Qed.
(** the lists are not vacuous: how many members lie outside every defect class *)
Lemma C04_small_nonvacuous : (5000 <=? length (filter (fun a => Nat.eqb (class_C04 true a) 0) small_c04))%nat = true.
Proof. vm_compute. reflexivity. Qed.
Lemma C05_small_nonvacuous : (500 <=? length (filter (fun a => Nat.eqb (class_C05 true a) 0 && negb (nested_any a)) small_c05))%nat = true.
Proof. vm_compute. reflexivity. Qed.

(** every enumerated AST has a flat form (items with closings, Reader/ReaderX.v) satisfying the flat side
    conditions, i.e. lies in the domain of the unbounded theorem [reader_sim_grammar]; and those in which
    no node closes two branches also have the flat form of Reader/Lin.v ([reader_sim_ast]) *)
Lemma C04_xflat_small_list :
  forallb (fun a => has_branch_mult a || xlins_ok fo_none (linearize_x a)) small_c04 = true.
Proof. vm_compute. reflexivity. Qed.
Lemma C04_flat_small_list :
  forallb (fun a => cls_double_close a || flat_ok fo_none a) small_c04 = true.
Proof. vm_compute. reflexivity. Qed.

(** the decidable side condition [units_ok] of the AST-level C05 theorem ([reader_sim_units]) holds for every
    enumerated AST outside the three open defect classes in which every branch that carries a multiplier is a
    simple chain (the one shape it does not express: a multiplier 1, or the one nested shape the code
    handles, on a branch with nested branches) *)
Definition nonsimple_mult (a : chain) : bool :=
  existsb (fun s => is_some (b_mult (snd s)) && negb (simple_chain (b_chain (snd s)))) (sites a).
Lemma C05_units_cover_small_list :
  forallb (fun a => negb (wf fo_none a && Nat.eqb (class_C05 true a) 0 && negb (nonsimple_mult a)) || units_ok fo_none a) small_c05 = true.
Proof. vm_compute. reflexivity. Qed.
Lemma C05_units_cover_small_nonvacuous :
  (2000 <=? length (filter (fun a => wf fo_none a && units_ok fo_none a && has_branch_mult a) small_c05))%nat = true.
Proof. vm_compute. reflexivity. Qed.

(** the classes are exact on the list: every enumerated AST that [class_C05] puts into a class is NOT read as
    its longhand with the identical numbering (so no class hides a correct input there); 24 ASTs in
    stale_recipe, 843 in nested_in_unit *)
Lemma C05_classes_exact_small_list :
  forallb (fun a => negb (wf fo_none a) || Nat.eqb (class_C05 true a) 0 || negb (Nat.eqb (model_C05 fo_none true a None) 0)) small_c05 = true.
Proof. vm_compute. reflexivity. Qed.
Lemma C05_classes_exact_small_counts :
  (length (filter (fun a => wf fo_none a && Nat.eqb (class_C05 true a) 4) small_c05),
   length (filter (fun a => wf fo_none a && Nat.eqb (class_C05 true a) 5) small_c05)) = (0%nat, 843%nat).
Proof. vm_compute. reflexivity. Qed.
