(** Grammar: the documented CGsmiles graph grammar (DESIGN Appendix A) as an AST, its concrete
    syntax [print], the unfolding of multipliers [expand_nodes]/[expand_branches]/[expand], and
    the denotation [denote] as a clean token machine (anchor stack, ring table, pending bond
    order, node counter).  Nothing here looks at cgsmiles' code or at the generated tables.
    Definitions only (used by statements and by the executable oracle); no proofs. *)
From Coq Require Import String.
From Coq Require Import List Ascii ZArith Bool.
From CGV Require Import Base.PyBase Base.PyVal Base.NxGraph Dialect.DialectImpl.
Import ListNotations.
Open Scope Z_scope.

(** ** AST *)
Inductive sym := SDot | SSingle | SDouble | STriple | SQuad.
Inductive marker := MDigit (d : nat) | MPct (ds : list nat).      (* one digit, or % and digits *)
Inductive item :=
  Item (name : pystr)                                  (* text between "[#" and "]": name;annotations *)
       (rings : list (option sym * marker))
       (mult : option (list nat))                      (* |n, decimal digits *)
       (bond : option sym)
       (branches : list branch)
with branch :=
  Branch (c : list item) (bm : option (option sym * list nat)) (after : option sym).   (* "(c) sym? |n after?" *)
Definition chain := list item.

Definition sym_char (s : sym) : ascii :=
  match s with SDot => "." | SSingle => "-" | SDouble => "=" | STriple => "#" | SQuad => "$" end%char.
Definition sym_ord (s : sym) : Z :=
  match s with SDot => 0 | SSingle => 1 | SDouble => 2 | STriple => 3 | SQuad => 4 end.
Definition oord (o : option sym) : Z := match o with Some s => sym_ord s | None => 1 end.
Definition digits_nat (ds : list nat) : nat := fold_left (fun acc d => (acc * 10 + d)%nat) ds O.
Definition mult_val (m : option (list nat)) : nat := match m with Some ds => digits_nat ds | None => 1%nat end.
Definition marker_val (m : marker) : Z :=
  match m with MDigit d => Z.of_nat d | MPct ds => Z.of_nat (digits_nat ds) end.

Definition i_name (it : item) := match it with Item n _ _ _ _ => n end.
Definition i_rings (it : item) := match it with Item _ r _ _ _ => r end.
Definition i_mult (it : item) := match it with Item _ _ m _ _ => m end.
Definition i_bond (it : item) := match it with Item _ _ _ b _ => b end.
Definition i_branches (it : item) := match it with Item _ _ _ _ brs => brs end.
Definition b_chain (br : branch) := match br with Branch c _ _ => c end.
Definition b_mult (br : branch) := match br with Branch _ bm _ => bm end.
Definition b_after (br : branch) := match br with Branch _ _ a => a end.
Definition bm_val (br : branch) : nat := match b_mult br with Some (_, ds) => digits_nat ds | None => 1%nat end.

(** ** concrete syntax *)
Definition osym_str (o : option sym) : pystr := match o with Some s => [sym_char s] | None => [] end.
Definition digits_str (ds : list nat) : pystr := map digit_char ds.
Definition marker_str (m : marker) : pystr :=
  match m with MDigit d => [digit_char d] | MPct ds => "%"%char :: digits_str ds end.
Definition is_pct (m : marker) : bool := match m with MPct _ => true | MDigit _ => false end.
(** a one-digit marker directly after a marker written in % form (no symbol between) is written %0d,
    which is itself a % form *)
Definition pct_form (prev_pct : bool) (o : option sym) (m : marker) : bool :=
  is_pct m || (prev_pct && match o with None => true | Some _ => false end).
Definition ring_str (prev_pct : bool) (o : option sym) (m : marker) : pystr :=
  match o, m with
  | None, MDigit d => if prev_pct then "%"%char :: "0"%char :: [digit_char d] else [digit_char d]
  | _, _ => osym_str o ++ marker_str m
  end.
Fixpoint rings_str (prev_pct : bool) (r : list (option sym * marker)) : pystr :=
  match r with
  | [] => []
  | (o, m) :: t => ring_str prev_pct o m ++ rings_str (pct_form prev_pct o m) t
  end.
Definition mult_str (m : option (list nat)) : pystr :=
  match m with Some ds => "|"%char :: digits_str ds | None => [] end.
Definition bmult_str (bm : option (option sym * list nat)) : pystr :=
  match bm with Some (ms, ds) => osym_str ms ++ "|"%char :: digits_str ds | None => [] end.

Fixpoint print_item (it : item) : pystr :=
  match it with
  | Item n r m b brs =>
      "["%char :: "#"%char :: n ++ "]"%char :: mult_str m ++ rings_str false r ++ osym_str b
      ++ flat_map print_branch brs
  end
with print_branch (br : branch) : pystr :=
  match br with
  | Branch c bm a => "("%char :: flat_map print_item c ++ ")"%char :: bmult_str bm ++ osym_str a
  end.
Definition print_chain (c : chain) : pystr := flat_map print_item c.
(** base graph: in braces; coarse fragment text: the bare chain *)
Definition print (braces : bool) (c : chain) : pystr :=
  if braces then "{"%char :: print_chain c ++ ["}"%char] else print_chain c.

(** ** traversal *)
Fixpoint flat_item (it : item) : list item :=
  it :: match it with Item _ _ _ _ brs => flat_map flat_branch brs end
with flat_branch (br : branch) : list item :=
  match br with Branch c _ _ => flat_map flat_item c end.
Definition flat_chain (c : chain) : list item := flat_map flat_item c.      (* order of appearance *)
Fixpoint with_index {A} (i : nat) (l : list A) : list (nat * A) :=
  match l with [] => [] | x :: r => (i, x) :: with_index (Datatypes.S i) r end.
(** every branch with its anchor item and its position among the anchor's branches *)
Definition sites (c : chain) : list (item * nat * branch) :=
  flat_map (fun it => map (fun jb => (it, fst jb, snd jb)) (with_index O (i_branches it))) (flat_chain c).
(** the items of the unit "anchor + branch" (the anchor only when the branch is its first one) *)
Definition unit_items (s : item * nat * branch) : list item :=
  let '(it, j, br) := s in (match j with O => [it] | _ => [] end) ++ flat_branch br.

(** ** unfolding of multipliers *)
Fixpoint xn_item (it : item) : list item :=
  match it with
  | Item n r m b brs =>
      repeat (Item n [] None None []) (mult_val m - 1) ++ [Item n r None b (map xn_branch brs)]
  end
with xn_branch (br : branch) : branch :=
  match br with Branch c bm a => Branch (flat_map xn_item c) bm a end.
Definition expand_nodes (c : chain) : chain := flat_map xn_item c.

(** branch multipliers: unit = anchor + the branch immediately before |n; earlier sibling branches
    stay with the first copy, later ones go to the last copy; the symbol pending for the branch's
    first node is repeated; consecutive anchors are joined by the symbol before '|'. *)
Fixpoint xb_item (it : item) : list item :=
  match it with
  | Item n r m b brs =>
      (fix go (brs : list branch) (cr : list (option sym * marker)) (cm : option (list nat))
              (cb : option sym) (cbrs : list branch) (pending : option sym) (first : bool) : list item :=
         match brs with
         | [] => [Item n cr cm cb cbrs]
         | Branch c bm a :: tl =>
             let body := flat_map xb_item c in
             match bm with
             | None => go tl cr cm cb (cbrs ++ [Branch body None a]) a false
             | Some (ms, ds) =>
                 let k := digits_nat ds in
                 if (k <=? 1)%nat then go tl cr cm cb (cbrs ++ [Branch body None a]) a false
                 else
                   let rr := if first then r else [] in
                   Item n cr cm cb (cbrs ++ [Branch body None ms])
                   :: repeat (Item n rr None pending [Branch body None ms]) (k - 2)
                   ++ go tl rr None pending [Branch body None a] a false
             end
         end) brs r m b [] b true
  end.
Definition expand_branches (c : chain) : chain := flat_map xb_item c.
Definition expand (c : chain) : chain := expand_nodes (expand_branches c).

(** ** tokens and the machine *)
Inductive tok :=
| TNode (name : pystr) (n : nat)            (* n consecutive copies *)
| TRing (o : option sym) (m : Z)
| TSym (s : sym)
| TOpen | TClose.
Definition osym_tok (o : option sym) : list tok := match o with Some s => [TSym s] | None => [] end.
Fixpoint toks_item (it : item) : list tok :=
  match it with
  | Item n r m b brs =>
      TNode n (mult_val m) :: map (fun om => TRing (fst om) (marker_val (snd om))) r ++ osym_tok b
      ++ flat_map toks_branch brs
  end
with toks_branch (br : branch) : list tok :=
  match br with Branch c _ a => TOpen :: flat_map toks_item c ++ TClose :: osym_tok a end.
Definition toks (c : chain) : list tok := flat_map toks_item c.

Definition ringtab := list (Z * (Z * Z)).                 (* marker -> (node, order) *)
Fixpoint rt_get (m : Z) (t : ringtab) : option (Z * Z) :=
  match t with [] => None | (k, v) :: r => if Z.eqb k m then Some v else rt_get m r end.
Fixpoint rt_del (m : Z) (t : ringtab) : ringtab :=
  match t with [] => [] | (k, v) :: r => if Z.eqb k m then r else (k, v) :: rt_del m r end.
Definition eorder (o : Z) : attrs := [(S "order", VInt o)].

Record mstate := { m_g : graph; m_next : Z; m_prev : option Z; m_pend : Z;
                   m_stack : list (option Z); m_rings : ringtab }.
Definition m_init : mstate :=
  {| m_g := gempty; m_next := 0; m_prev := None; m_pend := 1; m_stack := []; m_rings := [] |}.

Fixpoint m_copies (k : nat) (a : attrs) (g : graph) (next : Z) (prev : option Z) (pend : Z)
  : graph * Z * option Z :=
  match k with
  | O => (g, next, prev)
  | Datatypes.S k' =>
      let g1 := add_node g next a in
      let g2 := match prev with Some p => add_edge g1 p next (eorder pend) | None => g1 end in
      m_copies k' a g2 (next + 1) (Some next) 1
  end.

Definition m_step (fo : float_oracle) (x : mstate) (t : tok) : res mstate :=
  match t with
  | TNode nm n =>
      a <- parse_graph_base_node fo nm ;;
      let '(g, next, prev) := m_copies n a (m_g x) (m_next x) (m_prev x) (m_pend x) in
      Ok {| m_g := g; m_next := next; m_prev := prev; m_pend := 1; m_stack := m_stack x; m_rings := m_rings x |}
  | TRing o m =>
      match m_prev x with
      | None => Err EAssert
      | Some cur =>
          match rt_get m (m_rings x) with
          | Some (n0, o0) =>
              if has_edge (m_g x) cur n0 then Err (ESyntax (S "double"))
              else Ok {| m_g := add_edge (m_g x) cur n0 (eorder o0); m_next := m_next x; m_prev := m_prev x;
                         m_pend := m_pend x; m_stack := m_stack x; m_rings := rt_del m (m_rings x) |}
          | None => Ok {| m_g := m_g x; m_next := m_next x; m_prev := m_prev x; m_pend := m_pend x;
                          m_stack := m_stack x; m_rings := m_rings x ++ [(m, (cur, oord o))] |}
          end
      end
  | TSym s => Ok {| m_g := m_g x; m_next := m_next x; m_prev := m_prev x; m_pend := sym_ord s;
                    m_stack := m_stack x; m_rings := m_rings x |}
  | TOpen => Ok {| m_g := m_g x; m_next := m_next x; m_prev := m_prev x; m_pend := m_pend x;
                   m_stack := m_prev x :: m_stack x; m_rings := m_rings x |}
  | TClose =>
      match m_stack x with
      | [] => Err EAssert
      | a :: st => Ok {| m_g := m_g x; m_next := m_next x; m_prev := a; m_pend := 1; m_stack := st; m_rings := m_rings x |}
      end
  end.
Fixpoint m_run (fo : float_oracle) (ts : list tok) (x : mstate) : res mstate :=
  match ts with [] => Ok x | t :: r => x1 <- m_step fo x t ;; m_run fo r x1 end.
Definition m_finish (r : res mstate) : res graph :=
  x <- r ;; match m_rings x with [] => Ok (m_g x) | _ => Err (ESyntax (S "dangling")) end.

(** the graph a string of the grammar denotes (node multipliers are understood by the machine,
    branch multipliers by unfolding) *)
Definition denote (fo : float_oracle) (c : chain) : res graph :=
  m_finish (m_run fo (toks (expand_branches c)) m_init).

(** ** side conditions of the grammar *)
Definition digits_ok (ds : list nat) : bool :=
  match ds with [] => false | _ => forallb (fun d => (d <? 10)%nat) ds end.
Definition marker_ok (m : marker) : bool :=
  match m with MDigit d => (d <? 10)%nat | MPct ds => digits_ok ds end.
Definition name_ok (fo : float_oracle) (n : pystr) : bool :=
  forallb (fun c => negb (Ascii.eqb c "]"%char) && (32 <=? nat_of_ascii c)%nat && (nat_of_ascii c <=? 126)%nat) n
  && match parse_graph_base_node fo n with Ok a => negb (ahas (S "node_for_adding") a) | Err _ => true end.
(** ring markers of the items open and close among themselves *)
Fixpoint toggle (m : Z) (open_ : list Z) : list Z :=
  match open_ with [] => [m] | x :: r => if Z.eqb x m then r else x :: toggle m r end.
Definition ring_balanced (its : list item) : bool :=
  match fold_left (fun acc m => toggle m acc)
                  (flat_map (fun it => map (fun om => marker_val (snd om)) (i_rings it)) its) [] with
  | [] => true | _ => false end.
Definition is_some {A} (o : option A) : bool := match o with Some _ => true | None => false end.
Definition is_nil {A} (l : list A) : bool := match l with [] => true | _ => false end.

(** local conditions of one item (not looking into its branches' chains) *)
Definition item_ok (fo : float_oracle) (it : item) : bool :=
  name_ok fo (i_name it)
  && forallb (fun om => marker_ok (snd om)) (i_rings it)
  && match i_mult it with Some ds => is_nil (i_rings it) && digits_ok ds && (1 <=? digits_nat ds)%nat | None => true end
  && forallb (fun br => negb (is_nil (b_chain br))
                        && match b_mult br with Some (_, ds) => digits_ok ds && (1 <=? digits_nat ds)%nat | None => true end)
             (i_branches it).
(** every written symbol has a node that consumes it: [tail] = something follows the chain's last node *)
Fixpoint consumers_item (is_last : bool) (it : item) : bool :=
  match it with
  | Item _ _ _ b brs =>
      (negb (is_some b) || negb (is_nil brs) || negb is_last)
      && (fix go (brs : list branch) : bool :=
            match brs with
            | [] => true
            | Branch c _ a :: tl =>
                (negb (is_some a) || negb (is_nil tl) || negb is_last)
                && (fix ch (c : list item) : bool :=
                      match c with
                      | [] => true
                      | [x] => consumers_item true x
                      | x :: r => consumers_item false x && ch r
                      end) c
                && go tl
            end) brs
  end.
Fixpoint consumers_chain (c : chain) : bool :=
  match c with [] => true | [x] => consumers_item true x | x :: r => consumers_item false x && consumers_chain r end.

Definition wf (fo : float_oracle) (c : chain) : bool :=
  negb (is_nil c)
  && forallb (item_ok fo) (flat_chain c)
  && consumers_chain c
  && forallb (fun s => (bm_val (snd s) <=? 1)%nat || ring_balanced (unit_items s)) (sites c).

Definition has_node_mult (c : chain) : bool := existsb (fun it => is_some (i_mult it)) (flat_chain c).
Definition has_branch_mult (c : chain) : bool := existsb (fun s => is_some (b_mult (snd s))) (sites c).

(** ** classes of strings on which the CURRENT implementation is known to be wrong
    (decidable predicates on the AST; see known_findings.d/C04.json, C05.json) *)
(** a branch whose last node carries a branch itself: two closing parentheses in a row (or ")|n)") *)
Definition cls_double_close (c : chain) : bool :=
  existsb (fun s => match rev (b_chain (snd s)) with it :: _ => negb (is_nil (i_branches it)) | [] => false end) (sites c).
(** "]|n<sym>": bond symbol after a node multiplier *)
Definition cls_nodemult_sym (c : chain) : bool :=
  existsb (fun it => is_some (i_mult it) && is_some (i_bond it)) (flat_chain c).
(** ")|1" *)
Definition cls_bmult_one (c : chain) : bool :=
  existsb (fun s => is_some (b_mult (snd s)) && (bm_val (snd s) =? 1)%nat) (sites c).
(** a ring marker inside a multiplied unit *)
Definition cls_ring_in_unit (c : chain) : bool :=
  existsb (fun s => (2 <=? bm_val (snd s))%nat && existsb (fun it => negb (is_nil (i_rings it))) (unit_items s)) (sites c).
(** a nested branch inside a multiplied unit, EXCEPT the one shape the current code expands
    correctly: multiplier 2, anchor not the very first node (key 0 is falsy in `if prev_anchor:`),
    the multiplied branch is the first branch of its anchor (nodes of earlier sibling branches shift the
    offset arithmetic), exactly one nested branch inside the unit, itself not multiplied *)
Definition nested_any (c : chain) : bool :=
  existsb (fun s => (2 <=? bm_val (snd s))%nat && negb (is_nil (sites (b_chain (snd s))))) (sites c).
Definition nested_bad (anchor0 : bool) (br : branch) : bool :=
  let inner := sites (b_chain br) in
  (2 <=? bm_val br)%nat && negb (is_nil inner)
  && ((3 <=? bm_val br)%nat || anchor0 || (2 <=? length inner)%nat
      || existsb (fun s => is_some (b_mult (snd s))) inner).
Definition cls_nested_in_unit (c : chain) : bool :=
  existsb (fun s => nested_bad (negb (Nat.eqb (snd (fst s)) 0)) (snd s)) (sites c)
  || match c with
     | it0 :: _ => (mult_val (i_mult it0) <=? 1)%nat && existsb (nested_bad true) (i_branches it0)
     | [] => false
     end.
(** the multiplied branch is not the first branch of its anchor *)
Definition cls_sibling_before_mult (c : chain) : bool :=
  existsb (fun s => (2 <=? bm_val (snd s))%nat && negb (Nat.eqb (snd (fst s)) 0)) (sites c).
(** a node multiplier (n >= 2) inside a multiplied unit whose incoming bond order is not 1:
    _expand_branch joins ALL copies by the incoming order *)
Definition out_sym (it : item) : option sym :=
  match rev (i_branches it) with br :: _ => b_after br | [] => i_bond it end.
Fixpoint inc_item (pend : option sym) (it : item) : list (item * option sym) :=
  (it, pend) ::
  match it with
  | Item _ _ _ b brs =>
      (fix go (brs : list branch) (p : option sym) : list (item * option sym) :=
         match brs with
         | [] => []
         | Branch c _ a :: tl =>
             (fix ch (c : list item) (p : option sym) : list (item * option sym) :=
                match c with [] => [] | x :: r => inc_item p x ++ ch r (out_sym x) end) c p
             ++ go tl a
         end) brs b
  end.
Fixpoint inc_chain (pend : option sym) (c : chain) : list (item * option sym) :=
  match c with [] => [] | x :: r => inc_item pend x ++ inc_chain (out_sym x) r end.
Definition site_pending (s : item * nat * branch) : option sym :=
  let '(it, j, _) := s in
  match j with O => i_bond it | Datatypes.S j' => match nth_error (i_branches it) j' with Some b => b_after b | None => None end end.
Definition cls_nodemult_order_in_unit (c : chain) : bool :=
  existsb (fun s => (2 <=? bm_val (snd s))%nat
                    && existsb (fun ip => (2 <=? mult_val (i_mult (fst ip)))%nat && negb (oord (snd ip) =? 1))
                               (inc_chain (site_pending s) (b_chain (snd s)))) (sites c).
(** a multiplied branch nested inside a top-level branch T that contains further branches which are
    neither the multiplied branch nor its ancestors: recipes of branches already closed inside T
    are still in the table and are expanded again (over-approximation: "further" instead of "earlier") *)
Fixpoint stale_item (anc total : nat) (it : item) : bool :=
  match it with
  | Item _ _ _ _ brs =>
      (fix go (brs : list branch) : bool :=
         match brs with
         | [] => false
         | Branch c bm a :: tl =>
             ((2 <=? bm_val (Branch c bm a))%nat && (anc + 1 <? total)%nat)
             || (fix ch (c : list item) : bool :=
                   match c with [] => false | x :: r => stale_item (Datatypes.S anc) total x || ch r end) c
             || go tl
         end) brs
  end.
Definition cls_stale_recipe (c : chain) : bool :=
  existsb (fun it => existsb (fun T => existsb (stale_item O (length (sites (b_chain T)))) (b_chain T)) (i_branches it)) c.
(** text without braces ending in a %nn marker / in ")|n" *)
Definition last_item (c : chain) : option item := match rev c with it :: _ => Some it | [] => None end.
Fixpoint drop_digits (s : pystr) : pystr :=
  match s with c :: r => if is_digit c then drop_digits r else s | [] => [] end.
(** the printed text ends in "%" digits (also a one-digit marker written %0d after a %nn marker) *)
Definition ends_in_pct (s : pystr) : bool :=
  match rev s with
  | c :: _ => is_digit c && match drop_digits (rev s) with p :: _ => Ascii.eqb p "%"%char | [] => false end
  | [] => false
  end.
Definition cls_pct_at_end (braces : bool) (c : chain) : bool := negb braces && ends_in_pct (print_chain c).
Definition cls_mult_at_end (braces : bool) (c : chain) : bool :=
  negb braces && match last_item c with
                 | Some it => match rev (i_branches it) with
                              | br :: _ => is_some (b_mult br) && negb (is_some (b_after br))
                              | [] => false end
                 | None => false end.
