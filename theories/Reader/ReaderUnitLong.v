(** ReaderUnitLong: the longhand of a text with multiplied units as a flat string, and C05 for branch
    multipliers: the reader model reads shorthand and longhand as the SAME graph, same numbering. *)
From Coq Require Import String.
From Coq Require Import List Ascii ZArith Bool Lia.
From CGV Require Import Base.PyBase Base.PyVal Base.NxGraph Dialect.DialectImpl
     Reader.ReaderImpl Reader.Grammar Reader.ReaderLemmas Reader.Lin Reader.ReaderSim Reader.ReaderMult
     Reader.ReaderAst Reader.ReaderWf Reader.ReaderUnit.
Import ListNotations.

(** the body of one written-out copy: "(" in front of the first node, ")cl" behind the last *)
Fixpoint body_lins (first : bool) (cl : option sym) (body : list bnode) : list lin :=
  match body with
  | [] => []
  | [b] => [{| l_open := first; l_name := bn_name b; l_mult := bn_mult b; l_rings := []; l_bond := bn_bond b; l_close := Some cl |}]
  | b :: r => blin first b :: body_lins false cl r
  end.
Definition copy_lins (u : unit_t) (m : option (list nat)) (cl : option sym) : list lin :=
  {| l_open := false; l_name := u_name u; l_mult := m; l_rings := []; l_bond := u_bond u; l_close := None |}
  :: body_lins true cl (u_body u).
Definition unit_long (u : unit_t) : list lin :=
  match digits_nat (u_count u) with
  | O | Datatypes.S O => copy_lins u (u_mult u) (u_after u)
  | Datatypes.S (Datatypes.S k) =>
      copy_lins u (u_mult u) (u_ms u) ++ concat (repeat (copy_lins u None (u_ms u)) k) ++ copy_lins u None (u_after u)
  end.
Definition seg_long (s : seg) : list lin := match s with SPlain i => [i] | SUnit u => unit_long u end.
Definition segs_long (l : list seg) : list lin := flat_map seg_long l.

(** tokens *)
Lemma body_lins_toks cl : forall body first, body <> [] -> last_bond_none body ->
  lins_toks (body_lins first cl body) = (if first then [TOpen] else []) ++ body_toks body ++ TClose :: osym_tok cl.
Proof.
  induction body as [|b r IH]; intros first Hne Hl; [contradiction|]. destruct r as [|b' r'].
  - unfold last_bond_none in Hl. cbn in Hl. cbn [body_lins lins_toks flat_map body_toks]. unfold lin_toks, bnode_toks.
    cbn [l_open l_name l_mult l_rings l_bond l_close map]. rewrite Hl. cbn [osym_tok app]. rewrite ?app_nil_r.
    destruct first; reflexivity.
  - change (body_lins first cl (b :: b' :: r')) with (blin first b :: body_lins false cl (b' :: r')).
    change (lins_toks (blin first b :: body_lins false cl (b' :: r'))) with (lin_toks (blin first b) ++ lins_toks (body_lins false cl (b' :: r'))).
    rewrite blin_toks, (IH false) by (discriminate || now apply (last_bond_cons b)).
    cbn [body_toks flat_map app]. now rewrite <- !app_assoc.
Qed.
Lemma copy_lins_toks u m cl : u_body u <> [] -> last_bond_none (u_body u) ->
  lins_toks (copy_lins u m cl)
  = TNode (u_name u) (mult_val m) :: osym_tok (u_bond u) ++ TOpen :: body_toks (u_body u) ++ TClose :: osym_tok cl.
Proof.
  intros Hne Hl. unfold copy_lins. change (lins_toks (?i :: ?t)) with (lin_toks i ++ lins_toks t).
  rewrite (body_lins_toks cl (u_body u) true Hne Hl). unfold lin_toks. cbn [l_open l_name l_mult l_rings l_bond l_close map app].
  now rewrite <- !app_assoc.
Qed.
Lemma interleave {A} (s c a : list A) : forall n,
  s ++ concat (repeat (c ++ s) n) ++ (c ++ a) = concat (repeat (s ++ c) (Datatypes.S n)) ++ a.
Proof.
  induction n as [|n IH].
  - cbn [repeat concat app]. now rewrite app_nil_r, app_assoc.
  - change (concat (repeat (c ++ s) (Datatypes.S n))) with ((c ++ s) ++ concat (repeat (c ++ s) n)).
    change (concat (repeat (s ++ c) (Datatypes.S (Datatypes.S n)))) with ((s ++ c) ++ concat (repeat (s ++ c) (Datatypes.S n))).
    rewrite <- !app_assoc. f_equal. f_equal. rewrite <- IH. reflexivity.
Qed.
Lemma lins_toks_concat x : forall n, lins_toks (concat (repeat x n)) = concat (repeat (lins_toks x) n).
Proof. induction n as [|n IH]; [reflexivity|]. cbn [repeat concat]. now rewrite lins_toks_app, IH. Qed.
Definition copy_core (u : unit_t) (m : option (list nat)) : list tok :=
  TNode (u_name u) (mult_val m) :: osym_tok (u_bond u) ++ TOpen :: body_toks (u_body u) ++ [TClose].
Lemma copy_lins_core u m cl : u_body u <> [] -> last_bond_none (u_body u) ->
  lins_toks (copy_lins u m cl) = copy_core u m ++ osym_tok cl.
Proof.
  intros Hne Hl. rewrite copy_lins_toks by assumption. unfold copy_core. cbn [app]. f_equal.
  repeat (rewrite <- app_assoc; cbn [app]). reflexivity.
Qed.
Lemma unit_long_toks u : u_body u <> [] -> last_bond_none (u_body u) -> (1 <= digits_nat (u_count u))%nat ->
  lins_toks (unit_long u) = unit_toks u.
Proof.
  intros Hne Hl HN. unfold unit_long. destruct (digits_nat (u_count u)) as [|[|k]] eqn:EN; [lia| |].
  - rewrite copy_lins_core by assumption. unfold unit_toks, copy_core. rewrite EN. cbn [Nat.sub repeat concat app]. f_equal.
    repeat (rewrite <- app_assoc; cbn [app]). reflexivity.
  - rewrite !lins_toks_app, lins_toks_concat, !copy_lins_core by assumption.
    rewrite <- app_assoc. rewrite (interleave (osym_tok (u_ms u)) (copy_core u None) (osym_tok (u_after u))).
    unfold unit_toks, copy_core. rewrite EN. replace (Datatypes.S (Datatypes.S k) - 1)%nat with (Datatypes.S k) by lia.
    change (mult_val None) with 1%nat. cbn [app]. f_equal.
    repeat (rewrite <- app_assoc; cbn [app]). reflexivity.
Qed.

(** the longhand is a flat string of the grammar *)
Lemma unit_ok_parts fo u : unit_ok fo u = true ->
  name_ok fo (u_name u) = true /\ sn_okb (u_mult u) (u_bond u) = true /\ u_body u <> []
  /\ body_ok fo (oord (u_bond u)) (u_body u) = true /\ last_bond_none (u_body u)
  /\ digits_ok (u_count u) = true /\ (1 <= digits_nat (u_count u))%nat.
Proof.
  unfold unit_ok. intros Hok.
  apply andb_prop in Hok as [Hok HN]. apply andb_prop in Hok as [Hok Hd]. apply andb_prop in Hok as [Hok Hlb].
  apply andb_prop in Hok as [Hok Hbo]. apply andb_prop in Hok as [Hok Hne]. apply andb_prop in Hok as [Hna Hsn].
  apply Nat.leb_le in HN. repeat split; try assumption.
  - destruct (u_body u); [discriminate|discriminate].
  - unfold last_bond_none. destruct (rev (u_body u)) as [|z t]; [exact I|]. now destruct (bn_bond z).
Qed.
Lemma body_lins_ok fo cl : forall body inc first, body_ok fo inc body = true -> last_bond_none body ->
  forallb (lin_ok fo) (body_lins first cl body) = true.
Proof.
  induction body as [|b r IH]; intros inc first Hok Hl; [reflexivity|].
  cbn [body_ok] in Hok. apply andb_prop in Hok as [Hok Hr]. apply andb_prop in Hok as [Hn Hs].
  destruct r as [|b' r'].
  - unfold last_bond_none in Hl. cbn in Hl. cbn [body_lins forallb]. rewrite andb_true_r.
    unfold lin_ok. cbn [l_name l_rings l_mult l_bond l_close]. rewrite Hl, Hn. cbn [forallb is_nil is_some negb andb].
    unfold sn_okb in Hs. destruct (bn_mult b); [|reflexivity].
    apply andb_prop in Hs as [H1 H2]. now rewrite H1, H2.
  - change (body_lins first cl (b :: b' :: r')) with (blin first b :: body_lins false cl (b' :: r')).
    cbn [forallb]. rewrite (blin_ok fo first b Hn Hs). cbn [andb]. apply (IH _ false Hr). now apply (last_bond_cons b).
Qed.
Lemma body_lins_depth cl : forall body d, body <> [] ->
  drun (Datatypes.S d) (body_lins false cl body) = Some d /\ drun d (body_lins true cl body) = Some d.
Proof.
  induction body as [|b r IH]; intros d Hne; [contradiction|]. destruct r as [|b' r'].
  - cbn. split; reflexivity.
  - destruct (IH d ltac:(discriminate)) as [H1 _].
    change (body_lins false cl (b :: b' :: r')) with (blin false b :: body_lins false cl (b' :: r')).
    change (body_lins true cl (b :: b' :: r')) with (blin true b :: body_lins false cl (b' :: r')).
    cbn [drun blin l_open l_close]. split; exact H1.
Qed.
Lemma copy_lins_ok fo u m cl : unit_ok fo u = true -> (m = u_mult u \/ m = None) ->
  forallb (lin_ok fo) (copy_lins u m cl) = true /\ balanced (copy_lins u m cl).
Proof.
  intros Hok Hm. destruct (unit_ok_parts fo u Hok) as (Hn & Hs & Hne & Hbo & Hl & _). split.
  - unfold copy_lins. cbn [forallb]. rewrite (body_lins_ok fo cl _ _ true Hbo Hl), andb_true_r.
    unfold lin_ok. cbn [l_name l_rings l_mult l_bond l_close forallb is_nil]. rewrite Hn. cbn [andb]. rewrite andb_true_r.
    destruct Hm as [->| ->]; [|reflexivity]. unfold sn_okb in Hs. destruct (u_mult u); [|reflexivity].
    apply andb_prop in Hs as [H1 H2]. now rewrite H1, H2.
  - intros d. unfold copy_lins. cbn [drun l_open l_close]. now destruct (body_lins_depth cl (u_body u) d Hne).
Qed.
Lemma unit_long_ok fo u : unit_ok fo u = true -> forallb (lin_ok fo) (unit_long u) = true /\ balanced (unit_long u).
Proof.
  intros Hok. unfold unit_long.
  destruct (copy_lins_ok fo u (u_mult u) (u_ms u) Hok (or_introl eq_refl)) as [A1 A2].
  destruct (copy_lins_ok fo u (u_mult u) (u_after u) Hok (or_introl eq_refl)) as [D1 D2].
  destruct (copy_lins_ok fo u None (u_ms u) Hok (or_intror eq_refl)) as [B1 B2].
  destruct (copy_lins_ok fo u None (u_after u) Hok (or_intror eq_refl)) as [C1 C2].
  assert (HR : forall n, forallb (lin_ok fo) (concat (repeat (copy_lins u None (u_ms u)) n)) = true
                         /\ balanced (concat (repeat (copy_lins u None (u_ms u)) n))).
  { induction n as [|n [I1 I2]]; [split; [reflexivity|intros d; reflexivity]|]. cbn [repeat concat]. split.
    - now rewrite forallb_app, B1, I1.
    - now apply balanced_app. }
  destruct (digits_nat (u_count u)) as [|[|k]]; [split; assumption|split; assumption|].
  destruct (HR k) as [R1 R2]. split.
  - now rewrite !forallb_app, A1, R1, C1.
  - apply balanced_app; [assumption|]. now apply balanced_app.
Qed.

Lemma segs_long_toks fo l : forallb (seg_ok fo) l = true -> lins_toks (segs_long l) = segs_toks l.
Proof.
  induction l as [|s t IH]; intros H; [reflexivity|]. cbn [forallb] in H. apply andb_prop in H as [Hs Ht].
  unfold segs_long, segs_toks. cbn [flat_map]. rewrite lins_toks_app. fold (segs_long t). fold (segs_toks t). rewrite (IH Ht). f_equal.
  destruct s as [i|u]; cbn [seg_long seg_toks].
  - cbn [lins_toks flat_map]. now rewrite app_nil_r.
  - destruct (unit_ok_parts fo u Hs) as (_ & _ & Hne & _ & Hl & _ & HN). now apply unit_long_toks.
Qed.
Lemma segs_long_depth fo : forall l d, forallb (seg_ok fo) l = true -> seg_depth d l = true -> lin_depth d (segs_long l) = true.
Proof.
  induction l as [|[i|u] t IH]; intros d Hok Hd; [reflexivity| |]; cbn [forallb] in Hok; apply andb_prop in Hok as [Hs Ht].
  - unfold segs_long. cbn [flat_map seg_long app]. fold (segs_long t). cbn [lin_depth seg_depth] in *.
    destruct (l_close i); [destruct (if l_open i then Datatypes.S d else d); [discriminate|]|]; now apply IH.
  - cbn [seg_depth] in Hd. apply andb_prop in Hd as [Hd0 Hdt]. apply Nat.eqb_eq in Hd0. subst d.
    unfold segs_long. cbn [flat_map seg_long]. fold (segs_long t). rewrite lin_depth_drun, drun_app.
    destruct (unit_long_ok fo u Hs) as [_ Hb]. rewrite (Hb O). rewrite <- lin_depth_drun. now apply IH.
Qed.
Lemma segs_long_ok fo l : segs_ok fo l = true -> lins_ok fo (segs_long l) = true.
Proof.
  unfold segs_ok, lins_ok. intros H. apply andb_prop in H as [H Hf]. apply andb_prop in H as [Hok Hd].
  rewrite (segs_long_depth fo l O Hok Hd).
  assert (Hall : forallb (lin_ok fo) (segs_long l) = true).
  { clear Hd Hf. induction l as [|s t IH]; [reflexivity|]. cbn [forallb] in Hok. apply andb_prop in Hok as [Hs Ht].
    unfold segs_long. cbn [flat_map]. rewrite forallb_app. fold (segs_long t). rewrite (IH Ht), andb_true_r.
    destruct s as [i|u]; cbn [seg_long seg_ok] in *; [cbn; now rewrite Hs|now destruct (unit_long_ok fo u Hs)]. }
  rewrite Hall. cbn [andb]. destruct l as [|[i|u] t]; [reflexivity|exact Hf|].
  unfold segs_long. cbn [flat_map seg_long]. unfold unit_long. destruct (digits_nat (u_count u)) as [|[|k]]; reflexivity.
Qed.

(** ** C05 for branch multipliers (units at top level): the SAME graph, the SAME numbering *)
Definition segs_text (l : list seg) : pystr := "{"%char :: segs_str l ++ ["}"%char].
Theorem reader_units_shorthand fo l : segs_ok fo l = true ->
  read_cgsmiles fo (segs_text l) = read_cgsmiles fo (base_text (segs_long l)).
Proof.
  intros H. unfold segs_text, base_text. rewrite reader_sim_segs by assumption.
  rewrite reader_sim_lin by (now apply segs_long_ok). unfold denote_segs, denote_lin.
  rewrite (segs_long_toks fo) by (unfold segs_ok in H; apply andb_prop in H as [H _]; now apply andb_prop in H as [H _]).
  reflexivity.
Qed.
(** the longhand contains no branch multiplier: it is a flat string; and its node multipliers can be
    written out as well ([reader_nodes_shorthand]) *)
Corollary reader_units_fully_expanded fo l : segs_ok fo l = true ->
  read_cgsmiles fo (segs_text l) = read_cgsmiles fo (base_text (expand_lin (segs_long l))).
Proof.
  intros H. rewrite reader_units_shorthand by assumption. apply reader_nodes_shorthand. now apply segs_long_ok.
Qed.
Print Assumptions reader_units_fully_expanded.
