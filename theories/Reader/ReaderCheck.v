(** ReaderCheck: executable oracles of C04 and C05, evaluated on what the IMPLEMENTATION returned,
    and the correspondence test of ReaderImpl.  Imports only the model, the grammar and the
    definition files Reader/Lin.v and Reader/UnitsDefs.v (no proof file). *)
From Coq Require Import String.
From Coq Require Import List Ascii ZArith Bool.
From CGV Require Import Base.PyBase Base.PyVal Base.NxGraph Dialect.DialectImpl Reader.ReaderImpl Reader.Grammar
     Reader.Lin Reader.UnitsDefs.
Import ListNotations.
Open Scope Z_scope.

Definition err_eqb (a b : err) : bool :=
  match a, b with
  | ESyntax x, ESyntax y => str_eqb x y
  | EType, EType | EIndex, EIndex | EKey, EKey | EValue, EValue | EUnbound, EUnbound => true
  | _, _ => false
  end.
(** what a call of read_cgsmiles showed: the graph (networkx iteration orders) or the exception *)
Definition outcome := (obs_graph + err)%type.
Definition agrees (m : res graph) (o : outcome) : bool :=
  match m, o with
  | Ok g, inl ob => obs_eqb (observe g) ob
  | Err x, inr y => err_eqb x y
  | _, _ => false
  end.

(** order-insensitive form: nodes by key, edges as sorted (min, max, attrs) *)
Fixpoint ins_node (x : Z * attrs) (l : list (Z * attrs)) : list (Z * attrs) :=
  match l with [] => [x] | y :: r => if fst x <=? fst y then x :: y :: r else y :: ins_node x r end.
Definition edge_le (a b : Z * Z * attrs) : bool :=
  let '(u, v, _) := a in let '(u', v', _) := b in (u <? u') || ((u =? u') && (v <=? v')).
Fixpoint ins_edge (x : Z * Z * attrs) (l : list (Z * Z * attrs)) : list (Z * Z * attrs) :=
  match l with [] => [x] | y :: r => if edge_le x y then x :: y :: r else y :: ins_edge x r end.
Definition norm_edge (e : Z * Z * attrs) : Z * Z * attrs :=
  let '(u, v, a) := e in if u <=? v then (u, v, a) else (v, u, a).
Definition canon (o : obs_graph) : obs_graph :=
  (fold_right ins_node [] (fst o), fold_right ins_edge [] (map norm_edge (snd o))).
Definition same_graph (a b : obs_graph) : bool := obs_eqb (canon a) (canon b).
Definition relabel_obs (m : list (Z * Z)) (o : obs_graph) : obs_graph :=
  (map (fun ka => (map_get m (fst ka), snd ka)) (fst o),
   map (fun e => let '(u, v, a) := e in (map_get m u, map_get m v, a)) (snd o)).
Definition is_identity (m : list (Z * Z)) : bool := forallb (fun p => fst p =? snd p) m.

Definition outcome_of (r : res graph) : outcome :=
  match r with Ok g => inl (observe g) | Err e => inr e end.

(** ** C04 *)
Record case := {
  c_braces : bool;
  c_ast : chain;                         (* [] for raw-text cases *)
  c_text : pystr;                        (* the string handed to read_cgsmiles *)
  c_fo : list (pystr * option pystr);    (* float() on every annotation piece of the text *)
  c_judge : bool;                        (* false: correspondence only (fault-injected / raw text) *)
  c_impl : outcome }.

Definition corr_ok (c : case) : bool :=
  (is_nil (c_ast c) || str_eqb (print (c_braces c) (c_ast c)) (c_text c))
  && agrees (read_cgsmiles (fo_of_table (c_fo c)) (c_text c)) (c_impl c).

(** known-defect classes of C04, numbered; 0 = none.  None is left: pct_at_end, nodemult_sym and
    double_close are repaired in the code (fd2fb55, f80d9d3, 0460546) *)
Definition class_C04 (braces : bool) (a : chain) : nat := 0%nat.
(** 0 = holds (or not judged); 1 = wrong graph, 2 = exception on a valid string; +10*class; 7 = harness error *)
Definition holds_C04 (fo : float_oracle) (a : chain) (out : outcome) : nat :=
  match denote fo a with
  | Err _ => 0%nat                                       (* not a valid string: not judged *)
  | Ok g => match out with
            | inl ob => if same_graph ob (observe g) then 0%nat else 1%nat
            | inr _ => 2%nat
            end
  end.
Definition prop_fail (c : case) : nat :=
  if negb (c_judge c) then 0%nat
  else if negb (wf (fo_of_table (c_fo c)) (c_ast c)) || has_branch_mult (c_ast c) then 7%nat
  else match holds_C04 (fo_of_table (c_fo c)) (c_ast c) (c_impl c) with
       | O => 0%nat
       | n => (n + 10 * class_C04 (c_braces c) (c_ast c))%nat
       end.

(** the oracle applied to the MODEL's own output (used by the _refuted / _small theorems) *)
Definition model_C04 (fo : float_oracle) (braces : bool) (a : chain) : nat :=
  holds_C04 fo a (outcome_of (read_cgsmiles fo (print braces a))).

(** ** C05 *)
Record case5 := {
  d_braces : bool;
  d_ast : chain;
  d_short : pystr; d_long : pystr;       (* print ast, print (expand ast) *)
  d_fo : list (pystr * option pystr);
  d_judge : bool;
  d_impl_short : outcome; d_impl_long : outcome;
  d_map : list (Z * Z) }.                (* node of the shorthand graph -> node of the longhand graph *)

Definition corr_ok5 (c : case5) : bool :=
  (is_nil (d_ast c) ||
   (str_eqb (print (d_braces c) (d_ast c)) (d_short c)
    && str_eqb (print (d_braces c) (expand (d_ast c))) (d_long c)))
  && agrees (read_cgsmiles (fo_of_table (d_fo c)) (d_short c)) (d_impl_short c)
  && agrees (read_cgsmiles (fo_of_table (d_fo c)) (d_long c)) (d_impl_long c).

(** the defect classes are cut down to what is NOT proved correct: an AST that satisfies the decidable side
    condition [units_ok] of the unbounded theorem C05_branch_ast_partial (Reader/UnitsDefs.v, definitions only)
    is in no class, whatever the coarser AST predicates say (cls_stale_recipe flags 100 enumerated ASTs on
    which the reader is right) *)
Definition units_test (a : chain) : bool := units_ok (fun _ => None) a.
(** stale_recipe (class 10) is repaired in the code: the slice of the recipe table starts at the closing anchor's entry *)
Definition class_C05 (braces : bool) (a : chain) : nat :=
  if units_test a then 0%nat
  else if cls_ring_in_unit a then 4%nat
  else if cls_nested_in_unit a then 5%nat
  else 0%nat.
(** shorthand against longhand, both as read by the implementation; the numbering must be the
    same unless a branch is multiplied *)
Definition effective_branch_mult (a : chain) : bool := existsb (fun s => (2 <=? bm_val (snd s))%nat) (sites a).
Definition holds_C05 (a : chain) (short long : outcome) (m : list (Z * Z)) : nat :=
  match long with
  | inr _ => 0%nat                                        (* longhand itself not read: not judged *)
  | inl ol =>
      match short with
      | inr _ => 2%nat
      | inl os =>
          if negb (effective_branch_mult a) && negb (is_identity m) then 1%nat
          else if same_graph (relabel_obs m os) ol then 0%nat else 1%nat
      end
  end.
Definition prop_fail5 (c : case5) : nat :=
  if negb (d_judge c) then 0%nat
  else if negb (wf (fo_of_table (d_fo c)) (d_ast c)) then 7%nat
  else if negb (has_node_mult (d_ast c) || has_branch_mult (d_ast c)) then 0%nat
  else match holds_C05 (d_ast c) (d_impl_short c) (d_impl_long c) (d_map c) with
       | O => 0%nat
       | n => (n + 10 * class_C05 (d_braces c) (d_ast c))%nat
       end.

(** the oracle applied to the MODEL's own outputs, with the identity renumbering *)
Definition ident_map (o : outcome) : list (Z * Z) :=
  match o with inl ob => map (fun ka => (fst ka, fst ka)) (fst ob) | inr _ => [] end.
Definition model_C05 (fo : float_oracle) (braces : bool) (a : chain) (m : option (list (Z * Z))) : nat :=
  let s := outcome_of (read_cgsmiles fo (print braces a)) in
  let l := outcome_of (read_cgsmiles fo (print braces (expand a))) in
  holds_C05 a s l (match m with Some x => x | None => ident_map s end).

(** isomorphism invariants used by the refutation witnesses of C05 (a renumbering cannot change them) *)
Definition count_nodes_named (nm : pystr) (o : outcome) : nat :=
  match o with
  | inl ob => length (filter (fun ka => match aget (S "fragname") (snd ka) with Some (VStr s) => str_eqb s nm | _ => false end) (fst ob))
  | inr _ => 0%nat
  end.
Definition count_edges_order (z : Z) (o : outcome) : nat :=
  match o with
  | inl ob => length (filter (fun e => match aget (S "order") (snd e) with Some (VInt x) => Z.eqb x z | _ => false end) (snd ob))
  | inr _ => 0%nat
  end.
Definition count_nodes (o : outcome) : nat := match o with inl ob => length (fst ob) | inr _ => 0%nat end.
Definition degree_in (o : outcome) (k : Z) : nat :=
  match o with
  | inl ob => length (filter (fun e => Z.eqb (fst (fst e)) k || Z.eqb (snd (fst e)) k) (snd ob))
  | inr _ => 0%nat
  end.
(** number of nodes of each degree 0..5 *)
Definition degree_profile (o : outcome) : list nat :=
  match o with
  | inl ob => map (fun d => length (filter (fun ka => Nat.eqb (degree_in o (fst ka)) d) (fst ob))) (seq 0 6)
  | inr _ => []
  end.
Definition short_of (fo : float_oracle) (braces : bool) (a : chain) : outcome := outcome_of (read_cgsmiles fo (print braces a)).
Definition long_of (fo : float_oracle) (braces : bool) (a : chain) : outcome := outcome_of (read_cgsmiles fo (print braces (expand a))).
