(** ReaderWf: the grammar's own side conditions imply the flat form.
    [rg_chain] is a recursive reformulation of "well-formed, no branch multiplier, no node closing two
    branches, no symbol after a node multiplier"; L1: it implies [flat_ok]; L2: it follows from
    [wf] and the class predicates of Grammar.v.  Together: [flat_ok_of_wf], which turns the hypothesis
    of [reader_sim_ast] into the property's own domain minus the named defect classes. *)
From Coq Require Import String.
From Coq Require Import List Ascii ZArith Bool Lia.
From CGV Require Import Base.PyBase Base.PyVal Base.NxGraph Dialect.DialectImpl
     Reader.ReaderImpl Reader.Grammar Reader.ReaderLemmas Reader.Lin Reader.ReaderSim Reader.ReaderMult Reader.ReaderAst.
Import ListNotations.

(** ** recursive side conditions; [dc]: a node may close several branches (fix 0460546 of read_cgsmiles) *)
Section RG.
Variable dc : bool.
(** [bmok]: branches may carry multipliers (the conditions then describe the SHORTHAND; Reader/ReaderG2Wf.v) *)
Variable bmok : bool.
Fixpoint rg_item (fo : float_oracle) (is_last : bool) (it : item) : bool :=
  match it with
  | Item n r m b brs =>
      item_ok fo (Item n r m b brs)
      && (negb (is_some b) || negb (is_nil brs) || negb is_last)
      && (fix go (brs : list branch) : bool :=
            match brs with
            | [] => true
            | Branch c bm a :: tl =>
                (bmok || negb (is_some bm)) && (negb (is_some a) || negb (is_nil tl) || negb is_last)
                && (fix ch (c : list item) : bool :=
                      match c with
                      | [] => true
                      | [x] => rg_item fo true x && (dc || is_nil (i_branches x))
                      | x :: r => rg_item fo false x && ch r
                      end) c
                && go tl
            end) brs
  end.
Fixpoint rg_chain (fo : float_oracle) (c : chain) : bool :=
  match c with [] => true | [x] => rg_item fo true x | x :: r => rg_item fo false x && rg_chain fo r end.
(** the chain of a branch: as [rg_chain], and the last node carries no branch *)
Fixpoint rg_bchain (fo : float_oracle) (c : list item) : bool :=
  match c with
  | [] => true
  | [x] => rg_item fo true x && (dc || is_nil (i_branches x))
  | x :: r => rg_item fo false x && rg_bchain fo r
  end.
Definition rg_branch (fo : float_oracle) (tail_ok : bool) (br : branch) : bool :=
  match br with
  | Branch c bm a => (bmok || negb (is_some bm)) && (negb (is_some a) || tail_ok) && rg_bchain fo c
  end.
Fixpoint rg_branches (fo : float_oracle) (is_last : bool) (brs : list branch) : bool :=
  match brs with
  | [] => true
  | br :: tl => rg_branch fo (negb (is_nil tl) || negb is_last) br && rg_branches fo is_last tl
  end.
Lemma rg_item_eq fo is_last n r m b brs :
  rg_item fo is_last (Item n r m b brs)
  = item_ok fo (Item n r m b brs)
    && (negb (is_some b) || negb (is_nil brs) || negb is_last) && rg_branches fo is_last brs.
Proof.
  cbn [rg_item]. f_equal. induction brs as [|[c bm a] tl IH]; [reflexivity|].
  cbn [rg_branches rg_branch]. rewrite <- IH. f_equal. f_equal. f_equal.
  - now rewrite orb_assoc.
  - induction c as [|x c' IHc]; [reflexivity|]. destruct c' as [|y c'']; [reflexivity|].
    change (rg_bchain fo (x :: y :: c'')) with (rg_item fo false x && rg_bchain fo (y :: c'')). rewrite <- IHc. reflexivity.
Qed.

(** ** L2: the grammar's side conditions and the class predicates give the recursive conditions *)
Lemma flat_map_flat_map {A B C} (f : B -> list C) (g : A -> list B) l :
  flat_map f (flat_map g l) = flat_map (fun x => flat_map f (g x)) l.
Proof. induction l as [|x r IH]; [reflexivity|]. cbn [flat_map]. now rewrite flat_map_app, IH. Qed.
Lemma flat_item_eq n r m b brs :
  flat_item (Item n r m b brs) = Item n r m b brs :: flat_map (fun br => flat_chain (b_chain br)) brs.
Proof.
  cbn [flat_item]. f_equal. induction brs as [|[c bm a] tl IH]; [reflexivity|]. cbn [flat_map b_chain]. now rewrite IH.
Qed.
Definition local_sites (it : item) : list (item * nat * branch) :=
  map (fun jb => (it, fst jb, snd jb)) (with_index O (i_branches it)).
Lemma sites_eq c : sites c = flat_map local_sites (flat_chain c). Proof. reflexivity. Qed.
Lemma sites_cons n r m b brs c :
  sites (Item n r m b brs :: c)
  = local_sites (Item n r m b brs) ++ flat_map (fun br => sites (b_chain br)) brs ++ sites c.
Proof.
  rewrite !sites_eq. unfold flat_chain at 1. cbn [flat_map]. fold (flat_chain c). rewrite flat_map_app, flat_item_eq.
  cbn [flat_map]. rewrite <- app_assoc. f_equal. f_equal. now rewrite flat_map_flat_map.
Qed.
Lemma flat_chain_cons n r m b brs c :
  flat_chain (Item n r m b brs :: c)
  = Item n r m b brs :: flat_map (fun br => flat_chain (b_chain br)) brs ++ flat_chain c.
Proof. unfold flat_chain at 1. cbn [flat_map]. fold (flat_chain c). now rewrite flat_item_eq. Qed.
Lemma existsb_flat_map {A B} (p : B -> bool) (g : A -> list B) l :
  existsb p (flat_map g l) = existsb (fun x => existsb p (g x)) l.
Proof. induction l as [|x r IH]; [reflexivity|]. cbn [flat_map existsb]. now rewrite existsb_app, IH. Qed.
Lemma forallb_flat_map {A B} (p : B -> bool) (g : A -> list B) l :
  forallb p (flat_map g l) = forallb (fun x => forallb p (g x)) l.
Proof. induction l as [|x r IH]; [reflexivity|]. cbn [flat_map forallb]. now rewrite forallb_app, IH. Qed.
Lemma existsb_local (p : item * nat * branch -> bool) it :
  existsb p (local_sites it) = false -> forall br, In br (i_branches it) -> exists j, p (it, j, br) = false.
Proof.
  unfold local_sites. generalize O. induction (i_branches it) as [|b0 tl IH]; intros k H br Hin; [contradiction|].
  cbn [with_index map existsb fst snd] in H. apply orb_false_elim in H as [H1 H2]. destruct Hin as [->|Hin].
  - now exists k.
  - now apply (IH (Datatypes.S k)).
Qed.

(** the global conditions, bundled *)
Definition last_plain (c : list item) : bool :=
  match rev c with it :: _ => is_nil (i_branches it) | [] => true end.
Definition good (fo : float_oracle) (c : chain) : Prop :=
  forallb (item_ok fo) (flat_chain c) = true /\ (bmok = false -> has_branch_mult c = false) /\ (dc = false -> cls_double_close c = false).
Lemma good_cons fo n r m b brs c : good fo (Item n r m b brs :: c) ->
  item_ok fo (Item n r m b brs) = true
  /\ (forall br, In br brs -> (bmok = false -> b_mult br = None) /\ (dc || last_plain (b_chain br)) = true /\ good fo (b_chain br))
  /\ good fo c.
Proof.
  intros (H1 & H2 & H3).
  assert (H2' : bmok = false -> existsb (fun s => is_some (b_mult (snd s))) (local_sites (Item n r m b brs)) = false
                               /\ existsb (fun x => existsb (fun s => is_some (b_mult (snd s))) (sites (b_chain x))) brs = false
                               /\ has_branch_mult c = false).
  { intros Hb. specialize (H2 Hb). unfold has_branch_mult in *. rewrite sites_cons in H2.
    rewrite !existsb_app in H2. apply orb_false_elim in H2 as [H2a H2]. apply orb_false_elim in H2 as [H2b H2c].
    rewrite existsb_flat_map in H2b. repeat split; assumption. }
  rewrite flat_chain_cons in H1. cbn [forallb] in H1.
  apply andb_prop in H1 as [H1a H1]. rewrite forallb_app in H1. apply andb_prop in H1 as [H1b H1c].
  rewrite forallb_flat_map in H1b.
  assert (Hf : forall br, In br brs -> forall (p : branch -> bool), existsb p brs = false -> p br = false).
  { intros br Hin p Hp. destruct (p br) eqn:E; [|reflexivity]. assert (existsb p brs = true); [|congruence].
    apply existsb_exists. now exists br. }
  assert (H3' : dc = false -> existsb (fun s => match rev (b_chain (snd s)) with it :: _ => negb (is_nil (i_branches it)) | [] => false end)
                                      (local_sites (Item n r m b brs)) = false
                              /\ existsb (fun x => existsb (fun s => match rev (b_chain (snd s)) with it :: _ => negb (is_nil (i_branches it)) | [] => false end)
                                                            (sites (b_chain x))) brs = false
                              /\ cls_double_close c = false).
  { intros Hdc. specialize (H3 Hdc). unfold cls_double_close in H3. rewrite sites_cons, !existsb_app in H3.
    apply orb_false_elim in H3 as [H3a H3]. apply orb_false_elim in H3 as [H3b H3c]. rewrite existsb_flat_map in H3b. repeat split; assumption. }
  split; [assumption|]. split.
  - intros br Hin. split.
    { intros Hb. destruct (H2' Hb) as (H2a & _ & _). destruct (existsb_local _ _ H2a br Hin) as (j1 & Hj1). cbn [snd] in Hj1. now destruct (b_mult br). }
    rewrite forallb_forall in H1b. specialize (H1b br Hin). split.
    + destruct (Bool.bool_dec dc true) as [Hdc|Hdc]; [now rewrite Hdc|]. apply not_true_is_false in Hdc.
      destruct (H3' Hdc) as (H3a & _ & _). destruct (existsb_local _ _ H3a br Hin) as (j2 & Hj2). cbn [snd] in Hj2.
      apply orb_true_iff. right. unfold last_plain. destruct (rev (b_chain br)) as [|z ?]; [reflexivity|]. now destruct (i_branches z).
    + split; [assumption|]. split; [intros Hb; destruct (H2' Hb) as (_ & H2b & _); apply (Hf br Hin _ H2b)|].
      intros Hdc. destruct (H3' Hdc) as (_ & H3b & _). apply (Hf br Hin _ H3b).
  - split; [assumption|]. split; [intros Hb; now destruct (H2' Hb) as (_ & _ & ?)|]. intros Hdc. now destruct (H3' Hdc) as (_ & _ & ?).
Qed.

(** consumers, one level at a time *)
Fixpoint cons_brs (is_last : bool) (brs : list branch) : bool :=
  match brs with
  | [] => true
  | Branch c _ a :: tl => (negb (is_some a) || negb (is_nil tl) || negb is_last) && consumers_chain c && cons_brs is_last tl
  end.
Lemma consumers_item_eq is_last n r m b brs :
  consumers_item is_last (Item n r m b brs)
  = (negb (is_some b) || negb (is_nil brs) || negb is_last) && cons_brs is_last brs.
Proof.
  cbn [consumers_item]. f_equal. induction brs as [|[c bm a] tl IH]; [reflexivity|].
  cbn [cons_brs]. rewrite <- IH. reflexivity.
Qed.

Definition item_rg (fo : float_oracle) (it : item) : Prop :=
  forall is_last, good fo [it] -> consumers_item is_last it = true -> rg_item fo is_last it = true.
Lemma good_single fo it c : good fo (it :: c) -> good fo [it].
Proof.
  destruct it as [n r m b brs]. intros H. destruct (good_cons fo n r m b brs c H) as (H1 & H3 & _).
  assert (Hb : forall br, In br brs -> good fo (b_chain br)) by (intros br Hin; now destruct (H3 br Hin) as (_ & _ & ?)).
  assert (E1 : forallb (fun x => forallb (item_ok fo) (flat_chain (b_chain x))) brs = true).
  { apply forallb_forall. intros br Hin. now destruct (Hb br Hin). }
  assert (E2 : forall p, (forall br, In br brs -> existsb p (sites (b_chain br)) = false) ->
                         existsb (fun x => existsb p (sites (b_chain x))) brs = false).
  { intros p Hp. apply not_true_is_false. intros E. apply existsb_exists in E as (br & Hin & E). rewrite (Hp br Hin) in E. discriminate. }
  destruct H as (_ & G2 & G3).
  split; [|split].
  - rewrite flat_chain_cons. cbn [forallb]. rewrite H1. cbn [andb]. now rewrite !app_nil_r, forallb_flat_map, E1.
  - intros Hbm. specialize (G2 Hbm). unfold has_branch_mult in *. rewrite sites_cons, !existsb_app in G2.
    apply orb_false_elim in G2 as [G2 _].
    rewrite sites_cons, !app_nil_r, !existsb_app, existsb_flat_map, G2, E2; [reflexivity|].
    intros br Hin. destruct (Hb br Hin) as (_ & Hx & _). now apply Hx.
  - intros Hdc. specialize (G3 Hdc). unfold cls_double_close in *. rewrite sites_cons, !existsb_app in G3.
    apply orb_false_elim in G3 as [G3 _].
    rewrite sites_cons, !app_nil_r, !existsb_app, existsb_flat_map, G3, E2; [reflexivity|].
    intros br Hin. destruct (Hb br Hin) as (_ & _ & Hx). now apply Hx.
Qed.
Lemma good_tail fo it c : good fo (it :: c) -> good fo c.
Proof. destruct it as [n r m b brs]. intros H. now destruct (good_cons fo n r m b brs c H) as (_ & _ & ?). Qed.

Lemma chain_rg fo c : Forall (item_rg fo) c -> good fo c -> consumers_chain c = true -> rg_chain fo c = true.
Proof.
  induction 1 as [|x c Hx _ IH]; intros Hg Hc; [reflexivity|]. destruct c as [|y c'].
  - cbn [rg_chain consumers_chain] in *. now apply Hx.
  - change (consumers_chain (x :: y :: c')) with (consumers_item false x && consumers_chain (y :: c')) in Hc.
    apply andb_prop in Hc as [Hc1 Hc2].
    change (rg_chain fo (x :: y :: c')) with (rg_item fo false x && rg_chain fo (y :: c')).
    rewrite (Hx false (good_single fo x _ Hg) Hc1). cbn [andb]. apply IH; [now apply (good_tail fo x)|assumption].
Qed.
Lemma last_plain_cons x y c : last_plain (x :: y :: c) = last_plain (y :: c).
Proof.
  unfold last_plain. cbn [rev]. destruct (rev c ++ [y]) as [|z t] eqn:E; [destruct (rev c); discriminate|]. reflexivity.
Qed.
Lemma bchain_rg fo c : Forall (item_rg fo) c -> good fo c -> consumers_chain c = true -> (dc || last_plain c) = true ->
  rg_bchain fo c = true.
Proof.
  induction 1 as [|x c Hx _ IH]; intros Hg Hc Hl; [reflexivity|]. destruct c as [|y c'].
  - cbn [rg_bchain consumers_chain] in *. rewrite (Hx true Hg Hc). cbn [andb]. unfold last_plain in Hl. cbn in Hl. exact Hl.
  - change (consumers_chain (x :: y :: c')) with (consumers_item false x && consumers_chain (y :: c')) in Hc.
    apply andb_prop in Hc as [Hc1 Hc2]. rewrite last_plain_cons in Hl.
    change (rg_bchain fo (x :: y :: c')) with (rg_item fo false x && rg_bchain fo (y :: c')).
    rewrite (Hx false (good_single fo x _ Hg) Hc1). cbn [andb]. apply IH; [now apply (good_tail fo x)|assumption|assumption].
Qed.

Lemma ast_rg fo : forall it, item_rg fo it.
Proof.
  apply (item_ind2 (item_rg fo) (fun br => Forall (item_rg fo) (b_chain br))).
  - intros n r m b brs Hbrs is_last Hg Hc. rewrite rg_item_eq. rewrite consumers_item_eq in Hc.
    apply andb_prop in Hc as [Hc1 Hc2]. destruct (good_cons fo n r m b brs [] Hg) as (H1 & H3 & _).
    rewrite H1, Hc1. cbn [andb]. clear Hc1 Hg H1.
    induction brs as [|[c bm a] tl IHb]; [reflexivity|].
    inversion Hbrs as [|? ? Hb Htl]; subst. cbn [b_chain] in Hb.
    cbn [cons_brs] in Hc2. apply andb_prop in Hc2 as [Hc2 Hc3]. apply andb_prop in Hc2 as [Hca Hcc].
    destruct (H3 (Branch c bm a) (or_introl eq_refl)) as (Hm & Hl & Hgc). cbn [b_mult b_chain] in Hm, Hl, Hgc.
    cbn [rg_branches rg_branch].
    assert (Hbm : (bmok || negb (is_some bm)) = true).
    { destruct (Bool.bool_dec bmok true) as [E|E]; [now rewrite E|]. apply not_true_is_false in E. rewrite (Hm E). now rewrite orb_true_r. }
    rewrite Hbm. cbn [andb].
    rewrite (bchain_rg fo c Hb Hgc Hcc Hl), andb_true_r.
    assert (Ht : (negb (is_some a) || (negb (is_nil tl) || negb is_last)) = true) by (now rewrite orb_assoc).
    rewrite Ht. cbn [andb]. apply IHb; [assumption|assumption|].
    intros br Hin. apply H3. now right.
  - intros c bm a Hc. exact Hc.
Qed.

(** L2 *)
Theorem rg_of_wf_gen fo a : wf fo a = true -> (bmok = false -> has_branch_mult a = false) -> (dc = false -> cls_double_close a = false) ->
  rg_chain fo a = true.
Proof.
  intros Hwf Hb Hd. unfold wf in Hwf. apply andb_prop in Hwf as [Hwf _]. apply andb_prop in Hwf as [Hwf Hcons].
  apply andb_prop in Hwf as [_ Hok]. apply chain_rg; [|repeat split; assumption|assumption].
  apply Forall_forall. intros it _. apply ast_rg.
Qed.
End RG.

(** ** depth bookkeeping *)
Fixpoint drun (d : nat) (l : list lin) : option nat :=
  match l with
  | [] => Some d
  | i :: t =>
      let d1 := if l_open i then Datatypes.S d else d in
      match l_close i with
      | Some _ => match d1 with O => None | Datatypes.S d2 => drun d2 t end
      | None => drun d1 t
      end
  end.
Lemma drun_app l : forall d r, drun d (l ++ r) = match drun d l with Some d' => drun d' r | None => None end.
Proof.
  induction l as [|i t IH]; intros d r; [reflexivity|]. cbn [app drun].
  destruct (l_close i); [|apply IH]. destruct (if l_open i then Datatypes.S d else d); [reflexivity|apply IH].
Qed.
Lemma lin_depth_drun l : forall d, lin_depth d l = match drun d l with Some _ => true | None => false end.
Proof.
  induction l as [|i t IH]; intros d; [reflexivity|]. cbn [lin_depth drun].
  destruct (l_close i); [|apply IH]. destruct (if l_open i then Datatypes.S d else d); [reflexivity|apply IH].
Qed.
Definition balanced (l : list lin) : Prop := forall d, drun d l = Some d.
Lemma balanced_app a b : balanced a -> balanced b -> balanced (a ++ b).
Proof. intros Ha Hb d. rewrite drun_app, Ha. apply Hb. Qed.

Definition node_lin (n : pystr) (r : list (option sym * marker)) (m : option (list nat)) (b : option sym) : lin :=
  {| l_open := false; l_name := n; l_mult := m; l_rings := r; l_bond := b; l_close := None |}.

(** ** L1: the recursive conditions give a flat form *)
Definition item_flat (fo : float_oracle) (it : item) : Prop := forall is_last, rg_item false false fo is_last it = true ->
  exists rest, lin_item it = Some (node_lin (i_name it) (i_rings it) (i_mult it) (i_bond it) :: rest)
               /\ forallb (lin_ok fo) (node_lin (i_name it) (i_rings it) (i_mult it) (i_bond it) :: rest) = true
               /\ balanced rest /\ (i_branches it = [] -> rest = []).
Definition branch_flat (fo : float_oracle) (br : branch) : Prop := forall tail_ok, rg_branch false false fo tail_ok br = true ->
  exists l, lin_branch br = Some l /\ forallb (lin_ok fo) l = true /\ balanced l.

Lemma node_lin_ok fo n r m b brs :
  item_ok fo (Item n r m b brs) = true -> lin_ok fo (node_lin n r m b) = true.
Proof.
  unfold item_ok, lin_ok. cbn [i_name i_rings i_mult i_branches node_lin l_name l_rings l_mult l_bond l_close].
  intros H. apply andb_prop in H as [H _]. apply andb_prop in H as [H Hmu]. apply andb_prop in H as [Hn Hr].
  rewrite Hn, Hr. cbn [andb]. rewrite andb_true_r. exact Hmu.
Qed.

Lemma concat_opt_some {A} (a : list A) r :
  concat_opt (Some a :: r) = match concat_opt r with Some y => Some (a ++ y) | None => None end.
Proof. reflexivity. Qed.
Lemma bchain_flat fo c : Forall (item_flat fo) c -> c <> [] -> rg_bchain false false fo c = true ->
  exists pre z, concat_opt (map lin_item c) = Some (pre ++ [z])
    /\ forallb (lin_ok fo) (pre ++ [z]) = true /\ balanced pre
    /\ l_open z = false /\ l_close z = None /\ l_bond z = None
    /\ (pre = [] \/ exists i t, pre = i :: t /\ l_open i = false /\ l_close i = None).
Proof.
  induction 1 as [|x c Hx Hc IH]; intros Hne Hrg; [contradiction|].
  destruct c as [|y c'].
  - (* the last node: no branch, no symbol *)
    cbn [rg_bchain] in Hrg. apply andb_prop in Hrg as [Hrg Hnb].
    destruct (Hx true Hrg) as (rest & El & Hok & _ & Hrest).
    destruct x as [n r m b brs]. cbn [i_branches] in Hnb. destruct brs; [|discriminate]. rewrite (Hrest eq_refl) in *.
    exists [], (node_lin n r m b). cbn [map concat_opt]. rewrite El. cbn [app].
    rewrite rg_item_eq in Hrg. repeat (apply andb_prop in Hrg as [Hrg ?]).
    cbn [is_nil negb orb] in H0. rewrite orb_false_r in H0.
    split; [reflexivity|]. split; [assumption|]. split; [intros d; reflexivity|].
    split; [reflexivity|]. split; [reflexivity|]. split; [cbn; now destruct b|now left].
  - cbn [rg_bchain] in Hrg. apply andb_prop in Hrg as [Hrx Hrc].
    destruct (Hx false Hrx) as (rest & El & Hok & Hbal & _).
    destruct (IH ltac:(discriminate) Hrc) as (pre & z & Ec & Hokc & Hbalc & Hz1 & Hz2 & Hz3 & _).
    exists ((node_lin (i_name x) (i_rings x) (i_mult x) (i_bond x) :: rest) ++ pre), z.
    rewrite map_cons, El, concat_opt_some, Ec.
    split; [now rewrite app_assoc|]. split.
    { rewrite <- app_assoc, forallb_app, Hok. exact Hokc. }
    split. { apply balanced_app; [|assumption]. intros d. cbn [drun node_lin l_open l_close]. apply Hbal. }
    split; [assumption|]. split; [assumption|]. split; [assumption|].
    right. eexists _, _. split; [reflexivity|]. split; reflexivity.
Qed.

Lemma lin_ok_set_open fo i : lin_ok fo (set_open i) = lin_ok fo i.
Proof. reflexivity. Qed.
Lemma wrap_flat fo a pre z :
  forallb (lin_ok fo) (pre ++ [z]) = true -> balanced pre ->
  l_open z = false -> l_close z = None -> l_bond z = None ->
  (pre = [] \/ exists i t, pre = i :: t /\ l_open i = false /\ l_close i = None) ->
  exists w, wrap_branch a (pre ++ [z]) = Some w /\ forallb (lin_ok fo) w = true /\ balanced w.
Proof.
  intros Hok Hbal Hz1 Hz2 Hz3 Hpre.
  assert (Hzc : forall z0, l_close z0 = None -> l_bond z0 = None -> lin_ok fo z0 = true ->
            exists z', set_close a z0 = Some z' /\ lin_ok fo z' = true /\ l_open z' = l_open z0 /\ l_close z' = Some a).
  { intros z0 H2 H3 H4. unfold set_close. rewrite H2. eexists. split; [reflexivity|]. split; [|split; reflexivity].
    unfold lin_ok in *. cbn [l_name l_rings l_mult l_bond l_close]. rewrite H2 in H4. rewrite H3 in *. cbn [is_some negb].
    exact H4. }
  destruct Hpre as [->|(i & t & -> & Hi1 & Hi2)].
  - cbn [app] in *. cbn [forallb] in Hok. apply andb_prop in Hok as [Hok _].
    destruct (Hzc (set_open z)) as (z' & Ez & Hokz & Ho & Hc); [exact Hz2|exact Hz3|now rewrite lin_ok_set_open|].
    unfold wrap_branch. cbn [rev app]. rewrite Ez. exists [z']. split; [reflexivity|]. split; [cbn; now rewrite Hokz|].
    intros d. cbn [drun]. rewrite Ho, Hc. reflexivity.
  - rewrite forallb_app in Hok. apply andb_prop in Hok as [Hokp Hokz]. cbn [forallb] in Hokz, Hokp.
    apply andb_prop in Hokz as [Hokz _]. apply andb_prop in Hokp as [Hoki Hokt].
    destruct (Hzc z Hz2 Hz3 Hokz) as (z' & Ez & Hokz' & Ho & Hc).
    unfold wrap_branch. cbn [app]. change (set_open i :: t ++ [z]) with ((set_open i :: t) ++ [z]).
    rewrite rev_unit, Ez. exists ((set_open i :: t) ++ [z']). split.
    + f_equal. cbn [rev]. rewrite rev_app_distr. cbn [rev app]. now rewrite rev_involutive.
    + split.
      * rewrite forallb_app. cbn [forallb]. rewrite lin_ok_set_open, Hoki, Hokt, Hokz'. reflexivity.
      * intros d. cbn [app drun set_open l_open l_close]. rewrite Hi2. rewrite drun_app.
        pose proof (Hbal (Datatypes.S d)) as Hb. cbn [drun] in Hb. rewrite Hi1, Hi2 in Hb. rewrite Hb.
        cbn [drun]. rewrite Ho, Hz1, Hc. reflexivity.
Qed.

Lemma branches_flat fo is_last brs : Forall (branch_flat fo) brs ->
  forallb (fun br => negb (is_nil (b_chain br))) brs = true -> rg_branches false false fo is_last brs = true ->
  exists rest, concat_opt (map lin_branch brs) = Some rest /\ forallb (lin_ok fo) rest = true /\ balanced rest
               /\ (brs = [] -> rest = []).
Proof.
  induction 1 as [|br tl Hbr _ IH]; intros Hne Hrg.
  - exists []. split; [reflexivity|]. split; [reflexivity|]. split; [intros d; reflexivity|reflexivity].
  - cbn [forallb] in Hne. apply andb_prop in Hne as [Hne1 Hne2]. cbn [rg_branches] in Hrg. apply andb_prop in Hrg as [Hr1 Hr2].
    destruct (Hbr _ Hr1) as (l & El & Hokl & Hball).
    destruct (IH Hne2 Hr2) as (rest & Er & Hokr & Hbalr & _).
    exists (l ++ rest). rewrite map_cons, El, concat_opt_some, Er. split; [reflexivity|].
    split; [now rewrite forallb_app, Hokl, Hokr|]. split; [now apply balanced_app|discriminate].
Qed.

Lemma ast_flat fo : forall it, item_flat fo it.
Proof.
  apply (item_ind2 (item_flat fo) (fun br => b_chain br <> [] -> branch_flat fo br)).
  - intros n r m b brs Hbrs is_last Hrg. rewrite rg_item_eq in Hrg.
    apply andb_prop in Hrg as [Hrg Hrb]. apply andb_prop in Hrg as [Hio Hcons].
    assert (Hne : forallb (fun br => negb (is_nil (b_chain br))) brs = true).
    { unfold item_ok in Hio. cbn [i_branches] in Hio. apply andb_prop in Hio as [_ Hio].
      rewrite forallb_forall in *. intros br Hin. specialize (Hio br Hin). now apply andb_prop in Hio as [Hio _]. }
    assert (Hbrs' : Forall (branch_flat fo) brs).
    { rewrite Forall_forall in *. intros br Hin. apply Hbrs; [assumption|].
      rewrite forallb_forall in Hne. specialize (Hne br Hin). destruct (b_chain br); [discriminate|discriminate]. }
    destruct (branches_flat fo is_last brs Hbrs' Hne Hrb) as (rest & Er & Hokr & Hbalr & Hnil).
    exists rest. cbn [lin_item i_name i_rings i_mult i_bond i_branches]. rewrite Er.
    split; [reflexivity|]. split; [|split; assumption].
    cbn [forallb]. rewrite Hokr, andb_true_r. now apply (node_lin_ok fo n r m b brs).
  - intros c bm a Hc Hne tail_ok Hrg. cbn [b_chain] in Hne. cbn [rg_branch] in Hrg.
    apply andb_prop in Hrg as [Hrg Hrc]. apply andb_prop in Hrg as [Hbm _].
    destruct bm; [discriminate|].
    destruct (bchain_flat fo c Hc Hne Hrc) as (pre & z & Ec & Hok & Hbal & Hz1 & Hz2 & Hz3 & Hpre).
    destruct (wrap_flat fo a pre z Hok Hbal Hz1 Hz2 Hz3 Hpre) as (w & Ew & Hokw & Hbalw).
    exists w. cbn [lin_branch]. rewrite Ec. split; [exact Ew|]. split; assumption.
Qed.

Lemma chain_flat fo c : rg_chain false false fo c = true -> c <> [] ->
  exists i t, linearize c = Some (i :: t) /\ forallb (lin_ok fo) (i :: t) = true /\ balanced (i :: t) /\ l_open i = false.
Proof.
  induction c as [|x c IH]; intros Hrg Hne; [contradiction|]. unfold linearize in *.
  destruct c as [|y c'].
  - cbn [rg_chain] in Hrg. destruct (ast_flat fo x true Hrg) as (rest & El & Hok & Hbal & _).
    eexists _, _. cbn [map]. rewrite El, concat_opt_some. cbn [concat_opt]. rewrite app_nil_r.
    split; [reflexivity|]. split; [assumption|]. split; [|reflexivity].
    intros d. cbn [drun node_lin l_open l_close]. apply Hbal.
  - cbn [rg_chain] in Hrg. apply andb_prop in Hrg as [Hrx Hrc].
    destruct (ast_flat fo x false Hrx) as (rest & El & Hok & Hbal & _).
    destruct (IH Hrc ltac:(discriminate)) as (i & t & Ec & Hokc & Hbalc & _).
    eexists _, _. rewrite map_cons, El, concat_opt_some, Ec. split; [reflexivity|].
    split; [|split; [|reflexivity]].
    + cbn [forallb] in Hok |- *. apply andb_prop in Hok as [H1 H2]. rewrite H1, forallb_app, H2. exact Hokc.
    + intros d. cbn [drun node_lin l_open l_close]. rewrite drun_app, Hbal. apply Hbalc.
Qed.

(** L1 *)
Theorem flat_ok_of_rg fo a : rg_chain false false fo a = true -> a <> [] -> flat_ok fo a = true.
Proof.
  intros Hrg Hne. destruct (chain_flat fo a Hrg Hne) as (i & t & El & Hok & Hbal & Hop).
  unfold flat_ok. rewrite El. unfold lins_ok. rewrite Hok, Hop. rewrite lin_depth_drun, (Hbal O). reflexivity.
Qed.

(** the combination for flat items with at most one closing *)
Theorem rg_of_wf fo a : wf fo a = true -> has_branch_mult a = false -> cls_double_close a = false -> rg_chain false false fo a = true.
Proof. intros Hwf Hb Hd. apply rg_of_wf_gen; [assumption|intros _; assumption|intros _; exact Hd]. Qed.
Theorem flat_ok_of_wf fo a : wf fo a = true -> has_branch_mult a = false -> cls_double_close a = false -> flat_ok fo a = true.
Proof.
  intros Hwf Hb Hd. apply flat_ok_of_rg; [now apply rg_of_wf|].
  unfold wf in Hwf. destruct a; [discriminate|discriminate].
Qed.
Print Assumptions flat_ok_of_wf.
