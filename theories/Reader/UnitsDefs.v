(** UnitsDefs: the EXECUTABLE definitions behind the decidable side condition [units_ok] of the AST-level
    C05 theorem (Properties/C05.v: C05_branch_ast_partial), collected without any proof so that the
    per-run oracle (Reader/ReaderCheck.v) may use them: flat items with closings, multiplied branches,
    the static reading of a text (names, pending order, state of the recipe table) and the map from ASTs
    to the flat form.  The theorems about them live in ReaderUnit / ReaderX / ReaderTrack / ReaderGSegs /
    ReaderG2 / ReaderG2Ast. *)
From Coq Require Import String.
From Coq Require Import List Ascii ZArith Bool.
From CGV Require Import Base.PyBase Base.PyVal Base.NxGraph Dialect.DialectImpl Reader.Grammar Reader.Lin.
Import ListNotations.
Open Scope Z_scope.

Record bnode := { bn_name : pystr; bn_mult : option (list nat); bn_bond : option sym }.
Definition sn_okb (m : option (list nat)) (b : option sym) : bool :=
  match m with Some ds => digits_ok ds && (1 <=? digits_nat ds)%nat | None => true end.
Fixpoint body_ok (fo : float_oracle) (inc : Z) (body : list bnode) : bool :=
  match body with
  | [] => true
  | b :: r => name_ok fo (bn_name b) && sn_okb (bn_mult b) (bn_bond b) && body_ok fo (oord (bn_bond b)) r
  end.
Record unit_t := { u_name : pystr; u_mult : option (list nat); u_bond : option sym; u_body : list bnode;
                   u_ms : option sym; u_count : list nat; u_after : option sym }.
Fixpoint closes_ok (cs : list (option sym)) : bool :=
  match cs with
  | [] => true
  | a :: r => match r with [] => true | _ => negb (is_some a) && closes_ok r end
  end.
Record xlin := { x_open : bool; x_name : pystr; x_mult : option (list nat); x_rings : list (option sym * marker);
                 x_bond : option sym; x_closes : list (option sym) }.
Definition xbase (x : xlin) : lin :=
  {| l_open := x_open x; l_name := x_name x; l_mult := x_mult x; l_rings := x_rings x; l_bond := x_bond x; l_close := None |}.
Definition xlin_ok (fo : float_oracle) (x : xlin) : bool :=
  lin_ok fo (xbase x) && (is_nil (x_closes x) || negb (is_some (x_bond x))) && closes_ok (x_closes x).
Definition node_x (n : pystr) (r : list (option sym * marker)) (m : option (list nat)) (b : option sym) : xlin :=
  {| x_open := false; x_name := n; x_mult := m; x_rings := r; x_bond := b; x_closes := [] |}.
Definition xset_open (x : xlin) : xlin :=
  {| x_open := true; x_name := x_name x; x_mult := x_mult x; x_rings := x_rings x; x_bond := x_bond x; x_closes := x_closes x |}.
Definition xadd_close (a : option sym) (x : xlin) : xlin :=
  {| x_open := x_open x; x_name := x_name x; x_mult := x_mult x; x_rings := x_rings x; x_bond := x_bond x;
     x_closes := x_closes x ++ [a] |}.
Record tstate := { t_cur : option pystr; t_pend : Z; t_names : list pystr; t_flag : bool }.
Definition t_init : tstate := {| t_cur := None; t_pend := 1; t_names := []; t_flag := false |}.
Inductive mode := Clean | Sib | Dirty.
Definition mode_open (md : mode) (op : bool) : mode :=
  if op then match md with Dirty => Dirty | _ => Clean end else match md with Clean => Clean | _ => Dirty end.
Definition tmk (c : option pystr) (p : Z) (ns : list pystr) (f : bool) : tstate :=
  {| t_cur := c; t_pend := p; t_names := ns; t_flag := f |}.
Definition item_track (i : lin) (s : tstate) : option tstate :=
  match (if l_open i then
           (if t_flag s then None else match t_cur s with Some c => Some (c :: t_names s) | None => None end)
         else Some (t_names s)) with
  | None => None
  | Some ns =>
      match l_close i with
      | None => Some (tmk (Some (l_name i)) (oord (l_bond i)) ns false)
      | Some a => match ns with c :: r => Some (tmk (Some c) (oord a) r false) | [] => None end
      end
  end.
Definition gunit_ok (fo : float_oracle) (u : unit_t) : bool :=
  name_ok fo (u_name u) && negb (is_nil (u_body u)) && body_ok fo (oord (u_bond u)) (u_body u)
  && match rev (u_body u) with b :: _ => negb (is_some (bn_bond b)) | [] => false end
  && digits_ok (u_count u) && (1 <=? digits_nat (u_count u))%nat.
Definition mode_closes (md1 : mode) (n : nat) (depth0 : bool) : mode :=
  match n with
  | O => md1
  | Datatypes.S n' => if depth0 then Clean else match md1, n' with Clean, O => Sib | _, _ => Dirty end
  end.
Fixpoint pops_track (cs : list (option sym)) (s : tstate) : option tstate :=
  match cs with
  | [] => Some s
  | a :: r => match t_names s with c :: ns => pops_track r (tmk (Some c) (oord a) ns false) | [] => None end
  end.
Inductive g2seg := G2Plain (x : xlin) | G2Unit (u : unit_t) (cs : list (option sym)).
Definition g2seg_ok (fo : float_oracle) (s : g2seg) : bool :=
  match s with
  | G2Plain x => xlin_ok fo x
  | G2Unit u cs => gunit_ok fo u && closes_ok cs && (is_nil cs || negb (is_some (u_after u)))
  end.
Fixpoint g2track (md : mode) (s : tstate) (l : list g2seg) : bool :=
  match l with
  | [] => true
  | G2Plain x :: t =>
      match item_track (xbase x) s with
      | None => false
      | Some s1 =>
          match pops_track (x_closes x) s1 with
          | None => false
          | Some s2 => g2track (mode_closes (mode_open md (x_open x)) (length (x_closes x)) (is_nil (t_names s2))) s2 t
          end
      end
  | G2Unit u cs :: t =>
      negb (t_flag s) && (match md with Dirty => true | _ => true end)   (* any state of the recipe table (since fix ee9caf1) *)
      && (match t_cur s with Some c => str_eqb c (u_name u) | None => false end)
      && Z.eqb (t_pend s) (oord (u_bond u))
      && match pops_track cs (tmk (Some (u_name u)) (oord (u_after u)) (t_names s) false) with
         | None => false
         | Some s2 => g2track (if is_nil (t_names s2) then Clean else Dirty) s2 t
         end
  end.
Definition g2segs_ok (fo : float_oracle) (l : list g2seg) : bool := forallb (g2seg_ok fo) l && g2track Clean t_init l.
Definition bnode_of (it : item) : bnode := {| bn_name := i_name it; bn_mult := i_mult it; bn_bond := i_bond it |}.
Definition simple_chain (c : list item) : bool := forallb (fun it => is_nil (i_rings it) && is_nil (i_branches it)) c.
Definition g2add_close (a : option sym) (s : g2seg) : g2seg :=
  match s with G2Plain x => G2Plain (xadd_close a x) | G2Unit u cs => G2Unit u (cs ++ [a]) end.
Definition g2set_open (s : g2seg) : g2seg := match s with G2Plain x => G2Plain (xset_open x) | G2Unit _ _ => s end.
Definition g2wrap (a : option sym) (l : list g2seg) : list g2seg :=
  match l with
  | [] => []
  | x :: t => match rev (g2set_open x :: t) with [] => [] | z :: r => rev (g2add_close a z :: r) end
  end.
Definition mk_unit (n : pystr) (pending : option sym) (c : list item) (ms : option sym) (ds : list nat) (a : option sym) : unit_t :=
  {| u_name := n; u_mult := None; u_bond := pending; u_body := map bnode_of c; u_ms := ms; u_count := ds; u_after := a |}.
Fixpoint g_item (it : item) : list g2seg :=
  match it with
  | Item n r m b brs =>
      G2Plain (node_x n r m b) ::
      (fix go (brs : list branch) (pending : option sym) : list g2seg :=
         match brs with
         | [] => []
         | Branch c bm a :: tl =>
             match bm with
             | None => g2wrap a (flat_map g_item c) ++ go tl a
             | Some (ms, ds) => G2Unit (mk_unit n pending c ms ds a) [] :: go tl a
             end
         end) brs b
  end.
Definition g_chain (c : chain) : list g2seg := flat_map g_item c.
Fixpoint shape_item (it : item) : bool :=
  match it with
  | Item n r m b brs =>
      (fix go (brs : list branch) (first : bool) : bool :=
         match brs with
         | [] => true
         | Branch c bm a :: tl =>
             negb (is_nil c)
             && match bm with
                | None => forallb shape_item c
                | Some (_, ds) => simple_chain c && ((digits_nat ds <=? 1)%nat || negb first || is_nil r)
                end
             && go tl false
         end) brs true
  end.
Definition units_ok (fo : float_oracle) (a : chain) : bool :=
  negb (is_nil a) && forallb shape_item a && g2segs_ok fo (g_chain a).
