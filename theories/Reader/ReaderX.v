(** ReaderX: flat items that may close SEVERAL branches ("...[#C]))" after fix 0460546 of
    read_cgsmiles: every ")" that comes before the next node is processed in the closing loop).

    An [xlin] is a flat item (Reader/Lin.v) followed by any number of closings ")sym?".  The reader
    model on a text of such items computes what the grammar's machine computes on their tokens:
    [reader_sim_x] (text in braces) and [reader_sim_x_nobrace].  The closing loop is analysed for an
    arbitrary position in the text ([close_at], [closes_sim]). *)
From Coq Require Import String.
From Coq Require Import List Ascii ZArith Bool Lia.
From CGV Require Import Base.PyBase Base.PyVal Base.NxGraph Base.PyGen Gen.ReaderGen Dialect.DialectImpl
     Reader.ReaderImpl Reader.Grammar Reader.ReaderLemmas Reader.Lin Reader.GraphLemmas Reader.ReaderSim Reader.ReaderMult
     Reader.ReaderUnit Reader.ReaderLast.
Import ListNotations.
Open Scope Z_scope.

(** ** one round of the closing loop at any position *)
Definition zok (z : pystr) : Prop := match z with [] => True | h :: _ => h <> "|"%char /\ sto_mem h = false end.
Lemma skipn_app_len {A} (a b : list A) : skipn (length a) (a ++ b) = b.
Proof. induction a as [|x r IH]; [reflexivity|]. exact IH. Qed.
Lemma close_at Q0 Q1 a z st top stk : Forall inner Q1 -> zok z ->
  s_branch_anchor st = rev (top :: stk) ->
  close_branch (Q0 ++ Q1 ++ ")"%char :: osym_str a ++ z) (length Q0) st
  = Ok (closed_state st top stk a, Datatypes.S (length Q0 + length Q1)).
Proof.
  intros HQ Hz Hba. unfold close_branch. rewrite Hba, rev_involutive.
  rewrite fnc_from_spec by (rewrite app_length; lia). rewrite skipn_app_len.
  rewrite (find_idx_inner _ fnc_eon_a HQ incl_eon_a). cbn [find_idx].
  change (str_in [")"%char] fnc_eon_a) with true. cbv iota. rewrite Nat.add_0_r. cbn [bind].
  rewrite app_assoc. rewrite <- (app_length Q0 Q1). rewrite !nth_error_after.
  rewrite (app_length Q0 Q1). rewrite Nat.add_1_r.
  destruct a as [s|]; cbn [osym_str app].
  - assert (E2 : ch_eq (nth_error (sym_char s :: z) 1) "|"%char = false).
    { cbn [nth_error]. destruct z as [|h t]; [reflexivity|]. cbn [nth_error ch_eq]. destruct Hz as [Hh _].
      now apply Ascii.eqb_neq. }
    cbn [nth_error] in *. rewrite E2. assert (E1 : ch_eq (Some (sym_char s)) "|"%char = false) by (destruct s; reflexivity).
    rewrite E1. cbn [orb andb]. rewrite sym_mem, sym_lookup. cbn [bind]. reflexivity.
  - destruct z as [|h t]; cbn [nth_error ch_eq orb andb bind]; [reflexivity|].
    destruct Hz as [Hh Hm]. rewrite (proj2 (Ascii.eqb_neq _ _) Hh), Hm. rewrite andb_false_r. cbn [orb bind]. reflexivity.
Qed.

(** ** closings *)
Definition closes_str (cs : list (option sym)) : pystr := flat_map (fun a => ")"%char :: osym_str a) cs.
Definition closes_toks (cs : list (option sym)) : list tok := flat_map (fun a => TClose :: osym_tok a) cs.
(** only the last closing may be followed by a bond symbol (a symbol in front of a further ")" has no
    node that consumes it: [Grammar.consumers_item]) *)
(** the end of the text, or the next node *)
Definition contz (k : pystr) : Prop := k = [] \/ cont k.
Lemma contz_no_close a k : contz k ->
  Nat.ltb (find_idx (osym_str a ++ k) fnc_next_close) (find_idx (osym_str a ++ k) fnc_next_open) = false.
Proof.
  intros [->|Hk]; [|now apply cont_no_close]. rewrite app_nil_r. destruct a as [s|]; [destruct s|]; reflexivity.
Qed.
Lemma closes_zok cs k : contz k -> zok (closes_str cs ++ k).
Proof.
  intros Hk. destruct cs as [|a r]; cbn [closes_str flat_map app].
  - destruct Hk as [->|Hk]; [exact I|]. destruct Hk; split; (discriminate || reflexivity).
  - split; [discriminate|reflexivity].
Qed.
Lemma rev_branching (stk : list (option Z)) : (match rev stk with [] => false | _ => true end) = negb (is_nil stk).
Proof. destruct stk as [|a l]; [reflexivity|]. cbn [rev]. now destruct (rev l). Qed.

(** the closing loop against the machine's TClose tokens *)
Lemma closes_sim fo : forall cs f Q0 Q1 k st x,
  Forall inner Q1 -> contz k -> closes_ok cs = true ->
  Rel st x -> s_attributes st <> None -> s_pbo st = Some (m_pend x) -> (cs <> [] -> m_pend x = 1) ->
  (length cs <= length (m_stack x))%nat -> (length cs < f)%nat ->
  exists x1 st1, m_run fo (closes_toks cs) x = Ok x1
    /\ close_loop f (Q0 ++ Q1 ++ closes_str cs ++ k) (length Q0) st = Ok st1
    /\ Rel st1 x1 /\ m_g x1 = m_g x /\ m_rings x1 = m_rings x /\ m_next x1 = m_next x
    /\ m_stack x1 = skipn (length cs) (m_stack x)
    /\ (cs = [] -> st1 = st) /\ (cs <> [] -> m_stack x1 = [] -> s_recipes st1 = [])
    /\ (m_stack x1 <> [] -> s_recipes st1 = s_recipes st).
Proof.
  induction cs as [|a cs IH]; intros f Q0 Q1 k st x HQ Hk Hcs HR Hat Hpb Hp1 Hlen Hf.
  - exists x, st. cbn [closes_toks flat_map m_run closes_str app length skipn]. split; [reflexivity|].
    destruct f as [|f]; [lia|]. split.
    + apply close_loop_stop; [rewrite app_length; lia|]. rewrite skipn_app_len.
      rewrite (find_idx_inner _ fnc_next_open HQ incl_open), (find_idx_inner _ fnc_next_close HQ incl_close).
      pose proof (contz_no_close None k Hk) as H. cbn [osym_str app] in H. apply Nat.ltb_ge. apply Nat.ltb_ge in H. lia.
    + split; [exact HR|]. split; [reflexivity|]. split; [reflexivity|]. split; [reflexivity|]. split; [reflexivity|].
      split; [reflexivity|]. split; [intros C; now elim C|reflexivity].
  - destruct f as [|f]; [lia|]. cbn [length] in Hlen, Hf.
    destruct (m_stack x) as [|top stk] eqn:Es; [cbn in Hlen; lia|]. cbn [length] in Hlen.
    pose proof HR as (Rg & Rc & Rp & Rcy & Rba & Rbr & Rpb).
    set (z := closes_str cs ++ k).
    assert (Etext : Q0 ++ Q1 ++ closes_str (a :: cs) ++ k = Q0 ++ Q1 ++ ")"%char :: osym_str a ++ z).
    { unfold z. cbn [closes_str flat_map]. fold (closes_str cs). now rewrite <- !app_assoc. }
    rewrite Etext. cbn [close_loop].
    rewrite !fnc_from_spec by (rewrite app_length; lia). rewrite skipn_app_len. cbn [bind].
    rewrite (find_idx_inner _ fnc_next_open HQ incl_open), (find_idx_inner _ fnc_next_close HQ incl_close). cbn [find_idx].
    change (str_in [")"%char] fnc_next_close) with true. change (str_in [")"%char] fnc_next_open) with false. cbv iota.
    assert (Elt : Nat.ltb (length Q0 + (length Q1 + 0))
                          (length Q0 + (length Q1 + Datatypes.S (find_idx (osym_str a ++ z) fnc_next_open))) = true)
      by (apply Nat.ltb_lt; lia).
    rewrite Elt.
    rewrite (close_at Q0 Q1 a z st top stk HQ (closes_zok cs k Hk)) by (now rewrite Rba, Es). cbn [bind].
    (* the machine's step *)
    cbn [closes_toks flat_map]. fold (closes_toks cs). cbn [app m_run m_step]. rewrite Es. cbn [bind].
    assert (Ea : forall ts0 st0, m_run fo (osym_tok a ++ ts0) st0
               = m_run fo ts0 {| m_g := m_g st0; m_next := m_next st0; m_prev := m_prev st0;
                                 m_pend := (match a with Some s => sym_ord s | None => m_pend st0 end);
                                 m_stack := m_stack st0; m_rings := m_rings st0 |}).
    { intros ts0 st0. destruct a; [reflexivity|]. now destruct st0. }
    rewrite Ea. cbn [m_g m_next m_prev m_pend m_stack m_rings].
    set (x' := {| m_g := m_g x; m_next := m_next x; m_prev := top; m_pend := match a with Some s => sym_ord s | None => 1 end;
                  m_stack := stk; m_rings := m_rings x |}).
    set (st' := closed_state st top stk a).
    assert (Hcs' : closes_ok cs = true /\ (cs <> [] -> a = None)).
    { cbn [closes_ok] in Hcs. destruct cs as [|b r]; [split; [reflexivity|intros C; now elim C]|].
      apply andb_prop in Hcs as [Ha Hr]. split; [exact Hr|]. intros _. now destruct a. }
    destruct Hcs' as [Hcs1 Hcs2].
    assert (Hpb' : s_pbo st' = Some (m_pend x')).
    { unfold st', x', closed_state. cbn [s_pbo m_pend]. destruct a as [s|]; [reflexivity|].
      rewrite Hpb. f_equal. apply Hp1. discriminate. }
    assert (HR' : Rel st' x').
    { unfold Rel, st', x', closed_state. cbn [s_g s_current s_prev_node s_cycle s_branch_anchor s_branching s_pbo s_attributes
                                                 m_g m_next m_prev m_rings m_stack m_pend].
      repeat split; try assumption; try reflexivity. apply rev_branching. }
    assert (Etext2 : Q0 ++ Q1 ++ ")"%char :: osym_str a ++ z = (Q0 ++ Q1 ++ [")"%char]) ++ osym_str a ++ closes_str cs ++ k).
    { unfold z. rewrite <- !app_assoc. cbn [app]. reflexivity. }
    assert (Elen : Datatypes.S (length Q0 + length Q1) = length (Q0 ++ Q1 ++ [")"%char])).
    { rewrite !app_length. cbn [length]. lia. }
    rewrite Etext2, Elen.
    destruct (IH f (Q0 ++ Q1 ++ [")"%char]) (osym_str a) k st' x' (inner_osym a) Hk Hcs1 HR' Hat Hpb')
      as (x1 & st1 & Em & El & HR1 & Eg & Er & En & Estk & Hnil & Hrec & Hkeep).
    + intros Hne. unfold x'. cbn [m_pend]. now rewrite (Hcs2 Hne).
    + unfold x'. cbn [m_stack]. lia.
    + lia.
    + exists x1, st1. split; [exact Em|]. split; [exact El|]. split; [exact HR1|].
      split; [exact Eg|]. split; [exact Er|]. split; [exact En|]. split; [exact Estk|].
      split; [discriminate|]. split.
      * intros _ E1.
        destruct cs as [|b r].
        -- rewrite (Hnil eq_refl). unfold st', closed_state. cbn [s_recipes].
           rewrite Estk in E1. cbn [length skipn] in E1. unfold x' in E1. cbn [m_stack] in E1. now rewrite E1.
        -- apply Hrec; [discriminate|exact E1].
      * intros E1. rewrite (Hkeep E1). unfold st', closed_state. cbn [s_recipes].
        destruct (rev stk) as [|z0 t0] eqn:Ers; [|reflexivity].
        exfalso. apply E1. rewrite Estk. unfold x'. cbn [m_stack].
        assert (stk = []) by (rewrite <- (rev_involutive stk), Ers; reflexivity). subst stk. now destruct (length cs).
Qed.

(** ** flat items with several closings *)
Definition xlin_str (x : xlin) : pystr := lin_str (xbase x) ++ closes_str (x_closes x).
Definition xlin_toks (x : xlin) : list tok := lin_toks (xbase x) ++ closes_toks (x_closes x).
Definition xlins_str (l : list xlin) : pystr := flat_map xlin_str l.
Definition xlins_toks (l : list xlin) : list tok := flat_map xlin_toks l.
(** parentheses balance: no closing without an open branch *)
Fixpoint xdepth (d : nat) (l : list xlin) : bool :=
  match l with
  | [] => true
  | x :: t =>
      let d1 := if x_open x then Datatypes.S d else d in
      (length (x_closes x) <=? d1)%nat && xdepth (d1 - length (x_closes x)) t
  end.
Definition xlins_ok (fo : float_oracle) (l : list xlin) : bool :=
  forallb (xlin_ok fo) l && xdepth O l && match l with x :: _ => negb (x_open x) | [] => true end.
Definition denote_x (fo : float_oracle) (l : list xlin) : res graph := m_finish (m_run fo (xlins_toks l) m_init).

Definition x_effect (fo : float_oracle) (x : xlin) (m : mstate) : res mstate :=
  m1 <- item_effect fo (xbase x) m ;; m_run fo (closes_toks (x_closes x)) m1.
Lemma m_xitem fo x ts m : lin_ok fo (xbase x) = true ->
  m_run fo (xlin_toks x ++ ts) m = (m1 <- x_effect fo x m ;; m_run fo ts m1).
Proof.
  intros Hok. unfold xlin_toks, x_effect. rewrite <- app_assoc, (m_item fo (xbase x) _ m Hok).
  destruct (item_effect fo (xbase x) m) as [m1|]; cbn [bind]; [|reflexivity]. apply m_run_app.
Qed.
Lemma xlin_ok_parts fo x : xlin_ok fo x = true ->
  lin_ok fo (xbase x) = true /\ (x_closes x <> [] -> x_bond x = None) /\ closes_ok (x_closes x) = true.
Proof.
  unfold xlin_ok. intros H. apply andb_prop in H as [H H3]. apply andb_prop in H as [H1 H2]. repeat split; try assumption.
  intros Hne. destruct (x_closes x); [contradiction|]. cbn in H2. now destruct (x_bond x).
Qed.
Lemma closes_inner_skip cs : Forall skipch (closes_str cs).
Proof.
  induction cs as [|a r IH]; [constructor|]. cbn [closes_str flat_map]. constructor; [split; discriminate|].
  apply Forall_app; split; [|exact IH]. eapply Forall_impl; [|apply inner_osym]. apply inner_skipch.
Qed.
Lemma closes_str_length cs : (length cs <= length (closes_str cs))%nat.
Proof.
  induction cs as [|a r IH]; [cbn; lia|].
  change (closes_str (a :: r)) with ((")"%char :: osym_str a) ++ closes_str r). rewrite app_length. cbn [length]. lia.
Qed.

(** one iteration of the reader's loop on an item with its closings *)
Lemma node_step_x fo x k st m pc :
  xlin_ok fo x = true -> contz k -> (x_closes x = [] -> cont k) -> Rel st m ->
  (Ascii.eqb pc "("%char = x_open x) -> (x_open x = true -> exists p, m_prev m = Some p /\ has_node (m_g m) p = true) ->
  (length (x_closes x) <= length (if x_open x then m_prev m :: m_stack m else m_stack m))%nat ->
  match x_effect fo x m with
  | Ok m1 => exists st1, node_step fo st pc (x_name x) (lin_tail_str (xbase x) ++ closes_str (x_closes x) ++ k) = Ok st1
                         /\ Rel st1 m1
                         /\ (m_stack m1 = [] -> (m_stack m = [] -> s_recipes st = []) -> s_recipes st1 = [])
  | Err e => node_step fo st pc (x_name x) (lin_tail_str (xbase x) ++ closes_str (x_closes x) ++ k) = Err e
  end.
Proof.
  intros Hok Hk Hk0 HR Hpc Hop Hlen. destruct (xlin_ok_parts fo x Hok) as (Hokb & Hbond & Hcs).
  rewrite node_step_parts. unfold x_effect.
  assert (Hstop : stopk (closes_str (x_closes x) ++ k)).
  { destruct (x_closes x) as [|a r] eqn:Ec; cbn [closes_str flat_map app].
    - apply cont_stopper. now apply Hk0.
    - apply close_stopper. }
  pose proof (node_part_lin0 fo (xbase x) (closes_str (x_closes x) ++ k) st m pc Hokb eq_refl Hstop HR Hpc Hop) as Hpart.
  change (l_name (xbase x)) with (x_name x) in Hpart.
  destruct (item_effect fo (xbase x) m) as [m1|e] eqn:Eeff; cbn [bind]; [|now rewrite Hpart].
  destruct Hpart as (st1 & -> & HR1 & Hat1 & Hpb1 & Hrc1). cbn [bind].
  (* the machine state behind the node *)
  assert (Hm1 : m_stack m1 = (if x_open x then m_prev m :: m_stack m else m_stack m) /\ m_pend m1 = oord (x_bond x)).
  { unfold item_effect in Eeff. cbn [xbase l_name l_open l_mult l_rings l_bond l_close] in Eeff.
    destruct (parse_graph_base_node fo (x_name x)) as [a|]; [|discriminate]. cbn [bind] in Eeff.
    destruct (m_copies _ a (m_g m) (m_next m) (m_prev m) (m_pend m)) as [[g2 nx] pv].
    destruct (add_cycle_edges g2 _) as [g3|]; [|discriminate]. cbn [bind] in Eeff. injection Eeff as <-. split; reflexivity. }
  destruct Hm1 as [Es1 Ep1].
  unfold close_all.
  assert (Etext : lin_tail_str (xbase x) ++ closes_str (x_closes x) ++ k = [] ++ lin_prefix (xbase x) ++ closes_str (x_closes x) ++ k).
  { rewrite lin_tail_split. cbn [xbase l_close close_str app]. reflexivity. }
  rewrite Etext.
  destruct (closes_sim fo (x_closes x) (Datatypes.S (length ([] ++ lin_prefix (xbase x) ++ closes_str (x_closes x) ++ k)))
              [] (lin_prefix (xbase x)) k st1 m1 (lin_prefix_inner fo (xbase x) Hokb) Hk Hcs HR1 Hat1)
    as (m2 & st2 & Em & El & HR2 & _ & _ & _ & Estk & Hnil & Hrec & _).
  - rewrite Hpb1, Ep1. reflexivity.
  - intros Hne. rewrite Ep1, (Hbond Hne). reflexivity.
  - now rewrite Es1.
  - cbn [app]. rewrite !app_length. pose proof (closes_str_length (x_closes x)). lia.
  - rewrite Em. exists st2. split; [exact El|]. split; [exact HR2|].
    intros E2 H0. destruct (x_closes x) as [|a r] eqn:Ec.
    + rewrite (Hnil eq_refl). apply Hrc1; [|exact H0]. rewrite Estk in E2. exact E2.
    + apply Hrec; [discriminate|exact E2].
Qed.

(** ** invariants of the machine through the closings *)
Lemma all_some_skipn n : forall l, all_some l -> all_some (skipn n l).
Proof. induction n as [|n IH]; intros l H; [exact H|]. destruct l; [exact H|]. inversion H; subst. now apply IH. Qed.
Lemma pops_inv fo : forall cs m m1, m_run fo (closes_toks cs) m = Ok m1 -> all_some (m_stack m) -> m_prev m <> None ->
  m_prev m1 <> None /\ m_stack m1 = skipn (length cs) (m_stack m) /\ (length cs <= length (m_stack m))%nat.
Proof.
  induction cs as [|a r IH]; intros m m1 E Hs Hp.
  - cbn in E. injection E as <-. split; [exact Hp|]. split; [reflexivity|cbn; lia].
  - cbn [closes_toks flat_map] in E. fold (closes_toks r) in E. cbn [app m_run m_step] in E.
    destruct (m_stack m) as [|top stk] eqn:Es; [discriminate|]. cbn [bind] in E. inversion Hs; subst.
    assert (Ea : forall ts0 st0, m_run fo (osym_tok a ++ ts0) st0
               = m_run fo ts0 {| m_g := m_g st0; m_next := m_next st0; m_prev := m_prev st0;
                                 m_pend := (match a with Some s => sym_ord s | None => m_pend st0 end);
                                 m_stack := m_stack st0; m_rings := m_rings st0 |}).
    { intros ts0 st0. destruct a; [reflexivity|]. now destruct st0. }
    rewrite Ea in E. cbn [m_g m_next m_prev m_pend m_stack m_rings] in E.
    destruct (IH _ _ E) as (P1 & P2 & P3); cbn [m_stack m_prev]; try assumption.
    cbn [m_stack] in P2, P3. split; [exact P1|]. split; [exact P2|]. cbn [length]. lia.
Qed.

(** ** the loop over a text of items with closings; [br]: the text stands in braces *)
Definition tail_of (br : bool) : pystr := if br then ["}"%char] else [].
Lemma cont_xlins x t br : cont (xlins_str (x :: t) ++ tail_of br).
Proof.
  cbn [xlins_str flat_map]. unfold xlin_str, lin_str. cbn [xbase l_open].
  destruct (x_open x); cbn [app]; rewrite <- ?app_assoc; cbn [app]; constructor.
Qed.
Lemma xlin_tail_skipch fo x : xlin_ok fo x = true -> Forall skipch (lin_tail_str (xbase x) ++ closes_str (x_closes x)).
Proof.
  intros Hok. destruct (xlin_ok_parts fo x Hok) as (Hb & _).
  apply Forall_app; split; [now apply (lin_tail_skipch fo)|apply closes_inner_skip].
Qed.
Theorem sim_loop_x fo br : forall l st m pre pc fuel,
  l <> [] -> forallb (xlin_ok fo) l = true -> xdepth (length (m_stack m)) l = true ->
  Rel st m -> all_some (m_stack m) -> mwf m ->
  (m_prev m = None -> match l with x :: _ => x_open x = false | [] => True end) ->
  Forall skipch pre -> pc <> "("%char -> (length l < fuel)%nat ->
  match m_run fo (xlins_toks l) m with
  | Ok m1 => exists st1, main_loop fuel fo pc (pre ++ xlins_str l ++ tail_of br) st = Ok st1
                         /\ s_g st1 = m_g m1 /\ s_cycle st1 = m_rings m1
  | Err e => main_loop fuel fo pc (pre ++ xlins_str l ++ tail_of br) st = Err e
  end.
Proof.
  induction l as [|x t IH]; intros st m pre pc fuel Hne Hok Hd HR Hs Hw Hfirst Hpre Hpc Hfuel; [contradiction|].
  cbn [forallb] in Hok. apply andb_prop in Hok as [Hokx Hokt].
  destruct (xlin_ok_parts fo x Hokx) as (Hokb & Hbond & Hcs).
  destruct fuel as [|f]; [cbn in Hfuel; lia|]. cbn [length] in Hfuel.
  cbn [xlins_toks flat_map]. fold (xlins_toks t). rewrite (m_xitem fo x (xlins_toks t) m Hokb).
  cbn [xlins_str flat_map]. fold (xlins_str t).
  destruct (lin_ok_parts fo (xbase x) Hokb) as (Hn & _). change (l_name (xbase x)) with (x_name x) in Hn.
  set (opn := if x_open x then ["("%char] else []).
  set (k := xlins_str t ++ tail_of br).
  assert (Etext : pre ++ (xlin_str x ++ xlins_str t) ++ tail_of br
                = (pre ++ opn) ++ "["%char :: "#"%char :: x_name x ++ "]"%char
                                  :: (lin_tail_str (xbase x) ++ closes_str (x_closes x) ++ k)).
  { unfold xlin_str, lin_str, opn, k. cbn [xbase l_open l_name]. rewrite <- !app_assoc. cbn [app]. rewrite <- !app_assoc. reflexivity. }
  rewrite Etext. cbn [main_loop].
  assert (Hopn : Forall nob (pre ++ opn)).
  { apply Forall_app; split; [now apply skipch_nob|]. unfold opn. destruct (x_open x); repeat constructor. discriminate. }
  rewrite next_node_skip by assumption. rewrite next_node_here by (now apply (name_chars fo)).
  assert (Hpc' : Ascii.eqb (last (pre ++ opn) pc) "("%char = x_open x).
  { unfold opn. destruct (x_open x).
    - rewrite last_last. reflexivity.
    - rewrite app_nil_r. apply Ascii.eqb_neq. now apply last_skipch. }
  assert (Hop : x_open x = true -> m_prev m <> None).
  { intros Ho Hn0. specialize (Hfirst Hn0). cbn in Hfirst. congruence. }
  assert (Hop2 : x_open x = true -> exists p, m_prev m = Some p /\ has_node (m_g m) p = true).
  { intros Ho. specialize (Hop Ho). destruct (m_prev m) as [p|] eqn:Ep; [|contradiction]. exists p. split; [reflexivity|].
    apply (w_prev m Hw). exact Ep. }
  cbn [xdepth] in Hd. apply andb_prop in Hd as [Hd1 Hd2]. apply Nat.leb_le in Hd1.
  assert (Hlen : (length (x_closes x) <= length (if x_open x then m_prev m :: m_stack m else m_stack m))%nat).
  { destruct (x_open x); cbn [length]; exact Hd1. }
  (* the machine's invariants behind the item *)
  assert (Hinv : forall m1, x_effect fo x m = Ok m1 ->
            mwf m1 /\ all_some (m_stack m1) /\ m_prev m1 <> None
            /\ length (m_stack m1)
               = ((if x_open x then Datatypes.S (length (m_stack m)) else length (m_stack m)) - length (x_closes x))%nat).
  { intros m1 E. assert (Erun : m_run fo (xlin_toks x) m = Ok m1).
    { rewrite <- (app_nil_r (xlin_toks x)), (m_xitem fo x [] m Hokb), E. reflexivity. }
    split; [apply (m_run_mwf fo _ m m1 Erun Hw)|].
    unfold x_effect in E. destruct (item_effect fo (xbase x) m) as [m0|] eqn:E0; cbn [bind] in E; [|discriminate].
    destruct (item_effect_inv fo (xbase x) m m0 Hokb E0 Hs Hop) as (Hs0 & Hp0 & Hd0). cbn [xbase l_open l_close] in Hd0.
    destruct (pops_inv fo _ m0 m1 E Hs0 Hp0) as (P1 & P2 & P3).
    split; [rewrite P2; now apply all_some_skipn|]. split; [exact P1|].
    rewrite P2, skipn_length, <- Hd0. reflexivity. }
  destruct t as [|y t'].
  - (* the last item *)
    unfold k. cbn [xlins_str flat_map app xlins_toks m_run].
    assert (Hend : forall st1 f0, main_loop (Datatypes.S f0) fo "]"%char
                     (lin_tail_str (xbase x) ++ closes_str (x_closes x) ++ tail_of br) st1 = Ok st1).
    { intros st1 f0. cbn [main_loop].
      assert (Hnob : Forall nob ((lin_tail_str (xbase x) ++ closes_str (x_closes x)) ++ tail_of br)).
      { apply Forall_app; split; [apply skipch_nob; now apply (xlin_tail_skipch fo)|]. destruct br; repeat constructor. discriminate. }
      rewrite app_assoc. rewrite <- (app_nil_r ((lin_tail_str (xbase x) ++ closes_str (x_closes x)) ++ tail_of br)).
      rewrite next_node_skip by assumption. now rewrite next_node_nil. }
    destruct f as [|f']; [lia|].
    destruct (x_closes x) as [|a cs] eqn:Ec.
    + destruct br.
      * pose proof (node_step_x fo x ["}"%char] st m _ Hokx (or_intror cont_end) (fun _ => cont_end) HR Hpc' Hop2 ltac:(rewrite Ec; exact Hlen)) as Hstep.
        rewrite Ec in Hstep. cbn [closes_str flat_map app tail_of] in *.
        destruct (x_effect fo x m) as [m1|e]; cbn [bind]; [|now rewrite Hstep].
        destruct Hstep as (st1 & -> & (Rg & _ & _ & Rcy & _) & _). cbn [bind]. exists st1.
        split; [|split; assumption]. specialize (Hend st1 f'). cbn [closes_str flat_map app tail_of] in Hend. exact Hend.
      * cbn [closes_str flat_map app tail_of] in *. rewrite app_nil_r.
        assert (Hst : l_close (xbase x) <> None -> (if l_open (xbase x) then m_prev m :: m_stack m else m_stack m) <> [])
          by (intros C; now elim C).
        pose proof (node_step_last fo (xbase x) st m _ Hokb HR Hpc' Hop2 Hst) as Hstep. change (l_name (xbase x)) with (x_name x) in Hstep.
        unfold x_effect. rewrite Ec. cbn [closes_toks flat_map].
        destruct (item_effect fo (xbase x) m) as [m1|e]; cbn [bind m_run]; [|now rewrite Hstep].
        destruct Hstep as (st1 & -> & G & C). cbn [bind]. exists st1. split; [|split; assumption].
        specialize (Hend st1 f'). rewrite !app_nil_r in Hend. exact Hend.
    + assert (Hk : contz (tail_of br)) by (destruct br; [right; constructor|now left]).
      pose proof (node_step_x fo x (tail_of br) st m (last (pre ++ opn) pc) Hokx Hk) as Hstep. rewrite Ec in Hstep.
      specialize (Hstep ltac:(discriminate) HR Hpc' Hop2 Hlen).
      destruct (x_effect fo x m) as [m1|e]; cbn [bind]; [|now rewrite Hstep].
      destruct Hstep as (st1 & -> & (Rg & _ & _ & Rcy & _) & _). cbn [bind]. exists st1.
      split; [|split; assumption]. apply Hend.
  - (* an item in front of further items *)
    assert (Hk : cont k) by (unfold k; apply cont_xlins).
    pose proof (node_step_x fo x k st m _ Hokx (or_intror Hk) (fun _ => Hk) HR Hpc' Hop2 Hlen) as Hstep.
    destruct (x_effect fo x m) as [m1|e] eqn:Eeff; cbn [bind]; [|now rewrite Hstep].
    destruct Hstep as (st1 & -> & HR1 & _). cbn [bind].
    destruct (Hinv m1 eq_refl) as (Hw1 & Hs1 & Hp1 & Hl1).
    rewrite app_assoc. unfold k.
    apply (IH st1 m1 (lin_tail_str (xbase x) ++ closes_str (x_closes x)) "]"%char f); try assumption.
    + discriminate.
    + rewrite Hl1. exact Hd2.
    + intros Hn0. contradiction.
    + now apply (xlin_tail_skipch fo).
    + discriminate.
    + cbn [length] in *. lia.
Qed.

Lemma xlins_str_length l : (length l <= length (xlins_str l))%nat.
Proof.
  induction l as [|x t IH]; [cbn; lia|]. cbn [xlins_str flat_map length]. rewrite app_length.
  fold (xlins_str t). unfold xlin_str, lin_str. rewrite !app_length. cbn [length]. lia.
Qed.
Lemma last_xlins_str fo l d : forallb (xlin_ok fo) l = true -> l <> [] -> last (xlins_str l) d <> "("%char.
Proof.
  intros Hok Hne. destruct (exists_last Hne) as (l' & z & ->).
  rewrite forallb_app in Hok. apply andb_prop in Hok as [_ Hz]. cbn [forallb] in Hz. apply andb_prop in Hz as [Hz _].
  unfold xlins_str. rewrite flat_map_app. cbn [flat_map]. rewrite app_nil_r.
  assert (E : xlin_str z = ((if x_open z then ["("%char] else []) ++ "["%char :: "#"%char :: x_name z)
                           ++ "]"%char :: (lin_tail_str (xbase z) ++ closes_str (x_closes z))).
  { unfold xlin_str, lin_str. cbn [xbase l_open l_name]. rewrite <- !app_assoc. cbn [app]. rewrite <- !app_assoc. reflexivity. }
  rewrite E, app_assoc. rewrite last_app_ne by discriminate.
  rewrite last_cons_default. apply last_skipch; [now apply (xlin_tail_skipch fo)|discriminate].
Qed.

(** ** the simulation theorems: texts with and without braces *)
Theorem reader_sim_x_gen fo (br : bool) l : xlins_ok fo l = true -> l <> [] ->
  read_cgsmiles fo ((if br then ["{"%char] else @nil ascii) ++ xlins_str l ++ tail_of br) = denote_x fo l.
Proof.
  unfold xlins_ok. intros H Hne. apply andb_prop in H as [H Hfirst]. apply andb_prop in H as [Hok Hd].
  unfold read_cgsmiles, denote_x, m_finish.
  assert (HR : Rel init_state m_init) by (unfold Rel; cbn; repeat split; discriminate).
  set (text := (if br then ["{"%char] else @nil ascii) ++ xlins_str l ++ tail_of br).
  assert (Hpc : last text " "%char <> "("%char).
  { unfold text. destruct br; cbn [tail_of app].
    - change ("{"%char :: xlins_str l ++ ["}"%char]) with (("{"%char :: xlins_str l) ++ ["}"%char]). rewrite last_last. discriminate.
    - rewrite app_nil_r. now apply (last_xlins_str fo). }
  pose proof (sim_loop_x fo br l init_state m_init (if br then ["{"%char] else @nil ascii) (last text " "%char) (Datatypes.S (length text))
                Hne Hok Hd HR (Forall_nil _) mwf_init) as Hsim.
  assert (H1 : m_prev m_init = None -> match l with x :: _ => x_open x = false | [] => True end).
  { intros _. destruct l as [|x t]; [exact I|]. now destruct (x_open x). }
  assert (H2 : Forall skipch (if br then ["{"%char] else @nil ascii)) by (destruct br; repeat constructor; discriminate).
  assert (H4 : (length l < Datatypes.S (length text))%nat).
  { unfold text. rewrite !app_length. pose proof (xlins_str_length l). lia. }
  specialize (Hsim H1 H2 Hpc H4). fold text in Hsim.
  destruct (m_run fo (xlins_toks l) m_init) as [m1|e].
  - destruct Hsim as (st1 & -> & G & C). cbn [bind]. rewrite C, G. reflexivity.
  - rewrite Hsim. reflexivity.
Qed.
Theorem reader_sim_x fo l : xlins_ok fo l = true -> l <> [] ->
  read_cgsmiles fo ("{"%char :: xlins_str l ++ ["}"%char]) = denote_x fo l.
Proof. exact (reader_sim_x_gen fo true l). Qed.
Theorem reader_sim_x_nobrace fo l : xlins_ok fo l = true -> l <> [] ->
  read_cgsmiles fo (xlins_str l) = denote_x fo l.
Proof. intros H Hne. pose proof (reader_sim_x_gen fo false l H Hne) as E. cbn [app tail_of] in E. now rewrite app_nil_r in E. Qed.
Print Assumptions reader_sim_x_gen.
