(** ReaderGLong: the longhand of a text with multiplied branches at any depth as a flat string, and
    C05 for branch multipliers in that generality: the reader model reads shorthand and longhand as
    the SAME graph, same numbering. *)
From Coq Require Import String.
From Coq Require Import List Ascii ZArith Bool Lia.
From CGV Require Import Base.PyBase Base.PyVal Base.NxGraph Dialect.DialectImpl
     Reader.ReaderImpl Reader.Grammar Reader.ReaderLemmas Reader.Lin Reader.ReaderSim Reader.ReaderMult
     Reader.ReaderAst Reader.ReaderWf Reader.ReaderUnit Reader.ReaderUnitLong Reader.ReaderTrack Reader.ReaderGSegs.
Import ListNotations.

(** the written-out form of a multiplied branch: the branch itself, then [count - 1] times the
    anchor (one copy, with the bond order that reached the first node) and the branch again *)
Definition gunit_long (u : unit_t) : list lin :=
  match digits_nat (u_count u) with
  | O | Datatypes.S O => body_lins true (u_after u) (u_body u)
  | Datatypes.S (Datatypes.S k) =>
      body_lins true (u_ms u) (u_body u) ++ concat (repeat (copy_lins u None (u_ms u)) k) ++ copy_lins u None (u_after u)
  end.
Definition gseg_long (s : gseg) : list lin := match s with GPlain i => [i] | GUnit u => gunit_long u end.
Definition gsegs_long (l : list gseg) : list lin := flat_map gseg_long l.

Lemma gunit_long_toks u : u_body u <> [] -> last_bond_none (u_body u) -> (1 <= digits_nat (u_count u))%nat ->
  lins_toks (gunit_long u) = gunit_toks u.
Proof.
  intros Hne Hl HN. unfold gunit_long, gunit_toks, rest_toks. destruct (digits_nat (u_count u)) as [|[|k]] eqn:EN; [lia| |].
  - rewrite body_lins_toks by assumption. cbn [Nat.sub repeat concat app]. reflexivity.
  - rewrite !lins_toks_app, lins_toks_concat, body_lins_toks, !copy_lins_core by assumption.
    replace (Datatypes.S (Datatypes.S k) - 1)%nat with (Datatypes.S k) by lia.
    cbn [app]. f_equal. rewrite <- app_assoc. f_equal.
    cbn [app]. f_equal.
    rewrite (interleave (osym_tok (u_ms u)) (copy_core u None) (osym_tok (u_after u))).
    unfold copy_toks, copy_core. change (mult_val None) with 1%nat. reflexivity.
Qed.

Lemma anchor_lin_ok fo u : name_ok fo (u_name u) = true ->
  lin_ok fo {| l_open := false; l_name := u_name u; l_mult := None; l_rings := []; l_bond := u_bond u; l_close := None |} = true.
Proof. intros Hn. unfold lin_ok. cbn [l_name l_rings l_mult l_bond l_close forallb is_nil]. rewrite Hn. reflexivity. Qed.
Lemma gcopy_lins_ok fo u cl : gunit_ok fo u = true ->
  forallb (lin_ok fo) (copy_lins u None cl) = true /\ balanced (copy_lins u None cl).
Proof.
  intros Hok. destruct (gunit_ok_parts fo u Hok) as (Hn & Hne & Hbo & Hl & _). split.
  - unfold copy_lins. cbn [forallb]. now rewrite (body_lins_ok fo cl _ _ true Hbo Hl), andb_true_r, anchor_lin_ok.
  - intros d. unfold copy_lins. cbn [drun l_open l_close]. now destruct (body_lins_depth cl (u_body u) d Hne).
Qed.
Lemma gunit_long_ok fo u : gunit_ok fo u = true -> forallb (lin_ok fo) (gunit_long u) = true /\ balanced (gunit_long u).
Proof.
  intros Hok. destruct (gunit_ok_parts fo u Hok) as (Hn & Hne & Hbo & Hl & _). unfold gunit_long.
  assert (HB : forall cl, forallb (lin_ok fo) (body_lins true cl (u_body u)) = true /\ balanced (body_lins true cl (u_body u))).
  { intros cl. split; [now apply (body_lins_ok fo cl _ _ true Hbo Hl)|]. intros d. now destruct (body_lins_depth cl (u_body u) d Hne). }
  assert (HR : forall n, forallb (lin_ok fo) (concat (repeat (copy_lins u None (u_ms u)) n)) = true
                         /\ balanced (concat (repeat (copy_lins u None (u_ms u)) n))).
  { destruct (gcopy_lins_ok fo u (u_ms u) Hok) as [B1 B2].
    induction n as [|n [I1 I2]]; [split; [reflexivity|intros d; reflexivity]|]. cbn [repeat concat]. split.
    - now rewrite forallb_app, B1, I1.
    - now apply balanced_app. }
  destruct (digits_nat (u_count u)) as [|[|k]]; [apply HB|apply HB|].
  destruct (HB (u_ms u)) as [A1 A2]. destruct (HR k) as [R1 R2]. destruct (gcopy_lins_ok fo u (u_after u) Hok) as [C1 C2]. split.
  - now rewrite !forallb_app, A1, R1, C1.
  - apply balanced_app; [assumption|]. now apply balanced_app.
Qed.

Lemma gsegs_long_toks fo l : forallb (gseg_ok fo) l = true -> lins_toks (gsegs_long l) = gsegs_toks l.
Proof.
  induction l as [|s t IH]; intros H; [reflexivity|]. cbn [forallb] in H. apply andb_prop in H as [Hs Ht].
  unfold gsegs_long, gsegs_toks. cbn [flat_map]. rewrite lins_toks_app. fold (gsegs_long t). fold (gsegs_toks t). rewrite (IH Ht). f_equal.
  destruct s as [i|u]; cbn [gseg_long gseg_toks].
  - cbn [lins_toks flat_map]. now rewrite app_nil_r.
  - destruct (gunit_ok_parts fo u Hs) as (_ & Hne & _ & Hl & _ & HN). now apply gunit_long_toks.
Qed.
Lemma gsegs_long_all fo l : forallb (gseg_ok fo) l = true -> forallb (lin_ok fo) (gsegs_long l) = true.
Proof.
  induction l as [|s t IH]; intros Hok; [reflexivity|]. cbn [forallb] in Hok. apply andb_prop in Hok as [Hs Ht].
  unfold gsegs_long. cbn [flat_map]. rewrite forallb_app. fold (gsegs_long t). rewrite (IH Ht), andb_true_r.
  destruct s as [i|u]; cbn [gseg_long gseg_ok] in *; [cbn; now rewrite Hs|now destruct (gunit_long_ok fo u Hs)].
Qed.
Lemma gsegs_long_depth fo : forall l md s, forallb (gseg_ok fo) l = true -> gtrack md s l = true ->
  lin_depth (length (t_names s)) (gsegs_long l) = true.
Proof.
  induction l as [|[i|u] t IH]; intros md s Hok Htr; [reflexivity| |]; cbn [forallb] in Hok; apply andb_prop in Hok as [Hs Ht].
  - unfold gsegs_long. cbn [flat_map gseg_long app]. fold (gsegs_long t). cbn [lin_depth gtrack] in *.
    destruct (item_track i s) as [s1|] eqn:Eit; [|discriminate]. specialize (IH _ s1 Ht Htr).
    unfold item_track in Eit.
    destruct (l_open i).
    + destruct (t_flag s); [discriminate|]. destruct (t_cur s) as [c|]; [|discriminate].
      destruct (l_close i); injection Eit as <-; exact IH.
    + destruct (l_close i).
      * destruct (t_names s) as [|c r]; [discriminate|]. injection Eit as <-. exact IH.
      * injection Eit as <-. exact IH.
  - cbn [gtrack] in Htr. apply andb_prop in Htr as [_ Htrt].
    unfold gsegs_long. cbn [flat_map gseg_long]. fold (gsegs_long t). rewrite lin_depth_drun, drun_app.
    destruct (gunit_long_ok fo u Hs) as [_ Hb]. rewrite (Hb (length (t_names s))). rewrite <- lin_depth_drun.
    apply (IH _ _ Ht Htrt).
Qed.
Lemma gsegs_long_ok fo l : gsegs_ok fo l = true -> lins_ok fo (gsegs_long l) = true.
Proof.
  unfold gsegs_ok, lins_ok. intros H. apply andb_prop in H as [Hok Htr].
  rewrite (gsegs_long_all fo l Hok). pose proof (gsegs_long_depth fo l Clean t_init Hok Htr) as Hd. cbn [t_init t_names length] in Hd.
  rewrite Hd. cbn [andb]. destruct l as [|[i|u] t]; [reflexivity| |].
  - unfold gsegs_long. cbn [flat_map gseg_long app]. cbn [gtrack] in Htr. unfold item_track in Htr.
    destruct (l_open i); [cbn in Htr; discriminate|reflexivity].
  - cbn in Htr. discriminate.
Qed.

(** ** C05 for branch multipliers at any depth: the SAME graph, the SAME numbering *)
Definition gsegs_text (l : list gseg) : pystr := "{"%char :: gsegs_str l ++ ["}"%char].
Theorem reader_gunits_shorthand fo l : gsegs_ok fo l = true ->
  read_cgsmiles fo (gsegs_text l) = read_cgsmiles fo (base_text (gsegs_long l)).
Proof.
  intros H. unfold gsegs_text, base_text. rewrite reader_sim_gsegs by assumption.
  rewrite reader_sim_lin by (now apply gsegs_long_ok). unfold denote_gsegs, denote_lin.
  rewrite (gsegs_long_toks fo) by (unfold gsegs_ok in H; now apply andb_prop in H as [H _]).
  reflexivity.
Qed.
Corollary reader_gunits_fully_expanded fo l : gsegs_ok fo l = true ->
  read_cgsmiles fo (gsegs_text l) = read_cgsmiles fo (base_text (expand_lin (gsegs_long l))).
Proof.
  intros H. rewrite reader_gunits_shorthand by assumption. apply reader_nodes_shorthand. now apply gsegs_long_ok.
Qed.
Print Assumptions reader_gunits_fully_expanded.
