(** GraphLemmas: which nodes a graph has after add_node / add_edge, and their attribute dicts
    (facts about Base/NxGraph.v needed by the reader proofs). *)
From Coq Require Import String.
From Coq Require Import List Ascii ZArith Bool Lia.
From CGV Require Import Base.PyBase Base.PyVal Base.NxGraph.
Import ListNotations.
Open Scope Z_scope.

Definition keeps_key (f : nrec -> nrec) : Prop := forall n, nk (f n) = nk n.
Lemma gfind_app g n k : gfind k (g ++ [n]) = match gfind k g with Some x => Some x | None => if Z.eqb (nk n) k then Some n else None end.
Proof. induction g as [|m r IH]; cbn; [reflexivity|]. destruct (Z.eqb (nk m) k); [reflexivity|exact IH]. Qed.
Lemma has_node_app g n k : has_node (g ++ [n]) k = has_node g k || Z.eqb (nk n) k.
Proof. unfold has_node. rewrite gfind_app. destruct (gfind k g); [reflexivity|]. now destruct (Z.eqb (nk n) k). Qed.
Lemma gfind_gupdate f g k k' : keeps_key f ->
  gfind k' (gupdate k f g) = match gfind k' g with Some n => Some (if Z.eqb (nk n) k then f n else n) | None => None end.
Proof.
  intros Hf. induction g as [|m r IH]; cbn; [reflexivity|].
  destruct (Z.eqb (nk m) k) eqn:E; cbn.
  - rewrite Hf. destruct (Z.eqb (nk m) k') eqn:E2; [now rewrite E|].
    (* the rest of the list is not touched, and no later node has key k' = ... *)
    clear IH. induction r as [|m2 r2 IH2]; cbn; [reflexivity|]. destruct (Z.eqb (nk m2) k') eqn:E4; [|exact IH2].
    destruct (Z.eqb (nk m2) k) eqn:E3; [|reflexivity].
    apply Z.eqb_eq in E, E3, E4. apply Z.eqb_neq in E2. congruence.
  - destruct (Z.eqb (nk m) k'); [now rewrite E|exact IH].
Qed.
Lemma has_node_gupdate f g k k' : keeps_key f -> has_node (gupdate k f g) k' = has_node g k'.
Proof. intros Hf. unfold has_node. rewrite gfind_gupdate by assumption. now destruct (gfind k' g). Qed.

Lemma has_node_add_node g k a k' : has_node (add_node g k a) k' = has_node g k' || Z.eqb k k'.
Proof.
  unfold add_node. destruct (has_node g k) eqn:E.
  - rewrite has_node_gupdate by (intros n; reflexivity). destruct (Z.eqb_spec k k') as [->|]; [now rewrite E|now rewrite orb_false_r].
  - now rewrite has_node_app.
Qed.
Lemma has_node_add_edge g u v a k : has_node (add_edge g u v a) k = has_node g k || Z.eqb u k || Z.eqb v k.
Proof.
  unfold add_edge. rewrite !has_node_gupdate by (intros n; reflexivity).
  destruct (has_node g u) eqn:Eu.
  - destruct (has_node g v) eqn:Ev.
    + destruct (Z.eqb_spec u k) as [->|]; [now rewrite Eu|]. destruct (Z.eqb_spec v k) as [->|]; [now rewrite Ev|].
      now rewrite !orb_false_r.
    + rewrite has_node_app. cbn [nk]. destruct (Z.eqb_spec u k) as [->|]; [now rewrite Eu|]. now rewrite orb_false_r.
  - destruct (has_node (g ++ [{| nk := u; na := []; nadj := [] |}]) v) eqn:Ev.
    + rewrite has_node_app in Ev. cbn [nk] in Ev. rewrite has_node_app. cbn [nk].
      destruct (Z.eqb_spec v k) as [->|]; [|now rewrite orb_false_r].
      apply orb_prop in Ev as [Ev|Ev]; [now rewrite Ev|]. rewrite Ev. now rewrite !orb_true_r.
    + rewrite !has_node_app. cbn [nk]. reflexivity.
Qed.

(** attribute dicts *)
Lemma node_attrs_app_new g k a : has_node g k = false -> node_attrs (g ++ [{| nk := k; na := a; nadj := [] |}]) k = Ok a.
Proof.
  unfold node_attrs, has_node. rewrite gfind_app. destruct (gfind k g); [discriminate|]. cbn [nk]. now rewrite Z.eqb_refl.
Qed.
Lemma node_attrs_add_node_new g k a : has_node g k = false -> node_attrs (add_node g k a) k = Ok a.
Proof. intros H. unfold add_node. rewrite H. now apply node_attrs_app_new. Qed.
Lemma node_attrs_add_node_other g k a k' : k <> k' -> has_node g k' = true -> node_attrs (add_node g k a) k' = node_attrs g k'.
Proof.
  intros Hne Hk. unfold add_node, node_attrs. destruct (has_node g k).
  - rewrite gfind_gupdate by (intros n; reflexivity). unfold has_node in Hk. destruct (gfind k' g) as [n|] eqn:E; [|discriminate].
    assert (nk n = k') by (clear -E; induction g as [|m r IH]; cbn in E; [discriminate|]; destruct (Z.eqb_spec (nk m) k'); [now injection E as <-|now apply IH]).
    destruct (Z.eqb_spec (nk n) k); [congruence|reflexivity].
  - rewrite gfind_app. unfold has_node in Hk. destruct (gfind k' g); [reflexivity|discriminate].
Qed.
Lemma node_attrs_gupdate_adj g k f k' : keeps_key f -> (forall n, na (f n) = na n) ->
  node_attrs (gupdate k f g) k' = node_attrs g k'.
Proof.
  intros Hk Ha. unfold node_attrs. rewrite gfind_gupdate by assumption. destruct (gfind k' g) as [n|]; [|reflexivity].
  destruct (Z.eqb (nk n) k); [now rewrite Ha|reflexivity].
Qed.
Lemma node_attrs_add_edge g u v e k : has_node g k = true -> node_attrs (add_edge g u v e) k = node_attrs g k.
Proof.
  intros Hk. unfold add_edge. rewrite !node_attrs_gupdate_adj by (intros n; reflexivity).
  assert (Happ : forall g0 n, has_node g0 k = true -> node_attrs (g0 ++ [n]) k = node_attrs g0 k).
  { intros g0 n H. unfold node_attrs, has_node in *. rewrite gfind_app. now destruct (gfind k g0). }
  destruct (has_node g u).
  - destruct (has_node g v); [reflexivity|now apply Happ].
  - destruct (has_node (g ++ [{| nk := u; na := []; nadj := [] |}]) v) eqn:Ev.
    + now apply Happ.
    + rewrite Happ; [now apply Happ|]. rewrite has_node_app. now rewrite Hk.
Qed.
