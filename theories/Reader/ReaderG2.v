(** ReaderG2: texts made of flat items that may close several branches (Reader/ReaderX.v) and of
    multiplied branches that may be followed by closings ("...[#A]([#B])|2)").  Generalises
    Reader/ReaderGSegs.v; same method: keys of the recipe table (clean / sibling / dirty), static
    reading of the tokens, [unit_body_gen] for the multiplied branch, [closes_sim] for the closings. *)
From Coq Require Import String.
From Coq Require Import List Ascii ZArith Bool Lia.
From CGV Require Import Base.PyBase Base.PyVal Base.NxGraph Base.PyGen Gen.ReaderGen Dialect.DialectImpl
     Reader.ReaderImpl Reader.Grammar Reader.ReaderLemmas Reader.Lin Reader.GraphLemmas Reader.ReaderSim Reader.ReaderMult
     Reader.ReaderUnit Reader.ReaderLast Reader.ReaderX Reader.ReaderUnitGen Reader.ReaderTrack Reader.ReaderGSegs.
Import ListNotations.
Open Scope Z_scope.

(** ** the recipe table behind the node part *)
Lemma node_part_recipes fo st pc nm rest st1 : node_part fo st pc nm rest = Ok st1 ->
  exists br ba rc e, opened st pc = Ok (br, ba, rc) /\ s_branch_anchor st1 = ba
    /\ s_recipes st1 = (if br then match rev ba with k0 :: _ => rec_append k0 e rc | [] => rc end else rc).
Proof.
  unfold node_part. intros H.
  destruct (opened st pc) as [[[br ba] rc]|]; cbn [bind] in H; [|discriminate].
  destruct (ring_scan (s_current st) _ 0 (clean_st (s_cycle st) [])) as [[rs rdx]|]; cbn [bind] in H; [|discriminate].
  destruct (bond_expr _ rdx) as [bo|]; cbn [bind] in H; [|discriminate].
  destruct (nmon_expr _ bo) as [[n bo2]|] eqn:En; cbn [bind] in H; [|discriminate].
  destruct (parse_graph_base_node fo nm) as [a|]; cbn [bind] in H; [|discriminate].
  exists br, ba, rc, (n, a, s_pbo st). split; [reflexivity|].
  destruct br.
  - destruct (rev ba) as [|k0 r0]; cbn [bind] in H; [discriminate|].
    destruct (add_nodes _ _ _ _ _ _ _ _) as [[[[g cu] pn] pb]|]; cbn [bind] in H; [|discriminate]. injection H as <-. split; reflexivity.
  - cbn [bind] in H. destruct (add_nodes _ _ _ _ _ _ _ _) as [[[[g cu] pn] pb]|]; cbn [bind] in H; [|discriminate]. injection H as <-. split; reflexivity.
Qed.
Lemma ninv_part fo st pc nm rest st1 : node_part fo st pc nm rest = Ok st1 -> ninv st -> ninv st1.
Proof.
  intros H Hn. destruct (node_part_recipes fo st pc nm rest st1 H) as (br & ba & rc & e & Eop & _ & Erc).
  pose proof (opened_ninv st pc br ba rc Eop Hn) as Hrc. unfold ninv. rewrite Erc.
  destruct br; [|exact Hrc]. destruct (rev ba); [exact Hrc|now apply rec_append_nodup].
Qed.

Lemma minv_part fo st x pc nm rest st1 s md (op : bool) :
  Rel st x -> TI fo x s -> t_flag s = false -> minv md st -> Ascii.eqb pc "("%char = op ->
  node_part fo st pc nm rest = Ok st1 ->
  match mode_open md op with Clean => map fst (s_recipes st1) = s_branch_anchor st1 | _ => True end.
Proof.
  intros (Rg & Rc & Rp & Rcy & Rba & Rbr & Rpb) HT Hfl Hm Hpc Est.
  destruct (node_part_recipes fo st pc nm rest st1 Est) as (br & ba & rc & e & Eop & Eba & Erc). rewrite Eba, Erc.
  unfold opened in Eop. rewrite Hpc in Eop. destruct op; cbn [mode_open].
  - destruct (s_prev_node st) as [p|] eqn:Esp; [|discriminate].
    destruct (node_attrs (s_g st) p) as [a|]; cbn [bind] in Eop; [|discriminate]. injection Eop as <- <- <-.
    assert (Hnotin : ~ In (Some p) (s_branch_anchor st)).
    { rewrite Rba, <- in_rev. apply (TI_prev_fresh fo x s p HT Hfl). now rewrite <- Rp. }
    rewrite rev_app_distr. cbn [rev app].
    destruct md; cbn [minv] in Hm; [| |exact I]; try rewrite Esp in Hm.
    + assert (E1 : map fst (rec_set (Some p) [(1, a, Some 1)] (rec_del (Some p) (s_recipes st))) = s_branch_anchor st ++ [Some p])
        by (rewrite rec_del_absent by (apply rec_get_notin; rewrite Hm; exact Hnotin);
            rewrite rec_set_keys_notin; rewrite Hm; [reflexivity|exact Hnotin]).
      rewrite rec_append_keys_in; [exact E1|]. rewrite E1. apply in_or_app. right. now left.
    + assert (E1 : map fst (rec_set (Some p) [(1, a, Some 1)] (rec_del (Some p) (s_recipes st))) = s_branch_anchor st ++ [Some p])
        by (destruct (map_fst_snoc _ _ _ Hm) as (l0 & v0 & El0 & Ek0); rewrite El0;
            rewrite rec_del_app by (apply rec_get_notin; rewrite Ek0; exact Hnotin);
            rewrite rec_set_keys_notin; rewrite Ek0; [reflexivity|exact Hnotin]).
      rewrite rec_append_keys_in; [exact E1|]. rewrite E1. apply in_or_app. right. now left.
  - injection Eop as <- <- <-. destruct md; cbn [minv] in Hm; try exact I.
    destruct (s_branching st); [|exact Hm].
    destruct (rev (s_branch_anchor st)) as [|k0 r0] eqn:Er; [exact Hm|].
    rewrite rec_append_keys_in; [exact Hm|]. rewrite Hm. apply in_rev. rewrite Er. now left.
Qed.

(** the table behind [n] closings *)
Lemma pop1 fo a x x1 : m_run fo (closes_toks [a]) x = Ok x1 -> m_prev x1 = hd None (m_stack x).
Proof.
  cbn [closes_toks flat_map app m_run m_step]. destruct (m_stack x) as [|top stk]; [discriminate|]. cbn [bind hd].
  destruct a as [sy|]; cbn [osym_tok app m_run m_step bind]; intros H; injection H as <-; reflexivity.
Qed.

(** ** one iteration on an item with closings, with the state of the recipe table *)
Lemma node_step_x_mode fo x k st m pc s md :
  xlin_ok fo x = true -> contz k -> (x_closes x = [] -> cont k) -> Rel st m ->
  TI fo m s -> t_flag s = false -> minv md st -> ninv st ->
  (Ascii.eqb pc "("%char = x_open x) -> (x_open x = true -> exists p, m_prev m = Some p /\ has_node (m_g m) p = true) ->
  (length (x_closes x) <= length (if x_open x then m_prev m :: m_stack m else m_stack m))%nat ->
  match x_effect fo x m with
  | Ok m2 => exists st2, node_step fo st pc (x_name x) (lin_tail_str (xbase x) ++ closes_str (x_closes x) ++ k) = Ok st2
                         /\ Rel st2 m2
                         /\ minv (mode_closes (mode_open md (x_open x)) (length (x_closes x)) (is_nil (m_stack m2))) st2
                         /\ ninv st2
  | Err e => node_step fo st pc (x_name x) (lin_tail_str (xbase x) ++ closes_str (x_closes x) ++ k) = Err e
  end.
Proof.
  intros Hok Hk Hk0 HR HT Hfl Hm Hnv Hpc Hop Hlen. destruct (xlin_ok_parts fo x Hok) as (Hokb & Hbond & Hcs).
  rewrite node_step_parts. unfold x_effect.
  assert (Hstop : stopk (closes_str (x_closes x) ++ k)).
  { destruct (x_closes x) as [|a r] eqn:Ec; cbn [closes_str flat_map app].
    - apply cont_stopper. now apply Hk0.
    - apply close_stopper. }
  pose proof (node_part_lin0 fo (xbase x) (closes_str (x_closes x) ++ k) st m pc Hokb eq_refl Hstop HR Hpc Hop) as Hpart.
  change (l_name (xbase x)) with (x_name x) in Hpart.
  destruct (item_effect fo (xbase x) m) as [m1|e] eqn:Eeff; cbn [bind]; [|now rewrite Hpart].
  destruct Hpart as (st1 & Ep & HR1 & Hat1 & Hpb1 & _). rewrite Ep. cbn [bind].
  pose proof (minv_part fo st m pc _ _ st1 s md (x_open x) HR HT Hfl Hm Hpc Ep) as Hmid.
  pose proof (ninv_part fo st pc _ _ st1 Ep Hnv) as Hnv1.
  assert (Hm1 : m_stack m1 = (if x_open x then m_prev m :: m_stack m else m_stack m) /\ m_pend m1 = oord (x_bond x)).
  { unfold item_effect in Eeff. cbn [xbase l_name l_open l_mult l_rings l_bond l_close] in Eeff.
    destruct (parse_graph_base_node fo (x_name x)) as [a|]; [|discriminate]. cbn [bind] in Eeff.
    destruct (m_copies _ a (m_g m) (m_next m) (m_prev m) (m_pend m)) as [[g2 nx] pv].
    destruct (add_cycle_edges g2 _) as [g3|]; [|discriminate]. cbn [bind] in Eeff. injection Eeff as <-. split; reflexivity. }
  destruct Hm1 as [Es1 Ep1].
  unfold close_all.
  assert (Etext : lin_tail_str (xbase x) ++ closes_str (x_closes x) ++ k = [] ++ lin_prefix (xbase x) ++ closes_str (x_closes x) ++ k).
  { rewrite lin_tail_split. cbn [xbase l_close close_str app]. reflexivity. }
  rewrite Etext.
  destruct (closes_sim fo (x_closes x) (Datatypes.S (length ([] ++ lin_prefix (xbase x) ++ closes_str (x_closes x) ++ k)))
              [] (lin_prefix (xbase x)) k st1 m1 (lin_prefix_inner fo (xbase x) Hokb) Hk Hcs HR1 Hat1)
    as (m2 & st2 & Em & El & HR2 & _ & _ & _ & Estk & Hnil & Hrec & Hkeep).
  - rewrite Hpb1, Ep1. reflexivity.
  - intros Hne. rewrite Ep1, (Hbond Hne). reflexivity.
  - now rewrite Es1.
  - cbn [app]. rewrite !app_length. pose proof (closes_str_length (x_closes x)). lia.
  - rewrite Em. exists st2. split; [exact El|]. split; [exact HR2|].
    assert (Hnv2 : ninv st2).
    { destruct (x_closes x) as [|a r] eqn:Ec; [now rewrite (Hnil eq_refl)|].
      unfold ninv. destruct (m_stack m2) as [|z t] eqn:E2.
      - rewrite (Hrec ltac:(discriminate) eq_refl). constructor.
      - rewrite (Hkeep ltac:(discriminate)). exact Hnv1. }
    split; [|exact Hnv2].
    assert (Hns : mode_open md (x_open x) <> Sib) by (destruct md, (x_open x); discriminate).
    destruct (x_closes x) as [|a r] eqn:Ec.
    + rewrite (Hnil eq_refl). cbn [length mode_closes]. destruct (mode_open md (x_open x)); cbn [minv]; [exact Hmid|now elim Hns|exact I].
    + cbn [length mode_closes]. destruct (m_stack m2) as [|z t] eqn:E2; cbn [is_nil].
      * cbn [minv]. rewrite (Hrec ltac:(discriminate) eq_refl). destruct HR2 as (_ & _ & _ & _ & Rba2 & _). now rewrite Rba2, E2.
      * destruct (mode_open md (x_open x)); try exact I. destruct r as [|a2 r2]; cbn [length]; [|exact I].
        cbn [minv]. rewrite (Hkeep ltac:(discriminate)), Hmid.
        destruct HR1 as (_ & _ & _ & _ & Rba1 & _). destruct HR2 as (_ & _ & Rp2 & _ & Rba2 & _).
        rewrite Rba1, Rba2, Rp2, (pop1 fo a m1 m2 Em).
        cbn [length skipn] in Estk. destruct (m_stack m1) as [|top stk1]; [discriminate|].
        cbn [skipn] in Estk. rewrite <- Estk, E2. reflexivity.
Qed.

(** ** static reading of closings *)
Lemma trun_closes : forall cs s, trun (closes_toks cs) s = pops_track cs s.
Proof.
  induction cs as [|a r IH]; intros s; [reflexivity|].
  cbn [closes_toks flat_map]. fold (closes_toks r). cbn [app trun tstep pops_track].
  destruct (t_names s) as [|c ns]; [reflexivity|]. rewrite trun_osym. cbn [tmk t_cur t_pend t_names t_flag]. rewrite IH.
  unfold tmk, oord. now destruct a.
Qed.
Lemma pops_track_flag : forall cs s s1, pops_track cs s = Some s1 -> t_flag s = false -> t_flag s1 = false.
Proof.
  induction cs as [|a r IH]; intros s s1 H Hf; [cbn in H; now injection H as <-|].
  cbn [pops_track] in H. destruct (t_names s) as [|c ns]; [discriminate|]. now apply (IH _ _ H).
Qed.
Lemma pops_track_len : forall cs s s1, pops_track cs s = Some s1 -> (length cs <= length (t_names s))%nat.
Proof.
  induction cs as [|a r IH]; intros s s1 H; [cbn; lia|].
  cbn [pops_track] in H. destruct (t_names s) as [|c ns]; [discriminate|]. specialize (IH _ _ H). cbn [tmk t_names length] in *. lia.
Qed.

(** ** a multiplied branch behind its anchor, followed by closings *)
Lemma gunit_sim2 fo u cs K : gunit_ok fo u = true -> contz K -> closes_ok cs = true -> (cs <> [] -> u_after u = None) ->
  forall st x pre pc f ak a0 rc,
  Rel st x -> m_prev x = Some ak -> node_attrs (m_g x) ak = Ok a0 -> parse_graph_base_node fo (u_name u) = Ok a0 ->
  m_pend x = oord (u_bond u) ->
  rec_set (Some ak) [(1, a0, Some 1)] (rec_del (Some ak) (s_recipes st)) = rc ++ [(Some ak, [(1, a0, Some 1)])] ->
  rec_get (Some ak) rc = None -> (length cs <= length (m_stack x))%nat -> Forall skipch pre ->
  match m_run fo (gunit_toks u ++ closes_toks cs) x with
  | Ok x1 => exists st1 pre1,
      main_loop (length (u_body u) + f) fo pc (pre ++ (gunit_str u ++ closes_str cs) ++ K) st = main_loop f fo "]"%char (pre1 ++ K) st1
      /\ Forall skipch pre1 /\ Rel st1 x1 /\ (m_stack x1 = [] -> s_recipes st1 = []) /\ m_stack x1 = skipn (length cs) (m_stack x)
      /\ (s_recipes st1 = [] \/ exists e, s_recipes st1 = rc ++ [(Some ak, e)])
  | Err e => main_loop (length (u_body u) + f) fo pc (pre ++ (gunit_str u ++ closes_str cs) ++ K) st = Err e
  end.
Proof.
  intros Hok HK Hcs Haft st x pre pc f ak a0 rc HR Ep Hat Ea0 Hpd Hset Habs Hlcs Hpre.
  destruct (gunit_ok_parts fo u Hok) as (Hna & Hbne & Hbo & Hlb & Hd & HN).
  pose proof (unit_body_gen fo u ak a0 (m_stack x) rc cs K Ea0 Hna Hbo Hd HK Hcs Haft Hlcs Habs (u_body u) true st x
                (pre ++ ["("%char]) pc f [] Hbne HR) as Hbody.
  assert (Hf1 : m_stack x = m_stack x /\ m_prev x = Some ak
                /\ rec_set (Some ak) [(1, a0, Some 1)] (rec_del (Some ak) (s_recipes st)) = rc ++ [(Some ak, [(1, a0, Some 1)])]
                /\ node_attrs (m_g x) ak = Ok a0 /\ (@nil recipe_entry) = []) by (repeat split; assumption).
  specialize (Hbody Hf1). clear Hf1.
  assert (Hp1 : Ascii.eqb (last (pre ++ ["("%char]) pc) "("%char = true) by (now rewrite last_last).
  assert (Hnob : Forall nob (pre ++ ["("%char])).
  { apply Forall_app; split; [now apply skipch_nob|repeat constructor; discriminate]. }
  rewrite Hpd in Hbody. specialize (Hbody Hp1 Hnob Hbo Hlb ltac:(intros es_rest H; exact H)).
  cbn [app] in Hbody.
  assert (Etoks : gunit_toks u ++ closes_toks cs = TOpen :: body_toks (u_body u) ++ rest_toks u ++ closes_toks cs).
  { unfold gunit_toks. cbn [app]. now rewrite <- app_assoc. }
  rewrite Etoks.
  assert (Etl : pre ++ (gunit_str u ++ closes_str cs) ++ K
              = (pre ++ ["("%char]) ++ flat_map bnode_str (u_body u) ++ closing_str u ++ closes_str cs ++ K).
  { unfold gunit_str. repeat (rewrite <- app_assoc; cbn [app]). reflexivity. }
  rewrite Etl. exact Hbody.
Qed.

(** ** texts *)
Definition g2seg_str (s : g2seg) : pystr := match s with G2Plain x => xlin_str x | G2Unit u cs => gunit_str u ++ closes_str cs end.
Definition g2seg_toks (s : g2seg) : list tok := match s with G2Plain x => xlin_toks x | G2Unit u cs => gunit_toks u ++ closes_toks cs end.
Definition g2segs_str (l : list g2seg) : pystr := flat_map g2seg_str l.
Definition g2segs_toks (l : list g2seg) : list tok := flat_map g2seg_toks l.
Definition g2seg_nodes (s : g2seg) : nat := match s with G2Plain _ => 1%nat | G2Unit u _ => length (u_body u) end.
Fixpoint g2segs_nodes (l : list g2seg) : nat := match l with [] => O | s :: t => (g2seg_nodes s + g2segs_nodes t)%nat end.

(** where a unit may stand (as [ReaderGSegs.gtrack], with closings) *)

Lemma cont_g2segs fo s t : g2seg_ok fo s = true -> cont (g2segs_str (s :: t) ++ ["}"%char]).
Proof.
  destruct s as [x|u cs]; cbn [g2segs_str flat_map g2seg_str g2seg_ok]; intros H.
  - unfold xlin_str, lin_str. cbn [xbase l_open]. destruct (x_open x); cbn [app]; rewrite <- ?app_assoc; cbn [app]; constructor.
  - apply andb_prop in H as [H _]. apply andb_prop in H as [H _]. destruct (gunit_ok_parts fo u H) as (_ & Hne & _).
    unfold gunit_str. destruct (u_body u) as [|b r]; [contradiction|]. cbn [flat_map]. unfold bnode_str at 1. cbn [app]. constructor.
Qed.
Lemma cont_or_end fo t br : forallb (g2seg_ok fo) t = true ->
  contz (g2segs_str t ++ tail_of br) /\ ((t <> [] \/ br = true) -> cont (g2segs_str t ++ tail_of br)).
Proof.
  destruct t as [|s t'].
  - intros _. cbn [g2segs_str flat_map app]. destruct br; cbn [tail_of].
    + split; [right; constructor|intros _; constructor].
    + split; [now left|]. intros [C|C]; [now elim C|discriminate].
  - cbn [forallb]. intros H. apply andb_prop in H as [H _].
    assert (Hc : cont (g2segs_str (s :: t') ++ tail_of br)).
    { destruct s as [x|u cs]; cbn [g2segs_str flat_map g2seg_str g2seg_ok] in *.
      - unfold xlin_str, lin_str. cbn [xbase l_open]. destruct (x_open x); cbn [app]; rewrite <- ?app_assoc; cbn [app]; constructor.
      - apply andb_prop in H as [H _]. apply andb_prop in H as [H _]. destruct (gunit_ok_parts fo u H) as (_ & Hne & _).
        unfold gunit_str. destruct (u_body u) as [|b r]; [contradiction|]. cbn [flat_map]. unfold bnode_str at 1. cbn [app]. constructor. }
    split; [now right|intros _; exact Hc].
Qed.
Lemma Forall2_length_eq {A B} (R : A -> B -> Prop) l1 l2 : Forall2 R l1 l2 -> length l1 = length l2.
Proof. induction 1; cbn; congruence. Qed.

(** [br]: the text stands in braces *)
Theorem sim_g2segs fo (br : bool) : forall l md s st x pre pc f,
  forallb (g2seg_ok fo) l = true -> g2track md s l = true ->
  Rel st x -> TI fo x s -> t_flag s = false -> minv md st -> ninv st ->
  Forall skipch pre -> pc <> "("%char ->
  match m_run fo (g2segs_toks l) x with
  | Ok x1 => exists st1, main_loop (g2segs_nodes l + Datatypes.S f) fo pc (pre ++ g2segs_str l ++ tail_of br) st = Ok st1
                         /\ s_g st1 = m_g x1 /\ s_cycle st1 = m_rings x1
  | Err e => main_loop (g2segs_nodes l + Datatypes.S f) fo pc (pre ++ g2segs_str l ++ tail_of br) st = Err e
  end.
Proof.
  induction l as [|[xi|u cs] t IH]; intros md s st x pre pc f Hok Htr HR HT Hfl Hm Hnv Hpre Hpc.
  - cbn [g2segs_toks flat_map m_run g2segs_str app g2segs_nodes plus main_loop]. exists st.
    destruct HR as (Rg & _ & _ & Rcy & _). split; [|split; assumption].
    assert (Hnob : Forall nob (pre ++ tail_of br)).
    { apply Forall_app; split; [now apply skipch_nob|]. destruct br; repeat constructor. discriminate. }
    rewrite <- (app_nil_r (pre ++ tail_of br)). rewrite next_node_skip by assumption. now rewrite next_node_nil.
  - (* an item with its closings *)
    cbn [forallb g2seg_ok] in Hok. apply andb_prop in Hok as [Hokx Hokt].
    destruct (xlin_ok_parts fo xi Hokx) as (Hokb & _ & _).
    cbn [g2track] in Htr. destruct (item_track (xbase xi) s) as [s1|] eqn:Eit; [|discriminate].
    destruct (pops_track (x_closes xi) s1) as [s2|] eqn:Ept; [|discriminate].
    cbn [g2segs_toks flat_map g2seg_toks]. fold (g2segs_toks t). rewrite (m_xitem fo xi (g2segs_toks t) x Hokb).
    cbn [g2segs_str flat_map g2seg_str g2segs_nodes g2seg_nodes plus]. fold (g2segs_str t).
    set (k := g2segs_str t ++ tail_of br).
    destruct (cont_or_end fo t br Hokt) as [Hkz Hkc]. fold k in Hkz, Hkc.
    destruct (lin_ok_parts fo (xbase xi) Hokb) as (Hn & _). change (l_name (xbase xi)) with (x_name xi) in Hn.
    set (opn := if x_open xi then ["("%char] else []).
    assert (Etext : pre ++ (xlin_str xi ++ g2segs_str t) ++ tail_of br
                  = (pre ++ opn) ++ "["%char :: "#"%char :: x_name xi ++ "]"%char
                                    :: (lin_tail_str (xbase xi) ++ closes_str (x_closes xi) ++ k)).
    { unfold xlin_str, lin_str, opn, k. cbn [xbase l_open l_name]. rewrite <- !app_assoc. cbn [app]. rewrite <- !app_assoc. reflexivity. }
    rewrite Etext. cbn [main_loop].
    assert (Hopn : Forall nob (pre ++ opn)).
    { apply Forall_app; split; [now apply skipch_nob|]. unfold opn. destruct (x_open xi); repeat constructor. discriminate. }
    rewrite next_node_skip by assumption. rewrite next_node_here by (now apply (name_chars fo)).
    assert (Hpc' : Ascii.eqb (last (pre ++ opn) pc) "("%char = x_open xi).
    { unfold opn. destruct (x_open xi).
      - rewrite last_last. reflexivity.
      - rewrite app_nil_r. apply Ascii.eqb_neq. now apply last_skipch. }
    pose proof (ti_wf fo x s HT) as Hw.
    assert (Hop2 : x_open xi = true -> exists p, m_prev x = Some p /\ has_node (m_g x) p = true).
    { intros Ho. unfold item_track in Eit. cbn [xbase l_open] in Eit. rewrite Ho, Hfl in Eit. pose proof (ti_cur fo x s HT) as Hc.
      destruct (t_cur s) as [c|]; [|discriminate]. destruct Hc as (p & a & Ep & _ & Hat). exists p. split; [exact Ep|].
      now apply (node_attrs_has _ _ a). }
    assert (Hlen : (length (x_closes xi) <= length (if x_open xi then m_prev x :: m_stack x else m_stack x))%nat).
    { pose proof (pops_track_len _ _ _ Ept) as Hl. pose proof (Forall2_length_eq _ _ _ (ti_stack fo x s HT)) as Hl2.
      unfold item_track in Eit. cbn [xbase l_open l_close] in Eit.
      destruct (x_open xi).
      - destruct (t_flag s); [discriminate|]. destruct (t_cur s); [|discriminate]. injection Eit as <-. cbn [tmk t_names length] in *. lia.
      - injection Eit as <-. cbn [tmk t_names] in Hl. lia. }
    destruct (Bool.bool_dec (is_nil (x_closes xi) && is_nil t && negb br) true) as [Hsp|Hsp].
    + (* the last item of a text without braces, closing nothing: the look-ahead runs off the text *)
      apply andb_prop in Hsp as [Hsp Hbr]. apply andb_prop in Hsp as [Hc0 Ht0].
      destruct (x_closes xi) as [|? ?] eqn:Ec; [|discriminate]. destruct t; [|discriminate]. destruct br; [discriminate|].
      unfold k. cbn [closes_str g2segs_str flat_map app tail_of g2segs_toks g2segs_nodes plus]. rewrite app_nil_r.
      assert (Hst : l_close (xbase xi) <> None -> (if l_open (xbase xi) then m_prev x :: m_stack x else m_stack x) <> [])
        by (intros C; now elim C).
      pose proof (node_step_last fo (xbase xi) st x _ Hokb HR Hpc' Hop2 Hst) as Hstep. change (l_name (xbase xi)) with (x_name xi) in Hstep.
      unfold x_effect. rewrite Ec. cbn [closes_toks flat_map].
      destruct (item_effect fo (xbase xi) x) as [x1|e]; cbn [bind m_run]; [|now rewrite Hstep].
      destruct Hstep as (st1 & -> & G & C). cbn [bind]. exists st1. split; [|split; assumption].
      cbn [main_loop]. now rewrite (tail_no_node fo).
    + assert (Hk0 : x_closes xi = [] -> cont k).
      { intros Ec. apply Hkc. rewrite Ec in Hsp. cbn [is_nil andb] in Hsp.
        destruct t as [|? ?]; [|left; discriminate]. destruct br; [now right|]. now elim Hsp. }
      pose proof (node_step_x_mode fo xi k st x _ s md Hokx Hkz Hk0 HR HT Hfl Hm Hnv Hpc' Hop2 Hlen) as Hstep.
      destruct (x_effect fo xi x) as [x2|e] eqn:Eeff; cbn [bind]; [|now rewrite Hstep].
      destruct Hstep as (st2 & Est & HR2 & Hm2 & Hnv2). rewrite Est. cbn [bind].
      assert (Erun : m_run fo (xlin_toks xi) x = Ok x2).
      { rewrite <- (app_nil_r (xlin_toks xi)), (m_xitem fo xi [] x Hokb), Eeff. reflexivity. }
      assert (Etr : trun (xlin_toks xi) s = Some s2).
      { unfold xlin_toks. rewrite trun_app, (trun_lin fo) by assumption. rewrite Eit. now rewrite trun_closes. }
      pose proof (m_run_TI fo _ x x2 s s2 Erun Etr HT) as HT2.
      assert (Hfl2 : t_flag s2 = false).
      { apply (pops_track_flag _ _ _ Ept). unfold item_track in Eit. destruct (if l_open (xbase xi) then _ else _) as [ns|]; [|discriminate].
        cbn [xbase l_close] in Eit. injection Eit as <-. reflexivity. }
      assert (Enil : is_nil (m_stack x2) = is_nil (t_names s2)) by (apply (Forall2_is_nil _ _ _ (ti_stack fo x2 s2 HT2))).
      rewrite Enil in Hm2.
      rewrite app_assoc. unfold k.
      apply (IH _ s2 st2 x2 (lin_tail_str (xbase xi) ++ closes_str (x_closes xi)) "]"%char f Hokt Htr HR2 HT2 Hfl2 Hm2 Hnv2).
      * now apply (xlin_tail_skipch fo).
      * discriminate.
  - (* a multiplied branch with closings *)
    cbn [forallb g2seg_ok] in Hok. apply andb_prop in Hok as [Hoku Hokt].
    apply andb_prop in Hoku as [Hoku Haftb]. apply andb_prop in Hoku as [Hoku Hcs].
    cbn [g2track] in Htr. apply andb_prop in Htr as [Htr Htrt]. apply andb_prop in Htr as [Htr Hpd].
    apply andb_prop in Htr as [Htr Hcur]. apply andb_prop in Htr as [_ Hmd]. apply Z.eqb_eq in Hpd.
    destruct (t_cur s) as [c|] eqn:Ecur; [|discriminate]. apply str_eqb_eq in Hcur. subst c.
    destruct (pops_track cs (tmk (Some (u_name u)) (oord (u_after u)) (t_names s) false)) as [s2|] eqn:Ept; [|discriminate].
    destruct (gunit_ok_parts fo u Hoku) as (Hna & Hbne & Hbo & Hlb & Hd & HN).
    pose proof (ti_cur fo x s HT) as Hc. rewrite Ecur in Hc. destruct Hc as (ak & a0 & Ep & Ea0 & Hat).
    cbn [g2segs_toks flat_map g2seg_toks]. fold (g2segs_toks t). rewrite m_run_app.
    cbn [g2segs_str flat_map g2seg_str g2segs_nodes g2seg_nodes]. fold (g2segs_str t).
    set (K := g2segs_str t ++ tail_of br).
    destruct (cont_or_end fo t br Hokt) as [HK _]. fold K in HK.
    pose proof HR as (Rg & Rc & Rp & Rcy & Rba & Rbr & Rpb).
    assert (Hnotin : ~ In (Some ak) (s_branch_anchor st)).
    { rewrite Rba, <- in_rev. now apply (TI_prev_fresh fo x s ak HT Hfl). }
    destruct (rec_del_nodup (Some ak) (s_recipes st) Hnv) as [Hndrc Hninrc].
    set (rc := rec_del (Some ak) (s_recipes st)) in *.
    assert (Habs : rec_get (Some ak) rc = None) by (now apply rec_get_notin).
    assert (Hset : rec_set (Some ak) [(1, a0, Some 1)] rc = rc ++ [(Some ak, [(1, a0, Some 1)])]) by (now apply rec_set_absent).
    assert (Haft : cs <> [] -> u_after u = None).
    { intros Hne. destruct cs; [contradiction|]. cbn [is_nil orb] in Haftb. now destruct (u_after u). }
    assert (Hlcs : (length cs <= length (m_stack x))%nat).
    { pose proof (pops_track_len _ _ _ Ept) as Hl. cbn [tmk t_names] in Hl.
      rewrite (Forall2_length_eq _ _ _ (ti_stack fo x s HT)). exact Hl. }
    pose proof (gunit_sim2 fo u cs K Hoku HK Hcs Haft st x pre pc (g2segs_nodes t + Datatypes.S f) ak a0 rc HR Ep Hat Ea0
                  (eq_trans (ti_pend fo x s HT) Hpd) Hset Habs Hlcs Hpre) as Hu.
    replace (length (u_body u) + g2segs_nodes t + Datatypes.S f)%nat with (length (u_body u) + (g2segs_nodes t + Datatypes.S f))%nat by lia.
    rewrite <- app_assoc. fold K.
    destruct (m_run fo (gunit_toks u ++ closes_toks cs) x) as [x1|e] eqn:Erun; cbn [bind]; [|exact Hu].
    destruct Hu as (st1 & pre1 & -> & Hpre1 & HR1 & Hrc1 & Hstk1 & Htab1).
    assert (Hnv1 : ninv st1).
    { unfold ninv. destruct Htab1 as [->|(e1 & ->)]; [constructor|]. rewrite map_app. cbn [map fst]. now apply nodup_snoc. }
    assert (Etr : trun (gunit_toks u ++ closes_toks cs) s = Some s2).
    { rewrite trun_app, (trun_gunit fo u s Hbne Hbo Ecur Hfl), trun_closes. exact Ept. }
    pose proof (m_run_TI fo _ x x1 s s2 Erun Etr HT) as HT1.
    assert (Hfl2 : t_flag s2 = false) by (apply (pops_track_flag _ _ _ Ept); reflexivity).
    unfold K. apply (IH _ _ st1 x1 pre1 "]"%char f Hokt Htrt HR1 HT1 Hfl2); [|exact Hnv1|assumption|discriminate].
    destruct (t_names s2) as [|n0 r0] eqn:En; cbn [is_nil minv]; [|exact I].
    pose proof (ti_stack fo x1 s2 HT1) as Hs2. rewrite En in Hs2. inversion Hs2 as [E0|]; subst.
    destruct HR1 as (_ & _ & _ & _ & Rba1 & _). rewrite Rba1, <- E0. rewrite Hrc1 by (now rewrite <- E0). reflexivity.
Qed.

Lemma g2seg_str_length s : (g2seg_nodes s <= length (g2seg_str s))%nat.
Proof.
  destruct s as [x|u cs]; cbn [g2seg_nodes g2seg_str].
  - unfold xlin_str, lin_str. rewrite !app_length. cbn [length]. lia.
  - unfold gunit_str. repeat (rewrite app_length || cbn [length]).
    assert (H : (length (u_body u) <= length (flat_map bnode_str (u_body u)))%nat).
    { induction (u_body u) as [|b r IHr]; [cbn; lia|]. cbn [flat_map length]. rewrite app_length. unfold bnode_str at 1. cbn [length]. lia. }
    lia.
Qed.
Lemma g2segs_str_length l : (g2segs_nodes l <= length (g2segs_str l))%nat.
Proof.
  induction l as [|s t IH]; [cbn; lia|]. cbn [g2segs_nodes g2segs_str flat_map]. rewrite app_length. fold (g2segs_str t).
  pose proof (g2seg_str_length s). lia.
Qed.
(** every segment ends in "]" followed by characters that start no node *)
Lemma g2seg_str_end fo s : g2seg_ok fo s = true ->
  exists A T, g2seg_str s = A ++ "]"%char :: T /\ Forall skipch T.
Proof.
  destruct s as [x|u cs]; cbn [g2seg_ok g2seg_str]; intros H.
  - exists ((if x_open x then ["("%char] else @nil ascii) ++ "["%char :: "#"%char :: x_name x), (lin_tail_str (xbase x) ++ closes_str (x_closes x)).
    split; [|now apply (xlin_tail_skipch fo)].
    unfold xlin_str, lin_str. cbn [xbase l_open l_name]. rewrite <- !app_assoc. cbn [app]. rewrite <- !app_assoc. reflexivity.
  - apply andb_prop in H as [H _]. apply andb_prop in H as [H _]. destruct (gunit_ok_parts fo u H) as (_ & Hne & Hbo & _ & Hd & _).
    destruct (exists_last Hne) as (b0 & bl & Eb). rewrite Eb in Hbo.
    assert (Hsn : sn_ok (bn_mult bl) (bn_bond bl)).
    { clear -Hbo. revert Hbo. generalize (oord (u_bond u)). induction b0 as [|y r IH]; intros inc H; cbn [app body_ok] in H.
      - apply andb_prop in H as [H _]. apply andb_prop in H as [_ H]. now apply sn_okb_ok.
      - apply andb_prop in H as [_ H]. now apply (IH _ H). }
    exists ("("%char :: flat_map bnode_str b0 ++ "["%char :: "#"%char :: bn_name bl),
           (stail (bn_mult bl) (bn_bond bl) ++ closing_str u ++ closes_str cs).
    split.
    + unfold gunit_str. rewrite Eb, flat_map_app. cbn [flat_map]. unfold bnode_str at 2. rewrite app_nil_r.
      repeat (rewrite <- app_assoc; cbn [app]). reflexivity.
    + apply Forall_app; split; [now apply stail_skipch|]. apply Forall_app; split; [now apply closing_skipch|apply closes_inner_skip].
Qed.
Lemma last_g2segs_str fo l d : forallb (g2seg_ok fo) l = true -> l <> [] -> last (g2segs_str l) d <> "("%char.
Proof.
  intros Hok Hne. destruct (exists_last Hne) as (l' & z & ->).
  rewrite forallb_app in Hok. apply andb_prop in Hok as [_ Hz]. cbn [forallb] in Hz. apply andb_prop in Hz as [Hz _].
  unfold g2segs_str. rewrite flat_map_app. cbn [flat_map]. rewrite app_nil_r.
  destruct (g2seg_str_end fo z Hz) as (A & T & -> & HT).
  rewrite app_assoc. rewrite last_app_ne by discriminate. rewrite last_cons_default. apply last_skipch; [exact HT|discriminate].
Qed.

(** ** the theorems: text in braces / without *)
Definition denote_g2 (fo : float_oracle) (l : list g2seg) : res graph := m_finish (m_run fo (g2segs_toks l) m_init).
Theorem reader_sim_g2_gen fo (br : bool) l : g2segs_ok fo l = true -> l <> [] ->
  read_cgsmiles fo ((if br then ["{"%char] else @nil ascii) ++ g2segs_str l ++ tail_of br) = denote_g2 fo l.
Proof.
  unfold g2segs_ok. intros H Hne. apply andb_prop in H as [Hok Htr].
  unfold read_cgsmiles, denote_g2, m_finish.
  assert (HR : Rel init_state m_init) by (unfold Rel; cbn; repeat split; discriminate).
  set (text := (if br then ["{"%char] else @nil ascii) ++ g2segs_str l ++ tail_of br).
  assert (Hpc : last text " "%char <> "("%char).
  { unfold text. destruct br; cbn [tail_of app].
    - change ("{"%char :: g2segs_str l ++ ["}"%char]) with (("{"%char :: g2segs_str l) ++ ["}"%char]). rewrite last_last. discriminate.
    - rewrite app_nil_r. now apply (last_g2segs_str fo). }
  pose proof (g2segs_str_length l) as Hlen.
  set (f := (length text - g2segs_nodes l)%nat).
  assert (Ef : Datatypes.S (length text) = (g2segs_nodes l + Datatypes.S f)%nat).
  { unfold f, text. rewrite !app_length. lia. }
  rewrite Ef.
  pose proof (sim_g2segs fo br l Clean t_init init_state m_init (if br then ["{"%char] else @nil ascii) (last text " "%char) f Hok Htr HR
                (TI_init fo) eq_refl eq_refl (NoDup_nil _)) as Hsim.
  assert (H2 : Forall skipch (if br then ["{"%char] else @nil ascii)) by (destruct br; repeat constructor; discriminate).
  specialize (Hsim H2 Hpc). fold text in Hsim.
  destruct (m_run fo (g2segs_toks l) m_init) as [x1|e].
  - destruct Hsim as (st1 & -> & G & C). cbn [bind]. rewrite C, G. reflexivity.
  - rewrite Hsim. reflexivity.
Qed.
Theorem reader_sim_g2 fo l : g2segs_ok fo l = true ->
  read_cgsmiles fo ("{"%char :: g2segs_str l ++ ["}"%char]) = denote_g2 fo l.
Proof.
  intros H. destruct l as [|s t].
  - reflexivity.
  - apply (reader_sim_g2_gen fo true (s :: t) H). discriminate.
Qed.
Theorem reader_sim_g2_nobrace fo l : g2segs_ok fo l = true -> l <> [] ->
  read_cgsmiles fo (g2segs_str l) = denote_g2 fo l.
Proof. intros H Hne. pose proof (reader_sim_g2_gen fo false l H Hne) as E. cbn [app tail_of] in E. now rewrite app_nil_r in E. Qed.
Print Assumptions reader_sim_g2_gen.
