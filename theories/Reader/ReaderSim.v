(** ReaderSim: the simulation theorem.  For every flat string [l] of the grammar (Reader/Lin.v: chains,
    node multipliers, nested branches, every bond-symbol position, single-digit and %nn ring bonds;
    no branch multipliers, no node closing two branches, no symbol after a node multiplier)
      read_cgsmiles fo ("{" ++ lins_str l ++ "}") = denote_lin fo l
    i.e. the index/look-ahead based reader model computes exactly what the token machine computes:
    the same graph with the same iteration orders, or the same error. *)
From Coq Require Import String.
From Coq Require Import List Ascii ZArith Bool Lia.
From CGV Require Import Base.PyBase Base.PyVal Base.NxGraph Base.PyGen Gen.ReaderGen Dialect.DialectImpl
     Reader.ReaderImpl Reader.Grammar Reader.ReaderLemmas Reader.Lin Reader.GraphLemmas.
Import ListNotations.
Open Scope Z_scope.

(** ** the ring table: model and machine use the same operations *)
Lemma rt_get_cyc m t : rt_get m t = cyc_get m t.
Proof. induction t as [|[k v] r IH]; cbn; [reflexivity|]. now rewrite IH. Qed.
Lemma rt_del_cyc m t : rt_del m t = cyc_del m t.
Proof. induction t as [|[k v] r IH]; cbn; [reflexivity|]. now rewrite IH. Qed.

Lemma commit_ces m cur o cyc ces :
  commit m cur o cyc ces = (fst (commit m cur o cyc []), ces ++ snd (commit m cur o cyc [])).
Proof. unfold commit. destruct (cyc_get m cyc) as [[n0 o0]|]; cbn; now rewrite ?app_nil_r. Qed.
Lemma spec_rings_ces r cur : forall cyc ces,
  spec_rings r cur (cyc, ces) = (fst (spec_rings r cur (cyc, [])), ces ++ snd (spec_rings r cur (cyc, []))).
Proof.
  induction r as [|[o m] t IH]; intros cyc ces; cbn [spec_rings fst snd].
  - now rewrite app_nil_r.
  - rewrite (commit_ces _ _ _ cyc ces). cbn [fst snd].
    destruct (commit (marker_val m) cur (oord o) cyc []) as [c1 e1] eqn:E. cbn [fst snd].
    rewrite (IH c1 (ces ++ e1)), (IH c1 e1). cbn [fst snd]. now rewrite app_assoc.
Qed.

Lemma m_run_app fo a : forall b x, m_run fo (a ++ b) x = (x1 <- m_run fo a x ;; m_run fo b x1).
Proof.
  induction a as [|t r IH]; intros b x; [reflexivity|]. cbn [app m_run].
  destruct (m_step fo x t); cbn [bind]; [apply IH|reflexivity].
Qed.

Definition with_graph_rings (x : mstate) (g : graph) (rt : ringtab) : mstate :=
  {| m_g := g; m_next := m_next x; m_prev := m_prev x; m_pend := m_pend x; m_stack := m_stack x; m_rings := rt |}.
(** the machine on the ring tokens of one node = ring table fold, then the ring edges *)
Lemma m_run_rings fo cur : forall r x ts, m_prev x = Some cur ->
  m_run fo (map ring_tok r ++ ts) x
  = (g <- add_cycle_edges (m_g x) (snd (spec_rings r cur (m_rings x, []))) ;;
     m_run fo ts (with_graph_rings x g (fst (spec_rings r cur (m_rings x, []))))).
Proof.
  induction r as [|[o m] t IH]; intros x ts Hp.
  - cbn. destruct x; reflexivity.
  - destruct x as [g nx pv pd stk rt]. cbn in Hp. subst pv.
    cbn [map app m_run ring_tok fst snd m_step m_prev m_rings m_g]. rewrite rt_get_cyc.
    cbn [spec_rings fst snd]. unfold commit at 1 2. destruct (cyc_get (marker_val m) rt) as [[n0 o0]|] eqn:G.
    + rewrite spec_rings_ces. cbn [fst snd app add_cycle_edges].
      destruct (has_edge g cur n0); [reflexivity|]. cbn [bind].
      rewrite IH by reflexivity. cbn [m_g m_rings]. rewrite rt_del_cyc. reflexivity.
    + cbn [bind]. rewrite IH by reflexivity. cbn [m_g m_rings]. reflexivity.
Qed.

(** ** characters of the text that follows a node *)
(** none of "[", ")", "(", "}" *)
Definition stops4 : list pystr := [S "["; S ")"; S "("; S "}"].
Definition inner (c : ascii) : Prop := str_in [c] stops4 = false.
Lemma inner_sym s : inner (sym_char s). Proof. destruct s; reflexivity. Qed.
Lemma inner_digit d : (d < 10)%nat -> inner (digit_char d).
Proof. intros H. do 10 (destruct d as [|d]; [reflexivity|]). lia. Qed.
Lemma inner_pct : inner "%"%char. Proof. reflexivity. Qed.
Lemma inner_bar : inner "|"%char. Proof. reflexivity. Qed.
Section CharClass.
  Variable P : ascii -> Prop.
  Hypothesis P_sym : forall s, P (sym_char s).
  Hypothesis P_digit : forall d, (d < 10)%nat -> P (digit_char d).
  Hypothesis P_pct : P "%"%char.
  Lemma cls_osym o : Forall P (osym_str o).
  Proof. destruct o; cbn; repeat constructor. apply P_sym. Qed.
  Lemma cls_digits ds : forallb (fun d => (d <? 10)%nat) ds = true -> Forall P (digits_str ds).
  Proof.
    induction ds as [|d r IH]; cbn [forallb digits_str map]; intros H; [constructor|].
    apply andb_prop in H as [H1 H2]. apply Nat.ltb_lt in H1. constructor; [now apply P_digit|now apply IH].
  Qed.
  Lemma cls_marker m : marker_ok m = true -> Forall P (marker_str m).
  Proof.
    destruct m as [d|ds]; cbn [marker_ok marker_str]; intros H.
    - apply Nat.ltb_lt in H. repeat constructor. now apply P_digit.
    - constructor; [apply P_pct|]. apply cls_digits. now apply digits_ok_all.
  Qed.
  Lemma cls_ring pp o m : marker_ok m = true -> Forall P (ring_str pp o m).
  Proof.
    intros H. unfold ring_str. destruct o as [s|].
    - apply Forall_app; split; [apply cls_osym|now apply cls_marker].
    - destruct m as [d|ds].
      + cbn [marker_ok] in H. apply Nat.ltb_lt in H. destruct pp; repeat constructor; try apply P_pct;
          try (now apply P_digit); apply (P_digit 0); lia.
      + now apply (cls_marker (MPct ds)).
  Qed.
  Lemma cls_rings r : forall pp, forallb (fun om => marker_ok (snd om)) r = true -> Forall P (rings_str pp r).
  Proof.
    induction r as [|[o m] t IH]; intros pp H; [constructor|]. cbn [forallb snd] in H. apply andb_prop in H as [H1 H2].
    cbn [rings_str]. apply Forall_app; split; [now apply cls_ring|now apply IH].
  Qed.
End CharClass.
Definition inner_osym := cls_osym inner inner_sym.
Definition inner_digits := cls_digits inner inner_digit.
Definition inner_rings := cls_rings inner inner_sym inner_digit inner_pct.
Lemma inner_mult m : match m with Some ds => digits_ok ds = true | None => True end -> Forall inner (mult_str m).
Proof.
  destruct m as [ds|]; cbn [mult_str]; intros H; [|constructor].
  constructor; [apply inner_bar|]. apply inner_digits. now apply digits_ok_all.
Qed.
Definition nobar (c : ascii) : Prop := c <> "|"%char.
Lemma nobar_sym s : nobar (sym_char s). Proof. destruct s; discriminate. Qed.
Lemma nobar_digit d : (d < 10)%nat -> nobar (digit_char d).
Proof. intros H. do 10 (destruct d as [|d]; [discriminate|]). lia. Qed.
Lemma nobar_pct : nobar "%"%char. Proof. discriminate. Qed.
Definition nobar_osym := cls_osym nobar nobar_sym.
Definition nobar_rings := cls_rings nobar nobar_sym nobar_digit nobar_pct.

Lemma inner_facts c : inner c ->
  c <> "["%char /\ c <> ")"%char /\ c <> "("%char /\ c <> "}"%char.
Proof.
  unfold inner, stops4. cbn [str_in existsb str_eqb]. intros H.
  repeat split; intros ->; cbn in H; discriminate.
Qed.
Lemma inner_not_in c l : inner c -> (forall x, In x l -> In x stops4) -> str_in [c] l = false.
Proof.
  intros Hc Hl. unfold str_in. apply not_true_is_false. intros E. apply existsb_exists in E as [x [Hx Ex]].
  unfold inner, str_in in Hc. assert (existsb (str_eqb [c]) stops4 = true); [|congruence].
  apply existsb_exists. exists x. split; [now apply Hl|assumption].
Qed.
Lemma find_idx_inner p chars : Forall inner p -> (forall x, In x chars -> In x stops4) ->
  forall tail, find_idx (p ++ tail) chars = (length p + find_idx tail chars)%nat.
Proof.
  intros Hp Hc tail. induction Hp as [|c p H _ IH]; [reflexivity|]. cbn [app find_idx length].
  rewrite inner_not_in by assumption. now rewrite IH.
Qed.
Lemma incl_open : forall x, In x fnc_next_open -> In x stops4. Proof. cbn. intuition. Qed.
Lemma incl_close : forall x, In x fnc_next_close -> In x stops4. Proof. cbn. intuition. Qed.
Lemma incl_eon_a : forall x, In x fnc_eon_a -> In x stops4. Proof. cbn. intuition. Qed.

(** the text that can follow a complete flat item: the end, a node, or a branch opening with a node *)
Inductive cont : pystr -> Prop :=
| cont_end : cont ["}"%char]
| cont_node k : cont ("["%char :: "#"%char :: k)
| cont_open k : cont ("("%char :: "["%char :: "#"%char :: k).
Lemma cont_lins l : cont (lins_str l ++ ["}"%char]).
Proof.
  destruct l as [|i t]; [constructor|]. cbn [lins_str flat_map]. unfold lin_str.
  destruct (l_open i); cbn [app]; rewrite <- ?app_assoc; cbn [app]; constructor.
Qed.
(** what the look-ahead of one node needs to know about the text behind the item: it starts with a
    character that ends the ring scan and the count (also true of a further ")") *)
Definition stopk (k : pystr) : Prop := exists c tl, k = c :: tl /\ stopper c /\ c <> "|"%char
                                   /\ str_in [c] fnc_eon = true /\ sto_mem c = false.
Lemma cont_stopper k : cont k -> stopk k.
Proof. intros [| |]; eexists; eexists; (split; [reflexivity|]); repeat split; discriminate. Qed.
Lemma close_stopper z : stopk (")"%char :: z).
Proof. eexists; eexists; (split; [reflexivity|]); repeat split; discriminate. Qed.

(** ** the look-ahead of one node: ring scan result and bond order (lines 150-200) *)
Definition bond_expr (rest : pystr) (rdx : nat) : res Z :=
  match rest with
  | [] => Ok default_bond_order
  | _ => let c := match rdx with O => "]"%char | Datatypes.S k => nth k rest " "%char end in
         if char_in c bond_symbol_chars then symbol_to_order_lookup [c] else Ok default_bond_order
  end.

Lemma ring_str_last pp o m : marker_ok m = true ->
  exists q d, ring_str pp o m = q ++ [digit_char d] /\ (d < 10)%nat.
Proof.
  intros H. destruct m as [d|ds]; cbn [marker_ok] in H.
  - apply Nat.ltb_lt in H. destruct o as [s|]; cbn [ring_str osym_str marker_str app].
    + exists [sym_char s], d. split; [reflexivity|assumption].
    + destruct pp; [exists ["%"%char; "0"%char], d|exists [], d]; (split; [reflexivity|assumption]).
  - destruct (digits_ok_all ds H) as [Hall Hne].
    destruct (exists_last Hne) as (ds' & d & ->).
    rewrite forallb_app in Hall. apply andb_prop in Hall as [_ Hd]. cbn [forallb] in Hd.
    rewrite andb_true_r in Hd. apply Nat.ltb_lt in Hd.
    exists (osym_str o ++ "%"%char :: digits_str ds'), d. split; [|assumption].
    assert (E : ring_str pp o (MPct (ds' ++ [d])) = osym_str o ++ "%"%char :: digits_str (ds' ++ [d]))
      by (destruct o; reflexivity).
    rewrite E. unfold digits_str. rewrite map_app. cbn [map]. rewrite <- app_assoc. reflexivity.
Qed.
Lemma rings_str_last r : forall pp, forallb (fun om => marker_ok (snd om)) r = true -> r <> [] ->
  exists q d, rings_str pp r = q ++ [digit_char d] /\ (d < 10)%nat.
Proof.
  induction r as [|[o m] t IH]; intros pp H Hne; [contradiction|].
  cbn [forallb snd] in H. apply andb_prop in H as [H1 H2]. cbn [rings_str].
  destruct t as [|om t'].
  - cbn [rings_str]. rewrite app_nil_r. now apply ring_str_last.
  - destruct (IH (pct_form pp o m) H2) as (q & d & E & Hd); [discriminate|].
    exists (ring_str pp o m ++ q), d. split; [|assumption]. rewrite E. now rewrite app_assoc.
Qed.
Lemma nth_mid {A} (q : list A) c X d : nth (length q) (q ++ c :: X) d = c.
Proof. rewrite app_nth2 by lia. now rewrite Nat.sub_diag. Qed.

Lemma bond_of_prefix r b c tl : forallb (fun om => marker_ok (snd om)) r = true ->
  bond_expr ((rings_str false r ++ osym_str b) ++ c :: tl) (length (rings_str false r ++ osym_str b)) = Ok (oord b).
Proof.
  intros Hr. destruct b as [s|]; cbn [osym_str oord].
  - rewrite app_length. cbn [length]. rewrite Nat.add_1_r.
    rewrite <- !app_assoc. cbn [app]. unfold bond_expr.
    destruct (rings_str false r ++ sym_char s :: c :: tl) eqn:E; [destruct (rings_str false r); discriminate|].
    rewrite <- E. cbv zeta. rewrite nth_mid. now rewrite sym_in_bond_chars, sym_lookup.
  - rewrite app_nil_r. destruct r as [|om t].
    + reflexivity.
    + destruct (rings_str_last (om :: t) false Hr) as (q & d & E & Hd); [discriminate|].
      rewrite E. rewrite app_length. cbn [length]. rewrite Nat.add_1_r. rewrite <- app_assoc. cbn [app].
      unfold bond_expr. destruct (q ++ digit_char d :: c :: tl) eqn:E2; [destruct q; discriminate|].
      rewrite <- E2. cbv zeta. rewrite nth_mid. now rewrite digit_not_bond.
Qed.

Lemma stopper_bar : stopper "|"%char. Proof. repeat split. Qed.

Lemma lin_ok_parts fo i : lin_ok fo i = true ->
  name_ok fo (l_name i) = true /\ forallb (fun om => marker_ok (snd om)) (l_rings i) = true
  /\ match l_mult i with
     | Some ds => l_rings i = [] /\ digits_ok ds = true /\ (1 <= digits_nat ds)%nat
     | None => True end
  /\ match l_close i with Some _ => l_bond i = None | None => True end.
Proof.
  unfold lin_ok. intros H. apply andb_prop in H as [H Hc]. apply andb_prop in H as [H Hm]. apply andb_prop in H as [Hn Hr].
  split; [assumption|]. split; [assumption|]. split.
  - destruct (l_mult i); [|exact I]. apply andb_prop in Hm as [Hm H1]. apply andb_prop in Hm as [H2 H3].
    destruct (l_rings i); [|discriminate]. apply Nat.leb_le in H1. auto.
  - destruct (l_close i); [|exact I]. now destruct (l_bond i).
Qed.

(** the bond order the look-ahead loop itself finds: none behind a multiplier (the "|" stops it) *)
Definition bo0_of (i : lin) : Z := match l_mult i with Some _ => default_bond_order | None => oord (l_bond i) end.

(** look-ahead of a flat item [i] followed by [k] *)
Lemma scan_lin fo i k cur cyc : lin_ok fo i = true -> stopk k ->
  exists x rdx, ring_scan cur (lin_tail_str i ++ k) 0 (clean_st cyc []) = Ok (x, rdx)
                /\ (r_cyc x, r_ces x) = spec_rings (l_rings i) cur (cyc, [])
                /\ bond_expr (lin_tail_str i ++ k) rdx = Ok (bo0_of i).
Proof.
  intros Hok Hk. destruct (lin_ok_parts fo i Hok) as (_ & Hr & Hm & _).
  unfold lin_tail_str, bo0_of. destruct (l_mult i) as [ds|] eqn:Em.
  - (* multiplied node: "|" stops the loop at once *)
    destruct Hm as (Er & _). rewrite Er.
    cbn [mult_str rings_str app]. rewrite clean_is_sym, scan_stop by reflexivity.
    eexists _, _. split; [reflexivity|]. split; reflexivity.
  - cbn [mult_str app].
    assert (Hx : exists c tl, close_str (l_close i) ++ k = c :: tl /\ stopper c).
    { destruct (l_close i) as [a|]; cbn [close_str app].
      - eexists _, _. split; [reflexivity|]. repeat split.
      - destruct Hk as (c & tl & -> & Hs & _). eexists _, _. split; [reflexivity|assumption]. }
    destruct Hx as (c & tl & Ex & Hs).
    rewrite <- !app_assoc. rewrite Ex.
    destruct (ring_scan_item cur (l_rings i) (l_bond i) c tl cyc Hr Hs) as (x & E & S).
    exists x, (length (rings_str false (l_rings i) ++ osym_str (l_bond i))). split; [exact E|]. split; [exact S|].
    rewrite app_assoc. now apply bond_of_prefix.
Qed.

(** ** the multiplier count (lines 202-214) *)
Definition nmon_expr (rest : pystr) (bond_order : Z) : res (Z * Z) :=
  match rest with
  | c :: _ => if Ascii.eqb c "|"%char then
                eon <- fnc0 rest fnc_eon ;;
                n <- py_int_full (py_slice rest 1 eon) ;;
                bo <- (match nth_error rest eon with
                       | Some cb => if sto_mem cb then symbol_to_order_lookup [cb] else Ok bond_order
                       | None => Ok bond_order
                       end) ;;
                Ok (n, bo)
              else Ok (1, bond_order)
  | [] => Ok (1, bond_order)
  end.
Lemma digit_not_space d : (d < 10)%nat -> is_space (digit_char d) = false.
Proof. intros H. do 10 (destruct d as [|d]; [reflexivity|]). lia. Qed.
Lemma digit_not_sign d : (d < 10)%nat ->
  Ascii.eqb (digit_char d) "+"%char = false /\ Ascii.eqb (digit_char d) "-"%char = false.
Proof. intros H. do 10 (destruct d as [|d]; [split; reflexivity|]). lia. Qed.
Lemma lstrip_digit d r : (d < 10)%nat -> lstrip (digit_char d :: r) = digit_char d :: r.
Proof. intros H. cbn [lstrip]. now rewrite digit_not_space. Qed.
Lemma int_body_digits ds : forallb (fun d => (d <? 10)%nat) ds = true -> forall acc : nat,
  int_body (digits_str ds) (Z.of_nat acc) IAfterDigit = Some (Z.of_nat (fold_left (fun a d => (a * 10 + d)%nat) ds acc)).
Proof.
  induction ds as [|d r IH]; intros H acc; [reflexivity|]. cbn [forallb] in H. apply andb_prop in H as [H1 H2].
  apply Nat.ltb_lt in H1. cbn [digits_str map int_body fold_left]. rewrite digit_is_digit, digit_val_char by assumption.
  replace (Z.of_nat acc * 10 + Z.of_nat d) with (Z.of_nat (acc * 10 + d)) by lia. now apply IH.
Qed.
Lemma py_int_full_digits ds : digits_ok ds = true -> py_int_full (digits_str ds) = Ok (Z.of_nat (digits_nat ds)).
Proof.
  intros H. destruct (digits_ok_all ds H) as [Hall Hne].
  assert (Hs : strip (digits_str ds) = digits_str ds).
  { unfold strip. destruct ds as [|d r]; [contradiction|]. pose proof Hall as Hall'.
    cbn [forallb] in Hall'. apply andb_prop in Hall' as [Hd _]. apply Nat.ltb_lt in Hd.
    cbn [digits_str map]. rewrite lstrip_digit by assumption.
    change (digit_char d :: map digit_char r) with (digits_str (d :: r)).
    destruct (exists_last Hne) as (ds' & z & E). rewrite E in *. unfold digits_str. rewrite map_app, rev_app_distr. cbn [map rev app].
    rewrite forallb_app in Hall. apply andb_prop in Hall as [_ Hz]. cbn [forallb] in Hz. rewrite andb_true_r in Hz.
    apply Nat.ltb_lt in Hz. rewrite lstrip_digit by assumption.
    rewrite <- rev_unit. now rewrite rev_involutive. }
  unfold py_int_full. rewrite Hs. destruct ds as [|d r]; [contradiction|].
  cbn [forallb] in Hall. apply andb_prop in Hall as [Hd Hr]. apply Nat.ltb_lt in Hd.
  cbn [digits_str map]. destruct (digit_not_sign d Hd) as [-> ->].
  cbn [int_body]. rewrite digit_is_digit, digit_val_char by assumption.
  change (0 * 10 + Z.of_nat d) with (Z.of_nat d). fold (digits_str r).
  rewrite (int_body_digits r Hr d). reflexivity.
Qed.

Lemma close_head c k : stopk k -> exists h tl, close_str c ++ k = h :: tl /\ str_in [h] fnc_eon = true /\ h <> "|"%char /\ sto_mem h = false.
Proof.
  intros Hk. destruct c as [a|]; cbn [close_str app].
  - eexists _, _. split; [reflexivity|]. split; [reflexivity|]. split; [discriminate|reflexivity].
  - destruct Hk as (h & tl & -> & _ & Hb & Hin & Hm). eexists _, _. split; [reflexivity|]. repeat split; assumption.
Qed.
Lemma digit_not_eon d : (d < 10)%nat -> str_in [digit_char d] fnc_eon = false.
Proof. intros H. do 10 (destruct d as [|d]; [reflexivity|]). lia. Qed.
Lemma sym_in_eon s : str_in [sym_char s] fnc_eon = true. Proof. destruct s; reflexivity. Qed.
(** the count text "|digits" ends at the first symbol or bracket *)
Lemma find_idx_count ds h tl : forallb (fun d => (d <? 10)%nat) ds = true -> str_in [h] fnc_eon = true ->
  find_idx ("|"%char :: digits_str ds ++ h :: tl) fnc_eon = Datatypes.S (length ds).
Proof.
  intros Hd Hh. cbn [find_idx]. change (str_in ["|"%char] fnc_eon) with false. cbv iota. f_equal.
  induction ds as [|d r IH]; cbn [digits_str map app find_idx length].
  - now rewrite Hh.
  - cbn [forallb] in Hd. apply andb_prop in Hd as [H1 H2]. apply Nat.ltb_lt in H1.
    rewrite digit_not_eon by assumption. f_equal. now apply IH.
Qed.

Lemma nmon_lin fo i k : lin_ok fo i = true -> stopk k ->
  nmon_expr (lin_tail_str i ++ k) (bo0_of i) = Ok (Z.of_nat (mult_val (l_mult i)), oord (l_bond i)).
Proof.
  intros Hok Hk. destruct (lin_ok_parts fo i Hok) as (_ & Hr & Hm & Hc).
  unfold lin_tail_str, bo0_of. rewrite <- !app_assoc. destruct (close_head (l_close i) k Hk) as (h & tl & Eh & Hin & Hnb & Hsm).
  destruct (l_mult i) as [ds|] eqn:Em.
  - destruct Hm as (Er & Hd & H1). rewrite Er. cbn [mult_str rings_str app mult_val]. rewrite Eh.
    destruct (digits_ok_all ds Hd) as [Hall _].
    (* the character behind the count, and what it says about the bond order *)
    assert (Hy : exists y ty, osym_str (l_bond i) ++ h :: tl = y :: ty /\ str_in [y] fnc_eon = true
                 /\ (if sto_mem y then symbol_to_order_lookup [y] else Ok default_bond_order) = Ok (oord (l_bond i))).
    { destruct (l_bond i) as [s|]; cbn [osym_str app oord].
      - eexists _, _. split; [reflexivity|]. split; [apply sym_in_eon|]. now rewrite sym_mem, sym_lookup.
      - eexists _, _. split; [reflexivity|]. split; [assumption|]. now rewrite Hsm. }
    destruct Hy as (y & ty & Ey & Hyin & Hybo). rewrite Ey.
    unfold nmon_expr. change (Ascii.eqb "|"%char "|"%char) with true. cbv iota. rewrite fnc0_spec.
    rewrite (find_idx_count ds y ty Hall Hyin). cbn [bind].
    unfold py_slice. cbn [skipn]. replace (Datatypes.S (length ds) - 1)%nat with (length (digits_str ds)) by (unfold digits_str; rewrite map_length; lia).
    rewrite firstn_app, Nat.sub_diag, firstn_all. cbn [firstn]. rewrite app_nil_r. rewrite py_int_full_digits by assumption. cbn [bind].
    assert (En : nth_error ("|"%char :: digits_str ds ++ y :: ty) (Datatypes.S (length ds)) = Some y).
    { cbn [nth_error]. rewrite nth_error_app2 by (unfold digits_str; rewrite map_length; lia).
      unfold digits_str. rewrite map_length, Nat.sub_diag. reflexivity. }
    rewrite En, Hybo. reflexivity.
  - cbn [mult_str app mult_val]. rewrite Eh. rewrite app_assoc.
    assert (Hp : Forall nobar (rings_str false (l_rings i) ++ osym_str (l_bond i)))
      by (apply Forall_app; split; [now apply nobar_rings|apply nobar_osym]).
    unfold nmon_expr. destruct (rings_str false (l_rings i) ++ osym_str (l_bond i)) as [|c p]; cbn [app].
    + destruct (Ascii.eqb_spec h "|"%char); [contradiction|reflexivity].
    + inversion Hp as [|? ? Hc0 _]; subst. destruct (Ascii.eqb_spec c "|"%char); [contradiction|reflexivity].
Qed.

(** ** does the branch end behind this node? (lines 255-256) *)
Definition lin_prefix (i : lin) : pystr := mult_str (l_mult i) ++ rings_str false (l_rings i) ++ osym_str (l_bond i).
Lemma lin_tail_split i k : lin_tail_str i ++ k = lin_prefix i ++ close_str (l_close i) ++ k.
Proof. unfold lin_tail_str, lin_prefix. now rewrite <- !app_assoc. Qed.
Lemma lin_prefix_inner fo i : lin_ok fo i = true -> Forall inner (lin_prefix i).
Proof.
  intros Hok. destruct (lin_ok_parts fo i Hok) as (_ & Hr & Hm & _).
  unfold lin_prefix. apply Forall_app; split; [|apply Forall_app; split; [now apply inner_rings|apply inner_osym]].
  apply inner_mult. destruct (l_mult i); [|exact I]. now destruct Hm as (_ & ? & _).
Qed.
Lemma look_lin fo i k : lin_ok fo i = true -> cont k ->
  exists io ic, fnc0 (lin_tail_str i ++ k) fnc_next_open = Ok io /\ fnc0 (lin_tail_str i ++ k) fnc_next_close = Ok ic
                /\ Nat.ltb ic io = is_some (l_close i).
Proof.
  intros Hok Hk. pose proof (lin_prefix_inner fo i Hok) as Hp. rewrite lin_tail_split, !fnc0_spec.
  rewrite (find_idx_inner _ fnc_next_open Hp incl_open), (find_idx_inner _ fnc_next_close Hp incl_close).
  eexists _, _. split; [reflexivity|]. split; [reflexivity|].
  destruct (l_close i) as [a|]; cbn [close_str app is_some].
  - cbn [find_idx]. change (str_in [")"%char] fnc_next_close) with true. change (str_in [")"%char] fnc_next_open) with false.
    cbv iota. apply Nat.ltb_lt. lia.
  - apply Nat.ltb_ge. destruct Hk; cbn; lia.
Qed.

(** ** closing a branch behind a node (lines 261-332, the part without a multiplier) *)
Lemma nth_error_after {A} (p : list A) c z j : nth_error (p ++ c :: z) (length p + Datatypes.S j) = nth_error z j.
Proof.
  rewrite nth_error_app2 by lia. replace (length p + Datatypes.S j - length p)%nat with (Datatypes.S j) by lia. reflexivity.
Qed.
Definition closed_state (st : rstate) (top : option Z) (stk : list (option Z)) (a : option sym) : rstate :=
  {| s_g := s_g st; s_current := s_current st; s_branch_anchor := rev stk;
     s_recipes := (match rev stk with [] => [] | _ => s_recipes st end);
     s_prev_node := top; s_branching := (match rev stk with [] => false | _ => true end);
     s_cycle := s_cycle st;
     s_pbo := (match a with Some s => Some (sym_ord s) | None => s_pbo st end);
     s_attributes := s_attributes st; s_base_anchor := s_base_anchor st |}.
Lemma close_lin fo i a k st top stk : lin_ok fo i = true -> l_close i = Some a -> cont k ->
  s_branch_anchor st = rev (top :: stk) ->
  close_branch (lin_tail_str i ++ k) 0 st = Ok (closed_state st top stk a, Datatypes.S (length (lin_prefix i))).
Proof.
  intros Hok Hc Hk Hba. pose proof (lin_prefix_inner fo i Hok) as Hp.
  unfold close_branch. rewrite Hba, rev_involutive. rewrite lin_tail_split, Hc. cbn [close_str app].
  change (fnc_from ?r ?c 0) with (fnc0 r c).
  rewrite fnc0_spec, (find_idx_inner _ fnc_eon_a Hp incl_eon_a). cbn [find_idx].
  change (str_in [")"%char] fnc_eon_a) with true. cbv iota. rewrite Nat.add_0_r. cbn [bind].
  rewrite !nth_error_after.
  destruct a as [s|]; cbn [osym_str app].
  - assert (E2 : ch_eq (nth_error (sym_char s :: k) 1) "|"%char = false) by (destruct Hk; reflexivity).
    cbn [nth_error] in *. rewrite E2. assert (E1 : ch_eq (Some (sym_char s)) "|"%char = false) by (destruct s; reflexivity).
    rewrite E1. cbn [orb andb]. rewrite sym_mem, sym_lookup. cbn [bind]. rewrite Nat.add_1_r. reflexivity.
  - rewrite Nat.add_1_r. destruct Hk; cbn; reflexivity.
Qed.

(** the closing loop (lines 268-354) *)
Definition close_all (rest : pystr) (st : rstate) : res rstate := close_loop (Datatypes.S (length rest)) rest 0 st.
Lemma close_loop_0 f rest st : close_loop (Datatypes.S f) rest 0 st =
  (io <- fnc0 rest fnc_next_open ;; ic <- fnc0 rest fnc_next_close ;;
   if Nat.ltb ic io then '(st1, pos1) <- close_branch rest 0 st ;; close_loop f rest pos1 st1 else Ok st).
Proof. reflexivity. Qed.
Lemma close_loop_stop f rest pos st : (pos <= length rest)%nat ->
  Nat.ltb (find_idx (skipn pos rest) fnc_next_close) (find_idx (skipn pos rest) fnc_next_open) = false ->
  close_loop (Datatypes.S f) rest pos st = Ok st.
Proof.
  intros Hpos H. cbn [close_loop]. rewrite !fnc_from_spec by assumption. cbn [bind].
  assert (E : Nat.ltb (pos + find_idx (skipn pos rest) fnc_next_close) (pos + find_idx (skipn pos rest) fnc_next_open) = false).
  { apply Nat.ltb_ge. apply Nat.ltb_ge in H. lia. }
  now rewrite E.
Qed.
Lemma close_loop_inv {T} (f : rstate -> T) :
  (forall rest pos st st1 p1, close_branch rest pos st = Ok (st1, p1) -> f st1 = f st) ->
  forall fuel rest pos st st1, close_loop fuel rest pos st = Ok st1 -> f st1 = f st.
Proof.
  intros Hf. induction fuel as [|n IH]; intros rest pos st st1 H; [discriminate|]. cbn [close_loop] in H.
  destruct (fnc_from rest fnc_next_open pos) as [io|]; cbn [bind] in H; [|discriminate].
  destruct (fnc_from rest fnc_next_close pos) as [ic|]; cbn [bind] in H; [|discriminate].
  destruct (Nat.ltb ic io); [|now injection H as <-].
  destruct (close_branch rest pos st) as [[st2 p2]|] eqn:E; cbn [bind] in H; [|discriminate].
  rewrite (IH _ _ _ _ H). now apply (Hf rest pos st st2 p2).
Qed.
Lemma close_branch_fields rest pos st st1 p1 : close_branch rest pos st = Ok (st1, p1) ->
  s_cycle st1 = s_cycle st /\ s_attributes st1 = s_attributes st.
Proof.
  unfold close_branch. destruct (rev (s_branch_anchor st)) as [|a ra]; [discriminate|].
  destruct (fnc_from rest fnc_eon_a pos) as [eon_a|]; cbn [bind]; [|discriminate].
  match goal with |- (bind ?m _ = _ -> _) => destruct m as [[[[[[g cu] pn] ba] rc] pb]|] end; cbn [bind]; [|discriminate].
  intros H. injection H as <- _. split; reflexivity.
Qed.
Lemma close_all_cycle rest st st1 : close_all rest st = Ok st1 -> s_cycle st1 = s_cycle st.
Proof. apply (close_loop_inv s_cycle). intros r p s0 s1 p1 H. now destruct (close_branch_fields r p s0 s1 p1 H). Qed.
Lemma close_all_attr rest st st1 : close_all rest st = Ok st1 -> s_attributes st1 = s_attributes st.
Proof. apply (close_loop_inv s_attributes). intros r p s0 s1 p1 H. now destruct (close_branch_fields r p s0 s1 p1 H). Qed.
Lemma close_all_stop rest st io ic : fnc0 rest fnc_next_open = Ok io -> fnc0 rest fnc_next_close = Ok ic ->
  Nat.ltb ic io = false -> close_all rest st = Ok st.
Proof. intros Eio Eic Elt. unfold close_all. rewrite close_loop_0, Eio, Eic. cbn [bind]. now rewrite Elt. Qed.
Lemma skipn_after {A} (p : list A) c z : skipn (Datatypes.S (length p)) (p ++ c :: z) = z.
Proof. induction p as [|x r IH]; [reflexivity|]. cbn [length app skipn]. exact IH. Qed.
(** the first round when the text behind the node is "inner characters, then ')'" *)
Lemma close_all_first P z st : Forall inner P ->
  close_all (P ++ ")"%char :: z) st
  = ('(st1, pos1) <- close_branch (P ++ ")"%char :: z) 0 st ;; close_loop (length (P ++ ")"%char :: z)) (P ++ ")"%char :: z) pos1 st1).
Proof.
  intros HP. unfold close_all. rewrite close_loop_0, !fnc0_spec.
  rewrite (find_idx_inner _ fnc_next_open HP incl_open), (find_idx_inner _ fnc_next_close HP incl_close). cbn [bind find_idx].
  change (str_in [")"%char] fnc_next_close) with true. change (str_in [")"%char] fnc_next_open) with false. cbv iota.
  assert (E : Nat.ltb (length P + 0) (length P + Datatypes.S (find_idx z fnc_next_open)) = true) by (apply Nat.ltb_lt; lia).
  now rewrite E.
Qed.
Lemma close_loop_stop_after P z st :
  Nat.ltb (find_idx z fnc_next_close) (find_idx z fnc_next_open) = false ->
  close_loop (length (P ++ ")"%char :: z)) (P ++ ")"%char :: z) (Datatypes.S (length P)) st = Ok st.
Proof.
  intros H. assert (El : length (P ++ ")"%char :: z) = Datatypes.S (length P + length z)) by (rewrite app_length; cbn [length]; lia).
  rewrite El. apply close_loop_stop; [rewrite El; lia|]. now rewrite skipn_after.
Qed.
(** behind a closing without multiplier, in front of the next node, no further closing *)
Lemma cont_no_close a k : cont k ->
  Nat.ltb (find_idx (osym_str a ++ k) fnc_next_close) (find_idx (osym_str a ++ k) fnc_next_open) = false.
Proof. intros Hk. destruct a as [s|]; [destruct s|]; destruct Hk; reflexivity. Qed.
Lemma close_all_lin_some fo i a k st top stk : lin_ok fo i = true -> l_close i = Some a -> cont k ->
  s_branch_anchor st = rev (top :: stk) ->
  close_all (lin_tail_str i ++ k) st = Ok (closed_state st top stk a).
Proof.
  intros Hok Hc Hk Hba. unfold close_all. rewrite close_loop_0.
  destruct (look_lin fo i k Hok Hk) as (io & ic & -> & -> & Elt). cbn [bind]. rewrite Elt, Hc. cbn [is_some].
  rewrite (close_lin fo i a k st top stk Hok Hc Hk Hba). cbn [bind].
  assert (El : length (lin_tail_str i ++ k) = Datatypes.S (length (lin_prefix i) + length (osym_str a ++ k))).
  { rewrite lin_tail_split, Hc. cbn [close_str app]. rewrite app_length. cbn [length]. lia. }
  rewrite El. apply close_loop_stop; [rewrite El; lia|].
  rewrite lin_tail_split, Hc. cbn [close_str app]. rewrite skipn_after. now apply cont_no_close.
Qed.
Lemma close_all_lin_none fo i k st : lin_ok fo i = true -> l_close i = None -> cont k ->
  close_all (lin_tail_str i ++ k) st = Ok st.
Proof.
  intros Hok Hc Hk. destruct (look_lin fo i k Hok Hk) as (io & ic & Eio & Eic & Elt). rewrite Hc in Elt.
  now apply (close_all_stop _ st io ic).
Qed.

(** ** one iteration of the reader's loop, restated over the pieces analysed above *)
Definition opened (st : rstate) (pc : ascii) : res (bool * list (option Z) * recipes_t) :=
  if Ascii.eqb pc "("%char then
    a <- (match s_prev_node st with Some p => node_attrs (s_g st) p | None => Err EKey end) ;;
    Ok (true, s_branch_anchor st ++ [s_prev_node st], rec_set (s_prev_node st) [(1, a, Some 1)] (rec_del (s_prev_node st) (s_recipes st)))
  else Ok (s_branching st, s_branch_anchor st, s_recipes st).
Lemma node_step_eq fo st pc nm rest :
  node_step fo st pc nm rest =
  ('(branching, branch_anchor, recipes) <- opened st pc ;;
   '(rs, rdx) <- ring_scan (s_current st) rest 0 (clean_st (s_cycle st) []) ;;
   bond_order <- bond_expr rest rdx ;;
   '(n_mon, bond_order) <- nmon_expr rest bond_order ;;
   a <- parse_graph_base_node fo nm ;;
   recipes <- (if branching then
                 match rev branch_anchor with
                 | [] => Err EIndex
                 | k :: _ => Ok (rec_append k (n_mon, a, s_pbo st) recipes)
                 end
               else Ok recipes) ;;
   '(g, current, prev_node, pbo) <-
      add_nodes (Z.to_nat n_mon) a bond_order (r_ces rs) (s_g st) (s_current st) (s_prev_node st) (s_pbo st) ;;
   let st1 := {| s_g := g; s_current := current; s_branch_anchor := branch_anchor; s_recipes := recipes;
                 s_prev_node := prev_node; s_branching := branching; s_cycle := r_cyc rs;
                 s_pbo := pbo; s_attributes := Some a; s_base_anchor := s_base_anchor st |} in
   close_all rest st1).
Proof. reflexivity. Qed.

(** the node loop against the machine's copies *)
Lemma add_nodes_copies : forall n a bo g cur prev pbo pend,
  ahas (S "node_for_adding") a = false -> ((1 <= n)%nat -> forall p, prev = Some p -> pbo = Some pend) ->
  add_nodes n a bo [] g cur prev pbo
  = Ok (let '(g', nx, pv) := m_copies n a g cur prev pend in (g', nx, pv, match n with O => pbo | _ => Some bo end)).
Proof.
  induction n as [|n IH]; intros a bo g cur prev pbo pend Ha Hp; [reflexivity|].
  cbn [add_nodes m_copies]. unfold py_add_node. rewrite Ha. cbn [bind add_cycle_edges].
  assert (E : match prev with Some p => add_edge (add_node g cur a) p cur (order_attr pbo) | None => add_node g cur a end
            = match prev with Some p => add_edge (add_node g cur a) p cur (eorder pend) | None => add_node g cur a end).
  { destruct prev as [p|]; [|reflexivity]. now rewrite (Hp ltac:(lia) p eq_refl). }
  rewrite E. rewrite (IH a bo _ (cur + 1) (Some cur) _ 1 Ha).
  - destruct (m_copies n a _ (cur + 1) (Some cur) 1) as [[g' nx] pv]. now destruct n.
  - intros Hn p _. destruct n; [lia|reflexivity].
Qed.
Lemma add_nodes_one a bo ces g cur prev pbo pend :
  ahas (S "node_for_adding") a = false -> (forall p, prev = Some p -> pbo = Some pend) ->
  add_nodes 1 a bo ces g cur prev pbo
  = (let '(g2, nx, pv) := m_copies 1 a g cur prev pend in g3 <- add_cycle_edges g2 ces ;; Ok (g3, nx, pv, Some bo)).
Proof.
  intros Ha Hp. cbn [add_nodes m_copies]. unfold py_add_node. rewrite Ha. cbn [bind].
  destruct prev as [p|]; [rewrite (Hp p eq_refl)|]; reflexivity.
Qed.
Lemma m_copies_prev n a : forall g cur prev pend, (1 <= n)%nat ->
  exists g' nx last, m_copies n a g cur prev pend = (g', nx, Some last) /\ (n = 1%nat -> last = cur).
Proof.
  induction n as [|n IH]; intros g cur prev pend H; [lia|]. cbn [m_copies].
  destruct n as [|n].
  - cbn [m_copies]. eexists _, _, _. split; [reflexivity|]. reflexivity.
  - destruct (IH (match prev with Some p => add_edge (add_node g cur a) p cur (eorder pend) | None => add_node g cur a end)
               (cur + 1) (Some cur) 1) as (g' & nx & last & E & _); [lia|].
    rewrite E. eexists _, _, _. split; [reflexivity|]. intros; lia.
Qed.

(** ** the effect of one flat item on the machine, in closed form *)
Definition item_effect (fo : float_oracle) (i : lin) (x : mstate) : res mstate :=
  a <- parse_graph_base_node fo (l_name i) ;;
  let stack0 := if l_open i then m_prev x :: m_stack x else m_stack x in
  let '(g2, nx, pv) := m_copies (mult_val (l_mult i)) a (m_g x) (m_next x) (m_prev x) (m_pend x) in
  let cc := spec_rings (l_rings i) (m_next x) (m_rings x, []) in
  g3 <- add_cycle_edges g2 (snd cc) ;;
  match l_close i with
  | None => Ok {| m_g := g3; m_next := nx; m_prev := pv; m_pend := oord (l_bond i); m_stack := stack0; m_rings := fst cc |}
  | Some a' =>
      match stack0 with
      | [] => Err EAssert
      | top :: stk => Ok {| m_g := g3; m_next := nx; m_prev := top; m_pend := oord a'; m_stack := stk; m_rings := fst cc |}
      end
  end.

Lemma m_item fo i ts x : lin_ok fo i = true ->
  m_run fo (lin_toks i ++ ts) x = (x1 <- item_effect fo i x ;; m_run fo ts x1).
Proof.
  intros Hok. destruct (lin_ok_parts fo i Hok) as (Hn & Hr & Hm & Hc).
  unfold lin_toks, item_effect. rewrite <- !app_assoc.
  assert (Hopen : forall ts', m_run fo ((if l_open i then [TOpen] else []) ++ ts') x
            = m_run fo ts' {| m_g := m_g x; m_next := m_next x; m_prev := m_prev x; m_pend := m_pend x;
                              m_stack := (if l_open i then m_prev x :: m_stack x else m_stack x); m_rings := m_rings x |}).
  { intros ts'. destruct (l_open i); [reflexivity|]. destruct x; reflexivity. }
  rewrite Hopen. cbn [app m_run m_step m_g m_next m_prev m_pend m_stack m_rings].
  destruct (parse_graph_base_node fo (l_name i)) as [a|e]; [|reflexivity]. cbn [bind].
  set (n := mult_val (l_mult i)).
  assert (Hn1 : (1 <= n)%nat) by (subst n; unfold mult_val; destruct (l_mult i); [tauto|lia]).
  destruct (m_copies_prev n a (m_g x) (m_next x) (m_prev x) (m_pend x) Hn1) as (g2 & nx & last & E & Hlast).
  rewrite E. cbn [bind]. rewrite <- !app_assoc. rewrite (m_run_rings fo last) by reflexivity. cbn [m_g m_rings].
  assert (Ecc : spec_rings (l_rings i) last (m_rings x, []) = spec_rings (l_rings i) (m_next x) (m_rings x, [])).
  { destruct (l_mult i) as [ds|] eqn:Em.
    - destruct Hm as (-> & _). reflexivity.
    - rewrite Hlast by reflexivity. reflexivity. }
  rewrite Ecc. destruct (add_cycle_edges g2 _) as [g3|e]; [|reflexivity]. cbn [bind].
  unfold with_graph_rings. cbn [m_next m_prev m_pend m_stack].
  destruct (l_close i) as [a'|].
  - rewrite Hc. cbn [osym_tok app m_run m_step m_stack].
    destruct (if l_open i then m_prev x :: m_stack x else m_stack x) as [|top stk]; [reflexivity|]. cbn [bind].
    destruct a' as [s|]; reflexivity.
  - cbn [app]. destruct (l_bond i) as [s|]; reflexivity.
Qed.

(** ** the simulation relation between the reader's loop state and the machine state *)
Definition Rel (st : rstate) (x : mstate) : Prop :=
  s_g st = m_g x /\ s_current st = m_next x /\ s_prev_node st = m_prev x /\ s_cycle st = m_rings x
  /\ s_branch_anchor st = rev (m_stack x) /\ s_branching st = negb (is_nil (m_stack x))
  /\ (forall p, m_prev x = Some p -> s_pbo st = Some (m_pend x) /\ s_attributes st <> None).

Lemma node_step_lin fo i k st x pc :
  lin_ok fo i = true -> cont k -> Rel st x ->
  (Ascii.eqb pc "("%char = l_open i) -> (l_open i = true -> exists p, m_prev x = Some p /\ has_node (m_g x) p = true) ->
  (l_close i <> None -> (if l_open i then m_prev x :: m_stack x else m_stack x) <> []) ->
  match item_effect fo i x with
  | Ok x1 => exists st1, node_step fo st pc (l_name i) (lin_tail_str i ++ k) = Ok st1 /\ Rel st1 x1
                         /\ (m_stack x1 = [] -> (m_stack x = [] -> s_recipes st = []) -> s_recipes st1 = [])
  | Err e => node_step fo st pc (l_name i) (lin_tail_str i ++ k) = Err e
  end.
Proof.
  intros Hok Hk (Rg & Rc & Rp & Rcy & Rba & Rbr & Rpb) Hpc Hop Hst.
  destruct (lin_ok_parts fo i Hok) as (Hn & Hr & Hm & Hc).
  rewrite node_step_eq. unfold item_effect.
  (* 142-148 *)
  set (stack0 := if l_open i then m_prev x :: m_stack x else m_stack x).
  assert (Hopened : exists rc, opened st pc = Ok (negb (is_nil stack0), rev stack0, rc) /\ (l_open i = false -> rc = s_recipes st)).
  { unfold opened, stack0. rewrite Hpc. destruct (l_open i).
    - destruct (Hop eq_refl) as (p & Ep & Hp). rewrite Rp, Ep, Rg.
      unfold node_attrs, has_node in *. destruct (gfind p (m_g x)) as [nr|]; [|discriminate]. cbn [bind].
      eexists. rewrite Rba. split; [reflexivity|discriminate].
    - eexists. rewrite Rbr, Rba. split; reflexivity. }
  destruct Hopened as (rc & -> & Hrc0). cbn [bind].
  (* 150-200 *)
  destruct (scan_lin fo i k (s_current st) (s_cycle st) Hok (cont_stopper k Hk)) as (xr & rdx & Escan & Sr & Ebond).
  rewrite Escan. cbn [bind]. rewrite Ebond. cbn [bind].
  (* 202-214 *)
  rewrite (nmon_lin fo i k Hok (cont_stopper k Hk)). cbn [bind]. rewrite Nat2Z.id.
  (* 218-220 *)
  destruct (parse_graph_base_node fo (l_name i)) as [a|e] eqn:Ea; cbn [bind]; [|reflexivity].
  assert (Ha : ahas (S "node_for_adding") a = false).
  { unfold name_ok in Hn. rewrite Ea in Hn. apply andb_prop in Hn as [_ Hn]. now destruct (ahas _ a). }
  (* 225-226 *)
  assert (Hrec : exists rc', (if negb (is_nil stack0) then
                                match rev (rev stack0) with
                                | [] => Err EIndex
                                | k0 :: _ => Ok (rec_append k0 (Z.of_nat (mult_val (l_mult i)), a, s_pbo st) rc)
                                end else Ok rc) = Ok rc' /\ (stack0 = [] -> rc' = rc)).
  { rewrite rev_involutive. destruct stack0; cbn; eexists; (split; [reflexivity|]); [reflexivity|discriminate]. }
  destruct Hrec as (rc' & -> & Hrc1). cbn [bind].
  (* 228-250 *)
  rewrite Rcy, Rc in Sr. rewrite Rg, Rc, Rp.
  assert (Hpp : forall p, m_prev x = Some p -> s_pbo st = Some (m_pend x)) by (intros p Hp'; now destruct (Rpb p Hp')).
  assert (Hadd : add_nodes (mult_val (l_mult i)) a (oord (l_bond i)) (r_ces xr) (m_g x) (m_next x) (m_prev x) (s_pbo st)
               = (let '(g2, nx, pv) := m_copies (mult_val (l_mult i)) a (m_g x) (m_next x) (m_prev x) (m_pend x) in
                  g3 <- add_cycle_edges g2 (r_ces xr) ;; Ok (g3, nx, pv, Some (oord (l_bond i))))).
  { destruct (l_mult i) as [ds|] eqn:Em; cbn [mult_val].
    - destruct Hm as (Er & Hd & H1). rewrite Er in Sr. cbn [spec_rings] in Sr. injection Sr as _ Eces.
      rewrite Eces. rewrite (add_nodes_copies _ a _ _ _ _ _ (m_pend x) Ha) by (intros _; exact Hpp).
      destruct (m_copies (digits_nat ds) a (m_g x) (m_next x) (m_prev x) (m_pend x)) as [[g2 nx] pv].
      cbn [add_cycle_edges bind]. destruct (digits_nat ds); [lia|reflexivity].
    - now apply add_nodes_one. }
  rewrite Hadd. clear Hadd.
  assert (Hn1 : (1 <= mult_val (l_mult i))%nat) by (unfold mult_val; destruct (l_mult i); [tauto|lia]).
  destruct (m_copies_prev (mult_val (l_mult i)) a (m_g x) (m_next x) (m_prev x) (m_pend x) Hn1) as (g2 & nx & last & -> & _).
  pose proof (f_equal snd Sr) as Eces. cbn [snd] in Eces. pose proof (f_equal fst Sr) as Ecyc. cbn [fst] in Ecyc.
  rewrite Eces. destruct (add_cycle_edges g2 _) as [g3|e]; cbn [bind]; [|reflexivity].
  (* 255-332 *)
  destruct (l_close i) as [a'|] eqn:Ecl.
  - destruct stack0 as [|top stk] eqn:Es; [exfalso; apply Hst; [discriminate|exact Es]|].
    rewrite (close_all_lin_some fo i a' k _ top stk Hok Ecl Hk) by reflexivity.
    eexists. split; [reflexivity|]. split.
    + unfold Rel, closed_state. cbn.
      repeat split; try reflexivity; try assumption.
      * destruct stk as [|s0 t0]; [reflexivity|]. cbn [rev]. destruct (rev t0); reflexivity.
      * rewrite Hc. now destruct a'.
      * discriminate.
    + cbn [m_stack closed_state s_recipes]. intros -> _. reflexivity.
  - rewrite (close_all_lin_none fo i k _ Hok Ecl Hk). eexists. split; [reflexivity|]. split.
    + unfold Rel. cbn. repeat split; try reflexivity; try assumption. discriminate.
    + cbn [m_stack s_recipes]. intros Es H0. rewrite (Hrc1 Es). unfold stack0 in Es. destruct (l_open i); [discriminate|].
      rewrite (Hrc0 eq_refl). now apply H0.
Qed.

(** the part of one iteration in front of the closing loop (lines 139-266) *)
Definition node_part (fo : float_oracle) (st : rstate) (pc : ascii) (nm rest : pystr) : res rstate :=
  '(branching, branch_anchor, recipes) <- opened st pc ;;
  '(rs, rdx) <- ring_scan (s_current st) rest 0 (clean_st (s_cycle st) []) ;;
  bond_order <- bond_expr rest rdx ;;
  '(n_mon, bond_order) <- nmon_expr rest bond_order ;;
  a <- parse_graph_base_node fo nm ;;
  recipes <- (if branching then
                match rev branch_anchor with
                | [] => Err EIndex
                | k :: _ => Ok (rec_append k (n_mon, a, s_pbo st) recipes)
                end
              else Ok recipes) ;;
  '(g, current, prev_node, pbo) <-
     add_nodes (Z.to_nat n_mon) a bond_order (r_ces rs) (s_g st) (s_current st) (s_prev_node st) (s_pbo st) ;;
  Ok {| s_g := g; s_current := current; s_branch_anchor := branch_anchor; s_recipes := recipes;
        s_prev_node := prev_node; s_branching := branching; s_cycle := r_cyc rs;
        s_pbo := pbo; s_attributes := Some a; s_base_anchor := s_base_anchor st |}.
Lemma node_step_parts fo st pc nm rest :
  node_step fo st pc nm rest = (st1 <- node_part fo st pc nm rest ;; close_all rest st1).
Proof.
  rewrite node_step_eq. unfold node_part.
  destruct (opened st pc) as [[[br ba] rc]|]; cbn [bind]; [|reflexivity].
  destruct (ring_scan _ _ _ _) as [[rs rdx]|]; cbn [bind]; [|reflexivity].
  destruct (bond_expr rest rdx) as [bo|]; cbn [bind]; [|reflexivity].
  destruct (nmon_expr rest bo) as [[n bo2]|]; cbn [bind]; [|reflexivity].
  destruct (parse_graph_base_node fo nm) as [a|]; cbn [bind]; [|reflexivity].
  match goal with |- (bind ?m _ = _) => destruct m as [rc'|] end; cbn [bind]; [|reflexivity].
  destruct (add_nodes _ _ _ _ _ _ _ _) as [[[[g cu] pn] pb]|]; cbn [bind]; reflexivity.
Qed.
(** the node part of a flat item that closes nothing itself, in front of ANY text that ends the
    look-ahead (the next node, the end, or closing parentheses) *)
Lemma node_part_lin0 fo i k st x pc :
  lin_ok fo i = true -> l_close i = None -> stopk k -> Rel st x ->
  (Ascii.eqb pc "("%char = l_open i) -> (l_open i = true -> exists p, m_prev x = Some p /\ has_node (m_g x) p = true) ->
  match item_effect fo i x with
  | Ok x1 => exists st1, node_part fo st pc (l_name i) (lin_tail_str i ++ k) = Ok st1 /\ Rel st1 x1
                         /\ s_attributes st1 <> None /\ s_pbo st1 = Some (oord (l_bond i))
                         /\ (m_stack x1 = [] -> (m_stack x = [] -> s_recipes st = []) -> s_recipes st1 = [])
  | Err e => node_part fo st pc (l_name i) (lin_tail_str i ++ k) = Err e
  end.
Proof.
  intros Hok Ecl Hk (Rg & Rc & Rp & Rcy & Rba & Rbr & Rpb) Hpc Hop.
  destruct (lin_ok_parts fo i Hok) as (Hn & Hr & Hm & Hc).
  unfold node_part, item_effect.
  (* 142-148 *)
  set (stack0 := if l_open i then m_prev x :: m_stack x else m_stack x).
  assert (Hopened : exists rc, opened st pc = Ok (negb (is_nil stack0), rev stack0, rc) /\ (l_open i = false -> rc = s_recipes st)).
  { unfold opened, stack0. rewrite Hpc. destruct (l_open i).
    - destruct (Hop eq_refl) as (p & Ep & Hp). rewrite Rp, Ep, Rg.
      unfold node_attrs, has_node in *. destruct (gfind p (m_g x)) as [nr|]; [|discriminate]. cbn [bind].
      eexists. rewrite Rba. split; [reflexivity|discriminate].
    - eexists. rewrite Rbr, Rba. split; reflexivity. }
  destruct Hopened as (rc & -> & Hrc0). cbn [bind].
  (* 150-200 *)
  destruct (scan_lin fo i k (s_current st) (s_cycle st) Hok Hk) as (xr & rdx & Escan & Sr & Ebond).
  rewrite Escan. cbn [bind]. rewrite Ebond. cbn [bind].
  (* 202-214 *)
  rewrite (nmon_lin fo i k Hok Hk). cbn [bind]. rewrite Nat2Z.id.
  (* 218-220 *)
  destruct (parse_graph_base_node fo (l_name i)) as [a|e] eqn:Ea; cbn [bind]; [|reflexivity].
  assert (Ha : ahas (S "node_for_adding") a = false).
  { unfold name_ok in Hn. rewrite Ea in Hn. apply andb_prop in Hn as [_ Hn]. now destruct (ahas _ a). }
  (* 225-226 *)
  assert (Hrec : exists rc', (if negb (is_nil stack0) then
                                match rev (rev stack0) with
                                | [] => Err EIndex
                                | k0 :: _ => Ok (rec_append k0 (Z.of_nat (mult_val (l_mult i)), a, s_pbo st) rc)
                                end else Ok rc) = Ok rc' /\ (stack0 = [] -> rc' = rc)).
  { rewrite rev_involutive. destruct stack0; cbn; eexists; (split; [reflexivity|]); [reflexivity|discriminate]. }
  destruct Hrec as (rc' & -> & Hrc1). cbn [bind].
  (* 228-250 *)
  rewrite Rcy, Rc in Sr. rewrite Rg, Rc, Rp.
  assert (Hpp : forall p, m_prev x = Some p -> s_pbo st = Some (m_pend x)) by (intros p Hp'; now destruct (Rpb p Hp')).
  assert (Hadd : add_nodes (mult_val (l_mult i)) a (oord (l_bond i)) (r_ces xr) (m_g x) (m_next x) (m_prev x) (s_pbo st)
               = (let '(g2, nx, pv) := m_copies (mult_val (l_mult i)) a (m_g x) (m_next x) (m_prev x) (m_pend x) in
                  g3 <- add_cycle_edges g2 (r_ces xr) ;; Ok (g3, nx, pv, Some (oord (l_bond i))))).
  { destruct (l_mult i) as [ds|] eqn:Em; cbn [mult_val].
    - destruct Hm as (Er & Hd & H1). rewrite Er in Sr. cbn [spec_rings] in Sr. injection Sr as _ Eces.
      rewrite Eces. rewrite (add_nodes_copies _ a _ _ _ _ _ (m_pend x) Ha) by (intros _; exact Hpp).
      destruct (m_copies (digits_nat ds) a (m_g x) (m_next x) (m_prev x) (m_pend x)) as [[g2 nx] pv].
      cbn [add_cycle_edges bind]. destruct (digits_nat ds); [lia|reflexivity].
    - now apply add_nodes_one. }
  rewrite Hadd. clear Hadd.
  assert (Hn1 : (1 <= mult_val (l_mult i))%nat) by (unfold mult_val; destruct (l_mult i); [tauto|lia]).
  destruct (m_copies_prev (mult_val (l_mult i)) a (m_g x) (m_next x) (m_prev x) (m_pend x) Hn1) as (g2 & nx & last & -> & _).
  pose proof (f_equal snd Sr) as Eces. cbn [snd] in Eces. pose proof (f_equal fst Sr) as Ecyc. cbn [fst] in Ecyc.
  rewrite Eces. destruct (add_cycle_edges g2 _) as [g3|e]; cbn [bind]; [|reflexivity].
  rewrite Ecl. eexists. split; [reflexivity|]. split; [|split; [discriminate|split; [reflexivity|]]].
  - unfold Rel. cbn. repeat split; try reflexivity; try assumption. discriminate.
  - cbn [m_stack s_recipes]. intros Es H0. rewrite (Hrc1 Es). unfold stack0 in Es. destruct (l_open i); [discriminate|].
    rewrite (Hrc0 eq_refl). now apply H0.
Qed.

(** ** invariants of the machine that the induction needs *)
Definition all_some (l : list (option Z)) : Prop := Forall (fun o => o <> None) l.
Lemma item_effect_inv fo i x x1 : lin_ok fo i = true -> item_effect fo i x = Ok x1 ->
  all_some (m_stack x) -> (l_open i = true -> m_prev x <> None) ->
  all_some (m_stack x1) /\ m_prev x1 <> None
  /\ (let d1 := if l_open i then Datatypes.S (length (m_stack x)) else length (m_stack x) in
      match l_close i with Some _ => d1 = Datatypes.S (length (m_stack x1)) | None => d1 = length (m_stack x1) end).
Proof.
  intros Hok E Hs Hop. destruct (lin_ok_parts fo i Hok) as (_ & _ & Hm & _). unfold item_effect in E.
  destruct (parse_graph_base_node fo (l_name i)) as [a|]; [|discriminate]. cbn [bind] in E.
  assert (Hn1 : (1 <= mult_val (l_mult i))%nat) by (unfold mult_val; destruct (l_mult i); [tauto|lia]).
  destruct (m_copies_prev (mult_val (l_mult i)) a (m_g x) (m_next x) (m_prev x) (m_pend x) Hn1) as (g2 & nx & last & Ec & _).
  rewrite Ec in E. destruct (add_cycle_edges g2 _) as [g3|]; [|discriminate]. cbn [bind] in E.
  assert (Hs0 : all_some (if l_open i then m_prev x :: m_stack x else m_stack x)).
  { destruct (l_open i); [|assumption]. constructor; [now apply Hop|assumption]. }
  destruct (l_close i) as [a'|].
  - destruct (l_open i); cbn [length] in *.
    + injection E as <-. cbn. inversion Hs0; subst. repeat split; assumption.
    + destruct (m_stack x) as [|top stk] eqn:Ex; [discriminate|]. injection E as <-. cbn.
      inversion Hs0; subst. repeat split; assumption.
  - injection E as <-. cbn. repeat split; [assumption|discriminate|destruct (l_open i); reflexivity].
Qed.

(** the machine's graph: node keys are below the counter; the node to attach to, the anchors on the
    stack and the nodes in the ring table exist *)
Definition exists_in (g : graph) (o : option Z) : Prop := forall p, o = Some p -> has_node g p = true.
Record mwf (x : mstate) : Prop := {
  w_fresh : forall k, has_node (m_g x) k = true -> k < m_next x;
  w_prev : exists_in (m_g x) (m_prev x);
  w_stack : Forall (exists_in (m_g x)) (m_stack x);
  w_rings : Forall (fun e => has_node (m_g x) (fst (snd e)) = true) (m_rings x) }.
Lemma mwf_init : mwf m_init.
Proof. split; cbn; try constructor; intros; discriminate. Qed.

Lemma m_copies_nodes : forall n a g next prev pend g' nx pv,
  exists_in g prev -> m_copies n a g next prev pend = (g', nx, pv) ->
  nx = next + Z.of_nat n
  /\ (forall k, has_node g' k = has_node g k || ((next <=? k) && (k <? next + Z.of_nat n)))
  /\ ((1 <= n)%nat -> pv = Some (next + Z.of_nat n - 1)).
Proof.
  induction n as [|n IH]; intros a g next prev pend g' nx pv Hp E.
  - cbn in E. injection E as <- <- <-. split; [lia|]. split; [|lia].
    intros k. destruct (next <=? k) eqn:E1; [|now rewrite orb_false_r]. cbn. assert (k <? next + 0 = false) by (apply Z.ltb_ge; apply Z.leb_le in E1; lia).
    rewrite H. now rewrite orb_false_r.
  - cbn [m_copies] in E.
    set (g2 := match prev with Some p => add_edge (add_node g next a) p next (eorder pend) | None => add_node g next a end) in *.
    assert (Hg2 : forall k, has_node g2 k = has_node g k || Z.eqb next k).
    { intros k. unfold g2. destruct prev as [p|].
      - rewrite has_node_add_edge, has_node_add_node. specialize (Hp p eq_refl).
        destruct (Z.eqb_spec p k) as [->|]; [rewrite Hp; now destruct (next =? k)|]. now destruct (has_node g k), (next =? k).
      - apply has_node_add_node. }
    destruct (IH a g2 (next + 1) (Some next) 1 g' nx pv) as (E1 & E2 & E3); [|exact E|].
    { intros p Ep. injection Ep as <-. rewrite Hg2, Z.eqb_refl. apply orb_true_r. }
    split; [lia|]. split.
    + intros k. rewrite E2, Hg2. rewrite <- orb_assoc. f_equal.
      destruct (Z.eqb_spec next k), (Z.leb_spec (next + 1) k), (Z.ltb_spec k (next + 1 + Z.of_nat n)),
               (Z.leb_spec next k), (Z.ltb_spec k (next + Z.of_nat (Datatypes.S n))); cbn; try reflexivity; lia.
    + intros _. destruct n as [|n].
      * cbn in E. injection E as _ _ <-. f_equal. lia.
      * rewrite E3 by lia. f_equal. lia.
Qed.
Lemma add_cycle_edges_nodes : forall ces g g',
  Forall (fun e => has_node g (fst (fst e)) = true /\ has_node g (snd (fst e)) = true) ces ->
  add_cycle_edges g ces = Ok g' -> forall k, has_node g' k = has_node g k.
Proof.
  induction ces as [|[[u v] o] r IH]; intros g g' Hf E k.
  - cbn in E. now injection E as <-.
  - cbn [add_cycle_edges] in E. destruct (has_edge g u v); [discriminate|].
    inversion Hf as [|? ? [Hu Hv] Hr]; subst. cbn [fst snd] in Hu, Hv.
    assert (Hk : forall k0, has_node (add_edge g u v (order_attr (Some o))) k0 = has_node g k0).
    { intros k0. rewrite has_node_add_edge. destruct (Z.eqb_spec u k0) as [->|]; [now rewrite Hu|].
      destruct (Z.eqb_spec v k0) as [->|]; [now rewrite Hv|]. now rewrite !orb_false_r. }
    rewrite (IH _ g' ltac:(eapply Forall_impl; [|exact Hr]; intros e [A B]; now rewrite !Hk) E). apply Hk.
Qed.
Lemma cyc_get_in m cyc n0 o0 : cyc_get m cyc = Some (n0, o0) -> In (m, (n0, o0)) cyc.
Proof.
  induction cyc as [|[k v] r IH]; cbn; [discriminate|]. destruct (Z.eqb_spec k m) as [->|]; [intros H; injection H as ->; now left|].
  intros H. right. now apply IH.
Qed.
Lemma cyc_del_forall (P : Z * (Z * Z) -> Prop) m cyc : Forall P cyc -> Forall P (cyc_del m cyc).
Proof. induction 1 as [|[k v] r H Hr IH]; cbn; [constructor|]. destruct (Z.eqb k m); [assumption|now constructor]. Qed.
Lemma spec_rings_exist (P : Z -> Prop) r cur : P cur -> forall cyc ces,
  Forall (fun e => P (fst (snd e))) cyc -> Forall (fun e => P (fst (fst e)) /\ P (snd (fst e))) ces ->
  Forall (fun e => P (fst (snd e))) (fst (spec_rings r cur (cyc, ces)))
  /\ Forall (fun e => P (fst (fst e)) /\ P (snd (fst e))) (snd (spec_rings r cur (cyc, ces))).
Proof.
  intros Hc. induction r as [|[o m] t IH]; intros cyc ces H1 H2; [split; assumption|].
  cbn [spec_rings fst snd]. unfold commit. destruct (cyc_get (marker_val m) cyc) as [[n0 o0]|] eqn:E; cbn [fst snd].
  - apply IH; [now apply cyc_del_forall|]. apply Forall_app; split; [assumption|]. constructor; [|constructor]. cbn [fst snd].
    split; [assumption|]. apply cyc_get_in in E. rewrite Forall_forall in H1. apply (H1 _ E).
  - apply IH; [|assumption]. apply Forall_app; split; [assumption|]. constructor; [exact Hc|constructor].
Qed.

Lemma item_effect_mwf fo i x x1 : lin_ok fo i = true -> item_effect fo i x = Ok x1 -> mwf x -> mwf x1.
Proof.
  intros Hok E [Hf Hp Hs Hr]. destruct (lin_ok_parts fo i Hok) as (_ & _ & Hm & _). unfold item_effect in E.
  destruct (parse_graph_base_node fo (l_name i)) as [a|]; [|discriminate]. cbn [bind] in E.
  assert (Hn1 : (1 <= mult_val (l_mult i))%nat) by (unfold mult_val; destruct (l_mult i); [tauto|lia]).
  destruct (m_copies (mult_val (l_mult i)) a (m_g x) (m_next x) (m_prev x) (m_pend x)) as [[g2 nx] pv] eqn:Ec.
  destruct (m_copies_nodes _ _ _ _ _ _ _ _ _ Hp Ec) as (Enx & Hg2 & Epv). specialize (Epv Hn1).
  assert (Hmono : forall k, has_node (m_g x) k = true -> has_node g2 k = true) by (intros k Hk; rewrite Hg2, Hk; reflexivity).
  assert (Hcur : has_node g2 (m_next x) = true).
  { rewrite Hg2. assert (m_next x <=? m_next x = true) by (apply Z.leb_le; lia).
    assert (m_next x <? m_next x + Z.of_nat (mult_val (l_mult i)) = true) by (apply Z.ltb_lt; lia). rewrite H, H0. apply orb_true_r. }
  destruct (spec_rings_exist (fun n => has_node g2 n = true) (l_rings i) (m_next x) Hcur (m_rings x) [])
    as [Hr1 Hc1]; [eapply Forall_impl; [|exact Hr]; intros e; apply Hmono|constructor|].
  destruct (add_cycle_edges g2 _) as [g3|] eqn:Ea; [|discriminate]. cbn [bind] in E.
  pose proof (add_cycle_edges_nodes _ _ _ Hc1 Ea) as Hg3.
  assert (Hmono3 : forall k, has_node (m_g x) k = true -> has_node g3 k = true) by (intros k Hk; rewrite Hg3; now apply Hmono).
  assert (Hfresh3 : forall k, has_node g3 k = true -> k < nx).
  { intros k Hk. rewrite Hg3, Hg2 in Hk. apply orb_prop in Hk as [Hk|Hk]; [specialize (Hf k Hk); lia|].
    apply andb_prop in Hk as [_ Hk]. apply Z.ltb_lt in Hk. lia. }
  assert (Hlast : has_node g3 (m_next x + Z.of_nat (mult_val (l_mult i)) - 1) = true).
  { rewrite Hg3, Hg2. assert (A : m_next x <=? m_next x + Z.of_nat (mult_val (l_mult i)) - 1 = true) by (apply Z.leb_le; lia).
    assert (B : m_next x + Z.of_nat (mult_val (l_mult i)) - 1 <? m_next x + Z.of_nat (mult_val (l_mult i)) = true) by (apply Z.ltb_lt; lia).
    rewrite A, B. apply orb_true_r. }
  assert (Hs0 : Forall (exists_in g3) (if l_open i then m_prev x :: m_stack x else m_stack x)).
  { assert (Hs3 : Forall (exists_in g3) (m_stack x)) by (eapply Forall_impl; [|exact Hs]; intros o Ho p Ep; apply Hmono3; now apply Ho).
    destruct (l_open i); [|assumption]. constructor; [|assumption]. intros p Ep. apply Hmono3. now apply Hp. }
  assert (Hr3 : Forall (fun e => has_node g3 (fst (snd e)) = true) (fst (spec_rings (l_rings i) (m_next x) (m_rings x, [])))).
  { eapply Forall_impl; [|exact Hr1]. intros e He. now rewrite Hg3. }
  destruct (l_close i) as [a'|].
  - destruct (if l_open i then m_prev x :: m_stack x else m_stack x) as [|top stk]; [discriminate|]. injection E as <-.
    inversion Hs0; subst. split; cbn; assumption.
  - injection E as <-. split; cbn; try assumption. intros p Ep. rewrite Epv in Ep. injection Ep as <-. exact Hlast.
Qed.

Definition skipch (c : ascii) : Prop := c <> "["%char /\ c <> "("%char.
Lemma skipch_nob l : Forall skipch l -> Forall nob l.
Proof. intros H. eapply Forall_impl; [|exact H]. intros c [H1 _]. exact H1. Qed.
Lemma last_skipch l : forall pc, Forall skipch l -> pc <> "("%char -> last l pc <> "("%char.
Proof.
  induction l as [|c r IH]; intros pc H Hpc; [exact Hpc|]. inversion H as [|? ? [_ Hc] Hr]; subst.
  rewrite last_cons_default. now apply IH.
Qed.
Lemma inner_skipch c : inner c -> skipch c.
Proof. intros H. destruct (inner_facts c H) as (H1 & _ & H3 & _). split; assumption. Qed.
Lemma lin_tail_skipch fo i : lin_ok fo i = true -> Forall skipch (lin_tail_str i).
Proof.
  intros Hok. pose proof (lin_prefix_inner fo i Hok) as Hp.
  assert (E : lin_tail_str i = lin_prefix i ++ close_str (l_close i)) by (unfold lin_tail_str, lin_prefix; now rewrite <- !app_assoc).
  rewrite E. apply Forall_app; split.
  - eapply Forall_impl; [|exact Hp]. apply inner_skipch.
  - destruct (l_close i) as [a|]; cbn [close_str]; [|constructor].
    constructor; [split; discriminate|]. eapply Forall_impl; [|apply inner_osym]. apply inner_skipch.
Qed.
Lemma name_chars fo n : name_ok fo n = true -> Forall name_char n.
Proof.
  unfold name_ok. intros H. apply andb_prop in H as [H _]. rewrite forallb_forall in H. apply Forall_forall.
  intros c Hc. specialize (H c Hc). apply andb_prop in H as [H _]. apply andb_prop in H as [H1 H2].
  split.
  - intros ->. discriminate.
  - intros ->. discriminate.
Qed.

(** ** the main induction: the reader's loop on the printed items = the machine on their tokens *)
Theorem sim_loop fo : forall l st x pre pc fuel,
  forallb (lin_ok fo) l = true -> lin_depth (length (m_stack x)) l = true ->
  Rel st x -> all_some (m_stack x) -> mwf x ->
  (m_prev x = None -> match l with i :: _ => l_open i = false | [] => True end) ->
  Forall skipch pre -> pc <> "("%char -> (length l < fuel)%nat ->
  match m_run fo (lins_toks l) x with
  | Ok x1 => exists st1, main_loop fuel fo pc (pre ++ lins_str l ++ ["}"%char]) st = Ok st1 /\ Rel st1 x1
  | Err e => main_loop fuel fo pc (pre ++ lins_str l ++ ["}"%char]) st = Err e
  end.
Proof.
  induction l as [|i t IH]; intros st x pre pc fuel Hok Hd HR Hs Hw Hfirst Hpre Hpc Hfuel.
  - cbn [lins_toks flat_map m_run lins_str app]. exists st. split; [|assumption].
    destruct fuel as [|f]; [lia|]. cbn [main_loop].
    rewrite next_node_skip by (now apply skipch_nob). now rewrite next_node_single.
  - cbn [forallb] in Hok. apply andb_prop in Hok as [Hoki Hokt].
    destruct fuel as [|f]; [cbn in Hfuel; lia|]. cbn [length] in Hfuel.
    cbn [lins_toks flat_map]. fold (lins_toks t). rewrite (m_item fo i (lins_toks t) x Hoki).
    cbn [lins_str flat_map]. fold (lins_str t).
    set (k := lins_str t ++ ["}"%char]).
    assert (Hk : cont k) by apply cont_lins.
    destruct (lin_ok_parts fo i Hoki) as (Hn & _).
    (* the regular expression finds this node *)
    set (opn := if l_open i then ["("%char] else []).
    assert (Etext : pre ++ (lin_str i ++ lins_str t) ++ ["}"%char]
                  = (pre ++ opn) ++ "["%char :: "#"%char :: l_name i ++ "]"%char :: (lin_tail_str i ++ k)).
    { unfold lin_str, k, opn. rewrite <- !app_assoc. cbn [app]. rewrite <- !app_assoc. reflexivity. }
    rewrite Etext. cbn [main_loop].
    assert (Hopn : Forall nob (pre ++ opn)).
    { apply Forall_app; split; [now apply skipch_nob|]. unfold opn. destruct (l_open i); repeat constructor. discriminate. }
    rewrite next_node_skip by assumption. rewrite next_node_here by (now apply (name_chars fo)).
    (* one iteration *)
    assert (Hpc' : Ascii.eqb (last (pre ++ opn) pc) "("%char = l_open i).
    { unfold opn. destruct (l_open i).
      - rewrite last_last. reflexivity.
      - rewrite app_nil_r. apply Ascii.eqb_neq. now apply last_skipch. }
    assert (Hop : l_open i = true -> m_prev x <> None).
    { intros Ho Hn0. specialize (Hfirst Hn0). cbn in Hfirst. congruence. }
    assert (Hop2 : l_open i = true -> exists p, m_prev x = Some p /\ has_node (m_g x) p = true).
    { intros Ho. specialize (Hop Ho). destruct (m_prev x) as [p|] eqn:Ep; [|contradiction]. exists p. split; [reflexivity|].
      apply (w_prev x Hw). exact Ep. }
    assert (Hst : l_close i <> None -> (if l_open i then m_prev x :: m_stack x else m_stack x) <> []).
    { intros Hc. cbn [lin_depth] in Hd. destruct (l_open i); [discriminate|].
      destruct (l_close i); [|contradiction]. destruct (m_stack x); [discriminate|discriminate]. }
    pose proof (node_step_lin fo i k st x _ Hoki Hk HR Hpc' Hop2 Hst) as Hstep.
    destruct (item_effect fo i x) as [x1|e] eqn:Eeff; cbn [bind].
    + destruct Hstep as (st1 & -> & HR1 & _). cbn [bind].
      pose proof (item_effect_mwf fo i x x1 Hoki Eeff Hw) as Hw1.
      destruct (item_effect_inv fo i x x1 Hoki Eeff Hs Hop) as (Hs1 & Hp1 & Hd1).
      assert (Hdt : lin_depth (length (m_stack x1)) t = true).
      { cbn [lin_depth] in Hd. cbv zeta in Hd1. destruct (l_close i).
        - rewrite Hd1 in Hd. exact Hd.
        - rewrite Hd1 in Hd. exact Hd. }
      specialize (IH st1 x1 (lin_tail_str i) "]"%char f Hokt Hdt HR1 Hs1 Hw1).
      unfold k. apply IH.
      * intros Hn0. contradiction.
      * now apply (lin_tail_skipch fo).
      * discriminate.
      * lia.
    + rewrite Hstep. reflexivity.
Qed.

Lemma last_snoc {A} (l : list A) c d : last (l ++ [c]) d = c.
Proof. apply last_last. Qed.
Lemma lins_str_length l : (length l <= length (lins_str l))%nat.
Proof.
  induction l as [|i t IH]; [cbn; lia|]. cbn [lins_str flat_map length]. rewrite app_length.
  fold (lins_str t). unfold lin_str. rewrite app_length. cbn [length]. lia.
Qed.

(** ** the simulation theorem for base-graph strings *)
Theorem reader_sim_lin fo l : lins_ok fo l = true ->
  read_cgsmiles fo ("{"%char :: lins_str l ++ ["}"%char]) = denote_lin fo l.
Proof.
  unfold lins_ok. intros H. apply andb_prop in H as [H Hfirst]. apply andb_prop in H as [Hok Hd].
  unfold read_cgsmiles, denote_lin, m_finish.
  assert (Elast : last ("{"%char :: lins_str l ++ ["}"%char]) " "%char = "}"%char).
  { change ("{"%char :: lins_str l ++ ["}"%char]) with (("{"%char :: lins_str l) ++ ["}"%char]). apply last_last. }
  rewrite Elast.
  assert (HR : Rel init_state m_init) by (unfold Rel; cbn; repeat split; discriminate).
  pose proof (sim_loop fo l init_state m_init ["{"%char] "}"%char (Datatypes.S (length ("{"%char :: lins_str l ++ ["}"%char])))
                Hok Hd HR (Forall_nil _) mwf_init) as Hsim.
  cbn [app] in Hsim.
  assert (H1 : m_prev m_init = None -> match l with i :: _ => l_open i = false | [] => True end).
  { intros _. destruct l as [|i t]; [exact I|]. now destruct (l_open i). }
  specialize (Hsim H1). 
  assert (H2 : Forall skipch ["{"%char]) by (repeat constructor; discriminate).
  specialize (Hsim H2). assert (H3 : "}"%char <> "("%char) by discriminate. specialize (Hsim H3).
  assert (H4 : (length l < Datatypes.S (length ("{"%char :: lins_str l ++ ["}"%char])))%nat).
  { cbn [length]. rewrite app_length. pose proof (lins_str_length l). lia. }
  specialize (Hsim H4).
  destruct (m_run fo (lins_toks l) m_init) as [x1|e].
  - destruct Hsim as (st1 & -> & (Rg & _ & _ & Rcy & _)). cbn [bind]. rewrite Rcy, Rg. reflexivity.
  - rewrite Hsim. reflexivity.
Qed.
Print Assumptions reader_sim_lin.
