(** ReaderImpl: Impl model of cgsmiles/read_cgsmiles.py (read_cgsmiles, _expand_branch), in
    suffix style: one iteration of the `for match in re.finditer(...)` loop receives the
    character before the match (`pattern[start-1]`), the text between "[#" and "]" and the rest
    of the string after the match (`pattern[stop:]`).  All absolute indices of the Python code
    (`stop+rdx-1`, `eon`, `eon_a`, `eon_b`) are kept RELATIVE to `stop`; this is faithful because
    `_find_next_character(pattern, chars, stop) = stop + _find_next_character(pattern[stop:], chars, 0)`
    and every other index expression is an offset from `stop`.
    Tables and `_find_next_character` are the definitions GENERATED from the source
    (Gen/ReaderGen.v); node annotations go through Dialect.DialectImpl.parse_graph_base_node with
    the float() oracle as a parameter.  The regular expression `\[\#.*?\]` is modelled by hand
    ([next_node]).  Python locals that survive an iteration are fields of [rstate]
    (`attributes` and `base_anchor` may be unbound: [None] = UnboundLocalError when read).
    Crashes: KeyError/IndexError/UnboundLocalError/ValueError/TypeError = EKey/EIndex/EUnbound/
    EValue/EType; the two documented SyntaxErrors = ESyntax "dangling" / ESyntax "double".
    No proofs here. *)
From Coq Require Import String.
From Coq Require Import List Ascii ZArith Bool.
From CGV Require Import Base.PyBase Base.PyVal Base.NxGraph Base.PyGen Gen.ReaderGen Dialect.DialectImpl.
Import ListNotations.
Open Scope Z_scope.

(** ** re.finditer(r"\[\#.*?\]", pattern) *)
Definition ch_nl : ascii := ascii_of_nat 10.
(** shortest [x] without newline such that the text is [x ++ "]" :: rest] *)
Fixpoint until_close (s : pystr) : option (pystr * pystr) :=
  match s with
  | [] => None
  | c :: r =>
      if Ascii.eqb c "]"%char then Some ([], r)
      else if Ascii.eqb c ch_nl then None
      else match until_close r with Some (a, b) => Some (c :: a, b) | None => None end
  end.
(** leftmost match in [s]; [prevc] is the character before [s].  Result: the character before
    the match, the text between "[#" and "]", the text after the match. *)
Fixpoint next_node (prevc : ascii) (s : pystr) : option (ascii * pystr * pystr) :=
  match s with
  | c1 :: ((c2 :: r) as t) =>
      if Ascii.eqb c1 "["%char && Ascii.eqb c2 "#"%char then
        match until_close r with
        | Some (nm, rest) => Some (prevc, nm, rest)
        | None => next_node c1 t
        end
      else next_node c1 t
  | _ => None
  end.

(** ** int(text) for ASCII text: blanks stripped, optional sign, digits with single inner '_' *)
Fixpoint lstrip (s : pystr) : pystr :=
  match s with c :: r => if is_space c then lstrip r else s | [] => [] end.
Definition strip (s : pystr) : pystr := rev (lstrip (rev (lstrip s))).
Inductive int_st := INeedDigit | IAfterDigit | IAfterUnderscore.
Fixpoint int_body (s : pystr) (acc : Z) (st : int_st) : option Z :=
  match s with
  | [] => match st with IAfterDigit => Some acc | _ => None end
  | c :: r =>
      if is_digit c then int_body r (acc * 10 + Z.of_nat (digit_val c)) IAfterDigit
      else if Ascii.eqb c "_"%char then
        match st with IAfterDigit => int_body r acc IAfterUnderscore | _ => None end
      else None
  end.
Definition py_int_full (s : pystr) : res Z :=
  let t := strip s in
  let r := match t with
           | c :: u => if Ascii.eqb c "+"%char then int_body u 0 INeedDigit
                       else if Ascii.eqb c "-"%char then option_map Z.opp (int_body u 0 INeedDigit)
                       else int_body t 0 INeedDigit
           | [] => None
           end in
  of_option r EValue.

(** ** the ring-marker loop (lines 150-194) *)
Definition cycmap := list (Z * (Z * Z)).          (* marker -> [node, order] *)
Fixpoint cyc_get (m : Z) (c : cycmap) : option (Z * Z) :=
  match c with [] => None | (k, v) :: r => if Z.eqb k m then Some v else cyc_get m r end.
Fixpoint cyc_del (m : Z) (c : cycmap) : cycmap :=
  match c with [] => [] | (k, v) :: r => if Z.eqb k m then r else (k, v) :: cyc_del m r end.

Record ringst := { r_marker : pystr; r_multi : bool; r_rbo : Z; r_cyc : cycmap; r_ces : list (Z * Z * Z) }.
(** close the ring if the marker is open, else open it; then reset marker text and ring order *)
Definition ring_commit (m cur : Z) (x : ringst) : ringst :=
  match cyc_get m (r_cyc x) with
  | Some (n0, o0) => {| r_marker := []; r_multi := false; r_rbo := default_bond_order;
                        r_cyc := cyc_del m (r_cyc x); r_ces := r_ces x ++ [(cur, n0, o0)] |}
  | None => {| r_marker := []; r_multi := false; r_rbo := default_bond_order;
               r_cyc := r_cyc x ++ [(m, (cur, r_rbo x))]; r_ces := r_ces x |}
  end.
Definition sto_mem (c : ascii) : bool := existsb (fun kv => str_eqb [c] (fst kv)) symbol_to_order.

(** result: the ring state and `rdx` (index of the token at which the loop stopped, or of the
    last token when the text ran out; meaningless for the empty text, where Python leaves `rdx`
    untouched and never reads it) *)
Fixpoint ring_scan (cur : Z) (s : pystr) (idx : nat) (x : ringst) : res (ringst * nat) :=
  match s with
  | [] =>
      (* after the loop: a %nn marker that ends the text is registered as well *)
      if r_multi x && py_isdigit (skipn 1 (r_marker x))
      then bind (py_int (skipn 1 (r_marker x))) (fun m => Ok (ring_commit m cur x, Nat.pred idx))
      else Ok (x, Nat.pred idx)
  | c :: r =>
      match (if r_multi x && negb (is_digit c)
             then bind (py_int (skipn 1 (r_marker x))) (fun m => Ok (ring_commit m cur x))
             else Ok x) with
      | Err e => Err e
      | Ok x1 =>
          if Ascii.eqb c "%"%char then
            ring_scan cur r (Datatypes.S idx)
              {| r_marker := S "%"; r_multi := true; r_rbo := r_rbo x1; r_cyc := r_cyc x1; r_ces := r_ces x1 |}
          else if is_digit c then
            let mk := r_marker x1 ++ [c] in
            if r_multi x1 then
              ring_scan cur r (Datatypes.S idx)
                {| r_marker := mk; r_multi := true; r_rbo := r_rbo x1; r_cyc := r_cyc x1; r_ces := r_ces x1 |}
            else
              match py_int mk with
              | Err e => Err e
              | Ok m => ring_scan cur r (Datatypes.S idx) (ring_commit m cur x1)
              end
          else if sto_mem c then
            match symbol_to_order_lookup [c] with
            | Err e => Err e
            | Ok o => ring_scan cur r (Datatypes.S idx)
                        {| r_marker := r_marker x1; r_multi := r_multi x1; r_rbo := o; r_cyc := r_cyc x1; r_ces := r_ces x1 |}
            end
          else Ok (x1, idx)
      end
  end.

(** ** graph effects *)
Definition order_attr (o : option Z) : attrs :=
  [(S "order", match o with Some z => VInt z | None => VNone end)].
(** mol_graph.add_node(current, **attributes): a key equal to the positional parameter's name is
    a TypeError *)
Definition py_add_node (g : graph) (k : Z) (a : attrs) : res graph :=
  if ahas (S "node_for_adding") a then Err EType else Ok (add_node g k a).
(** `if cycle_edge in mol_graph.edges: raise SyntaxError ; add_edge(...)` *)
Fixpoint add_cycle_edges (g : graph) (ces : list (Z * Z * Z)) : res graph :=
  match ces with
  | [] => Ok g
  | (u, v, o) :: r =>
      if has_edge g u v then Err (ESyntax (S "double"))
      else add_cycle_edges (add_edge g u v (order_attr (Some o))) r
  end.

(** the `for _ in range(0, n_mon)` loop of read_cgsmiles (lines 229-248) *)
Fixpoint add_nodes (n : nat) (a : attrs) (bond_order : Z) (ces : list (Z * Z * Z))
         (g : graph) (current : Z) (prev_node : option Z) (pbo : option Z)
  : res (graph * Z * option Z * option Z) :=
  match n with
  | O => Ok (g, current, prev_node, pbo)
  | Datatypes.S n' =>
      g1 <- py_add_node g current a ;;
      let g2 := match prev_node with Some p => add_edge g1 p current (order_attr pbo) | None => g1 end in
      g3 <- add_cycle_edges g2 ces ;;
      (* copies are joined by single bonds; the symbol applies to the bond leaving the last copy *)
      add_nodes n' a bond_order ces g3 (current + 1) (Some current)
                (Some (match n' with O => bond_order | _ => default_bond_order end))
  end.

(** ** _expand_branch *)
Definition recipe_entry := (Z * attrs * option Z)%type.        (* (n_mon, attributes, order) *)
Fixpoint eb_nodes (n : nat) (a : attrs) (order : option Z) (g : graph) (current : Z) (prev : option Z)
  : res (graph * Z * option Z) :=
  match n with
  | O => Ok (g, current, prev)
  | Datatypes.S n' =>
      g1 <- py_add_node g current a ;;
      p <- of_option prev EValue ;;                 (* networkx: "None cannot be a node" *)
      (* only the first copy is reached by the recorded bond order *)
      eb_nodes n' a (Some 1) (add_edge g1 p current (order_attr order)) (current + 1) (Some current)
  end.
Fixpoint eb_recipe (recipe : list recipe_entry) (g : graph) (current : Z) (prev : option Z)
  : res (graph * Z * option Z) :=
  match recipe with
  | [] => Ok (g, current, prev)
  | (n, a, o) :: r => '(g1, c1, p1) <- eb_nodes (Z.to_nat n) a o g current prev ;; eb_recipe r g1 c1 p1
  end.
Definition expand_branch (g : graph) (current : Z) (anchor : option Z) (recipe : list recipe_entry)
  : res (graph * Z * option Z) :=
  '(g1, c1, _) <- eb_recipe recipe g current anchor ;;
  Ok (g1, c1, match recipe with [] => anchor | _ => Some current end).

(** ** recipes: defaultdict(list) keyed by anchor (an int, or None), insertion ordered *)
Definition oz_eqb (a b : option Z) : bool :=
  match a, b with Some x, Some y => Z.eqb x y | None, None => true | _, _ => false end.
Definition recipes_t := list (option Z * list recipe_entry).
Fixpoint rec_get (k : option Z) (d : recipes_t) : option (list recipe_entry) :=
  match d with [] => None | (k', v) :: r => if oz_eqb k k' then Some v else rec_get k r end.
Fixpoint rec_set (k : option Z) (v : list recipe_entry) (d : recipes_t) : recipes_t :=
  match d with
  | [] => [(k, v)]
  | (k', v') :: r => if oz_eqb k k' then (k', v) :: r else (k', v') :: rec_set k v r
  end.
Definition rec_append (k : option Z) (e : recipe_entry) (d : recipes_t) : recipes_t :=
  rec_set k (match rec_get k d with Some v => v | None => [] end ++ [e]) d.
(** `recipes.pop(key, None)` *)
Fixpoint rec_del (k : option Z) (d : recipes_t) : recipes_t :=
  match d with [] => [] | (k', v) :: r => if oz_eqb k k' then r else (k', v) :: rec_del k r end.
(** `list(recipes.items())[list(recipes).index(key):]`; [None] = ValueError (no such key) *)
Fixpoint rec_from (k : option Z) (d : recipes_t) : option recipes_t :=
  match d with [] => None | (k', v) :: r => if oz_eqb k k' then Some d else rec_from k r end.

(** the loop over `list(recipes.items())[len(branch_anchor):]` (lines 295-319) *)
Inductive panchor := PAUnset | PAVal (k : option Z).
Definition pa_truthy (p : panchor) : bool :=
  match p with PAVal (Some z) => negb (Z.eqb z 0) | _ => false end.
Definition pa_is_none (p : panchor) : bool :=
  match p with PAUnset => true | PAVal None => true | PAVal (Some _) => false end.
Fixpoint exp_items (items : recipes_t) (prev_anchor : panchor) (skip : bool)
         (g : graph) (current : Z) (prev_node : option Z) (base_anchor : option (option Z))
  : res (graph * Z * option Z * option (option Z)) :=
  match items with
  | [] => Ok (g, current, prev_node, base_anchor)
  | (ref_anchor, recipe) :: rest_items =>
      '(pn1, skip1) <- (if pa_truthy prev_anchor then
                          match ref_anchor, prev_anchor, prev_node with
                          | Some r, PAVal (Some p), Some pn => Ok (Some (pn + (r - p)), true)
                          | _, _, _ => Err EType
                          end
                        else Ok (prev_node, skip)) ;;
      '(g1, c1, pn2) <- expand_branch g current pn1 (if skip1 then tl recipe else recipe) ;;
      let base1 := if pa_is_none prev_anchor then Some pn2 else base_anchor in
      exp_items rest_items (PAVal ref_anchor) skip1 g1 c1 pn2 base1
  end.
(** `for idx in range(0, n-1)` *)
Fixpoint exp_times (n : nat) (items : recipes_t)
         (g : graph) (current : Z) (prev_node : option Z) (base_anchor : option (option Z))
  : res (graph * Z * option Z * option (option Z)) :=
  match n with
  | O => Ok (g, current, prev_node, base_anchor)
  | Datatypes.S n' =>
      '(g1, c1, pn1, b1) <- exp_items items PAUnset false g current prev_node base_anchor ;;
      exp_times n' items g1 c1 pn1 b1
  end.

(** ** the state that survives one iteration of the main loop *)
Record rstate := {
  s_g : graph; s_current : Z; s_branch_anchor : list (option Z); s_recipes : recipes_t;
  s_prev_node : option Z; s_branching : bool; s_cycle : cycmap;
  s_pbo : option Z;                       (* prev_bond_order *)
  s_attributes : option attrs;            (* None = not yet assigned *)
  s_base_anchor : option (option Z) }.    (* None = not yet assigned *)
Definition init_state : rstate :=
  {| s_g := gempty; s_current := 0; s_branch_anchor := []; s_recipes := []; s_prev_node := None;
     s_branching := false; s_cycle := []; s_pbo := None; s_attributes := None; s_base_anchor := None |}.

Definition fnc0 (rest : pystr) (chars : list pystr) : res nat :=
  z <- find_next_character rest chars 0 ;; Ok (Z.to_nat z).
Definition fnc_from (rest : pystr) (chars : list pystr) (start : nat) : res nat :=
  z <- find_next_character rest chars (Z.of_nat start) ;; Ok (Z.to_nat z).
Definition ch_eq (o : option ascii) (c : ascii) : bool :=
  match o with Some x => Ascii.eqb x c | None => false end.

(** one round of the branch-closing loop (lines 281-354); [rest] = pattern[stop:], [pos] = the loop's
    `pos - stop`; returns the state and the new `pos - stop` *)
Definition close_branch (rest : pystr) (pos : nat) (st : rstate) : res (rstate * nat) :=
  match rev (s_branch_anchor st) with
  | [] => Err EIndex                                           (* pop from empty list *)
  | a :: ra =>
      let ba := rev ra in
      let branching := match ba with [] => false | _ => true end in
      eon_a <- fnc_from rest fnc_eon_a pos ;;
      let pos1 := (eon_a + 1)%nat in
      let c1 := nth_error rest (eon_a + 1)%nat in
      let c2 := nth_error rest (eon_a + 2)%nat in
      '(g, current, prev_node, base_anchor, recipes, pbo) <-
        (if ch_eq c1 "|"%char || (ch_eq c2 "|"%char && match c1 with Some c => sto_mem c | None => false end) then
           c1v <- of_option c1 EIndex ;;
           '(recipes, eon_a) <-
             (if negb (Ascii.eqb c1v "|"%char) then
                anchor_order <- symbol_to_order_lookup [c1v] ;;
                match (match rec_get a (s_recipes st) with Some v => v | None => [] end) with
                | [] => Err EIndex
                | (n, at_, _) :: tl => Ok (rec_set a ((n, at_, Some anchor_order) :: tl) (s_recipes st), (eon_a + 1)%nat)
                end
              else Ok (s_recipes st, eon_a)) ;;
           eon_b <- fnc_from rest fnc_eon_b (eon_a + 1)%nat ;;
           (* `first_recipe = list(recipes).index(prev_node)`: the slice starts at the entry of the closing anchor *)
           items <- of_option (rec_from a recipes) EValue ;;
           n <- py_int_full (py_slice rest (eon_a + 2)%nat eon_b) ;;
           (* `base_anchor = prev_node` in front of the loop *)
           '(g, current, _, base_anchor) <-
              exp_times (Z.to_nat (n - 1)) items
                        (s_g st) (s_current st) a (Some a) ;;
           prev_node <- of_option base_anchor EUnbound ;;
           pbo <- (match nth_error rest eon_b with
                   | Some cb => if sto_mem cb then o <- symbol_to_order_lookup [cb] ;; Ok (Some o) else Ok (s_pbo st)
                   | None => Ok (s_pbo st)
                   end) ;;
           Ok (g, current, prev_node, base_anchor, recipes, pbo)
         else
           pbo <- (match c1 with
                   | Some c => if sto_mem c then o <- symbol_to_order_lookup [c] ;; Ok (Some o) else Ok (s_pbo st)
                   | None => Ok (s_pbo st)
                   end) ;;
           Ok (s_g st, s_current st, a, s_base_anchor st, s_recipes st, pbo)) ;;
      Ok ({| s_g := g; s_current := current; s_branch_anchor := ba;
             s_recipes := (match ba with [] => [] | _ => recipes end);
             s_prev_node := prev_node; s_branching := branching; s_cycle := s_cycle st;
             s_pbo := pbo; s_attributes := s_attributes st; s_base_anchor := base_anchor |}, pos1)
  end.
(** `while _find_next_character(pattern, ['['], pos) > _find_next_character(pattern, [')'], pos)`;
    every round moves `pos` behind a ")" of the text, so [length rest + 1] rounds of fuel cannot run out *)
Fixpoint close_loop (fuel : nat) (rest : pystr) (pos : nat) (st : rstate) : res rstate :=
  match fuel with
  | O => Err EOutOfFuel
  | Datatypes.S f =>
      io <- fnc_from rest fnc_next_open pos ;;
      ic <- fnc_from rest fnc_next_close pos ;;
      if Nat.ltb ic io then '(st1, pos1) <- close_branch rest pos st ;; close_loop f rest pos1 st1 else Ok st
  end.

(** one iteration of the main loop (lines 139-332) *)
Definition node_step (fo : float_oracle) (st : rstate) (prevc : ascii) (nm rest : pystr) : res rstate :=
  (* 142-148: a new branch starts when the node is preceded by '(' *)
  '(branching, branch_anchor, recipes) <-
    (if Ascii.eqb prevc "("%char then
       (* dict(mol_graph.nodes[prev_node]): KeyError when there is no such node (also for None) *)
       a <- (match s_prev_node st with Some p => node_attrs (s_g st) p | None => Err EKey end) ;;
       (* `recipes.pop(prev_node, None)`: a further branch on the same anchor re-enters at the end of the table *)
       Ok (true, s_branch_anchor st ++ [s_prev_node st],
           rec_set (s_prev_node st) [(1, a, Some 1)] (rec_del (s_prev_node st) (s_recipes st)))
     else Ok (s_branching st, s_branch_anchor st, s_recipes st)) ;;
  (* 150-194 *)
  '(rs, rdx) <- ring_scan (s_current st) rest 0
                 {| r_marker := []; r_multi := false; r_rbo := default_bond_order; r_cyc := s_cycle st; r_ces := [] |} ;;
  (* 196-200 *)
  bond_order <- (match rest with
                 | [] => Ok default_bond_order
                 | _ => let c := match rdx with O => "]"%char | Datatypes.S k => nth k rest " "%char end in
                        if char_in c bond_symbol_chars then symbol_to_order_lookup [c] else Ok default_bond_order
                 end) ;;
  (* 202-214 *)
  '(n_mon, bond_order) <-
           (match rest with
            | c :: _ => if Ascii.eqb c "|"%char then
                          eon <- fnc0 rest fnc_eon ;;
                          n <- py_int_full (py_slice rest 1 eon) ;;
                          (* a bond order symbol may follow the count *)
                          bo <- (match nth_error rest eon with
                                 | Some cb => if sto_mem cb then symbol_to_order_lookup [cb] else Ok bond_order
                                 | None => Ok bond_order
                                 end) ;;
                          Ok (n, bo)
                        else Ok (1, bond_order)
            | [] => Ok (1, bond_order)
            end) ;;
  (* 218-220 *)
  a <- parse_graph_base_node fo nm ;;
  (* 225-226 *)
  recipes <- (if branching then
                match rev branch_anchor with
                | [] => Err EIndex
                | k :: _ => Ok (rec_append k (n_mon, a, s_pbo st) recipes)
                end
              else Ok recipes) ;;
  (* 228-250 *)
  '(g, current, prev_node, pbo) <-
     add_nodes (Z.to_nat n_mon) a bond_order (r_ces rs) (s_g st) (s_current st) (s_prev_node st) (s_pbo st) ;;
  let st1 := {| s_g := g; s_current := current; s_branch_anchor := branch_anchor; s_recipes := recipes;
                s_prev_node := prev_node; s_branching := branching; s_cycle := r_cyc rs;
                s_pbo := pbo; s_attributes := Some a; s_base_anchor := s_base_anchor st |} in
  (* 268-354: `pos = stop` and the closing loop *)
  close_loop (Datatypes.S (length rest)) rest 0 st1.

Fixpoint main_loop (fuel : nat) (fo : float_oracle) (prevc : ascii) (s : pystr) (st : rstate) : res rstate :=
  match fuel with
  | O => Err EOutOfFuel
  | Datatypes.S f =>
      match next_node prevc s with
      | None => Ok st
      | Some (pc, nm, rest) => st1 <- node_step fo st pc nm rest ;; main_loop f fo "]"%char rest st1
      end
  end.

(** read_cgsmiles(pattern).  `pattern[start-1]` for a match at index 0 is the LAST character. *)
Definition read_cgsmiles (fo : float_oracle) (pattern : pystr) : res graph :=
  st <- main_loop (Datatypes.S (length pattern)) fo (last pattern " "%char) pattern init_state ;;
  match s_cycle st with
  | [] => Ok (s_g st)
  | _ => Err (ESyntax (S "dangling"))
  end.
