(** ReaderTrack: a static reading of a token list (names of the node to attach to and of the open
    anchors, pending bond order) and the invariant of the grammar's machine that goes with it:
    the attribute dicts of the current node and of the anchors on the stack are the parsed names, the
    anchors on the stack are strictly older than the current node (so the current node is no key of an
    open branch), the graph is well formed.  Every machine step keeps it ([m_run_TI]). *)
From Coq Require Import String.
From Coq Require Import List Ascii ZArith Bool Lia.
From CGV Require Import Base.PyBase Base.PyVal Base.NxGraph Base.PyGen Gen.ReaderGen Dialect.DialectImpl
     Reader.ReaderImpl Reader.Grammar Reader.ReaderLemmas Reader.Lin Reader.GraphLemmas Reader.ReaderSim Reader.ReaderMult
     Reader.ReaderUnit.
Import ListNotations.
Open Scope Z_scope.

(** [t_flag]: the last structural token was "(" (the anchor on top of the stack IS the current node) *)
Definition tstep (s : tstate) (t : tok) : option tstate :=
  match t with
  | TNode nm n =>
      match n with
      | O => Some {| t_cur := t_cur s; t_pend := 1; t_names := t_names s; t_flag := t_flag s |}
      | _ => Some {| t_cur := Some nm; t_pend := 1; t_names := t_names s; t_flag := false |}
      end
  | TRing _ _ => Some s
  | TSym sy => Some {| t_cur := t_cur s; t_pend := sym_ord sy; t_names := t_names s; t_flag := t_flag s |}
  | TOpen =>
      if t_flag s then None else
      match t_cur s with
      | Some c => Some {| t_cur := Some c; t_pend := t_pend s; t_names := c :: t_names s; t_flag := true |}
      | None => None
      end
  | TClose =>
      match t_names s with
      | c :: r => Some {| t_cur := Some c; t_pend := 1; t_names := r; t_flag := false |}
      | [] => None
      end
  end.
Fixpoint trun (ts : list tok) (s : tstate) : option tstate :=
  match ts with [] => Some s | t :: r => match tstep s t with Some s1 => trun r s1 | None => None end end.
Lemma trun_app a b s : trun (a ++ b) s = match trun a s with Some s1 => trun b s1 | None => None end.
Proof. revert s. induction a as [|t r IH]; intros s; [reflexivity|]. cbn [app trun]. destruct (tstep s t); [apply IH|reflexivity]. Qed.

Definition named (fo : float_oracle) (g : graph) (o : option Z) (c : pystr) : Prop :=
  exists p a, o = Some p /\ parse_graph_base_node fo c = Ok a /\ node_attrs g p = Ok a.
Fixpoint below (p : Z) (l : list (option Z)) : Prop :=
  match l with [] => True | Some t :: r => t < p /\ below t r | None :: _ => False end.
Lemma below_mono p q l : p <= q -> below p l -> below q l.
Proof. destruct l as [|[t|] r]; cbn; [trivial| |trivial]. intros H [H1 H2]. split; [lia|assumption]. Qed.
Lemma below_notin : forall l p, below p l -> ~ In (Some p) l.
Proof.
  induction l as [|[t|] r IH]; intros p H; cbn in *; [tauto| |tauto].
  destruct H as [H1 H2]. intros [E|E]; [injection E as E; lia|].
  apply (IH p); [|exact E]. apply (below_mono t p); [lia|exact H2].
Qed.

Record TI (fo : float_oracle) (x : mstate) (s : tstate) : Prop := {
  ti_wf : mwf x;
  ti_pend : m_pend x = t_pend s;
  ti_cur : match t_cur s with Some c => named fo (m_g x) (m_prev x) c | None => m_prev x = None /\ m_stack x = [] end;
  ti_stack : Forall2 (named fo (m_g x)) (m_stack x) (t_names s);
  ti_sorted : forall pv, m_prev x = Some pv ->
      if t_flag s then exists r, m_stack x = Some pv :: r /\ below pv r else below pv (m_stack x) }.
Lemma TI_init fo : TI fo m_init t_init.
Proof. split; cbn; [apply mwf_init|reflexivity|split; reflexivity|constructor|intros pv H; discriminate]. Qed.

Lemma named_mono fo g g' o c : (forall k a, node_attrs g k = Ok a -> node_attrs g' k = Ok a) -> named fo g o c -> named fo g' o c.
Proof. intros H (p & a & E1 & E2 & E3). exists p, a. repeat split; try assumption. now apply H. Qed.
Lemma named_mono_all fo g g' l ns : (forall k a, node_attrs g k = Ok a -> node_attrs g' k = Ok a) ->
  Forall2 (named fo g) l ns -> Forall2 (named fo g') l ns.
Proof. intros H F. induction F; constructor; [now apply (named_mono fo g)|assumption]. Qed.

(** copies of a node keep the attribute dicts of the nodes that exist *)
Lemma m_copies_old : forall n a g next prev pend g' nx pv,
  (forall k, has_node g k = true -> k < next) -> exists_in g prev ->
  m_copies n a g next prev pend = (g', nx, pv) ->
  forall k b, node_attrs g k = Ok b -> node_attrs g' k = Ok b.
Proof.
  induction n as [|n IH]; intros a g next prev pend g' nx pv Hf Hp E k b Hk; cbn [m_copies] in E.
  - injection E as <- _ _. exact Hk.
  - set (g2 := match prev with Some p => add_edge (add_node g next a) p next (eorder pend) | None => add_node g next a end) in *.
    assert (Hg2 : forall k, has_node g2 k = has_node g k || Z.eqb next k).
    { intros k0. unfold g2. destruct prev as [p|].
      - rewrite has_node_add_edge, has_node_add_node. specialize (Hp p eq_refl).
        destruct (Z.eqb_spec p k0) as [->|]; [rewrite Hp; now destruct (next =? k0)|]. now destruct (has_node g k0), (next =? k0).
      - apply has_node_add_node. }
    apply (IH a g2 (next + 1) (Some next) 1 g' nx pv); [| |exact E|].
    + intros k0 Hk0. rewrite Hg2 in Hk0. apply orb_prop in Hk0 as [Hk0|Hk0]; [specialize (Hf k0 Hk0); lia|]. apply Z.eqb_eq in Hk0. lia.
    + intros p Ep. injection Ep as <-. rewrite Hg2, Z.eqb_refl. apply orb_true_r.
    + pose proof (node_attrs_has _ _ _ Hk) as Hh. assert (next <> k) by (specialize (Hf k Hh); lia).
      assert (E1 : node_attrs (add_node g next a) k = Ok b) by (rewrite node_attrs_add_node_other; assumption).
      unfold g2. destruct prev as [p|]; [|exact E1].
      rewrite node_attrs_add_edge; [exact E1|]. rewrite has_node_add_node, Hh. reflexivity.
Qed.

Lemma m_step_TI fo x t x1 s s1 : m_step fo x t = Ok x1 -> tstep s t = Some s1 -> TI fo x s -> TI fo x1 s1.
Proof.
  intros E Et HT. pose proof (m_step_mwf fo x t x1 E (ti_wf fo x s HT)) as Hw1.
  destruct HT as [Hw Hpd Hcur Hstk Hsort]. destruct t as [nm n|o m|sy| |]; cbn [m_step tstep] in E, Et.
  - destruct (parse_graph_base_node fo nm) as [a|] eqn:Ea; cbn [bind] in E; [|discriminate].
    destruct (m_copies n a (m_g x) (m_next x) (m_prev x) (m_pend x)) as [[g2 nx] pv] eqn:Ec. injection E as <-.
    pose proof (m_copies_old n a _ _ _ _ _ _ _ (w_fresh x Hw) (w_prev x Hw) Ec) as Hold.
    destruct n as [|n].
    + cbn in Ec. injection Ec as <- <- <-. injection Et as <-. split; cbn; try assumption; reflexivity.
    + injection Et as <-.
      destruct (m_copies_nodes _ _ _ _ _ _ _ _ _ (w_prev x Hw) Ec) as (Enx & Hg2 & Epv). specialize (Epv ltac:(lia)). subst pv.
      split; cbn [m_g m_next m_prev m_pend m_stack m_rings t_cur t_pend t_names t_flag]; [assumption|reflexivity| | |].
      * exists (m_next x + Z.of_nat (Datatypes.S n) - 1), a. split; [reflexivity|]. split; [exact Ea|].
        apply (m_copies_attrs n a (m_g x) (m_next x) (m_prev x) (m_pend x) g2 nx _ (w_fresh x Hw) (w_prev x Hw) Ec).
      * now apply (named_mono_all fo (m_g x)).
      * intros pv Epv. injection Epv as <-.
        destruct (m_prev x) as [p0|] eqn:Ep0.
        -- assert (Hlt : p0 < m_next x) by (apply (w_fresh x Hw); now apply (w_prev x Hw)).
           specialize (Hsort p0 eq_refl). destruct (t_flag s).
           ++ destruct Hsort as (r & -> & Hb). cbn [below]. split; [lia|exact Hb].
           ++ apply (below_mono p0); [lia|exact Hsort].
        -- destruct (t_cur s) as [c|]; [destruct Hcur as (p & a' & Ep & _); discriminate|]. destruct Hcur as [_ ->]. exact I.
  - destruct (m_prev x) as [cur|] eqn:Ep; [|discriminate]. pose proof (w_prev x Hw cur Ep) as Hcn.
    injection Et as <-.
    destruct (rt_get m (m_rings x)) as [[n0 o0]|].
    + destruct (has_edge (m_g x) cur n0); [discriminate|]. injection E as <-.
      assert (Hold : forall k b, node_attrs (m_g x) k = Ok b -> node_attrs (add_edge (m_g x) cur n0 (eorder o0)) k = Ok b).
      { intros k b Hk. rewrite node_attrs_add_edge; [exact Hk|]. now apply (node_attrs_has _ _ b). }
      split; cbn [m_g m_next m_prev m_pend m_stack m_rings]; [assumption|assumption| | |].
      * destruct (t_cur s); [now apply (named_mono fo (m_g x))|]. destruct Hcur; discriminate.
      * now apply (named_mono_all fo (m_g x)).
      * exact Hsort.
    + injection E as <-. split; cbn [m_g m_next m_prev m_pend m_stack m_rings]; try assumption.
  - injection E as <-. injection Et as <-. split; cbn; try assumption. reflexivity.
  - injection E as <-. destruct (t_flag s) eqn:Ef; [discriminate|]. destruct (t_cur s) as [c|] eqn:Ecur; [|discriminate].
    injection Et as <-. split; cbn [m_g m_next m_prev m_pend m_stack m_rings t_cur t_pend t_names t_flag]; try assumption.
    + constructor; assumption.
    + intros pv Epv. exists (m_stack x). rewrite Epv. split; [reflexivity|]. specialize (Hsort pv Epv). exact Hsort.
  - destruct (m_stack x) as [|top stk] eqn:Es; [discriminate|]. injection E as <-.
    destruct (t_names s) as [|c r] eqn:En; [discriminate|]. injection Et as <-.
    inversion Hstk as [|? ? ? ? Htop Hrest]; subst.
    split; cbn [m_g m_next m_prev m_pend m_stack m_rings t_cur t_pend t_names t_flag]; try assumption; [reflexivity|].
    intros pv Epv. subst top.
    destruct (m_prev x) as [p0|] eqn:Ep0.
    + specialize (Hsort p0 eq_refl). destruct (t_flag s).
      * destruct Hsort as (r0 & Er0 & Hb). injection Er0 as -> ->. exact Hb.
      * cbn [below] in Hsort. tauto.
    + destruct (t_cur s) as [c0|]; [destruct Hcur as (p & a' & Ep & _); discriminate|]. destruct Hcur as [_ ?]; discriminate.
Qed.
Lemma m_run_TI fo : forall ts x x1 s s1, m_run fo ts x = Ok x1 -> trun ts s = Some s1 -> TI fo x s -> TI fo x1 s1.
Proof.
  induction ts as [|t r IH]; intros x x1 s s1 E Et HT.
  - cbn in E, Et. injection E as <-. injection Et as <-. exact HT.
  - cbn [m_run trun] in E, Et. destruct (m_step fo x t) as [x2|] eqn:E2; cbn [bind] in E; [|discriminate].
    destruct (tstep s t) as [s2|] eqn:Et2; [|discriminate].
    apply (IH x2 x1 s2 s1 E Et). now apply (m_step_TI fo x t x2 s s2).
Qed.

(** what the invariant gives at an opening parenthesis: the current node is no anchor of an open branch *)
Lemma TI_prev_fresh fo x s p : TI fo x s -> t_flag s = false -> m_prev x = Some p -> ~ In (Some p) (m_stack x).
Proof. intros HT Hf Ep. pose proof (ti_sorted fo x s HT p Ep) as H. rewrite Hf in H. now apply below_notin. Qed.
