(** ReaderG2Wf: the longhand of a well-formed AST is again a string of the grammar.
    From the recursive side conditions of the SHORTHAND ([rg_chain true true], which [wf] implies:
    ReaderWf.rg_of_wf_gen) follow those of [expand_branches a] and of [expand a] (no branch
    multiplier left: [rg_chain true false]), which is all the reader theorem for the grammar without
    branch multipliers needs ([ReaderXAst.reader_sim_rg]).  Hence reading the shorthand = reading the
    longhand needs no hypothesis about the longhand: [reader_units_longhand_wf], [reader_units_expand_wf]. *)
From Coq Require Import String.
From Coq Require Import List Ascii ZArith Bool Lia.
From CGV Require Import Base.PyBase Base.PyVal Base.NxGraph Dialect.DialectImpl
     Reader.ReaderImpl Reader.Grammar Reader.ReaderLemmas Reader.Lin Reader.ReaderSim Reader.ReaderMult Reader.ReaderAst
     Reader.ReaderWf Reader.UnitsDefs Reader.ReaderUnit Reader.ReaderLast Reader.ReaderX Reader.ReaderXAst Reader.ReaderG2 Reader.ReaderG2Ast Reader.ReaderCheck.
Import ListNotations.

Notation rgP := (rg_item true true).
Notation rgQ := (rg_item true false).

(** the conditions on a list of items whose last one ends (or does not end) the enclosing structure *)
Fixpoint rgl (fo : float_oracle) (il : bool) (l : list item) : bool :=
  match l with [] => true | [x] => rgQ fo il x | x :: r => rgQ fo false x && rgl fo il r end.
Lemma rgl_cons fo il x r : r <> [] -> rgl fo il (x :: r) = rgQ fo false x && rgl fo il r.
Proof. destruct r; [intros C; now elim C|reflexivity]. Qed.
Lemma rgl_app fo il : forall l1 l2, l2 <> [] -> rgl fo il (l1 ++ l2) = rgl fo false l1 && rgl fo il l2.
Proof.
  induction l1 as [|x r IH]; intros l2 H2; [reflexivity|]. cbn [app].
  rewrite rgl_cons by (destruct r; [exact H2|discriminate]). rewrite (IH l2 H2).
  destruct r as [|y r']; [cbn [rgl andb]; reflexivity|]. rewrite (rgl_cons fo false x (y :: r')) by discriminate. now rewrite andb_assoc.
Qed.
Lemma rg_chain_rgl fo c : rg_chain true false fo c = rgl fo true c.
Proof. induction c as [|x r IH]; [reflexivity|]. destruct r; [reflexivity|]. cbn [rg_chain rgl] in *. now rewrite IH. Qed.
Lemma rg_bchain_chain bm fo c : rg_bchain true bm fo c = rg_chain true bm fo c.
Proof.
  induction c as [|x r IH]; [reflexivity|]. destruct r; [cbn; now rewrite andb_true_r|].
  change (rg_bchain true bm fo (x :: i :: r)) with (rg_item true bm fo false x && rg_bchain true bm fo (i :: r)). now rewrite IH.
Qed.

(** branches of an item with the a-conditions switched off: only their chains count *)
Definition bch_ok (fo : float_oracle) (L : list branch) : bool :=
  forallb (fun br => negb (is_some (b_mult br)) && rg_bchain true false fo (b_chain br)) L.
Lemma rg_branches_false fo L : rg_branches true false fo false L = bch_ok fo L.
Proof.
  induction L as [|[c bm a] tl IH]; [reflexivity|]. cbn [rg_branches rg_branch bch_ok forallb b_mult b_chain]. fold (bch_ok fo tl).
  rewrite IH. cbn [negb orb]. rewrite !orb_true_r. now rewrite andb_true_r.
Qed.
Lemma rg_branches_bch fo il L : rg_branches true false fo il L = true -> bch_ok fo L = true.
Proof.
  induction L as [|[c bm a] tl IH]; [reflexivity|]. cbn [rg_branches rg_branch bch_ok forallb b_mult b_chain]. fold (bch_ok fo tl).
  intros H. apply andb_prop in H as [H Ht]. apply andb_prop in H as [H Hc]. apply andb_prop in H as [Hb _].
  cbn [orb] in Hb. now rewrite Hb, Hc, (IH Ht).
Qed.
Lemma bch_ok_app fo a b : bch_ok fo (a ++ b) = bch_ok fo a && bch_ok fo b.
Proof. unfold bch_ok. apply forallb_app. Qed.
Lemma rg_branches_suffix fo il : forall l1 l2, rg_branches true false fo il (l1 ++ l2) = true -> rg_branches true false fo il l2 = true.
Proof. induction l1 as [|x r IH]; intros l2 H; [exact H|]. cbn [app rg_branches] in H. apply andb_prop in H as [_ H]. now apply IH. Qed.

Definition pl (br : branch) : branch := match br with Branch c _ a => Branch (flat_map xb_item c) None a end.
Definition mk_ok (fo : float_oracle) (n : pystr) (cr : list (option sym * marker)) (cm : option (list nat)) : bool :=
  name_ok fo n && forallb (fun om => marker_ok (snd om)) cr
  && match cm with Some ds => is_nil cr && digits_ok ds && (1 <=? digits_nat ds)%nat | None => true end.
Definition bnz (L : list branch) : bool := forallb (fun br => negb (is_nil (b_chain br)) && negb (is_some (b_mult br))) L.
Lemma item_ok_parts fo n cr cm cb L : mk_ok fo n cr cm = true -> bnz L = true -> item_ok fo (Item n cr cm cb L) = true.
Proof.
  unfold mk_ok, item_ok, bnz. cbn [i_name i_rings i_mult i_branches]. intros H1 H2. rewrite H1. cbn [andb].
  rewrite forallb_forall in *. intros br Hin. specialize (H2 br Hin). apply andb_prop in H2 as [Ha Hb]. rewrite Ha.
  destruct (b_mult br); [discriminate|reflexivity].
Qed.
Lemma bnz_app a b : bnz (a ++ b) = bnz a && bnz b. Proof. unfold bnz. apply forallb_app. Qed.

(** the accumulating loop of [xb_item] *)
Lemma xb_go_rg fo n r il : forallb (fun om => marker_ok (snd om)) r = true -> name_ok fo n = true ->
  forall brs cr cm cb cbrs pending first,
  Forall (fun br => flat_map xb_item (b_chain br) <> []) brs ->
  mk_ok fo n cr cm = true -> bnz cbrs = true ->
  (negb (is_some cb) || negb (is_nil (cbrs ++ brs)) || negb il) = true ->
  rg_branches true false fo il (cbrs ++ map pl brs) = true ->
  rgl fo il (xb_go n r brs cr cm cb cbrs pending first) = true /\ xb_go n r brs cr cm cb cbrs pending first <> [].
Proof.
  intros Hr Hn. induction brs as [|[c bm a] tl IH]; intros cr cm cb cbrs pending first Hne Hmk Hbnz Hcb HC.
  - cbn [xb_go rgl]. split; [|discriminate]. rewrite rg_item_eq. rewrite app_nil_r in Hcb, HC. cbn [map] in HC.
    rewrite (item_ok_parts fo n cr cm cb cbrs Hmk Hbnz), Hcb, HC. reflexivity.
  - inversion Hne as [|? ? Hc Hnt]; subst. cbn [b_chain] in Hc. cbn [xb_go].
    set (body := flat_map xb_item c) in *.
    assert (Hplain : forall cbrs', cbrs' = cbrs ++ [Branch body None a] ->
              rgl fo il (xb_go n r tl cr cm cb cbrs' a false) = true /\ xb_go n r tl cr cm cb cbrs' a false <> []).
    { intros cbrs' ->. apply IH; [assumption|assumption| | |].
      - rewrite bnz_app, Hbnz. cbn [bnz forallb b_chain b_mult is_some negb andb]. destruct body; [now elim Hc|reflexivity].
      - rewrite <- app_assoc. cbn [app]. destruct (cbrs ++ Branch body None a :: tl) eqn:E; [destruct cbrs; discriminate|].
        cbn [is_nil negb]. now rewrite orb_true_r.
      - rewrite <- app_assoc. exact HC. }
    destruct bm as [[ms ds]|]; [|now apply Hplain].
    destruct (digits_nat ds <=? 1)%nat; [now apply Hplain|]. split; [|discriminate].
    (* the copies: none of them is the last item *)
    pose proof (rg_branches_bch fo il _ HC) as Hb. rewrite bch_ok_app in Hb. apply andb_prop in Hb as [Hb1 Hb2].
    cbn [map pl bch_ok forallb b_mult b_chain is_some negb andb] in Hb2. fold body in Hb2. apply andb_prop in Hb2 as [Hbody _].
    assert (Hbz : negb (is_nil body) = true) by (destruct body; [now elim Hc|reflexivity]).
    assert (Hrr : mk_ok fo n (if first then r else []) None = true).
    { unfold mk_ok. rewrite Hn. destruct first; cbn [forallb andb]; [now rewrite Hr|reflexivity]. }
    assert (Hcopy : forall p, rgQ fo false (Item n (if first then r else []) None p [Branch body None ms]) = true).
    { intros p. rewrite rg_item_eq, rg_branches_false.
      rewrite (item_ok_parts fo n _ None p [Branch body None ms] Hrr) by (cbn [bnz forallb b_chain b_mult is_some negb]; now rewrite Hbz).
      cbn [bch_ok forallb b_mult b_chain is_some negb is_nil andb orb]. rewrite Hbody. now rewrite !orb_true_r. }
    destruct (IH (if first then r else []) None pending [Branch body None a] a false Hnt Hrr) as (Hgo & Hgne).
    + cbn [bnz forallb b_chain b_mult is_some negb]. now rewrite Hbz.
    + cbn [app is_nil negb]. now rewrite orb_true_r.
    + apply (rg_branches_suffix fo il cbrs). exact HC.
    + rewrite rgl_cons by (destruct (repeat _ _); [exact Hgne|discriminate]).
      apply andb_true_intro. split.
      * rewrite rg_item_eq, rg_branches_false, bch_ok_app, Hb1.
        rewrite (item_ok_parts fo n cr cm cb _ Hmk) by (rewrite bnz_app, Hbnz; cbn [bnz forallb b_chain b_mult is_some negb]; now rewrite Hbz).
        cbn [bch_ok forallb b_mult b_chain is_some negb andb]. rewrite Hbody. now rewrite !orb_true_r.
      * rewrite rgl_app by exact Hgne. rewrite Hgo, andb_true_r.
        induction (digits_nat ds - 2)%nat as [|q IHq]; [reflexivity|].
        cbn [repeat]. destruct q as [|q']; [cbn [repeat rgl]; apply Hcopy|].
        rewrite rgl_cons by discriminate. now rewrite Hcopy, IHq.
Qed.

(** items, branch chains, chains *)
Definition item_eb (fo : float_oracle) (it : item) : Prop := forall il, rgP fo il it = true ->
  rgl fo il (xb_item it) = true /\ xb_item it <> [].
Lemma chain_eb fo c : Forall (item_eb fo) c -> c <> [] -> rg_chain true true fo c = true ->
  rgl fo true (flat_map xb_item c) = true /\ flat_map xb_item c <> [].
Proof.
  induction 1 as [|x c Hx _ IH]; intros Hne Hrg; [contradiction|]. destruct c as [|y c'].
  - cbn [rg_chain] in Hrg. cbn [flat_map]. rewrite app_nil_r. now apply Hx.
  - change (rg_chain true true fo (x :: y :: c')) with (rgP fo false x && rg_chain true true fo (y :: c')) in Hrg.
    apply andb_prop in Hrg as [Hrx Hrc]. destruct (Hx false Hrx) as (P1 & P2). destruct (IH ltac:(discriminate) Hrc) as (Q1 & Q2).
    cbn [flat_map] in *. split.
    + rewrite rgl_app by exact Q2. now rewrite P1, Q1.
    + intros C. apply app_eq_nil in C as [C _]. now apply P2.
Qed.
Lemma ast_eb fo : forall it, item_eb fo it.
Proof.
  apply (item_ind2 (item_eb fo) (fun br => Forall (item_eb fo) (b_chain br))).
  - intros n r m b brs Hbrs il Hrg. rewrite rg_item_eq in Hrg.
    apply andb_prop in Hrg as [Hrg Hrb]. apply andb_prop in Hrg as [Hio Hcons].
    assert (Hio' := Hio). unfold item_ok in Hio'. cbn [i_name i_rings i_mult i_branches] in Hio'.
    apply andb_prop in Hio' as [Hio' Hbr].
    assert (Hmk : mk_ok fo n r m = true) by exact Hio'.
    apply andb_prop in Hio' as [Hio' _]. apply andb_prop in Hio' as [Hn Hr].
    (* every branch: its chain is non-empty and expands to a chain of the grammar *)
    assert (Hall : Forall (fun br => flat_map xb_item (b_chain br) <> [] /\ rg_bchain true false fo (flat_map xb_item (b_chain br)) = true) brs
                   /\ rg_branches true false fo il (map pl brs) = true).
    { clear Hcons Hmk Hio. revert Hrb Hbr. induction Hbrs as [|[c bm a] tl Hc _ IHb]; intros Hrb Hbr; [split; [constructor|reflexivity]|].
      cbn [rg_branches rg_branch] in Hrb. apply andb_prop in Hrb as [Hr1 Hr2]. apply andb_prop in Hr1 as [Hr1 Hrc]. apply andb_prop in Hr1 as [_ Ha].
      cbn [forallb b_chain b_mult] in Hbr. apply andb_prop in Hbr as [Hb1 Hb2]. apply andb_prop in Hb1 as [Hcne _].
      cbn [b_chain] in Hc. rewrite rg_bchain_chain in Hrc.
      destruct (chain_eb fo c Hc ltac:(destruct c; [discriminate|discriminate]) Hrc) as (E1 & E2).
      destruct (IHb Hr2 Hb2) as (I1 & I2). split; [constructor; [cbn [b_chain]; split; [exact E2|now rewrite rg_bchain_chain, rg_chain_rgl]|exact I1]|].
      cbn [map pl rg_branches rg_branch is_some negb orb andb]. rewrite rg_bchain_chain, rg_chain_rgl, E1, I2, andb_true_r.
      destruct tl; cbn [map is_nil]; rewrite ?andb_true_r; exact Ha. }
    destruct Hall as (Hall & HC).
    rewrite xb_item_eq. apply (xb_go_rg fo n r il Hr Hn brs r m b [] b true); try assumption; try reflexivity.
    + eapply Forall_impl; [|exact Hall]. intros br [H _]. exact H.
  - intros c bm a Hc. exact Hc.
Qed.
Theorem expand_branches_rg fo a : rg_chain true true fo a = true -> a <> [] ->
  rg_chain true false fo (expand_branches a) = true /\ expand_branches a <> [].
Proof.
  intros Hrg Hne. assert (Hall : Forall (item_eb fo) a) by (apply Forall_forall; intros; apply ast_eb).
  destruct (chain_eb fo a Hall Hne Hrg) as (P1 & P2). unfold expand_branches. now rewrite rg_chain_rgl.
Qed.

(** ** node multipliers written out *)
Definition item_en (fo : float_oracle) (it : item) : Prop := forall il, rgQ fo il it = true ->
  rgl fo il (xn_item it) = true /\ xn_item it <> [] /\ mpos_item it = true.
Lemma chain_en fo c : Forall (item_en fo) c -> c <> [] -> rg_chain true false fo c = true ->
  rgl fo true (flat_map xn_item c) = true /\ flat_map xn_item c <> [] /\ forallb mpos_item c = true.
Proof.
  induction 1 as [|x c Hx _ IH]; intros Hne Hrg; [contradiction|]. destruct c as [|y c'].
  - cbn [rg_chain] in Hrg. cbn [flat_map forallb]. rewrite app_nil_r. destruct (Hx true Hrg) as (A & B & C). now rewrite C.
  - change (rg_chain true false fo (x :: y :: c')) with (rgQ fo false x && rg_chain true false fo (y :: c')) in Hrg.
    apply andb_prop in Hrg as [Hrx Hrc]. destruct (Hx false Hrx) as (P1 & P2 & P3). destruct (IH ltac:(discriminate) Hrc) as (Q1 & Q2 & Q3).
    cbn [flat_map forallb] in *. split; [|split].
    + rewrite rgl_app by exact Q2. now rewrite P1, Q1.
    + intros C. apply app_eq_nil in C as [C _]. now apply P2.
    + now rewrite P3, Q3.
Qed.
Lemma ast_en fo : forall it, item_en fo it.
Proof.
  apply (item_ind2 (item_en fo) (fun br => Forall (item_en fo) (b_chain br))).
  - intros n r m b brs Hbrs il Hrg. rewrite rg_item_eq in Hrg.
    apply andb_prop in Hrg as [Hrg Hrb]. apply andb_prop in Hrg as [Hio Hcons].
    assert (Hio' := Hio). unfold item_ok in Hio'. cbn [i_name i_rings i_mult i_branches] in Hio'.
    apply andb_prop in Hio' as [Hio' Hbr]. apply andb_prop in Hio' as [Hio' Hm]. apply andb_prop in Hio' as [Hn Hr].
    assert (Hall : rg_branches true false fo il (map xn_branch brs) = true /\ bnz (map xn_branch brs) = true
                   /\ forallb mpos_branch brs = true).
    { clear Hcons Hio. revert Hrb Hbr. induction Hbrs as [|[c bm a] tl Hc _ IHb]; intros Hrb Hbr; [repeat split|].
      cbn [rg_branches rg_branch] in Hrb. apply andb_prop in Hrb as [Hr1 Hr2]. apply andb_prop in Hr1 as [Hr1 Hrc]. apply andb_prop in Hr1 as [Hbm Ha].
      cbn [orb] in Hbm. destruct bm; [discriminate|].
      cbn [forallb b_chain b_mult] in Hbr. apply andb_prop in Hbr as [Hb1 Hb2].
      cbn [b_chain] in Hc. rewrite rg_bchain_chain in Hrc.
      destruct (chain_en fo c Hc ltac:(destruct c; [discriminate|discriminate]) Hrc) as (E1 & E2 & E3).
      destruct (IHb Hr2 Hb2) as (I1 & I2 & I3).
      cbn [map xn_branch rg_branches rg_branch bnz forallb b_chain b_mult is_some negb orb andb mpos_branch].
      fold (bnz (map xn_branch tl)). rewrite rg_bchain_chain, rg_chain_rgl, E1, I1, I2, E3, I3, !andb_true_r.
      repeat split.
      - destruct tl; cbn [map is_nil]; rewrite ?andb_true_r; exact Ha.
      - destruct (flat_map xn_item c); [now elim E2|reflexivity]. }
    destruct Hall as (HB & Hbz & Hmp).
    assert (Hlast : rgQ fo il (Item n r None b (map xn_branch brs)) = true).
    { rewrite rg_item_eq, HB. rewrite (item_ok_parts fo n r None b _) by (unfold mk_ok; now rewrite ?Hn, ?Hr || assumption).
      cbn [andb]. rewrite andb_true_r. destruct brs; exact Hcons. }
    assert (Hcopy : rgQ fo false (Item n [] None None []) = true).
    { rewrite rg_item_eq. rewrite (item_ok_parts fo n [] None None []) by (unfold mk_ok; now rewrite ?Hn || reflexivity). reflexivity. }
    cbn [xn_item mpos_item]. split; [|split].
    + rewrite rgl_app by discriminate. cbn [rgl]. rewrite Hlast, andb_true_r.
      induction (mult_val m - 1)%nat as [|q IHq]; [reflexivity|]. cbn [repeat]. destruct q; [cbn [repeat rgl]; exact Hcopy|].
      rewrite rgl_cons by discriminate. now rewrite Hcopy, IHq.
    + intros C. apply app_eq_nil in C as [_ C]. discriminate.
    + rewrite Hmp, andb_true_r. destruct m as [ds|]; [|reflexivity]. apply andb_prop in Hm as [_ Hm]. exact Hm.
  - intros c bm a Hc. exact Hc.
Qed.
Theorem expand_nodes_rg fo c : rg_chain true false fo c = true -> c <> [] ->
  rg_chain true false fo (expand_nodes c) = true /\ expand_nodes c <> [] /\ forallb mpos_item c = true.
Proof.
  intros Hrg Hne. assert (Hall : Forall (item_en fo) c) by (apply Forall_forall; intros; apply ast_en).
  destruct (chain_en fo c Hall Hne Hrg) as (P1 & P2 & P3). unfold expand_nodes. now rewrite rg_chain_rgl.
Qed.

(** ** reading the shorthand = reading the longhand, for every well-formed AST that satisfies [units_ok] *)
Lemma wf_rgP fo a : wf fo a = true -> rg_chain true true fo a = true /\ a <> [].
Proof.
  intros Hwf. split; [apply rg_of_wf_gen; [assumption|discriminate|discriminate]|].
  unfold wf in Hwf. destruct a; [discriminate|discriminate].
Qed.
Theorem reader_units_longhand_wf fo braces a : units_ok fo a = true -> wf fo a = true ->
  read_cgsmiles fo (print braces a) = read_cgsmiles fo (print braces (expand_branches a)).
Proof.
  intros Hu Hwf. destruct (wf_rgP fo a Hwf) as (Hp & Hne). destruct (expand_branches_rg fo a Hp Hne) as (Hq & Hne2).
  rewrite (reader_sim_units_gen fo braces a Hu), (reader_sim_rg fo braces _ Hq Hne2).
  destruct (linearize_x_spec fo _ Hq Hne2) as (_ & _ & P3 & _). unfold denote. now rewrite P3.
Qed.
Theorem reader_units_expand_wf fo braces a : units_ok fo a = true -> wf fo a = true ->
  read_cgsmiles fo (print braces a) = read_cgsmiles fo (print braces (expand a)).
Proof.
  intros Hu Hwf. destruct (wf_rgP fo a Hwf) as (Hp & Hne). destruct (expand_branches_rg fo a Hp Hne) as (Hq & Hne2).
  destruct (expand_nodes_rg fo _ Hq Hne2) as (Hq3 & Hne3 & Hmp). fold (expand a) in Hq3, Hne3.
  rewrite (reader_sim_units_gen fo braces a Hu), (reader_sim_rg fo braces _ Hq3 Hne3).
  destruct (linearize_x_spec fo _ Hq3 Hne3) as (_ & _ & P3 & _). unfold denote. rewrite P3. unfold expand.
  now rewrite (expand_nodes_toks fo _ Hmp).
Qed.
Print Assumptions reader_units_expand_wf.

(** ** the side condition does not depend on the float oracle beyond the names: what the check's class
    function tests ([ReaderCheck.units_test], oracle "no float") is the theorem's hypothesis for every
    oracle under which the AST is well formed *)
Definition g2seg_names (s : g2seg) : list pystr :=
  match s with G2Plain x => [x_name x] | G2Unit u _ => u_name u :: map bn_name (u_body u) end.
Lemma body_ok_names f1 f2 : forall body i1 i2, body_ok f1 i1 body = true -> forallb (name_ok f2) (map bn_name body) = true ->
  body_ok f2 i2 body = true.
Proof.
  induction body as [|b r IH]; intros i1 i2 H Hn; [reflexivity|]. cbn [body_ok map forallb] in *.
  apply andb_prop in H as [H Hr]. apply andb_prop in H as [_ Hs]. apply andb_prop in Hn as [Hn1 Hn2].
  now rewrite Hn1, Hs, (IH _ _ Hr Hn2).
Qed.
Lemma g2seg_ok_names f1 f2 s : g2seg_ok f1 s = true -> forallb (name_ok f2) (g2seg_names s) = true -> g2seg_ok f2 s = true.
Proof.
  destruct s as [x|u cs]; cbn [g2seg_ok g2seg_names forallb]; intros H Hn.
  - rewrite andb_true_r in Hn. unfold xlin_ok, lin_ok in *. cbn [xbase l_name l_rings l_mult l_close l_bond] in *.
    apply andb_prop in H as [H H3]. apply andb_prop in H as [H H2]. apply andb_prop in H as [H H1c]. apply andb_prop in H as [H H1b].
    apply andb_prop in H as [_ H1a]. rewrite Hn, H1a, H1b. cbn [andb]. now rewrite H2, H3.
  - apply andb_prop in Hn as [Hn1 Hn2]. apply andb_prop in H as [H H3]. apply andb_prop in H as [H H2]. rewrite H2, H3, !andb_true_r.
    unfold gunit_ok in *. apply andb_prop in H as [H G6]. apply andb_prop in H as [H G5]. apply andb_prop in H as [H G4].
    apply andb_prop in H as [H G3]. apply andb_prop in H as [_ G2].
    now rewrite Hn1, G2, (body_ok_names f1 f2 _ _ _ G3 Hn2), G4, G5, G6.
Qed.
Definition g2names (l : list g2seg) : list pystr := flat_map g2seg_names l.
Lemma g2wrap_names a l : g2names (g2wrap a l) = g2names l.
Proof.
  destruct l as [|x t]; [reflexivity|]. destruct (g2wrap_shape a x t) as (pre & z & E & ->).
  assert (E1 : g2names (g2set_open x :: t) = g2names (x :: t)) by (destruct x; reflexivity).
  rewrite <- E1, E. unfold g2names. rewrite !flat_map_app. cbn [flat_map]. now destruct z.
Qed.
Definition pnames (p : pystr -> bool) (c : list item) : bool := forallb (fun it => p (i_name it)) (flat_chain c).
Lemma pnames_heads p c : pnames p c = true -> forallb p (map i_name c) = true.
Proof.
  unfold pnames. induction c as [|[n r m b brs] t IH]; intros H; [reflexivity|].
  rewrite flat_chain_cons in H. cbn [forallb i_name] in H. apply andb_prop in H as [H1 H2]. rewrite forallb_app in H2. apply andb_prop in H2 as [_ H2].
  cbn [map forallb i_name]. now rewrite H1, (IH H2).
Qed.
Definition item_nm (p : pystr -> bool) (it : item) : Prop := pnames p [it] = true -> forallb p (g2names (g_item it)) = true.
Lemma chain_nm p c : Forall (item_nm p) c -> pnames p c = true -> forallb p (g2names (g_chain c)) = true.
Proof.
  induction 1 as [|[n r m b brs] t Hx _ IH]; intros H; [reflexivity|].
  unfold pnames in *. rewrite flat_chain_cons in H. cbn [forallb] in H. apply andb_prop in H as [H1 H2]. rewrite forallb_app in H2.
  apply andb_prop in H2 as [H2 H3]. unfold g_chain, g2names. cbn [flat_map]. rewrite flat_map_app, forallb_app.
  fold (g_chain t). fold (g2names (g_chain t)). rewrite (IH H3), andb_true_r. apply Hx.
  unfold pnames. rewrite flat_chain_cons. cbn [forallb flat_chain flat_map]. rewrite app_nil_r. now rewrite H1, H2.
Qed.
Lemma ast_nm p : forall it, item_nm p it.
Proof.
  apply (item_ind2 (item_nm p) (fun br => Forall (item_nm p) (b_chain br))).
  - intros n r m b brs Hbrs H. unfold pnames in H. rewrite flat_chain_cons in H. cbn [forallb i_name flat_chain flat_map] in H.
    rewrite app_nil_r in H. apply andb_prop in H as [Hn Hb]. rewrite forallb_flat_map in Hb.
    rewrite g_item_eq. unfold g2names. cbn [flat_map g2seg_names node_x x_name forallb app]. rewrite Hn. cbn [andb].
    fold (g2names (g_branches n brs b)). generalize b as pending.
    induction Hbrs as [|[c bm a] tl Hc _ IHb]; intros pending; [reflexivity|].
    cbn [forallb b_chain] in Hb. apply andb_prop in Hb as [Hb1 Hb2]. cbn [b_chain] in Hc.
    cbn [g_branches]. destruct bm as [[ms ds]|].
    + unfold g2names. cbn [flat_map g2seg_names mk_unit u_name u_body forallb app]. fold (g2names (g_branches n tl a)).
      rewrite Hn, forallb_app, (IHb Hb2). rewrite map_map. change (map (fun x : item => bn_name (bnode_of x)) c) with (map i_name c). rewrite (pnames_heads p c Hb1). reflexivity.
    + unfold g2names. rewrite flat_map_app, forallb_app. fold (g2names (g2wrap a (g_chain c))). fold (g2names (g_branches n tl a)).
      rewrite g2wrap_names, (chain_nm p c Hc Hb1), (IHb Hb2). reflexivity.
  - intros c bm a Hc. exact Hc.
Qed.
Lemma wf_names fo a : wf fo a = true -> pnames (name_ok fo) a = true.
Proof.
  unfold wf, pnames. intros H. apply andb_prop in H as [H _]. apply andb_prop in H as [H _]. apply andb_prop in H as [_ H].
  rewrite forallb_forall in *. intros it Hin. specialize (H it Hin). unfold item_ok in H.
  apply andb_prop in H as [H _]. apply andb_prop in H as [H _]. now apply andb_prop in H as [H _].
Qed.
Theorem units_ok_oracle f1 fo a : wf fo a = true -> units_ok f1 a = true -> units_ok fo a = true.
Proof.
  intros Hwf H. unfold units_ok, g2segs_ok in *. apply andb_prop in H as [H Hg]. apply andb_prop in Hg as [Hok Htr].
  rewrite H, Htr, andb_true_r. cbn [andb].
  assert (Hall : Forall (item_nm (name_ok fo)) a) by (apply Forall_forall; intros; apply ast_nm).
  pose proof (chain_nm (name_ok fo) a Hall (wf_names fo a Hwf)) as Hn. unfold g2names in Hn. rewrite forallb_flat_map in Hn.
  rewrite forallb_forall in *. intros s Hin. apply (g2seg_ok_names f1 fo s (Hok s Hin) (Hn s Hin)).
Qed.
(** in the check's own terms: every well-formed AST that [class_C05] exempts from the classes because of
    [units_test] is read as its longhand *)
Theorem reader_units_test_sound fo braces a : wf fo a = true -> units_test a = true ->
  read_cgsmiles fo (print braces a) = read_cgsmiles fo (print braces (expand a)).
Proof. intros Hwf Ht. apply reader_units_expand_wf; [|exact Hwf]. now apply (units_ok_oracle (fun _ => None)). Qed.
Print Assumptions reader_units_test_sound.
