(** ReaderUnitGen: multiplied units at ANY depth and behind sibling branches.
    Generalises Reader/ReaderUnit.v: the branch that carries the multiplier may stand inside other
    (still open) branches and may be preceded by sibling branches of its anchor, as long as the recipe
    table holds exactly the open ancestors (no branch was closed since the outermost open branch was
    opened: the remaining defect class stale_recipe) and the unit contains neither ring markers nor
    nested branches (ring_in_unit, nested_in_unit). *)
From Coq Require Import String.
From Coq Require Import List Ascii ZArith Bool Lia.
From CGV Require Import Base.PyBase Base.PyVal Base.NxGraph Base.PyGen Gen.ReaderGen Dialect.DialectImpl
     Reader.ReaderImpl Reader.Grammar Reader.ReaderLemmas Reader.Lin Reader.GraphLemmas Reader.ReaderSim Reader.ReaderMult
     Reader.ReaderUnit Reader.ReaderLast Reader.ReaderX.
Import ListNotations.
Open Scope Z_scope.

(** ** the recipe table with a fresh key at the end *)
Lemma rec_get_app k rc l : rec_get k rc = None -> rec_get k (rc ++ [(k, l)]) = Some l.
Proof.
  induction rc as [|[k' v] r IH]; cbn [app rec_get]; intros H.
  - now rewrite oz_eqb_refl.
  - destruct (oz_eqb k k'); [discriminate|now apply IH].
Qed.
Lemma rec_set_app k v rc l : rec_get k rc = None -> rec_set k v (rc ++ [(k, l)]) = rc ++ [(k, v)].
Proof.
  induction rc as [|[k' v'] r IH]; cbn [app rec_get rec_set]; intros H.
  - now rewrite oz_eqb_refl.
  - destruct (oz_eqb k k'); [discriminate|]. now rewrite IH.
Qed.
Lemma rec_set_absent k v rc : rec_get k rc = None -> rec_set k v rc = rc ++ [(k, v)].
Proof.
  induction rc as [|[k' v'] r IH]; cbn [app rec_get rec_set]; intros H; [reflexivity|].
  destruct (oz_eqb k k'); [discriminate|]. now rewrite IH.
Qed.
Lemma rec_append_app k e rc l : rec_get k rc = None -> rec_append k e (rc ++ [(k, l)]) = rc ++ [(k, l ++ [e])].
Proof. intros H. unfold rec_append. now rewrite rec_get_app, rec_set_app. Qed.
Lemma rec_from_app k rc l : rec_get k rc = None -> rec_from k (rc ++ [(k, l)]) = Some [(k, l)].
Proof.
  induction rc as [|[k' v'] r IH]; cbn [app rec_get rec_from]; intros H.
  - now rewrite oz_eqb_refl.
  - destruct (oz_eqb k k'); [discriminate|]. now apply IH.
Qed.
Lemma rec_del_absent k rc : rec_get k rc = None -> rec_del k rc = rc.
Proof.
  induction rc as [|[k' v'] r IH]; cbn [rec_get rec_del]; intros H; [reflexivity|].
  destruct (oz_eqb k k'); [discriminate|]. now rewrite IH.
Qed.
Lemma rec_del_app k rc l : rec_get k rc = None -> rec_del k (rc ++ [(k, l)]) = rc.
Proof.
  induction rc as [|[k' v'] r IH]; cbn [app rec_get rec_del]; intros H.
  - now rewrite oz_eqb_refl.
  - destruct (oz_eqb k k'); [discriminate|]. now rewrite IH.
Qed.
Lemma skipn_len_app {A} (a : list A) (e : A) n : length a = n -> skipn n (a ++ [e]) = [e].
Proof. intros <-. rewrite skipn_app, skipn_all, Nat.sub_diag. reflexivity. Qed.

Definition mult_closed_gen (st : rstate) (ba : list (option Z)) (rcf : recipes_t) (g : graph) (cur : Z) (prev : option Z)
           (base : option (option Z)) (after : option sym) : rstate :=
  {| s_g := g; s_current := cur; s_branch_anchor := ba; s_recipes := (match ba with [] => [] | _ => rcf end);
     s_prev_node := prev; s_branching := (match ba with [] => false | _ => true end);
     s_cycle := s_cycle st; s_pbo := (match after with Some s => Some (sym_ord s) | None => s_pbo st end);
     s_attributes := s_attributes st; s_base_anchor := base |}.

Lemma close_mult_gen P ms ds after K st ba rc anchor n0 a0 o0 es :
  Forall inner P -> digits_ok ds = true -> endk K ->
  s_branch_anchor st = ba ++ [anchor] -> s_recipes st = rc ++ [(anchor, (n0, a0, o0) :: es)] ->
  rec_get anchor rc = None ->
  let entry := (n0, a0, match ms with Some s => Some (sym_ord s) | None => o0 end) :: es in
  close_branch (P ++ ")"%char :: osym_str ms ++ "|"%char :: digits_str ds ++ after_tail after K) 0 st
  = ('(g, cur, _, base) <- exp_times (digits_nat ds - 1) [(anchor, entry)] (s_g st) (s_current st) anchor (Some anchor) ;;
     prev <- of_option base EUnbound ;;
     Ok (mult_closed_gen st ba (rc ++ [(anchor, entry)]) g cur prev base after, Datatypes.S (length P))).
Proof.
  intros HP Hd HK Hba Hrc Habs entry. destruct (digits_ok_all ds Hd) as [Hall Hne].
  unfold close_branch. rewrite Hba, rev_app_distr. cbn [rev app]. rewrite rev_involutive. change (fnc_from ?r ?c 0) with (fnc0 r c).
  rewrite fnc0_spec, (find_idx_inner _ fnc_eon_a HP incl_eon_a). cbn [find_idx].
  change (str_in [")"%char] fnc_eon_a) with true. cbv iota. rewrite Nat.add_0_r. cbn [bind].
  rewrite !nth_error_plus.
  set (D := digits_str ds) in *. set (T := after_tail after K) in *.
  assert (HlenD : length D = length ds) by (unfold D, digits_str; apply map_length).
  assert (Hfi : find_idx ("|"%char :: D ++ T) fnc_eon_b = Datatypes.S (length ds)).
  { cbn [find_idx]. change (str_in ["|"%char] fnc_eon_b) with false. cbv iota. f_equal.
    destruct HK as [->|HK].
    - unfold T, after_tail. destruct after as [s0|]; cbn [osym_str app].
      + apply find_idx_digits_b; [assumption|]. eexists _, _. split; [reflexivity|apply sym_in_eon_b].
      + now apply find_idx_digits_end.
    - apply find_idx_digits_b; [assumption|]. destruct (after_tail_head_k after K HK) as (h & tl & ET & Hh). eauto. }
  assert (Hcb : forall pbo, (match nth_error T 0 with
                             | Some cb => if sto_mem cb then o <- symbol_to_order_lookup [cb] ;; Ok (Some o) else Ok pbo
                             | None => Ok pbo end)
                            = Ok (match after with Some s => Some (sym_ord s) | None => pbo end)).
  { intros pbo. unfold T, after_tail. destruct after as [s|]; cbn [osym_str app nth_error].
    - now rewrite sym_mem, sym_lookup.
    - destruct HK as [->|HK]; [reflexivity|]. destruct (stopk_head_b K HK) as (h' & tl' & -> & _ & Hm). cbn [nth_error]. now rewrite Hm. }
  assert (HN : Z.to_nat (Z.of_nat (digits_nat ds) - 1) = (digits_nat ds - 1)%nat) by lia.
  unfold entry. destruct ms as [s|]; cbn [osym_str app nth_error].
  - assert (E1 : Ascii.eqb (sym_char s) "|"%char = false) by (destruct s; reflexivity).
    cbn [ch_eq]. rewrite E1. change (Ascii.eqb "|"%char "|"%char) with true. rewrite sym_mem.
    cbn [orb andb of_option bind]. rewrite E1. cbn [negb].
    rewrite sym_lookup. cbn [bind]. rewrite Hrc, (rec_get_app _ _ _ Habs), (rec_set_app _ _ _ _ Habs).
    cbn [bind].
    rewrite fnc_from_spec by (rewrite app_length; cbn [length]; lia).
    replace (length P + 1 + 1)%nat with (length P + 2)%nat by lia. rewrite skipn_plus. cbn [skipn].
    rewrite Hfi. cbn [bind]. rewrite (rec_from_app _ _ _ Habs). cbn [of_option bind].
    unfold py_slice. replace (length P + 1 + 2)%nat with (length P + 3)%nat by lia. rewrite skipn_plus. cbn [skipn].
    replace (length P + 2 + Datatypes.S (length ds) - (length P + 3))%nat with (length D) by lia.
    rewrite firstn_app, Nat.sub_diag, firstn_all. cbn [firstn]. rewrite app_nil_r.
    unfold D. rewrite py_int_full_digits by assumption. cbn [bind]. rewrite HN.
    destruct (exp_times _ _ _ _ _ _) as [[[[g cur] pn] base]|]; cbn [bind]; [|reflexivity].
    destruct base as [b|]; cbn [of_option bind]; [|reflexivity].
    replace (length P + 2 + Datatypes.S (length ds))%nat with (length P + (3 + length (digits_str ds)))%nat by (unfold digits_str; rewrite map_length; lia).
    rewrite nth_error_plus. cbn [plus nth_error]. rewrite nth_error_app2 by lia. rewrite Nat.sub_diag.
    fold D. fold T. rewrite Hcb. cbn [bind]. rewrite Nat.add_1_r. reflexivity.
  - cbn [ch_eq]. change (Ascii.eqb "|"%char "|"%char) with true. cbn [orb of_option bind].
    change (Ascii.eqb "|"%char "|"%char) with true. cbn [negb bind].
    rewrite fnc_from_spec by (rewrite app_length; cbn [length]; lia).
    rewrite skipn_plus. cbn [skipn]. rewrite Hfi. cbn [bind]. rewrite Hrc, (rec_from_app _ _ _ Habs). cbn [of_option bind].
    unfold py_slice. rewrite skipn_plus. cbn [skipn].
    replace (length P + 1 + Datatypes.S (length ds) - (length P + 2))%nat with (length D) by lia.
    rewrite firstn_app, Nat.sub_diag, firstn_all. cbn [firstn]. rewrite app_nil_r.
    unfold D. rewrite py_int_full_digits by assumption. cbn [bind]. rewrite HN.
    destruct (exp_times _ _ _ _ _ _) as [[[[g cur] pn] base]|]; cbn [bind]; [|reflexivity].
    destruct base as [b|]; cbn [of_option bind]; [|reflexivity].
    match goal with |- context [nth_error (P ++ ?R) ?n] =>
      replace n with (length P + (2 + length (digits_str ds)))%nat
        by (unfold digits_str; rewrite map_length; lia) end.
    rewrite nth_error_plus. cbn [plus nth_error]. rewrite nth_error_app2 by lia. rewrite Nat.sub_diag.
    fold D. fold T. rewrite Hcb. cbn [bind]. rewrite Nat.add_1_r. reflexivity.
Qed.

(** the closing loop of a multiplied branch, the rounds behind the multiplier left open *)
Lemma close_all_mult_gen_k P ms ds after K st ba rc anchor n0 a0 o0 es :
  Forall inner P -> digits_ok ds = true -> endk K ->
  s_branch_anchor st = ba ++ [anchor] -> s_recipes st = rc ++ [(anchor, (n0, a0, o0) :: es)] ->
  rec_get anchor rc = None ->
  let entry := (n0, a0, match ms with Some s => Some (sym_ord s) | None => o0 end) :: es in
  let text := P ++ ")"%char :: osym_str ms ++ "|"%char :: digits_str ds ++ after_tail after K in
  close_all text st
  = ('(g, cur, _, base) <- exp_times (digits_nat ds - 1) [(anchor, entry)] (s_g st) (s_current st) anchor (Some anchor) ;;
     prev <- of_option base EUnbound ;;
     close_loop (length text) text (Datatypes.S (length P)) (mult_closed_gen st ba (rc ++ [(anchor, entry)]) g cur prev base after)).
Proof.
  intros HP Hd HK Hba Hrc Habs entry text. unfold text. rewrite close_all_first by assumption.
  rewrite (close_mult_gen P ms ds after K st ba rc anchor n0 a0 o0 es HP Hd HK Hba Hrc Habs). cbv zeta. fold entry.
  destruct (exp_times _ _ _ _ _ _) as [[[[g cur] pn] base]|]; cbn [bind]; [|reflexivity].
  destruct base as [b|]; cbn [of_option bind]; reflexivity.
Qed.
Lemma close_all_mult_gen P ms ds after K st ba rc anchor n0 a0 o0 es :
  Forall inner P -> digits_ok ds = true -> cont K ->
  s_branch_anchor st = ba ++ [anchor] -> s_recipes st = rc ++ [(anchor, (n0, a0, o0) :: es)] ->
  rec_get anchor rc = None ->
  let entry := (n0, a0, match ms with Some s => Some (sym_ord s) | None => o0 end) :: es in
  close_all (P ++ ")"%char :: osym_str ms ++ "|"%char :: digits_str ds ++ after_tail after K) st
  = ('(g, cur, _, base) <- exp_times (digits_nat ds - 1) [(anchor, entry)] (s_g st) (s_current st) anchor (Some anchor) ;;
     prev <- of_option base EUnbound ;;
     Ok (mult_closed_gen st ba (rc ++ [(anchor, entry)]) g cur prev base after)).
Proof.
  intros HP Hd HK Hba Hrc Habs entry. rewrite close_all_first by assumption.
  rewrite (close_mult_gen P ms ds after K st ba rc anchor n0 a0 o0 es HP Hd (or_intror (cont_stopper K HK)) Hba Hrc Habs). cbv zeta. fold entry.
  destruct (exp_times _ _ _ _ _ _) as [[[[g cur] pn] base]|]; cbn [bind]; [|reflexivity].
  destruct base as [b|]; cbn [of_option bind]; [|reflexivity].
  apply close_loop_stop_after. now apply mult_tail_no_close.
Qed.

(** ** the last node of a multiplied branch, at any depth *)
Definition unit_done_gen (st : rstate) (ba : list (option Z)) (rcf : recipes_t) (a : attrs) (g : graph) (cur : Z)
           (prev : option Z) (base : option (option Z)) (after : option sym) : rstate :=
  {| s_g := g; s_current := cur; s_branch_anchor := ba; s_recipes := (match ba with [] => [] | _ => rcf end);
     s_prev_node := prev; s_branching := (match ba with [] => false | _ => true end);
     s_cycle := s_cycle st; s_pbo := (match after with Some s => Some (sym_ord s) | None => Some 1 end);
     s_attributes := Some a; s_base_anchor := base |}.

Lemma node_step_mult_gen fo st pc nm m ms ds after K ba rc ak n0 a0 o0 es p pend :
  opened st pc = Ok (true, ba ++ [Some ak], rc ++ [(Some ak, (n0, a0, o0) :: es)]) ->
  rec_get (Some ak) rc = None ->
  s_prev_node st = Some p -> s_pbo st = Some pend ->
  name_ok fo nm = true -> sn_ok m None -> digits_ok ds = true -> cont K ->
  node_step fo st pc nm (stail m None ++ ")"%char :: osym_str ms ++ "|"%char :: digits_str ds ++ after_tail after K)
  = (a <- parse_graph_base_node fo nm ;;
     let '(g2, nx, pv) := m_copies (mult_val m) a (s_g st) (s_current st) (Some p) pend in
     let entry := (n0, a0, match ms with Some s => Some (sym_ord s) | None => o0 end)
                    :: es ++ [(Z.of_nat (mult_val m), a, Some pend)] in
     '(g3, c3, _, base) <- copies_run (digits_nat ds - 1) entry g2 nx (Some ak) (Some (Some ak)) ;;
     prev <- of_option base EUnbound ;;
     Ok (unit_done_gen st ba (rc ++ [(Some ak, entry)]) a g3 c3 prev base after)).
Proof.
  intros Hop Habs Hp Hpb Hn Hs Hd HK. rewrite node_step_eq, Hop. cbn [bind].
  destruct (scan_simple m None ")"%char (osym_str ms ++ "|"%char :: digits_str ds ++ after_tail after K)
              (s_current st) (s_cycle st) Hs ltac:(repeat split)) as (xr & rdx & Es & Ec & Ece & Eb).
  rewrite Es. cbn [bind]. rewrite Eb. cbn [bind].
  rewrite (nmon_simple m None ")"%char _ Hs eq_refl ltac:(discriminate) eq_refl). cbn [bind oord]. rewrite Nat2Z.id.
  destruct (parse_graph_base_node fo nm) as [a|e] eqn:Ea; cbn [bind]; [|reflexivity].
  rewrite rev_app_distr. cbn [rev app]. rewrite (rec_append_app _ _ _ _ Habs). cbn [bind]. rewrite Ece, Hp, Hpb.
  assert (Hn1 : (1 <= mult_val m)%nat) by (unfold mult_val; destruct m; [now destruct Hs as (_ & ?)|lia]).
  rewrite (add_nodes_copies (mult_val m) a 1 (s_g st) (s_current st) (Some p) (Some pend) pend
             (name_ok_ahas fo nm a Hn Ea)) by (intros _ ? _; reflexivity).
  destruct (m_copies (mult_val m) a (s_g st) (s_current st) (Some p) pend) as [[g2 nx] pv] eqn:Ecp. cbn [bind].
  match goal with |- context [close_all _ ?S] =>
    rewrite (close_all_mult_gen (stail m None) ms ds after K S ba rc (Some ak) n0 a0 o0 (es ++ [(Z.of_nat (mult_val m), a, Some pend)])
               (stail_inner m None Hs) Hd HK eq_refl eq_refl Habs) end.
  cbn [s_g s_current s_base_anchor]. cbv zeta.
  rewrite exp_times_single.
  destruct (copies_run _ _ g2 nx (Some ak) (Some (Some ak))) as [[[[g3 c3] pn] base]|]; cbn [bind]; [|reflexivity].
  destruct base as [b|]; cbn [of_option bind]; [|reflexivity].
  unfold mult_closed_gen, unit_done_gen. cbn [s_cycle s_pbo s_attributes]. rewrite Ec.
  destruct (mult_val m); [lia|]. reflexivity.
Qed.

Lemma node_step_mult_gen_k fo st pc nm m ms ds after K ba rc ak n0 a0 o0 es p pend :
  opened st pc = Ok (true, ba ++ [Some ak], rc ++ [(Some ak, (n0, a0, o0) :: es)]) ->
  rec_get (Some ak) rc = None ->
  s_prev_node st = Some p -> s_pbo st = Some pend ->
  name_ok fo nm = true -> sn_ok m None -> digits_ok ds = true -> endk K ->
  node_step fo st pc nm (stail m None ++ ")"%char :: osym_str ms ++ "|"%char :: digits_str ds ++ after_tail after K)
  = (a <- parse_graph_base_node fo nm ;;
     let '(g2, nx, pv) := m_copies (mult_val m) a (s_g st) (s_current st) (Some p) pend in
     let entry := (n0, a0, match ms with Some s => Some (sym_ord s) | None => o0 end)
                    :: es ++ [(Z.of_nat (mult_val m), a, Some pend)] in
     '(g3, c3, _, base) <- copies_run (digits_nat ds - 1) entry g2 nx (Some ak) (Some (Some ak)) ;;
     prev <- of_option base EUnbound ;;
     let text := stail m None ++ ")"%char :: osym_str ms ++ "|"%char :: digits_str ds ++ after_tail after K in
     close_loop (length text) text (Datatypes.S (length (stail m None)))
                (unit_done_gen st ba (rc ++ [(Some ak, entry)]) a g3 c3 prev base after)).
Proof.
  intros Hop Habs Hp Hpb Hn Hs Hd HK. rewrite node_step_eq, Hop. cbn [bind].
  destruct (scan_simple m None ")"%char (osym_str ms ++ "|"%char :: digits_str ds ++ after_tail after K)
              (s_current st) (s_cycle st) Hs ltac:(repeat split)) as (xr & rdx & Es & Ec & Ece & Eb).
  rewrite Es. cbn [bind]. rewrite Eb. cbn [bind].
  rewrite (nmon_simple m None ")"%char _ Hs eq_refl ltac:(discriminate) eq_refl). cbn [bind oord]. rewrite Nat2Z.id.
  destruct (parse_graph_base_node fo nm) as [a|e] eqn:Ea; cbn [bind]; [|reflexivity].
  rewrite rev_app_distr. cbn [rev app]. rewrite (rec_append_app _ _ _ _ Habs). cbn [bind]. rewrite Ece, Hp, Hpb.
  assert (Hn1 : (1 <= mult_val m)%nat) by (unfold mult_val; destruct m; [now destruct Hs as (_ & ?)|lia]).
  rewrite (add_nodes_copies (mult_val m) a 1 (s_g st) (s_current st) (Some p) (Some pend) pend
             (name_ok_ahas fo nm a Hn Ea)) by (intros _ ? _; reflexivity).
  destruct (m_copies (mult_val m) a (s_g st) (s_current st) (Some p) pend) as [[g2 nx] pv] eqn:Ecp. cbn [bind].
  match goal with |- context [close_all _ ?S] =>
    rewrite (close_all_mult_gen_k (stail m None) ms ds after K S ba rc (Some ak) n0 a0 o0 (es ++ [(Z.of_nat (mult_val m), a, Some pend)])
               (stail_inner m None Hs) Hd HK eq_refl eq_refl Habs) end.
  cbn [s_g s_current s_base_anchor]. cbv zeta.
  rewrite exp_times_single.
  destruct (copies_run _ _ g2 nx (Some ak) (Some (Some ak))) as [[[[g3 c3] pn] base]|]; cbn [bind]; [|reflexivity].
  destruct base as [b|]; cbn [of_option bind]; [|reflexivity].
  unfold mult_closed_gen, unit_done_gen. cbn [s_cycle s_pbo s_attributes]. rewrite Ec.
  destruct (mult_val m); [lia|]. reflexivity.
Qed.

Lemma rev_branching (stk : list (option Z)) : (match rev stk with [] => false | _ => true end) = negb (is_nil stk).
Proof. destruct stk as [|a l]; [reflexivity|]. cbn [rev]. now destruct (rev l). Qed.

(** ** the body of a unit, node by node, below a stack [stk] of open branches *)
Section UnitBodyGen.
  Variables (fo : float_oracle) (u : unit_t) (ak : Z) (a0 : attrs) (stk : list (option Z)) (rc : recipes_t)
            (cs : list (option sym)) (kt : pystr).
  Hypothesis Hpa : parse_graph_base_node fo (u_name u) = Ok a0.
  Hypothesis Hna : name_ok fo (u_name u) = true.
  Hypothesis Hbo : body_ok fo (oord (u_bond u)) (u_body u) = true.
  Hypothesis Hd : digits_ok (u_count u) = true.
  Hypothesis HK : contz kt.
  Hypothesis Hcs : closes_ok cs = true.
  Hypothesis Haft : cs <> [] -> u_after u = None.
  Hypothesis Hlcs : (length cs <= length stk)%nat.
  Hypothesis Habs : rec_get (Some ak) rc = None.

  Lemma unit_body_gen : forall body (first : bool) st x pre pc f es0,
    body <> [] -> Rel st x ->
    (if first then m_stack x = stk /\ m_prev x = Some ak
                   /\ rec_set (Some ak) [(1, a0, Some 1)] (rec_del (Some ak) (s_recipes st)) = rc ++ [(Some ak, [(1, a0, Some 1)])]
                   /\ node_attrs (m_g x) ak = Ok a0 /\ es0 = []
     else m_stack x = Some ak :: stk /\ m_prev x <> None /\ s_recipes st = rc ++ [(Some ak, (1, a0, Some 1) :: es0)]) ->
    Ascii.eqb (last pre pc) "("%char = first -> Forall nob pre ->
    body_ok fo (m_pend x) body = true -> last_bond_none body ->
    (forall es_rest, body_entries fo (m_pend x) body = Some es_rest ->
                     body_entries fo (oord (u_bond u)) (u_body u) = Some (es0 ++ es_rest)) ->
    match m_run fo ((if first then [TOpen] else []) ++ body_toks body ++ rest_toks u ++ closes_toks cs) x with
    | Ok x1 => exists st1 pre1,
        main_loop (length body + f) fo pc (pre ++ flat_map bnode_str body ++ closing_str u ++ closes_str cs ++ kt) st
        = main_loop f fo "]"%char (pre1 ++ kt) st1
        /\ Forall skipch pre1 /\ Rel st1 x1 /\ (m_stack x1 = [] -> s_recipes st1 = []) /\ m_stack x1 = skipn (length cs) stk
        /\ (s_recipes st1 = [] \/ exists e, s_recipes st1 = rc ++ [(Some ak, e)])
    | Err e => main_loop (length body + f) fo pc (pre ++ flat_map bnode_str body ++ closing_str u ++ closes_str cs ++ kt) st = Err e
    end.
  Proof.
    set (K := closes_str cs ++ kt).
    assert (HKs : endk K).
    { unfold K. destruct cs as [|c0 r0]; cbn [closes_str flat_map app].
      - destruct HK as [->|HK']; [now left|right; now apply cont_stopper].
      - right. apply close_stopper. }
    induction body as [|b body IH]; intros first st x pre pc f es0 Hne HR Hfirst Hpc Hpre Hok Hlast Hlink; [contradiction|].
    cbn [body_ok] in Hok. apply andb_prop in Hok as [Hok Hokr]. apply andb_prop in Hok as [Hnm Hsn].
    pose proof (sn_okb_ok _ _ Hsn) as Hs.
    set (RT := stail (bn_mult b) (bn_bond b) ++ flat_map bnode_str body ++ closing_str u ++ K).
    assert (Eloop : main_loop (length (b :: body) + f) fo pc (pre ++ flat_map bnode_str (b :: body) ++ closing_str u ++ K) st
                  = (st0 <- node_step fo st (last pre pc) (bn_name b) RT ;; main_loop (length body + f) fo "]"%char RT st0)).
    { cbn [length plus main_loop flat_map]. unfold bnode_str at 1. rewrite <- !app_assoc. cbn [app]. rewrite <- !app_assoc.
      rewrite next_node_skip by assumption. cbn [app]. rewrite next_node_here by (now apply (name_chars fo)). reflexivity. }
    rewrite Eloop. clear Eloop.
    destruct HR as (Rg & Rc & Rp & Rcy & Rba & Rbr & Rpb).
    assert (Hprev : exists p, m_prev x = Some p) by (destruct first; [exists ak; tauto|destruct (m_prev x); [eauto|tauto]]).
    destruct Hprev as (p & Ep). destruct (Rpb p Ep) as (Epb & Eat).
    assert (Hop : opened st (last pre pc) = Ok (true, rev stk ++ [Some ak], rc ++ [(Some ak, (1, a0, Some 1) :: es0)])).
    { unfold opened. rewrite Hpc. destruct first.
      - destruct Hfirst as (Es & Epk & Erc & Eatt & ->). rewrite Rp, Epk, Rg, Eatt. cbn [bind]. rewrite Rba, Es, Erc. reflexivity.
      - destruct Hfirst as (Es & _ & Erc). rewrite Rbr, Rba, Es, Erc. reflexivity. }
    destruct body as [|b' r].
    - unfold last_bond_none in Hlast. cbn in Hlast. rewrite Hlast in *.
      unfold RT. rewrite Hlast. cbn [flat_map app]. rewrite closing_K.
      rewrite (node_step_mult_gen_k fo st (last pre pc) (bn_name b) (bn_mult b) (u_ms u) (u_count u) (u_after u) K (rev stk) rc ak 1 a0 (Some 1) es0 p (m_pend x)
                 Hop Habs (eq_trans Rp Ep) Epb Hnm Hs Hd HKs).
      assert (Em : forall ts, m_run fo ((if first then [TOpen] else []) ++ ts) x
                   = m_run fo ts (mk_m (m_g x) (m_next x) (Some p) (m_pend x) (Some ak :: stk) (m_rings x))).
      { intros ts. destruct first.
        - destruct Hfirst as (Es & Epk & _). cbn [app m_run m_step bind]. rewrite Es, Ep. unfold mk_m. rewrite Epk in Ep. now injection Ep as <-.
        - destruct Hfirst as (Es & _). cbn [app]. unfold mk_m. rewrite <- Es, <- Ep. now destruct x. }
      rewrite Em. cbn [body_toks flat_map]. unfold bnode_toks. rewrite ?Hlast. cbn [osym_tok app].
      cbn [m_run m_step mk_m m_g m_next m_prev m_pend m_stack m_rings].
      destruct (parse_graph_base_node fo (bn_name b)) as [a|e] eqn:Ea; cbn [bind]; [|reflexivity].
      rewrite Rg, Rc.
      destruct (m_copies (mult_val (bn_mult b)) a (m_g x) (m_next x) (Some p) (m_pend x)) as [[g2 nx] pv] eqn:Ecp. cbn [bind].
      unfold rest_toks. cbn [app m_run m_step m_stack m_g m_next m_prev m_pend m_rings bind]. rewrite <- app_assoc.
      assert (Hent : body_entries fo (oord (u_bond u)) (u_body u) = Some (es0 ++ [(Z.of_nat (mult_val (bn_mult b)), a, Some (m_pend x))])).
      { apply Hlink. cbn [body_entries]. now rewrite Ea. }
      pose proof (m_copies_all fo u a0 _ stk (m_rings x) (osym_tok (u_after u) ++ closes_toks cs) Hpa Hna Hent Hbo
                    (digits_nat (u_count u) - 1) g2 nx ak (Some (Some ak))) as Hall.
      unfold mk_m in Hall. rewrite Hall. clear Hall. cbv zeta.
      assert (Eao : match u_ms u with Some s => Some (sym_ord s) | None => Some 1 end = Some (oord (u_ms u))) by (now destruct (u_ms u)).
      rewrite Eao.
      destruct (copies_run (digits_nat (u_count u) - 1) _ g2 nx (Some ak) (Some (Some ak))) as [[[[g3 c3] pn] base]|] eqn:Ecr; cbn [bind]; [|reflexivity].
      destruct (copies_run_base _ _ _ _ _ _ _ _ _ Ecr) as (-> & Hpn). cbn [of_option bind].
      assert (Ea' : forall ts0 st0, m_run fo (osym_tok (u_after u) ++ ts0) st0
                 = m_run fo ts0 {| m_g := m_g st0; m_next := m_next st0; m_prev := m_prev st0;
                                   m_pend := (match u_after u with Some s => sym_ord s | None => m_pend st0 end);
                                   m_stack := m_stack st0; m_rings := m_rings st0 |}).
      { intros ts0 st0. destruct (u_after u); [reflexivity|]. now destruct st0. }
      rewrite Ea'. cbn [m_g m_next m_prev m_pend m_stack m_rings].
      (* the state behind the multiplier, then the closings *)
      match goal with |- context [close_loop _ _ _ ?S] => set (stU := S) end.
      match goal with |- context [m_run fo (closes_toks cs) ?M] => set (xU := M) end.
      assert (HRU : Rel stU xU).
      { unfold Rel, stU, xU, unit_done_gen. cbn [s_g s_current s_prev_node s_cycle s_branch_anchor s_branching s_pbo s_attributes
                                         m_g m_next m_prev m_rings m_stack m_pend].
        repeat split; try assumption; try reflexivity.
        - apply rev_branching.
        - destruct (u_after u); reflexivity.
        - discriminate. }
      set (Q0 := stail (bn_mult b) None ++ [")"%char]).
      set (Q1 := osym_str (u_ms u) ++ "|"%char :: digits_str (u_count u) ++ osym_str (u_after u)).
      assert (HQ1 : Forall inner Q1).
      { unfold Q1. apply Forall_app; split; [apply inner_osym|]. constructor; [reflexivity|].
        apply Forall_app; split; [apply inner_digits; now apply digits_ok_all|apply inner_osym]. }
      assert (Etext : stail (bn_mult b) None ++ ")"%char :: osym_str (u_ms u) ++ "|"%char :: digits_str (u_count u) ++ after_tail (u_after u) K
                    = Q0 ++ Q1 ++ closes_str cs ++ kt).
      { unfold Q0, Q1, K, after_tail. repeat (rewrite <- app_assoc; cbn [app]). reflexivity. }
      assert (Epos : Datatypes.S (length (stail (bn_mult b) None)) = length Q0) by (unfold Q0; rewrite app_length; cbn [length]; lia).
      cbv zeta. rewrite Etext, Epos.
      destruct (closes_sim fo cs (length (Q0 ++ Q1 ++ closes_str cs ++ kt)) Q0 Q1 kt stU xU HQ1 HK Hcs HRU)
        as (x1 & st1 & Em1 & El1 & HR1 & _ & _ & _ & Estk1 & Hnil1 & Hrec1 & Hkeep1).
      { unfold stU, unit_done_gen. cbn [s_attributes]. discriminate. }
      { unfold stU, xU, unit_done_gen. cbn [s_pbo m_pend]. now destruct (u_after u). }
      { intros Hne0. unfold xU. cbn [m_pend]. now rewrite (Haft Hne0). }
      { unfold xU. cbn [m_stack]. exact Hlcs. }
      { rewrite !app_length. pose proof (closes_str_length cs). unfold Q0. rewrite app_length. cbn [length]. lia. }
      rewrite Em1, El1. cbn [bind].
      exists st1, (stail (bn_mult b) None ++ ")"%char :: Q1 ++ closes_str cs).
      split.
      { cbn [length plus]. unfold Q0. repeat (rewrite <- app_assoc; cbn [app]). reflexivity. }
      split.
      { apply Forall_app; split; [now apply stail_skipch|]. constructor; [split; discriminate|].
        apply Forall_app; split; [eapply Forall_impl; [|exact HQ1]; apply inner_skipch|apply closes_inner_skip]. }
      split; [exact HR1|].
      assert (HTU : s_recipes stU = [] \/ exists e, s_recipes stU = rc ++ [(Some ak, e)]).
      { unfold stU, unit_done_gen. cbn [s_recipes]. destruct (rev stk); [left; reflexivity|right; eexists; reflexivity]. }
      split; [|split; [rewrite Estk1; reflexivity|]].
      { intros E0. destruct cs as [|c0 r0].
        + rewrite (Hnil1 eq_refl). rewrite Estk1 in E0. unfold xU in E0. cbn [m_stack length skipn] in E0.
          unfold stU, unit_done_gen. cbn [s_recipes]. rewrite E0. reflexivity.
        + apply Hrec1; [discriminate|exact E0]. }
      destruct cs as [|c0 r0]; [rewrite (Hnil1 eq_refl); exact HTU|].
      destruct (m_stack x1) as [|z1 t1] eqn:Ex1; [left; apply Hrec1; [discriminate|reflexivity]|].
      rewrite Hkeep1 by discriminate. exact HTU.
    - set (k := flat_map bnode_str (b' :: r) ++ closing_str u ++ K).
      assert (Hk : cont k) by (unfold k; cbn [flat_map]; unfold bnode_str at 1; cbn [app]; constructor).
      pose proof (blin_ok fo first b Hnm Hsn) as Hokb.
      assert (ERT : RT = lin_tail_str (blin first b) ++ k) by (unfold RT, k; now rewrite blin_tail).
      rewrite ERT.
      assert (Hopn : l_open (blin first b) = true -> exists p0, m_prev x = Some p0 /\ has_node (m_g x) p0 = true).
      { cbn [blin l_open]. intros Hf1. rewrite Hf1 in Hfirst. destruct Hfirst as (_ & Epk & _ & Eatt & _).
        exists ak. split; [exact Epk|]. now apply (node_attrs_has _ _ a0). }
      pose proof (node_step_lin fo (blin first b) k st x (last pre pc) Hokb Hk
                    (conj Rg (conj Rc (conj Rp (conj Rcy (conj Rba (conj Rbr Rpb)))))) Hpc Hopn ltac:(cbn; intros C; now elim C)) as Hstep.
      change (l_name (blin first b)) with (bn_name b) in Hstep.
      assert (Em : m_run fo ((if first then [TOpen] else []) ++ body_toks (b :: b' :: r) ++ rest_toks u ++ closes_toks cs) x
                 = (x1 <- item_effect fo (blin first b) x ;; m_run fo (body_toks (b' :: r) ++ rest_toks u ++ closes_toks cs) x1)).
      { rewrite <- (m_item fo (blin first b) _ x Hokb). rewrite blin_toks. cbn [body_toks flat_map]. now rewrite <- !app_assoc. }
      rewrite Em. clear Em.
      destruct (item_effect fo (blin first b) x) as [x1|e] eqn:Eeff; cbn [bind].
      + destruct Hstep as (st1 & Est & HR1 & _). rewrite Est. cbn [bind].
        unfold item_effect in Eeff. cbn [blin l_name l_open l_mult l_rings l_bond l_close] in Eeff.
        destruct (parse_graph_base_node fo (bn_name b)) as [a|] eqn:Ea; [|discriminate]. cbn [bind spec_rings snd fst add_cycle_edges] in Eeff.
        rewrite Ep in Eeff.
        destruct (m_copies_some (mult_val (bn_mult b)) a (m_g x) (m_next x) p (m_pend x)) as (g2 & nx & p' & Ecp).
        rewrite Ecp in Eeff. cbn [bind] in Eeff. injection Eeff as <-.
        destruct (look_lin fo (blin first b) k Hokb Hk) as (io & ic & Eio & Eic & Elt). cbn [blin l_close is_some] in Elt.
        destruct (node_step_recipes fo st (last pre pc) (bn_name b) _ st1 io ic Est Eio Eic Elt)
          as (n & bo0 & bo1 & a' & br & ba & rc0 & En & Ea2 & Eop & Eba & Ebr & Erc).
        rewrite Hop in Eop. injection Eop as <- <- <-. rewrite Ea in Ea2. injection Ea2 as <-.
        pose proof (nmon_n _ _ _ _ _ _ _ En (nmon_lin fo (blin first b) k Hokb (cont_stopper k Hk))) as Enn. subst n. cbn [blin l_mult] in Erc.
        rewrite rev_app_distr in Erc. cbn [rev app] in Erc. rewrite (rec_append_app _ _ _ _ Habs), Epb in Erc.
        set (x1 := {| m_g := g2; m_next := nx; m_prev := Some p'; m_pend := oord (bn_bond b);
                      m_stack := (if first then Some p :: m_stack x else m_stack x); m_rings := m_rings x |}) in *.
        assert (Estk : m_stack x1 = Some ak :: stk).
        { unfold x1. cbn [m_stack]. destruct first.
          - destruct Hfirst as (Es & Epk & _). rewrite Es. rewrite Epk in Ep. now injection Ep as <-.
          - now destruct Hfirst as (Es & _). }
        specialize (IH false st1 x1 (stail (bn_mult b) (bn_bond b)) "]"%char f (es0 ++ [(Z.of_nat (mult_val (bn_mult b)), a, Some (m_pend x))])
                       ltac:(discriminate) HR1).
        cbn [app m_pend] in IH. unfold x1 in IH at 1. cbn [m_pend] in IH.
        assert (Hpc1 : Ascii.eqb (last (stail (bn_mult b) (bn_bond b)) "]"%char) "("%char = false).
        { apply Ascii.eqb_neq. apply last_skipch; [now apply stail_skipch|discriminate]. }
        assert (Hf1 : m_stack x1 = Some ak :: stk /\ m_prev x1 <> None
                      /\ s_recipes st1 = rc ++ [(Some ak, (1, a0, Some 1) :: es0 ++ [(Z.of_nat (mult_val (bn_mult b)), a, Some (m_pend x))])]).
        { split; [exact Estk|]. split; [unfold x1; cbn [m_prev]; discriminate|]. rewrite Erc. reflexivity. }
        specialize (IH Hf1 Hpc1 (skipch_nob _ (stail_skipch _ _ Hs)) Hokr (last_bond_cons _ _ _ Hlast)).
        assert (Hlink1 : forall es_rest, body_entries fo (oord (bn_bond b)) (b' :: r) = Some es_rest ->
                   body_entries fo (oord (u_bond u)) (u_body u)
                   = Some ((es0 ++ [(Z.of_nat (mult_val (bn_mult b)), a, Some (m_pend x))]) ++ es_rest)).
        { intros es_rest Her. rewrite <- app_assoc. apply Hlink. cbn [body_entries]. rewrite Ea.
          cbn [body_entries] in Her. rewrite Her. reflexivity. }
        specialize (IH Hlink1). rewrite blin_tail. unfold k. exact IH.
      + rewrite Hstep. reflexivity.
  Qed.
End UnitBodyGen.
