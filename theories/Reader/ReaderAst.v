(** ReaderAst: from ASTs to flat strings.  When [linearize a = Some l] (no branch multiplier, no node
    closing two branches) the AST prints as the flat string, has the flat string's tokens, and
    branch-multiplier unfolding leaves it alone; hence the simulation theorem speaks about ASTs:
    [reader_sim_ast]. *)
From Coq Require Import String.
From Coq Require Import List Ascii ZArith Bool Lia.
From CGV Require Import Base.PyBase Base.PyVal Base.NxGraph Dialect.DialectImpl
     Reader.ReaderImpl Reader.Grammar Reader.ReaderLemmas Reader.Lin Reader.ReaderSim Reader.ReaderMult.
Import ListNotations.

(** induction over the nested AST *)
Section ItemInd.
  Variables (P : item -> Prop) (Q : branch -> Prop).
  Hypothesis HI : forall n r m b brs, Forall Q brs -> P (Item n r m b brs).
  Hypothesis HB : forall c bm a, Forall P c -> Q (Branch c bm a).
  Fixpoint item_ind2 (it : item) : P it :=
    match it with
    | Item n r m b brs =>
        HI n r m b brs ((fix go (l : list branch) : Forall Q l :=
                           match l with [] => Forall_nil _ | x :: t => Forall_cons _ (branch_ind2 x) (go t) end) brs)
    end
  with branch_ind2 (br : branch) : Q br :=
    match br with
    | Branch c bm a =>
        HB c bm a ((fix go (l : list item) : Forall P l :=
                      match l with [] => Forall_nil _ | x :: t => Forall_cons _ (item_ind2 x) (go t) end) c)
    end.
End ItemInd.

Lemma lins_str_app a b : lins_str (a ++ b) = lins_str a ++ lins_str b.
Proof. unfold lins_str. apply flat_map_app. Qed.
Lemma lins_toks_app a b : lins_toks (a ++ b) = lins_toks a ++ lins_toks b.
Proof. unfold lins_toks. apply flat_map_app. Qed.

(** what [wrap_branch] does to text and tokens *)
Definition head_closed (l : list lin) : Prop := match l with i :: _ => l_open i = false | [] => False end.
Lemma set_open_str i : l_open i = false -> lin_str (set_open i) = "("%char :: lin_str i.
Proof. intros H. unfold lin_str, lin_tail_str, set_open. cbn [l_open l_name l_mult l_rings l_bond l_close]. rewrite H. reflexivity. Qed.
Lemma set_open_toks i : l_open i = false -> lin_toks (set_open i) = TOpen :: lin_toks i.
Proof. intros H. unfold lin_toks, set_open. cbn [l_open l_name l_mult l_rings l_bond l_close]. rewrite H. reflexivity. Qed.
Lemma set_close_str a z z' : set_close a z = Some z' -> lin_str z' = lin_str z ++ ")"%char :: osym_str a.
Proof.
  unfold set_close. destruct (l_close z) eqn:E; [discriminate|]. intros H. injection H as <-.
  unfold lin_str, lin_tail_str. cbn [l_open l_name l_mult l_rings l_bond l_close]. rewrite E. cbn [close_str].
  repeat (rewrite <- app_assoc; cbn [app]). reflexivity.
Qed.
Lemma set_close_toks a z z' : set_close a z = Some z' -> lin_toks z' = lin_toks z ++ TClose :: osym_tok a.
Proof.
  unfold set_close. destruct (l_close z) eqn:E; [discriminate|]. intros H. injection H as <-.
  unfold lin_toks. cbn [l_open l_name l_mult l_rings l_bond l_close]. rewrite E.
  repeat (rewrite <- app_assoc; cbn [app]). reflexivity.
Qed.
Lemma wrap_branch_spec a l w : head_closed l -> wrap_branch a l = Some w ->
  lins_str w = "("%char :: lins_str l ++ ")"%char :: osym_str a
  /\ lins_toks w = TOpen :: lins_toks l ++ TClose :: osym_tok a.
Proof.
  intros Hh. unfold wrap_branch. destruct l as [|i t]; [contradiction|]. cbn in Hh.
  destruct (rev (set_open i :: t)) as [|z r] eqn:Er; [discriminate|].
  destruct (set_close a z) as [z'|] eqn:Ez; [|discriminate]. intros H. injection H as <-.
  assert (E : set_open i :: t = rev r ++ [z]) by (rewrite <- (rev_involutive (set_open i :: t)), Er; reflexivity).
  cbn [rev]. rewrite lins_str_app, lins_toks_app. cbn [lins_str lins_toks flat_map]. rewrite !app_nil_r.
  rewrite (set_close_str a z z' Ez), (set_close_toks a z z' Ez).
  assert (E1 : lins_str (i :: t) = lin_str i ++ lins_str t) by reflexivity.
  assert (E2 : lins_toks (i :: t) = lin_toks i ++ lins_toks t) by reflexivity.
  assert (E3 : lins_str (rev r) ++ lin_str z = "("%char :: lins_str (i :: t)).
  { rewrite E1. change ("("%char :: lin_str i ++ lins_str t) with (("("%char :: lin_str i) ++ lins_str t).
    rewrite <- (set_open_str i Hh). change (lin_str (set_open i) ++ lins_str t) with (lins_str (set_open i :: t)).
    rewrite E, lins_str_app. cbn [lins_str flat_map]. now rewrite app_nil_r. }
  assert (E4 : lins_toks (rev r) ++ lin_toks z = TOpen :: lins_toks (i :: t)).
  { rewrite E2. change (TOpen :: lin_toks i ++ lins_toks t) with ((TOpen :: lin_toks i) ++ lins_toks t).
    rewrite <- (set_open_toks i Hh). change (lin_toks (set_open i) ++ lins_toks t) with (lins_toks (set_open i :: t)).
    rewrite E, lins_toks_app. cbn [lins_toks flat_map]. now rewrite app_nil_r. }
  split.
  - rewrite app_assoc, E3. reflexivity.
  - rewrite app_assoc, E4. reflexivity.
Qed.

Lemma concat_opt_cons {A} (x : option (list A)) r l :
  concat_opt (x :: r) = Some l -> exists a b, x = Some a /\ concat_opt r = Some b /\ l = a ++ b.
Proof.
  cbn. destruct x as [a|]; [|discriminate]. destruct (concat_opt r) as [b|]; [|discriminate].
  intros H. injection H as <-. eauto.
Qed.

(** the accumulating loop of [xb_item] does nothing when no branch carries a multiplier *)
Definition xb_go (n : pystr) (r : list (option sym * marker)) :=
  fix go (brs : list branch) (cr : list (option sym * marker)) (cm : option (list nat))
         (cb : option sym) (cbrs : list branch) (pending : option sym) (first : bool) : list item :=
    match brs with
    | [] => [Item n cr cm cb cbrs]
    | Branch c bm a :: tl =>
        let body := flat_map xb_item c in
        match bm with
        | None => go tl cr cm cb (cbrs ++ [Branch body None a]) a false
        | Some (ms, ds) =>
            let k := digits_nat ds in
            if (k <=? 1)%nat then go tl cr cm cb (cbrs ++ [Branch body None a]) a false
            else
              let rr := if first then r else [] in
              Item n cr cm cb (cbrs ++ [Branch body None ms])
              :: repeat (Item n rr None pending [Branch body None ms]) (k - 2)
              ++ go tl rr None pending [Branch body None a] a false
        end
    end.
Lemma xb_item_eq n r m b brs : xb_item (Item n r m b brs) = xb_go n r brs r m b [] b true.
Proof. reflexivity. Qed.
Definition plain_branch (br : branch) : Prop := b_mult br = None /\ flat_map xb_item (b_chain br) = b_chain br.
Lemma xb_go_plain n r : forall brs cr cm cb acc pending first, Forall plain_branch brs ->
  xb_go n r brs cr cm cb acc pending first = [Item n cr cm cb (acc ++ brs)].
Proof.
  induction brs as [|[c bm a] tl IH]; intros cr cm cb acc pending first H.
  - cbn. now rewrite app_nil_r.
  - inversion H as [|? ? [Hm Hb] Ht]; subst. cbn in Hm, Hb. subst bm. cbn [xb_go]. rewrite Hb.
    rewrite IH by assumption. rewrite <- app_assoc. reflexivity.
Qed.

(** the three agreements, by induction over the AST *)
Definition item_agrees (it : item) : Prop := forall l, lin_item it = Some l ->
  print_item it = lins_str l /\ toks_item it = lins_toks l /\ xb_item it = [it] /\ head_closed l.
Definition branch_agrees (br : branch) : Prop := forall l, lin_branch br = Some l ->
  print_branch br = lins_str l /\ toks_branch br = lins_toks l /\ plain_branch br.

Lemma chain_agrees c : Forall item_agrees c -> forall l, concat_opt (map lin_item c) = Some l ->
  flat_map print_item c = lins_str l /\ flat_map toks_item c = lins_toks l /\ flat_map xb_item c = c
  /\ (c <> [] -> head_closed l).
Proof.
  induction 1 as [|it c Hit _ IH]; intros l H.
  - cbn in H. injection H as <-. repeat split; try reflexivity. intros C; now elim C.
  - cbn [map] in H. apply concat_opt_cons in H as (a & b & Ea & Eb & ->).
    destruct (Hit a Ea) as (P1 & P2 & P3 & P4). destruct (IH b Eb) as (Q1 & Q2 & Q3 & _).
    cbn [flat_map]. rewrite lins_str_app, lins_toks_app, P1, P2, P3, Q1, Q2, Q3.
    repeat split; try reflexivity. intros _. destruct a; [contradiction|exact P4].
Qed.
Lemma branches_agree brs : Forall branch_agrees brs -> forall l, concat_opt (map lin_branch brs) = Some l ->
  flat_map print_branch brs = lins_str l /\ flat_map toks_branch brs = lins_toks l /\ Forall plain_branch brs.
Proof.
  induction 1 as [|br brs Hbr _ IH]; intros l H.
  - cbn in H. injection H as <-. repeat split; try reflexivity. constructor.
  - cbn [map] in H. apply concat_opt_cons in H as (a & b & Ea & Eb & ->).
    destruct (Hbr a Ea) as (P1 & P2 & P3). destruct (IH b Eb) as (Q1 & Q2 & Q3).
    cbn [flat_map]. rewrite lins_str_app, lins_toks_app, P1, P2, Q1, Q2. repeat split; try reflexivity. now constructor.
Qed.

Lemma ast_agrees : forall it, item_agrees it.
Proof.
  apply (item_ind2 item_agrees branch_agrees).
  - intros n r m b brs Hbrs l H. cbn [lin_item] in H.
    destruct (concat_opt (map lin_branch brs)) as [rest|] eqn:E; [|discriminate]. injection H as <-.
    destruct (branches_agree brs Hbrs rest E) as (Q1 & Q2 & Q3).
    repeat split.
    + cbn [print_item lins_str flat_map]. fold (lins_str rest). rewrite Q1.
      unfold lin_str, lin_tail_str. cbn [l_open l_name l_mult l_rings l_bond l_close close_str app].
      repeat (rewrite <- app_assoc; cbn [app]). rewrite ?app_nil_r. reflexivity.
    + cbn [toks_item lins_toks flat_map]. fold (lins_toks rest). rewrite Q2.
      unfold lin_toks. cbn [l_open l_name l_mult l_rings l_bond l_close app].
      repeat (rewrite <- app_assoc; cbn [app]). rewrite ?app_nil_r. reflexivity.
    + rewrite xb_item_eq. now rewrite xb_go_plain.
  - intros c bm a Hc l H. cbn [lin_branch] in H. destruct bm as [x|]; [discriminate|].
    destruct (concat_opt (map lin_item c)) as [lc|] eqn:E; [|discriminate].
    destruct (chain_agrees c Hc lc E) as (P1 & P2 & P3 & P4).
    assert (Hne : c <> []).
    { intros ->. cbn in E. injection E as <-. discriminate. }
    destruct (wrap_branch_spec a lc l (P4 Hne) H) as (W1 & W2).
    repeat split.
    + cbn [print_branch bmult_str app]. rewrite P1, W1. reflexivity.
    + cbn [toks_branch]. rewrite P2, W2. reflexivity.
    + exact P3.
Qed.

Theorem linearize_spec a l : linearize a = Some l ->
  print_chain a = lins_str l /\ toks a = lins_toks l /\ expand_branches a = a.
Proof.
  intros H. unfold linearize in H.
  assert (Hall : Forall item_agrees a) by (apply Forall_forall; intros; apply ast_agrees).
  destruct (chain_agrees a Hall l H) as (P1 & P2 & P3 & _). repeat split; assumption.
Qed.

(** ** C04 on ASTs: whenever the AST has a flat form that satisfies the flat side conditions, the
    reader model returns exactly the denoted graph *)
Definition flat_ok (fo : float_oracle) (a : chain) : bool :=
  match linearize a with Some l => lins_ok fo l | None => false end.
Theorem reader_sim_ast fo a : flat_ok fo a = true -> read_cgsmiles fo (print true a) = denote fo a.
Proof.
  unfold flat_ok. destruct (linearize a) as [l|] eqn:E; [|discriminate]. intros Hok.
  destruct (linearize_spec a l E) as (P1 & P2 & P3).
  unfold print, denote. rewrite P3, P2, P1. now apply reader_sim_lin.
Qed.
Print Assumptions reader_sim_ast.
