(** Lin: the grammar in FLAT form.  A string of the grammar without branch multipliers in which no
    node closes two branches is a list of "linear items": a node together with the parenthesis that
    opens a branch in front of it (if any), its multiplier or ring specifications, its bond symbol,
    and the parenthesis that closes a branch behind it (if any) with the symbol after it.
    [linearize] maps an AST to this form ([None] for ASTs with a branch multiplier or a node that
    closes two branches).  Definitions only. *)
From Coq Require Import String.
From Coq Require Import List Ascii ZArith Bool.
From CGV Require Import Base.PyBase Base.PyVal Base.NxGraph Dialect.DialectImpl Reader.Grammar.
Import ListNotations.

Record lin := {
  l_open : bool;                                   (* "(" in front of the node *)
  l_name : pystr;
  l_mult : option (list nat);
  l_rings : list (option sym * marker);
  l_bond : option sym;
  l_close : option (option sym) }.                 (* ")" behind the node, and the symbol after it *)

Definition close_str (c : option (option sym)) : pystr :=
  match c with Some a => ")"%char :: osym_str a | None => [] end.
Definition lin_tail_str (i : lin) : pystr :=       (* what follows the "]" of the node *)
  mult_str (l_mult i) ++ rings_str false (l_rings i) ++ osym_str (l_bond i) ++ close_str (l_close i).
Definition lin_str (i : lin) : pystr :=
  (if l_open i then ["("%char] else []) ++ "["%char :: "#"%char :: l_name i ++ "]"%char :: lin_tail_str i.
Definition lins_str (l : list lin) : pystr := flat_map lin_str l.

Definition ring_tok (om : option sym * marker) : tok := TRing (fst om) (marker_val (snd om)).
Definition lin_toks (i : lin) : list tok :=
  (if l_open i then [TOpen] else [])
  ++ TNode (l_name i) (mult_val (l_mult i)) :: map ring_tok (l_rings i) ++ osym_tok (l_bond i)
  ++ match l_close i with Some a => TClose :: osym_tok a | None => [] end.
Definition lins_toks (l : list lin) : list tok := flat_map lin_toks l.

(** side conditions: markers and names as in [Grammar.item_ok]; a multiplied node carries no
    rings; a node that closes a branch carries no
    bond symbol (the symbol would have no consumer) *)
Definition lin_ok (fo : float_oracle) (i : lin) : bool :=
  name_ok fo (l_name i)
  && forallb (fun om => marker_ok (snd om)) (l_rings i)
  && match l_mult i with
     | Some ds => is_nil (l_rings i) && digits_ok ds && (1 <=? digits_nat ds)%nat
     | None => true
     end
  && match l_close i with Some _ => negb (is_some (l_bond i)) | None => true end.
(** parentheses balance: [d] = number of open branches *)
Fixpoint lin_depth (d : nat) (l : list lin) : bool :=
  match l with
  | [] => true
  | i :: t =>
      let d1 := if l_open i then Datatypes.S d else d in
      match l_close i with
      | Some _ => match d1 with O => false | Datatypes.S d2 => lin_depth d2 t end
      | None => lin_depth d1 t
      end
  end.
Definition lins_ok (fo : float_oracle) (l : list lin) : bool :=
  forallb (lin_ok fo) l && lin_depth O l && match l with i :: _ => negb (l_open i) | [] => true end.

(** the denotation of a flat string *)
Definition denote_lin (fo : float_oracle) (l : list lin) : res graph :=
  m_finish (m_run fo (lins_toks l) m_init).

(** ** from ASTs to flat form *)
(** attach "(" to the first and ")a" to the last item of a flat chain; fails when the last item
    already closes a branch *)
Definition set_open (i : lin) : lin :=
  {| l_open := true; l_name := l_name i; l_mult := l_mult i; l_rings := l_rings i; l_bond := l_bond i; l_close := l_close i |}.
Definition set_close (a : option sym) (i : lin) : option lin :=
  match l_close i with
  | Some _ => None
  | None => Some {| l_open := l_open i; l_name := l_name i; l_mult := l_mult i; l_rings := l_rings i;
                    l_bond := l_bond i; l_close := Some a |}
  end.
Definition wrap_branch (a : option sym) (l : list lin) : option (list lin) :=
  match l with
  | [] => None
  | i :: t =>
      match rev (set_open i :: t) with
      | [] => None
      | z :: r => match set_close a z with Some z' => Some (rev (z' :: r)) | None => None end
      end
  end.
Fixpoint concat_opt {A} (l : list (option (list A))) : option (list A) :=
  match l with
  | [] => Some []
  | None :: _ => None
  | Some x :: r => match concat_opt r with Some y => Some (x ++ y) | None => None end
  end.
Fixpoint lin_item (it : item) : option (list lin) :=
  match it with
  | Item n r m b brs =>
      match concat_opt (map lin_branch brs) with
      | Some rest => Some ({| l_open := false; l_name := n; l_mult := m; l_rings := r; l_bond := b; l_close := None |} :: rest)
      | None => None
      end
  end
with lin_branch (br : branch) : option (list lin) :=
  match br with
  | Branch c (Some _) _ => None
  | Branch c None a =>
      match concat_opt (map lin_item c) with
      | Some l => wrap_branch a l
      | None => None
      end
  end.
Definition linearize (c : chain) : option (list lin) := concat_opt (map lin_item c).
