(** ReaderMult: node multipliers are shorthand (C05, node part), on flat strings.
    [expand_lin] writes every node multiplier out; the machine cannot tell the difference
    ([denote_expand_lin]), hence by the simulation theorem neither can the reader model
    ([reader_nodes_shorthand]): the SAME graph with the SAME numbering. *)
From Coq Require Import String.
From Coq Require Import List Ascii ZArith Bool Lia.
From CGV Require Import Base.PyBase Base.PyVal Base.NxGraph Dialect.DialectImpl
     Reader.ReaderImpl Reader.Grammar Reader.ReaderLemmas Reader.Lin Reader.ReaderSim.
Import ListNotations.
Open Scope Z_scope.

Definition plainb (nm : pystr) (o : bool) (b : option sym) (c : option (option sym)) : lin :=
  {| l_open := o; l_name := nm; l_mult := None; l_rings := []; l_bond := b; l_close := c |}.
Definition plain (nm : pystr) (o : bool) (c : option (option sym)) : lin := plainb nm o None c.
Definition expand_lin_item (i : lin) : list lin :=
  match l_mult i with
  | None => [i]
  | Some ds =>
      match digits_nat ds with
      | O => []
      | Datatypes.S O => [plainb (l_name i) (l_open i) (l_bond i) (l_close i)]
      | Datatypes.S (Datatypes.S k) =>
          plain (l_name i) (l_open i) None :: repeat (plain (l_name i) false None) k
          ++ [plainb (l_name i) false (l_bond i) (l_close i)]
      end
  end.
Definition expand_lin (l : list lin) : list lin := flat_map expand_lin_item l.

(** a node token with count n is n node tokens with count 1 *)
Lemma m_node_split fo nm : forall n ts x, (1 <= n)%nat ->
  m_run fo (TNode nm n :: ts) x = m_run fo (repeat (TNode nm 1) n ++ ts) x.
Proof.
  induction n as [|n IH]; intros ts x H; [lia|]. destruct n as [|n]; [reflexivity|].
  change (repeat (TNode nm 1) (Datatypes.S (Datatypes.S n)) ++ ts)
    with (TNode nm 1 :: (repeat (TNode nm 1) (Datatypes.S n) ++ ts)).
  cbn [m_run]. cbn [m_step]. destruct (parse_graph_base_node fo nm) as [a|e] eqn:Ea; [|reflexivity]. cbn [bind].
  cbn [m_copies bind]. rewrite <- (IH ts) by lia. cbn [m_run m_step]. rewrite Ea. cbn [bind].
  cbn [m_g m_next m_prev m_pend m_stack m_rings]. reflexivity.
Qed.

Lemma m_run_open fo ts x :
  m_run fo (TOpen :: ts) x
  = m_run fo ts {| m_g := m_g x; m_next := m_next x; m_prev := m_prev x; m_pend := m_pend x;
                   m_stack := m_prev x :: m_stack x; m_rings := m_rings x |}.
Proof. reflexivity. Qed.
Lemma expand_item_toks fo i ts x : lin_ok fo i = true ->
  m_run fo (flat_map lin_toks (expand_lin_item i) ++ ts) x = m_run fo (lin_toks i ++ ts) x.
Proof.
  intros Hok. destruct (lin_ok_parts fo i Hok) as (_ & _ & Hm & _). unfold expand_lin_item.
  destruct (l_mult i) as [ds|] eqn:Em; [|cbn [flat_map]; now rewrite app_nil_r].
  destruct Hm as (Er & _ & H1).
  set (tl := osym_tok (l_bond i) ++ match l_close i with Some a => TClose :: osym_tok a | None => [] end).
  assert (Et : forall ts', m_run fo (lin_toks i ++ ts') x
             = m_run fo ((if l_open i then [TOpen] else []) ++ repeat (TNode (l_name i) 1) (digits_nat ds) ++ tl ++ ts') x).
  { intros ts'. unfold lin_toks, tl. rewrite Em, Er. cbn [mult_val map app]. rewrite <- !app_assoc.
    destruct (l_open i); cbn [app].
    - rewrite !m_run_open. rewrite m_node_split by assumption. now rewrite <- !app_assoc.
    - rewrite m_node_split by assumption. now rewrite <- !app_assoc. }
  rewrite Et. clear Et.
  assert (L1 : forall o b c, lin_toks (plainb (l_name i) o b c)
               = (if o then [TOpen] else []) ++ TNode (l_name i) 1 :: osym_tok b ++ match c with Some a => TClose :: osym_tok a | None => [] end).
  { intros o b c. unfold lin_toks. cbn [plainb l_open l_name l_mult l_rings l_bond l_close mult_val map app]. reflexivity. }
  destruct (digits_nat ds) as [|[|k]]; [lia| |].
  - cbn [flat_map repeat app]. rewrite L1. unfold tl. repeat (rewrite <- app_assoc; cbn [app]). reflexivity.
  - assert (L2 : forall k', flat_map lin_toks (repeat (plain (l_name i) false None) k') = repeat (TNode (l_name i) 1) k').
    { induction k' as [|k' IHk]; [reflexivity|]. cbn [repeat flat_map]. rewrite IHk. reflexivity. }
    assert (Erp : forall (t : tok) k' rest, repeat t k' ++ t :: rest = t :: repeat t k' ++ rest).
    { intros t0 k' rest. induction k' as [|k' IHk]; [reflexivity|]. cbn [repeat app]. now rewrite IHk. }
    f_equal. cbn [flat_map]. rewrite flat_map_app. cbn [flat_map]. unfold plain at 1. rewrite !L1, L2. unfold tl.
    repeat (rewrite <- app_assoc; cbn [app]). f_equal. cbn [repeat app]. f_equal. rewrite Erp. reflexivity.
Qed.

Lemma expand_toks fo : forall l x, forallb (lin_ok fo) l = true ->
  m_run fo (lins_toks (expand_lin l)) x = m_run fo (lins_toks l) x.
Proof.
  induction l as [|i t IH]; intros x H; [reflexivity|]. cbn [forallb] in H. apply andb_prop in H as [Hi Ht].
  unfold lins_toks, expand_lin. cbn [flat_map]. rewrite flat_map_app.
  fold (expand_lin t). fold (lins_toks (expand_lin t)). fold (lins_toks t).
  rewrite (expand_item_toks fo i _ x Hi). rewrite !m_run_app.
  destruct (m_run fo (lin_toks i) x) as [x1|e]; [|reflexivity]. cbn [bind]. now apply IH.
Qed.

(** the denotation does not change when node multipliers are written out *)
Theorem denote_expand_lin fo l : forallb (lin_ok fo) l = true -> denote_lin fo (expand_lin l) = denote_lin fo l.
Proof. intros H. unfold denote_lin. now rewrite expand_toks. Qed.

(** the expanded string is again a flat string of the grammar *)
Lemma plainb_ok fo nm o b c : name_ok fo nm = true -> (c <> None -> b = None) -> lin_ok fo (plainb nm o b c) = true.
Proof. intros H Hc. unfold lin_ok. cbn. rewrite H. destruct c; [|reflexivity]. now rewrite Hc. Qed.
Lemma plain_ok fo nm o c : name_ok fo nm = true -> lin_ok fo (plain nm o c) = true.
Proof. intros H. apply plainb_ok; [assumption|reflexivity]. Qed.
Lemma expand_item_ok fo i : lin_ok fo i = true -> forallb (lin_ok fo) (expand_lin_item i) = true.
Proof.
  intros Hok. destruct (lin_ok_parts fo i Hok) as (Hn & _ & _ & Hc). unfold expand_lin_item.
  destruct (l_mult i) as [ds|]; [|cbn; now rewrite Hok].
  assert (Hcb : l_close i <> None -> l_bond i = None) by (destruct (l_close i); [intros _; exact Hc|intros C; now elim C]).
  destruct (digits_nat ds) as [|[|k]]; [reflexivity| |].
  - cbn [forallb]. now rewrite plainb_ok.
  - cbn [forallb]. rewrite plain_ok by assumption. rewrite forallb_app. cbn [forallb]. rewrite plainb_ok by assumption.
    rewrite andb_true_r. cbn [andb]. induction k as [|k IH]; [reflexivity|]. cbn [repeat forallb]. now rewrite plain_ok.
Qed.
Lemma depth_mids nm : forall k d rest, lin_depth d (repeat (plain nm false None) k ++ rest) = lin_depth d rest.
Proof. induction k as [|k IH]; intros d rest; [reflexivity|]. cbn [repeat app lin_depth plain l_open l_close]. apply IH. Qed.
Lemma expand_item_depth fo i d rest : lin_ok fo i = true ->
  lin_depth d (expand_lin_item i ++ rest) = lin_depth d (i :: rest).
Proof.
  intros Hok. destruct (lin_ok_parts fo i Hok) as (_ & _ & Hm & _). unfold expand_lin_item.
  destruct (l_mult i) as [ds|]; [|reflexivity]. destruct Hm as (_ & _ & H1).
  destruct (digits_nat ds) as [|[|k]]; [lia|reflexivity|].
  cbn [app lin_depth plain plainb l_open l_close]. rewrite <- app_assoc. rewrite depth_mids.
  cbn [app lin_depth plain plainb l_open l_close]. reflexivity.
Qed.
Lemma depth_congr i : forall d t t', (forall d', lin_depth d' t = lin_depth d' t') -> lin_depth d (i :: t) = lin_depth d (i :: t').
Proof.
  intros d t t' H. cbn [lin_depth]. destruct (l_close i); [|apply H].
  destruct (if l_open i then Datatypes.S d else d); [reflexivity|apply H].
Qed.
Lemma expand_depth fo : forall l d, forallb (lin_ok fo) l = true -> lin_depth d (expand_lin l) = lin_depth d l.
Proof.
  induction l as [|i t IH]; intros d H; [reflexivity|]. cbn [forallb] in H. apply andb_prop in H as [Hi Ht].
  unfold expand_lin. cbn [flat_map]. fold (expand_lin t). rewrite (expand_item_depth fo) by assumption.
  apply depth_congr. intros d'. now apply IH.
Qed.
Lemma expand_lin_ok fo l : lins_ok fo l = true -> lins_ok fo (expand_lin l) = true.
Proof.
  unfold lins_ok. intros H. apply andb_prop in H as [H Hf]. apply andb_prop in H as [Hok Hd].
  rewrite (expand_depth fo) by assumption. rewrite Hd.
  assert (Hall : forallb (lin_ok fo) (expand_lin l) = true).
  { clear Hd Hf. induction l as [|i t IH]; [reflexivity|]. cbn [forallb] in Hok. apply andb_prop in Hok as [Hi Ht].
    unfold expand_lin. cbn [flat_map]. rewrite forallb_app. rewrite (expand_item_ok fo) by assumption. now apply IH. }
  rewrite Hall. cbn [andb].
  destruct l as [|i t]; [reflexivity|]. cbn [forallb] in Hok. apply andb_prop in Hok as [Hi _].
  destruct (lin_ok_parts fo i Hi) as (_ & _ & Hm & _).
  unfold expand_lin. cbn [flat_map]. unfold expand_lin_item. destruct (l_mult i) as [ds|]; [|exact Hf].
  destruct Hm as (_ & _ & H1). destruct (digits_nat ds) as [|[|k]]; [lia|exact Hf|exact Hf].
Qed.

Definition base_text (l : list lin) : pystr := "{"%char :: lins_str l ++ ["}"%char].

(** C05, node part, on flat strings: shorthand and longhand are read as the SAME graph (same numbering,
    same iteration orders), or fail with the same error *)
Theorem reader_nodes_shorthand fo l : lins_ok fo l = true ->
  read_cgsmiles fo (base_text l) = read_cgsmiles fo (base_text (expand_lin l)).
Proof.
  intros H. unfold base_text. rewrite !reader_sim_lin by (assumption || now apply expand_lin_ok).
  symmetry. apply denote_expand_lin. unfold lins_ok in H. apply andb_prop in H as [H _]. now apply andb_prop in H as [H _].
Qed.
(** and the longhand really contains no multiplier *)
Lemma expand_lin_no_mult l : forallb (fun i => negb (is_some (l_mult i))) (expand_lin l) = true.
Proof.
  induction l as [|i t IH]; [reflexivity|]. unfold expand_lin. cbn [flat_map]. rewrite forallb_app. fold (expand_lin t).
  rewrite IH, andb_true_r. unfold expand_lin_item. destruct (l_mult i) as [ds|] eqn:E.
  - destruct (digits_nat ds) as [|[|k]]; [reflexivity|reflexivity|]. cbn [forallb plain l_mult is_some negb andb].
    rewrite forallb_app. cbn. rewrite andb_true_r. induction k as [|k IHk]; [reflexivity|]. exact IHk.
  - cbn. now rewrite E.
Qed.
Print Assumptions reader_nodes_shorthand.
