(** ReaderEnd: the reader component's simulation theorems in one place.
    - [reader_sim_lin], [reader_sim_lin_nobrace]: flat strings (Reader/Lin.v), text with / without braces;
    - [reader_sim_x], [reader_sim_x_nobrace]: flat items that close several branches (Reader/ReaderX.v);
    - [reader_sim_grammar]: every well-formed AST without branch multiplier, printed with or without
      braces (Reader/ReaderXAst.v);
    - [reader_sim_C04]: the same in the shape other components use (the class argument is 0 for every
      AST since fix 0460546 of read_cgsmiles: no defect class is left for C04). *)
From Coq Require Import String.
From Coq Require Import List Ascii ZArith Bool Lia.
From CGV Require Import Base.PyBase Base.PyVal Base.NxGraph Dialect.DialectImpl
     Reader.ReaderImpl Reader.Grammar Reader.Lin Reader.ReaderSim Reader.ReaderCheck.
From CGV Require Export Reader.ReaderLast Reader.ReaderX Reader.ReaderXAst.
Import ListNotations.

(** ** C04 in the property's own terms, for both kinds of text *)
Theorem reader_sim_C04 fo braces a : wf fo a = true -> has_branch_mult a = false -> class_C04 braces a = 0%nat ->
  read_cgsmiles fo (print braces a) = denote fo a.
Proof. intros Hwf Hb _. now apply reader_sim_grammar. Qed.
Print Assumptions reader_sim_C04.
