(** ReaderRing: the ring table only depends on the ring markers of the text, not on the branch or
    multiplier logic.  [ktrace] replays the reader's loop keeping nothing but the set of open marker
    numbers; whenever the reader model returns a graph, [ktrace] ends with the empty set.  Hence a
    text whose marker trace is non-empty is NEVER read as a graph (it raises the dangling-ring
    SyntaxError, or an earlier error), wherever the unclosed marker stands: inside branches,
    multiplied units, or any of the defect classes of C04/C05. *)
From Coq Require Import String.
From Coq Require Import List Ascii ZArith Bool Lia.
From CGV Require Import Base.PyBase Base.PyVal Base.NxGraph Base.PyGen Gen.ReaderGen Dialect.DialectImpl
     Reader.ReaderImpl Reader.Grammar Reader.ReaderLemmas Reader.Lin Reader.ReaderSim.
Import ListNotations.
Open Scope Z_scope.

(** open markers only *)
Fixpoint kdel (m : Z) (k : list Z) : list Z :=
  match k with [] => [] | x :: r => if Z.eqb x m then r else x :: kdel m r end.
Definition ktoggle (m : Z) (k : list Z) : list Z := if existsb (Z.eqb m) k then kdel m k else k ++ [m].
Record kst := { k_marker : pystr; k_multi : bool; k_keys : list Z }.
Fixpoint kscan (s : pystr) (x : kst) : res kst :=
  match s with
  | [] =>
      if k_multi x && py_isdigit (skipn 1 (k_marker x))
      then bind (py_int (skipn 1 (k_marker x))) (fun m => Ok {| k_marker := []; k_multi := false; k_keys := ktoggle m (k_keys x) |})
      else Ok x
  | c :: r =>
      match (if k_multi x && negb (is_digit c)
             then bind (py_int (skipn 1 (k_marker x))) (fun m => Ok {| k_marker := []; k_multi := false; k_keys := ktoggle m (k_keys x) |})
             else Ok x) with
      | Err e => Err e
      | Ok x1 =>
          if Ascii.eqb c "%"%char then kscan r {| k_marker := S "%"; k_multi := true; k_keys := k_keys x1 |}
          else if is_digit c then
            let mk := k_marker x1 ++ [c] in
            if k_multi x1 then kscan r {| k_marker := mk; k_multi := true; k_keys := k_keys x1 |}
            else match py_int mk with
                 | Err e => Err e
                 | Ok m => kscan r {| k_marker := []; k_multi := false; k_keys := ktoggle m (k_keys x1) |}
                 end
          else if sto_mem c then
            match symbol_to_order_lookup [c] with
            | Err e => Err e
            | Ok _ => kscan r x1
            end
          else Ok x1
      end
  end.
Fixpoint ktrace (fuel : nat) (pc : ascii) (s : pystr) (keys : list Z) : res (list Z) :=
  match fuel with
  | O => Err EOutOfFuel
  | Datatypes.S f =>
      match next_node pc s with
      | None => Ok keys
      | Some (_, _, rest) =>
          kx <- kscan rest {| k_marker := []; k_multi := false; k_keys := keys |} ;; ktrace f "]"%char rest (k_keys kx)
      end
  end.
(** the marker trace of a whole text *)
Definition marker_trace (s : pystr) : res (list Z) := ktrace (Datatypes.S (length s)) (last s " "%char) s [].

Definition keys (c : cycmap) : list Z := map fst c.
Lemma keys_get m c : cyc_get m c = None <-> existsb (Z.eqb m) (keys c) = false.
Proof.
  unfold keys. induction c as [|[k v] r IH]; cbn; [tauto|]. rewrite (Z.eqb_sym m k).
  destruct (Z.eqb k m); cbn; [split; discriminate|exact IH].
Qed.
Lemma keys_del m c : keys (cyc_del m c) = kdel m (keys c).
Proof. unfold keys. induction c as [|[k v] r IH]; cbn; [reflexivity|]. destruct (Z.eqb k m); cbn; [reflexivity|now rewrite IH]. Qed.
Lemma keys_commit m cur (x : ringst) : keys (r_cyc (ring_commit m cur x)) = ktoggle m (keys (r_cyc x)).
Proof.
  unfold ring_commit, ktoggle. destruct (cyc_get m (r_cyc x)) as [[n0 o0]|] eqn:E.
  - assert (H : existsb (Z.eqb m) (keys (r_cyc x)) = true).
    { destruct (existsb (Z.eqb m) (keys (r_cyc x))) eqn:E2; [reflexivity|]. apply keys_get in E2. congruence. }
    rewrite H. cbn [r_cyc]. apply keys_del.
  - apply keys_get in E. rewrite E. cbn [r_cyc]. unfold keys. now rewrite map_app.
Qed.

Definition krel (x : ringst) (k : kst) : Prop :=
  r_marker x = k_marker k /\ r_multi x = k_multi k /\ keys (r_cyc x) = k_keys k.
Ltac fin_krel := unfold krel; cbn [r_marker r_multi r_cyc k_marker k_multi k_keys]; repeat split; try reflexivity; try assumption; try congruence.
Lemma ring_scan_keys cur : forall s idx x k x1 rdx, krel x k ->
  ring_scan cur s idx x = Ok (x1, rdx) -> exists k1, kscan s k = Ok k1 /\ krel x1 k1.
Proof.
  induction s as [|c r IH]; intros idx x k x1 rdx (Rm & Ru & Rk) H.
  - destruct k as [km ku kk]. cbn [k_marker k_multi k_keys] in Rm, Ru, Rk. subst km ku kk.
    cbn [ring_scan kscan k_marker k_multi k_keys] in *.
    destruct (r_multi x && py_isdigit (skipn 1 (r_marker x))).
    + destruct (py_int (skipn 1 (r_marker x))) as [m|]; cbn [bind] in *; [|discriminate]. injection H as <- _.
      eexists. split; [reflexivity|]. unfold krel. cbn [k_marker k_multi k_keys]. rewrite keys_commit.
      unfold ring_commit. destruct (cyc_get m (r_cyc x)) as [[? ?]|]; repeat split; reflexivity.
    + injection H as <- _. eexists. split; [reflexivity|]. repeat split; reflexivity.
  - destruct k as [km ku kk]. cbn [k_marker k_multi k_keys] in Rm, Ru, Rk. subst km ku kk.
    cbn [ring_scan kscan k_marker k_multi k_keys] in *.
    assert (Hc : forall m (y : ringst), krel (ring_commit m cur y)
                   {| k_marker := []; k_multi := false; k_keys := ktoggle m (keys (r_cyc y)) |}).
    { intros m y. unfold krel. cbn [k_marker k_multi k_keys]. rewrite keys_commit.
      unfold ring_commit. destruct (cyc_get m (r_cyc y)) as [[? ?]|]; repeat split; reflexivity. }
    destruct (r_multi x && negb (is_digit c)) eqn:Ec.
    + destruct (py_int (skipn 1 (r_marker x))) as [m|e]; cbn [bind] in *; [|discriminate].
      pose proof (Hc m x) as Ra. set (xa := ring_commit m cur x) in *.
      assert (Am : r_marker xa = []) by (unfold xa, ring_commit; destruct (cyc_get m (r_cyc x)) as [[? ?]|]; reflexivity).
      assert (Au : r_multi xa = false) by (unfold xa, ring_commit; destruct (cyc_get m (r_cyc x)) as [[? ?]|]; reflexivity).
      assert (Ak : keys (r_cyc xa) = ktoggle m (keys (r_cyc x))) by (destruct Ra as (_ & _ & Ra); exact Ra).
      cbn [k_marker k_multi k_keys]. rewrite Au, Am in H. cbn [app] in H.
      destruct (Ascii.eqb c "%"%char).
      * eapply IH; [|exact H]. fin_krel.
      * destruct (is_digit c).
        -- cbn [app]. destruct (py_int [c]) as [m2|]; [|discriminate].
           eapply IH; [|exact H]. rewrite <- Ak. apply Hc.
        -- destruct (sto_mem c).
           ++ destruct (symbol_to_order_lookup [c]) as [o|]; [|discriminate].
              eapply IH; [|exact H]. fin_krel.
           ++ injection H as <- _. eexists. split; [reflexivity|]. fin_krel.
    + cbn [k_marker k_multi k_keys].
      destruct (Ascii.eqb c "%"%char).
      * eapply IH; [|exact H]. fin_krel.
      * destruct (is_digit c).
        -- destruct (r_multi x).
           ++ eapply IH; [|exact H]. fin_krel.
           ++ destruct (py_int (r_marker x ++ [c])) as [m2|]; [|discriminate].
              eapply IH; [|exact H]. apply Hc.
        -- destruct (sto_mem c).
           ++ destruct (symbol_to_order_lookup [c]) as [o|]; [|discriminate].
              eapply IH; [|exact H]. fin_krel.
           ++ injection H as <- _. eexists. split; [reflexivity|]. fin_krel.
Qed.

(** one iteration: the new ring table is the one the look-ahead loop computed *)
Lemma node_step_cycle fo st pc nm rest st1 : node_step fo st pc nm rest = Ok st1 ->
  exists rs rdx, ring_scan (s_current st) rest 0 (clean_st (s_cycle st) []) = Ok (rs, rdx) /\ s_cycle st1 = r_cyc rs.
Proof.
  rewrite node_step_eq.
  destruct (opened st pc) as [[[br ba] rc]|]; cbn [bind]; [|discriminate].
  destruct (ring_scan (s_current st) rest 0 (clean_st (s_cycle st) [])) as [[rs rdx]|]; cbn [bind]; [|discriminate].
  destruct (bond_expr rest rdx) as [bo|]; cbn [bind]; [|discriminate].
  destruct (nmon_expr rest bo) as [[n bo2]|]; cbn [bind]; [|discriminate].
  destruct (parse_graph_base_node fo nm) as [a|]; cbn [bind]; [|discriminate].
  match goal with |- (bind ?m _ = _ -> _) => destruct m as [rc'|] end; cbn [bind]; [|discriminate].
  destruct (add_nodes _ _ _ _ _ _ _ _) as [[[[g cu] pn] pb]|]; cbn [bind]; [|discriminate].
  intros H. exists rs, rdx. split; [reflexivity|]. apply close_all_cycle in H. exact H.
Qed.

Theorem loop_marker_trace fo : forall fuel pc s st st1,
  main_loop fuel fo pc s st = Ok st1 -> ktrace fuel pc s (keys (s_cycle st)) = Ok (keys (s_cycle st1)).
Proof.
  induction fuel as [|f IH]; intros pc s st st1 H; [discriminate|].
  cbn [main_loop ktrace] in *. destruct (next_node pc s) as [[[pc' nm] rest]|].
  - destruct (node_step fo st pc' nm rest) as [st2|] eqn:E; cbn [bind] in H; [|discriminate].
    destruct (node_step_cycle fo st pc' nm rest st2 E) as (rs & rdx & Es & Ec).
    destruct (ring_scan_keys (s_current st) rest 0 (clean_st (s_cycle st) [])
                {| k_marker := []; k_multi := false; k_keys := keys (s_cycle st) |} rs rdx) as (k1 & Ek & (_ & _ & Rk));
      [repeat split|exact Es|].
    rewrite Ek. cbn [bind]. rewrite <- Rk, <- Ec. now apply IH.
  - injection H as <-. reflexivity.
Qed.

(** ** the invariant: a graph is returned only if the marker trace of the text ends empty *)
Theorem ring_table_invariant fo s g : read_cgsmiles fo s = Ok g -> marker_trace s = Ok [].
Proof.
  unfold read_cgsmiles, marker_trace.
  destruct (main_loop (Datatypes.S (length s)) fo (last s " "%char) s init_state) as [st|] eqn:E; cbn [bind]; [|discriminate].
  apply loop_marker_trace in E. cbn [init_state s_cycle keys map] in E. rewrite E.
  destruct (s_cycle st); [reflexivity|discriminate].
Qed.
(** hence: whenever the marker trace of a text is not empty, the reader does not return a graph, and if
    its loop runs to the end the error is the documented dangling-ring SyntaxError *)
Corollary open_marker_never_a_graph fo s : marker_trace s <> Ok [] -> forall g, read_cgsmiles fo s <> Ok g.
Proof. intros H g E. apply H. now apply (ring_table_invariant fo s g). Qed.
Corollary open_marker_dangling fo s st k ks :
  main_loop (Datatypes.S (length s)) fo (last s " "%char) s init_state = Ok st -> marker_trace s = Ok (k :: ks) ->
  read_cgsmiles fo s = Err (ESyntax (S "dangling")).
Proof.
  intros E T. unfold read_cgsmiles. rewrite E. cbn [bind]. apply loop_marker_trace in E.
  unfold marker_trace in T. cbn [init_state s_cycle keys map] in E. rewrite E in T. injection T as T.
  destruct (s_cycle st); [discriminate|reflexivity].
Qed.
(** non-vacuity: an unclosed marker deep inside a multiplied, nested, doubly closed branch *)
Example marker_trace_example :
  marker_trace (S "{[#A]([#B]([#C]7[#D]))|2[#E]}") = Ok [7%Z]
  /\ read_cgsmiles (fun _ => None) (S "{[#A]([#B]([#C]7[#D])[#F])|2[#E]}") = Err (ESyntax (S "dangling")).
Proof. vm_compute. split; reflexivity. Qed.
Print Assumptions ring_table_invariant.
