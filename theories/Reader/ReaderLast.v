(** ReaderLast: texts WITHOUT braces (coarse fragment texts).  The reader's look-ahead loop then runs off
    the end of the text behind the last node: `rdx` points at the last character instead of behind it
    (harmless: the bond order computed from it is never used), and a %nn marker that ends the text is
    registered by the code behind the loop (fix fd2fb55).  Result: [reader_sim_lin_nobrace],
    [reader_sim_wf_nobrace], [reader_sim_C04]. *)
From Coq Require Import String.
From Coq Require Import List Ascii ZArith Bool Lia.
From CGV Require Import Base.PyBase Base.PyVal Base.NxGraph Base.PyGen Gen.ReaderGen Dialect.DialectImpl
     Reader.ReaderImpl Reader.Grammar Reader.ReaderLemmas Reader.Lin Reader.GraphLemmas Reader.ReaderSim Reader.ReaderMult
     Reader.ReaderAst Reader.ReaderWf Reader.ReaderCheck.
Import ListNotations.
Open Scope Z_scope.

(** the end of the look-ahead loop: a pending %nn marker is registered *)
Lemma ring_scan_nil cur idx a cyc ces : ashape_ok a ->
  exists x, ring_scan cur [] idx (conc a cyc ces) = Ok (x, Nat.pred idx) /\ (r_cyc x, r_ces x) = settled cur a cyc ces.
Proof.
  intros Ha. destruct a as [|ds o]; cbn [conc ring_scan].
  - eexists. split; [reflexivity|]. reflexivity.
  - unfold pend_st. cbn [r_multi r_marker skipn andb]. destruct (digits_ok_all ds Ha) as [Hall Hne].
    assert (Hd : py_isdigit (digits_str ds) = true).
    { unfold py_isdigit. destruct ds; [contradiction|]. cbn [digits_str map]. change (digit_char n :: map digit_char ds) with (digits_str (n :: ds)).
      now apply all_digits_str. }
    rewrite Hd, py_int_digits by assumption. cbn [bind]. rewrite ring_commit_clean. eexists. split; [reflexivity|].
    cbn [clean_st r_cyc r_ces settled]. now destruct (commit _ cur o cyc ces).
Qed.

(** where the loop stops: inside the text *)
Lemma ring_scan_rdx cur : forall s idx x x1 rdx, s <> [] -> ring_scan cur s idx x = Ok (x1, rdx) ->
  (idx <= rdx < idx + length s)%nat.
Proof.
  induction s as [|c r IH]; intros idx x x1 rdx Hne H; [contradiction|].
  assert (Hrec : forall y, ring_scan cur r (Datatypes.S idx) y = Ok (x1, rdx) -> (idx <= rdx < idx + length (c :: r))%nat).
  { intros y Hy. destruct r as [|c2 r2].
    - cbn [ring_scan] in Hy. destruct (r_multi y && py_isdigit (skipn 1 (r_marker y))).
      + destruct (py_int (skipn 1 (r_marker y))); cbn [bind] in Hy; [|discriminate]. injection Hy as _ <-. cbn. lia.
      + injection Hy as _ <-. cbn. lia.
    - apply IH in Hy; [|discriminate]. cbn [length] in *. lia. }
  cbn [ring_scan] in H.
  destruct (if r_multi x && negb (is_digit c) then _ else _) as [y|]; [|discriminate].
  destruct (Ascii.eqb c "%"%char); [now apply (Hrec _ H)|].
  destruct (is_digit c).
  - destruct (r_multi y); [now apply (Hrec _ H)|]. destruct (py_int _); [now apply (Hrec _ H)|discriminate].
  - destruct (sto_mem c).
    + destruct (symbol_to_order_lookup [c]); [now apply (Hrec _ H)|discriminate].
    + injection H as _ <-. cbn [length]. lia.
Qed.

(** the bond-order expression cannot crash on the characters that follow a node *)
Definition bond_safe (c : ascii) : Prop :=
  exists v, (if char_in c bond_symbol_chars then symbol_to_order_lookup [c] else Ok default_bond_order) = Ok v.
Lemma bond_safe_sym s : bond_safe (sym_char s). Proof. destruct s; eexists; reflexivity. Qed.
Lemma bond_safe_digit d : (d < 10)%nat -> bond_safe (digit_char d).
Proof. intros H. do 10 (destruct d as [|d]; [eexists; reflexivity|]). lia. Qed.
Lemma bond_safe_pct : bond_safe "%"%char. Proof. eexists; reflexivity. Qed.
Lemma tail_bond_safe fo i : lin_ok fo i = true -> Forall bond_safe (lin_tail_str i).
Proof.
  intros Hok. destruct (lin_ok_parts fo i Hok) as (_ & Hr & Hm & _). unfold lin_tail_str.
  apply Forall_app; split.
  - destruct (l_mult i) as [ds|]; [|constructor]. destruct Hm as (_ & Hd & _). cbn [mult_str].
    constructor; [eexists; reflexivity|]. apply (cls_digits bond_safe bond_safe_digit). now apply digits_ok_all.
  - apply Forall_app; split; [now apply (cls_rings bond_safe bond_safe_sym bond_safe_digit bond_safe_pct)|].
    apply Forall_app; split; [apply (cls_osym bond_safe bond_safe_sym)|].
    destruct (l_close i) as [a|]; cbn [close_str]; [|constructor].
    constructor; [eexists; reflexivity|apply (cls_osym bond_safe bond_safe_sym)].
Qed.
Lemma bond_expr_safe rest rdx : Forall bond_safe rest -> (rdx < length rest)%nat -> exists v, bond_expr rest rdx = Ok v.
Proof.
  intros Hf Hlt. unfold bond_expr. destruct rest as [|c0 r0]; [eexists; reflexivity|]. cbv zeta.
  destruct rdx as [|k]; [eexists; reflexivity|].
  assert (Hin : bond_safe (nth k (c0 :: r0) " "%char)).
  { rewrite Forall_forall in Hf. apply Hf. apply nth_In. lia. }
  exact Hin.
Qed.

(** the count at the end of the text *)
Lemma find_idx_count_end ds : forallb (fun d => (d <? 10)%nat) ds = true ->
  find_idx ("|"%char :: digits_str ds) fnc_eon = Datatypes.S (length ds).
Proof.
  intros Hd. cbn [find_idx]. change (str_in ["|"%char] fnc_eon) with false. cbv iota. f_equal.
  induction ds as [|d r IH]; [reflexivity|]. cbn [forallb] in Hd. apply andb_prop in Hd as [H1 H2]. apply Nat.ltb_lt in H1.
  cbn [digits_str map find_idx length]. rewrite digit_not_eon by assumption. f_equal. now apply IH.
Qed.
Lemma nmon_last fo i v : lin_ok fo i = true -> (l_mult i <> None -> v = default_bond_order) ->
  nmon_expr (lin_tail_str i) v
  = Ok (Z.of_nat (mult_val (l_mult i)), match l_mult i with Some _ => oord (l_bond i) | None => v end).
Proof.
  intros Hok Hv. destruct (lin_ok_parts fo i Hok) as (_ & Hr & Hm & Hc). unfold lin_tail_str.
  destruct (l_mult i) as [ds|] eqn:Em.
  - destruct Hm as (Er & Hd & H1). rewrite Er. cbn [mult_str rings_str app mult_val]. rewrite (Hv ltac:(discriminate)).
    destruct (digits_ok_all ds Hd) as [Hall _].
    unfold nmon_expr. change (Ascii.eqb "|"%char "|"%char) with true. cbv iota. rewrite fnc0_spec.
    assert (Hy : (exists y ty, osym_str (l_bond i) ++ close_str (l_close i) = y :: ty /\ str_in [y] fnc_eon = true
                  /\ (if sto_mem y then symbol_to_order_lookup [y] else Ok default_bond_order) = Ok (oord (l_bond i)))
                 \/ (osym_str (l_bond i) ++ close_str (l_close i) = [] /\ l_bond i = None)).
    { destruct (l_bond i) as [s|]; cbn [osym_str app oord].
      - left. eexists _, _. split; [reflexivity|]. split; [apply sym_in_eon|]. now rewrite sym_mem, sym_lookup.
      - destruct (l_close i) as [a|]; cbn [close_str]; [left; eexists _, _; split; [reflexivity|]; split; reflexivity|right; split; reflexivity]. }
    destruct Hy as [(y & ty & Ey & Hyin & Hybo)|(Ey & Eb)]; rewrite Ey.
    + rewrite (find_idx_count ds y ty Hall Hyin). cbn [bind].
      unfold py_slice. cbn [skipn]. replace (Datatypes.S (length ds) - 1)%nat with (length (digits_str ds)) by (unfold digits_str; rewrite map_length; lia).
      rewrite firstn_app, Nat.sub_diag, firstn_all. cbn [firstn]. rewrite app_nil_r. rewrite py_int_full_digits by assumption. cbn [bind].
      assert (En : nth_error ("|"%char :: digits_str ds ++ y :: ty) (Datatypes.S (length ds)) = Some y).
      { cbn [nth_error]. rewrite nth_error_app2 by (unfold digits_str; rewrite map_length; lia).
        unfold digits_str. rewrite map_length, Nat.sub_diag. reflexivity. }
      rewrite En, Hybo. reflexivity.
    + rewrite app_nil_r. rewrite (find_idx_count_end ds Hall). cbn [bind].
      unfold py_slice. cbn [skipn]. replace (Datatypes.S (length ds) - 1)%nat with (length (digits_str ds)) by (unfold digits_str; rewrite map_length; lia).
      rewrite firstn_all. rewrite py_int_full_digits by assumption. cbn [bind].
      assert (En : nth_error ("|"%char :: digits_str ds) (Datatypes.S (length ds)) = None).
      { apply nth_error_None. cbn [length]. unfold digits_str. rewrite map_length. lia. }
      rewrite En, Eb. reflexivity.
  - cbn [mult_str app mult_val].
    assert (Hp : Forall nobar (rings_str false (l_rings i) ++ osym_str (l_bond i) ++ close_str (l_close i))).
    { apply Forall_app; split; [now apply nobar_rings|]. apply Forall_app; split; [apply nobar_osym|].
      destruct (l_close i); cbn [close_str]; [|constructor]. constructor; [discriminate|apply nobar_osym]. }
    unfold nmon_expr. destruct (rings_str false (l_rings i) ++ osym_str (l_bond i) ++ close_str (l_close i)) as [|c p]; [reflexivity|].
    inversion Hp as [|? ? Hc0 _]; subst. destruct (Ascii.eqb_spec c "|"%char); [contradiction|reflexivity].
Qed.

(** look-ahead of the LAST item, the text ending right behind it *)
Lemma scan_last fo i cur cyc : lin_ok fo i = true ->
  exists x rdx v, ring_scan cur (lin_tail_str i) 0 (clean_st cyc []) = Ok (x, rdx)
                  /\ (r_cyc x, r_ces x) = spec_rings (l_rings i) cur (cyc, [])
                  /\ bond_expr (lin_tail_str i) rdx = Ok v
                  /\ (l_mult i <> None -> v = default_bond_order).
Proof.
  intros Hok. destruct (lin_ok_parts fo i Hok) as (_ & Hr & Hm & Hc).
  assert (Hsafe := tail_bond_safe fo i Hok).
  assert (Hgen : forall x rdx, ring_scan cur (lin_tail_str i) 0 (clean_st cyc []) = Ok (x, rdx) ->
            (r_cyc x, r_ces x) = spec_rings (l_rings i) cur (cyc, []) -> (l_mult i <> None -> rdx = O) ->
            exists x' rdx' v, ring_scan cur (lin_tail_str i) 0 (clean_st cyc []) = Ok (x', rdx')
                  /\ (r_cyc x', r_ces x') = spec_rings (l_rings i) cur (cyc, [])
                  /\ bond_expr (lin_tail_str i) rdx' = Ok v /\ (l_mult i <> None -> v = default_bond_order)).
  { intros x rdx E S Hz. destruct (lin_tail_str i) as [|c0 r0] eqn:Et.
    - exists x, rdx, default_bond_order. repeat split; try assumption.
    - pose proof (ring_scan_rdx cur (c0 :: r0) 0 _ x rdx ltac:(discriminate) E) as Hb.
      destruct (bond_expr_safe (c0 :: r0) rdx Hsafe ltac:(lia)) as (v & Ev).
      exists x, rdx, v. repeat split; try assumption. intros Hmn. rewrite (Hz Hmn) in Ev. cbn in Ev. now injection Ev as <-. }
  unfold lin_tail_str in *.
  destruct (l_mult i) as [ds|] eqn:Em.
  - destruct Hm as (Er & _). rewrite Er in *. cbn [mult_str rings_str app] in *.
    apply (Hgen (sym_st default_bond_order cyc []) O); [now rewrite clean_is_sym, scan_stop by reflexivity|reflexivity|reflexivity].
  - cbn [mult_str app] in *.
    destruct (l_close i) as [a|] eqn:Ecl; cbn [close_str] in *.
    + destruct (ring_scan_item cur (l_rings i) (l_bond i) ")"%char (osym_str a) cyc Hr) as (x2 & E2 & S2); [repeat split|].
      apply (Hgen x2 _ E2 S2). intros C; now elim C.
    + rewrite !app_nil_r in *.
      destruct (ring_list cur (l_rings i) false AClean cyc [] (osym_str (l_bond i)) 0 Hr I eq_refl)
        as (a' & cyc1 & ces1 & E & Ha & S). cbn [settled] in S. cbn [plus] in E.
      destruct (l_bond i) as [s|] eqn:Eb; cbn [osym_str] in *.
      * rewrite settle_any in E by (apply sym_not_digit || assumption).
        rewrite (clean_is_sym (fst (settled cur a' cyc1 ces1)) (snd (settled cur a' cyc1 ces1))), scan_sym in E.
        cbn [ring_scan sym_st r_multi andb] in E.
        eapply Hgen; [change (clean_st cyc []) with (conc AClean cyc []); exact E| |intros C; now elim C].
        cbn [sym_st r_cyc r_ces]. rewrite <- S. now destruct (settled cur a' cyc1 ces1).
      * destruct (ring_scan_nil cur (length (rings_str false (l_rings i))) a' cyc1 ces1 Ha) as (xe & Ee & Se).
        rewrite Ee in E.
        eapply Hgen; [change (clean_st cyc []) with (conc AClean cyc []); exact E| |intros C; now elim C].
        rewrite Se. exact S.
Qed.

Lemma look_last fo i : lin_ok fo i = true ->
  exists io ic, fnc0 (lin_tail_str i) fnc_next_open = Ok io /\ fnc0 (lin_tail_str i) fnc_next_close = Ok ic
                /\ Nat.ltb ic io = is_some (l_close i).
Proof.
  intros Hok. pose proof (lin_prefix_inner fo i Hok) as Hp.
  assert (E : lin_tail_str i = lin_prefix i ++ close_str (l_close i)) by (unfold lin_tail_str, lin_prefix; now rewrite <- !app_assoc).
  rewrite E, !fnc0_spec.
  rewrite (find_idx_inner _ fnc_next_open Hp incl_open), (find_idx_inner _ fnc_next_close Hp incl_close).
  eexists _, _. split; [reflexivity|]. split; [reflexivity|].
  destruct (l_close i) as [a|]; cbn [close_str is_some].
  - cbn [find_idx]. change (str_in [")"%char] fnc_next_close) with true. change (str_in [")"%char] fnc_next_open) with false.
    cbv iota. apply Nat.ltb_lt. lia.
  - cbn [find_idx]. apply Nat.ltb_ge. lia.
Qed.

Lemma close_last fo i a st top stk : lin_ok fo i = true -> l_close i = Some a ->
  s_branch_anchor st = rev (top :: stk) ->
  exists st1, close_all (lin_tail_str i) st = Ok st1 /\ s_g st1 = s_g st /\ s_cycle st1 = s_cycle st.
Proof.
  intros Hok Hc Hba. pose proof (lin_prefix_inner fo i Hok) as Hp.
  assert (E : lin_tail_str i = lin_prefix i ++ close_str (l_close i)) by (unfold lin_tail_str, lin_prefix; now rewrite <- !app_assoc).
  unfold close_all. rewrite close_loop_0.
  destruct (look_last fo i Hok) as (io & ic & -> & -> & Elt). cbn [bind]. rewrite Elt, Hc. cbn [is_some].
  assert (Ecb : exists st1, close_branch (lin_tail_str i) 0 st = Ok (st1, Datatypes.S (length (lin_prefix i)))
                            /\ s_g st1 = s_g st /\ s_cycle st1 = s_cycle st).
  { unfold close_branch. rewrite Hba, rev_involutive. rewrite E, Hc. cbn [close_str].
    change (fnc_from ?r ?c 0) with (fnc0 r c).
    rewrite fnc0_spec, (find_idx_inner _ fnc_eon_a Hp incl_eon_a). cbn [find_idx].
    change (str_in [")"%char] fnc_eon_a) with true. cbv iota. rewrite Nat.add_0_r. cbn [bind].
    rewrite !nth_error_after. rewrite Nat.add_1_r.
    destruct a as [s|]; cbn [osym_str nth_error].
    - assert (E1 : ch_eq (Some (sym_char s)) "|"%char = false) by (destruct s; reflexivity).
      rewrite E1. cbn [ch_eq orb andb]. rewrite sym_mem, sym_lookup. cbn [bind]. eexists. split; [reflexivity|]. split; reflexivity.
    - cbn [ch_eq orb andb bind]. eexists. split; [reflexivity|]. split; reflexivity. }
  destruct Ecb as (st1 & -> & G1 & C1). cbn [bind]. exists st1. split; [|split; assumption].
  assert (El : length (lin_tail_str i) = Datatypes.S (length (lin_prefix i) + length (osym_str a))).
  { rewrite E, Hc. cbn [close_str]. rewrite app_length. cbn [length]. lia. }
  rewrite El. apply close_loop_stop; [rewrite El; lia|].
  rewrite E, Hc. cbn [close_str]. rewrite skipn_after. destruct a as [s|]; [destruct s|]; reflexivity.
Qed.

(** one iteration on the LAST item of a text without braces: graph and ring table agree with the machine *)
Lemma node_step_last fo i st x pc :
  lin_ok fo i = true -> Rel st x ->
  (Ascii.eqb pc "("%char = l_open i) -> (l_open i = true -> exists p, m_prev x = Some p /\ has_node (m_g x) p = true) ->
  (l_close i <> None -> (if l_open i then m_prev x :: m_stack x else m_stack x) <> []) ->
  match item_effect fo i x with
  | Ok x1 => exists st1, node_step fo st pc (l_name i) (lin_tail_str i) = Ok st1 /\ s_g st1 = m_g x1 /\ s_cycle st1 = m_rings x1
  | Err e => node_step fo st pc (l_name i) (lin_tail_str i) = Err e
  end.
Proof.
  intros Hok (Rg & Rc & Rp & Rcy & Rba & Rbr & Rpb) Hpc Hop Hst.
  destruct (lin_ok_parts fo i Hok) as (Hn & Hr & Hm & Hc).
  rewrite node_step_eq. unfold item_effect.
  set (stack0 := if l_open i then m_prev x :: m_stack x else m_stack x).
  assert (Hopened : exists rc, opened st pc = Ok (negb (is_nil stack0), rev stack0, rc)).
  { unfold opened, stack0. rewrite Hpc. destruct (l_open i).
    - destruct (Hop eq_refl) as (p & Ep & Hp). rewrite Rp, Ep, Rg.
      unfold node_attrs, has_node in *. destruct (gfind p (m_g x)) as [nr|]; [|discriminate]. cbn [bind].
      eexists. rewrite Rba. reflexivity.
    - eexists. rewrite Rbr, Rba. reflexivity. }
  destruct Hopened as (rc & ->). cbn [bind].
  destruct (scan_last fo i (s_current st) (s_cycle st) Hok) as (xr & rdx & v & Escan & Sr & Ebond & Hv).
  rewrite Escan. cbn [bind]. rewrite Ebond. cbn [bind].
  rewrite (nmon_last fo i v Hok Hv). cbn [bind]. rewrite Nat2Z.id.
  set (bo := match l_mult i with Some _ => oord (l_bond i) | None => v end).
  destruct (parse_graph_base_node fo (l_name i)) as [a|e] eqn:Ea; cbn [bind]; [|reflexivity].
  assert (Ha : ahas (S "node_for_adding") a = false).
  { unfold name_ok in Hn. rewrite Ea in Hn. apply andb_prop in Hn as [_ Hn]. now destruct (ahas _ a). }
  assert (Hrec : exists rc', (if negb (is_nil stack0) then
                                match rev (rev stack0) with
                                | [] => Err EIndex
                                | k0 :: _ => Ok (rec_append k0 (Z.of_nat (mult_val (l_mult i)), a, s_pbo st) rc)
                                end else Ok rc) = Ok rc').
  { rewrite rev_involutive. destruct stack0; cbn; eexists; reflexivity. }
  destruct Hrec as (rc' & ->). cbn [bind].
  rewrite Rcy, Rc in Sr. rewrite Rg, Rc, Rp.
  assert (Hpp : forall p, m_prev x = Some p -> s_pbo st = Some (m_pend x)) by (intros p Hp'; now destruct (Rpb p Hp')).
  assert (Hadd : add_nodes (mult_val (l_mult i)) a bo (r_ces xr) (m_g x) (m_next x) (m_prev x) (s_pbo st)
               = (let '(g2, nx, pv) := m_copies (mult_val (l_mult i)) a (m_g x) (m_next x) (m_prev x) (m_pend x) in
                  g3 <- add_cycle_edges g2 (r_ces xr) ;; Ok (g3, nx, pv, Some bo))).
  { destruct (l_mult i) as [ds|] eqn:Em; cbn [mult_val].
    - destruct Hm as (Er & Hd & H1). rewrite Er in Sr. cbn [spec_rings] in Sr. injection Sr as _ Eces.
      rewrite Eces. rewrite (add_nodes_copies _ a _ _ _ _ _ (m_pend x) Ha) by (intros _; exact Hpp).
      destruct (m_copies (digits_nat ds) a (m_g x) (m_next x) (m_prev x) (m_pend x)) as [[g2 nx] pv].
      cbn [add_cycle_edges bind]. destruct (digits_nat ds); [lia|reflexivity].
    - now apply add_nodes_one. }
  rewrite Hadd. clear Hadd.
  assert (Hn1 : (1 <= mult_val (l_mult i))%nat) by (unfold mult_val; destruct (l_mult i); [tauto|lia]).
  destruct (m_copies_prev (mult_val (l_mult i)) a (m_g x) (m_next x) (m_prev x) (m_pend x) Hn1) as (g2 & nx & last & -> & _).
  pose proof (f_equal snd Sr) as Eces. cbn [snd] in Eces. pose proof (f_equal fst Sr) as Ecyc. cbn [fst] in Ecyc.
  rewrite Eces. destruct (add_cycle_edges g2 _) as [g3|e]; cbn [bind]; [|reflexivity].
  destruct (l_close i) as [a'|] eqn:Ecl.
  - destruct stack0 as [|top stk] eqn:Es; [exfalso; apply Hst; [discriminate|exact Es]|].
    match goal with |- exists st1, close_all _ ?S = _ /\ _ => destruct (close_last fo i a' S top stk Hok Ecl eq_refl) as (st1 & E1 & G1 & C1) end.
    exists st1. split; [exact E1|]. rewrite G1, C1. cbn. split; [reflexivity|assumption].
  - destruct (look_last fo i Hok) as (io & ic & Eio & Eic & Elt). rewrite Ecl in Elt.
    rewrite (close_all_stop _ _ io ic Eio Eic Elt). eexists. split; [reflexivity|]. cbn. split; [reflexivity|assumption].
Qed.

Lemma cont_lins_ne j t : cont (lins_str (j :: t)).
Proof.
  cbn [lins_str flat_map]. unfold lin_str. destruct (l_open j); cbn [app]; rewrite <- ?app_assoc; cbn [app]; constructor.
Qed.
Lemma tail_no_node fo i pc : lin_ok fo i = true -> next_node pc (lin_tail_str i) = None.
Proof.
  intros Hok. rewrite <- (app_nil_r (lin_tail_str i)). rewrite next_node_skip by (apply skipch_nob; now apply (lin_tail_skipch fo)).
  reflexivity.
Qed.

Lemma last_app_ne {A} (a b : list A) d : b <> [] -> last (a ++ b) d = last b d.
Proof.
  intros Hb. induction a as [|x a IH]; [reflexivity|]. cbn [app].
  assert (Hn : a ++ b <> []) by (destruct a; [exact Hb|discriminate]).
  destruct (a ++ b) as [|y r] eqn:E; [contradiction|]. rewrite <- IH. reflexivity.
Qed.
Lemma last_lins_str fo l d : forallb (lin_ok fo) l = true -> l <> [] -> last (lins_str l) d <> "("%char.
Proof.
  intros Hok Hne. destruct (exists_last Hne) as (l' & z & ->).
  rewrite forallb_app in Hok. apply andb_prop in Hok as [_ Hz]. cbn [forallb] in Hz. apply andb_prop in Hz as [Hz _].
  unfold lins_str. rewrite flat_map_app. cbn [flat_map]. rewrite app_nil_r. unfold lin_str.
  rewrite app_assoc. change ("["%char :: "#"%char :: l_name z ++ "]"%char :: lin_tail_str z)
    with (("["%char :: "#"%char :: l_name z) ++ "]"%char :: lin_tail_str z).
  rewrite app_assoc. rewrite last_app_ne by discriminate.
  rewrite last_cons_default. apply last_skipch; [now apply (lin_tail_skipch fo)|discriminate].
Qed.


Theorem sim_loop_end fo : forall l st x pre pc fuel,
  l <> [] -> forallb (lin_ok fo) l = true -> lin_depth (length (m_stack x)) l = true ->
  Rel st x -> all_some (m_stack x) -> mwf x ->
  (m_prev x = None -> match l with i :: _ => l_open i = false | [] => True end) ->
  Forall skipch pre -> pc <> "("%char -> (length l < fuel)%nat ->
  match m_run fo (lins_toks l) x with
  | Ok x1 => exists st1, main_loop fuel fo pc (pre ++ lins_str l) st = Ok st1 /\ s_g st1 = m_g x1 /\ s_cycle st1 = m_rings x1
  | Err e => main_loop fuel fo pc (pre ++ lins_str l) st = Err e
  end.
Proof.
  induction l as [|i t IH]; intros st x pre pc fuel Hne Hok Hd HR Hs Hw Hfirst Hpre Hpc Hfuel; [contradiction|].
  cbn [forallb] in Hok. apply andb_prop in Hok as [Hoki Hokt].
  destruct fuel as [|f]; [cbn in Hfuel; lia|]. cbn [length] in Hfuel.
  cbn [lins_toks flat_map]. fold (lins_toks t). rewrite (m_item fo i (lins_toks t) x Hoki).
  cbn [lins_str flat_map]. fold (lins_str t).
  destruct (lin_ok_parts fo i Hoki) as (Hn & _).
  set (opn := if l_open i then ["("%char] else []).
  assert (Etext : pre ++ lin_str i ++ lins_str t
                = (pre ++ opn) ++ "["%char :: "#"%char :: l_name i ++ "]"%char :: (lin_tail_str i ++ lins_str t)).
  { unfold lin_str, opn. rewrite <- !app_assoc. cbn [app]. rewrite <- !app_assoc. reflexivity. }
  rewrite Etext. cbn [main_loop].
  assert (Hopn : Forall nob (pre ++ opn)).
  { apply Forall_app; split; [now apply skipch_nob|]. unfold opn. destruct (l_open i); repeat constructor. discriminate. }
  rewrite next_node_skip by assumption. rewrite next_node_here by (now apply (name_chars fo)).
  assert (Hpc' : Ascii.eqb (last (pre ++ opn) pc) "("%char = l_open i).
  { unfold opn. destruct (l_open i).
    - rewrite last_last. reflexivity.
    - rewrite app_nil_r. apply Ascii.eqb_neq. now apply last_skipch. }
  assert (Hop : l_open i = true -> m_prev x <> None).
  { intros Ho Hn0. specialize (Hfirst Hn0). cbn in Hfirst. congruence. }
  assert (Hop2 : l_open i = true -> exists p, m_prev x = Some p /\ has_node (m_g x) p = true).
  { intros Ho. specialize (Hop Ho). destruct (m_prev x) as [p|] eqn:Ep; [|contradiction]. exists p. split; [reflexivity|].
    apply (w_prev x Hw). exact Ep. }
  assert (Hst : l_close i <> None -> (if l_open i then m_prev x :: m_stack x else m_stack x) <> []).
  { intros Hc. cbn [lin_depth] in Hd. destruct (l_open i); [discriminate|].
    destruct (l_close i); [|contradiction]. destruct (m_stack x); [discriminate|discriminate]. }
  destruct t as [|j t'].
  - cbn [lins_str flat_map]. rewrite app_nil_r.
    pose proof (node_step_last fo i st x _ Hoki HR Hpc' Hop2 Hst) as Hstep.
    cbn [lins_toks flat_map m_run].
    destruct (item_effect fo i x) as [x1|e]; cbn [bind].
    + destruct Hstep as (st1 & -> & G & C). cbn [bind]. exists st1. split; [|split; assumption].
      destruct f as [|f']; [lia|]. cbn [main_loop]. now rewrite (tail_no_node fo).
    + rewrite Hstep. reflexivity.
  - set (k := lins_str (j :: t')).
    assert (Hk : cont k) by apply cont_lins_ne.
    pose proof (node_step_lin fo i k st x _ Hoki Hk HR Hpc' Hop2 Hst) as Hstep.
    destruct (item_effect fo i x) as [x1|e] eqn:Eeff; cbn [bind].
    + destruct Hstep as (st1 & -> & HR1 & _). cbn [bind].
      pose proof (item_effect_mwf fo i x x1 Hoki Eeff Hw) as Hw1.
      destruct (item_effect_inv fo i x x1 Hoki Eeff Hs Hop) as (Hs1 & Hp1 & Hd1).
      assert (Hdt : lin_depth (length (m_stack x1)) (j :: t') = true).
      { cbn [lin_depth] in Hd. cbv zeta in Hd1. destruct (l_close i).
        - rewrite Hd1 in Hd. exact Hd.
        - rewrite Hd1 in Hd. exact Hd. }
      apply (IH st1 x1 (lin_tail_str i) "]"%char f); try assumption.
      * discriminate.
      * intros Hn0. contradiction.
      * now apply (lin_tail_skipch fo).
      * discriminate.
      * cbn [length] in *. lia.
    + rewrite Hstep. reflexivity.
Qed.

(** ** the simulation theorem for texts without braces *)
Theorem reader_sim_lin_nobrace fo l : lins_ok fo l = true -> read_cgsmiles fo (lins_str l) = denote_lin fo l.
Proof.
  unfold lins_ok. intros H. apply andb_prop in H as [H Hfirst]. apply andb_prop in H as [Hok Hd].
  destruct l as [|i t] eqn:El; [reflexivity|]. rewrite <- El in *.
  assert (Hne : l <> []) by (rewrite El; discriminate).
  unfold read_cgsmiles, denote_lin, m_finish.
  assert (HR : Rel init_state m_init) by (unfold Rel; cbn; repeat split; discriminate).
  pose proof (sim_loop_end fo l init_state m_init [] (last (lins_str l) " "%char) (Datatypes.S (length (lins_str l)))
                Hne Hok Hd HR (Forall_nil _) mwf_init) as Hsim.
  cbn [app] in Hsim.
  assert (H1 : m_prev m_init = None -> match l with i0 :: _ => l_open i0 = false | [] => True end).
  { intros _. rewrite El in *. now destruct (l_open i). }
  specialize (Hsim H1 (Forall_nil _) (last_lins_str fo l _ Hok Hne)).
  assert (H4 : (length l < Datatypes.S (length (lins_str l)))%nat) by (pose proof (lins_str_length l); lia).
  specialize (Hsim H4).
  destruct (m_run fo (lins_toks l) m_init) as [x1|e].
  - destruct Hsim as (st1 & -> & G & C). cbn [bind]. rewrite C, G. reflexivity.
  - rewrite Hsim. reflexivity.
Qed.
Theorem reader_sim_ast_nobrace fo a l : linearize a = Some l -> lins_ok fo l = true ->
  read_cgsmiles fo (print false a) = denote fo a.
Proof.
  intros E Hok. destruct (linearize_spec a l E) as (P1 & P2 & P3).
  unfold print, denote. rewrite P3, P2, P1. now apply reader_sim_lin_nobrace.
Qed.

(** C05, node multipliers, also for texts without braces *)
Theorem reader_nodes_shorthand_nobrace fo l : lins_ok fo l = true ->
  read_cgsmiles fo (lins_str l) = read_cgsmiles fo (lins_str (expand_lin l)).
Proof.
  intros H. rewrite !reader_sim_lin_nobrace by (assumption || now apply expand_lin_ok).
  symmetry. apply denote_expand_lin. unfold lins_ok in H. apply andb_prop in H as [H _]. now apply andb_prop in H as [H _].
Qed.
