(** ReaderLemmas: characterising lemmas for the pieces ReaderImpl is made of: the GENERATED
    [find_next_character], the regular-expression model [next_node], the ring-marker loop. *)
From Coq Require Import String.
From Coq Require Import List Ascii ZArith Bool Lia.
From CGV Require Import Base.PyBase Base.PyVal Base.NxGraph Base.PyGen Gen.ReaderGen Dialect.DialectImpl
     Reader.ReaderImpl Reader.Grammar.
Import ListNotations.
Open Scope Z_scope.

(** ** _find_next_character *)
Fixpoint find_idx (s : pystr) (chars : list pystr) : nat :=
  match s with [] => O | c :: r => if str_in [c] chars then O else Datatypes.S (find_idx r chars) end.

Lemma py_for_find : forall (F : unit -> Z * pystr -> res (loopres Z unit)) chars,
  (forall st idx tok, F st (idx, tok) = if str_in tok chars then Ok (RReturn (idx + 0)%Z) else Ok (RNext tt)) ->
  forall (s : pystr) (k : nat),
  py_for (combine (map (fun i => (0 + Z.of_nat i)%Z) (seq k (length (map (fun c_ => [c_]) s)))) (map (fun c_ => [c_]) s)) tt F
  = Ok (if (find_idx s chars <? length s)%nat then RReturn (Z.of_nat (k + find_idx s chars)) else RNext tt).
Proof.
  intros F chars HF. induction s as [|c r IH]; intros k.
  - reflexivity.
  - cbn [map length seq combine py_for find_idx]. rewrite HF.
    destruct (str_in [c] chars) eqn:E.
    + cbn. rewrite Nat.add_0_r, Z.add_0_r. reflexivity.
    + cbn [bind ret]. rewrite IH. f_equal.
      change (length (c :: r)) with (Datatypes.S (length r)).
      destruct (find_idx r chars <? length r)%nat eqn:L.
      * assert (H : (Datatypes.S (find_idx r chars) <? Datatypes.S (length r))%nat = true)
          by (apply Nat.ltb_lt; apply Nat.ltb_lt in L; lia).
        rewrite H. f_equal. lia.
      * assert (H : (Datatypes.S (find_idx r chars) <? Datatypes.S (length r))%nat = false)
          by (apply Nat.ltb_ge; apply Nat.ltb_ge in L; lia).
        rewrite H. reflexivity.
Qed.

Lemma find_idx_le s chars : (find_idx s chars <= length s)%nat.
Proof. induction s as [|c r IH]; cbn; [lia|]. destruct (str_in [c] chars); lia. Qed.

Lemma fnc0_spec s chars : fnc0 s chars = Ok (find_idx s chars).
Proof.
  unfold fnc0, find_next_character, unwrap_return, py_slice_from_z, enumerate_from.
  cbn [bind ret Z.ltb Z.compare Z.to_nat skipn].
  rewrite (py_for_find _ chars) by (intros st idx tok; reflexivity). cbn [bind ret].
  destruct (find_idx s chars <? length s)%nat eqn:L; cbn [bind ret].
  - f_equal. rewrite Nat2Z.id. reflexivity.
  - apply Nat.ltb_ge in L. pose proof (find_idx_le s chars). f_equal. rewrite Nat2Z.id. lia.
Qed.

Lemma find_idx_none s chars : Forall (fun c => str_in [c] chars = false) s -> find_idx s chars = length s.
Proof. induction 1 as [|c r H _ IH]; cbn; [reflexivity|]. now rewrite H, IH. Qed.

(** ** the regular expression *)
(** ** _find_next_character from a position *)
Lemma py_for_find_off : forall (F : unit -> Z * pystr -> res (loopres Z unit)) chars off,
  (forall st idx tok, F st (idx, tok) = if str_in tok chars then Ok (RReturn (idx + off)%Z) else Ok (RNext tt)) ->
  forall (s : pystr) (k : nat),
  py_for (combine (map (fun i => (0 + Z.of_nat i)%Z) (seq k (length (map (fun c_ => [c_]) s)))) (map (fun c_ => [c_]) s)) tt F
  = Ok (if (find_idx s chars <? length s)%nat then RReturn (Z.of_nat (k + find_idx s chars) + off) else RNext tt).
Proof.
  intros F chars off HF. induction s as [|c r IH]; intros k.
  - reflexivity.
  - cbn [map length seq combine py_for find_idx]. rewrite HF.
    destruct (str_in [c] chars) eqn:E.
    + cbn. rewrite Nat.add_0_r. reflexivity.
    + cbn [bind ret]. rewrite IH. f_equal.
      change (length (c :: r)) with (Datatypes.S (length r)).
      destruct (find_idx r chars <? length r)%nat eqn:L.
      * assert (H : (Datatypes.S (find_idx r chars) <? Datatypes.S (length r))%nat = true)
          by (apply Nat.ltb_lt; apply Nat.ltb_lt in L; lia).
        rewrite H. f_equal. lia.
      * assert (H : (Datatypes.S (find_idx r chars) <? Datatypes.S (length r))%nat = false)
          by (apply Nat.ltb_ge; apply Nat.ltb_ge in L; lia).
        rewrite H. reflexivity.
Qed.
Lemma fnc_from_spec s chars k : (k <= length s)%nat -> fnc_from s chars k = Ok (k + find_idx (skipn k s) chars)%nat.
Proof.
  intros Hk. unfold fnc_from, find_next_character, unwrap_return, py_slice_from_z, enumerate_from.
  cbn [bind ret].
  assert (E0 : (Z.of_nat k <? 0) = false) by (apply Z.ltb_ge; lia). rewrite E0. rewrite Nat2Z.id.
  cbn [bind ret].
  rewrite (py_for_find_off _ chars (Z.of_nat k)) by (intros st idx tok; reflexivity). cbn [bind ret].
  pose proof (find_idx_le (skipn k s) chars) as Hle. rewrite skipn_length in *.
  destruct (find_idx (skipn k s) chars <? length s - k)%nat eqn:L; cbn [bind ret].
  - f_equal. lia.
  - apply Nat.ltb_ge in L. f_equal. lia.
Qed.

Definition name_char (c : ascii) : Prop := c <> "]"%char /\ c <> ch_nl.
Lemma until_close_app n rest : Forall name_char n -> until_close (n ++ "]"%char :: rest) = Some (n, rest).
Proof.
  induction 1 as [|c n [H1 H2] _ IH]; cbn [app until_close].
  - reflexivity.
  - destruct (Ascii.eqb_spec c "]"%char); [contradiction|].
    destruct (Ascii.eqb_spec c ch_nl); [contradiction|]. now rewrite IH.
Qed.
Definition nob (c : ascii) : Prop := c <> "["%char.
Lemma next_node_cons pc c t : nob c -> next_node pc (c :: t) = next_node c t.
Proof.
  intros H. destruct t as [|c2 r]; [reflexivity|]. cbn [next_node].
  destruct (Ascii.eqb_spec c "["%char); [contradiction|]. reflexivity.
Qed.
Lemma next_node_nil pc : next_node pc [] = None. Proof. reflexivity. Qed.
Lemma next_node_single pc c : next_node pc [c] = None. Proof. reflexivity. Qed.
Lemma last_cons_default {A} (p : list A) : forall c d, last (c :: p) d = last p c.
Proof.
  induction p as [|a p IH]; intros c d; [reflexivity|].
  change (last (c :: a :: p) d) with (last (a :: p) d). rewrite !IH. reflexivity.
Qed.
Lemma next_node_skip pre : forall pc tail, Forall nob pre ->
  next_node pc (pre ++ tail) = next_node (last pre pc) tail.
Proof.
  induction pre as [|c p IH]; intros pc tail H; [reflexivity|].
  inversion H as [|? ? Hc Hp]; subst. cbn [app]. rewrite next_node_cons by assumption.
  rewrite IH by assumption. f_equal. symmetry. apply last_cons_default.
Qed.
Lemma next_node_here pc n rest : Forall name_char n ->
  next_node pc ("["%char :: "#"%char :: n ++ "]"%char :: rest) = Some (pc, n, rest).
Proof. intros H. cbn [next_node]. cbn. now rewrite until_close_app. Qed.

(** ** characters of the printed syntax against the GENERATED tables *)
Lemma sym_lookup s : symbol_to_order_lookup [sym_char s] = Ok (sym_ord s).
Proof. destruct s; reflexivity. Qed.
Lemma sym_mem s : sto_mem (sym_char s) = true. Proof. destruct s; reflexivity. Qed.
Lemma sym_not_digit s : is_digit (sym_char s) = false. Proof. destruct s; reflexivity. Qed.
Lemma sym_not_pct s : Ascii.eqb (sym_char s) "%"%char = false. Proof. destruct s; reflexivity. Qed.
Lemma sym_in_bond_chars s : char_in (sym_char s) bond_symbol_chars = true. Proof. destruct s; reflexivity. Qed.
Lemma digit_is_digit d : (d < 10)%nat -> is_digit (digit_char d) = true.
Proof. intros H. do 10 (destruct d as [|d]; [reflexivity|]). lia. Qed.
Lemma digit_not_pct d : (d < 10)%nat -> Ascii.eqb (digit_char d) "%"%char = false.
Proof. intros H. do 10 (destruct d as [|d]; [reflexivity|]). lia. Qed.
Lemma digit_val_char d : (d < 10)%nat -> digit_val (digit_char d) = d.
Proof. intros H. do 10 (destruct d as [|d]; [reflexivity|]). lia. Qed.
Lemma digit_not_bond d : (d < 10)%nat -> char_in (digit_char d) bond_symbol_chars = false.
Proof. intros H. do 10 (destruct d as [|d]; [reflexivity|]). lia. Qed.

Lemma digits_ok_all ds : digits_ok ds = true -> forallb (fun d => (d <? 10)%nat) ds = true /\ ds <> [].
Proof. unfold digits_ok. destruct ds; [discriminate|]. intros H. split; [exact H|discriminate]. Qed.
Lemma all_digits_str ds : forallb (fun d => (d <? 10)%nat) ds = true -> all_digits (digits_str ds) = true.
Proof.
  induction ds as [|d r IH]; [reflexivity|]. cbn [forallb digits_str map all_digits]. intros H. apply andb_prop in H as [H1 H2].
  apply Nat.ltb_lt in H1. rewrite digit_is_digit by assumption. now apply IH.
Qed.
Lemma digits_val_str ds : forallb (fun d => (d <? 10)%nat) ds = true ->
  forall acc : nat, digits_val (Z.of_nat acc) (digits_str ds) = Z.of_nat (fold_left (fun a d => (a * 10 + d)%nat) ds acc).
Proof.
  induction ds as [|d r IH]; intros H acc; [reflexivity|]. cbn [forallb] in H. apply andb_prop in H as [H1 H2].
  apply Nat.ltb_lt in H1. cbn [digits_str map digits_val fold_left]. rewrite digit_val_char by assumption.
  replace (Z.of_nat acc * 10 + Z.of_nat d) with (Z.of_nat (acc * 10 + d)) by lia. now apply IH.
Qed.
Lemma py_int_digits ds : digits_ok ds = true -> py_int (digits_str ds) = Ok (Z.of_nat (digits_nat ds)).
Proof.
  intros H. apply digits_ok_all in H as [H1 H2]. unfold py_int, py_isdigit.
  destruct ds as [|d r]; [contradiction|]. cbn [digits_str map]. fold (digits_str r).
  change (digit_char d :: digits_str r) with (digits_str (d :: r)).
  rewrite all_digits_str by assumption. f_equal. apply (digits_val_str (d :: r) H1 0%nat).
Qed.
Lemma py_int_digit d : (d < 10)%nat -> py_int [digit_char d] = Ok (Z.of_nat d).
Proof. intros H. apply (py_int_digits [d]). cbn [digits_ok forallb]. apply Nat.ltb_lt in H. now rewrite H. Qed.

(** ** the ring-marker loop, one token at a time *)
Definition clean_st (cyc : cycmap) (ces : list (Z * Z * Z)) : ringst :=
  {| r_marker := []; r_multi := false; r_rbo := default_bond_order; r_cyc := cyc; r_ces := ces |}.
Definition sym_st (o : Z) (cyc : cycmap) (ces : list (Z * Z * Z)) : ringst :=
  {| r_marker := []; r_multi := false; r_rbo := o; r_cyc := cyc; r_ces := ces |}.
Definition pend_st (ds : pystr) (o : Z) (cyc : cycmap) (ces : list (Z * Z * Z)) : ringst :=
  {| r_marker := "%"%char :: ds; r_multi := true; r_rbo := o; r_cyc := cyc; r_ces := ces |}.
(** what closing / opening marker [m] with order [o] does to the table and the pending ring edges *)
Definition commit (m cur o : Z) (cyc : cycmap) (ces : list (Z * Z * Z)) : cycmap * list (Z * Z * Z) :=
  match cyc_get m cyc with
  | Some (n0, o0) => (cyc_del m cyc, ces ++ [(cur, n0, o0)])
  | None => (cyc ++ [(m, (cur, o))], ces)
  end.
Lemma ring_commit_clean m cur o cyc ces mk mu :
  ring_commit m cur {| r_marker := mk; r_multi := mu; r_rbo := o; r_cyc := cyc; r_ces := ces |}
  = clean_st (fst (commit m cur o cyc ces)) (snd (commit m cur o cyc ces)).
Proof. unfold ring_commit, commit, clean_st. cbn. destruct (cyc_get m cyc) as [[n0 o0]|]; reflexivity. Qed.

Lemma scan_digit cur d r idx o cyc ces : (d < 10)%nat ->
  ring_scan cur (digit_char d :: r) idx (sym_st o cyc ces)
  = ring_scan cur r (Datatypes.S idx) (clean_st (fst (commit (Z.of_nat d) cur o cyc ces)) (snd (commit (Z.of_nat d) cur o cyc ces))).
Proof.
  intros H. unfold sym_st. cbn [ring_scan r_multi andb]. rewrite digit_not_pct, digit_is_digit by assumption.
  cbn [r_marker r_multi app]. rewrite py_int_digit by assumption. now rewrite ring_commit_clean.
Qed.
Lemma scan_sym cur s r idx o cyc ces :
  ring_scan cur (sym_char s :: r) idx (sym_st o cyc ces) = ring_scan cur r (Datatypes.S idx) (sym_st (sym_ord s) cyc ces).
Proof.
  unfold sym_st. cbn [ring_scan r_multi andb]. rewrite sym_not_pct, sym_not_digit, sym_mem, sym_lookup. reflexivity.
Qed.
Lemma scan_pct cur r idx o cyc ces :
  ring_scan cur ("%"%char :: r) idx (sym_st o cyc ces) = ring_scan cur r (Datatypes.S idx) (pend_st [] o cyc ces).
Proof. reflexivity. Qed.
Lemma scan_pend_digit cur d r idx ds o cyc ces : (d < 10)%nat ->
  ring_scan cur (digit_char d :: r) idx (pend_st ds o cyc ces)
  = ring_scan cur r (Datatypes.S idx) (pend_st (ds ++ [digit_char d]) o cyc ces).
Proof.
  intros H. unfold pend_st. cbn [ring_scan r_multi]. rewrite digit_is_digit by assumption. cbn [negb andb].
  rewrite digit_not_pct by assumption. reflexivity.
Qed.
Lemma scan_pend_digits cur : forall ds2 r idx ds o cyc ces, forallb (fun d => (d <? 10)%nat) ds2 = true ->
  ring_scan cur (digits_str ds2 ++ r) idx (pend_st ds o cyc ces)
  = ring_scan cur r (idx + length ds2) (pend_st (ds ++ digits_str ds2) o cyc ces).
Proof.
  induction ds2 as [|d t IH]; intros r idx ds o cyc ces H.
  - cbn. now rewrite Nat.add_0_r, app_nil_r.
  - cbn [forallb] in H. apply andb_prop in H as [H1 H2]. apply Nat.ltb_lt in H1.
    cbn [digits_str map app]. rewrite scan_pend_digit by assumption. fold (digits_str t).
    rewrite IH by assumption. cbn [length]. rewrite <- app_assoc. cbn [app]. f_equal. lia.
Qed.
(** a non-digit token first commits a pending %nn marker *)
Lemma scan_settle cur c r idx ds o cyc ces : is_digit c = false -> digits_ok ds = true ->
  ring_scan cur (c :: r) idx (pend_st (digits_str ds) o cyc ces)
  = ring_scan cur (c :: r) idx (clean_st (fst (commit (Z.of_nat (digits_nat ds)) cur o cyc ces))
                                         (snd (commit (Z.of_nat (digits_nat ds)) cur o cyc ces))).
Proof.
  intros Hc Hd. unfold pend_st. cbn [ring_scan r_multi r_marker skipn]. rewrite Hc. cbn [negb andb].
  rewrite py_int_digits by assumption. cbn [bind]. rewrite ring_commit_clean. reflexivity.
Qed.
Lemma scan_stop cur c r idx o cyc ces :
  is_digit c = false -> Ascii.eqb c "%"%char = false -> sto_mem c = false ->
  ring_scan cur (c :: r) idx (sym_st o cyc ces) = Ok (sym_st o cyc ces, idx).
Proof. intros H1 H2 H3. unfold sym_st. cbn [ring_scan r_multi andb]. now rewrite H2, H1, H3. Qed.
Lemma clean_is_sym cyc ces : clean_st cyc ces = sym_st default_bond_order cyc ces. Proof. reflexivity. Qed.

(** ** scanning the printed ring specifications = folding [commit] over them *)
Inductive ashape := AClean | APend (ds : list nat) (o : Z).
Definition conc (a : ashape) (cyc : cycmap) (ces : list (Z * Z * Z)) : ringst :=
  match a with AClean => clean_st cyc ces | APend ds o => pend_st (digits_str ds) o cyc ces end.
Definition ashape_ok (a : ashape) : Prop := match a with AClean => True | APend ds _ => digits_ok ds = true end.
Definition is_pend (a : ashape) : bool := match a with APend _ _ => true | AClean => false end.
Definition settled (cur : Z) (a : ashape) (cyc : cycmap) (ces : list (Z * Z * Z)) : cycmap * list (Z * Z * Z) :=
  match a with AClean => (cyc, ces) | APend ds o => commit (Z.of_nat (digits_nat ds)) cur o cyc ces end.
Fixpoint spec_rings (r : list (option sym * marker)) (cur : Z) (cc : cycmap * list (Z * Z * Z)) : cycmap * list (Z * Z * Z) :=
  match r with
  | [] => cc
  | (o, m) :: t => spec_rings t cur (commit (marker_val m) cur (oord o) (fst cc) (snd cc))
  end.

Lemma settle_any cur c r idx a cyc ces : is_digit c = false -> ashape_ok a ->
  ring_scan cur (c :: r) idx (conc a cyc ces)
  = ring_scan cur (c :: r) idx (clean_st (fst (settled cur a cyc ces)) (snd (settled cur a cyc ces))).
Proof.
  intros Hc Ha. destruct a as [|ds o]; [reflexivity|]. cbn [conc settled]. now apply scan_settle.
Qed.
Lemma default_is_one : default_bond_order = 1. Proof. reflexivity. Qed.
Lemma pct_not_digit : is_digit "%"%char = false. Proof. reflexivity. Qed.
Lemma digits_nat_0d d : digits_nat [0%nat; d] = d. Proof. reflexivity. Qed.

Ltac fin_scan :=
  f_equal; try reflexivity;
  cbn [length app osym_str marker_str ring_str]; unfold digits_str; rewrite ?app_length, ?map_length; cbn [length]; lia.
Lemma ring_one cur o m pp a cyc ces tail idx :
  marker_ok m = true -> ashape_ok a -> is_pend a = pp ->
  exists a' cyc' ces',
    ring_scan cur (ring_str pp o m ++ tail) idx (conc a cyc ces)
    = ring_scan cur tail (idx + length (ring_str pp o m)) (conc a' cyc' ces')
    /\ ashape_ok a' /\ is_pend a' = pct_form pp o m
    /\ settled cur a' cyc' ces'
       = commit (marker_val m) cur (oord o) (fst (settled cur a cyc ces)) (snd (settled cur a cyc ces)).
Proof.
  intros Hm Ha Hp.
  destruct o as [s|]; destruct m as [d|ds]; cbn [marker_ok] in Hm.
  - (* sym digit *)
    apply Nat.ltb_lt in Hm. cbn [ring_str osym_str marker_str app].
    rewrite settle_any by (apply sym_not_digit || assumption).
    rewrite clean_is_sym, scan_sym, scan_digit by assumption.
    eexists AClean, _, _. split; [fin_scan|]. split; [exact I|]. split; [try (destruct pp; reflexivity); reflexivity|]. cbn [settled oord marker_val].
    now destruct (commit (Z.of_nat d) cur (sym_ord s) _ _).
  - (* sym pct *)
    pose proof (digits_ok_all ds Hm) as [Hall _]. cbn [ring_str osym_str marker_str app].
    rewrite settle_any by (apply sym_not_digit || assumption).
    rewrite clean_is_sym, scan_sym, scan_pct, scan_pend_digits by assumption.
    eexists (APend ds (sym_ord s)), _, _. split; [fin_scan|].
    split; [exact Hm|]. split; [try (destruct pp; reflexivity); reflexivity|]. reflexivity.
  - (* none digit *)
    apply Nat.ltb_lt in Hm. cbn [ring_str]. destruct pp.
    + cbn [app]. rewrite settle_any by (apply pct_not_digit || assumption).
      rewrite clean_is_sym, scan_pct.
      change ("0"%char) with (digit_char 0). rewrite scan_pend_digit by lia. rewrite scan_pend_digit by assumption.
      eexists (APend [0%nat; d] default_bond_order), _, _. split; [fin_scan|].
      split; [cbn [ashape_ok digits_ok forallb]; apply Nat.ltb_lt in Hm; rewrite Hm; reflexivity|]. split; [try (destruct pp; reflexivity); reflexivity|].
      cbn [settled]. rewrite digits_nat_0d. cbn [oord marker_val]. now rewrite default_is_one.
    + destruct a; [|discriminate]. cbn [app conc]. rewrite clean_is_sym, scan_digit by assumption.
      eexists AClean, _, _. split; [fin_scan|]. split; [exact I|]. split; [try (destruct pp; reflexivity); reflexivity|].
      cbn [settled oord marker_val fst snd]. rewrite default_is_one.
      now destruct (commit (Z.of_nat d) cur 1 cyc ces).
  - (* none pct *)
    pose proof (digits_ok_all ds Hm) as [Hall _]. cbn [ring_str osym_str marker_str app].
    rewrite settle_any by (apply pct_not_digit || assumption).
    rewrite clean_is_sym, scan_pct, scan_pend_digits by assumption.
    eexists (APend ds default_bond_order), _, _. split; [fin_scan|].
    split; [exact Hm|]. split; [destruct pp; reflexivity|]. cbn [settled oord marker_val]. now rewrite default_is_one.
Qed.

Lemma ring_list cur : forall r pp a cyc ces tail idx,
  forallb (fun om => marker_ok (snd om)) r = true -> ashape_ok a -> is_pend a = pp ->
  exists a' cyc' ces',
    ring_scan cur (rings_str pp r ++ tail) idx (conc a cyc ces)
    = ring_scan cur tail (idx + length (rings_str pp r)) (conc a' cyc' ces')
    /\ ashape_ok a'
    /\ settled cur a' cyc' ces' = spec_rings r cur (settled cur a cyc ces).
Proof.
  induction r as [|[o m] t IH]; intros pp a cyc ces tail idx Hr Ha Hp.
  - exists a, cyc, ces. cbn. rewrite Nat.add_0_r. now destruct (settled cur a cyc ces).
  - cbn [forallb snd] in Hr. apply andb_prop in Hr as [Hm Ht].
    cbn [rings_str]. rewrite <- app_assoc.
    destruct (ring_one cur o m pp a cyc ces (rings_str (pct_form pp o m) t ++ tail) idx Hm Ha Hp)
      as (a1 & cyc1 & ces1 & E1 & Ha1 & Hp1 & S1).
    destruct (IH (pct_form pp o m) a1 cyc1 ces1 tail (idx + length (ring_str pp o m))%nat Ht Ha1 Hp1)
      as (a2 & cyc2 & ces2 & E2 & Ha2 & S2).
    exists a2, cyc2, ces2. split; [|split; [assumption|]].
    + rewrite E1, E2. f_equal. rewrite app_length. lia.
    + rewrite S2, S1. cbn [spec_rings]. now destruct (settled cur a cyc ces).
Qed.

(** a character that ends the look-ahead loop *)
Definition stopper (c : ascii) : Prop := is_digit c = false /\ Ascii.eqb c "%"%char = false /\ sto_mem c = false.
(** the whole look-ahead of one printed node: ring specifications, optional bond symbol, then a stopper *)
Lemma ring_scan_item cur r b c tl cyc :
  forallb (fun om => marker_ok (snd om)) r = true -> stopper c ->
  exists x, ring_scan cur (rings_str false r ++ osym_str b ++ c :: tl) 0 (clean_st cyc [])
            = Ok (x, length (rings_str false r ++ osym_str b))
            /\ (r_cyc x, r_ces x) = spec_rings r cur (cyc, []).
Proof.
  intros Hr (Hc1 & Hc2 & Hc3).
  destruct (ring_list cur r false AClean cyc [] (osym_str b ++ c :: tl) 0 Hr I eq_refl) as (a & cyc1 & ces1 & E & Ha & S).
  change (clean_st cyc []) with (conc AClean cyc []). rewrite E. cbn [settled] in S. cbn [plus].
  destruct b as [s|]; cbn [osym_str app].
  - rewrite settle_any by (apply sym_not_digit || assumption). rewrite clean_is_sym, scan_sym, scan_stop by assumption.
    eexists. split; [f_equal; f_equal; rewrite app_length; cbn; lia|]. cbn [sym_st r_cyc r_ces]. rewrite <- S.
    now destruct (settled cur a cyc1 ces1).
  - rewrite settle_any by assumption. rewrite clean_is_sym, scan_stop by assumption.
    eexists. split; [f_equal; f_equal; rewrite app_nil_r; lia|]. cbn [sym_st r_cyc r_ces]. rewrite <- S.
    now destruct (settled cur a cyc1 ces1).
Qed.
