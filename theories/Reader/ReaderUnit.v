(** ReaderUnit: BRANCH multipliers, unbounded, for the shape the current code gets right:
    a unit "anchor ( simple chain ) sym? |n sym?" on the top-level chain (not inside another branch),
    the multiplied branch being the first branch of its anchor, n >= 2, no ring marker and no nested
    branch inside the unit, node multipliers inside the unit only behind a single bond.
    Texts: any number of such units separated by flat strings (Reader/Lin.v).  The reader model on the
    SHORTHAND text computes what the token machine computes on the tokens of the LONGHAND
    ([sim_units]); numbering included. *)
From Coq Require Import String.
From Coq Require Import List Ascii ZArith Bool Lia.
From CGV Require Import Base.PyBase Base.PyVal Base.NxGraph Base.PyGen Gen.ReaderGen Dialect.DialectImpl
     Reader.ReaderImpl Reader.Grammar Reader.ReaderLemmas Reader.Lin Reader.GraphLemmas Reader.ReaderSim Reader.ReaderMult.
From CGV Require Export Reader.UnitsDefs.
Import ListNotations.
Open Scope Z_scope.


(** ** a node without ring markers, followed by an arbitrary stopper *)
Definition stail (m : option (list nat)) (b : option sym) : pystr := mult_str m ++ osym_str b.
Definition sn_ok (m : option (list nat)) (b : option sym) : Prop :=
  match m with Some ds => digits_ok ds = true /\ (1 <= digits_nat ds)%nat | None => True end.
Lemma stail_inner m b : sn_ok m b -> Forall inner (stail m b).
Proof.
  intros H. unfold stail. apply Forall_app; split; [|apply inner_osym].
  apply inner_mult. destruct m; [now destruct H|exact I].
Qed.
Definition sbo0 (m : option (list nat)) (b : option sym) : Z := match m with Some _ => default_bond_order | None => oord b end.
Lemma scan_simple m b c tl cur cyc : sn_ok m b -> stopper c ->
  exists x rdx, ring_scan cur (stail m b ++ c :: tl) 0 (clean_st cyc []) = Ok (x, rdx)
                /\ r_cyc x = cyc /\ r_ces x = [] /\ bond_expr (stail m b ++ c :: tl) rdx = Ok (sbo0 m b).
Proof.
  intros Hok Hs. unfold stail, sbo0. destruct m as [ds|].
  - cbn [mult_str app]. rewrite clean_is_sym, scan_stop by reflexivity. eexists _, _. repeat split.
  - cbn [mult_str app].
    destruct (ring_scan_item cur [] b c tl cyc eq_refl Hs) as (x & E & S). cbn [rings_str app spec_rings] in E, S.
    injection S as S1 S2. exists x, (length (osym_str b)). split; [exact E|]. split; [assumption|]. split; [assumption|].
    apply (bond_of_prefix [] b c tl eq_refl).
Qed.
Lemma nmon_simple m b h tl : sn_ok m b -> str_in [h] fnc_eon = true -> h <> "|"%char -> sto_mem h = false ->
  nmon_expr (stail m b ++ h :: tl) (sbo0 m b) = Ok (Z.of_nat (mult_val m), oord b).
Proof.
  intros Hok Hin Hnb Hsm. unfold stail, sbo0. destruct m as [ds|].
  - destruct Hok as (Hd & _). cbn [mult_str app mult_val]. destruct (digits_ok_all ds Hd) as [Hall _].
    assert (Hy : exists y ty, osym_str b ++ h :: tl = y :: ty /\ str_in [y] fnc_eon = true
                 /\ (if sto_mem y then symbol_to_order_lookup [y] else Ok default_bond_order) = Ok (oord b)).
    { destruct b as [s|]; cbn [osym_str app oord].
      - eexists _, _. split; [reflexivity|]. split; [apply sym_in_eon|]. now rewrite sym_mem, sym_lookup.
      - eexists _, _. split; [reflexivity|]. split; [assumption|]. now rewrite Hsm. }
    destruct Hy as (y & ty & Ey & Hyin & Hybo). rewrite <- app_assoc, Ey.
    unfold nmon_expr. change (Ascii.eqb "|"%char "|"%char) with true. cbv iota. rewrite fnc0_spec.
    rewrite (find_idx_count ds y ty Hall Hyin). cbn [bind].
    unfold py_slice. cbn [skipn]. replace (Datatypes.S (length ds) - 1)%nat with (length (digits_str ds)) by (unfold digits_str; rewrite map_length; lia).
    rewrite firstn_app, Nat.sub_diag, firstn_all. cbn [firstn]. rewrite app_nil_r. rewrite py_int_full_digits by assumption. cbn [bind].
    assert (En : nth_error ("|"%char :: digits_str ds ++ y :: ty) (Datatypes.S (length ds)) = Some y).
    { cbn [nth_error]. rewrite nth_error_app2 by (unfold digits_str; rewrite map_length; lia).
      unfold digits_str. rewrite map_length, Nat.sub_diag. reflexivity. }
    rewrite En, Hybo. reflexivity.
  - cbn [mult_str app mult_val]. unfold nmon_expr. destruct b as [s|]; cbn [osym_str app].
    + pose proof (nobar_sym s) as Hs. destruct (Ascii.eqb_spec (sym_char s) "|"%char); [contradiction|reflexivity].
    + destruct (Ascii.eqb_spec h "|"%char); [contradiction|reflexivity].
Qed.
Lemma look_simple m b h tl : sn_ok m b ->
  exists io ic, fnc0 (stail m b ++ h :: tl) fnc_next_open = Ok io /\ fnc0 (stail m b ++ h :: tl) fnc_next_close = Ok ic
                /\ (h = ")"%char -> Nat.ltb ic io = true) /\ (h = "["%char -> Nat.ltb ic io = false).
Proof.
  intros Hok. pose proof (stail_inner m b Hok) as Hp. rewrite !fnc0_spec.
  rewrite (find_idx_inner _ fnc_next_open Hp incl_open), (find_idx_inner _ fnc_next_close Hp incl_close).
  eexists _, _. split; [reflexivity|]. split; [reflexivity|]. split; intros ->; cbn [find_idx].
  - change (str_in [")"%char] fnc_next_close) with true. change (str_in [")"%char] fnc_next_open) with false. cbv iota.
    apply Nat.ltb_lt. lia.
  - change (str_in ["["%char] fnc_next_open) with true. cbv iota. apply Nat.ltb_ge. lia.
Qed.

(** ** what one iteration leaves in `attributes` and in the recipe table *)
Lemma node_step_attr fo st pc nm rest st1 : node_step fo st pc nm rest = Ok st1 ->
  exists a, parse_graph_base_node fo nm = Ok a /\ s_attributes st1 = Some a.
Proof.
  rewrite node_step_eq.
  destruct (opened st pc) as [[[br ba] rc]|]; cbn [bind]; [|discriminate].
  destruct (ring_scan (s_current st) rest 0 (clean_st (s_cycle st) [])) as [[rs rdx]|]; cbn [bind]; [|discriminate].
  destruct (bond_expr rest rdx) as [bo|]; cbn [bind]; [|discriminate].
  destruct (nmon_expr rest bo) as [[n bo2]|]; cbn [bind]; [|discriminate].
  destruct (parse_graph_base_node fo nm) as [a|]; cbn [bind]; [|discriminate].
  match goal with |- (bind ?m _ = _ -> _) => destruct m as [rc'|] end; cbn [bind]; [|discriminate].
  destruct (add_nodes _ _ _ _ _ _ _ _) as [[[[g cu] pn] pb]|]; cbn [bind]; [|discriminate].
  intros H. exists a. split; [reflexivity|]. apply close_all_attr in H. exact H.
Qed.
(** a node that does not close a branch: the recipe table afterwards *)
Lemma node_step_recipes fo st pc nm rest st1 io ic : node_step fo st pc nm rest = Ok st1 ->
  fnc0 rest fnc_next_open = Ok io -> fnc0 rest fnc_next_close = Ok ic -> Nat.ltb ic io = false ->
  exists n bo0 bo a br ba rc, nmon_expr rest bo0 = Ok (n, bo) /\ parse_graph_base_node fo nm = Ok a /\ opened st pc = Ok (br, ba, rc)
    /\ s_branch_anchor st1 = ba /\ s_branching st1 = br
    /\ s_recipes st1 = (if br then match rev ba with k :: _ => rec_append k (n, a, s_pbo st) rc | [] => rc end else rc).
Proof.
  intros H Eio Eic Elt. rewrite node_step_eq in H.
  destruct (opened st pc) as [[[br ba] rc]|]; cbn [bind] in H; [|discriminate].
  destruct (ring_scan (s_current st) rest 0 (clean_st (s_cycle st) [])) as [[rs rdx]|]; cbn [bind] in H; [|discriminate].
  destruct (bond_expr rest rdx) as [bo|]; cbn [bind] in H; [|discriminate].
  destruct (nmon_expr rest bo) as [[n bo2]|] eqn:En; cbn [bind] in H; [|discriminate].
  destruct (parse_graph_base_node fo nm) as [a|]; cbn [bind] in H; [|discriminate].
  exists n, bo, bo2, a, br, ba, rc. split; [exact En|]. split; [reflexivity|]. split; [reflexivity|].
  destruct br.
  - destruct (rev ba) as [|k0 r0]; cbn [bind] in H; [discriminate|].
    destruct (add_nodes _ _ _ _ _ _ _ _) as [[[[g cu] pn] pb]|]; cbn [bind] in H; [|discriminate].
    rewrite (close_all_stop _ _ io ic Eio Eic Elt) in H. injection H as <-. repeat split.
  - cbn [bind] in H. destruct (add_nodes _ _ _ _ _ _ _ _) as [[[[g cu] pn] pb]|]; cbn [bind] in H; [|discriminate].
    rewrite (close_all_stop _ _ io ic Eio Eic Elt) in H. injection H as <-. repeat split.
Qed.

(** ** closing a branch that carries a multiplier (lines 266-332) *)
Lemma oz_eqb_refl k : oz_eqb k k = true. Proof. destruct k; cbn; [apply Z.eqb_refl|reflexivity]. Qed.
Lemma nth_error_plus {A} (p r : list A) j : nth_error (p ++ r) (length p + j) = nth_error r j.
Proof. rewrite nth_error_app2 by lia. f_equal. lia. Qed.
Lemma skipn_plus {A} (p r : list A) j : skipn (length p + j) (p ++ r) = skipn j r.
Proof. rewrite skipn_app. rewrite skipn_all2 by lia. cbn [app]. f_equal. lia. Qed.
Lemma digit_not_eon_b d : (d < 10)%nat -> str_in [digit_char d] fnc_eon_b = false.
Proof. intros H. do 10 (destruct d as [|d]; [reflexivity|]). lia. Qed.
Lemma sym_in_eon_b s : str_in [sym_char s] fnc_eon_b = true. Proof. destruct s; reflexivity. Qed.
Lemma cont_head_b K : cont K -> exists h tl, K = h :: tl /\ str_in [h] fnc_eon_b = true /\ sto_mem h = false.
Proof. intros [| |]; eexists _, _; (split; [reflexivity|]); split; reflexivity. Qed.
Lemma stopk_head_b K : stopk K -> exists h tl, K = h :: tl /\ str_in [h] fnc_eon_b = true /\ sto_mem h = false.
Proof. intros (h & tl & -> & _ & _ & Hin & Hm). exists h, tl. repeat split; assumption. Qed.
Lemma find_idx_digits_b ds T : forallb (fun d => (d <? 10)%nat) ds = true ->
  (exists h tl, T = h :: tl /\ str_in [h] fnc_eon_b = true) ->
  find_idx (digits_str ds ++ T) fnc_eon_b = length ds.
Proof.
  intros Hd (h & tl & -> & Hh). induction ds as [|d r IH]; cbn [digits_str map app find_idx length].
  - now rewrite Hh.
  - cbn [forallb] in Hd. apply andb_prop in Hd as [H1 H2]. apply Nat.ltb_lt in H1.
    rewrite digit_not_eon_b by assumption. f_equal. now apply IH.
Qed.

Lemma find_idx_digits_end ds : forallb (fun d => (d <? 10)%nat) ds = true -> find_idx (digits_str ds ++ []) fnc_eon_b = length ds.
Proof.
  intros Hd. induction ds as [|d r IH]; cbn [digits_str map app find_idx length]; [reflexivity|].
  cbn [forallb] in Hd. apply andb_prop in Hd as [H1 H2]. apply Nat.ltb_lt in H1.
  rewrite digit_not_eon_b by assumption. f_equal. now apply IH.
Qed.
(** the text behind a multiplier: the end of the text, or a character that ends the count *)
Definition endk (K : pystr) : Prop := K = [] \/ stopk K.
Definition after_tail (after : option sym) (K : pystr) : pystr := osym_str after ++ K.
Lemma after_tail_head after K : cont K -> exists h tl, after_tail after K = h :: tl /\ str_in [h] fnc_eon_b = true.
Proof.
  intros HK. unfold after_tail. destruct after as [s|]; cbn [osym_str app].
  - eexists _, _. split; [reflexivity|apply sym_in_eon_b].
  - destruct (cont_head_b K HK) as (h & tl & -> & Hh & _). eauto.
Qed.

Lemma after_tail_head_k after K : stopk K -> exists h tl, after_tail after K = h :: tl /\ str_in [h] fnc_eon_b = true.
Proof.
  intros HK. unfold after_tail. destruct after as [s|]; cbn [osym_str app].
  - eexists _, _. split; [reflexivity|apply sym_in_eon_b].
  - destruct (stopk_head_b K HK) as (h & tl & -> & Hh & _). eauto.
Qed.
Definition mult_closed (st : rstate) (g : graph) (cur : Z) (prev : option Z) (base : option (option Z)) (after : option sym) : rstate :=
  {| s_g := g; s_current := cur; s_branch_anchor := []; s_recipes := []; s_prev_node := prev; s_branching := false;
     s_cycle := s_cycle st; s_pbo := (match after with Some s => Some (sym_ord s) | None => s_pbo st end);
     s_attributes := s_attributes st; s_base_anchor := base |}.

Lemma close_mult P ms ds after K st anchor n0 a0 o0 es :
  Forall inner P -> digits_ok ds = true -> cont K ->
  s_branch_anchor st = [anchor] -> s_recipes st = [(anchor, (n0, a0, o0) :: es)] ->
  close_branch (P ++ ")"%char :: osym_str ms ++ "|"%char :: digits_str ds ++ after_tail after K) 0 st
  = ('(g, cur, _, base) <- exp_times (digits_nat ds - 1)
                              [(anchor, (n0, a0, match ms with Some s => Some (sym_ord s) | None => o0 end) :: es)]
                              (s_g st) (s_current st) anchor (Some anchor) ;;
     prev <- of_option base EUnbound ;;
     Ok (mult_closed st g cur prev base after, Datatypes.S (length P))).
Proof.
  intros HP Hd HK Hba Hrc. destruct (digits_ok_all ds Hd) as [Hall Hne].
  destruct (after_tail_head after K HK) as (h & tl & ET & Hh).
  unfold close_branch. rewrite Hba. cbn [rev app]. change (fnc_from ?r ?c 0) with (fnc0 r c).
  rewrite fnc0_spec, (find_idx_inner _ fnc_eon_a HP incl_eon_a). cbn [find_idx].
  change (str_in [")"%char] fnc_eon_a) with true. cbv iota. rewrite Nat.add_0_r. cbn [bind].
  rewrite !nth_error_plus.
  set (D := digits_str ds) in *. set (T := after_tail after K) in *.
  assert (HlenD : length D = length ds) by (unfold D, digits_str; apply map_length).
  assert (Hfi : find_idx ("|"%char :: D ++ T) fnc_eon_b = Datatypes.S (length ds)).
  { cbn [find_idx]. change (str_in ["|"%char] fnc_eon_b) with false. cbv iota. f_equal. apply find_idx_digits_b; [assumption|]. eauto. }
  assert (Hcb : forall pbo, (match nth_error T 0 with
                             | Some cb => if sto_mem cb then o <- symbol_to_order_lookup [cb] ;; Ok (Some o) else Ok pbo
                             | None => Ok pbo end)
                            = Ok (match after with Some s => Some (sym_ord s) | None => pbo end)).
  { intros pbo. unfold T, after_tail. destruct after as [s|]; cbn [osym_str app nth_error].
    - now rewrite sym_mem, sym_lookup.
    - destruct (cont_head_b K HK) as (h' & tl' & -> & _ & Hm). cbn [nth_error]. now rewrite Hm. }
  assert (HN : Z.to_nat (Z.of_nat (digits_nat ds) - 1) = (digits_nat ds - 1)%nat) by lia.
  destruct ms as [s|]; cbn [osym_str app nth_error].
  - (* ")" sym "|" digits *)
    assert (E1 : Ascii.eqb (sym_char s) "|"%char = false) by (destruct s; reflexivity).
    cbn [ch_eq]. rewrite E1. change (Ascii.eqb "|"%char "|"%char) with true. rewrite sym_mem.
    cbn [orb andb of_option bind]. rewrite E1. cbn [negb].
    rewrite sym_lookup. cbn [bind]. rewrite Hrc. cbn [rec_get]. rewrite oz_eqb_refl. cbn [rec_set]. rewrite oz_eqb_refl.
    cbn [bind].
    rewrite fnc_from_spec by (rewrite app_length; cbn [length]; lia).
    replace (length P + 1 + 1)%nat with (length P + 2)%nat by lia. rewrite skipn_plus. cbn [skipn].
    rewrite Hfi. cbn [bind]. cbn [rec_from]. rewrite oz_eqb_refl. cbn [of_option bind].
    unfold py_slice. replace (length P + 1 + 2)%nat with (length P + 3)%nat by lia. rewrite skipn_plus. cbn [skipn].
    replace (length P + 2 + Datatypes.S (length ds) - (length P + 3))%nat with (length D) by lia.
    rewrite firstn_app, Nat.sub_diag, firstn_all. cbn [firstn]. rewrite app_nil_r.
    unfold D. rewrite py_int_full_digits by assumption. cbn [bind]. rewrite HN.
    destruct (exp_times _ _ _ _ _ _) as [[[[g cur] pn] base]|]; cbn [bind]; [|reflexivity].
    destruct base as [b|]; cbn [of_option bind]; [|reflexivity].
    replace (length P + 2 + Datatypes.S (length ds))%nat with (length P + (3 + length (digits_str ds)))%nat by (unfold digits_str; rewrite map_length; lia).
    rewrite nth_error_plus. cbn [plus nth_error]. rewrite nth_error_app2 by lia. rewrite Nat.sub_diag.
    fold D. fold T. rewrite Hcb. cbn [bind]. rewrite Nat.add_1_r. reflexivity.
  - (* ")" "|" digits *)
    cbn [ch_eq]. change (Ascii.eqb "|"%char "|"%char) with true. cbn [orb of_option bind].
    change (Ascii.eqb "|"%char "|"%char) with true. cbn [negb bind].
    rewrite fnc_from_spec by (rewrite app_length; cbn [length]; lia).
    rewrite skipn_plus. cbn [skipn]. rewrite Hfi. cbn [bind]. rewrite Hrc. cbn [rec_from]. rewrite oz_eqb_refl. cbn [of_option bind].
    unfold py_slice. rewrite skipn_plus. cbn [skipn].
    replace (length P + 1 + Datatypes.S (length ds) - (length P + 2))%nat with (length D) by lia.
    rewrite firstn_app, Nat.sub_diag, firstn_all. cbn [firstn]. rewrite app_nil_r.
    unfold D. rewrite py_int_full_digits by assumption. cbn [bind]. rewrite HN.
    destruct (exp_times _ _ _ _ _ _) as [[[[g cur] pn] base]|]; cbn [bind]; [|reflexivity].
    destruct base as [b|]; cbn [of_option bind]; [|reflexivity].
    match goal with |- context [nth_error (P ++ ?R) ?n] =>
      replace n with (length P + (2 + length (digits_str ds)))%nat
        by (unfold digits_str; rewrite map_length; lia) end.
    rewrite nth_error_plus. cbn [plus nth_error]. rewrite nth_error_app2 by lia. rewrite Nat.sub_diag.
    fold D. fold T. rewrite Hcb. cbn [bind]. rewrite Nat.add_1_r. reflexivity.
Qed.

(** behind the multiplier nothing closes before the next node *)
Lemma mult_tail_no_close ms ds after K : digits_ok ds = true -> cont K ->
  Nat.ltb (find_idx (osym_str ms ++ "|"%char :: digits_str ds ++ after_tail after K) fnc_next_close)
          (find_idx (osym_str ms ++ "|"%char :: digits_str ds ++ after_tail after K) fnc_next_open) = false.
Proof.
  intros Hd HK.
  assert (HQ : Forall inner (osym_str ms ++ "|"%char :: digits_str ds ++ osym_str after)).
  { apply Forall_app; split; [apply inner_osym|]. constructor; [reflexivity|].
    apply Forall_app; split; [apply inner_digits; now apply digits_ok_all|apply inner_osym]. }
  assert (E : osym_str ms ++ "|"%char :: digits_str ds ++ after_tail after K
            = (osym_str ms ++ "|"%char :: digits_str ds ++ osym_str after) ++ K).
  { unfold after_tail. rewrite <- !app_assoc. cbn [app]. now rewrite <- !app_assoc. }
  rewrite E, (find_idx_inner _ fnc_next_open HQ incl_open), (find_idx_inner _ fnc_next_close HQ incl_close).
  pose proof (cont_no_close None K HK) as H. cbn [osym_str app] in H. apply Nat.ltb_ge. apply Nat.ltb_ge in H. lia.
Qed.
Lemma close_all_mult P ms ds after K st anchor n0 a0 o0 es :
  Forall inner P -> digits_ok ds = true -> cont K ->
  s_branch_anchor st = [anchor] -> s_recipes st = [(anchor, (n0, a0, o0) :: es)] ->
  close_all (P ++ ")"%char :: osym_str ms ++ "|"%char :: digits_str ds ++ after_tail after K) st
  = ('(g, cur, _, base) <- exp_times (digits_nat ds - 1)
                              [(anchor, (n0, a0, match ms with Some s => Some (sym_ord s) | None => o0 end) :: es)]
                              (s_g st) (s_current st) anchor (Some anchor) ;;
     prev <- of_option base EUnbound ;;
     Ok (mult_closed st g cur prev base after)).
Proof.
  intros HP Hd HK Hba Hrc. rewrite close_all_first by assumption.
  rewrite (close_mult P ms ds after K st anchor n0 a0 o0 es HP Hd HK Hba Hrc).
  destruct (exp_times _ _ _ _ _ _) as [[[[g cur] pn] base]|]; cbn [bind]; [|reflexivity].
  destruct base as [b|]; cbn [of_option bind]; [|reflexivity].
  apply close_loop_stop_after. now apply mult_tail_no_close.
Qed.

(** ** the expansion loop with a single recipe *)
Fixpoint copies_run (n : nat) (recipe : list recipe_entry) (g : graph) (cur : Z) (prev : option Z)
         (base : option (option Z)) : res (graph * Z * option Z * option (option Z)) :=
  match n with
  | O => Ok (g, cur, prev, base)
  | Datatypes.S n' => '(g1, c1, _) <- eb_recipe recipe g cur prev ;; copies_run n' recipe g1 c1 (Some cur) (Some (Some cur))
  end.
Lemma exp_times_single anchor e es : forall n g cur prev base,
  exp_times n [(anchor, e :: es)] g cur prev base = copies_run n (e :: es) g cur prev base.
Proof.
  induction n as [|n IH]; intros g cur prev base; [reflexivity|].
  cbn [exp_times copies_run exp_items pa_truthy pa_is_none]. cbn [bind]. unfold expand_branch.
  destruct (eb_recipe (e :: es) g cur prev) as [[[g1 c1] p1]|]; cbn [bind]; [|reflexivity]. apply IH.
Qed.

(** ** the machine on the longhand copies *)
Definition bnode_toks (b : bnode) : list tok := TNode (bn_name b) (mult_val (bn_mult b)) :: osym_tok (bn_bond b).
Definition body_toks (body : list bnode) : list tok := flat_map bnode_toks body.
(** the recipe entries the reader records for the body, [inc] = order of the bond reaching the first node *)
Fixpoint body_entries (fo : float_oracle) (inc : Z) (body : list bnode) : option (list recipe_entry) :=
  match body with
  | [] => Some []
  | b :: r =>
      match parse_graph_base_node fo (bn_name b), body_entries fo (oord (bn_bond b)) r with
      | Ok a, Some es => Some ((Z.of_nat (mult_val (bn_mult b)), a, Some inc) :: es)
      | _, _ => None
      end
  end.
(** side conditions of body nodes: names and counts *)
Lemma sn_okb_ok m b : sn_okb m b = true -> sn_ok m b.
Proof.
  unfold sn_okb, sn_ok. destruct m; [|trivial]. intros H. apply andb_prop in H as [H1 H2].
  apply Nat.leb_le in H2. split; assumption.
Qed.

Lemma eb_nodes_copies : forall n a o g cur p, ahas (S "node_for_adding") a = false ->
  eb_nodes n a (Some o) g cur (Some p) = Ok (m_copies n a g cur (Some p) o).
Proof.
  induction n as [|n IH]; intros a o g cur p Ha; [reflexivity|].
  cbn [eb_nodes m_copies]. unfold py_add_node. rewrite Ha. cbn [bind of_option].
  change (order_attr (Some o)) with (eorder o). now rewrite (IH a 1 _ (cur + 1) cur Ha).
Qed.
Lemma name_ok_ahas fo nm a : name_ok fo nm = true -> parse_graph_base_node fo nm = Ok a -> ahas (S "node_for_adding") a = false.
Proof. unfold name_ok. intros H E. rewrite E in H. apply andb_prop in H as [_ H]. now destruct (ahas _ a). Qed.

Definition mk_m (g : graph) (next : Z) (prev : option Z) (pend : Z) (stack : list (option Z)) (rings : ringtab) : mstate :=
  {| m_g := g; m_next := next; m_prev := prev; m_pend := pend; m_stack := stack; m_rings := rings |}.
Lemma m_copies_some n a : forall g cur p pend, exists g' nx p', m_copies n a g cur (Some p) pend = (g', nx, Some p').
Proof.
  induction n as [|n IH]; intros g cur p pend; [eexists _, _, _; reflexivity|]. cbn [m_copies]. apply IH.
Qed.
(** the body of one copy, up to and including the closing parenthesis *)
Lemma m_body_close fo : forall body es g next p inc top stk rings ts,
  body_entries fo inc body = Some es -> body_ok fo inc body = true ->
  m_run fo (body_toks body ++ TClose :: ts) (mk_m g next (Some p) inc (top :: stk) rings)
  = match eb_recipe es g next (Some p) with
    | Ok (g1, c1, _) => m_run fo ts (mk_m g1 c1 top 1 stk rings)
    | Err e => Err e
    end.
Proof.
  induction body as [|b r IH]; intros es g next p inc top stk rings ts He Hok.
  - cbn in He. injection He as <-. reflexivity.
  - cbn [body_entries] in He. destruct (parse_graph_base_node fo (bn_name b)) as [a|] eqn:Ea; [|discriminate].
    destruct (body_entries fo (oord (bn_bond b)) r) as [es'|] eqn:Er; [|discriminate]. injection He as <-.
    cbn [body_ok] in Hok. apply andb_prop in Hok as [Hok Hr]. apply andb_prop in Hok as [Hn Hs].
    cbn [body_toks flat_map]. fold (body_toks r). unfold bnode_toks. rewrite <- !app_assoc. cbn [app].
    cbn [m_run m_step mk_m m_g m_next m_prev m_pend m_stack m_rings].
    rewrite Ea. cbn [bind eb_recipe]. rewrite Nat2Z.id.
    rewrite (eb_nodes_copies _ a inc g next p (name_ok_ahas fo _ a Hn Ea)).
    destruct (m_copies_some (mult_val (bn_mult b)) a g next p inc) as (g' & nx & p' & Ec). rewrite Ec. cbn [bind].
    assert (Eb : forall ts0, m_run fo (osym_tok (bn_bond b) ++ ts0) (mk_m g' nx (Some p') 1 (top :: stk) rings)
                 = m_run fo ts0 (mk_m g' nx (Some p') (oord (bn_bond b)) (top :: stk) rings)).
    { intros ts0. destruct (bn_bond b); reflexivity. }
    unfold mk_m in Eb. rewrite Eb. apply (IH es' g' nx p' _ top stk rings ts Er Hr).
Qed.

(** ** units *)
Definition copy_toks (u : unit_t) : list tok :=
  osym_tok (u_ms u) ++ TNode (u_name u) 1 :: osym_tok (u_bond u) ++ TOpen :: body_toks (u_body u) ++ [TClose].

Lemma m_copy fo u aA es g next p stack rings ts :
  parse_graph_base_node fo (u_name u) = Ok aA -> name_ok fo (u_name u) = true ->
  body_entries fo (oord (u_bond u)) (u_body u) = Some es -> body_ok fo (oord (u_bond u)) (u_body u) = true ->
  m_run fo (copy_toks u ++ ts) (mk_m g next (Some p) 1 stack rings)
  = match eb_recipe ((1, aA, Some (oord (u_ms u))) :: es) g next (Some p) with
    | Ok (g1, c1, _) => m_run fo ts (mk_m g1 c1 (Some next) 1 stack rings)
    | Err e => Err e
    end.
Proof.
  intros Ea Hn He Hok. unfold copy_toks. rewrite <- !app_assoc.
  assert (Ems : forall ts0, m_run fo (osym_tok (u_ms u) ++ ts0) (mk_m g next (Some p) 1 stack rings)
                = m_run fo ts0 (mk_m g next (Some p) (oord (u_ms u)) stack rings)).
  { intros ts0. destruct (u_ms u); reflexivity. }
  rewrite Ems. cbn [app m_run m_step mk_m m_g m_next m_prev m_pend m_stack m_rings]. rewrite Ea. cbn [bind m_copies].
  cbn [eb_recipe Z.to_nat]. change (Pos.to_nat 1) with 1%nat. cbn [eb_nodes]. unfold py_add_node.
  rewrite (name_ok_ahas fo _ aA Hn Ea). cbn [bind of_option].
  change (order_attr (Some (oord (u_ms u)))) with (eorder (oord (u_ms u))).
  set (g' := add_edge (add_node g next aA) p next (eorder (oord (u_ms u)))).
  rewrite <- !app_assoc.
  assert (Eb : forall ts0, m_run fo (osym_tok (u_bond u) ++ ts0) (mk_m g' (next + 1) (Some next) 1 stack rings)
               = m_run fo ts0 (mk_m g' (next + 1) (Some next) (oord (u_bond u)) stack rings)).
  { intros ts0. destruct (u_bond u); reflexivity. }
  unfold mk_m in Eb. rewrite Eb. cbn [app m_run m_step m_g m_next m_prev m_pend m_stack m_rings bind].
  rewrite <- app_assoc. cbn [app].
  exact (m_body_close fo (u_body u) es g' (next + 1) next (oord (u_bond u)) (Some next) stack rings ts He Hok).
Qed.

Lemma m_copies_all fo u aA es stack rings ts :
  parse_graph_base_node fo (u_name u) = Ok aA -> name_ok fo (u_name u) = true ->
  body_entries fo (oord (u_bond u)) (u_body u) = Some es -> body_ok fo (oord (u_bond u)) (u_body u) = true ->
  forall n g next p base,
  m_run fo (concat (repeat (copy_toks u) n) ++ ts) (mk_m g next (Some p) 1 stack rings)
  = match copies_run n ((1, aA, Some (oord (u_ms u))) :: es) g next (Some p) base with
    | Ok (g1, c1, prev1, _) => m_run fo ts (mk_m g1 c1 prev1 1 stack rings)
    | Err e => Err e
    end.
Proof.
  intros Ea Hn He Hok. induction n as [|n IH]; intros g next p base; [reflexivity|].
  cbn [repeat concat copies_run]. rewrite <- app_assoc. rewrite (m_copy fo u aA es g next p stack rings _ Ea Hn He Hok).
  destruct (eb_recipe _ g next (Some p)) as [[[g1 c1] p1]|]; cbn [bind]; [|reflexivity]. apply IH.
Qed.

(** ** the last node of a multiplied branch: node loop, then the expansion *)
Definition unit_done (st : rstate) (a : attrs) (g : graph) (cur : Z) (prev : option Z) (base : option (option Z))
           (after : option sym) : rstate :=
  {| s_g := g; s_current := cur; s_branch_anchor := []; s_recipes := []; s_prev_node := prev; s_branching := false;
     s_cycle := s_cycle st; s_pbo := (match after with Some s => Some (sym_ord s) | None => Some 1 end);
     s_attributes := Some a; s_base_anchor := base |}.
Lemma rec_append_single k e l : rec_append k e [(k, l)] = [(k, l ++ [e])].
Proof. unfold rec_append. cbn [rec_get rec_set]. now rewrite oz_eqb_refl. Qed.

Lemma node_step_mult fo st pc nm m ms ds after K ak n0 a0 o0 es p pend :
  opened st pc = Ok (true, [Some ak], [(Some ak, (n0, a0, o0) :: es)]) ->
  s_prev_node st = Some p -> s_pbo st = Some pend ->
  name_ok fo nm = true -> sn_ok m None -> digits_ok ds = true -> cont K ->
  node_step fo st pc nm (stail m None ++ ")"%char :: osym_str ms ++ "|"%char :: digits_str ds ++ after_tail after K)
  = (a <- parse_graph_base_node fo nm ;;
     let '(g2, nx, pv) := m_copies (mult_val m) a (s_g st) (s_current st) (Some p) pend in
     '(g3, c3, _, base) <- copies_run (digits_nat ds - 1)
                             ((n0, a0, match ms with Some s => Some (sym_ord s) | None => o0 end)
                                :: es ++ [(Z.of_nat (mult_val m), a, Some pend)])
                             g2 nx (Some ak) (Some (Some ak)) ;;
     prev <- of_option base EUnbound ;;
     Ok (unit_done st a g3 c3 prev base after)).
Proof.
  intros Hop Hp Hpb Hn Hs Hd HK. rewrite node_step_eq, Hop. cbn [bind].
  destruct (scan_simple m None ")"%char (osym_str ms ++ "|"%char :: digits_str ds ++ after_tail after K)
              (s_current st) (s_cycle st) Hs ltac:(repeat split)) as (xr & rdx & Es & Ec & Ece & Eb).
  rewrite Es. cbn [bind]. rewrite Eb. cbn [bind].
  rewrite (nmon_simple m None ")"%char _ Hs eq_refl ltac:(discriminate) eq_refl). cbn [bind oord]. rewrite Nat2Z.id.
  destruct (parse_graph_base_node fo nm) as [a|e] eqn:Ea; cbn [bind]; [|reflexivity].
  cbn [rev app]. rewrite rec_append_single. cbn [bind]. rewrite Ece, Hp, Hpb.
  assert (Hn1 : (1 <= mult_val m)%nat) by (unfold mult_val; destruct m; [now destruct Hs as (_ & ?)|lia]).
  rewrite (add_nodes_copies (mult_val m) a 1 (s_g st) (s_current st) (Some p) (Some pend) pend
             (name_ok_ahas fo nm a Hn Ea)) by (intros _ ? _; reflexivity).
  destruct (m_copies (mult_val m) a (s_g st) (s_current st) (Some p) pend) as [[g2 nx] pv] eqn:Ecp. cbn [bind].
  match goal with |- context [close_all _ ?S] =>
    rewrite (close_all_mult (stail m None) ms ds after K S (Some ak) n0 a0 o0 (es ++ [(Z.of_nat (mult_val m), a, Some pend)])
               (stail_inner m None Hs) Hd HK eq_refl eq_refl) end.
  cbn [s_g s_current s_base_anchor].
  rewrite exp_times_single.
  destruct (copies_run _ _ g2 nx (Some ak) (Some (Some ak))) as [[[[g3 c3] pn] base]|]; cbn [bind]; [|reflexivity].
  destruct base as [b|]; cbn [of_option bind]; [|reflexivity].
  unfold mult_closed, unit_done. cbn [s_cycle s_pbo s_attributes]. rewrite Ec.
  destruct (mult_val m); [lia|]. reflexivity.
Qed.

(** ** body nodes as flat items *)
Definition bnode_str (b : bnode) : pystr := "["%char :: "#"%char :: bn_name b ++ "]"%char :: stail (bn_mult b) (bn_bond b).
Definition blin (first : bool) (b : bnode) : lin :=
  {| l_open := first; l_name := bn_name b; l_mult := bn_mult b; l_rings := []; l_bond := bn_bond b; l_close := None |}.
Lemma blin_tail first b : lin_tail_str (blin first b) = stail (bn_mult b) (bn_bond b).
Proof. unfold lin_tail_str, stail. cbn. now rewrite app_nil_r. Qed.
Lemma blin_toks first b : lin_toks (blin first b) = (if first then [TOpen] else []) ++ bnode_toks b.
Proof. unfold lin_toks, bnode_toks. cbn. now rewrite app_nil_r. Qed.
Lemma blin_ok fo first b : name_ok fo (bn_name b) = true -> sn_okb (bn_mult b) (bn_bond b) = true -> lin_ok fo (blin first b) = true.
Proof.
  intros Hn Hs. unfold lin_ok. cbn [blin l_name l_rings l_mult l_bond l_close forallb is_nil]. rewrite Hn. cbn [andb].
  unfold sn_okb in Hs. destruct (bn_mult b); [|reflexivity]. apply andb_prop in Hs as [H1 H2].
  now rewrite H1, H2.
Qed.
Lemma copies_run_base r : forall n g cur p g' c' prev' base',
  copies_run n r g cur (Some p) (Some (Some p)) = Ok (g', c', prev', base') -> base' = Some prev' /\ prev' <> None.
Proof.
  induction n as [|n IH]; intros g cur p g' c' prev' base' H.
  - cbn in H. injection H as <- <- <- <-. split; [reflexivity|discriminate].
  - cbn [copies_run] in H. destruct (eb_recipe r g cur (Some p)) as [[[g1 c1] p1]|]; cbn [bind] in H; [|discriminate].
    apply (IH _ _ _ _ _ _ _ H).
Qed.
Lemma rec_set_empty k v : rec_set k v [] = [(k, v)]. Proof. reflexivity. Qed.

(** ** the body of a unit, node by node *)
Definition closing_str (u : unit_t) : pystr :=
  ")"%char :: osym_str (u_ms u) ++ "|"%char :: digits_str (u_count u) ++ osym_str (u_after u).
Definition last_bond_none (body : list bnode) : Prop := match rev body with b :: _ => bn_bond b = None | [] => True end.
Lemma last_bond_cons b b' r : last_bond_none (b :: b' :: r) -> last_bond_none (b' :: r).
Proof.
  unfold last_bond_none. cbn [rev]. destruct (rev r ++ [b']) as [|z t] eqn:E; [destruct (rev r); discriminate|]. cbn [app]. tauto.
Qed.
Lemma closing_skipch u : digits_ok (u_count u) = true -> Forall skipch (closing_str u).
Proof.
  intros Hd. unfold closing_str. constructor; [split; discriminate|].
  apply Forall_app; split; [eapply Forall_impl; [|apply inner_osym]; apply inner_skipch|].
  constructor; [split; discriminate|]. apply Forall_app; split.
  - eapply Forall_impl; [|apply inner_digits; now apply digits_ok_all]. apply inner_skipch.
  - eapply Forall_impl; [|apply inner_osym]. apply inner_skipch.
Qed.
Lemma stail_skipch m b : sn_ok m b -> Forall skipch (stail m b).
Proof. intros H. eapply Forall_impl; [|now apply stail_inner]. apply inner_skipch. Qed.

Lemma closing_K u K : closing_str u ++ K
  = ")"%char :: osym_str (u_ms u) ++ "|"%char :: digits_str (u_count u) ++ after_tail (u_after u) K.
Proof. unfold closing_str, after_tail. cbn [app]. rewrite <- !app_assoc. cbn [app]. now rewrite <- !app_assoc. Qed.

Lemma node_attrs_has g k a : node_attrs g k = Ok a -> has_node g k = true.
Proof. unfold node_attrs, has_node. now destruct (gfind k g). Qed.
Lemma nmon_n rest b1 b2 n1 o1 n2 o2 : nmon_expr rest b1 = Ok (n1, o1) -> nmon_expr rest b2 = Ok (n2, o2) -> n1 = n2.
Proof.
  unfold nmon_expr. destruct rest as [|c r]; [intros H1 H2; injection H1 as <- _; injection H2 as <- _; reflexivity|].
  destruct (Ascii.eqb c "|"%char); [|intros H1 H2; injection H1 as <- _; injection H2 as <- _; reflexivity].
  destruct (fnc0 (c :: r) fnc_eon) as [eon|]; cbn [bind]; [|discriminate].
  destruct (py_int_full _) as [n|]; cbn [bind]; [|discriminate].
  destruct (nth_error (c :: r) eon) as [cb|].
  - destruct (sto_mem cb).
    + destruct (symbol_to_order_lookup [cb]); cbn [bind]; [|discriminate]. intros H1 H2. injection H1 as <- _. injection H2 as <- _. reflexivity.
    + cbn [bind]. intros H1 H2. injection H1 as <- _. injection H2 as <- _. reflexivity.
  - cbn [bind]. intros H1 H2. injection H1 as <- _. injection H2 as <- _. reflexivity.
Qed.

Section UnitBody.
  Variables (fo : float_oracle) (u : unit_t) (ak : Z) (a0 : attrs) (K : pystr).
  Hypothesis Hpa : parse_graph_base_node fo (u_name u) = Ok a0.
  Hypothesis Hna : name_ok fo (u_name u) = true.
  Hypothesis Hbo : body_ok fo (oord (u_bond u)) (u_body u) = true.
  Hypothesis Hd : digits_ok (u_count u) = true.
  Hypothesis HN : (1 <= digits_nat (u_count u))%nat.
  Hypothesis HK : cont K.

  Definition rest_toks : list tok :=
    TClose :: concat (repeat (copy_toks u) (digits_nat (u_count u) - 1)) ++ osym_tok (u_after u).

  Lemma unit_body : forall body (first : bool) st x pre pc f es0,
    body <> [] -> Rel st x ->
    (if first then m_stack x = [] /\ m_prev x = Some ak /\ s_recipes st = [] /\ node_attrs (m_g x) ak = Ok a0 /\ es0 = []
     else m_stack x = [Some ak] /\ m_prev x <> None /\ s_recipes st = [(Some ak, (1, a0, Some 1) :: es0)]) ->
    Ascii.eqb (last pre pc) "("%char = first -> Forall nob pre ->
    body_ok fo (m_pend x) body = true -> last_bond_none body ->
    (forall es_rest, body_entries fo (m_pend x) body = Some es_rest ->
                     body_entries fo (oord (u_bond u)) (u_body u) = Some (es0 ++ es_rest)) ->
    match m_run fo ((if first then [TOpen] else []) ++ body_toks body ++ rest_toks) x with
    | Ok x1 => exists st1 pre1,
        main_loop (length body + f) fo pc (pre ++ flat_map bnode_str body ++ closing_str u ++ K) st
        = main_loop f fo "]"%char (pre1 ++ K) st1
        /\ Forall skipch pre1 /\ Rel st1 x1 /\ s_recipes st1 = [] /\ m_stack x1 = [] /\ m_prev x1 <> None
    | Err e => main_loop (length body + f) fo pc (pre ++ flat_map bnode_str body ++ closing_str u ++ K) st = Err e
    end.
  Proof.
    induction body as [|b body IH]; intros first st x pre pc f es0 Hne HR Hfirst Hpc Hpre Hok Hlast Hlink; [contradiction|].
    cbn [body_ok] in Hok. apply andb_prop in Hok as [Hok Hokr]. apply andb_prop in Hok as [Hnm Hsn].
    pose proof (sn_okb_ok _ _ Hsn) as Hs.
    set (RT := stail (bn_mult b) (bn_bond b) ++ flat_map bnode_str body ++ closing_str u ++ K).
    assert (Eloop : main_loop (length (b :: body) + f) fo pc (pre ++ flat_map bnode_str (b :: body) ++ closing_str u ++ K) st
                  = (st0 <- node_step fo st (last pre pc) (bn_name b) RT ;; main_loop (length body + f) fo "]"%char RT st0)).
    { cbn [length plus main_loop flat_map]. unfold bnode_str at 1. rewrite <- !app_assoc. cbn [app]. rewrite <- !app_assoc.
      rewrite next_node_skip by assumption. cbn [app]. rewrite next_node_here by (now apply (name_chars fo)). reflexivity. }
    rewrite Eloop. clear Eloop.
    destruct HR as (Rg & Rc & Rp & Rcy & Rba & Rbr & Rpb).
    (* the state in front of the node *)
    assert (Hprev : exists p, m_prev x = Some p) by (destruct first; [exists ak; tauto|destruct (m_prev x); [eauto|tauto]]).
    destruct Hprev as (p & Ep). destruct (Rpb p Ep) as (Epb & Eat).
    assert (Hop : opened st (last pre pc) = Ok (true, [Some ak], [(Some ak, (1, a0, Some 1) :: es0)])).
    { unfold opened. rewrite Hpc. destruct first.
      - destruct Hfirst as (Es & Epk & Erc & Eatt & ->). rewrite Rp, Epk, Rg, Eatt. cbn [bind]. rewrite Rba, Es, Erc. reflexivity.
      - destruct Hfirst as (Es & _ & Erc). rewrite Rbr, Rba, Es, Erc. reflexivity. }
    destruct body as [|b' r].
    - (* the last node of the branch *)
      unfold last_bond_none in Hlast. cbn in Hlast. rewrite Hlast in *.
      unfold RT. rewrite Hlast. cbn [flat_map app]. rewrite closing_K.
      rewrite (node_step_mult fo st (last pre pc) (bn_name b) (bn_mult b) (u_ms u) (u_count u) (u_after u) K ak 1 a0 (Some 1) es0 p (m_pend x)
                 Hop (eq_trans Rp Ep) Epb Hnm Hs Hd HK).
      (* the machine *)
      assert (Em : forall ts, m_run fo ((if first then [TOpen] else []) ++ ts) x
                   = m_run fo ts (mk_m (m_g x) (m_next x) (Some p) (m_pend x) [Some ak] (m_rings x))).
      { intros ts. destruct first.
        - destruct Hfirst as (Es & Epk & _). cbn [app m_run m_step bind]. rewrite Es, Ep. unfold mk_m. rewrite Epk in Ep. now injection Ep as <-.
        - destruct Hfirst as (Es & _). cbn [app]. unfold mk_m. rewrite <- Es, <- Ep. now destruct x. }
      rewrite Em. cbn [body_toks flat_map]. unfold bnode_toks. rewrite ?Hlast. cbn [osym_tok app].
      cbn [m_run m_step mk_m m_g m_next m_prev m_pend m_stack m_rings].
      destruct (parse_graph_base_node fo (bn_name b)) as [a|e] eqn:Ea; cbn [bind]; [|reflexivity].
      rewrite Rg, Rc.
      destruct (m_copies (mult_val (bn_mult b)) a (m_g x) (m_next x) (Some p) (m_pend x)) as [[g2 nx] pv] eqn:Ecp. cbn [bind].
      unfold rest_toks. cbn [m_run m_step m_stack m_g m_next m_prev m_pend m_rings bind].
      assert (Hent : body_entries fo (oord (u_bond u)) (u_body u) = Some (es0 ++ [(Z.of_nat (mult_val (bn_mult b)), a, Some (m_pend x))])).
      { apply Hlink. cbn [body_entries]. now rewrite Ea. }
      pose proof (m_copies_all fo u a0 _ [] (m_rings x) (osym_tok (u_after u)) Hpa Hna Hent Hbo
                    (digits_nat (u_count u) - 1) g2 nx ak (Some (Some ak))) as Hall.
      unfold mk_m in Hall. rewrite Hall. clear Hall.
      assert (Eao : match u_ms u with Some s => Some (sym_ord s) | None => Some 1 end = Some (oord (u_ms u))) by (now destruct (u_ms u)).
      rewrite Eao.
      destruct (copies_run (digits_nat (u_count u) - 1) _ g2 nx (Some ak) (Some (Some ak))) as [[[[g3 c3] pn] base]|] eqn:Ecr; cbn [bind]; [|reflexivity].
      destruct (copies_run_base _ _ _ _ _ _ _ _ _ Ecr) as (-> & Hpn). cbn [of_option bind].
      assert (Ea' : forall ts0 st0, m_run fo (osym_tok (u_after u) ++ ts0) st0
                 = m_run fo ts0 {| m_g := m_g st0; m_next := m_next st0; m_prev := m_prev st0;
                                   m_pend := (match u_after u with Some s => sym_ord s | None => m_pend st0 end);
                                   m_stack := m_stack st0; m_rings := m_rings st0 |}).
      { intros ts0 st0. destruct (u_after u); [reflexivity|]. now destruct st0. }
      rewrite <- (app_nil_r (osym_tok (u_after u))), Ea'. cbn [m_run m_g m_next m_prev m_pend m_stack m_rings].
      eexists _, (stail (bn_mult b) None ++ ")"%char :: osym_str (u_ms u) ++ "|"%char :: digits_str (u_count u) ++ osym_str (u_after u)).
      split.
      { unfold after_tail. cbn [length plus]. repeat (rewrite <- app_assoc; cbn [app]). reflexivity. }
      split.
      { apply Forall_app; split; [now apply stail_skipch|]. now apply (closing_skipch u). }
      split; [|split; [reflexivity|split; [reflexivity|exact Hpn]]].
      unfold Rel, unit_done. cbn. repeat split; try assumption; [destruct (u_after u); reflexivity|discriminate].
    - (* a node in the middle of the branch *)
      set (k := flat_map bnode_str (b' :: r) ++ closing_str u ++ K).
      assert (Hk : cont k) by (unfold k; cbn [flat_map]; unfold bnode_str at 1; cbn [app]; constructor).
      pose proof (blin_ok fo first b Hnm Hsn) as Hokb.
      assert (ERT : RT = lin_tail_str (blin first b) ++ k) by (unfold RT, k; now rewrite blin_tail).
      rewrite ERT.
      assert (Hopn : l_open (blin first b) = true -> exists p0, m_prev x = Some p0 /\ has_node (m_g x) p0 = true).
      { cbn [blin l_open]. intros Hf1. rewrite Hf1 in Hfirst. destruct Hfirst as (_ & Epk & _ & Eatt & _).
        exists ak. split; [exact Epk|]. now apply (node_attrs_has _ _ a0). }
      pose proof (node_step_lin fo (blin first b) k st x (last pre pc) Hokb Hk
                    (conj Rg (conj Rc (conj Rp (conj Rcy (conj Rba (conj Rbr Rpb)))))) Hpc Hopn ltac:(cbn; intros C; now elim C)) as Hstep.
      change (l_name (blin first b)) with (bn_name b) in Hstep.
      assert (Em : m_run fo ((if first then [TOpen] else []) ++ body_toks (b :: b' :: r) ++ rest_toks) x
                 = (x1 <- item_effect fo (blin first b) x ;; m_run fo (body_toks (b' :: r) ++ rest_toks) x1)).
      { rewrite <- (m_item fo (blin first b) _ x Hokb). rewrite blin_toks. cbn [body_toks flat_map]. now rewrite <- !app_assoc. }
      rewrite Em. clear Em.
      destruct (item_effect fo (blin first b) x) as [x1|e] eqn:Eeff; cbn [bind].
      + destruct Hstep as (st1 & Est & HR1 & _). rewrite Est. cbn [bind].
        (* the machine state and the recipe table after the node *)
        unfold item_effect in Eeff. cbn [blin l_name l_open l_mult l_rings l_bond l_close] in Eeff.
        destruct (parse_graph_base_node fo (bn_name b)) as [a|] eqn:Ea; [|discriminate]. cbn [bind spec_rings snd fst add_cycle_edges] in Eeff.
        rewrite Ep in Eeff.
        destruct (m_copies_some (mult_val (bn_mult b)) a (m_g x) (m_next x) p (m_pend x)) as (g2 & nx & p' & Ecp).
        rewrite Ecp in Eeff. cbn [bind] in Eeff. injection Eeff as <-.
        destruct (look_lin fo (blin first b) k Hokb Hk) as (io & ic & Eio & Eic & Elt). cbn [blin l_close is_some] in Elt.
        destruct (node_step_recipes fo st (last pre pc) (bn_name b) _ st1 io ic Est Eio Eic Elt)
          as (n & bo0 & bo1 & a' & br & ba & rc & En & Ea2 & Eop & Eba & Ebr & Erc).
        rewrite Hop in Eop. injection Eop as <- <- <-. rewrite Ea in Ea2. injection Ea2 as <-.
        pose proof (nmon_n _ _ _ _ _ _ _ En (nmon_lin fo (blin first b) k Hokb (cont_stopper k Hk))) as Enn. subst n. cbn [blin l_mult] in Erc.
        cbn [rev app] in Erc. rewrite rec_append_single, Epb in Erc.
        set (x1 := {| m_g := g2; m_next := nx; m_prev := Some p'; m_pend := oord (bn_bond b);
                      m_stack := (if first then Some p :: m_stack x else m_stack x); m_rings := m_rings x |}) in *.
        assert (Estk : m_stack x1 = [Some ak]).
        { unfold x1. cbn [m_stack]. destruct first.
          - destruct Hfirst as (Es & Epk & _). rewrite Es. rewrite Epk in Ep. now injection Ep as <-.
          - now destruct Hfirst as (Es & _). }
        specialize (IH false st1 x1 (stail (bn_mult b) (bn_bond b)) "]"%char f (es0 ++ [(Z.of_nat (mult_val (bn_mult b)), a, Some (m_pend x))])
                       ltac:(discriminate) HR1).
        cbn [app m_pend] in IH. unfold x1 in IH at 1. cbn [m_pend] in IH.
        assert (Hpc1 : Ascii.eqb (last (stail (bn_mult b) (bn_bond b)) "]"%char) "("%char = false).
        { apply Ascii.eqb_neq. apply last_skipch; [now apply stail_skipch|discriminate]. }
        assert (Hf1 : m_stack x1 = [Some ak] /\ m_prev x1 <> None
                      /\ s_recipes st1 = [(Some ak, (1, a0, Some 1) :: es0 ++ [(Z.of_nat (mult_val (bn_mult b)), a, Some (m_pend x))])]).
        { split; [exact Estk|]. split; [unfold x1; cbn [m_prev]; discriminate|]. rewrite Erc. reflexivity. }
        specialize (IH Hf1 Hpc1 (skipch_nob _ (stail_skipch _ _ Hs)) Hokr (last_bond_cons _ _ _ Hlast)).
        assert (Hlink1 : forall es_rest, body_entries fo (oord (bn_bond b)) (b' :: r) = Some es_rest ->
                   body_entries fo (oord (u_bond u)) (u_body u)
                   = Some ((es0 ++ [(Z.of_nat (mult_val (bn_mult b)), a, Some (m_pend x))]) ++ es_rest)).
        { intros es_rest Her. rewrite <- app_assoc. apply Hlink. cbn [body_entries]. rewrite Ea.
          cbn [body_entries] in Her. rewrite Her. reflexivity. }
        specialize (IH Hlink1). rewrite blin_tail. unfold k. exact IH.
      + rewrite Hstep. reflexivity.
  Qed.
End UnitBody.

(** ** every step of the machine keeps its graph well formed *)
Lemma rt_del_forall (P : Z * (Z * Z) -> Prop) m t : Forall P t -> Forall P (rt_del m t).
Proof. rewrite rt_del_cyc. apply cyc_del_forall. Qed.
Lemma m_step_mwf fo x t x1 : m_step fo x t = Ok x1 -> mwf x -> mwf x1.
Proof.
  intros E [Hf Hp Hs Hr]. destruct t as [nm n|o m|s| |]; cbn [m_step] in E.
  - destruct (parse_graph_base_node fo nm) as [a|]; cbn [bind] in E; [|discriminate].
    destruct (m_copies n a (m_g x) (m_next x) (m_prev x) (m_pend x)) as [[g2 nx] pv] eqn:Ec. injection E as <-.
    destruct (m_copies_nodes _ _ _ _ _ _ _ _ _ Hp Ec) as (Enx & Hg2 & Epv).
    assert (Hmono : forall k, has_node (m_g x) k = true -> has_node g2 k = true) by (intros k Hk; rewrite Hg2, Hk; reflexivity).
    split; cbn [m_g m_next m_prev m_stack m_rings].
    + intros k Hk. rewrite Hg2 in Hk. apply orb_prop in Hk as [Hk|Hk]; [specialize (Hf k Hk); lia|].
      apply andb_prop in Hk as [_ Hk]. apply Z.ltb_lt in Hk. lia.
    + destruct n as [|n].
      * cbn in Ec. injection Ec as <- <- <-. exact Hp.
      * intros p Ep. rewrite Epv in Ep by lia. injection Ep as <-. rewrite Hg2.
        apply orb_true_iff. right. apply andb_true_iff. split; [apply Z.leb_le|apply Z.ltb_lt]; lia.
    + eapply Forall_impl; [|exact Hs]. intros o0 Ho p Ep. apply Hmono. now apply Ho.
    + eapply Forall_impl; [|exact Hr]. intros e He. now apply Hmono.
  - destruct (m_prev x) as [cur|] eqn:Ep; [|discriminate]. pose proof (Hp cur eq_refl) as Hcur.
    rewrite rt_get_cyc in E. destruct (cyc_get m (m_rings x)) as [[n0 o0]|] eqn:Eg.
    + destruct (has_edge (m_g x) cur n0); [discriminate|]. injection E as <-.
      assert (Hn0 : has_node (m_g x) n0 = true).
      { apply cyc_get_in in Eg. rewrite Forall_forall in Hr. apply (Hr _ Eg). }
      assert (Hk : forall k, has_node (add_edge (m_g x) cur n0 (eorder o0)) k = has_node (m_g x) k).
      { intros k. rewrite has_node_add_edge. destruct (Z.eqb_spec cur k) as [->|]; [now rewrite Hcur|].
        destruct (Z.eqb_spec n0 k) as [->|]; [now rewrite Hn0|]. now rewrite !orb_false_r. }
      split; cbn.
      * intros k Hk0. rewrite Hk in Hk0. now apply Hf.
      * intros p Ep0. rewrite Hk. now apply Hp.
      * eapply Forall_impl; [|exact Hs]. intros o1 Ho p Ep0. rewrite Hk. now apply Ho.
      * apply rt_del_forall. eapply Forall_impl; [|exact Hr]. intros e He. now rewrite Hk.
    + injection E as <-. split; cbn; try assumption. apply Forall_app; split; [assumption|]. constructor; [exact Hcur|constructor].
  - injection E as <-. split; assumption.
  - injection E as <-. split; cbn; try assumption. constructor; assumption.
  - destruct (m_stack x) as [|top stk] eqn:Es; [discriminate|]. injection E as <-. inversion Hs; subst. split; cbn; assumption.
Qed.
Lemma m_run_mwf fo : forall ts x x1, m_run fo ts x = Ok x1 -> mwf x -> mwf x1.
Proof.
  induction ts as [|t r IH]; intros x x1 E Hw; [cbn in E; now injection E as <-|].
  cbn [m_run] in E. destruct (m_step fo x t) as [x2|] eqn:E2; cbn [bind] in E; [|discriminate].
  apply (IH x2 x1 E). now apply (m_step_mwf fo x t).
Qed.
(** the attribute dict of the last copy of a node that was just added *)
Lemma m_copies_attrs : forall n a g next prev pend g' nx last,
  (forall k, has_node g k = true -> k < next) -> exists_in g prev ->
  m_copies (Datatypes.S n) a g next prev pend = (g', nx, Some last) -> node_attrs g' last = Ok a.
Proof.
  induction n as [|n IH]; intros a g next prev pend g' nx last Hf Hp E; cbn [m_copies] in E.
  - injection E as <- _ <-.
    assert (Hnew : has_node g next = false).
    { destruct (has_node g next) eqn:Hn; [|reflexivity]. specialize (Hf next Hn). lia. }
    destruct prev as [p|].
    + rewrite node_attrs_add_edge by (rewrite has_node_add_node, Z.eqb_refl; apply orb_true_r). now apply node_attrs_add_node_new.
    + now apply node_attrs_add_node_new.
  - set (g2 := match prev with Some p => add_edge (add_node g next a) p next (eorder pend) | None => add_node g next a end) in *.
    assert (Hg2 : forall k, has_node g2 k = has_node g k || Z.eqb next k).
    { intros k. unfold g2. destruct prev as [p|].
      - rewrite has_node_add_edge, has_node_add_node. specialize (Hp p eq_refl).
        destruct (Z.eqb_spec p k) as [->|]; [rewrite Hp; now destruct (next =? k)|]. now destruct (has_node g k), (next =? k).
      - apply has_node_add_node. }
    apply (IH a g2 (next + 1) (Some next) 1 g' nx last); [| |exact E].
    + intros k Hk. rewrite Hg2 in Hk. apply orb_prop in Hk as [Hk|Hk]; [specialize (Hf k Hk); lia|]. apply Z.eqb_eq in Hk. lia.
    + intros p Ep. injection Ep as <-. rewrite Hg2, Z.eqb_refl. apply orb_true_r.
Qed.

(** ** a whole unit: anchor, branch, multiplier *)
Definition unit_str (u : unit_t) : pystr :=
  "["%char :: "#"%char :: u_name u ++ "]"%char :: stail (u_mult u) (u_bond u) ++ "("%char :: flat_map bnode_str (u_body u) ++ closing_str u.
Definition unit_toks (u : unit_t) : list tok :=
  TNode (u_name u) (mult_val (u_mult u)) :: osym_tok (u_bond u) ++ TOpen :: body_toks (u_body u)
  ++ TClose :: concat (repeat (copy_toks u) (digits_nat (u_count u) - 1)) ++ osym_tok (u_after u).
Definition unit_ok (fo : float_oracle) (u : unit_t) : bool :=
  name_ok fo (u_name u) && sn_okb (u_mult u) (u_bond u) && negb (is_nil (u_body u))
  && body_ok fo (oord (u_bond u)) (u_body u)
  && match rev (u_body u) with b :: _ => negb (is_some (bn_bond b)) | [] => false end
  && digits_ok (u_count u) && (1 <=? digits_nat (u_count u))%nat.
Definition unit_nodes (u : unit_t) : nat := Datatypes.S (length (u_body u)).

Lemma unit_sim fo u K : unit_ok fo u = true -> cont K ->
  forall st x pre pc f, Rel st x -> mwf x -> m_stack x = [] -> s_recipes st = [] ->
  Forall skipch pre -> pc <> "("%char ->
  match m_run fo (unit_toks u) x with
  | Ok x1 => exists st1 pre1,
      main_loop (unit_nodes u + f) fo pc (pre ++ unit_str u ++ K) st = main_loop f fo "]"%char (pre1 ++ K) st1
      /\ Forall skipch pre1 /\ Rel st1 x1 /\ s_recipes st1 = [] /\ m_stack x1 = [] /\ m_prev x1 <> None
  | Err e => main_loop (unit_nodes u + f) fo pc (pre ++ unit_str u ++ K) st = Err e
  end.
Proof.
  intros Hok HK st x pre pc f HR Hw Hstk Hrc Hpre Hpc. unfold unit_ok in Hok.
  apply andb_prop in Hok as [Hok HN]. apply andb_prop in Hok as [Hok Hd]. apply andb_prop in Hok as [Hok Hlb].
  apply andb_prop in Hok as [Hok Hbo]. apply andb_prop in Hok as [Hok Hne]. apply andb_prop in Hok as [Hna Hsn].
  apply Nat.leb_le in HN.
  set (A := blin false {| bn_name := u_name u; bn_mult := u_mult u; bn_bond := u_bond u |}).
  assert (HokA : lin_ok fo A = true) by (now apply blin_ok).
  assert (Hbne : u_body u <> []) by (destruct (u_body u); [discriminate|discriminate]).
  set (k := "("%char :: flat_map bnode_str (u_body u) ++ closing_str u ++ K).
  assert (Hk : cont k).
  { unfold k. destruct (u_body u) as [|b0 r0]; [contradiction|]. cbn [flat_map]. unfold bnode_str at 1. cbn [app]. constructor. }
  assert (Etext : pre ++ unit_str u ++ K = pre ++ "["%char :: "#"%char :: u_name u ++ "]"%char :: (lin_tail_str A ++ k)).
  { unfold unit_str, k, A. rewrite blin_tail. cbn [bn_mult bn_bond]. f_equal. cbn [app]. f_equal. f_equal.
    repeat (rewrite <- app_assoc; cbn [app]). reflexivity. }
  rewrite Etext. unfold unit_nodes. cbn [plus main_loop].
  rewrite next_node_skip by (now apply skipch_nob). rewrite next_node_here by (now apply (name_chars fo)).
  assert (Hpc' : Ascii.eqb (last pre pc) "("%char = l_open A) by (cbn; apply Ascii.eqb_neq; now apply last_skipch).
  pose proof (node_step_lin fo A k st x (last pre pc) HokA Hk HR Hpc' ltac:(cbn; discriminate) ltac:(cbn; intros C; now elim C)) as Hstep.
  change (l_name A) with (u_name u) in Hstep.
  assert (Em : m_run fo (unit_toks u) x
             = (x1 <- item_effect fo A x ;; m_run fo ([TOpen] ++ body_toks (u_body u) ++ rest_toks u) x1)).
  { rewrite <- (m_item fo A _ x HokA). unfold A. rewrite blin_toks. unfold unit_toks, bnode_toks, rest_toks. cbn [bn_name bn_mult bn_bond app].
    reflexivity. }
  rewrite Em. clear Em.
  destruct (item_effect fo A x) as [x1|e] eqn:Eeff; cbn [bind]; [|now rewrite Hstep].
  destruct Hstep as (st1 & Est & HR1 & Hrc1). rewrite Est. cbn [bind].
  destruct (node_step_attr fo st _ _ _ st1 Est) as (a0 & Ea0 & Eat).
  (* the machine state behind the anchor *)
  unfold item_effect in Eeff. cbn [A blin l_name l_open l_mult l_rings l_bond l_close bn_name bn_mult bn_bond] in Eeff.
  rewrite Ea0 in Eeff. cbn [bind spec_rings snd fst add_cycle_edges] in Eeff.
  assert (Hn1 : (1 <= mult_val (u_mult u))%nat).
  { pose proof (sn_okb_ok _ _ Hsn) as Hs. unfold mult_val. destruct (u_mult u); [now destruct Hs as (_ & ?)|lia]. }
  destruct (m_copies_prev (mult_val (u_mult u)) a0 (m_g x) (m_next x) (m_prev x) (m_pend x) Hn1) as (g2 & nx & ak & Ecp & _).
  rewrite Ecp in Eeff. cbn [bind] in Eeff. injection Eeff as <-.
  set (x1 := {| m_g := g2; m_next := nx; m_prev := Some ak; m_pend := oord (u_bond u); m_stack := m_stack x; m_rings := m_rings x |}) in *.
  assert (Hrc1' : s_recipes st1 = []) by (apply Hrc1; [exact Hstk|intros _; exact Hrc]).
  assert (Hlb' : last_bond_none (u_body u)).
  { unfold last_bond_none. destruct (rev (u_body u)) as [|z t]; [exact I|]. now destruct (bn_bond z). }
  pose proof (unit_body fo u ak a0 K Ea0 Hna Hbo Hd HK (u_body u) true st1 x1
                (stail (u_mult u) (u_bond u) ++ ["("%char]) "]"%char f [] Hbne HR1) as Hbody.
  assert (Hattr : node_attrs g2 ak = Ok a0).
  { destruct (mult_val (u_mult u)) as [|n0]; [lia|].
    apply (m_copies_attrs n0 a0 (m_g x) (m_next x) (m_prev x) (m_pend x) g2 nx ak (w_fresh x Hw) (w_prev x Hw) Ecp). }
  assert (Hf1 : m_stack x1 = [] /\ m_prev x1 = Some ak /\ s_recipes st1 = [] /\ node_attrs (m_g x1) ak = Ok a0 /\ (@nil recipe_entry) = []).
  { repeat split; try assumption. }
  specialize (Hbody Hf1). clear Hf1.
  assert (Hp1 : Ascii.eqb (last (stail (u_mult u) (u_bond u) ++ ["("%char]) "]"%char) "("%char = true) by (now rewrite last_last).
  assert (Hnob : Forall nob (stail (u_mult u) (u_bond u) ++ ["("%char])).
  { apply Forall_app; split; [apply skipch_nob; apply stail_skipch; now apply sn_okb_ok|repeat constructor; discriminate]. }
  specialize (Hbody Hp1 Hnob Hbo Hlb' ltac:(intros es_rest H; exact H)).
  cbn [app] in Hbody.
  assert (Etl : lin_tail_str A ++ k = (stail (u_mult u) (u_bond u) ++ ["("%char]) ++ flat_map bnode_str (u_body u) ++ closing_str u ++ K).
  { unfold A, k. rewrite blin_tail. cbn [bn_mult bn_bond]. rewrite <- app_assoc. reflexivity. }
  rewrite Etl. exact Hbody.
Qed.

(** ** texts made of flat items and units *)
Inductive seg := SPlain (i : lin) | SUnit (u : unit_t).
Definition seg_str (s : seg) : pystr := match s with SPlain i => lin_str i | SUnit u => unit_str u end.
Definition seg_toks (s : seg) : list tok := match s with SPlain i => lin_toks i | SUnit u => unit_toks u end.
Definition segs_str (l : list seg) : pystr := flat_map seg_str l.
Definition segs_toks (l : list seg) : list tok := flat_map seg_toks l.
Definition seg_nodes (s : seg) : nat := match s with SPlain _ => 1%nat | SUnit u => unit_nodes u end.
Fixpoint segs_nodes (l : list seg) : nat := match l with [] => O | s :: t => (seg_nodes s + segs_nodes t)%nat end.
(** parentheses of the flat items balance; units stand at depth 0 *)
Fixpoint seg_depth (d : nat) (l : list seg) : bool :=
  match l with
  | [] => true
  | SPlain i :: t =>
      let d1 := if l_open i then Datatypes.S d else d in
      match l_close i with
      | Some _ => match d1 with O => false | Datatypes.S d2 => seg_depth d2 t end
      | None => seg_depth d1 t
      end
  | SUnit _ :: t => Nat.eqb d 0 && seg_depth O t
  end.
Definition seg_ok (fo : float_oracle) (s : seg) : bool := match s with SPlain i => lin_ok fo i | SUnit u => unit_ok fo u end.
Definition segs_ok (fo : float_oracle) (l : list seg) : bool :=
  forallb (seg_ok fo) l && seg_depth O l && match l with SPlain i :: _ => negb (l_open i) | _ => true end.

Lemma cont_segs l : cont (segs_str l ++ ["}"%char]).
Proof.
  destruct l as [|[i|u] t]; [constructor| |]; cbn [segs_str flat_map seg_str].
  - unfold lin_str. destruct (l_open i); cbn [app]; rewrite <- ?app_assoc; cbn [app]; constructor.
  - unfold unit_str. cbn [app]. constructor.
Qed.

Theorem sim_segs fo : forall l st x pre pc f,
  forallb (seg_ok fo) l = true -> seg_depth (length (m_stack x)) l = true ->
  Rel st x -> all_some (m_stack x) -> mwf x -> (m_stack x = [] -> s_recipes st = []) ->
  (m_prev x = None -> match l with SPlain i :: _ => l_open i = false | _ => True end) ->
  Forall skipch pre -> pc <> "("%char ->
  match m_run fo (segs_toks l) x with
  | Ok x1 => exists st1, main_loop (segs_nodes l + Datatypes.S f) fo pc (pre ++ segs_str l ++ ["}"%char]) st = Ok st1 /\ Rel st1 x1
  | Err e => main_loop (segs_nodes l + Datatypes.S f) fo pc (pre ++ segs_str l ++ ["}"%char]) st = Err e
  end.
Proof.
  induction l as [|[i|u] t IH]; intros st x pre pc f Hok Hd HR Hs Hw Hinv Hfirst Hpre Hpc.
  - cbn [segs_toks flat_map m_run segs_str app segs_nodes plus main_loop]. exists st. split; [|assumption].
    rewrite next_node_skip by (now apply skipch_nob). now rewrite next_node_single.
  - (* a flat item: as in [sim_loop] *)
    cbn [forallb seg_ok] in Hok. apply andb_prop in Hok as [Hoki Hokt].
    cbn [segs_toks flat_map seg_toks]. fold (segs_toks t). rewrite (m_item fo i (segs_toks t) x Hoki).
    cbn [segs_str flat_map seg_str segs_nodes seg_nodes plus]. fold (segs_str t).
    set (k := segs_str t ++ ["}"%char]).
    assert (Hk : cont k) by apply cont_segs.
    destruct (lin_ok_parts fo i Hoki) as (Hn & _).
    set (opn := if l_open i then ["("%char] else []).
    assert (Etext : pre ++ (lin_str i ++ segs_str t) ++ ["}"%char]
                  = (pre ++ opn) ++ "["%char :: "#"%char :: l_name i ++ "]"%char :: (lin_tail_str i ++ k)).
    { unfold lin_str, k, opn. rewrite <- !app_assoc. cbn [app]. rewrite <- !app_assoc. reflexivity. }
    rewrite Etext. cbn [main_loop].
    assert (Hopn : Forall nob (pre ++ opn)).
    { apply Forall_app; split; [now apply skipch_nob|]. unfold opn. destruct (l_open i); repeat constructor. discriminate. }
    rewrite next_node_skip by assumption. rewrite next_node_here by (now apply (name_chars fo)).
    assert (Hpc' : Ascii.eqb (last (pre ++ opn) pc) "("%char = l_open i).
    { unfold opn. destruct (l_open i).
      - rewrite last_last. reflexivity.
      - rewrite app_nil_r. apply Ascii.eqb_neq. now apply last_skipch. }
    assert (Hop : l_open i = true -> m_prev x <> None).
    { intros Ho Hn0. specialize (Hfirst Hn0). cbn in Hfirst. congruence. }
    assert (Hop2 : l_open i = true -> exists p, m_prev x = Some p /\ has_node (m_g x) p = true).
    { intros Ho. specialize (Hop Ho). destruct (m_prev x) as [p|] eqn:Ep; [|contradiction]. exists p. split; [reflexivity|].
      apply (w_prev x Hw). exact Ep. }
    assert (Hst : l_close i <> None -> (if l_open i then m_prev x :: m_stack x else m_stack x) <> []).
    { intros Hc. cbn [seg_depth] in Hd. destruct (l_open i); [discriminate|].
      destruct (l_close i); [|contradiction]. destruct (m_stack x); [discriminate|discriminate]. }
    pose proof (node_step_lin fo i k st x _ Hoki Hk HR Hpc' Hop2 Hst) as Hstep.
    destruct (item_effect fo i x) as [x1|e] eqn:Eeff; cbn [bind]; [|now rewrite Hstep].
    destruct Hstep as (st1 & -> & HR1 & Hrc1). cbn [bind].
    pose proof (item_effect_mwf fo i x x1 Hoki Eeff Hw) as Hw1.
    destruct (item_effect_inv fo i x x1 Hoki Eeff Hs Hop) as (Hs1 & Hp1 & Hd1).
    assert (Hdt : seg_depth (length (m_stack x1)) t = true).
    { cbn [seg_depth] in Hd. cbv zeta in Hd1. destruct (l_close i); rewrite Hd1 in Hd; exact Hd. }
    unfold k. apply (IH st1 x1 (lin_tail_str i) "]"%char f Hokt Hdt HR1 Hs1 Hw1).
    + intros E. now apply Hrc1.
    + intros Hn0. contradiction.
    + now apply (lin_tail_skipch fo).
    + discriminate.
  - (* a unit *)
    cbn [forallb seg_ok] in Hok. apply andb_prop in Hok as [Hoku Hokt].
    cbn [seg_depth] in Hd. apply andb_prop in Hd as [Hd0 Hdt]. apply Nat.eqb_eq in Hd0.
    assert (Hstk : m_stack x = []) by (destruct (m_stack x); [reflexivity|discriminate]).
    cbn [segs_toks flat_map seg_toks]. fold (segs_toks t). rewrite m_run_app.
    cbn [segs_str flat_map seg_str segs_nodes seg_nodes]. fold (segs_str t).
    set (K := segs_str t ++ ["}"%char]).
    assert (HK : cont K) by apply cont_segs.
    pose proof (unit_sim fo u K Hoku HK st x pre pc (segs_nodes t + Datatypes.S f) HR Hw Hstk (Hinv Hstk) Hpre Hpc) as Hu.
    replace (unit_nodes u + segs_nodes t + Datatypes.S f)%nat with (unit_nodes u + (segs_nodes t + Datatypes.S f))%nat by lia.
    rewrite <- app_assoc. fold K.
    destruct (m_run fo (unit_toks u) x) as [x1|e] eqn:Erun; cbn [bind]; [|exact Hu].
    destruct Hu as (st1 & pre1 & -> & Hpre1 & HR1 & Hrc1 & Hstk1 & Hp1).
    pose proof (m_run_mwf fo _ x x1 Erun Hw) as Hw1.
    unfold K. apply (IH st1 x1 pre1 "]"%char f Hokt); try assumption.
    + now rewrite Hstk1.
    + rewrite Hstk1. constructor.
    + intros _. exact Hrc1.
    + intros Hn0. contradiction.
    + discriminate.
Qed.

Lemma seg_str_length s : (seg_nodes s <= length (seg_str s))%nat.
Proof.
  destruct s as [i|u]; cbn [seg_nodes seg_str].
  - unfold lin_str. rewrite app_length. cbn [length]. lia.
  - unfold unit_str, unit_nodes. repeat (rewrite app_length || cbn [length]).
    assert (H : (length (u_body u) <= length (flat_map bnode_str (u_body u)))%nat).
    { induction (u_body u) as [|b r IHr]; [cbn; lia|]. cbn [flat_map length]. rewrite app_length. unfold bnode_str at 1. cbn [length]. lia. }
    lia.
Qed.
Lemma segs_str_length l : (segs_nodes l <= length (segs_str l))%nat.
Proof.
  induction l as [|s t IH]; [cbn; lia|]. cbn [segs_nodes segs_str flat_map]. rewrite app_length. fold (segs_str t).
  pose proof (seg_str_length s). lia.
Qed.

(** ** the theorem: shorthand text with multiplied branches = longhand tokens *)
Definition denote_segs (fo : float_oracle) (l : list seg) : res graph := m_finish (m_run fo (segs_toks l) m_init).
Theorem reader_sim_segs fo l : segs_ok fo l = true ->
  read_cgsmiles fo ("{"%char :: segs_str l ++ ["}"%char]) = denote_segs fo l.
Proof.
  unfold segs_ok. intros H. apply andb_prop in H as [H Hfirst]. apply andb_prop in H as [Hok Hd].
  unfold read_cgsmiles, denote_segs, m_finish.
  assert (Elast : last ("{"%char :: segs_str l ++ ["}"%char]) " "%char = "}"%char).
  { change ("{"%char :: segs_str l ++ ["}"%char]) with (("{"%char :: segs_str l) ++ ["}"%char]). apply last_last. }
  rewrite Elast.
  assert (HR : Rel init_state m_init) by (unfold Rel; cbn; repeat split; discriminate).
  pose proof (segs_str_length l) as Hlen.
  set (f := (length (segs_str l) + 2 - segs_nodes l)%nat).
  assert (Ef : Datatypes.S (length ("{"%char :: segs_str l ++ ["}"%char])) = (segs_nodes l + Datatypes.S f)%nat).
  { cbn [length]. rewrite app_length. cbn [length]. unfold f. lia. }
  rewrite Ef.
  pose proof (sim_segs fo l init_state m_init ["{"%char] "}"%char f Hok Hd HR (Forall_nil _) mwf_init (fun _ => eq_refl)) as Hsim.
  cbn [app] in Hsim.
  assert (H1 : m_prev m_init = None -> match l with SPlain i :: _ => l_open i = false | _ => True end).
  { intros _. destruct l as [|[i|u] t]; try exact I. now destruct (l_open i). }
  specialize (Hsim H1 ltac:(repeat constructor; discriminate) ltac:(discriminate)).
  destruct (m_run fo (segs_toks l) m_init) as [x1|e].
  - destruct Hsim as (st1 & -> & (Rg & _ & _ & Rcy & _)). cbn [bind]. rewrite Rcy, Rg. reflexivity.
  - rewrite Hsim. reflexivity.
Qed.
Print Assumptions reader_sim_segs.
