(** ReaderUnit: BRANCH multipliers, unbounded, for the shape the current code gets right:
    a unit "anchor ( simple chain ) sym? |n sym?" on the top-level chain (not inside another branch),
    the multiplied branch being the first branch of its anchor, n >= 2, no ring marker and no nested
    branch inside the unit, node multipliers inside the unit only behind a single bond.
    Texts: any number of such units separated by flat strings (Reader/Lin.v).  The reader model on the
    SHORTHAND text computes what the token machine computes on the tokens of the LONGHAND
    ([sim_units]); numbering included. *)
From Coq Require Import String.
From Coq Require Import List Ascii ZArith Bool Lia.
From CGV Require Import Base.PyBase Base.PyVal Base.NxGraph Base.PyGen Gen.ReaderGen Dialect.DialectImpl
     Reader.ReaderImpl Reader.Grammar Reader.ReaderLemmas Reader.Lin Reader.ReaderSim Reader.ReaderMult.
Import ListNotations.
Open Scope Z_scope.

(** ** _find_next_character from a position *)
Lemma py_for_find_off : forall (F : unit -> Z * pystr -> res (loopres Z unit)) chars off,
  (forall st idx tok, F st (idx, tok) = if str_in tok chars then Ok (RReturn (idx + off)%Z) else Ok (RNext tt)) ->
  forall (s : pystr) (k : nat),
  py_for (combine (map (fun i => (0 + Z.of_nat i)%Z) (seq k (length (map (fun c_ => [c_]) s)))) (map (fun c_ => [c_]) s)) tt F
  = Ok (if (find_idx s chars <? length s)%nat then RReturn (Z.of_nat (k + find_idx s chars) + off) else RNext tt).
Proof.
  intros F chars off HF. induction s as [|c r IH]; intros k.
  - reflexivity.
  - cbn [map length seq combine py_for find_idx]. rewrite HF.
    destruct (str_in [c] chars) eqn:E.
    + cbn. rewrite Nat.add_0_r. reflexivity.
    + cbn [bind ret]. rewrite IH. f_equal.
      change (length (c :: r)) with (Datatypes.S (length r)).
      destruct (find_idx r chars <? length r)%nat eqn:L.
      * assert (H : (Datatypes.S (find_idx r chars) <? Datatypes.S (length r))%nat = true)
          by (apply Nat.ltb_lt; apply Nat.ltb_lt in L; lia).
        rewrite H. f_equal. lia.
      * assert (H : (Datatypes.S (find_idx r chars) <? Datatypes.S (length r))%nat = false)
          by (apply Nat.ltb_ge; apply Nat.ltb_ge in L; lia).
        rewrite H. reflexivity.
Qed.
Lemma fnc_from_spec s chars k : (k <= length s)%nat -> fnc_from s chars k = Ok (k + find_idx (skipn k s) chars)%nat.
Proof.
  intros Hk. unfold fnc_from, find_next_character, unwrap_return, py_slice_from_z, enumerate_from.
  cbn [bind ret].
  assert (E0 : (Z.of_nat k <? 0) = false) by (apply Z.ltb_ge; lia). rewrite E0. rewrite Nat2Z.id.
  cbn [bind ret].
  rewrite (py_for_find_off _ chars (Z.of_nat k)) by (intros st idx tok; reflexivity). cbn [bind ret].
  pose proof (find_idx_le (skipn k s) chars) as Hle. rewrite skipn_length in *.
  destruct (find_idx (skipn k s) chars <? length s - k)%nat eqn:L; cbn [bind ret].
  - f_equal. lia.
  - apply Nat.ltb_ge in L. f_equal. lia.
Qed.

(** ** a node without ring markers, followed by an arbitrary stopper *)
Definition stail (m : option (list nat)) (b : option sym) : pystr := mult_str m ++ osym_str b.
Definition sn_ok (m : option (list nat)) (b : option sym) : Prop :=
  match m with Some ds => digits_ok ds = true /\ (1 <= digits_nat ds)%nat /\ b = None | None => True end.
Lemma stail_inner m b : sn_ok m b -> Forall inner (stail m b).
Proof.
  intros H. unfold stail. apply Forall_app; split; [|apply inner_osym].
  apply inner_mult. destruct m; [now destruct H|exact I].
Qed.
Lemma scan_simple m b c tl cur cyc : sn_ok m b -> stopper c ->
  exists x rdx, ring_scan cur (stail m b ++ c :: tl) 0 (clean_st cyc []) = Ok (x, rdx)
                /\ r_cyc x = cyc /\ r_ces x = [] /\ bond_expr (stail m b ++ c :: tl) rdx = Ok (oord b).
Proof.
  intros Hok Hs. unfold stail. destruct m as [ds|].
  - destruct Hok as (_ & _ & ->). cbn [mult_str osym_str app]. rewrite app_nil_r.
    rewrite clean_is_sym, scan_stop by reflexivity. eexists _, _. repeat split.
  - cbn [mult_str app].
    destruct (ring_scan_item cur [] b c tl cyc eq_refl Hs) as (x & E & S). cbn [rings_str app spec_rings] in E, S.
    injection S as S1 S2. exists x, (length (osym_str b)). split; [exact E|]. split; [assumption|]. split; [assumption|].
    apply (bond_of_prefix [] b c tl eq_refl).
Qed.
Lemma nmon_simple m b h tl : sn_ok m b -> str_in [h] fnc_eon = true -> h <> "|"%char ->
  nmon_expr (stail m b ++ h :: tl) = Ok (Z.of_nat (mult_val m)).
Proof.
  intros Hok Hin Hnb. unfold stail. destruct m as [ds|].
  - destruct Hok as (Hd & _ & ->). cbn [mult_str osym_str app mult_val]. rewrite app_nil_r.
    unfold nmon_expr. change (Ascii.eqb "|"%char "|"%char) with true. cbv iota. rewrite fnc0_spec.
    assert (Hin1 : Forall inner ("|"%char :: digits_str ds))
      by (constructor; [apply inner_bar|apply inner_digits; now apply digits_ok_all]).
    change ("|"%char :: digits_str ds ++ h :: tl) with (("|"%char :: digits_str ds) ++ h :: tl).
    rewrite (find_idx_inner _ fnc_eon Hin1 incl_eon). cbn [find_idx]. rewrite Hin. cbn [bind]. rewrite Nat.add_0_r. cbn [length].
    unfold py_slice. cbn [app skipn]. replace (Datatypes.S (length (digits_str ds)) - 1)%nat with (length (digits_str ds)) by lia.
    rewrite firstn_app, Nat.sub_diag, firstn_all. cbn [firstn]. rewrite app_nil_r. now apply py_int_full_digits.
  - cbn [mult_str app mult_val]. unfold nmon_expr. destruct b as [s|]; cbn [osym_str app].
    + pose proof (nobar_sym s) as Hs. destruct (Ascii.eqb_spec (sym_char s) "|"%char); [contradiction|reflexivity].
    + destruct (Ascii.eqb_spec h "|"%char); [contradiction|reflexivity].
Qed.
Lemma look_simple m b h tl : sn_ok m b ->
  exists io ic, fnc0 (stail m b ++ h :: tl) fnc_next_open = Ok io /\ fnc0 (stail m b ++ h :: tl) fnc_next_close = Ok ic
                /\ (h = ")"%char -> Nat.ltb ic io = true) /\ (h = "["%char -> Nat.ltb ic io = false).
Proof.
  intros Hok. pose proof (stail_inner m b Hok) as Hp. rewrite !fnc0_spec.
  rewrite (find_idx_inner _ fnc_next_open Hp incl_open), (find_idx_inner _ fnc_next_close Hp incl_close).
  eexists _, _. split; [reflexivity|]. split; [reflexivity|]. split; intros ->; cbn [find_idx].
  - change (str_in [")"%char] fnc_next_close) with true. change (str_in [")"%char] fnc_next_open) with false. cbv iota.
    apply Nat.ltb_lt. lia.
  - change (str_in ["["%char] fnc_next_open) with true. cbv iota. apply Nat.ltb_ge. lia.
Qed.

(** ** what one iteration leaves in `attributes` and in the recipe table *)
Lemma close_branch_attr rest st st1 : close_branch rest st = Ok st1 -> s_attributes st1 = s_attributes st.
Proof.
  unfold close_branch. destruct (rev (s_branch_anchor st)) as [|a ra]; [discriminate|].
  destruct (fnc0 rest fnc_eon_a) as [eon_a|]; cbn [bind]; [|discriminate].
  match goal with |- (bind ?m _ = _ -> _) => destruct m as [[[[[[g cu] pn] ba] rc] pb]|] end; cbn [bind]; [|discriminate].
  intros H. injection H as <-. reflexivity.
Qed.
Lemma node_step_attr fo st pc nm rest st1 : node_step fo st pc nm rest = Ok st1 ->
  exists a, parse_graph_base_node fo nm = Ok a /\ s_attributes st1 = Some a.
Proof.
  rewrite node_step_eq.
  destruct (opened st pc) as [[[br ba] rc]|]; cbn [bind]; [|discriminate].
  destruct (ring_scan (s_current st) rest 0 (clean_st (s_cycle st) [])) as [[rs rdx]|]; cbn [bind]; [|discriminate].
  destruct (bond_expr rest rdx) as [bo|]; cbn [bind]; [|discriminate].
  destruct (nmon_expr rest) as [n|]; cbn [bind]; [|discriminate].
  destruct (parse_graph_base_node fo nm) as [a|]; cbn [bind]; [|discriminate].
  match goal with |- (bind ?m _ = _ -> _) => destruct m as [rc'|] end; cbn [bind]; [|discriminate].
  destruct (add_nodes _ _ _ _ _ _ _ _) as [[[[g cu] pn] pb]|]; cbn [bind]; [|discriminate].
  destruct (fnc0 rest fnc_next_open) as [io|]; cbn [bind]; [|discriminate].
  destruct (fnc0 rest fnc_next_close) as [ic|]; cbn [bind]; [|discriminate].
  intros H. exists a. split; [reflexivity|]. destruct (Nat.ltb ic io).
  - apply close_branch_attr in H. exact H.
  - injection H as <-. reflexivity.
Qed.
(** a node that does not close a branch: the recipe table afterwards *)
Lemma node_step_recipes fo st pc nm rest st1 io ic : node_step fo st pc nm rest = Ok st1 ->
  fnc0 rest fnc_next_open = Ok io -> fnc0 rest fnc_next_close = Ok ic -> Nat.ltb ic io = false ->
  exists n a br ba rc, nmon_expr rest = Ok n /\ parse_graph_base_node fo nm = Ok a /\ opened st pc = Ok (br, ba, rc)
    /\ s_branch_anchor st1 = ba /\ s_branching st1 = br
    /\ s_recipes st1 = (if br then match rev ba with k :: _ => rec_append k (n, a, s_pbo st) rc | [] => rc end else rc).
Proof.
  intros H Eio Eic Elt. rewrite node_step_eq in H. rewrite Eio, Eic in H.
  destruct (opened st pc) as [[[br ba] rc]|]; cbn [bind] in H; [|discriminate].
  destruct (ring_scan (s_current st) rest 0 (clean_st (s_cycle st) [])) as [[rs rdx]|]; cbn [bind] in H; [|discriminate].
  destruct (bond_expr rest rdx) as [bo|]; cbn [bind] in H; [|discriminate].
  destruct (nmon_expr rest) as [n|]; cbn [bind] in H; [|discriminate].
  destruct (parse_graph_base_node fo nm) as [a|]; cbn [bind] in H; [|discriminate].
  exists n, a, br, ba, rc. split; [reflexivity|]. split; [reflexivity|]. split; [reflexivity|].
  destruct br.
  - destruct (rev ba) as [|k0 r0]; cbn [bind] in H; [discriminate|].
    destruct (add_nodes _ _ _ _ _ _ _ _) as [[[[g cu] pn] pb]|]; cbn [bind] in H; [|discriminate].
    rewrite Elt in H. injection H as <-. repeat split.
  - cbn [bind] in H. destruct (add_nodes _ _ _ _ _ _ _ _) as [[[[g cu] pn] pb]|]; cbn [bind] in H; [|discriminate].
    rewrite Elt in H. injection H as <-. repeat split.
Qed.

(** ** closing a branch that carries a multiplier (lines 266-332) *)
Lemma oz_eqb_refl k : oz_eqb k k = true. Proof. destruct k; cbn; [apply Z.eqb_refl|reflexivity]. Qed.
Lemma nth_error_plus {A} (p r : list A) j : nth_error (p ++ r) (length p + j) = nth_error r j.
Proof. rewrite nth_error_app2 by lia. f_equal. lia. Qed.
Lemma skipn_plus {A} (p r : list A) j : skipn (length p + j) (p ++ r) = skipn j r.
Proof. rewrite skipn_app. rewrite skipn_all2 by lia. cbn [app]. f_equal. lia. Qed.
Lemma digit_not_eon_b d : (d < 10)%nat -> str_in [digit_char d] fnc_eon_b = false.
Proof. intros H. do 10 (destruct d as [|d]; [reflexivity|]). lia. Qed.
Lemma sym_in_eon_b s : str_in [sym_char s] fnc_eon_b = true. Proof. destruct s; reflexivity. Qed.
Lemma cont_head_b K : cont K -> exists h tl, K = h :: tl /\ str_in [h] fnc_eon_b = true /\ sto_mem h = false.
Proof. intros [| |]; eexists _, _; (split; [reflexivity|]); split; reflexivity. Qed.
Lemma find_idx_digits_b ds T : forallb (fun d => (d <? 10)%nat) ds = true ->
  (exists h tl, T = h :: tl /\ str_in [h] fnc_eon_b = true) ->
  find_idx (digits_str ds ++ T) fnc_eon_b = length ds.
Proof.
  intros Hd (h & tl & -> & Hh). induction ds as [|d r IH]; cbn [digits_str map app find_idx length].
  - now rewrite Hh.
  - cbn [forallb] in Hd. apply andb_prop in Hd as [H1 H2]. apply Nat.ltb_lt in H1.
    rewrite digit_not_eon_b by assumption. f_equal. now apply IH.
Qed.

Definition after_tail (after : option sym) (K : pystr) : pystr := osym_str after ++ K.
Lemma after_tail_head after K : cont K -> exists h tl, after_tail after K = h :: tl /\ str_in [h] fnc_eon_b = true.
Proof.
  intros HK. unfold after_tail. destruct after as [s|]; cbn [osym_str app].
  - eexists _, _. split; [reflexivity|apply sym_in_eon_b].
  - destruct (cont_head_b K HK) as (h & tl & -> & Hh & _). eauto.
Qed.

Definition mult_closed (st : rstate) (g : graph) (cur : Z) (prev : option Z) (base : option (option Z)) (after : option sym) : rstate :=
  {| s_g := g; s_current := cur; s_branch_anchor := []; s_recipes := []; s_prev_node := prev; s_branching := false;
     s_cycle := s_cycle st; s_pbo := (match after with Some s => Some (sym_ord s) | None => s_pbo st end);
     s_attributes := s_attributes st; s_base_anchor := base |}.

Lemma close_mult P ms ds after K st anchor n0 a0 o0 es :
  Forall inner P -> digits_ok ds = true -> cont K ->
  s_branch_anchor st = [anchor] -> s_recipes st = [(anchor, (n0, a0, o0) :: es)] ->
  close_branch (P ++ ")"%char :: osym_str ms ++ "|"%char :: digits_str ds ++ after_tail after K) st
  = ('(g, cur, _, base) <- exp_times (digits_nat ds - 1)
                              [(anchor, (n0, a0, match ms with Some s => Some (sym_ord s) | None => o0 end) :: es)]
                              (s_g st) (s_current st) anchor (s_base_anchor st) ;;
     prev <- of_option base EUnbound ;;
     Ok (mult_closed st g cur prev base after)).
Proof.
  intros HP Hd HK Hba Hrc. destruct (digits_ok_all ds Hd) as [Hall Hne].
  destruct (after_tail_head after K HK) as (h & tl & ET & Hh).
  unfold close_branch. rewrite Hba. cbn [rev app].
  rewrite fnc0_spec, (find_idx_inner _ fnc_eon_a HP incl_eon_a). cbn [find_idx].
  change (str_in [")"%char] fnc_eon_a) with true. cbv iota. rewrite Nat.add_0_r. cbn [bind].
  rewrite !nth_error_plus.
  set (D := digits_str ds) in *. set (T := after_tail after K) in *.
  assert (HlenD : length D = length ds) by (unfold D, digits_str; apply map_length).
  assert (Hfi : find_idx ("|"%char :: D ++ T) fnc_eon_b = Datatypes.S (length ds)).
  { cbn [find_idx]. change (str_in ["|"%char] fnc_eon_b) with false. cbv iota. f_equal. apply find_idx_digits_b; [assumption|]. eauto. }
  assert (Hcb : exists cbv, of_option (nth_error T 0) EIndex = Ok cbv /\
                 forall pbo, (if sto_mem cbv then o <- symbol_to_order_lookup [cbv] ;; Ok (Some o) else Ok pbo)
                             = Ok (match after with Some s => Some (sym_ord s) | None => pbo end)).
  { unfold T, after_tail. destruct after as [s|]; cbn [osym_str app nth_error of_option].
    - eexists. split; [reflexivity|]. intros pbo. now rewrite sym_mem, sym_lookup.
    - destruct (cont_head_b K HK) as (h' & tl' & -> & _ & Hm). cbn [nth_error of_option]. eexists. split; [reflexivity|].
      intros pbo. now rewrite Hm. }
  destruct Hcb as (cbv & Hcb1 & Hcb2).
  assert (HN : Z.to_nat (Z.of_nat (digits_nat ds) - 1) = (digits_nat ds - 1)%nat) by lia.
  destruct ms as [s|]; cbn [osym_str app nth_error].
  - (* ")" sym "|" digits *)
    assert (E1 : ch_eq (Some (sym_char s)) "|"%char = false) by (destruct s; reflexivity). rewrite E1.
    cbn [ch_eq orb of_option bind]. change (Ascii.eqb "|"%char "|"%char) with true. cbv iota. cbn [of_option bind].
    rewrite sym_lookup. cbn [bind]. rewrite Hrc. cbn [rec_get]. rewrite oz_eqb_refl. cbn [rec_set]. rewrite oz_eqb_refl.
    cbn [bind].
    rewrite fnc_from_spec by (rewrite app_length; cbn [length]; lia).
    replace (length P + 1 + 1)%nat with (length P + 2)%nat by lia. rewrite skipn_plus. cbn [skipn].
    rewrite Hfi. cbn [bind].
    unfold py_slice. replace (length P + 1 + 2)%nat with (length P + 3)%nat by lia. rewrite skipn_plus. cbn [skipn].
    replace (length P + 2 + Datatypes.S (length ds) - (length P + 3))%nat with (length D) by lia.
    rewrite firstn_app, Nat.sub_diag, firstn_all. cbn [firstn]. rewrite app_nil_r.
    unfold D. rewrite py_int_full_digits by assumption. cbn [bind]. rewrite HN. cbn [length skipn].
    destruct (exp_times _ _ _ _ _ _) as [[[[g cur] pn] base]|]; cbn [bind]; [|reflexivity].
    destruct base as [b|]; cbn [of_option bind]; [|reflexivity].
    replace (length P + 2 + Datatypes.S (length ds))%nat with (length P + (3 + length (digits_str ds)))%nat by (unfold digits_str; rewrite map_length; lia).
    rewrite nth_error_plus. cbn [plus nth_error]. rewrite nth_error_app2 by lia. rewrite Nat.sub_diag.
    fold D. fold T. rewrite Hcb1. cbn [bind]. rewrite Hcb2. reflexivity.
  - (* ")" "|" digits *)
    cbn [ch_eq]. change (Ascii.eqb "|"%char "|"%char) with true. cbn [orb].
    destruct ds as [|d0 dr]; [contradiction|]. pose proof Hall as Hall'. cbn [forallb] in Hall'. apply andb_prop in Hall' as [Hd0 _].
    apply Nat.ltb_lt in Hd0. unfold D at 1. cbn [digits_str map app nth_error of_option bind].
    rewrite (proj2 (Ascii.eqb_neq _ _) (nobar_digit d0 Hd0)). cbn [bind].
    fold (digits_str dr). change (digit_char d0 :: digits_str dr) with (digits_str (d0 :: dr)). fold D.
    rewrite fnc_from_spec by (rewrite app_length; cbn [length]; lia).
    rewrite skipn_plus. cbn [skipn]. rewrite Hfi. cbn [bind].
    unfold py_slice. rewrite skipn_plus. cbn [skipn].
    replace (length P + 1 + Datatypes.S (length (d0 :: dr)) - (length P + 2))%nat with (length D) by lia.
    rewrite firstn_app, Nat.sub_diag, firstn_all. cbn [firstn]. rewrite app_nil_r.
    unfold D. rewrite py_int_full_digits by assumption. cbn [bind]. rewrite HN. rewrite Hrc. cbn [length skipn].
    destruct (exp_times _ _ _ _ _ _) as [[[[g cur] pn] base]|]; cbn [bind]; [|reflexivity].
    destruct base as [b|]; cbn [of_option bind]; [|reflexivity].
    match goal with |- context [nth_error (P ++ ?R) ?n] =>
      replace n with (length P + (2 + length (digits_str (d0 :: dr))))%nat
        by (unfold digits_str; cbn [length map]; rewrite map_length; lia) end.
    rewrite nth_error_plus. cbn [plus nth_error]. rewrite nth_error_app2 by lia. rewrite Nat.sub_diag.
    fold D. fold T. rewrite Hcb1. cbn [bind]. rewrite Hcb2. reflexivity.
Qed.

(** ** the expansion loop with a single recipe *)
Fixpoint copies_run (n : nat) (recipe : list recipe_entry) (g : graph) (cur : Z) (prev : option Z)
         (base : option (option Z)) : res (graph * Z * option Z * option (option Z)) :=
  match n with
  | O => Ok (g, cur, prev, base)
  | Datatypes.S n' => '(g1, c1, _) <- eb_recipe recipe g cur prev ;; copies_run n' recipe g1 c1 (Some cur) (Some (Some cur))
  end.
Lemma exp_times_single anchor e es : forall n g cur prev base,
  exp_times n [(anchor, e :: es)] g cur prev base = copies_run n (e :: es) g cur prev base.
Proof.
  induction n as [|n IH]; intros g cur prev base; [reflexivity|].
  cbn [exp_times copies_run exp_items pa_truthy pa_is_none]. cbn [bind]. unfold expand_branch.
  destruct (eb_recipe (e :: es) g cur prev) as [[[g1 c1] p1]|]; cbn [bind]; [|reflexivity]. apply IH.
Qed.

(** ** the machine on the longhand copies *)
Record bnode := { bn_name : pystr; bn_mult : option (list nat); bn_bond : option sym }.
Definition bnode_toks (b : bnode) : list tok := TNode (bn_name b) (mult_val (bn_mult b)) :: osym_tok (bn_bond b).
Definition body_toks (body : list bnode) : list tok := flat_map bnode_toks body.
(** the recipe entries the reader records for the body, [inc] = order of the bond reaching the first node *)
Fixpoint body_entries (fo : float_oracle) (inc : Z) (body : list bnode) : option (list recipe_entry) :=
  match body with
  | [] => Some []
  | b :: r =>
      match parse_graph_base_node fo (bn_name b), body_entries fo (oord (bn_bond b)) r with
      | Ok a, Some es => Some ((Z.of_nat (mult_val (bn_mult b)), a, Some inc) :: es)
      | _, _ => None
      end
  end.
(** side conditions of body nodes: names, counts, no symbol behind a multiplier, and a multiplied
    node is reached by a single bond *)
Definition sn_okb (m : option (list nat)) (b : option sym) : bool :=
  match m with Some ds => digits_ok ds && (1 <=? digits_nat ds)%nat && negb (is_some b) | None => true end.
Lemma sn_okb_ok m b : sn_okb m b = true -> sn_ok m b.
Proof.
  unfold sn_okb, sn_ok. destruct m; [|trivial]. intros H. apply andb_prop in H as [H H3]. apply andb_prop in H as [H1 H2].
  apply Nat.leb_le in H2. repeat split; try assumption. now destruct b.
Qed.
Fixpoint body_ok (fo : float_oracle) (inc : Z) (body : list bnode) : bool :=
  match body with
  | [] => true
  | b :: r => name_ok fo (bn_name b) && sn_okb (bn_mult b) (bn_bond b)
              && ((mult_val (bn_mult b) <=? 1)%nat || (inc =? 1))
              && body_ok fo (oord (bn_bond b)) r
  end.

Lemma eb_nodes_copies : forall n a o g cur p, ahas (S "node_for_adding") a = false -> (n <= 1)%nat \/ o = 1 ->
  eb_nodes n a (Some o) g cur (Some p) = Ok (m_copies n a g cur (Some p) o).
Proof.
  induction n as [|n IH]; intros a o g cur p Ha Hc; [reflexivity|].
  cbn [eb_nodes m_copies]. unfold py_add_node. rewrite Ha. cbn [bind of_option].
  destruct n as [|n]; [reflexivity|]. destruct Hc as [Hc|Hc]; [lia|]. subst o.
  change (order_attr (Some 1)) with (eorder 1). now rewrite (IH a 1 _ (cur + 1) cur Ha) by (right; reflexivity).
Qed.
Lemma name_ok_ahas fo nm a : name_ok fo nm = true -> parse_graph_base_node fo nm = Ok a -> ahas (S "node_for_adding") a = false.
Proof. unfold name_ok. intros H E. rewrite E in H. apply andb_prop in H as [_ H]. now destruct (ahas _ a). Qed.

Definition mk_m (g : graph) (next : Z) (prev : option Z) (pend : Z) (stack : list (option Z)) (rings : ringtab) : mstate :=
  {| m_g := g; m_next := next; m_prev := prev; m_pend := pend; m_stack := stack; m_rings := rings |}.
Lemma m_copies_some n a : forall g cur p pend, exists g' nx p', m_copies n a g cur (Some p) pend = (g', nx, Some p').
Proof.
  induction n as [|n IH]; intros g cur p pend; [eexists _, _, _; reflexivity|]. cbn [m_copies]. apply IH.
Qed.
(** the body of one copy, up to and including the closing parenthesis *)
Lemma m_body_close fo : forall body es g next p inc top stk rings ts,
  body_entries fo inc body = Some es -> body_ok fo inc body = true ->
  m_run fo (body_toks body ++ TClose :: ts) (mk_m g next (Some p) inc (top :: stk) rings)
  = match eb_recipe es g next (Some p) with
    | Ok (g1, c1, _) => m_run fo ts (mk_m g1 c1 top 1 stk rings)
    | Err e => Err e
    end.
Proof.
  induction body as [|b r IH]; intros es g next p inc top stk rings ts He Hok.
  - cbn in He. injection He as <-. reflexivity.
  - cbn [body_entries] in He. destruct (parse_graph_base_node fo (bn_name b)) as [a|] eqn:Ea; [|discriminate].
    destruct (body_entries fo (oord (bn_bond b)) r) as [es'|] eqn:Er; [|discriminate]. injection He as <-.
    cbn [body_ok] in Hok. apply andb_prop in Hok as [Hok Hr]. apply andb_prop in Hok as [Hok Ho]. apply andb_prop in Hok as [Hn Hs].
    cbn [body_toks flat_map]. fold (body_toks r). unfold bnode_toks. rewrite <- !app_assoc. cbn [app].
    cbn [m_run m_step mk_m m_g m_next m_prev m_pend m_stack m_rings].
    rewrite Ea. cbn [bind eb_recipe]. rewrite Nat2Z.id.
    assert (Hc : (mult_val (bn_mult b) <= 1)%nat \/ inc = 1).
    { apply orb_prop in Ho as [Ho|Ho]; [left; now apply Nat.leb_le|right; now apply Z.eqb_eq]. }
    rewrite (eb_nodes_copies _ a inc g next p (name_ok_ahas fo _ a Hn Ea) Hc).
    destruct (m_copies_some (mult_val (bn_mult b)) a g next p inc) as (g' & nx & p' & Ec). rewrite Ec. cbn [bind].
    assert (Eb : forall ts0, m_run fo (osym_tok (bn_bond b) ++ ts0) (mk_m g' nx (Some p') 1 (top :: stk) rings)
                 = m_run fo ts0 (mk_m g' nx (Some p') (oord (bn_bond b)) (top :: stk) rings)).
    { intros ts0. destruct (bn_bond b); reflexivity. }
    unfold mk_m in Eb. rewrite Eb. apply (IH es' g' nx p' _ top stk rings ts Er Hr).
Qed.

(** ** units *)
Record unit_t := { u_name : pystr; u_mult : option (list nat); u_bond : option sym; u_body : list bnode;
                   u_ms : option sym; u_count : list nat; u_after : option sym }.
Definition copy_toks (u : unit_t) : list tok :=
  osym_tok (u_ms u) ++ TNode (u_name u) 1 :: osym_tok (u_bond u) ++ TOpen :: body_toks (u_body u) ++ [TClose].

Lemma m_copy fo u aA es g next p stack rings ts :
  parse_graph_base_node fo (u_name u) = Ok aA -> name_ok fo (u_name u) = true ->
  body_entries fo (oord (u_bond u)) (u_body u) = Some es -> body_ok fo (oord (u_bond u)) (u_body u) = true ->
  m_run fo (copy_toks u ++ ts) (mk_m g next (Some p) 1 stack rings)
  = match eb_recipe ((1, aA, Some (oord (u_ms u))) :: es) g next (Some p) with
    | Ok (g1, c1, _) => m_run fo ts (mk_m g1 c1 (Some next) 1 stack rings)
    | Err e => Err e
    end.
Proof.
  intros Ea Hn He Hok. unfold copy_toks. rewrite <- !app_assoc.
  assert (Ems : forall ts0, m_run fo (osym_tok (u_ms u) ++ ts0) (mk_m g next (Some p) 1 stack rings)
                = m_run fo ts0 (mk_m g next (Some p) (oord (u_ms u)) stack rings)).
  { intros ts0. destruct (u_ms u); reflexivity. }
  rewrite Ems. cbn [app m_run m_step mk_m m_g m_next m_prev m_pend m_stack m_rings]. rewrite Ea. cbn [bind m_copies].
  cbn [eb_recipe Z.to_nat]. change (Pos.to_nat 1) with 1%nat. cbn [eb_nodes]. unfold py_add_node.
  rewrite (name_ok_ahas fo _ aA Hn Ea). cbn [bind of_option].
  change (order_attr (Some (oord (u_ms u)))) with (eorder (oord (u_ms u))).
  set (g' := add_edge (add_node g next aA) p next (eorder (oord (u_ms u)))).
  rewrite <- !app_assoc.
  assert (Eb : forall ts0, m_run fo (osym_tok (u_bond u) ++ ts0) (mk_m g' (next + 1) (Some next) 1 stack rings)
               = m_run fo ts0 (mk_m g' (next + 1) (Some next) (oord (u_bond u)) stack rings)).
  { intros ts0. destruct (u_bond u); reflexivity. }
  unfold mk_m in Eb. rewrite Eb. cbn [app m_run m_step m_g m_next m_prev m_pend m_stack m_rings bind].
  rewrite <- app_assoc. cbn [app].
  exact (m_body_close fo (u_body u) es g' (next + 1) next (oord (u_bond u)) (Some next) stack rings ts He Hok).
Qed.

Lemma m_copies_all fo u aA es stack rings ts :
  parse_graph_base_node fo (u_name u) = Ok aA -> name_ok fo (u_name u) = true ->
  body_entries fo (oord (u_bond u)) (u_body u) = Some es -> body_ok fo (oord (u_bond u)) (u_body u) = true ->
  forall n g next p base,
  m_run fo (concat (repeat (copy_toks u) n) ++ ts) (mk_m g next (Some p) 1 stack rings)
  = match copies_run n ((1, aA, Some (oord (u_ms u))) :: es) g next (Some p) base with
    | Ok (g1, c1, prev1, _) => m_run fo ts (mk_m g1 c1 prev1 1 stack rings)
    | Err e => Err e
    end.
Proof.
  intros Ea Hn He Hok. induction n as [|n IH]; intros g next p base; [reflexivity|].
  cbn [repeat concat copies_run]. rewrite <- app_assoc. rewrite (m_copy fo u aA es g next p stack rings _ Ea Hn He Hok).
  destruct (eb_recipe _ g next (Some p)) as [[[g1 c1] p1]|]; cbn [bind]; [|reflexivity]. apply IH.
Qed.
