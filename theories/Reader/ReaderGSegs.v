(** ReaderGSegs: texts made of flat items and multiplied branches, the multiplied branch at ANY depth
    and behind sibling branches of its anchor.

    A multiplied branch ("unit") is written "(" body ")" [sym] "|" count [sym]; its anchor is the node
    in front of it (an ordinary item, possibly followed by sibling branches).  The reader reads such a
    text as the grammar's machine reads the tokens with the copies written out, PROVIDED the recipe
    table is in order where the unit stands ([gtrack]): since the outermost open branch was opened,
    no branch was closed other than sibling branches of the unit's own anchor directly in front of
    it (the remaining defect class stale_recipe is exactly the complement), and the unit contains
    neither ring markers nor nested branches (ring_in_unit, nested_in_unit). *)
From Coq Require Import String.
From Coq Require Import List Ascii ZArith Bool Lia.
From CGV Require Import Base.PyBase Base.PyVal Base.NxGraph Base.PyGen Gen.ReaderGen Dialect.DialectImpl
     Reader.ReaderImpl Reader.Grammar Reader.ReaderLemmas Reader.Lin Reader.GraphLemmas Reader.ReaderSim Reader.ReaderMult
     Reader.ReaderUnit Reader.ReaderUnitGen Reader.ReaderTrack.
Import ListNotations.
Open Scope Z_scope.

(** ** keys of the recipe table *)
Lemma oz_eqb_eq a b : oz_eqb a b = true -> a = b.
Proof. destruct a, b; cbn; try discriminate; [|reflexivity]. intros H. apply Z.eqb_eq in H. now subst. Qed.
Lemma rec_get_notin k d : ~ In k (map fst d) -> rec_get k d = None.
Proof.
  induction d as [|[k' v] r IH]; cbn [map fst rec_get In]; intros H; [reflexivity|].
  destruct (oz_eqb k k') eqn:E; [apply oz_eqb_eq in E; subst; tauto|]. apply IH. tauto.
Qed.
Lemma rec_set_keys_in k v d : In k (map fst d) -> map fst (rec_set k v d) = map fst d.
Proof.
  induction d as [|[k' v'] r IH]; cbn [map fst rec_set In]; intros H; [contradiction|].
  destruct (oz_eqb k k') eqn:E; [reflexivity|]. cbn [map fst]. f_equal. apply IH.
  destruct H as [H|H]; [subst; now rewrite oz_eqb_refl in E|exact H].
Qed.
Lemma rec_set_keys_notin k v d : ~ In k (map fst d) -> map fst (rec_set k v d) = map fst d ++ [k].
Proof. intros H. rewrite (rec_set_absent _ _ _ (rec_get_notin _ _ H)), map_app. reflexivity. Qed.
Lemma rec_append_keys_in k e d : In k (map fst d) -> map fst (rec_append k e d) = map fst d.
Proof. intros H. unfold rec_append. now apply rec_set_keys_in. Qed.
Lemma map_fst_snoc {A B} (l : list (A * B)) : forall ks k, map fst l = ks ++ [k] ->
  exists l0 v, l = l0 ++ [(k, v)] /\ map fst l0 = ks.
Proof.
  induction l as [|[k0 v0] r IH]; intros ks k H; [destruct ks; discriminate|].
  destruct ks as [|k1 ks]; cbn [map fst app] in H.
  - injection H as -> Hr. destruct r; [|discriminate]. exists [], v0. split; reflexivity.
  - injection H as -> Hr. destruct (IH ks k Hr) as (l0 & v & -> & E). exists ((k1, v0) :: l0), v. split; [reflexivity|]. cbn. now rewrite E.
Qed.

(** ** the recipe table after one node of a flat item (closing or not) *)
Lemma node_step_lin_recipes fo i k st pc st1 : lin_ok fo i = true -> cont k ->
  node_step fo st pc (l_name i) (lin_tail_str i ++ k) = Ok st1 ->
  exists br ba rc e, opened st pc = Ok (br, ba, rc) /\
    let rc' := (if br then match rev ba with k0 :: _ => rec_append k0 e rc | [] => rc end else rc) in
    match l_close i with
    | None => s_branch_anchor st1 = ba /\ s_recipes st1 = rc'
    | Some _ => exists top stk, rev ba = top :: stk /\ s_branch_anchor st1 = rev stk /\ s_prev_node st1 = top
                                /\ s_recipes st1 = match rev stk with [] => [] | _ => rc' end
    end.
Proof.
  intros Hok Hk H. rewrite node_step_eq in H.
  destruct (look_lin fo i k Hok Hk) as (io & ic & Eio & Eic & Elt). rewrite Eio, Eic in H.
  destruct (opened st pc) as [[[br ba] rc]|]; cbn [bind] in H; [|discriminate].
  destruct (ring_scan (s_current st) _ 0 (clean_st (s_cycle st) [])) as [[rs rdx]|]; cbn [bind] in H; [|discriminate].
  destruct (bond_expr _ rdx) as [bo|]; cbn [bind] in H; [|discriminate].
  destruct (nmon_expr _ bo) as [[n bo2]|] eqn:En; cbn [bind] in H; [|discriminate].
  destruct (parse_graph_base_node fo (l_name i)) as [a|]; cbn [bind] in H; [|discriminate].
  exists br, ba, rc, (n, a, s_pbo st). split; [reflexivity|]. cbv zeta.
  assert (Hrec : exists rc', (if br then match rev ba with [] => Err EIndex | k0 :: _ => Ok (rec_append k0 (n, a, s_pbo st) rc) end else Ok rc) = Ok rc'
                 /\ rc' = (if br then match rev ba with k0 :: _ => rec_append k0 (n, a, s_pbo st) rc | [] => rc end else rc)).
  { destruct br; [|eexists; split; reflexivity]. destruct (rev ba); [cbn [bind] in H; discriminate|]. eexists; split; reflexivity. }
  destruct Hrec as (rc' & Erc & <-). rewrite Erc in H. cbn [bind] in H.
  destruct (add_nodes _ _ _ _ _ _ _ _) as [[[[g cu] pn] pb]|]; cbn [bind] in H; [|discriminate].
  rewrite Elt in H. destruct (l_close i) as [a'|] eqn:Ecl; cbn [is_some] in H.
  - destruct (rev ba) as [|top stk] eqn:Erev.
    + unfold close_branch in H. cbn [s_branch_anchor] in H. rewrite Erev in H. discriminate.
    + assert (Eba : ba = rev (top :: stk)) by (rewrite <- Erev; now rewrite rev_involutive).
      rewrite (close_lin fo i a' k _ top stk Hok Ecl Hk) in H by exact Eba. injection H as <-.
      exists top, stk. repeat split.
  - injection H as <-. split; reflexivity.
Qed.

(** ** the state of the recipe table relative to the open branches *)
Inductive mode := Clean | Sib | Dirty.
Definition minv (md : mode) (st : rstate) : Prop :=
  match md with
  | Clean => map fst (s_recipes st) = s_branch_anchor st
  | Sib => map fst (s_recipes st) = s_branch_anchor st ++ [s_prev_node st]
  | Dirty => True
  end.
Definition mode_open (md : mode) (op : bool) : mode :=
  if op then match md with Dirty => Dirty | _ => Clean end else match md with Clean => Clean | _ => Dirty end.
Definition mode_close (md : mode) (depth0 : bool) : mode :=
  if depth0 then Clean else match md with Clean => Sib | _ => Dirty end.
Definition mode_item (md : mode) (i : lin) (depth0 : bool) : mode :=
  match l_close i with None => mode_open md (l_open i) | Some _ => mode_close (mode_open md (l_open i)) depth0 end.

Lemma minv_item fo i k st x pc st1 s md : lin_ok fo i = true -> cont k ->
  Rel st x -> TI fo x s -> t_flag s = false -> minv md st -> Ascii.eqb pc "("%char = l_open i ->
  node_step fo st pc (l_name i) (lin_tail_str i ++ k) = Ok st1 ->
  minv (mode_item md i (is_nil (s_branch_anchor st1))) st1.
Proof.
  intros Hok Hk (Rg & Rc & Rp & Rcy & Rba & Rbr & Rpb) HT Hfl Hm Hpc Est.
  destruct (node_step_lin_recipes fo i k st pc st1 Hok Hk Est) as (br & ba & rc & e & Eop & Hrest). cbv zeta in Hrest.
  set (rc' := if br then match rev ba with k0 :: _ => rec_append k0 e rc | [] => rc end else rc) in *.
  (* the table behind the node itself *)
  assert (Hmid : match mode_open md (l_open i) with Clean => map fst rc' = ba | _ => True end).
  { unfold opened in Eop. rewrite Hpc in Eop. destruct (l_open i); cbn [mode_open].
    - destruct (s_prev_node st) as [p|] eqn:Esp; [|discriminate].
      destruct (node_attrs (s_g st) p) as [a|]; cbn [bind] in Eop; [|discriminate]. injection Eop as <- <- <-.
      assert (Hnotin : ~ In (Some p) (s_branch_anchor st)).
      { rewrite Rba, <- in_rev. apply (TI_prev_fresh fo x s p HT Hfl). now rewrite <- Rp. }
      unfold rc'. rewrite rev_app_distr. cbn [rev app].
      destruct md; cbn [minv] in Hm; [| |exact I]; try rewrite Esp in Hm.
      + assert (E1 : map fst (rec_set (Some p) [(1, a, Some 1)] (s_recipes st)) = s_branch_anchor st ++ [Some p])
          by (rewrite rec_set_keys_notin; rewrite Hm; [reflexivity|exact Hnotin]).
        rewrite rec_append_keys_in; [exact E1|]. rewrite E1. apply in_or_app. right. now left.
      + assert (E1 : map fst (rec_set (Some p) [(1, a, Some 1)] (s_recipes st)) = s_branch_anchor st ++ [Some p])
          by (rewrite rec_set_keys_in; rewrite Hm; [reflexivity|apply in_or_app; right; now left]).
        rewrite rec_append_keys_in; [exact E1|]. rewrite E1. apply in_or_app. right. now left.
    - injection Eop as <- <- <-. destruct md; cbn [minv] in Hm; try exact I.
      unfold rc'. destruct (s_branching st); [|exact Hm].
      destruct (rev (s_branch_anchor st)) as [|k0 r0] eqn:Er; [exact Hm|].
      rewrite rec_append_keys_in; [exact Hm|]. rewrite Hm. apply in_rev. rewrite Er. now left. }
  assert (Hns : mode_open md (l_open i) <> Sib) by (destruct md, (l_open i); discriminate).
  unfold mode_item. destruct (l_close i) as [a'|].
  - destruct Hrest as (top & stk & Erev & Eba1 & Ep1 & Erc1). rewrite Eba1.
    destruct (rev stk) as [|z t] eqn:Ers; cbn [is_nil mode_close].
    + cbn [minv]. rewrite Erc1, Eba1. reflexivity.
    + destruct (mode_open md (l_open i)); cbn [minv]; try exact I.
      rewrite Erc1, Eba1, Ep1, Hmid. rewrite <- Ers.
      rewrite <- (rev_involutive ba), Erev. reflexivity.
  - destruct Hrest as (Eba1 & Erc1). destruct (mode_open md (l_open i)); cbn [minv]; try exact I; [|now elim Hns].
    now rewrite Erc1, Eba1.
Qed.

(** ** the static reading of a flat item and of a unit, in closed form *)
Definition tmk (c : option pystr) (p : Z) (ns : list pystr) (f : bool) : tstate :=
  {| t_cur := c; t_pend := p; t_names := ns; t_flag := f |}.
Definition item_track (i : lin) (s : tstate) : option tstate :=
  match (if l_open i then
           (if t_flag s then None else match t_cur s with Some c => Some (c :: t_names s) | None => None end)
         else Some (t_names s)) with
  | None => None
  | Some ns =>
      match l_close i with
      | None => Some (tmk (Some (l_name i)) (oord (l_bond i)) ns false)
      | Some a => match ns with c :: r => Some (tmk (Some c) (oord a) r false) | [] => None end
      end
  end.
Lemma trun_rings rs ts s : trun (map ring_tok rs ++ ts) s = trun ts s.
Proof. induction rs as [|r t IH]; [reflexivity|]. cbn [map app trun ring_tok tstep]. exact IH. Qed.
Lemma trun_osym o ts s : trun (osym_tok o ++ ts) s
  = trun ts (tmk (t_cur s) (match o with Some sy => sym_ord sy | None => t_pend s end) (t_names s) (t_flag s)).
Proof. destruct o; [reflexivity|]. cbn [osym_tok app]. now destruct s. Qed.
Lemma trun_lin fo i s : lin_ok fo i = true -> trun (lin_toks i) s = item_track i s.
Proof.
  intros Hok. destruct (lin_ok_parts fo i Hok) as (_ & _ & Hm & Hc).
  assert (Hn1 : (1 <= mult_val (l_mult i))%nat) by (unfold mult_val; destruct (l_mult i); [tauto|lia]).
  unfold lin_toks, item_track.
  assert (Hnode : forall s0, trun (TNode (l_name i) (mult_val (l_mult i)) :: map ring_tok (l_rings i) ++ osym_tok (l_bond i)
                                    ++ match l_close i with Some a => TClose :: osym_tok a | None => [] end) s0
                  = match l_close i with
                    | None => Some (tmk (Some (l_name i)) (oord (l_bond i)) (t_names s0) false)
                    | Some a => match t_names s0 with c :: r => Some (tmk (Some c) (oord a) r false) | [] => None end
                    end).
  { intros s0. cbn [trun tstep]. destruct (mult_val (l_mult i)) as [|n]; [lia|].
    rewrite trun_rings, trun_osym. cbn [tmk t_cur t_pend t_names t_flag].
    destruct (l_close i) as [a|].
    - rewrite Hc. cbn [trun tstep tmk t_names]. destruct (t_names s0) as [|c r]; [reflexivity|].
      rewrite <- (app_nil_r (osym_tok a)), trun_osym. cbn [trun tmk t_cur t_pend t_names t_flag]. now destruct a.
    - cbn [trun]. unfold tmk. now destruct (l_bond i). }
  destruct (l_open i); cbn [app].
  - assert (Eo : forall r, trun (TOpen :: r) s = match tstep s TOpen with Some s1 => trun r s1 | None => None end) by reflexivity.
    rewrite Eo. cbn [tstep]. destruct (t_flag s); [reflexivity|]. destruct (t_cur s) as [c|]; [|reflexivity]. now rewrite Hnode.
  - now rewrite Hnode.
Qed.

Lemma trun_body fo : forall body inc s, body <> [] -> body_ok fo inc body = true ->
  exists c p, trun (body_toks body) s = Some (tmk c p (t_names s) false).
Proof.
  induction body as [|b r IH]; intros inc s Hne Hok; [contradiction|].
  cbn [body_ok] in Hok. apply andb_prop in Hok as [Hok Hr]. apply andb_prop in Hok as [_ Hsn].
  pose proof (sn_okb_ok _ _ Hsn) as Hs.
  assert (Hn1 : (1 <= mult_val (bn_mult b))%nat) by (unfold mult_val; destruct (bn_mult b); [now destruct Hs|lia]).
  cbn [body_toks flat_map]. fold (body_toks r). unfold bnode_toks. cbn [app trun tstep].
  destruct (mult_val (bn_mult b)) as [|n]; [lia|]. rewrite trun_osym. cbn [tmk t_cur t_pend t_names t_flag].
  destruct r as [|b' r'].
  - cbn [body_toks flat_map trun]. eexists _, _. reflexivity.
  - destruct (IH (oord (bn_bond b)) (tmk (Some (bn_name b)) (match bn_bond b with Some sy => sym_ord sy | None => 1 end) (t_names s) false)
                 ltac:(discriminate) Hr) as (c & p & E).
    exists c, p. exact E.
Qed.
Lemma trun_copy fo u p ns : u_body u <> [] -> body_ok fo (oord (u_bond u)) (u_body u) = true ->
  trun (copy_toks u) (tmk (Some (u_name u)) p ns false) = Some (tmk (Some (u_name u)) 1 ns false).
Proof.
  intros Hne Hok. unfold copy_toks. rewrite trun_osym. cbn [tmk t_cur t_pend t_names t_flag trun tstep].
  rewrite trun_osym. cbn [tmk t_cur t_pend t_names t_flag trun tstep]. rewrite trun_app.
  destruct (trun_body fo (u_body u) _ (tmk (Some (u_name u)) (match u_bond u with Some sy => sym_ord sy | None => 1 end) (u_name u :: ns) true)
              Hne Hok) as (c & q & E).
  unfold tmk in E |- *. cbn [t_names] in E. rewrite E. reflexivity.
Qed.
Lemma trun_copies fo u ns : u_body u <> [] -> body_ok fo (oord (u_bond u)) (u_body u) = true ->
  forall n p ts, trun (concat (repeat (copy_toks u) n) ++ ts) (tmk (Some (u_name u)) p ns false)
  = trun ts (tmk (Some (u_name u)) (match n with O => p | _ => 1 end) ns false).
Proof.
  intros Hne Hok. induction n as [|n IH]; intros p ts; [reflexivity|].
  cbn [repeat concat]. rewrite <- app_assoc, trun_app, (trun_copy fo u p ns Hne Hok), IH. now destruct n.
Qed.
Definition gunit_toks (u : unit_t) : list tok := TOpen :: body_toks (u_body u) ++ rest_toks u.
Lemma trun_gunit fo u s : u_body u <> [] -> body_ok fo (oord (u_bond u)) (u_body u) = true ->
  t_cur s = Some (u_name u) -> t_flag s = false ->
  trun (gunit_toks u) s = Some (tmk (Some (u_name u)) (oord (u_after u)) (t_names s) false).
Proof.
  intros Hne Hok Ec Ef. unfold gunit_toks, rest_toks. cbn [trun tstep]. rewrite Ef, Ec. rewrite trun_app.
  destruct (trun_body fo (u_body u) _ {| t_cur := Some (u_name u); t_pend := t_pend s; t_names := u_name u :: t_names s; t_flag := true |}
              Hne Hok) as (c & q & E).
  rewrite E. cbn [trun tstep tmk t_names].
  change {| t_cur := Some (u_name u); t_pend := 1; t_names := t_names s; t_flag := false |} with (tmk (Some (u_name u)) 1 (t_names s) false).
  rewrite (trun_copies fo u (t_names s) Hne Hok).
  rewrite <- (app_nil_r (osym_tok (u_after u))), trun_osym. cbn [trun tmk t_cur t_pend t_names t_flag].
  unfold tmk, oord. destruct (u_after u); [reflexivity|]. now destruct (digits_nat (u_count u) - 1)%nat.
Qed.
